package main

// Formulas: the source-to-Coq translator for the pure leaf formulas and the constant tables
// (the "way 1" tie of DESIGN.md section 2 at the formula level).
//
//	go2coq FormulasInfo   -repo <path>  > coq/Gen/FormulasInfo.v    constants, prop tables, info/map.go, info/stats.go
//	go2coq FormulasAttr   -repo <path>  > coq/Gen/FormulasAttr.v    pkg/engine/attribute (add.go, modify.go, attribute.go)
//	go2coq Formulas       -repo <path>  > coq/Gen/Formulas.v        combat/damage.go, hit.go, break.gen.go, shield/absorb.go
//	                                                                (as the hit model uses it), model.AttackType.IsQualified
//	go2coq FormulasHeal   -repo <path>  > coq/Gen/FormulasHeal.v    combat/heal.go
//	go2coq FormulasShield -repo <path>  > coq/Gen/FormulasShield.v  shield/add.go, shield/absorb.go (Model/Shield.v's vocabulary)
//	go2coq FormulasTurn   -repo <path>  > coq/Gen/FormulasTurn.v    turn/turn.go, turn/modify.go
//	go2coq FormulasQueue  -repo <path>  > coq/Gen/FormulasQueue.v   queue/queue.go Less, info.InsertPriority, abort flags
//
// One file per source area, so that a property's check depends only on the sources its model
// covers (C04: Info+Attr+Formulas, C17: Info+Attr+Heal, C06: Info, C07: Info+Attr, C16: Shield,
// C02: Turn, C10: Queue).  FormulasAttr / Formulas / FormulasHeal refer to FormulasInfo's
// definitions by qualified name; the generator re-translates that part silently to know them.
//
// Each generator translates a FIXED WHITELIST (formulas_specs.go) of Go functions, of named
// assignments inside Go functions, of constants and of constant tables into ordinary Gallina
// definitions over the vocabulary of the hand-written models (the NumOps record of the model,
// its snapshot / hit / unit records and their accessors).  coq/Proofs/Formulas*Proofs.v prove,
// for every generated definition, that it is equal to the hand-written model definition the
// theorems are about, for every NumOps instance and every argument.  So an edit of the Go source
// that changes a formula, a literal, a comparison, the party a factor reads or a table row
// breaks a kernel-checked proof obligation for all inputs.
//
// THE TRANSLATED SUBSET (anything else makes go2coq exit 1 naming file:line and the construct —
// the translator fails closed and never skips a statement of a translated function):
//
//	x := e, x = e, x op= e            let x := ... in              (also a.f = e when the whitelist names
//	                                                                a.f as a translated variable, and
//	                                                                m[k] = e on a property map: setp;
//	                                                                any other field write fails)
//	if c {..} else if d {..} else {..}   without return inside:  let (vars) := if c then .. else .. in
//	                                     with a return inside :  if c then (.. ; rest) else (.. ; rest)
//	switch k { case K: .. default: .. }  the same, as an if-chain on Z.eqb with the constants' values
//	return e                          e        (return <error> in an "abortable" function: None)
//	for _, k := range slices.Sorted(maps.Keys(m)) { v := m[k]; switch k { case K: acc += v * e ... } }
//	                                  fold_left over the model's key-sorted association list
//	                                  (the loop must have exactly this shape)
//	for _, k := range <order table> { v, ok := m[k]; if !ok { continue }; switch k { case K: acc += v * e } }
//	                                  fold_left over the generated order table (shield)
//	float literals                    lit N n d with the exact rational n/d of the constant
//	                                  (go/constant); integer-valued constants: nofZ N z
//	float64(i), int64(x)              nofZ N i, ntoZ N x
//	a+b a-b a*b a/b -a                nadd/nsub/nmul/ndiv/nopp, Go's left association kept;
//	                                  constant sub-expressions are folded exactly as the compiler does
//	a<b a<=b a==b a>b a>=b a!=b       nltb a b, nleb a b, neqb a b, nltb b a, nleb b a, negation of neqb
//	                                  (a negated condition of an if swaps the branches)
//	&& || !                           andb orb negb
//	field reads, method calls, package functions: ONLY through the accessor tables of
//	formulas_specs.go; a call of a whitelisted function becomes a call of its generated twin.
//
// Two modes per whitelisted function:
//
//	whole    every statement of the body is translated (damage.go, the getters of stats.go,
//	         PropMap.Modify, prop.Damage*, AttackType.IsQualified, queue Less, turn av / Less);
//	extract  functions that mix effects and arithmetic (performHit, newHit, Heal, AddShield,
//	         AbsorbDamage, the attribute and turn mutators): the statements of ONE named block
//	         that assign the named variables are translated, in order; their number is fixed in the
//	         whitelist (a missing or an additional assignment fails), every other assignment in
//	         the function to one of the named variables or to an input the formulas read must be
//	         listed verbatim in the whitelist and precede the translated statements, and every
//	         identifier read must be a named input.  What is NOT tied by this mode: the order of
//	         the effects (event emissions, service calls) around the arithmetic — that is what the
//	         hand-written models and the correspondence harness are for.
//
// NOT TRANSLATED (and why) — still tied by correspondence only:
//
//	info.Stats.SPD / Aggro / EffectHitRate / EffectRES   no model reads them (the turn model takes speeds as inputs)
//	info.Stats.MarshalJSON, NewStats, copyAttributes     map plumbing, no arithmetic (C06 models ownership by hand)
//	info.Stats.AddProperty / AddDebuffRES                append to the change log + Modify (an effect; Modify itself is translated)
//	info.Stats.IsWeakTo                                  a Go map of bool; the models keep a list (a data accessor of the table)
//	DebuffRESMap.GetDebuffRES                            variadic loop; C06's dres_get is its one-flag case
//	PropMap.AddAll / DebuffRESMap.AddAll / WeaknessMap   map iteration: classified by the C01 site tables
//	combat.Manager.Attack / EndAttack, newHit (except the ratio default), the routing of energy to
//	   attacker or defender in performHit                control flow and effects, no arithmetic
//	attribute.emitHPChangeEvents                         state machine (death is final, limbo), no arithmetic except
//	                                                     maxHP*ratio inside an event literal
//	shield.AbsorbDamage's removal loop, AddShield's replace-or-append     slice plumbing
//	turn.SetGauge's re-insertion loop, sort.Stable, FindTargetIndex       order manipulation (C02 models it)
//	queue.Insert / Pop (container/heap)                  library contract (C10 models pop-min and the array heap)
//	modifier stacking / ticking (C05), gcs evaluation (C12)   not formula leaves; outside this translator
//
// Numbers.  A float constant c of the source is emitted as lit N n d only when n and d are below
// 2^53 (both exactly representable, so that the correctly rounded quotient is the binary64 the
// Go compiler stores) — and the translator checks float64(n)/float64(d) == the compiler's value.
// A constant expression is folded exactly (arbitrary precision) and rounded once, as the compiler does.
// Table rows (BreakBaseDamage) are emitted as exact hexadecimal binary64 literals.
// Conversions between integer types are the identity on Z (no 32/64-bit wrap is modelled, except
// that ModifySP's addition wraps at 64 bits as the model says); float64 -> int64 is the model's
// ntoZ (truncation) and only available where the model's NumOps has it (the turn manager).

import (
	"fmt"
	"go/ast"
	"go/constant"
	"go/token"
	"go/types"
	"math/big"
	"os"
	"regexp"
	"sort"
	"strconv"
	"strings"

	"golang.org/x/tools/go/packages"
)

// ---------------------------------------------------------------------------------------
// values

type kind int

const (
	kNum    kind = iota // float64
	kInt                // any integer type (Z)
	kBool               // bool
	kObj                // a Go object the accessor tables know (hit, stats snapshot, map, ...)
	kOptNum             // a float64 whose computation may panic in Go (table index): option num
	kStr                // string constants (only compared / ignored)
)

type val struct {
	s   string // Coq text, atomic or parenthesised
	k   kind
	obj string // label of the object for kObj
	aux string // extra Coq text carried by an object (e.g. the id of a stats lookup)
}

func (k kind) String() string {
	return [...]string{"float64", "integer", "bool", "object", "partial float64", "string"}[k]
}

// ---------------------------------------------------------------------------------------
// dialects: the numeric vocabulary of a model

type dialect struct {
	name   string
	inst   string // the instance variable, e.g. "N"
	binder string // binder of the instance, e.g. "(N : CombatCore.NumOps)"
	numT   string // type of numbers
	add    string
	sub    string
	mul    string
	div    string // "" = not available
	opp    string
	ltb    string
	leb    string
	eqb    string
	toZ    string
	dim    string // math.Dim
	ofZf   string // the function applied to an integer expression ("" = not available)
	ofZ    func(z *big.Int) (string, error)
	lit    func(n, d *big.Int) (string, error)
}

func app(f string, args ...string) string { return "(" + f + " " + strings.Join(args, " ") + ")" }

func zlit(z *big.Int) string {
	if z.Sign() < 0 {
		return "(" + z.String() + ")"
	}
	return z.String()
}

// ---------------------------------------------------------------------------------------
// specifications (filled in formulas_specs.go)

type fmode int

const (
	mWhole fmode = iota
	mExtract
	mOccur
	mKVField
)

type fnSpec struct {
	pkg     string // import path suffix, e.g. "pkg/engine/combat"
	fn      string // "res", "(*Stats).MaxHP", "PropMap.Modify"
	coq     string // name of the generated definition
	key     string // accessor key under which other translated functions call it ("" = never called)
	rk      kind   // kind of the result (for callers)
	noInst  bool   // the definition does not take the NumOps instance
	mode    fmode
	params  string         // Coq binders after the instance binder
	ret     string         // Coq result type
	bind    map[string]val // Go identifier (parameter, receiver, local) -> value
	pseudo  map[string]val // Go expression text -> value (inputs such as "data.Amount")
	calls   map[string]val // accessor key -> value, overriding the world's table
	result  string         // whole mode with a mutated receiver: the Go variable that is the result
	abort   bool           // `return <error>` is the outcome None, results are wrapped in Some
	wrapInt bool           // integer + and - wrap at 64 bits

	// extract mode
	block   string   // "top", "range:<expr text>", "if:<cond text>"
	vars    []string // texts of the assigned left-hand sides
	count   int      // number of statements of the block that assign them
	allow   []string // texts of the other assignments to vars / inputs (must precede the block's first translated statement)
	res     string   // Coq result expression over the Coq names of the variables (see coqName)
	shallow bool     // only plain assignments directly in the block are translated (the initial values of loop
	// variables); the whitelisted other assignments may then follow them

	// occurrence mode: every assignment `lhs = e` anywhere in the function, in source order
	lhs    string
	names  []string // one generated definition per occurrence
	guards []string // name of a generated definition for the condition of the enclosing if ("" = none)

	// kvfield mode: the value of the unique `Field: e` of a composite literal in the function
	field string

	doc string
}

type accessor func(t *tr, key string, recv *val, args []val, at ast.Node) (val, bool, error)

type fworld struct {
	name       string
	d          *dialect
	requires   string                                                      // Require line(s) of the generated file
	access     accessor                                                    // data accessors and stdlib functions
	formulaKey func(t *tr, m val, z *big.Int, at ast.Node) (string, error) // pattern of a formula-term key
	generated  map[string]string                                           // accessor key of a whitelisted function -> generated name (filled while emitting)
}

// ---------------------------------------------------------------------------------------
// loading

type fsrc struct {
	root string
	pkgs map[string]*packages.Package // by import path
	fset *token.FileSet
}

func loadFormulas(root string, patterns ...string) *fsrc {
	cfg := &packages.Config{
		Mode: packages.NeedName | packages.NeedFiles | packages.NeedSyntax | packages.NeedTypes |
			packages.NeedTypesInfo | packages.NeedImports | packages.NeedDeps,
		Dir: root,
		Env: append(os.Environ(), "GOFLAGS=-mod=mod", "GOPROXY=off", "GOSUMDB=off", "GOTOOLCHAIN=local"),
	}
	pkgs, err := packages.Load(cfg, patterns...)
	if err != nil {
		die("loading packages: %v", err)
	}
	s := &fsrc{root: root, pkgs: map[string]*packages.Package{}}
	bad := []string{}
	packages.Visit(pkgs, nil, func(p *packages.Package) {
		if !strings.HasPrefix(p.PkgPath, modulePath) {
			return
		}
		for _, e := range p.Errors {
			bad = append(bad, fmt.Sprintf("%s: %v", p.PkgPath, e))
		}
		s.pkgs[p.PkgPath] = p
		if p.Fset != nil {
			s.fset = p.Fset
		}
	})
	if len(bad) > 0 {
		sort.Strings(bad)
		die("the repository does not type-check:\n  %s", strings.Join(bad, "\n  "))
	}
	return s
}

func (s *fsrc) pkg(suffix string) *packages.Package {
	p := s.pkgs[modulePath+"/"+suffix]
	if p == nil || p.Types == nil || p.TypesInfo == nil || len(p.Syntax) == 0 {
		die("Formulas: package %s is not part of the loaded source", suffix)
	}
	return p
}

func (s *fsrc) pos(n ast.Node) string {
	p := s.fset.Position(n.Pos())
	f := p.Filename
	if r, err := filepathRel(s.root, f); err == nil {
		f = r
	}
	return fmt.Sprintf("%s:%d", f, p.Line)
}

// funcDecl finds "name", "(*T).name" or "T.name" in the package.
func (s *fsrc) funcDecl(p *packages.Package, fn string) *ast.FuncDecl {
	var found *ast.FuncDecl
	for _, f := range p.Syntax {
		for _, d := range f.Decls {
			fd, ok := d.(*ast.FuncDecl)
			if !ok || fd.Body == nil {
				continue
			}
			name := fd.Name.Name
			if fd.Recv != nil && len(fd.Recv.List) == 1 {
				name = nodeText(s.fset, fd.Recv.List[0].Type) + "." + name
				if strings.HasPrefix(name, "*") {
					i := strings.Index(name, ".")
					name = "(" + name[:i] + ")" + name[i:]
				}
			}
			if name == fn {
				if found != nil {
					die("Formulas: %s declared twice in %s", fn, p.PkgPath)
				}
				found = fd
			}
		}
	}
	if found == nil {
		die("Formulas: whitelisted function %s not found in %s (renamed or removed: the obligation can no longer be generated)", fn, p.PkgPath)
	}
	return found
}

// ---------------------------------------------------------------------------------------
// the translator of one function

type tr struct {
	src    *fsrc
	w      *fworld
	g      *gen
	pkg    *packages.Package
	info   *types.Info
	spec   *fnSpec
	vars   map[string]val // Go variable (identifier, or the text of a.f) -> current Coq value
	params map[string]bool
	drawn  map[string]bool
}

type trErr struct{ msg string }

func (e *trErr) Error() string { return e.msg }

func (t *tr) fail(n ast.Node, f string, a ...any) error {
	return &trErr{fmt.Sprintf("%s: %s.%s: %s", t.src.pos(n), t.spec.pkg, t.spec.fn, fmt.Sprintf(f, a...))}
}

func (t *tr) text(n ast.Node) string { return nodeText(t.src.fset, n) }

var coqReserved = map[string]bool{
	"in": true, "let": true, "if": true, "then": true, "else": true, "match": true, "with": true, "end": true,
	"fun": true, "forall": true, "exists": true, "as": true, "at": true, "return": true, "fix": true, "cofix": true,
	"for": true, "where": true, "using": true, "Type": true, "Prop": true, "Set": true, "SProp": true, "IF": true,
	"N": true, "O": true, "Some": true, "None": true, "true": true, "false": true, "fst": true, "snd": true,
	"fold_left": true, "negb": true, "andb": true, "orb": true, "list": true, "option": true, "Z": true, "nil": true, "cons": true,
}

// coqName: the Coq variable a Go variable (or pseudo variable text) is bound to.
func (t *tr) coqName(goText string) string {
	var b strings.Builder
	for _, r := range goText {
		if r == '_' || (r >= '0' && r <= '9') || (r >= 'a' && r <= 'z') || (r >= 'A' && r <= 'Z') {
			b.WriteRune(r)
		} else {
			b.WriteRune('_')
		}
	}
	n := b.String()
	if n == "" || (n[0] >= '0' && n[0] <= '9') {
		n = "v" + n
	}
	for coqReserved[n] || t.g.names[n] || (t.params[n] && t.spec.bind[goText].s != n && t.spec.pseudo[goText].s != n) {
		n += "'"
	}
	return n
}

func kindOfType(ty types.Type) (kind, bool) {
	if b, ok := ty.Underlying().(*types.Basic); ok {
		switch {
		case b.Info()&types.IsFloat != 0:
			return kNum, true
		case b.Info()&types.IsInteger != 0:
			return kInt, true
		case b.Info()&types.IsBoolean != 0:
			return kBool, true
		case b.Info()&types.IsString != 0:
			return kStr, true
		}
	}
	return kObj, false
}

// ---- constants -------------------------------------------------------------------------

var two53 = new(big.Int).Lsh(big.NewInt(1), 53)

func (t *tr) constant(e ast.Expr, tv types.TypeAndValue) (val, error) {
	k, ok := kindOfType(tv.Type)
	if !ok {
		return val{}, t.fail(e, "constant %s of unsupported type %s", t.text(e), tv.Type)
	}
	// a named constant that has a generated twin is printed by name
	named := func(x ast.Expr) string {
		for {
			p, ok := x.(*ast.ParenExpr)
			if !ok {
				break
			}
			x = p.X
		}
		var id *ast.Ident
		switch y := x.(type) {
		case *ast.Ident:
			id = y
		case *ast.SelectorExpr:
			id = y.Sel
		}
		if id == nil {
			return ""
		}
		if c, ok := t.info.Uses[id].(*types.Const); ok {
			return t.g.constNames[constKey(c)]
		}
		return ""
	}
	switch k {
	case kBool:
		if constant.BoolVal(tv.Value) {
			return val{s: "true", k: kBool}, nil
		}
		return val{s: "false", k: kBool}, nil
	case kStr:
		return val{s: strconv.Quote(constant.StringVal(tv.Value)), k: kStr}, nil
	case kInt:
		if n := named(e); n != "" {
			return val{s: n, k: kInt}, nil
		}
		z, ok := constant.Val(constant.ToInt(tv.Value)).(*big.Int)
		if !ok {
			i, ok2 := constant.Int64Val(constant.ToInt(tv.Value))
			if !ok2 {
				return val{}, t.fail(e, "integer constant %s out of range", t.text(e))
			}
			z = big.NewInt(i)
		}
		return val{s: zlit(z), k: kInt}, nil
	case kNum:
		// float64(<named integer constant>)
		x := ast.Expr(e)
		for {
			p, ok := x.(*ast.ParenExpr)
			if !ok {
				break
			}
			x = p.X
		}
		if c, ok := x.(*ast.CallExpr); ok && len(c.Args) == 1 {
			if ftv, ok := t.info.Types[c.Fun]; ok && ftv.IsType() {
				if n := named(c.Args[0]); n != "" && t.w.d.ofZf != "" {
					return val{s: app(t.w.d.ofZf, n), k: kNum}, nil
				}
			}
		}
		// go/types records a float64 constant already rounded to binary64; the exact value of the
		// source expression (9/10 for .9) is recomputed from the literals with go/constant
		exact, ok := t.exactConst(e)
		if !ok {
			return val{}, t.fail(e, "float constant expression %s: its exact value cannot be recomputed from literals", t.text(e))
		}
		fe, _ := constant.Float64Val(exact)
		ft, _ := constant.Float64Val(tv.Value)
		if fe != ft {
			return val{}, t.fail(e, "float constant expression %s: recomputed value differs from the type checker's", t.text(e))
		}
		return t.floatConst(e, exact)
	}
	return val{}, t.fail(e, "constant %s of unsupported kind", t.text(e))
}

// exactConst: the exact (arbitrary precision) value of a constant expression, as the Go compiler
// computes it before the single rounding to binary64.
func (t *tr) exactConst(e ast.Expr) (constant.Value, bool) {
	switch x := e.(type) {
	case *ast.ParenExpr:
		return t.exactConst(x.X)
	case *ast.BasicLit:
		if x.Kind != token.INT && x.Kind != token.FLOAT {
			return nil, false
		}
		v := constant.MakeFromLiteral(x.Value, x.Kind, 0)
		return v, v.Kind() != constant.Unknown
	case *ast.Ident, *ast.SelectorExpr:
		id, _ := x.(*ast.Ident)
		if se, ok := x.(*ast.SelectorExpr); ok {
			id = se.Sel
		}
		c, ok := t.info.Uses[id].(*types.Const)
		if !ok {
			return nil, false
		}
		if b, ok := c.Type().Underlying().(*types.Basic); ok && b.Info()&types.IsFloat != 0 && b.Info()&types.IsUntyped == 0 {
			return nil, false // a typed float constant is rounded at its declaration: not recomputed here
		}
		return c.Val(), c.Val().Kind() == constant.Int || c.Val().Kind() == constant.Float
	case *ast.UnaryExpr:
		a, ok := t.exactConst(x.X)
		if !ok || (x.Op != token.SUB && x.Op != token.ADD) {
			return nil, false
		}
		return constant.UnaryOp(x.Op, a, 0), true
	case *ast.BinaryExpr:
		a, ok1 := t.exactConst(x.X)
		b, ok2 := t.exactConst(x.Y)
		if !ok1 || !ok2 {
			return nil, false
		}
		switch x.Op {
		case token.ADD, token.SUB, token.MUL:
			return constant.BinaryOp(a, x.Op, b), true
		case token.QUO:
			// float division unless both operands are integer-typed constants
			ta, tb := t.info.Types[x.X].Type, t.info.Types[x.Y].Type
			ka, _ := kindOfType(ta)
			kb, _ := kindOfType(tb)
			if ka == kInt && kb == kInt {
				return nil, false
			}
			if constant.Sign(b) == 0 {
				return nil, false
			}
			return constant.BinaryOp(constant.ToFloat(a), token.QUO, constant.ToFloat(b)), true
		}
		return nil, false
	case *ast.CallExpr: // float64(c)
		if ftv, ok := t.info.Types[x.Fun]; ok && ftv.IsType() && len(x.Args) == 1 {
			if k, _ := kindOfType(ftv.Type); k == kNum {
				return t.exactConst(x.Args[0])
			}
		}
	}
	return nil, false
}

func (t *tr) floatConst(e ast.Node, v constant.Value) (val, error) {
	d := t.w.d
	if iv := constant.ToInt(v); iv.Kind() == constant.Int {
		z := bigOf(iv)
		if z == nil || new(big.Int).Abs(z).Cmp(two53) >= 0 {
			return val{}, t.fail(e, "integer-valued float constant %s is not below 2^53", v.ExactString())
		}
		s, err := d.ofZ(z)
		if err != nil {
			return val{}, t.fail(e, "%v", err)
		}
		return val{s: s, k: kNum}, nil
	}
	num, den := bigOf(constant.Num(v)), bigOf(constant.Denom(v))
	if num == nil || den == nil {
		return val{}, t.fail(e, "float constant %s has no exact rational value (go/constant)", v.ExactString())
	}
	if new(big.Int).Abs(num).Cmp(two53) >= 0 || den.Cmp(two53) >= 0 {
		return val{}, t.fail(e, "float constant %s = %s/%s: numerator or denominator not below 2^53, lit would not be exact", v.String(), num, den)
	}
	f, _ := constant.Float64Val(v)
	nf, _ := new(big.Float).SetInt(num).Float64()
	df, _ := new(big.Float).SetInt(den).Float64()
	if nf/df != f {
		return val{}, t.fail(e, "float constant %s: float64(%s)/float64(%s) differs from the compiler's binary64 value", v.String(), num, den)
	}
	s, err := d.lit(num, den)
	if err != nil {
		return val{}, t.fail(e, "%v", err)
	}
	return val{s: s, k: kNum}, nil
}

func bigOf(v constant.Value) *big.Int {
	if v.Kind() != constant.Int {
		return nil
	}
	switch x := constant.Val(v).(type) {
	case *big.Int:
		return new(big.Int).Set(x)
	case int64:
		return big.NewInt(x)
	}
	return nil
}

func constKey(c *types.Const) string {
	if c.Pkg() == nil {
		return c.Name()
	}
	return c.Pkg().Path() + "." + c.Name()
}

// ---- accessor keys ---------------------------------------------------------------------

func typeKeyOf(ty types.Type) string {
	for {
		p, ok := ty.(*types.Pointer)
		if !ok {
			break
		}
		ty = p.Elem()
	}
	if n, ok := ty.(*types.Named); ok && n.Obj() != nil {
		if n.Obj().Pkg() != nil {
			return n.Obj().Pkg().Name() + "." + n.Obj().Name()
		}
		return n.Obj().Name()
	}
	return ty.String()
}

func (t *tr) access(key string, recv *val, args []val, at ast.Node) (val, error) {
	if v, ok := t.spec.calls[key]; ok {
		// a value taken from the run's random source is a different value at every call
		if strings.HasPrefix(key, "method:rand.") {
			if t.drawn[key] {
				return val{}, t.fail(at, "%s is called more than once: the model supplies one draw", key)
			}
			t.drawn[key] = true
		}
		return v, nil
	}
	if name, ok := t.w.generated[key]; ok {
		// call of a whitelisted function: its generated twin (instance first, then receiver, then arguments)
		parts := []string{}
		if !t.g.noInst[key] {
			parts = append(parts, t.g.instArg())
		}
		if recv != nil {
			parts = append(parts, recv.s)
		}
		for _, a := range args {
			parts = append(parts, a.s)
		}
		sig := t.g.sigs[key]
		out := val{s: app(name, parts...), k: sig.k, obj: sig.obj}
		if len(parts) == 0 {
			out.s = name
		}
		return out, nil
	}
	v, ok, err := t.w.access(t, key, recv, args, at)
	if err != nil {
		return val{}, err
	}
	if !ok {
		return val{}, t.fail(at, "%s is outside the accessor table of the %s translation (construct: %s)", key, t.w.name, t.text(at))
	}
	return v, nil
}

// ---- expressions -----------------------------------------------------------------------

func (t *tr) expr(e ast.Expr) (val, error) {
	if _, isId := e.(*ast.Ident); !isId {
		if v, ok := t.vars[t.text(e)]; ok {
			return v, nil
		}
	}
	if tv, ok := t.info.Types[e]; ok && tv.Value != nil {
		return t.constant(e, tv)
	}
	switch x := e.(type) {
	case *ast.ParenExpr:
		return t.expr(x.X)
	case *ast.Ident:
		obj := t.info.Uses[x]
		if obj == nil {
			obj = t.info.Defs[x]
		}
		pv, isVar := obj.(*types.Var)
		if isVar && !(pv.Pkg() != nil && pv.Parent() == pv.Pkg().Scope()) {
			if v, ok := t.vars[x.Name]; ok {
				return v, nil
			}
		}
		if isVar && pv.Pkg() != nil && pv.Parent() == pv.Pkg().Scope() {
			return t.access("var:"+pv.Pkg().Name()+"."+pv.Name(), nil, nil, x)
		}
		return val{}, t.fail(e, "identifier %s is not an input of the translated formula", x.Name)
	case *ast.UnaryExpr:
		a, err := t.expr(x.X)
		if err != nil {
			return val{}, err
		}
		switch {
		case x.Op == token.SUB && a.k == kNum:
			if t.w.d.opp == "" {
				return val{}, t.fail(e, "negation is not part of the %s vocabulary", t.w.d.name)
			}
			return val{s: app(t.w.d.opp, a.s), k: kNum}, nil
		case x.Op == token.SUB && a.k == kInt:
			return val{s: app("Z.opp", a.s), k: kInt}, nil
		case x.Op == token.NOT && a.k == kBool:
			return val{s: app("negb", a.s), k: kBool}, nil
		case x.Op == token.ADD && (a.k == kNum || a.k == kInt):
			return a, nil
		}
		return val{}, t.fail(e, "unary operator %s on %s", x.Op, a.k)
	case *ast.BinaryExpr:
		a, err := t.expr(x.X)
		if err != nil {
			return val{}, err
		}
		b, err := t.expr(x.Y)
		if err != nil {
			return val{}, err
		}
		return t.binop(x, x.Op, a, b)
	case *ast.CallExpr:
		return t.call(x)
	case *ast.SelectorExpr:
		if sel, ok := t.info.Selections[x]; ok {
			if sel.Kind() != types.FieldVal {
				return val{}, t.fail(e, "method value %s", t.text(e))
			}
			recv, err := t.expr(x.X)
			if err != nil {
				return val{}, err
			}
			return t.access("field:"+typeKeyOf(sel.Recv())+"."+x.Sel.Name, &recv, nil, x)
		}
		// qualified identifier pkg.Name
		if pv, ok := t.info.Uses[x.Sel].(*types.Var); ok && pv.Pkg() != nil {
			return t.access("var:"+pv.Pkg().Name()+"."+pv.Name(), nil, nil, x)
		}
		return val{}, t.fail(e, "selector %s", t.text(e))
	case *ast.IndexExpr:
		m, err := t.expr(x.X)
		if err != nil {
			return val{}, err
		}
		i, err := t.expr(x.Index)
		if err != nil {
			return val{}, err
		}
		if m.k != kObj {
			return val{}, t.fail(e, "index of a %s", m.k)
		}
		return t.access("index:"+m.obj, &m, []val{i}, x)
	}
	return val{}, t.fail(e, "expression form %T (%s)", e, t.text(e))
}

func (t *tr) binop(at ast.Node, op token.Token, a, b val) (val, error) {
	d := t.w.d
	switch {
	case a.k == kNum && b.k == kNum:
		switch op {
		case token.ADD:
			return val{s: app(d.add, a.s, b.s), k: kNum}, nil
		case token.SUB:
			return val{s: app(d.sub, a.s, b.s), k: kNum}, nil
		case token.MUL:
			return val{s: app(d.mul, a.s, b.s), k: kNum}, nil
		case token.QUO:
			if d.div == "" {
				return val{}, t.fail(at, "division is not part of the %s vocabulary", d.name)
			}
			return val{s: app(d.div, a.s, b.s), k: kNum}, nil
		case token.LSS:
			return val{s: app(d.ltb, a.s, b.s), k: kBool}, nil
		case token.LEQ:
			return val{s: app(d.leb, a.s, b.s), k: kBool}, nil
		case token.GTR:
			return val{s: app(d.ltb, b.s, a.s), k: kBool}, nil
		case token.GEQ:
			return val{s: app(d.leb, b.s, a.s), k: kBool}, nil
		case token.EQL:
			return val{s: app(d.eqb, a.s, b.s), k: kBool}, nil
		case token.NEQ:
			return val{s: app("negb", app(d.eqb, a.s, b.s)), k: kBool}, nil
		}
	case a.k == kInt && b.k == kInt:
		wrap := func(s string) string {
			if t.spec.wrapInt {
				return app("wrap_int64", s)
			}
			return s
		}
		switch op {
		case token.ADD:
			return val{s: wrap("(" + a.s + " + " + b.s + ")%Z"), k: kInt}, nil
		case token.SUB:
			return val{s: wrap("(" + a.s + " - " + b.s + ")%Z"), k: kInt}, nil
		case token.LSS:
			return val{s: "(" + a.s + " <? " + b.s + ")%Z", k: kBool}, nil
		case token.LEQ:
			return val{s: "(" + a.s + " <=? " + b.s + ")%Z", k: kBool}, nil
		case token.GTR:
			return val{s: "(" + b.s + " <? " + a.s + ")%Z", k: kBool}, nil
		case token.GEQ:
			return val{s: "(" + b.s + " <=? " + a.s + ")%Z", k: kBool}, nil
		case token.EQL:
			return val{s: "(" + a.s + " =? " + b.s + ")%Z", k: kBool}, nil
		case token.NEQ:
			return val{s: app("negb", "("+a.s+" =? "+b.s+")%Z"), k: kBool}, nil
		}
	case a.k == kBool && b.k == kBool:
		switch op {
		case token.LAND:
			return val{s: app("andb", a.s, b.s), k: kBool}, nil
		case token.LOR:
			return val{s: app("orb", a.s, b.s), k: kBool}, nil
		}
	}
	return val{}, t.fail(at, "operator %s on %s and %s", op, a.k, b.k)
}

func (t *tr) call(c *ast.CallExpr) (val, error) {
	if c.Ellipsis != token.NoPos {
		return val{}, t.fail(c, "variadic call %s", t.text(c))
	}
	// conversion
	if ftv, ok := t.info.Types[c.Fun]; ok && ftv.IsType() {
		if len(c.Args) != 1 {
			return val{}, t.fail(c, "conversion %s", t.text(c))
		}
		a, err := t.expr(c.Args[0])
		if err != nil {
			return val{}, err
		}
		k, ok := kindOfType(ftv.Type)
		if !ok {
			return val{}, t.fail(c, "conversion to %s", ftv.Type)
		}
		switch {
		case k == a.k:
			return a, nil // between integer types / between float types (float32 does not occur)
		case k == kNum && a.k == kInt:
			if t.w.d.ofZf == "" {
				return val{}, t.fail(c, "integer -> float64 conversion is not part of the %s vocabulary", t.w.d.name)
			}
			return val{s: app(t.w.d.ofZf, a.s), k: kNum}, nil
		case k == kInt && a.k == kNum:
			if t.w.d.toZ == "" {
				return val{}, t.fail(c, "float64 -> integer conversion is not part of the %s vocabulary", t.w.d.name)
			}
			return val{s: app(t.w.d.toZ, a.s), k: kInt}, nil
		}
		return val{}, t.fail(c, "conversion of a %s to %s", a.k, ftv.Type)
	}
	args := []val{}
	for _, a := range c.Args {
		v, err := t.expr(a)
		if err != nil {
			return val{}, err
		}
		args = append(args, v)
	}
	switch f := c.Fun.(type) {
	case *ast.Ident:
		if fn, ok := t.info.Uses[f].(*types.Func); ok && fn.Pkg() != nil {
			return t.access("func:"+fn.Pkg().Name()+"."+fn.Name(), nil, args, c)
		}
	case *ast.SelectorExpr:
		if sel, ok := t.info.Selections[f]; ok {
			if sel.Kind() != types.MethodVal {
				return val{}, t.fail(c, "call of a function-valued field %s", t.text(c))
			}
			recv, err := t.expr(f.X)
			if err != nil {
				return val{}, err
			}
			return t.access("method:"+typeKeyOf(sel.Recv())+"."+f.Sel.Name, &recv, args, c)
		}
		if fn, ok := t.info.Uses[f.Sel].(*types.Func); ok && fn.Pkg() != nil {
			return t.access("func:"+fn.Pkg().Name()+"."+fn.Name(), nil, args, c)
		}
	}
	return val{}, t.fail(c, "call %s", t.text(c))
}

// cond: a boolean expression with a top-level negation split off (the caller swaps branches)
func (t *tr) cond(e ast.Expr) (string, bool, error) {
	for {
		p, ok := e.(*ast.ParenExpr)
		if !ok {
			break
		}
		e = p.X
	}
	if u, ok := e.(*ast.UnaryExpr); ok && u.Op == token.NOT {
		s, neg, err := t.cond(u.X)
		return s, !neg, err
	}
	if b, ok := e.(*ast.BinaryExpr); ok && b.Op == token.NEQ {
		if tv, ok := t.info.Types[e]; !ok || tv.Value == nil {
			x, err := t.expr(b.X)
			if err != nil {
				return "", false, err
			}
			y, err := t.expr(b.Y)
			if err != nil {
				return "", false, err
			}
			v, err := t.binop(b, token.EQL, x, y)
			return v.s, true, err
		}
	}
	v, err := t.expr(e)
	if err != nil {
		return "", false, err
	}
	if v.k != kBool {
		return "", false, t.fail(e, "condition of kind %s", v.k)
	}
	return v.s, false, nil
}

// ---- statements ------------------------------------------------------------------------

type cont func() (string, error)

func ind(n int) string { return strings.Repeat("  ", n) }

// lhsKey: the variable an assignment writes.  For x: the object; for a.f: the text; for m[k]: m.
func (t *tr) lhsName(e ast.Expr) (string, error) {
	switch x := e.(type) {
	case *ast.Ident:
		if x.Name == "_" {
			return "", t.fail(e, "assignment to the blank identifier")
		}
		return x.Name, nil
	case *ast.SelectorExpr:
		// a.f = e: only for the field variables the whitelist names (a write through a pointer or to a
		// struct the caller sees is an effect, not a local binding)
		txt := t.text(x)
		ok := txt == t.spec.lhs
		for _, v := range t.spec.vars {
			ok = ok || v == txt
		}
		if _, isIn := t.spec.pseudo[txt]; !ok && !isIn {
			return "", t.fail(e, "assignment to the field %s, which is not a translated variable of the whitelist", txt)
		}
		return txt, nil
	case *ast.IndexExpr:
		return t.lhsName(x.X)
	case *ast.ParenExpr:
		return t.lhsName(x.X)
	}
	return "", t.fail(e, "assignment to %s", t.text(e))
}

// assignedIn: the variables (by Go text) assigned in the statements that live outside them, in order.
func (t *tr) assignedIn(stmts []ast.Stmt) ([]string, error) {
	seen := map[string]bool{}
	local := map[string]bool{}
	out := []string{}
	var err error
	add := func(e ast.Expr, define bool) {
		n, e2 := t.lhsName(e)
		if e2 != nil {
			if err == nil {
				err = e2
			}
			return
		}
		if id, ok := e.(*ast.Ident); ok && define {
			if t.info.Defs[id] != nil { // newly declared inside: local to the branch
				local[n] = true
				return
			}
		}
		if !seen[n] && !local[n] {
			seen[n] = true
			out = append(out, n)
		}
	}
	for _, s := range stmts {
		ast.Inspect(s, func(n ast.Node) bool {
			switch x := n.(type) {
			case *ast.AssignStmt:
				for _, l := range x.Lhs {
					add(l, x.Tok == token.DEFINE)
				}
			case *ast.IncDecStmt:
				add(x.X, false)
			case *ast.RangeStmt:
				if x.Tok == token.DEFINE {
					for _, kv := range []ast.Expr{x.Key, x.Value} {
						if id, ok := kv.(*ast.Ident); ok && id.Name != "_" {
							local[id.Name] = true
						}
					}
				}
			case *ast.FuncLit:
				return false
			}
			return true
		})
	}
	return out, err
}

func containsReturn(stmts []ast.Stmt) bool {
	found := false
	for _, s := range stmts {
		ast.Inspect(s, func(n ast.Node) bool {
			switch n.(type) {
			case *ast.ReturnStmt:
				found = true
			case *ast.FuncLit:
				return false
			}
			return true
		})
	}
	return found
}

// current Coq value of a Go variable given by its text
func (t *tr) readVar(at ast.Node, name string) (val, error) {
	if v, ok := t.vars[name]; ok {
		return v, nil
	}
	return val{}, t.fail(at, "variable %s is read before the translated statements give it a value (not a named input)", name)
}

func (t *tr) tuple(at ast.Node, names []string) (string, error) {
	parts := []string{}
	for _, n := range names {
		v, err := t.readVar(at, n)
		if err != nil {
			return "", err
		}
		parts = append(parts, v.s)
	}
	if len(parts) == 1 {
		return parts[0], nil
	}
	return "(" + strings.Join(parts, ", ") + ")", nil
}

// bindVar records that the Go variable now lives in the Coq variable of its name.
func (t *tr) bindVar(at ast.Node, lhs ast.Expr, v val) (string, error) {
	name, err := t.lhsName(lhs)
	if err != nil {
		return "", err
	}
	cn := t.coqName(name)
	t.vars[name] = val{s: cn, k: v.k, obj: v.obj, aux: v.aux}
	return cn, nil
}

func (t *tr) snapshot() map[string]val {
	m := map[string]val{}
	for k, v := range t.vars {
		m[k] = v
	}
	return m
}

func (t *tr) seq(stmts []ast.Stmt, depth int, k cont) (string, error) {
	if len(stmts) == 0 {
		return k()
	}
	s := stmts[0]
	rest := func() (string, error) { return t.seq(stmts[1:], depth, k) }
	switch x := s.(type) {
	case *ast.EmptyStmt:
		return rest()
	case *ast.BlockStmt:
		return t.seq(append(append([]ast.Stmt{}, x.List...), stmts[1:]...), depth, k)
	case *ast.AssignStmt:
		return t.assign(x, depth, rest)
	case *ast.ReturnStmt:
		if len(stmts) != 1 {
			return "", t.fail(stmts[1], "statement after return")
		}
		return t.ret(x)
	case *ast.IfStmt:
		return t.branch(x, depth, rest)
	case *ast.SwitchStmt:
		return t.branch(x, depth, rest)
	case *ast.RangeStmt:
		return t.rangeLoop(x, depth, rest)
	}
	return "", t.fail(s, "statement form %T is outside the translated subset: %s", s, firstLine(t.text(s)))
}

func firstLine(s string) string {
	if len(s) > 90 {
		return s[:90] + " ..."
	}
	return s
}

func (t *tr) assign(x *ast.AssignStmt, depth int, rest cont) (string, error) {
	if len(x.Lhs) != 1 || len(x.Rhs) != 1 {
		return "", t.fail(x, "multiple assignment %s", firstLine(t.text(x)))
	}
	rhs, err := t.expr(x.Rhs[0])
	if err != nil {
		return "", err
	}
	lhs := x.Lhs[0]
	var cur val
	isIndex := false
	var mapv, idx val
	if ix, ok := lhs.(*ast.IndexExpr); ok {
		isIndex = true
		if mapv, err = t.expr(ix.X); err != nil {
			return "", err
		}
		if idx, err = t.expr(ix.Index); err != nil {
			return "", err
		}
		if mapv.k != kObj {
			return "", t.fail(x, "indexed assignment to a %s", mapv.k)
		}
	}
	var v val
	switch x.Tok {
	case token.DEFINE, token.ASSIGN:
		v = rhs
	case token.ADD_ASSIGN, token.SUB_ASSIGN, token.MUL_ASSIGN, token.QUO_ASSIGN:
		if isIndex {
			cur, err = t.access("index:"+mapv.obj, &mapv, []val{idx}, lhs)
		} else {
			cur, err = t.expr(lhs)
		}
		if err != nil {
			return "", err
		}
		op := map[token.Token]token.Token{token.ADD_ASSIGN: token.ADD, token.SUB_ASSIGN: token.SUB,
			token.MUL_ASSIGN: token.MUL, token.QUO_ASSIGN: token.QUO}[x.Tok]
		if v, err = t.binop(x, op, cur, rhs); err != nil {
			return "", err
		}
	default:
		return "", t.fail(x, "assignment operator %s", x.Tok)
	}
	if x.Tok != token.DEFINE && !isIndex {
		// the kind of a variable never changes
		if old, err2 := t.expr(lhs); err2 == nil && old.k != v.k {
			return "", t.fail(x, "assignment of a %s to a %s variable", v.k, old.k)
		}
	}
	if v.k == kStr {
		return "", t.fail(x, "string-valued assignment %s", firstLine(t.text(x)))
	}
	if isIndex {
		upd, err := t.access("update:"+mapv.obj, &mapv, []val{idx, v}, x)
		if err != nil {
			return "", err
		}
		v = upd
	}
	cn, err := t.bindVar(x, lhs, v)
	if err != nil {
		return "", err
	}
	r, err := rest()
	if err != nil {
		return "", err
	}
	return "let " + cn + " := " + unparen(v.s) + " in\n" + ind(depth) + r, nil
}

func unparen(s string) string {
	if len(s) < 2 || s[0] != '(' || s[len(s)-1] != ')' {
		return s
	}
	// only when the outer parentheses match each other
	d := 0
	for i, r := range s {
		switch r {
		case '(':
			d++
		case ')':
			d--
			if d == 0 && i != len(s)-1 {
				return s
			}
		}
	}
	if strings.HasSuffix(s, ")%Z") {
		return s
	}
	return s[1 : len(s)-1]
}

func (t *tr) isAbort(x *ast.ReturnStmt) bool {
	if len(x.Results) == 0 {
		return false
	}
	last := x.Results[len(x.Results)-1]
	tv, ok := t.info.Types[last]
	if !ok || tv.Type == nil || tv.Type.String() != "error" {
		return false
	}
	return !tv.IsNil()
}

func (t *tr) ret(x *ast.ReturnStmt) (string, error) {
	if t.isAbort(x) {
		if !t.spec.abort {
			return "", t.fail(x, "error return %s in a function whose translation has no error outcome", firstLine(t.text(x)))
		}
		return "None", nil
	}
	if t.spec.mode != mWhole {
		return "", t.fail(x, "return inside the translated statements: %s", firstLine(t.text(x)))
	}
	var s string
	switch {
	case t.spec.result != "" && len(x.Results) == 0:
		v, err := t.readVar(x, t.spec.result)
		if err != nil {
			return "", err
		}
		s = v.s
	case len(x.Results) == 1:
		v, err := t.expr(x.Results[0])
		if err != nil {
			return "", err
		}
		if v.k == kObj || v.k == kStr {
			return "", t.fail(x, "result of kind %s", v.k)
		}
		s = v.s
	default:
		return "", t.fail(x, "return with %d results", len(x.Results))
	}
	if t.spec.abort {
		return app("Some", s), nil
	}
	return unparen(s), nil
}

type arm struct {
	cond string // "" = default
	neg  bool
	body []ast.Stmt
	at   ast.Node
}

// branch: if / else-if chains and switch statements as a list of arms
func (t *tr) arms(s ast.Stmt) ([]arm, error) {
	switch x := s.(type) {
	case *ast.IfStmt:
		if x.Init != nil {
			return nil, t.fail(x, "if statement with an initialiser: %s", firstLine(t.text(x)))
		}
		c, neg, err := t.cond(x.Cond)
		if err != nil {
			return nil, err
		}
		out := []arm{{cond: c, neg: neg, body: x.Body.List, at: x}}
		switch e := x.Else.(type) {
		case nil:
			out = append(out, arm{body: nil, at: x})
		case *ast.BlockStmt:
			out = append(out, arm{body: e.List, at: e})
		case *ast.IfStmt:
			out = append(out, arm{body: []ast.Stmt{e}, at: e})
		default:
			return nil, t.fail(x, "else form %T", x.Else)
		}
		return out, nil
	case *ast.SwitchStmt:
		if x.Init != nil {
			return nil, t.fail(x, "switch with an initialiser")
		}
		var tag *val
		if x.Tag != nil {
			v, err := t.expr(x.Tag)
			if err != nil {
				return nil, err
			}
			if v.k != kInt && v.k != kBool {
				return nil, t.fail(x, "switch on a %s", v.k)
			}
			tag = &v
		}
		out := []arm{}
		var def *arm
		for _, cs := range x.Body.List {
			cc := cs.(*ast.CaseClause)
			for _, b := range cc.Body {
				if br, ok := b.(*ast.BranchStmt); ok {
					return nil, t.fail(br, "%s inside a switch", br.Tok)
				}
			}
			if cc.List == nil {
				if def != nil {
					return nil, t.fail(cc, "two default clauses")
				}
				def = &arm{body: cc.Body, at: cc}
				continue
			}
			conds := []string{}
			for _, e := range cc.List {
				v, err := t.expr(e)
				if err != nil {
					return nil, err
				}
				if tag == nil {
					if v.k != kBool {
						return nil, t.fail(e, "case of kind %s in a tagless switch", v.k)
					}
					conds = append(conds, v.s)
					continue
				}
				if tv, ok := t.info.Types[e]; !ok || tv.Value == nil {
					return nil, t.fail(e, "case value %s is not a constant", t.text(e))
				}
				c, err := t.binop(e, token.EQL, *tag, v)
				if err != nil {
					return nil, err
				}
				conds = append(conds, c.s)
			}
			c := conds[0]
			for _, d := range conds[1:] {
				c = app("orb", c, d)
			}
			out = append(out, arm{cond: c, body: cc.Body, at: cc})
		}
		if def != nil {
			out = append(out, *def)
		} else {
			out = append(out, arm{body: nil, at: x})
		}
		return out, nil
	}
	return nil, t.fail(s, "not a branch statement")
}

func (t *tr) branch(s ast.Stmt, depth int, rest cont) (string, error) {
	arms, err := t.arms(s)
	if err != nil {
		return "", err
	}
	all := []ast.Stmt{}
	for i, a := range arms {
		all = append(all, a.body...)
		if a.neg && (i != 0 || len(arms) != 2) {
			return "", t.fail(a.at, "negated condition in an else-if chain")
		}
	}
	assemble := func(bodies []string) string {
		if len(arms) == 2 && arms[0].neg { // if !c {A} else {B}  ==  if c then B else A
			return "if " + arms[0].cond + " then " + wrapLet(bodies[1]) + " else " + wrapLet(bodies[0])
		}
		out := ""
		for i, a := range arms {
			if i == len(arms)-1 {
				out += wrapLet(bodies[i])
			} else {
				out += "if " + a.cond + " then " + wrapLet(bodies[i]) + "\n" + ind(depth) + "else "
			}
		}
		return out
	}
	bodies := make([]string, len(arms))
	if containsReturn(all) {
		// some arm returns: the rest of the block is duplicated into the arms that fall through
		for i, a := range arms {
			save := t.snapshot()
			bodies[i], err = t.seq(a.body, depth+1, rest)
			t.vars = save
			if err != nil {
				return "", err
			}
		}
		return assemble(bodies), nil
	}
	// no arm returns: the arms only assign; the assigned variables are rebound by one let
	vars, err := t.assignedIn(all)
	if err != nil {
		return "", err
	}
	if len(vars) == 0 {
		return "", t.fail(s, "branch statement without an assignment to a translated variable: %s", firstLine(t.text(s)))
	}
	kinds := make([]val, len(vars))
	for i, v := range vars {
		if kinds[i], err = t.readVar(s, v); err != nil {
			return "", err
		}
	}
	for i, a := range arms {
		save := t.snapshot()
		bodies[i], err = t.seq(a.body, depth+1, func() (string, error) { return t.tuple(a.at, vars) })
		t.vars = save
		if err != nil {
			return "", err
		}
	}
	pats := []string{}
	for i, v := range vars {
		cn := t.coqName(v)
		pats = append(pats, cn)
		t.vars[v] = val{s: cn, k: kinds[i].k, obj: kinds[i].obj, aux: kinds[i].aux}
	}
	pat := pats[0]
	if len(pats) > 1 {
		pat = "'(" + strings.Join(pats, ", ") + ")"
	}
	r, err := rest()
	if err != nil {
		return "", err
	}
	return "let " + pat + " := " + assemble(bodies) + " in\n" + ind(depth) + r, nil
}

func wrapLet(s string) string {
	if strings.HasPrefix(s, "let ") || strings.HasPrefix(s, "if ") || strings.HasPrefix(s, "match ") {
		return "(" + s + ")"
	}
	return s
}

// ---- the two loop shapes ---------------------------------------------------------------

// for _, k := range slices.Sorted(maps.Keys(m)) { v := m[k]; switch k { case K: acc += v * e ... } }
// for _, k := range <order table>               { v, ok := m[k]; if !ok { continue }; switch k { ... } }
func (t *tr) rangeLoop(x *ast.RangeStmt, depth int, rest cont) (string, error) {
	bad := func(why string) (string, error) {
		return "", t.fail(x, "range loop outside the two translated shapes (%s): %s", why, firstLine(t.text(x)))
	}
	kid, ok := x.Value.(*ast.Ident)
	if kb, ok2 := x.Key.(*ast.Ident); !ok || !ok2 || kb.Name != "_" || x.Tok != token.DEFINE {
		return bad("header must be `for _, k := range`")
	}
	if len(x.Body.List) < 2 {
		return bad("body too short")
	}
	sorted := false
	var mtext string
	var order val
	if c, ok := x.X.(*ast.CallExpr); ok && t.text(c.Fun) == "slices.Sorted" && len(c.Args) == 1 {
		c2, ok := c.Args[0].(*ast.CallExpr)
		if !ok || t.text(c2.Fun) != "maps.Keys" || len(c2.Args) != 1 {
			return bad("slices.Sorted(maps.Keys(m)) expected")
		}
		for _, f := range []ast.Expr{c.Fun, c2.Fun} {
			se, ok := f.(*ast.SelectorExpr)
			if !ok {
				return bad("slices.Sorted / maps.Keys expected")
			}
			fn, ok := t.info.Uses[se.Sel].(*types.Func)
			if !ok || fn.Pkg() == nil || (fn.Pkg().Path() != "slices" && fn.Pkg().Path() != "maps") {
				return bad("slices.Sorted / maps.Keys of the standard library expected")
			}
		}
		sorted = true
		mtext = t.text(c2.Args[0])
	} else {
		v, err := t.expr(x.X)
		if err != nil {
			return "", err
		}
		if v.k != kObj || v.obj != "ordertable" {
			return bad("range over something that is neither slices.Sorted(maps.Keys(m)) nor a generated order table")
		}
		order = v
	}
	stmts := x.Body.List
	// v := m[k]   /   v, ok := m[k]; if !ok { continue }
	as, ok := stmts[0].(*ast.AssignStmt)
	if !ok || as.Tok != token.DEFINE || len(as.Rhs) != 1 {
		return bad("first statement must be v := m[k]")
	}
	ix, ok := as.Rhs[0].(*ast.IndexExpr)
	if !ok || t.text(ix.Index) != kid.Name {
		return bad("first statement must read m[k]")
	}
	vid, ok := as.Lhs[0].(*ast.Ident)
	if !ok {
		return bad("first statement must define v")
	}
	var sw *ast.SwitchStmt
	if sorted {
		if len(as.Lhs) != 1 || t.text(ix.X) != mtext || len(stmts) != 2 {
			return bad("body must be `v := m[k]; switch k {...}` with the ranged map m")
		}
		sw, _ = stmts[1].(*ast.SwitchStmt)
	} else {
		if len(as.Lhs) != 2 || len(stmts) != 3 {
			return bad("body must be `v, ok := m[k]; if !ok { continue }; switch k {...}`")
		}
		okid, ok1 := as.Lhs[1].(*ast.Ident)
		ifs, ok2 := stmts[1].(*ast.IfStmt)
		if !ok1 || !ok2 || ifs.Init != nil || ifs.Else != nil || t.text(ifs.Cond) != "!"+okid.Name || len(ifs.Body.List) != 1 {
			return bad("second statement must be `if !ok { continue }`")
		}
		if br, ok := ifs.Body.List[0].(*ast.BranchStmt); !ok || br.Tok != token.CONTINUE || br.Label != nil {
			return bad("second statement must be `if !ok { continue }`")
		}
		mtext = t.text(ix.X)
		sw, _ = stmts[2].(*ast.SwitchStmt)
	}
	if sw == nil || sw.Init != nil || sw.Tag == nil || t.text(sw.Tag) != kid.Name {
		return bad("last statement must be `switch k {...}`")
	}
	m, err := t.expr(ix.X)
	if err != nil {
		return "", err
	}
	if m.k != kObj || (m.obj != "terms" && m.obj != "formula") {
		return bad("the ranged map is not a formula-term map of the model")
	}
	// clauses
	type clause struct {
		key  string
		z    *big.Int
		stat val
	}
	clauses := []clause{}
	accName := ""
	var accExpr ast.Expr
	for _, cs := range sw.Body.List {
		cc := cs.(*ast.CaseClause)
		if cc.List == nil {
			return "", t.fail(cc, "default clause in a formula-term switch")
		}
		if len(cc.List) != 1 || len(cc.Body) != 1 {
			return "", t.fail(cc, "a clause of a formula-term switch must be `case K: acc += v * e`")
		}
		tv, ok := t.info.Types[cc.List[0]]
		if !ok || tv.Value == nil {
			return "", t.fail(cc, "case value %s is not a constant", t.text(cc.List[0]))
		}
		z := bigOf(constant.ToInt(tv.Value))
		if z == nil {
			return "", t.fail(cc, "case value %s is not an integer constant", t.text(cc.List[0]))
		}
		a, ok := cc.Body[0].(*ast.AssignStmt)
		if !ok || a.Tok != token.ADD_ASSIGN || len(a.Lhs) != 1 || len(a.Rhs) != 1 {
			return "", t.fail(cc.Body[0], "a clause of a formula-term switch must be `acc += v * e`: %s", firstLine(t.text(cc.Body[0])))
		}
		if accName == "" {
			accName = t.text(a.Lhs[0])
			accExpr = a.Lhs[0]
		} else if accName != t.text(a.Lhs[0]) {
			return "", t.fail(a, "clauses accumulate into different variables (%s, %s)", accName, t.text(a.Lhs[0]))
		}
		mul, ok := a.Rhs[0].(*ast.BinaryExpr)
		if !ok || mul.Op != token.MUL || t.text(mul.X) != vid.Name {
			return "", t.fail(a, "a clause of a formula-term switch must be `acc += v * e`: %s", firstLine(t.text(a)))
		}
		st, err := t.expr(mul.Y)
		if err != nil {
			return "", err
		}
		if st.k != kNum && st.k != kOptNum {
			return "", t.fail(mul.Y, "formula-term factor of kind %s", st.k)
		}
		key, err := t.w.formulaKey(t, m, z, cc)
		if err != nil {
			return "", err
		}
		for _, c := range clauses {
			if c.z.Cmp(z) == 0 {
				return "", t.fail(cc, "duplicate case %s", z)
			}
		}
		clauses = append(clauses, clause{key: key, z: z, stat: st})
	}
	if accName == "" {
		return bad("empty switch")
	}
	acc, err := t.expr(accExpr)
	if err != nil {
		return "", err
	}
	if acc.k != kNum {
		return "", t.fail(x, "accumulator %s of kind %s", accName, acc.k)
	}
	partial := false
	for _, c := range clauses {
		if c.stat.k == kOptNum {
			partial = true
		}
	}
	sort.SliceStable(clauses, func(i, j int) bool { return clauses[i].z.Cmp(clauses[j].z) < 0 })
	d := t.w.d
	var table strings.Builder
	table.WriteString("match k__ with")
	for _, c := range clauses {
		s := app("Some", c.stat.s)
		if partial {
			if c.stat.k == kOptNum {
				s = app("Some", c.stat.s)
			} else {
				s = app("Some", app("Some", c.stat.s))
			}
		}
		table.WriteString("\n" + ind(depth+3) + "| " + c.key + " => " + unparen(s))
	}
	table.WriteString("\n" + ind(depth+3) + "| _ => None\n" + ind(depth+3) + "end")
	var fold string
	resKind := kNum
	switch {
	case sorted && !partial:
		fold = "fold_left (fun acc__ kv__ =>\n" + ind(depth+2) + "match (let k__ := fst kv__ in " + table.String() + ") with\n" +
			ind(depth+2) + "| Some x__ => " + unparen(app(d.add, "acc__", app(d.mul, "(snd kv__)", "x__"))) + "\n" +
			ind(depth+2) + "| None => acc__\n" + ind(depth+2) + "end) " + m.s + " " + acc.s
	case sorted && partial:
		resKind = kOptNum
		fold = "fold_left (fun acc__ kv__ =>\n" + ind(depth+2) + "match acc__ with\n" + ind(depth+2) + "| None => None\n" + ind(depth+2) +
			"| Some d__ =>\n" + ind(depth+3) + "match (let k__ := fst kv__ in " + table.String() + ") with\n" +
			ind(depth+3) + "| None => Some d__\n" + ind(depth+3) + "| Some None => None\n" +
			ind(depth+3) + "| Some (Some x__) => Some " + app(d.add, "d__", app(d.mul, "(snd kv__)", "x__")) + "\n" +
			ind(depth+3) + "end\n" + ind(depth+2) + "end) " + m.s + " (Some " + acc.s + ")"
	case !sorted && !partial:
		look, err := t.access("lookup:"+m.obj, &m, []val{{s: "k__", k: kInt}}, x)
		if err != nil {
			return "", err
		}
		fold = "fold_left (fun acc__ k__ =>\n" + ind(depth+2) + "match " + unparen(look.s) + ", " + table.String() + " with\n" +
			ind(depth+2) + "| Some v__, Some s__ => " + unparen(app(d.add, "acc__", app(d.mul, "v__", "s__"))) + "\n" +
			ind(depth+2) + "| _, _ => acc__\n" + ind(depth+2) + "end) " + order.s + " " + acc.s
	default:
		return bad("a table lookup that may panic inside an order-table loop")
	}
	cn, err := t.bindVar(x, accExpr, val{k: resKind})
	if err != nil {
		return "", err
	}
	r, err := rest()
	if err != nil {
		return "", err
	}
	return "let " + cn + " :=\n" + ind(depth+1) + fold + " in\n" + ind(depth) + r, nil
}

// ---------------------------------------------------------------------------------------
// driving one specification

func (g *gen) newTr(sp *fnSpec) (*tr, *ast.FuncDecl) {
	p := g.src.pkg(sp.pkg)
	t := &tr{src: g.src, w: g.w, g: g, pkg: p, info: p.TypesInfo, spec: sp, vars: map[string]val{}, params: map[string]bool{}, drawn: map[string]bool{}}
	for k, v := range sp.bind {
		t.vars[k] = v
	}
	for k, v := range sp.pseudo {
		t.vars[k] = v
	}
	for _, m := range binderRe.FindAllStringSubmatch(g.w.d.binder+" "+sp.params, -1) {
		for _, n := range strings.Fields(m[1]) {
			t.params[n] = true
		}
	}
	return t, g.src.funcDecl(p, sp.fn)
}

var binderRe = regexp.MustCompile(`\(([^:()]+):`)

func (g *gen) header(sp *fnSpec, name, ret string) string {
	b := g.w.d.binder
	if sp.noInst {
		b = ""
	}
	if sp.params != "" {
		b += " " + sp.params
	}
	return "Definition " + name + " " + strings.TrimSpace(b) + " : " + ret + " :=\n  "
}

func (g *gen) whole(sp *fnSpec) (string, error) {
	t, fd := g.newTr(sp)
	// every parameter and the receiver must be a named input
	names := []*ast.Ident{}
	if fd.Recv != nil {
		for _, f := range fd.Recv.List {
			names = append(names, f.Names...)
		}
	}
	for _, f := range fd.Type.Params.List {
		names = append(names, f.Names...)
	}
	for _, id := range names {
		if id.Name == "_" {
			continue
		}
		if _, ok := sp.bind[id.Name]; !ok {
			return "", t.fail(id, "parameter %s has no binding in the whitelist (signature changed)", id.Name)
		}
	}
	if len(names) != len(sp.bind) {
		return "", t.fail(fd, "the function has %d named parameters, the whitelist binds %d (signature changed)", len(names), len(sp.bind))
	}
	body, err := t.seq(fd.Body.List, 1, func() (string, error) {
		if sp.result != "" {
			v, err := t.readVar(fd, sp.result)
			if err != nil {
				return "", err
			}
			if sp.abort {
				return app("Some", v.s), nil
			}
			return v.s, nil
		}
		return "", t.fail(fd, "control reaches the end of the function without a return")
	})
	if err != nil {
		return "", err
	}
	return fmt.Sprintf("(* %s: func %s *)\n", sp.pkg, fnShown(sp.fn)) + g.header(sp, sp.coq, sp.ret) + body + ".\n", nil
}

// parents: the chain of enclosing nodes of every node of the function
func parentsOf(root ast.Node) map[ast.Node]ast.Node {
	par := map[ast.Node]ast.Node{}
	stack := []ast.Node{}
	ast.Inspect(root, func(n ast.Node) bool {
		if n == nil {
			stack = stack[:len(stack)-1]
			return true
		}
		if len(stack) > 0 {
			par[n] = stack[len(stack)-1]
		}
		stack = append(stack, n)
		return true
	})
	return par
}

func (t *tr) findBlock(fd *ast.FuncDecl, sel string) (*ast.BlockStmt, error) {
	if sel == "" || sel == "top" {
		return fd.Body, nil
	}
	var found []*ast.BlockStmt
	ast.Inspect(fd.Body, func(n ast.Node) bool {
		switch x := n.(type) {
		case *ast.RangeStmt:
			if sel == "range:"+t.text(x.X) {
				found = append(found, x.Body)
			}
		case *ast.IfStmt:
			c := t.text(x.Cond)
			if x.Init != nil {
				c = t.text(x.Init) + "; " + c
			}
			if sel == "if:"+c {
				found = append(found, x.Body)
			}
		case *ast.FuncLit:
			return false
		}
		return true
	})
	if len(found) != 1 {
		return nil, t.fail(fd, "the block %q of the whitelist occurs %d times in the function (expected once)", sel, len(found))
	}
	return found[0], nil
}

func rootIdent(e ast.Expr) string {
	for {
		switch x := e.(type) {
		case *ast.Ident:
			return x.Name
		case *ast.SelectorExpr:
			e = x.X
		case *ast.IndexExpr:
			e = x.X
		case *ast.ParenExpr:
			e = x.X
		case *ast.StarExpr:
			e = x.X
		default:
			return ""
		}
	}
}

func within(n ast.Node, list []ast.Stmt) bool {
	for _, s := range list {
		if n.Pos() >= s.Pos() && n.End() <= s.End() {
			return true
		}
	}
	return false
}

// guardAssignments: every assignment of the function to a translated variable or to an input of
// the formulas is either one of the translated statements or listed verbatim in the whitelist
// (and then precedes them).
func (t *tr) guardAssignments(fd *ast.FuncDecl, collected []ast.Stmt, vars []string) error {
	sp := t.spec
	isVar := map[string]bool{}
	for _, v := range vars {
		isVar[v] = true
	}
	for k := range sp.pseudo {
		isVar[k] = true
	}
	allowed := map[string]bool{}
	used := map[string]bool{}
	for _, a := range sp.allow {
		allowed[a] = true
	}
	var err error
	check := func(stmt ast.Node, lhs []ast.Expr) {
		if err != nil || within(stmt, collected) {
			return
		}
		for _, l := range lhs {
			txt := t.text(l)
			_, bound := sp.bind[rootIdent(l)]
			if !isVar[txt] && !bound {
				continue
			}
			st := t.text(stmt)
			if !allowed[st] {
				err = t.fail(stmt, "assignment to %s outside the translated statements is not in the whitelist: %s", txt, firstLine(st))
				return
			}
			used[st] = true
			// it must precede the first translated statement that mentions the assigned variable
			root := rootIdent(l)
			for _, c := range collected {
				mentions := false
				ast.Inspect(c, func(n ast.Node) bool {
					if id, ok := n.(*ast.Ident); ok && id.Name == root {
						mentions = true
					}
					return !mentions
				})
				if mentions {
					if stmt.Pos() > c.Pos() && !sp.shallow {
						err = t.fail(stmt, "whitelisted assignment %s follows a translated statement that reads %s", firstLine(st), root)
						return
					}
					break
				}
			}
		}
	}
	ast.Inspect(fd.Body, func(n ast.Node) bool {
		switch x := n.(type) {
		case *ast.AssignStmt:
			check(x, x.Lhs)
		case *ast.IncDecStmt:
			check(x, []ast.Expr{x.X})
		case *ast.RangeStmt:
			if x.Tok == token.ASSIGN {
				check(x, []ast.Expr{x.Key, x.Value})
			}
		case *ast.UnaryExpr:
			if x.Op == token.AND { // &v of a translated variable or input: it may be written elsewhere
				txt := t.text(x.X)
				_, bound := sp.bind[rootIdent(x.X)]
				if (isVar[txt] || bound) && !within(x, collected) {
					if _, isLit := x.X.(*ast.CompositeLit); !isLit {
						err = t.fail(x, "address of %s is taken", txt)
					}
				}
			}
		}
		return err == nil
	})
	if err != nil {
		return err
	}
	// no effect (call statement, go, defer, send) may stand between the first and the last translated
	// statement: it could change what the later ones read
	if len(collected) > 1 {
		lo, hi := collected[0].End(), collected[len(collected)-1].Pos()
		ast.Inspect(fd.Body, func(n ast.Node) bool {
			if n == nil || err != nil {
				return false
			}
			switch x := n.(type) {
			case *ast.ExprStmt, *ast.GoStmt, *ast.DeferStmt, *ast.SendStmt:
				if x.Pos() > lo && x.End() < hi && !within(x, collected) && !allowed[t.text(x)] {
					err = t.fail(x, "an effect stands between the translated statements: %s", firstLine(t.text(x)))
				}
			}
			return true
		})
		if err != nil {
			return err
		}
	}
	for _, a := range sp.allow {
		if !used[a] {
			return t.fail(fd, "whitelisted assignment %q no longer occurs in the function", a)
		}
	}
	return nil
}

func (t *tr) assigns(s ast.Stmt, isVar map[string]bool) bool {
	found := false
	if t.spec.shallow {
		if x, ok := s.(*ast.AssignStmt); ok {
			for _, l := range x.Lhs {
				if isVar[t.text(l)] {
					return true
				}
			}
		}
		return false
	}
	ast.Inspect(s, func(n ast.Node) bool {
		switch x := n.(type) {
		case *ast.AssignStmt:
			for _, l := range x.Lhs {
				if isVar[t.text(l)] {
					found = true
				}
			}
		case *ast.IncDecStmt:
			if isVar[t.text(x.X)] {
				found = true
			}
		case *ast.FuncLit:
			return false
		}
		return true
	})
	return found
}

func (g *gen) extract(sp *fnSpec) (string, error) {
	t, fd := g.newTr(sp)
	blk, err := t.findBlock(fd, sp.block)
	if err != nil {
		return "", err
	}
	isVar := map[string]bool{}
	for _, v := range sp.vars {
		isVar[v] = true
	}
	collected := []ast.Stmt{}
	for _, s := range blk.List {
		if t.assigns(s, isVar) {
			collected = append(collected, s)
		}
	}
	if len(collected) != sp.count {
		return "", t.fail(blk, "block %q: %d statements assign %s, the whitelist fixes %d (an assignment was added or removed)",
			sp.block, len(collected), strings.Join(sp.vars, ", "), sp.count)
	}
	if err := t.guardAssignments(fd, collected, sp.vars); err != nil {
		return "", err
	}
	body, err := t.seq(collected, 1, func() (string, error) {
		// the result expression names Go variables as {text}
		out := sp.res
		for {
			i := strings.Index(out, "{")
			if i < 0 {
				break
			}
			j := strings.Index(out[i:], "}") + i
			v, err := t.readVar(blk, out[i+1:j])
			if err != nil {
				return "", err
			}
			out = out[:i] + v.s + out[j+1:]
		}
		if sp.abort {
			return app("Some", out), nil
		}
		return out, nil
	})
	if err != nil {
		return "", err
	}
	return fmt.Sprintf("(* %s: func %s, the statements of block %q that assign %s *)\n", sp.pkg, fnShown(sp.fn), blockName(sp.block), strings.Join(sp.vars, ", ")) +
		g.header(sp, sp.coq, sp.ret) + body + ".\n", nil
}

// fnShown: the function name as printed inside Coq comments ("(*" would open a nested comment)
func fnShown(fn string) string { return strings.NewReplacer("(*", "*", ")", "").Replace(fn) }

func blockName(b string) string {
	if b == "" {
		return "top"
	}
	return b
}

func (g *gen) occurrences(sp *fnSpec) (string, error) {
	t, fd := g.newTr(sp)
	par := parentsOf(fd.Body)
	var occ []*ast.AssignStmt
	var err error
	ast.Inspect(fd.Body, func(n ast.Node) bool {
		switch x := n.(type) {
		case *ast.AssignStmt:
			for _, l := range x.Lhs {
				if t.text(l) == sp.lhs {
					if len(x.Lhs) != 1 || x.Tok != token.ASSIGN {
						err = t.fail(x, "assignment to %s must be a plain `=`: %s", sp.lhs, firstLine(t.text(x)))
					}
					occ = append(occ, x)
				}
			}
		case *ast.IncDecStmt:
			if t.text(x.X) == sp.lhs {
				err = t.fail(x, "%s on %s", x.Tok, sp.lhs)
			}
		}
		return err == nil
	})
	if err != nil {
		return "", err
	}
	if len(occ) != len(sp.names) {
		return "", t.fail(fd, "%d assignments to %s, the whitelist fixes %d", len(occ), sp.lhs, len(sp.names))
	}
	if err := t.guardAssignments(fd, nil, nil); err != nil {
		return "", err
	}
	out := ""
	for i, a := range occ {
		v, err := t.expr(a.Rhs[0])
		if err != nil {
			return "", err
		}
		if v.k != kNum && v.k != kInt {
			return "", t.fail(a, "value of kind %s", v.k)
		}
		out += fmt.Sprintf("(* %s: func %s, assignment %d of %d to %s *)\n", sp.pkg, fnShown(sp.fn), i+1, len(occ), sp.lhs) +
			g.header(sp, sp.names[i], sp.ret) + unparen(v.s) + ".\n"
		g.names[sp.names[i]] = true
		if i < len(sp.guards) && sp.guards[i] != "" {
			blk, _ := par[a].(*ast.BlockStmt)
			ifs, _ := par[blk].(*ast.IfStmt)
			if blk == nil || ifs == nil || ifs.Body != blk || ifs.Else != nil || ifs.Init != nil {
				return "", t.fail(a, "assignment %d to %s is expected directly inside `if c { ... }` without else", i+1, sp.lhs)
			}
			c, err := t.expr(ifs.Cond)
			if err != nil {
				return "", err
			}
			if c.k != kBool {
				return "", t.fail(ifs, "condition of kind %s", c.k)
			}
			out += fmt.Sprintf("(* %s: func %s, the condition guarding assignment %d to %s *)\n", sp.pkg, fnShown(sp.fn), i+1, sp.lhs) +
				g.header(sp, sp.guards[i], "bool") + unparen(c.s) + ".\n"
			g.names[sp.guards[i]] = true
		} else {
			// an unguarded occurrence must be a statement of the function's top-level block
			if par[a] != ast.Node(fd.Body) {
				return "", t.fail(a, "assignment %d to %s is expected at the top level of the function", i+1, sp.lhs)
			}
		}
	}
	return out, nil
}

func (g *gen) kvfield(sp *fnSpec) (string, error) {
	t, fd := g.newTr(sp)
	var found []*ast.KeyValueExpr
	ast.Inspect(fd.Body, func(n ast.Node) bool {
		if kv, ok := n.(*ast.KeyValueExpr); ok {
			if id, ok := kv.Key.(*ast.Ident); ok && id.Name == sp.field {
				found = append(found, kv)
			}
		}
		return true
	})
	if len(found) != 1 {
		return "", t.fail(fd, "%d composite-literal fields %s in the function, the whitelist expects one", len(found), sp.field)
	}
	if err := t.guardAssignments(fd, nil, nil); err != nil {
		return "", err
	}
	v, err := t.expr(found[0].Value)
	if err != nil {
		return "", err
	}
	if v.k != kNum && v.k != kInt {
		return "", t.fail(found[0], "value of kind %s", v.k)
	}
	return fmt.Sprintf("(* %s: func %s, the value of the literal field %s *)\n", sp.pkg, fnShown(sp.fn), sp.field) +
		g.header(sp, sp.coq, sp.ret) + unparen(v.s) + ".\n", nil
}

// ---------------------------------------------------------------------------------------
// generators

type sig struct {
	k   kind
	obj string
}

type gen struct {
	src        *fsrc
	w          *fworld
	out        strings.Builder
	names      map[string]bool   // generated global names (locals are renamed away from them)
	constNames map[string]string // constant (pkgpath.Name) -> generated name
	sigs       map[string]sig    // accessor key -> result kind of a generated function
	noInst     map[string]bool   // generated functions that do not take the instance
	silent     bool              // translating a part that lives in another generated file: nothing is printed
	prefix     string            // ... and its definitions are referred to by this qualified prefix
}

// imported: the definitions of another generated file this one builds on.  The part is translated
// again (it must still be translatable), nothing is printed, and calls go to the qualified names.
func (g *gen) imported(file string, part func(*gen)) {
	g.silent, g.prefix = true, file+"."
	part(g)
	g.silent, g.prefix = false, ""
}

func (g *gen) instArg() string { return g.w.d.inst }

func constantToInt(c *types.Const) constant.Value    { return constant.ToInt(c.Val()) }
func constantToIntV(v constant.Value) constant.Value { return constant.ToInt(v) }

func (g *gen) emit(s string) {
	if !g.silent {
		g.out.WriteString(s)
	}
}

func (g *gen) fn(sp fnSpec) {
	var s string
	var err error
	switch sp.mode {
	case mWhole:
		s, err = g.whole(&sp)
	case mExtract:
		s, err = g.extract(&sp)
	case mOccur:
		s, err = g.occurrences(&sp)
	case mKVField:
		s, err = g.kvfield(&sp)
	}
	if err != nil {
		die("%v", err)
	}
	g.emit(s + "\n")
	if sp.coq != "" {
		g.names[sp.coq] = true
	}
	if sp.key != "" {
		g.w.generated[sp.key] = g.prefix + sp.coq
		g.sigs[sp.key] = sig{k: sp.rk}
		g.noInst[sp.key] = sp.noInst
	}
}

// constant of a package by name
func (g *gen) constOf(pkg, name string) *types.Const {
	p := g.src.pkg(pkg)
	c, ok := p.Types.Scope().Lookup(name).(*types.Const)
	if !ok {
		die("Formulas: constant %s.%s not found (renamed or removed)", pkg, name)
	}
	return c
}

func (g *gen) intConst(pkg, name, coq string) {
	c := g.constOf(pkg, name)
	z := bigOf(constant.ToInt(c.Val()))
	if z == nil {
		die("Formulas: constant %s.%s is not an integer", pkg, name)
	}
	g.emit(fmt.Sprintf("Definition %s : Z := %s.   (* %s.%s *)\n", coq, zlit(z), pkg, name))
	g.names[coq] = true
	g.constNames[constKey(c)] = g.prefix + coq
}

// every constant of a named integer type of a package, in value order: prefix + Go name
func (g *gen) enum(pkg, typ, prefix, strip string) {
	p := g.src.pkg(pkg)
	type ent struct {
		name string
		z    *big.Int
		c    *types.Const
	}
	ents := []ent{}
	sc := p.Types.Scope()
	for _, n := range sc.Names() {
		c, ok := sc.Lookup(n).(*types.Const)
		if !ok {
			continue
		}
		nt, ok := c.Type().(*types.Named)
		if !ok || nt.Obj().Name() != typ || nt.Obj().Pkg() != p.Types {
			continue
		}
		z := bigOf(constant.ToInt(c.Val()))
		if z == nil {
			die("Formulas: constant %s.%s is not an integer", pkg, n)
		}
		ents = append(ents, ent{n, z, c})
	}
	if len(ents) == 0 {
		die("Formulas: no constants of type %s.%s (renamed or removed)", pkg, typ)
	}
	sort.SliceStable(ents, func(i, j int) bool {
		if c := ents[i].z.Cmp(ents[j].z); c != 0 {
			return c < 0
		}
		return ents[i].name < ents[j].name
	})
	g.emit(fmt.Sprintf("(* %s: constants of type %s *)\n", pkg, typ))
	for _, e := range ents {
		coq := prefix + strings.TrimPrefix(e.name, strip)
		g.emit(fmt.Sprintf("Definition %s : Z := %s.\n", coq, zlit(e.z)))
		g.names[coq] = true
		g.constNames[constKey(e.c)] = g.prefix + coq
	}
	g.emit("\n")
}

// package-level variable with a composite literal
func (g *gen) varLit(pkg, name string) (*packages.Package, *ast.CompositeLit) {
	p := g.src.pkg(pkg)
	for _, f := range p.Syntax {
		for _, d := range f.Decls {
			gd, ok := d.(*ast.GenDecl)
			if !ok || gd.Tok != token.VAR {
				continue
			}
			for _, s := range gd.Specs {
				vs := s.(*ast.ValueSpec)
				for i, id := range vs.Names {
					if id.Name == name && i < len(vs.Values) {
						if cl, ok := vs.Values[i].(*ast.CompositeLit); ok {
							return p, cl
						}
						die("Formulas: %s: %s.%s is not initialised by a composite literal", g.src.pos(vs), pkg, name)
					}
				}
			}
		}
	}
	die("Formulas: table %s.%s not found (renamed or removed)", pkg, name)
	return nil, nil
}

// map[K]V literal with constant integer keys and values: a total function Z -> Z, 0 elsewhere
func (g *gen) intMapTable(pkg, name, coq string) {
	p, cl := g.varLit(pkg, name)
	type row struct{ k, v *big.Int }
	rows := []row{}
	for _, e := range cl.Elts {
		kv, ok := e.(*ast.KeyValueExpr)
		if !ok {
			die("Formulas: %s: element of %s.%s is not key: value", g.src.pos(e), pkg, name)
		}
		ktv, vtv := p.TypesInfo.Types[kv.Key], p.TypesInfo.Types[kv.Value]
		if ktv.Value == nil || vtv.Value == nil {
			die("Formulas: %s: non-constant row in %s.%s", g.src.pos(e), pkg, name)
		}
		k, v := bigOf(constant.ToInt(ktv.Value)), bigOf(constant.ToInt(vtv.Value))
		if k == nil || v == nil {
			die("Formulas: %s: non-integer row in %s.%s", g.src.pos(e), pkg, name)
		}
		rows = append(rows, row{k, v})
	}
	sort.SliceStable(rows, func(i, j int) bool { return rows[i].k.Cmp(rows[j].k) < 0 })
	g.emit(fmt.Sprintf("(* %s: var %s (a Go map: a missing key reads as the zero value) *)\nDefinition %s (k : Z) : Z :=\n  match k with", pkg, name, coq))
	for _, r := range rows {
		g.emit(fmt.Sprintf(" %s => %s |", zlit(r.k), zlit(r.v)))
	}
	g.emit(" _ => 0 end.\n\n")
	g.names[coq] = true
}

// []float64 literal: exact binary64 rows
func (g *gen) floatTable(pkg, name, coq string) {
	p, cl := g.varLit(pkg, name)
	g.emit(fmt.Sprintf("(* %s: var %s, exact binary64 values, index = position *)\nDefinition %s : list float := [\n", pkg, name, coq))
	for i, e := range cl.Elts {
		if _, ok := e.(*ast.KeyValueExpr); ok {
			die("Formulas: %s: keyed element in %s.%s", g.src.pos(e), pkg, name)
		}
		tv := p.TypesInfo.Types[e]
		if tv.Value == nil {
			die("Formulas: %s: non-constant row in %s.%s", g.src.pos(e), pkg, name)
		}
		f, _ := constant.Float64Val(tv.Value)
		sep := ";"
		if i == len(cl.Elts)-1 {
			sep = ""
		}
		g.emit("    " + strconv.FormatFloat(f, 'x', -1, 64) + "%float" + sep + "\n")
	}
	g.emit("].\n\n")
	g.names[coq] = true
}

func genFormulas(root, which string) string {
	var g *gen
	switch which {
	case "FormulasInfo", "FormulasAttr", "Formulas", "FormulasHeal":
		g = genCC(root, which)
	case "FormulasShield":
		g = genShield(root)
	case "FormulasTurn":
		g = genTurn(root)
	case "FormulasQueue":
		g = genQueue(root)
	default:
		die("unknown generator %q", which)
	}
	return g.out.String()
}

func newGen(root string, w *fworld, patterns ...string) *gen {
	w.generated = map[string]string{}
	return &gen{src: loadFormulas(root, patterns...), w: w, names: map[string]bool{}, constNames: map[string]string{},
		sigs: map[string]sig{}, noInst: map[string]bool{}}
}

func (g *gen) prelude(title string) {
	g.emit("(* GENERATED by harness/cmd/go2coq " + title + " from the Go source of the repository under verification.\n" +
		"   Do not edit: tools/check.py and tools/setup.sh regenerate this file on every run.\n" +
		"   Every definition is the translation of the named Go function / statements / table; the\n" +
		"   model vocabulary (records, accessors, NumOps) is referred to by qualified names. *)\n" +
		"From Coq Require Import List ZArith Bool Floats.\n" + g.w.requires +
		"Import ListNotations.\nOpen Scope Z_scope.\n\n")
}
