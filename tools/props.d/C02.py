CONFIG = {
    "id": "C02",
    "coq_targets": ["Gen/FormulasTurn.v", "Proofs/FormulasTurnProofs.v",
                    "Model/TurnRe.v", "Proofs/TurnReProofs.v",
                    "Props/C02.v", "Model/TurnCheck.v", "Model/TurnReCheck.v"],
    "prop_files": ["Props/C02.v"],
    "gen": ["FormulasTurn"],
    "components": [{
        "name": "turn", "modules": ["Base.NumOps", "Model.Turn", "Model.TurnCheck"],
        "check": "check_case", "monitor": "monitor_case", "model_out": "model_out",
        "case_type": "case", "ops_path": [],
        "n_quick": 600, "n_thorough": 30000, "shard": 150,
    }, {
        "name": "turnre", "modules": ["Base.NumOps", "Model.Turn", "Model.TurnRe", "Model.TurnCheck", "Model.TurnReCheck"],
        "check": "check_case", "monitor": "monitor_case", "model_out": "model_out",
        "case_type": "case",
        "ops_path": [1],            # (listener slots, ops)
        "n_quick": 400, "n_thorough": 30000, "shard": 100,
    }],
    "rule": "histories of 5-60 turn-manager operations (add/remove units, start turn, end of action, set/advance/"
            "delay gauge by gauge, by normalized amount and by AV, set/modify gauge cost incl. fractional and "
            "negative, speed changes between operations) over 2-10 units with speeds from a pool containing equal "
            "speeds; amounts half from boundary values (0, exactly base gauge, negative, fractional, larger than the "
            "remaining gauge); also protocol violations (double start, reset without a turn, absent ids); "
            "distinct = distinct input term.  Component turnre - histories WITH RE-ENTRANT LISTENERS on the real "
            "turn.Manager (real event.System, fake attribute.Getter): the input is 5-31 top-level operations plus, per "
            "event the manager emits (TurnTargetsAdded, TurnReset, GaugeChange, CurrentGaugeCostChange), a queue of "
            "listener scripts; the harness subscribes ONE listener per event that pops the next script and executes its "
            "operations (SetGauge, ModifyGaugeNormalized, ModifyGaugeAV, SetCurrentGaugeCost, ModifyCurrentGaugeCost, "
            "RemoveTarget, speed change of the getter; never StartTurn / ResetTurn / AddTargets, which belong to the run "
            "loop) ON THE SAME MANAGER while the emitting call is still running; scripts are generated while the "
            "history runs on a manager of the generator's own, so each is aimed at the delivery that pops it: 0-3 "
            "operations (empty 40% of the time), nested at most 3 deep, 4-26 nested operations per history; 40% touch "
            "the SAME unit the outer call is working on (a gauge change inside its own GaugeChange, the unit just "
            "reset, a unit just added), 10% remove the unit the outer call has just reported, 10% change its speed "
            "(stored order goes stale), 15% set ANOTHER unit to the gauge at which it ties exactly with that unit, "
            "half of the cost listeners set the cost again; a third of the histories use the tie pools, a tenth 13-18 "
            "units at tied speeds, an eighth have no scripts; three quarters end with SetCurrentGaugeCost / ResetTurn "
            "/ StartTurn so that the hidden fields (cost, active flag, acting unit) become visible.  Recorded and "
            "compared bit-exactly, in time order, nested calls included: every call entered (with its arguments), "
            "every listener invocation (all event fields incl. the turn order with AV bits; a payload that changes "
            "while the listener runs is recorded as a second delivery), every return (error / StartTurn's results) "
            "with ids and gauges of EventTurnStatus() and TotalAV() right after it.  The monitor reads the trace with "
            "a stack of open calls and demands per call, outer or nested, the property's clauses against what was "
            "observed last (old gauge = gauge seen last, only that unit differs, never negative, reset gauge = max 0 "
            "trunc(10000 x cost seen last), elapsed AV >= 0 added to the clock, no gauge grows at a turn start) and "
            "that a call writes nothing after its emission",
    "trusted": [
        "TRANSLATED from the Go source on every run and proved equal to the model for every number system and "
        "every argument (Gen/FormulasTurn.v; Proofs/FormulasTurnProofs.v; theorems "
        "C02_model_formulas_are_the_source, C02_StartTurn_is_the_source): BaseGauge, turnOrderHandler.av and Less, "
        "manager.av, StartTurn's per-unit gauge decrement (int64(av * SPD)), clock update, cost reset and the "
        "acting unit's zero gauge, ResetTurn's gauge (int64(BaseGauge * cost) floored at 0), SetGauge's truncated "
        "floored gauge, the amounts of ModifyGaugeNormalized / ModifyGaugeAV / ModifyCurrentGaugeCost",
        "RE-ENTRANT LISTENERS (Model/TurnRe.v, hand-written, correspondence only): where each Emit sits relative to "
        "the stores of AddTargets / ResetTurn / SetGauge / SetCurrentGaugeCost was read off the Go source (every "
        "function emits at most once, as its LAST statement, after everything is stored; the event's fields incl. a "
        "fresh EventTurnStatus() slice are evaluated before the listeners run; StartTurn and RemoveTarget emit "
        "nothing) and is NOT translated: a source edit that moves a store behind an Emit, re-stores a local after "
        "it, reuses a status buffer across calls or clears activeTurn after the TurnReset emission is seen by the "
        "correspondence on generated re-entrant histories (four such mutants were tried: all missed by the flat "
        "component, all caught by turnre), not by a proof obligation; listener behaviour is data (a queue of scripts "
        "per event, an exhausted queue = a listener that does nothing); one listener per event; a listener that "
        "calls StartTurn / ResetTurn / AddTargets is illegal use (distinct model outcome, never generated); "
        "listeners of other components and listeners that panic are outside the model; gaugeCost, activeTurn and "
        "activeTarget are not readable from outside and are observed through the events and returns that follow",
        "known imprecision of the flat model kept as it is: SetCurrentGaugeCost(-0) on cost +0 (or +0 on -0) emits "
        "nothing but the Go field takes the new sign, the model keeps the old one; never generated, no clause of the "
        "property depends on it",
        "still HAND-WRITTEN (correspondence only): the re-insertion position of SetGauge, move-to-end of "
        "ResetTurn, AddTargets / RemoveTarget, the error paths, the emitted status lists; Stats(id).SPD() is the "
        "model's speed table",
        "translator (harness/cmd/go2coq formulas.go, formulas_specs.go): trusted are the Go front end "
        "(go/packages, go/types, go/constant), the fixed whitelist and accessor tables (which Go field / method is "
        "which model accessor), the statement translation listed at the top of formulas.go, and that lit N n d "
        "(the correctly rounded quotient of two integers below 2^53) is the binary64 the Go compiler stores for "
        "the literal n/d; the translator fails closed (unknown construct, added or missing assignment, changed "
        "signature: go2coq exits 1 and the check reports a broken translator obligation)",
        "for functions that mix effects and arithmetic only the whitelisted statements are translated (the "
        "statements of one block that assign the named variables, their number fixed; every other assignment to "
        "those variables or to the inputs must be whitelisted verbatim): the ORDER of effects around the "
        "arithmetic (event emissions, service calls, which unit receives the energy) stays hand-written and is "
        "tied by correspondence only","sort.Stable is modelled by stable insertion sort (the stable sorted permutation of a strict weak order is unique)",
                "arithmetic clauses (gauges never negative after a turn start, elapsed AV >= 0, proportional shrink) are proved "
                "for the model instantiated at the real numbers; the binary64 instance is executed and compared bit-exactly with "
                "the Go code and the float-level monitor checks the same clauses on every implementation output"],
    "assumptions": ["speeds are positive and finite; unit ids are unique in the turn order",
                    "re-entrant theorems: the run is Done (out of fuel is proved unreachable for fuel above the number "
                    "of script operations, Illegal for scripts free of StartTurn / ResetTurn / AddTargets); legality "
                    "(positive speeds, new ids) is required of every call in the order in which the calls are entered "
                    "and is proved for every history that starts with one AddTargets and otherwise adds nothing"],
    "manifest": {
        "level_text": "Translator tie (way 1): BaseGauge, the action value and its comparison, and the gauge / clock / cost arithmetic of the turn manager are regenerated from turn/turn.go and turn/modify.go on every run (go2coq FormulasTurn) and proved EQUAL to the model's definitions for all inputs; "
                      "Kernel-checked theorems over an executable Gallina model of the turn manager (all histories of "
                      "operations and speed changes), binary64 instance compared bit-exactly with the real turn.Manager on "
                      "generated histories; a float-level monitor re-checks the property's clauses on the implementation's outputs.  "
                      "RE-ENTRANT LISTENERS: listener scripts are data attached to the four events of the manager (Model/TurnRe.v); "
                      "for every top-level history, every listener table and every fuel the trace is proved to be explained by flat "
                      "atomic steps, so every clause holds for every call, outer or nested at any depth, in the state where it is "
                      "entered (C02_reentrant, C02_reentrant_every_call_meets_spec); the whole-call readings of 'changes that unit "
                      "only' are refuted by witnesses and their partial forms proved; the harness' listeners call the real manager "
                      "again from inside the emission.",
        "level_note": "go2coq FormulasTurn translator + kernel-checked equalities generated = model; "
                      "Coq kernel + stdlib real-number axioms for the R instance; sort.Stable contract; IEEE rounding gap between "
                      "the float and real instances is named in the evidence.",
        "technique": "source-to-Coq translation of the formulas with equality proofs + "
                     "Coq proof (invariants over operation histories; NumOps model at float and R) + correspondence",
        "design_ref": "DESIGN.md section 7, C02",
    },
}
