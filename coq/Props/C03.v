(* C03 — Battle lifecycle events follow the turn protocol.
   Only statements, [exact] and [Print Assumptions] live here. *)
From Coq Require Import List ZArith Bool.
From SR Require Import Base.CaseLib Base.NumOps Model.Turn Model.Sim Model.SimProtocol Proofs.SimProofs.
From SR Require Import Model.SimSkeleton Model.SimSkeletonInterp Gen.RunSkeleton Proofs.RunSkeletonProofs Proofs.RunSkeletonInterpProofs.
Import ListNotations.

(* For every configuration, every content script, every decision sequence of the script
   callbacks and every fuel: when the model run returns a result (it ends by the Termination
   exit), its whole event trace is accepted by the protocol automaton of Model/SimProtocol.v:
   Initialize, CharactersAdded, EnemiesAdded, TurnTargetsAdded, BattleStart, then queue items
   and turns (TurnStart, Phase1Start, [queue window, Phase1End, at most one own action],
   TurnReset, Phase2Start, queue window, Phase2End, TurnEnd); inserted actions and abilities
   only inside the queue windows with an empty bracket stack; Action / Insert / Attack / Hit
   start-end pairs balanced, closed by the same owner and key, attacks opened directly inside an
   action or insert and never across a hit; the automaton ends in Done with an empty stack. *)
Theorem C03_lifecycle_protocol : forall cfg, C03_statement cfg.
Proof. exact C03_holds. Qed.
Print Assumptions C03_lifecycle_protocol.

(* exactly one Termination, and it is the last event *)
Theorem C03_one_termination_and_last :
  forall cfg fuel s, start cfg fuel = Stop s -> one_termination (trace s) = true.
Proof. intros cfg fuel s H. apply protocol_one_termination. exact (C03_holds cfg fuel s H). Qed.
Print Assumptions C03_one_termination_and_last.

(* non-vacuity: a battle with an insert, an attack with two hits, a kill and a win runs to its
   Termination in the model *)
Theorem C03_nonvacuous :
  match start demo_cfg 200 with
  | Stop s => protocol_ok (trace s) && (20 <=? Z.of_nat (length (trace s)))%Z
  | _ => false
  end = true.
Proof. exact demo_cfg_runs. Qed.

(* The run loop of the model IS the run loop of the source.  `go2coq RunSkeleton` translates every function of
   pkg/simulation/run.go, action.go and death.go into a first-order table of its steps in source order (emits,
   modifier ticks, death checks, queue drains, exit checks, guards as source text, next states), Gen/RunSkeleton.v,
   regenerated on every run.  (1) That table equals the pinned table Model/SimSkeleton.v, and the integer constants
   it names have the pinned values; (2) the interpretation of the generated state functions beginTurn, phase1,
   action, phase2, endTurn over the model's own state and functions, chained as Run chains them, is Sim.one_turn
   for every configuration, fuel and state (equal outcomes; for an error outcome equal traces); (3) phase2 and
   endTurn chained are Sim.phase2; (4) engage is the queue drain at the start of Sim.start.  So the order of the
   protocol events of a turn in the model is the order in which the Go state functions produce them, for all
   inputs, and an edit of that order breaks this theorem. *)
Theorem C03_run_skeleton_is_the_source : run_skeleton_tie.
Proof. exact run_skeleton_is_the_source. Qed.
Print Assumptions C03_run_skeleton_is_the_source.
