(* The parser model pulls tokens lazily from the lexer's producer.  This file shows that it
   does not matter when the tokens are pulled: a parser state and the same state with more
   tokens already received ("prefetched") give the same result.  It lets the round-trip
   theorems, stated for states whose look-ahead is already in [ahead], speak about
   [parse_input]. *)
From Coq Require Import List ZArith Bool String Ascii Lia.
From SR Require Import Base.CaseLib Model.GcsAst Model.GcsUnicode Model.GcsLex Model.GcsNum
  Model.GcsParse Proofs.GcsLexProofs.
Import ListNotations.
Open Scope Z_scope.

Section B.
Variable inp : input.
Notation F := (lex_fuel inp).

(* [Chain inp p ext p'] (Proofs/GcsLexProofs.v): [ext] are the tokens obtained by successive
   receives from [p], ending in the producer state [p'] *)
Notation Chain := (GcsLexProofs.Chain inp).

Definition Pre (s1 s2 : pstate) : Prop :=
  consumed s2 = consumed s1 /\
  exists ext, ahead s2 = ahead s1 ++ ext /\ Chain (prod s1) ext (prod s2).

Lemma Pre_refl : forall s, Pre s s.
Proof. intros s. split; [reflexivity|]. exists []. rewrite app_nil_r. split; reflexivity. Qed.

Lemma Pre_backup : forall s1 s2, Pre s1 s2 -> Pre (pbackup s1) (pbackup s2).
Proof.
  intros s1 s2 (C & ext & A & Ch). unfold pbackup. rewrite C.
  destruct (consumed s1) as [|t c] eqn:E.
  - split; [rewrite C, E; reflexivity|]. exists ext. auto.
  - split; [reflexivity|]. exists ext. cbn [ahead prod]. rewrite A. split; [reflexivity|exact Ch].
Qed.

Definition relR {X} (r1 r2 : PR X) : Prop :=
  match r1, r2 with
  | ROk a s1, ROk b s2 => a = b /\ Pre s1 s2
  | RErr s1, RErr s2 => Pre s1 s2
  | RCrash, RCrash => True
  | RFuel, RFuel => True
  | _, _ => False
  end.

Lemma rel_next : forall s1 s2, Pre s1 s2 -> relR (pnext inp s1) (pnext inp s2).
Proof.
  intros s1 s2 (C & ext & A & Ch). unfold pnext. rewrite A.
  destruct (ahead s1) as [|t r]; cbn [app].
  - destruct ext as [|t ext]; cbn [Chain] in Ch.
    + rewrite Ch. destruct (recv F inp (prod s1)) as [[t p']| |]; cbn [relR]; try exact I.
      split; [reflexivity|]. rewrite C. apply Pre_refl.
    + destruct Ch as (p1 & E & Ch). rewrite E. cbn [relR]. split; [reflexivity|].
      split; [cbn [consumed]; rewrite C; reflexivity|]. exists ext. cbn [ahead prod app]. split; [reflexivity|exact Ch].
  - cbn [relR]. split; [reflexivity|]. split; [cbn [consumed]; rewrite C; reflexivity|].
    exists ext. cbn [ahead prod]. split; [reflexivity|exact Ch].
Qed.

Lemma rel_bind : forall X Y (e1 e2 : PR X) (k1 k2 : X -> pstate -> PR Y),
  relR e1 e2 -> (forall a s1 s2, Pre s1 s2 -> relR (k1 a s1) (k2 a s2)) ->
  relR (bindP e1 k1) (bindP e2 k2).
Proof.
  intros X Y e1 e2 k1 k2 H K.
  destruct e1 as [a s1|s1| |], e2 as [b s2|s2| |]; cbn [relR bindP] in *; try contradiction; try exact I; try assumption.
  destruct H as [-> P]. apply K. exact P.
Qed.

Lemma rel_peek : forall s1 s2, Pre s1 s2 -> relR (ppeek inp s1) (ppeek inp s2).
Proof.
  intros s1 s2 P. unfold ppeek. apply rel_bind; [apply rel_next; exact P|].
  intros a t1 t2 P2. cbn [relR]. split; [reflexivity|apply Pre_backup; exact P2].
Qed.
Lemma rel_consume : forall k s1 s2, Pre s1 s2 -> relR (pconsume inp k s1) (pconsume inp k s2).
Proof.
  intros k s1 s2 P. unfold pconsume. apply rel_bind; [apply rel_next; exact P|].
  intros a t1 t2 P2. destruct (typ_is a k); cbn [relR]; [split; [reflexivity|exact P2]|exact P2].
Qed.

(* ---- every parser function ---- *)
Ltac rauto :=
  repeat first
  [ assumption
  | match goal with
    | |- Pre (pbackup _) (pbackup _) => apply Pre_backup
    | |- relR (bindP _ _) (bindP _ _) => apply rel_bind; [|intros ? ? ? ?]
    | |- relR (pnext inp _) (pnext inp _) => apply rel_next
    | |- relR (ppeek inp _) (ppeek inp _) => apply rel_peek
    | |- relR (pconsume inp _ _) (pconsume inp _ _) => apply rel_consume
    | |- relR (ROk _ _) (ROk _ _) => split; [reflexivity|]
    | |- relR (RErr _) (RErr _) => cbn [relR]
    | |- relR (if ?c then _ else _) (if ?c then _ else _) => destruct c
    | |- relR (match ?x with _ => _ end) (match ?x with _ => _ end) => destruct x
    | H : forall _, _ |- relR (?f inp ?n _ _ _ _ ?s1) (?f inp ?n _ _ _ _ ?s2) => apply H
    | H : forall _, _ |- relR (?f inp ?n _ _ _ ?s1) (?f inp ?n _ _ _ ?s2) => apply H
    | H : forall _, _ |- relR (?f inp ?n _ _ ?s1) (?f inp ?n _ _ ?s2) => apply H
    | H : forall _, _ |- relR (?f inp ?n _ ?s1) (?f inp ?n _ ?s2) => apply H
    | H : forall _, _ |- relR (?f inp ?n ?s1) (?f inp ?n ?s2) => apply H
    end ].

Definition Q_expr n := forall pre s1 s2, Pre s1 s2 -> relR (p_expr inp n pre s1) (p_expr inp n pre s2).
Definition Q_infix n := forall pre l s1 s2, Pre s1 s2 -> relR (p_infix_loop inp n pre l s1) (p_infix_loop inp n pre l s2).
Definition Q_prefix n := forall pf s1 s2, Pre s1 s2 -> relR (p_prefix inp n pf s1) (p_prefix inp n pf s2).
Definition Q_map n := forall a f s1 s2, Pre s1 s2 -> relR (p_map_loop inp n a f s1) (p_map_loop inp n a f s2).
Definition Q_binary n := forall l s1 s2, Pre s1 s2 -> relR (p_binary inp n l s1) (p_binary inp n l s2).
Definition Q_call n := forall f s1 s2, Pre s1 s2 -> relR (p_call inp n f s1) (p_call inp n f s2).
Definition Q_call_args n := forall s1 s2, Pre s1 s2 -> relR (p_call_args inp n s1) (p_call_args inp n s2).
Definition Q_call_args_loop n := forall a s1 s2, Pre s1 s2 -> relR (p_call_args_loop inp n a s1) (p_call_args_loop inp n a s2).
Definition Q_fn n := forall b s1 s2, Pre s1 s2 -> relR (p_fn inp n b s1) (p_fn inp n b s2).
Definition Q_fn_args n := forall a s1 s2, Pre s1 s2 -> relR (p_fn_args inp n a s1) (p_fn_args inp n a s2).
Definition Q_block n := forall s1 s2, Pre s1 s2 -> relR (p_block inp n s1) (p_block inp n s2).
Definition Q_block_loop n := forall a s1 s2, Pre s1 s2 -> relR (p_block_loop inp n a s1) (p_block_loop inp n a s2).
Definition Q_statement n := forall s1 s2, Pre s1 s2 -> relR (p_statement inp n s1) (p_statement inp n s2).
Definition Q_let n := forall s1 s2, Pre s1 s2 -> relR (p_let inp n s1) (p_let inp n s2).
Definition Q_assign n := forall s1 s2, Pre s1 s2 -> relR (p_assign inp n s1) (p_assign inp n s2).
Definition Q_return n := forall s1 s2, Pre s1 s2 -> relR (p_return inp n s1) (p_return inp n s2).
Definition Q_ctrl n := forall s1 s2, Pre s1 s2 -> relR (p_ctrl inp n s1) (p_ctrl inp n s2).
Definition Q_if n := forall s1 s2, Pre s1 s2 -> relR (p_if inp n s1) (p_if inp n s2).
Definition Q_switch n := forall s1 s2, Pre s1 s2 -> relR (p_switch inp n s1) (p_switch inp n s2).
Definition Q_switch_loop n := forall c cs d s1 s2, Pre s1 s2 -> relR (p_switch_loop inp n c cs d s1) (p_switch_loop inp n c cs d s2).
Definition Q_case_body n := forall s1 s2, Pre s1 s2 -> relR (p_case_body inp n s1) (p_case_body inp n s2).
Definition Q_case_body_loop n := forall a s1 s2, Pre s1 s2 -> relR (p_case_body_loop inp n a s1) (p_case_body_loop inp n a s2).
Definition Q_while n := forall s1 s2, Pre s1 s2 -> relR (p_while inp n s1) (p_while inp n s2).
Definition Q_for n := forall s1 s2, Pre s1 s2 -> relR (p_for inp n s1) (p_for inp n s2).
Definition Q_rows n := forall a s1 s2, Pre s1 s2 -> relR (p_rows inp n a s1) (p_rows inp n a s2).

Record QALL (n : nat) : Prop := mkQ {
  q_expr : Q_expr n; q_infix : Q_infix n; q_prefix : Q_prefix n; q_map : Q_map n;
  q_binary : Q_binary n; q_call : Q_call n; q_call_args : Q_call_args n;
  q_call_args_loop : Q_call_args_loop n; q_fn : Q_fn n; q_fn_args : Q_fn_args n;
  q_block : Q_block n; q_block_loop : Q_block_loop n; q_statement : Q_statement n;
  q_let : Q_let n; q_assign : Q_assign n; q_return : Q_return n; q_ctrl : Q_ctrl n;
  q_if : Q_if n; q_switch : Q_switch n; q_switch_loop : Q_switch_loop n;
  q_case_body : Q_case_body n; q_case_body_loop : Q_case_body_loop n;
  q_while : Q_while n; q_for : Q_for n; q_rows : Q_rows n }.

Lemma QALL_0 : QALL 0.
Proof. constructor; red; intros; exact I. Qed.

Lemma QALL_S : forall n, QALL n -> QALL (S n).
Proof.
  intros n [].
  unfold Q_expr, Q_infix, Q_prefix, Q_map, Q_binary, Q_call, Q_call_args, Q_call_args_loop, Q_fn,
    Q_fn_args, Q_block, Q_block_loop, Q_statement, Q_let, Q_assign, Q_return, Q_ctrl, Q_if, Q_switch,
    Q_switch_loop, Q_case_body, Q_case_body_loop, Q_while, Q_for, Q_rows in *.
  constructor; red; intros; simpl; rauto.
Qed.

Theorem bridge_all : forall n, QALL n.
Proof. induction n; [apply QALL_0|apply QALL_S; assumption]. Qed.

Lemma Pre_prefetch : forall p ext p' c, Chain p ext p' -> Pre (mkP p [] c) (mkP p' ext c).
Proof. intros p ext p' c H. split; [reflexivity|]. exists ext. cbn [ahead prod app]. split; [reflexivity|exact H]. Qed.

End B.
