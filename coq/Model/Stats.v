(* Model of stat evaluation and data ownership (property C06):
   pkg/engine/modifier/eval.go (EvalModifiers), modifier.go (newInstance and the instance
   mutators), pkg/engine/info/stats.go (NewStats, getters, snapshot mutators), info/map.go
   (Modify / AddAll), pkg/engine/attribute/attribute.go (Stats).  Executable; no proofs.

   Go maps are objects in an explicit store (address -> map), so that two owners holding the
   same map is expressible: a modifier description, an instance and a stats snapshot hold
   addresses.  [aliasing = true] is the code before the repair (newInstance keeps the caller's
   maps), [aliasing = false] the repaired code (newInstance copies them).

   A map is a total function from keys to float64 (an absent key reads as 0, as in Go);
   the weakness map (bool values) is encoded with 1 / 0.                                   *)
From Coq Require Import List ZArith Bool Floats.
Import ListNotations.
Open Scope Z_scope.

Definition fmap := Z -> float.
Definition fzero : fmap := fun _ => 0%float.
Definition fset (m : fmap) (k : Z) (v : float) : fmap := fun x => if x =? k then v else m x.
Fixpoint of_list (l : list (Z * float)) : fmap :=
  match l with [] => fzero | (k, v) :: r => fset (of_list r) k v end.

(* PropMap.Modify: multiplicative for AllDamageReduce (90) and Fatigue (91), else additive *)
Definition is_mult (p : Z) : bool := (p =? 90) || (p =? 91).
Definition modify (p : Z) (cur amt : float) : float :=
  if is_mult p then (1 - (1 - cur) * (1 - amt))%float else (cur + amt)%float.
(* one key of PropMap.AddAll / DebuffRESMap.AddAll / WeaknessMap.AddAll *)
Definition addall1 (p : Z) (cur v : float) : float := if (v =? 0)%float then cur else modify p cur v.
Definition dadd1 (cur v : float) : float := if (v =? 0)%float then cur else (cur + v)%float.
Definition wor1 (cur v : float) : float := if (v =? 0)%float then cur else 1%float.

(* statCalc *)
Definition stat_calc (base percent flat : float) : float :=
  let out := (base * (1 + percent) + flat)%float in
  if (out <? 0)%float then 0%float else out.

(* DebuffRESMap.GetDebuffRES for one flag *)
Definition dres_get (m : fmap) (f : Z) : float := if (0 <? m f)%float then m f else 0%float.

Inductive stacking6 := SUnique | SReplace | SMultiple.
Record cfg6 := mkC6 { k_stack : stacking6; k_status : Z; k_flags : list Z }.
Definition cfg6_0 : cfg6 := mkC6 SUnique 0 [].

(* description as the caller holds it: name, source and the three maps (None = nil) *)
Record desc6 := mkDs { ds_name : Z; ds_src : Z; ds_p : option Z; ds_d : option Z; ds_w : option Z }.
Record dinit := mkDi { di_name : Z; di_src : Z; di_p : option (list (Z * float));
                       di_d : option (list (Z * float)); di_w : option (list (Z * float)) }.

Record inst6 := mkIn { in_made : bool; in_name : Z; in_owner : Z; in_src : Z;
                       in_p : Z; in_d : Z; in_w : Z; in_handle : bool }.
Definition inst6_0 : inst6 := mkIn false (-1) 0 0 (-1) (-1) (-1) false.

Record snap6 := mkSn { sn_p : Z; sn_d : Z; sn_w : Z; sn_flags : list Z; sn_counts : list Z }.

Record ubase := mkUb { ub_p : list (Z * float); ub_d : list (Z * float); ub_w : list (Z * float) }.

Record world6 := mkW6 {
  w6_cat : list cfg6;
  w6_units : list (Z * ubase);
  w6_descs : list dinit;
  w6_pk : list Z;      (* property keys that are observed *)
  w6_fk : list Z;      (* behaviour flags that are observed *)
  w6_dk : list Z }.    (* damage types that are observed *)

Record st6 := mkS6 {
  store : Z -> fmap;
  nadr : Z;
  descs : list desc6;
  heap6 : Z -> inst6;
  ntag6 : Z;
  tg6 : Z -> list Z;
  snaps : list snap6 }.

Inductive op6 :=
| PAdd (u : Z) (d : nat)
| PRemove (u n : Z)
| PRemoveSelf (tag : Z)
| PDescSet (d : nat) (kind key : Z) (v : float)     (* the caller writes its own map *)
| PInstAddP (tag key : Z) (v : float)               (* Instance.AddProperty *)
| PInstSetP (tag key : Z) (v : float)               (* Instance.SetProperty *)
| PInstAddD (tag flag : Z) (v : float)              (* Instance.AddDebuffRES *)
| PInstAddW (tag dmg : Z)                           (* Instance.AddWeakness *)
| PInstDelW (tag dmg : Z)                           (* Instance.RemoveWeakness *)
| PSnap (u : Z)                                     (* keep engine.Stats(u) *)
| PSnapAddP (k : nat) (key : Z) (v : float)         (* Stats.AddProperty on a kept snapshot *)
| PSnapAddD (k : nat) (flag : Z) (v : float)        (* Stats.AddDebuffRES on a kept snapshot *)
| PReadAll.

Record view := mkV { v_props : list float; v_dres : list float; v_weak : list bool;
                     v_flags : list bool; v_counts : list Z; v_atk : float; v_hp : float }.

Record dump := mkDump { dm_descs : list (list float * list float * list bool);
                        dm_insts : list (Z * (list float * list float * list bool));
                        dm_snaps : list view }.

Definition obs6 := (list (list Z * view) * option dump)%type.

Section Model.
  Variable aliasing : bool.
  Variable w : world6.

  Definition getcfg6 (n : Z) : cfg6 := if n <? 0 then cfg6_0 else nth (Z.to_nat n) (w6_cat w) cfg6_0.

  Fixpoint ubase_of (us : list (Z * ubase)) (u : Z) : option ubase :=
    match us with
    | [] => None
    | (u', b) :: r => if u' =? u then Some b else ubase_of r u
    end.
  Definition valid6 (u : Z) : bool := match ubase_of (w6_units w) u with Some _ => true | None => false end.
  Definition base_of (u : Z) : ubase :=
    match ubase_of (w6_units w) u with Some b => b | None => mkUb [] [] [] end.

  (* ---- store primitives ---- *)
  Definition alloc (s : st6) (m : fmap) : st6 * Z :=
    (mkS6 (fun a => if a =? nadr s then m else store s a) (nadr s + 1) (descs s) (heap6 s) (ntag6 s) (tg6 s) (snaps s),
     nadr s).
  Definition write (s : st6) (a : Z) (m : fmap) : st6 :=
    mkS6 (fun x => if x =? a then m else store s x) (nadr s) (descs s) (heap6 s) (ntag6 s) (tg6 s) (snaps s).
  Definition set_heap6 (s : st6) (tag : Z) (i : inst6) : st6 :=
    mkS6 (store s) (nadr s) (descs s) (fun x => if x =? tag then i else heap6 s x) (ntag6 s) (tg6 s) (snaps s).
  Definition setl6 (s : st6) (u : Z) (l : list Z) : st6 :=
    mkS6 (store s) (nadr s) (descs s) (heap6 s) (ntag6 s) (fun x => if x =? u then l else tg6 s x) (snaps s).
  Definition set_ntag6 (s : st6) (n : Z) : st6 :=
    mkS6 (store s) (nadr s) (descs s) (heap6 s) n (tg6 s) (snaps s).
  Definition add_desc (s : st6) (d : desc6) : st6 :=
    mkS6 (store s) (nadr s) (descs s ++ [d]) (heap6 s) (ntag6 s) (tg6 s) (snaps s).
  Definition add_snap (s : st6) (x : snap6) : st6 :=
    mkS6 (store s) (nadr s) (descs s) (heap6 s) (ntag6 s) (tg6 s) (snaps s ++ [x]).

  Definition alloc_opt (s : st6) (o : option (list (Z * float))) : st6 * option Z :=
    match o with
    | None => (s, None)
    | Some l => let (s1, a) := alloc s (of_list l) in (s1, Some a)
    end.

  Definition init_desc (s : st6) (d : dinit) : st6 :=
    let (s1, p) := alloc_opt s (di_p d) in
    let (s2, dd) := alloc_opt s1 (di_d d) in
    let (s3, ww) := alloc_opt s2 (di_w d) in
    add_desc s3 (mkDs (di_name d) (di_src d) p dd ww).

  Definition init6 : st6 :=
    fold_left init_desc (w6_descs w) (mkS6 (fun _ => fzero) 0 [] (fun _ => inst6_0) 0 (fun _ => []) []).

  (* ---- evaluation: EvalModifiers followed by NewStats, one key at a time ---- *)
  Definition eval_p (s : st6) (u p : Z) : float :=
    addall1 p (fold_left (fun acc tag => addall1 p acc (store s (in_p (heap6 s tag)) p)) (tg6 s u) 0%float)
            (of_list (ub_p (base_of u)) p).
  Definition eval_d (s : st6) (u f : Z) : float :=
    dadd1 (fold_left (fun acc tag => dadd1 acc (store s (in_d (heap6 s tag)) f)) (tg6 s u) 0%float)
          (of_list (ub_d (base_of u)) f).
  Definition eval_w (s : st6) (u k : Z) : float :=
    wor1 (fold_left (fun acc tag => wor1 acc (store s (in_w (heap6 s tag)) k)) (tg6 s u) 0%float)
         (of_list (ub_w (base_of u)) k).
  Definition zmem6 (x : Z) (l : list Z) : bool := existsb (Z.eqb x) l.
  Definition eval_flag (s : st6) (u f : Z) : bool :=
    existsb (fun tag => zmem6 f (k_flags (getcfg6 (in_name (heap6 s tag))))) (tg6 s u).
  Definition eval_count (s : st6) (u status : Z) : Z :=
    Z.of_nat (length (filter (fun tag => k_status (getcfg6 (in_name (heap6 s tag))) =? status) (tg6 s u))).

  (* ---- what is read from a snapshot given by its three maps ---- *)
  Definition view_of (mp md mw : fmap) (flags : list bool) (counts : list Z) : view :=
    mkV (map mp (w6_pk w)) (map (dres_get md) (w6_fk w))
        (map (fun k => negb (mw k =? 0)%float) (w6_dk w)) flags counts
        (stat_calc (mp 5) (mp 6) (PrimFloat.add (mp 7) (mp 8)))      (* ATK *)
        (stat_calc (mp 1) (mp 2) (PrimFloat.add (mp 3) (mp 4))).     (* MaxHP *)

  Definition statuses : list Z := [0; 1; 2].

  (* a fresh engine.Stats(u), read at once *)
  Definition fresh_view (s : st6) (u : Z) : view :=
    view_of (eval_p s u) (eval_d s u) (eval_w s u)
            (map (eval_flag s u) (w6_fk w)) (map (eval_count s u) statuses).

  Definition snap_view (s : st6) (x : snap6) : view :=
    view_of (store s (sn_p x)) (store s (sn_d x)) (store s (sn_w x))
            (map (fun f => zmem6 f (sn_flags x)) (w6_fk w)) (sn_counts x).

  (* ---- AddModifier ---- *)
  Definition map_of (s : st6) (o : option Z) : fmap := match o with Some a => store s a | None => fzero end.

  (* newInstance: the instance's three maps *)
  Definition inst_map (s : st6) (o : option Z) : st6 * Z :=
    match o with
    | Some a => if aliasing then (s, a) else alloc s (store s a)
    | None => alloc s fzero
    end.

  Fixpoint find_name6 (h : Z -> inst6) (n : Z) (l : list Z) : option Z :=
    match l with
    | [] => None
    | m :: r => if in_name (h m) =? n then Some m else find_name6 h n r
    end.
  Fixpoint replace_name6 (h : Z -> inst6) (n new : Z) (l : list Z) : list Z :=
    match l with
    | [] => []
    | m :: r => if in_name (h m) =? n then new :: r else m :: replace_name6 h n new r
    end.

  Definition give_handle (s : st6) (tag : Z) : st6 :=
    let i := heap6 s tag in
    set_heap6 s tag (mkIn (in_made i) (in_name i) (in_owner i) (in_src i) (in_p i) (in_d i) (in_w i) true).

  Definition new_inst (s : st6) (u : Z) (d : desc6) (tag : Z) : st6 :=
    let (s1, pa) := inst_map s (ds_p d) in
    let (s2, da) := inst_map s1 (ds_d d) in
    let (s3, wa) := inst_map s2 (ds_w d) in
    set_heap6 s3 tag (mkIn true (ds_name d) u (ds_src d) pa da wa false).

  (* the stacking step and emitAdd (whose OnAdd listener hands the instance to the harness) *)
  Definition attach6 (s : st6) (u tag n : Z) : st6 :=
    let l := tg6 s u in
    match k_stack (getcfg6 n) with
    | SMultiple => give_handle (setl6 s u (l ++ [tag])) tag
    | SUnique =>
        match find_name6 (heap6 s) n l with
        | Some _ => s
        | None => give_handle (setl6 s u (l ++ [tag])) tag
        end
    | SReplace =>
        match find_name6 (heap6 s) n l with
        | Some _ => give_handle (setl6 s u (replace_name6 (heap6 s) n tag l)) tag
        | None => give_handle (setl6 s u (l ++ [tag])) tag
        end
    end.

  Definition add6 (s0 : st6) (u : Z) (dn : nat) : st6 :=
    match nth_error (descs s0) dn with
    | None => s0
    | Some d =>
        let tag := ntag6 s0 in
        let s := set_ntag6 s0 (tag + 1) in
        if negb (valid6 u) || negb (valid6 (ds_src d)) then s
        else attach6 (new_inst s u d tag) u tag (ds_name d)
    end.

  Fixpoint remove_first6 (x : Z) (l : list Z) : list Z :=
    match l with [] => [] | m :: r => if m =? x then r else m :: remove_first6 x r end.

  Definition upd_cell (s : st6) (a k : Z) (f : float -> float) : st6 :=
    write s a (fset (store s a) k (f (store s a k))).

  Definition desc_addr (d : desc6) (kind : Z) : option Z :=
    if kind =? 0 then ds_p d else if kind =? 1 then ds_d d else ds_w d.

  Definition step6 (s : st6) (o : op6) : st6 :=
    match o with
    | PAdd u d => add6 s u d
    | PRemove u n => setl6 s u (filter (fun m => negb (in_name (heap6 s m) =? n)) (tg6 s u))
    | PRemoveSelf tag =>
        let i := heap6 s tag in
        if in_handle i then setl6 s (in_owner i) (remove_first6 tag (tg6 s (in_owner i))) else s
    | PDescSet d kind key v =>
        match nth_error (descs s) d with
        | Some dd => match desc_addr dd kind with
                     | Some a => upd_cell s a key (fun _ => v)
                     | None => s
                     end
        | None => s
        end
    | PInstAddP tag key v =>
        let i := heap6 s tag in if in_handle i then upd_cell s (in_p i) key (fun cur => modify key cur v) else s
    | PInstSetP tag key v =>
        let i := heap6 s tag in if in_handle i then upd_cell s (in_p i) key (fun _ => modify key 0%float v) else s
    | PInstAddD tag f v =>
        let i := heap6 s tag in if in_handle i then upd_cell s (in_d i) f (fun cur => (cur + v)%float) else s
    | PInstAddW tag k =>
        let i := heap6 s tag in if in_handle i then upd_cell s (in_w i) k (fun _ => 1%float) else s
    | PInstDelW tag k =>
        let i := heap6 s tag in if in_handle i then upd_cell s (in_w i) k (fun _ => 0%float) else s
    | PSnap u =>
        let (s1, pa) := alloc s (eval_p s u) in
        let (s2, da) := alloc s1 (eval_d s u) in
        let (s3, wa) := alloc s2 (eval_w s u) in
        add_snap s3 (mkSn pa da wa (filter (eval_flag s u) (w6_fk w)) (map (eval_count s u) statuses))
    | PSnapAddP k key v =>
        match nth_error (snaps s) k with
        | Some x => upd_cell s (sn_p x) key (fun cur => modify key cur v)
        | None => s
        end
    | PSnapAddD k f v =>
        match nth_error (snaps s) k with
        | Some x => upd_cell s (sn_d x) f (fun cur => (cur + v)%float)
        | None => s
        end
    | PReadAll => s
    end.

  (* ---- observations ---- *)
  Definition desc_dump (s : st6) (d : desc6) : list float * list float * list bool :=
    (map (map_of s (ds_p d)) (w6_pk w), map (map_of s (ds_d d)) (w6_fk w),
     map (fun k => negb (map_of s (ds_w d) k =? 0)%float) (w6_dk w)).

  Definition inst_dump (s : st6) (tag : Z) : list float * list float * list bool :=
    let i := heap6 s tag in
    (map (store s (in_p i)) (w6_pk w), map (dres_get (store s (in_d i))) (w6_fk w),
     map (fun k => negb (store s (in_w i) k =? 0)%float) (w6_dk w)).

  Definition tags_upto (n : Z) : list Z := map Z.of_nat (seq 0 (Z.to_nat n)).

  Definition dump_of (s : st6) : dump :=
    mkDump (map (desc_dump s) (descs s))
           (map (fun t => (t, inst_dump s t)) (filter (fun t => in_handle (heap6 s t)) (tags_upto (ntag6 s))))
           (map (snap_view s) (snaps s)).

  Definition observe (s : st6) (o : op6) : obs6 :=
    (map (fun u => (tg6 s u, fresh_view s u)) (map fst (w6_units w)),
     match o with PReadAll => Some (dump_of s) | _ => None end).

  Fixpoint run6 (s : st6) (ops : list op6) : list obs6 :=
    match ops with
    | [] => []
    | o :: r => let s1 := step6 s o in observe s1 o :: run6 s1 r
    end.

  Fixpoint exec6 (s : st6) (ops : list op6) : st6 :=
    match ops with [] => s | o :: r => exec6 (step6 s o) r end.
End Model.
