module verif/harness

go 1.23.1

require github.com/simimpact/srsim v0.0.0

require (
	github.com/aclements/go-moremath v0.0.0-20210112150236-f10218a38794 // indirect
	google.golang.org/protobuf v1.34.2 // indirect
)

replace github.com/simimpact/srsim => /repo
