(* C01 — Seeded runs are reproducible.
   Only statements, [exact] and [Print Assumptions] live here. *)
From Coq Require Import List ZArith Bool String Permutation.
From SR Require Import Base.CaseLib Base.SiteTypes Base.MapIter Proofs.MapIterProofs
  Gen.Sites Model.SitesAllow Proofs.SitesProofs Model.Determinism Model.DeterminismCheck
  Proofs.DeterminismProofs.
Import ListNotations.

(* the property-level statement: oracle model + site obligations + checker soundness *)
Theorem C01_seeded_runs_reproducible : C01_statement.
Proof. exact C01_holds. Qed.
Print Assumptions C01_seeded_runs_reproducible.

(* every map-iteration site of the Go tree is an instance of a proved schema or is in the
   reviewed table (empty today) *)
Theorem C01_all_map_sites_classified : all_map_sites_classified_statement.
Proof. exact all_map_sites_classified. Qed.
Print Assumptions C01_all_map_sites_classified.

Theorem C01_allow_tables_exact :
  stale_entries = [] /\ stale_ambient = [] /\ keys_distinct (map key_of map_sites) = true.
Proof. exact (conj stale_entries_none (conj stale_ambient_none site_keys_distinct)). Qed.
Print Assumptions C01_allow_tables_exact.

(* every random decision of a run is drawn from the run's own generator: nothing reachable
   from simulation.Run uses the global math/rand, crypto/rand, the clock or the environment *)
Theorem C01_no_ambient_randomness : no_ambient_randomness_statement.
Proof. exact no_ambient_randomness. Qed.
Print Assumptions C01_no_ambient_randomness.

(* the schema library, for every permutation the iteration-order oracle may pick *)
Theorem C01_range_update_per_key :
  forall (K V K' V' : Type) (keqb' : K' -> K' -> bool), (forall a b, keqb' a b = true <-> a = b) ->
  forall (m : @amap K V) (h : K -> K') (u : K -> V -> option V' -> option V'),
    (forall k1 k2, h k1 = h k2 -> k1 = k2) -> wf m ->
  forall o1 o2, is_order m o1 -> is_order m o2 -> forall d,
    same_map keqb' (range (per_key_body keqb' h u) o1 d) (range (per_key_body keqb' h u) o2 d).
Proof. intros K V K' V' keqb' Hs. exact (range_update_per_key keqb' Hs). Qed.
Print Assumptions C01_range_update_per_key.

Theorem C01_range_insert_distinct :
  forall (K V K' V' : Type) (keqb' : K' -> K' -> bool), (forall a b, keqb' a b = true <-> a = b) ->
  forall (m : @amap K V) (h : K -> K') (g : K -> V -> V'), (forall k1 k2, h k1 = h k2 -> k1 = k2) -> wf m ->
  forall o1 o2, is_order m o1 -> is_order m o2 -> forall d,
    same_map keqb' (range (fun d kv => set keqb' (h (fst kv)) (g (fst kv) (snd kv)) d) o1 d)
                   (range (fun d kv => set keqb' (h (fst kv)) (g (fst kv) (snd kv)) d) o2 d).
Proof. intros K V K' V' keqb' Hs. exact (range_insert_distinct keqb' Hs). Qed.
Print Assumptions C01_range_insert_distinct.

Theorem C01_range_copy :
  forall (K V : Type) (keqb : K -> K -> bool), (forall a b, keqb a b = true <-> a = b) ->
  forall m : @amap K V, wf m -> forall o1 o2, is_order m o1 -> is_order m o2 -> forall d,
    same_map keqb (range (fun d kv => set keqb (fst kv) (snd kv) d) o1 d)
                  (range (fun d kv => set keqb (fst kv) (snd kv) d) o2 d).
Proof. intros K V keqb Hs. exact (range_copy keqb Hs). Qed.
Print Assumptions C01_range_copy.

Theorem C01_range_delete_all :
  forall (K V : Type) (keqb : K -> K -> bool), (forall a b, keqb a b = true <-> a = b) ->
  forall (m : @amap K V) o, is_order m o ->
  forall k, lookup keqb k (range (fun d kv => del keqb (fst kv) d) o m) = None.
Proof. intros K V keqb Hs. exact (range_delete_all keqb Hs). Qed.
Print Assumptions C01_range_delete_all.

Theorem C01_range_acc_comm_assoc :
  forall (A B : Type) (op : B -> B -> B) (g : A -> B),
    (forall a b, op a b = op b a) -> (forall a b c, op (op a b) c = op a (op b c)) ->
  forall o1 o2 : list A, Permutation o1 o2 -> forall a0,
    fold_left (fun acc x => op acc (g x)) o1 a0 = fold_left (fun acc x => op acc (g x)) o2 a0.
Proof. exact range_acc_comm_assoc. Qed.
Print Assumptions C01_range_acc_comm_assoc.

Theorem C01_range_acc_instances :
  (forall (A : Type) (g : A -> Z) o1 o2, Permutation o1 o2 -> forall a0,
     fold_left (fun acc x => (acc + g x)%Z) o1 a0 = fold_left (fun acc x => (acc + g x)%Z) o2 a0) /\
  (forall (A : Type) (g : A -> Z) o1 o2, Permutation o1 o2 -> forall a0,
     fold_left (fun acc x => add64 acc (g x)) o1 a0 = fold_left (fun acc x => add64 acc (g x)) o2 a0) /\
  (forall (A : Type) (g : A -> Z) o1 o2, Permutation o1 o2 -> forall a0,
     fold_left (fun acc x => Z.max acc (g x)) o1 a0 = fold_left (fun acc x => Z.max acc (g x)) o2 a0) /\
  (forall (A : Type) (g : A -> bool) o1 o2, Permutation o1 o2 -> forall a0,
     fold_left (fun acc x => acc || g x) o1 a0 = fold_left (fun acc x => acc || g x) o2 a0) /\
  (forall (A : Type) (g : A -> bool) o1 o2, Permutation o1 o2 -> forall a0,
     fold_left (fun acc x => acc && g x) o1 a0 = fold_left (fun acc x => acc && g x) o2 a0).
Proof.
  exact (conj range_acc_Zadd (conj range_acc_int64_add (conj range_acc_Zmax (conj range_acc_orb range_acc_andb)))).
Qed.
Print Assumptions C01_range_acc_instances.

Theorem C01_range_collect_sorted :
  forall (A : Type) (kf : A -> Z) (o1 o2 : list A),
    Permutation o1 o2 -> NoDup (map kf o1) -> isort kf o1 = isort kf o2.
Proof. exact (fun A kf => range_collect_sorted kf). Qed.
Print Assumptions C01_range_collect_sorted.

(* a program made of order-independent loops does not depend on the oracle *)
Theorem C01_program_oracle_independent : oracle_model_statement.
Proof. exact oracle_model_holds. Qed.
Print Assumptions C01_program_oracle_independent.

(* refutations: these loop shapes DO depend on the iteration order *)
Theorem C01_range_append_order_dependent :
  exists (m o1 o2 : list (Z * Z)),
    NoDup (map fst m) /\ is_order m o1 /\ is_order m o2 /\
    range (fun acc kv => (acc ++ [fst kv])%list) o1 [] <> range (fun acc kv => (acc ++ [fst kv])%list) o2 [].
Proof. exact range_append_order_dependent. Qed.
Print Assumptions C01_range_append_order_dependent.

(* binary64 sum of 0.1, 0.2, 0.3 (exact bit patterns) in two orders: 0x3FE3333333333334 vs 0x3FE3333333333333 *)
Theorem C01_range_float_sum_order_dependent : range_float_sum_order_dependent_statement.
Proof. exact range_float_sum_order_dependent. Qed.
Print Assumptions C01_range_float_sum_order_dependent.

Theorem C01_range_effect_order_dependent :
  exists (m o1 o2 : list (Z * Z)) (stream : list Z),
    NoDup (map fst m) /\ is_order m o1 /\ is_order m o2 /\
    ~ same_map Z.eqb (snd (range draw_body o1 (stream, []))) (snd (range draw_body o2 (stream, []))).
Proof. exact range_effect_order_dependent. Qed.
Print Assumptions C01_range_effect_order_dependent.

(* formulas of at most two terms: 0 + a + b = 0 + b + a in binary64, for ALL a and b *)
Theorem C01_two_term_float_sum_order_independent : two_term_float_sum_statement.
Proof. exact two_term_float_sum_order_independent. Qed.
Print Assumptions C01_two_term_float_sum_order_independent.

(* non-vacuity: a concrete three-step program (update per key; a deterministic step; insert
   under distinct keys) run under two different legal oracles: different association lists,
   the same map; and the generated tables are not empty *)
Example C01_nonvacuous :
  (forall o1 o2 : oracle Z Z, legal o1 -> legal o2 ->
     forall d, same_map Z.eqb (run_prog o1 0 demo_prog d) (run_prog o2 0 demo_prog d)) /\
  legal oracle_id /\ legal oracle_rev /\
  run_prog oracle_id 0 demo_prog [] <> run_prog oracle_rev 0 demo_prog [] /\
  (20 <=? Z.of_nat (List.length map_sites))%Z = true /\ (5 <=? Z.of_nat (List.length ambient_sites))%Z = true.
Proof.
  split; [exact demo_oracle_independent|].
  split; [exact oracle_id_legal|]. split; [exact oracle_rev_legal|].
  split; [exact (proj1 demo_runs)|].
  split; [exact (proj1 tables_nonempty)|exact (proj1 (proj2 tables_nonempty))].
Qed.
