package main

import (
	"github.com/simimpact/srsim/pkg/engine/event"
	"github.com/simimpact/srsim/pkg/engine/info"
	"github.com/simimpact/srsim/pkg/engine/prop"
	"github.com/simimpact/srsim/pkg/engine/turn"
	"github.com/simimpact/srsim/pkg/key"

	"verif/harness/term"
)

// fake attribute.Getter: only Stats(id).SPD() is used by the turn manager
type turnAttr struct{ spd map[key.TargetID]float64 }

func (a *turnAttr) Stats(id key.TargetID) *info.Stats {
	attr := info.DefaultAttribute()
	mods := &info.ModifierState{
		Props:     info.NewPropMap(),
		DebuffRES: info.NewDebuffRESMap(),
		Weakness:  info.NewWeaknessMap(),
	}
	s, ok := a.spd[id]
	if !ok {
		s = 100
	}
	mods.Props.Set(prop.SPDBase, s)
	return info.NewStats(id, &attr, mods)
}
func (a *turnAttr) Stance(key.TargetID) float64               { return 0 }
func (a *turnAttr) MaxStance(key.TargetID) float64            { return 0 }
func (a *turnAttr) Energy(key.TargetID) float64               { return 0 }
func (a *turnAttr) MaxEnergy(key.TargetID) float64            { return 0 }
func (a *turnAttr) EnergyRatio(key.TargetID) float64          { return 0 }
func (a *turnAttr) HPRatio(key.TargetID) float64              { return 1 }
func (a *turnAttr) IsAlive(key.TargetID) bool                 { return true }
func (a *turnAttr) State(key.TargetID) info.TargetState       { return info.Alive }
func (a *turnAttr) FullEnergy(key.TargetID) bool              { return false }
func (a *turnAttr) LastAttacker(id key.TargetID) key.TargetID { return id }
func (a *turnAttr) SP() int                                   { return 3 }

func statusTerm(st []event.TurnStatus) term.T {
	out := []term.T{}
	for _, s := range st {
		out = append(out, term.Tup(term.I(int64(s.ID)), term.I(s.Gauge), term.F(s.AV)))
	}
	return term.L(out...)
}

func runTurn(in term.T) term.T {
	ops := term.List(in)
	attr := &turnAttr{spd: map[key.TargetID]float64{}}
	sys := &event.System{}
	mgr := turn.New(sys, attr)
	var cur []term.T
	sys.TurnTargetsAdded.Subscribe(func(e event.TurnTargetsAdded) {
		ids := []term.T{}
		for _, id := range e.Targets {
			ids = append(ids, term.I(int64(id)))
		}
		cur = append(cur, term.C("EAdded", term.L(ids...), statusTerm(e.TurnOrder)))
	})
	sys.TurnReset.Subscribe(func(e event.TurnReset) {
		cur = append(cur, term.C("EReset", term.I(int64(e.ResetTarget)), term.F(float64(e.GaugeCost)), statusTerm(e.TurnOrder)))
	})
	sys.GaugeChange.Subscribe(func(e event.GaugeChange) {
		cur = append(cur, term.C("EGauge", term.I(int64(e.Target)), term.I(e.OldGauge), term.I(e.NewGauge), statusTerm(e.TurnOrder)))
	})
	sys.CurrentGaugeCostChange.Subscribe(func(e event.CurrentGaugeCostChange) {
		cur = append(cur, term.C("ECost", term.F(float64(e.OldCost)), term.F(float64(e.NewCost))))
	})
	all := []term.T{}
	for _, o := range ops {
		cur = []term.T{}
		func() {
			defer func() {
				if r := recover(); r != nil {
					cur = append(cur, term.C("EPanic"))
				}
			}()
			name, a := term.Ctor(o)
			fail := func(err error) {
				if err != nil {
					cur = append(cur, term.C("EErr"))
				}
			}
			switch name {
			case "OSetSpeed":
				attr.spd[key.TargetID(term.Int(a[0]))] = term.Float(a[1])
			case "OAdd":
				ids := []key.TargetID{}
				for _, iv := range term.List(a[0]) {
					it := term.TupleItems(iv)
					id := key.TargetID(term.Int(it[0]))
					attr.spd[id] = term.Float(it[1])
					ids = append(ids, id)
				}
				mgr.AddTargets(ids...)
			case "ORemove":
				fail(mgr.RemoveTarget(key.TargetID(term.Int(a[0]))))
			case "OStart":
				id, av, st, err := mgr.StartTurn()
				if err != nil {
					fail(err)
				} else {
					cur = append(cur, term.C("EStart", term.I(int64(id)), term.F(av), statusTerm(st), term.F(mgr.TotalAV())))
				}
			case "OReset":
				fail(mgr.ResetTurn())
			case "OSetGauge":
				fail(mgr.SetGauge(info.ModifyAttribute{Key: "k", Target: key.TargetID(term.Int(a[0])), Source: 1, Amount: term.Float(a[1])}))
			case "OModNorm":
				fail(mgr.ModifyGaugeNormalized(info.ModifyAttribute{Key: "k", Target: key.TargetID(term.Int(a[0])), Source: 1, Amount: term.Float(a[1])}))
			case "OModAV":
				fail(mgr.ModifyGaugeAV(info.ModifyAttribute{Key: "k", Target: key.TargetID(term.Int(a[0])), Source: 1, Amount: term.Float(a[1])}))
			case "OSetCost":
				mgr.SetCurrentGaugeCost(info.ModifyCurrentGaugeCost{Key: "k", Source: 1, Amount: term.Float(a[0])})
			case "OModCost":
				mgr.ModifyCurrentGaugeCost(info.ModifyCurrentGaugeCost{Key: "k", Source: 1, Amount: term.Float(a[0])})
			default:
				panic("unknown op " + name)
			}
		}()
		all = append(all, term.L(cur...))
	}
	return term.L(all...)
}

func genTurn(r *term.Rng, idx int) term.T {
	nu := r.Range(2, 8)
	speedPool := []float64{90, 100, 100, 101, 120, 134, 160, 99.5, 250, 1, 500, 133.4}
	if r.Chance(1, 6) {
		// a large battle with many ties: sort.Sort is a stable insertion sort only up to 12 elements, so
		// the documented tie order needs sort.Stable here
		nu = r.Range(13, 24)
		speedPool = []float64{100, 100, 100, 120, 120, 90}
	}
	ops := []term.T{}
	members := []int64{}
	next := int64(1)
	inTurn := false
	addSome := func(k int) {
		ids := []term.T{}
		for ; k > 0; k-- {
			ids = append(ids, term.Tup(term.I(next), term.F(term.Pick(r, speedPool))))
			members = append(members, next)
			next++
		}
		ops = append(ops, term.C("OAdd", term.L(ids...)))
	}
	// tie mode: speeds and gauge targets from tiny pools whose quotients coincide exactly
	// (5000/100 = 6000/120 = 4500/90, 10000/100 = 12000/120 = 9000/90), with speed changes in between, so that
	// a set / advance / delay lands on an exact action-value tie while the stored order is stale
	tieMode := r.Chance(1, 4)
	if tieMode {
		speedPool = []float64{100, 120, 90, 100}
	}
	addSome(nu)
	pick := func() int64 {
		if len(members) == 0 || r.Chance(1, 25) {
			return int64(r.Range(1, int(next)+1)) // sometimes an id that was removed or never existed
		}
		return term.Pick(r, members)
	}
	amounts := func() float64 {
		if tieMode && r.Chance(3, 4) {
			return term.Pick(r, []float64{10000, 5000, 6000, 4500, 9000, 12000, 0, 2500, 3000, 2250})
		}
		switch r.Intn(8) {
		case 0:
			return 0
		case 1:
			return float64(r.Range(0, 12000))
		case 2:
			return -float64(r.Range(1, 3000))
		case 3:
			return 10000
		case 4:
			return float64(r.Range(0, 10000)) + 0.75
		default:
			return float64(r.Range(0, 10000))
		}
	}
	norm := []float64{-0.25, -0.5, -1, -2, 0.25, 0.5, 0.3, -0.3, 0.1, -0.12, 1, 0}
	avs := []float64{-10, -25.5, 10, 30, -200, 5, 0, -0.5}
	costs := []float64{1, 0.5, 0.75, 1.5, 2, 0, 0.1, -0.5}
	n := r.Range(5, 60)
	for len(ops) < n {
		k := r.Intn(20)
		if tieMode && r.Chance(1, 3) {
			k = term.Pick(r, []int{6, 7, 8, 16, 17}) // more SetGauge and SetSpeed
		}
		switch {
		case k < 5:
			if inTurn {
				ops = append(ops, term.C("OReset"))
				inTurn = false
			} else {
				ops = append(ops, term.C("OStart"))
				inTurn = true
			}
		case k < 6:
			// protocol violations too: double start / reset without a turn
			if r.Bool() {
				ops = append(ops, term.C("OStart"))
				inTurn = true
			} else {
				ops = append(ops, term.C("OReset"))
				inTurn = false
			}
		case k < 9:
			ops = append(ops, term.C("OSetGauge", term.I(pick()), term.F(amounts())))
		case k < 12:
			ops = append(ops, term.C("OModNorm", term.I(pick()), term.F(term.Pick(r, norm))))
		case k < 14:
			ops = append(ops, term.C("OModAV", term.I(pick()), term.F(term.Pick(r, avs))))
		case k < 15:
			ops = append(ops, term.C("OSetCost", term.F(term.Pick(r, costs))))
		case k < 16:
			ops = append(ops, term.C("OModCost", term.F(term.Pick(r, []float64{-0.5, 0.5, 0.25, -0.25, 1, -1}))))
		case k < 18:
			ops = append(ops, term.C("OSetSpeed", term.I(pick()), term.F(term.Pick(r, speedPool))))
		case k < 19:
			if len(members) > 1 {
				i := r.Intn(len(members))
				ops = append(ops, term.C("ORemove", term.I(members[i])))
				members = append(members[:i], members[i+1:]...)
			}
		default:
			addSome(r.Range(1, 2))
		}
	}
	return term.L(ops...)
}

func kindsTurn(in term.T) map[string]int {
	m := map[string]int{}
	for _, o := range term.List(in) {
		n, _ := term.Ctor(o)
		m[n]++
	}
	return m
}

func init() { register("turn", component{gen: genTurn, run: runTurn, kinds: kindsTurn}) }
