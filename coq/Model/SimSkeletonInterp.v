(* An INTERPRETER of run-loop skeletons (Model/SimSkeleton.v) over the state and outcome types of the
   hand-written whole-simulation model Model/Sim.v.  The skeleton is DATA printed by `go2coq RunSkeleton` from
   pkg/simulation/run.go; this file says what each step of a STATE FUNCTION of the run loop (engage, beginTurn,
   phase1, action, phase2, endTurn) denotes in the model's vocabulary:

     SkEmit "X" _                      -> emit s [VX ...]                       (denote_emit)
     SkCall "sim.deathCheck" [b]       -> Sim.death_check cfg fuel s b          (denote_call)
     SkCall "sim.Modifier.Tick" [sim.Active; phase]  -> Sim.run_slot .. LPhase1 / LPhase2 (no counterpart for TurnStart / ActionEnd)
     SkCall "sim.Turn.ResetTurn" []    -> Turn.step OReset + reset_events
     SkBind .. "sim.Turn.StartTurn"    -> Turn.step OStart, results kept in a register
     SkBind .. "sim.executeQueue" [phase; next] -> Sim.execute_queue cfg fuel s (phase < info.ActionEnd, by the
                                          generated constant table), (next, err) kept in a register
     SkBind .. "sim.executeAction" [sim.Active; false] -> Sim.execute_action cfg fuel s (active_id s) false
     SkReturnCall "sim.exitCheck" [next]   -> Sim.exit_check cfg s
     SkIf / SkReturn                   -> control, conditions by denote_cond (a finite table of the guards' source text)

   A step, call, event, condition or return shape that is not in these tables makes the interpretation RStuck
   (fail closed); the steps of [no_counterpart] are the ones the model deliberately has nothing for and are the
   identity.  Go's `sim.Active` is read as [active_id s] at every use (never cached).  No proofs here;
   Proofs/RunSkeletonInterpProofs.v proves interp_turn / interp_start equal to Sim.one_turn / the head of Sim.start. *)
From Coq Require Import List ZArith Bool Floats String.
From SR Require Import Base.CaseLib Base.NumOps Model.Turn Model.Sim Model.SimSkeleton.
Import ListNotations.
Open Scope Z_scope.
Open Scope string_scope.

(* what the Go locals of a state function hold *)
Inductive kreg :=
| KUnbound
| KGoto (st : string)      (* (next, err) = (a state, nil) *)
| KStop                    (* (nil, nil): Termination was emitted *)
| KErr                     (* err != nil *)
| KOk.                     (* err == nil, for a call returning only an error *)
Inductive startreg :=
| SUnbound
| SFailed                                                       (* StartTurn returned an error / panicked *)
| SOk (id : Z) (av tot : float) (order : list (Z * Z)).         (* next, av, TotalAV, turnOrder *)
Record regs := mkRegs { r_ne : kreg; r_start : startreg }.
Definition regs0 := mkRegs KUnbound SUnbound.

Inductive res :=
| RCont (s : sim) (r : regs)         (* fall through to the next step *)
| RGoto (st : string) (s : sim)      (* return <state>, nil *)
| RStop (s : sim)                    (* return nil, nil *)
| RErr (s : sim)                     (* return _, err *)
| RFuel
| RStuck.                            (* outside the denotation tables *)

Definition slist_eqb (a b : list string) : bool :=
  (fix go a b := match a, b with
                 | [], [] => true
                 | x :: a', y :: b' => String.eqb x y && go a' b'
                 | _, _ => false
                 end) a b.

(* steps the model has no counterpart for (identity); see the comments of SimSkeleton.expected *)
Definition no_counterpart_call (f : string) (args : list string) : bool :=
  (String.eqb f "sim.Modifier.Tick" && slist_eqb args ["sim.Active"; "info.TurnStart"])
  || (String.eqb f "sim.Modifier.Tick" && slist_eqb args ["sim.Active"; "info.ActionEnd"]).
Definition no_counterpart_bind (lhs : list string) (f : string) (args : list string) : bool :=
  slist_eqb lhs ["snap"] && String.eqb f "sim.createSnapshot" && slist_eqb args [].
(* the stance reset at the start of an enemy turn: harness enemies have no stance (attribute service: C07) *)
Definition stance_reset_guard : string := "sim.IsEnemy(sim.Active) && sim.Attr.Stance(sim.Active) <= 0".

Section Interp.
  Variable cfg : config.
  Variable consts : list (string * Z).
  Variable fuel : nat.

  Definition flag_of (name : string) : option Z := const_of consts name.

  (* phase < info.ActionEnd, decided on the constant values of the source *)
  Definition phase_before_action_end (ph : string) : option bool :=
    match const_of consts ph, const_of consts "info.ActionEnd" with
    | Some a, Some b => Some (Z.ltb a b)
    | _, _ => None
    end.

  Definition of_outcome (nx : string) (o : outcome) : option (sim * kreg) :=
    match o with
    | Ok s => Some (s, KGoto nx) | Stop s => Some (s, KStop) | Err s => Some (s, KErr) | OutOfFuel => None
    end.

  (* a call used as a statement *)
  Definition denote_call (f : string) (args : list string) (s : sim) : option (option sim) :=
    if no_counterpart_call f args then Some (Some s)
    else if String.eqb f "sim.deathCheck" then
      if slist_eqb args ["false"] then Some (death_check cfg fuel s false)
      else if slist_eqb args ["true"] then Some (death_check cfg fuel s true)
      else None
    else if String.eqb f "sim.Modifier.Tick" then
      if slist_eqb args ["sim.Active"; "info.ModifierPhase1"]
      then Some (run_slot cfg fuel s LPhase1 (active_id s) (active_id s))
      else if slist_eqb args ["sim.Active"; "info.ModifierPhase2"]
      then Some (run_slot cfg fuel s LPhase2 (active_id s) (active_id s))
      else None
    else if String.eqb f "sim.Turn.ResetTurn" && slist_eqb args [] then
      let '(t2, outs2) := Turn.step F (turn s) (@OReset F) in
      Some (Some (emit (set_turn s t2) (reset_events outs2)))
    else None.

  Definition denote_emit (ev : string) (s : sim) (r : regs) : option sim :=
    if String.eqb ev "Phase1Start" then Some (emit s [VPhase1Start])
    else if String.eqb ev "Phase1End" then Some (emit s [VPhase1End])
    else if String.eqb ev "Phase2Start" then Some (emit s [VPhase2Start])
    else if String.eqb ev "Phase2End" then Some (emit s [VPhase2End])
    else if String.eqb ev "TurnEnd" then Some (emit s [VTurnEnd (chars s) (enemies s)])
    else if String.eqb ev "BreakExtend" then Some (emit s [VBreakExtend (active_id s)])
    else if String.eqb ev "TurnStart" then
      match r_start r with
      | SOk id av tot order => Some (emit s [VTurnStart id av tot order])
      | _ => None
      end
    else None.

  Definition denote_cond (c : string) (s : sim) (r : regs) : option bool :=
    if String.eqb c "sim.HasBehaviorFlag(sim.Active, model.BehaviorFlag_DISABLE_ACTION)" then
      match flag_of "model.BehaviorFlag_DISABLE_ACTION" with
      | Some fl => Some (has_flag s (active_id s) [fl]) | None => None end
    else if String.eqb c "sim.IsEnemy(sim.Active) && sim.HasBehaviorFlag(sim.Active, model.BehaviorFlag_BREAK_EXTEND)" then
      match flag_of "model.BehaviorFlag_BREAK_EXTEND" with
      | Some fl => Some (is_enemy s (active_id s) && has_flag s (active_id s) [fl]) | None => None end
    else if String.eqb c "err == nil && next != nil" then
      match r_ne r with KGoto _ => Some true | KStop | KErr => Some false | _ => None end
    else if String.eqb c "next == nil || err != nil" then
      match r_ne r with KGoto _ => Some false | KStop | KErr => Some true | _ => None end
    else if String.eqb c "err != nil" then
      match r_ne r with KOk => Some false | KErr => Some true | _ => None end
    else if String.eqb c "!sim.IsValid(next) || err != nil" then
      match r_start r with
      | SOk id _ _ _ => Some (match get_unit (units s) id with Some _ => false | None => true end)
      | SFailed => Some true
      | SUnbound => None
      end
    else None.

  Definition denote_bind (lhs : list string) (f : string) (args : list string) (s : sim) (r : regs) : res :=
    if no_counterpart_bind lhs f args then RCont s r
    else if slist_eqb lhs ["next"; "err"] && String.eqb f "sim.executeQueue" then
      match args with
      | [ph; nx] =>
          match phase_before_action_end ph with
          | Some b => match of_outcome nx (execute_queue cfg fuel s b) with
                      | Some (s', k) => RCont s' (mkRegs k (r_start r))
                      | None => RFuel
                      end
          | None => RStuck
          end
      | _ => RStuck
      end
    else if slist_eqb lhs ["err"] && String.eqb f "sim.executeAction" && slist_eqb args ["sim.Active"; "false"] then
      match execute_action cfg fuel s (active_id s) false with
      | AOk s' => RCont s' (mkRegs KOk (r_start r))
      | AErr s' | ACrash s' => RCont s' (mkRegs KErr (r_start r))
      | AFuel => RFuel
      end
    else if slist_eqb lhs ["next"; "av"; "turnOrder"; "err"] && String.eqb f "sim.Turn.StartTurn" && slist_eqb args [] then
      let '(t', outs) := Turn.step F (turn s) (@OStart F) in
      match outs with
      | [EStart id av st tot] =>
          RCont (set_turn s t') (mkRegs (r_ne r) (SOk id av tot (map (fun x => (fst (fst x), snd (fst x))) st)))
      | _ => RCont (set_turn s t') (mkRegs (r_ne r) SFailed)
      end
    else RStuck.

  Definition is_errorf (v : string) : bool := String.prefix "fmt.Errorf(" v.

  Definition denote_return (vals : list string) (s : sim) (r : regs) : res :=
    match vals with
    | [a; b] =>
        if String.eqb a "nil" && String.eqb b "nil" then RStop s
        else if String.eqb a "nil" && is_errorf b then RErr s
        else if String.eqb a "nil" && String.eqb b "err" then
          match r_ne r with KStop => RStop s | KErr => RErr s | _ => RStuck end
        else if String.eqb a "next" && String.eqb b "err" then
          match r_ne r with KGoto nx => RGoto nx s | KStop => RStop s | KErr => RErr s | _ => RStuck end
        else if String.eqb b "nil" then RGoto a s
        else RStuck
    | _ => RStuck
    end.

  Definition denote_return_call (f : string) (args : list string) (s : sim) : res :=
    match args with
    | [nx] =>
        if String.eqb f "sim.exitCheck" then
          match exit_check cfg s with
          | Ok s' => RGoto nx s' | Stop s' => RStop s' | Err s' => RErr s' | OutOfFuel => RFuel
          end
        else RStuck
    | [ph; nx] =>
        if String.eqb f "sim.executeQueue" then
          match phase_before_action_end ph with
          | Some b => match execute_queue cfg fuel s b with
                      | Ok s' => RGoto nx s' | Stop s' => RStop s' | Err s' => RErr s' | OutOfFuel => RFuel
                      end
          | None => RStuck
          end
        else RStuck
    | _ => RStuck
    end.

  Fixpoint interp_step (st : step) : sim -> regs -> res :=
    let seq := fix seq (l : list step) (s : sim) (r : regs) : res :=
      match l with
      | [] => RCont s r
      | x :: l' => match interp_step x s r with RCont s' r' => seq l' s' r' | o => o end
      end in
    fun s r =>
    match st with
    | SkEmit ev _ => match denote_emit ev s r with Some s' => RCont s' r | None => RStuck end
    | SkCall f args =>
        match denote_call f args s with
        | Some (Some s') => RCont s' r
        | Some None => RFuel
        | None => RStuck
        end
    | SkBind lhs _ f args => denote_bind lhs f args s r
    | SkAssign lhs tok rhs =>
        if slist_eqb lhs ["sim.Active"] && String.eqb tok "=" && slist_eqb rhs ["next"] then
          match r_start r with SOk id _ _ _ => RCont (set_active s id) r | _ => RStuck end
        else RStuck
    | SkIf init c thn els =>
        if String.eqb c stance_reset_guard then RCont s r        (* no counterpart: the whole statement *)
        else
        match seq init s r with
        | RCont s1 r1 =>
            match denote_cond c s1 r1 with
            | Some true => seq thn s1 r1
            | Some false => seq els s1 r1
            | None => RStuck
            end
        | o => o
        end
    | SkReturn vals => denote_return vals s r
    | SkReturnCall f args => denote_return_call f args s
    | _ => RStuck
    end.

  Fixpoint interp_steps (l : list step) (s : sim) (r : regs) : res :=
    match l with
    | [] => RCont s r
    | x :: l' => match interp_step x s r with RCont s' r' => interp_steps l' s' r' | o => o end
    end.

  Variable tbl : list fn.

  (* one state function, from fresh locals; falling off the end of a state function is not a return *)
  Definition interp_fn (name : string) (s : sim) : res :=
    match find_fn tbl name with
    | Some f => match interp_steps (fn_body f) s regs0 with RCont _ _ => RStuck | o => o end
    | None => RStuck
    end.

  (* Run's loop `for state := ..; state != nil; { state, err = state(sim) ... }`, at most [n] state functions,
     stopping when the state [until] comes up (the next turn) *)
  Fixpoint run_states (n : nat) (until : string) (st : string) (s : sim) : option outcome :=
    match n with
    | O => None
    | S n' =>
        match interp_fn st s with
        | RGoto st' s' => if String.eqb st' until then Some (Ok s') else run_states n' until st' s'
        | RStop s' => Some (Stop s')
        | RErr s' => Some (Err s')
        | RFuel => Some OutOfFuel
        | RCont _ _ | RStuck => None
        end
    end.

  (* one turn: beginTurn, phase1, [action,] phase2, endTurn, until beginTurn is the next state *)
  Definition interp_turn (s : sim) : option outcome := run_states 5 "beginTurn" "beginTurn" s.
  (* engage (the drain at battle start) until the first beginTurn *)
  Definition interp_engage (s : sim) : option outcome := run_states 1 "beginTurn" "engage" s.
End Interp.
