(* C18 — Event delivery is complete, ordered and logged once.
   Only statements, [exact] and [Print Assumptions] live here. *)
From Coq Require Import List ZArith.
From SR Require Import Model.Events Proofs.EventsProofs.

Theorem C18_event_delivery : C18_statement.
Proof. exact C18_holds. Qed.
Print Assumptions C18_event_delivery.

Theorem C18_mutable_listeners_see_earlier_changes :
  forall vin calls vout, threaded KMutable vin calls vout ->
    vout = fold_left (fun v cl => apply_x (r_x (call_r cl)) v) calls vin /\
    forall pre cl post, calls = pre ++ cl :: post ->
      call_v cl = fold_left (fun v c0 => apply_x (r_x (call_r c0)) v) pre vin.
Proof. exact threaded_mutable_fold. Qed.
Print Assumptions C18_mutable_listeners_see_earlier_changes.

Theorem C18_other_handlers_pass_value_unchanged :
  forall k vin calls vout, k <> KMutable -> threaded k vin calls vout ->
    vout = vin /\ Forall (fun cl => call_v cl = vin) calls.
Proof. exact threaded_const. Qed.
Print Assumptions C18_other_handlers_pass_value_unchanged.

Theorem C18_unregistered_logger_sees_nothing :
  forall lg lgs, ~ In lg lgs -> forall fr, log_of lg (flatten lgs fr) = nil.
Proof. exact unregistered_logger_sees_nothing. Qed.
Print Assumptions C18_unregistered_logger_sees_nothing.

Theorem C18_nonvacuous : exists w frs, run 10 (init demo_kinds) demo_ops = Some (w, frs) /\
  length frs = 2%nat /\ length (trace w) = 18%nat.
Proof. exact demo_runs. Qed.
