(* strconv.ParseInt(s, 10, 64) and strconv.ParseFloat(s, 64) on the number lexemes the gcs lexer
   can produce ([-]digits[.digits], .digits), and Go's int64 -> float64 conversion.
   ParseFloat is correctly rounded (nearest, ties to even), so it is modelled by exact integer
   arithmetic.  Executable; no proofs here. *)
From Coq Require Import List ZArith Bool String Ascii Floats Uint63.
From SR Require Import Base.CaseLib Model.GcsAst.
Import ListNotations.
Open Scope Z_scope.

(* value of a digit string, most significant first; None if a non-digit occurs *)
Fixpoint digits_val (l : list Z) (acc : Z) : option Z :=
  match l with
  | [] => Some acc
  | c :: r => if (48 <=? c) && (c <=? 57) then digits_val r (acc * 10 + (c - 48)) else None
  end.

Fixpoint split_dot (l : list Z) (acc : list Z) : list Z * option (list Z) :=
  match l with
  | [] => (rev acc, None)
  | c :: r => if c =? 46 then (rev acc, Some r) else split_dot r (c :: acc)
  end.

(* sign and the rest *)
Definition split_sign (l : list Z) : bool * list Z :=
  match l with
  | c :: r => if c =? 45 then (true, r) else if c =? 43 then (false, r) else (false, l)
  | [] => (false, [])
  end.

(* strconv.ParseInt(s, 10, 64): Some v iff err == nil *)
Definition parse_int (s : string) : option Z :=
  let (neg, body) := split_sign (string_bytes s) in
  match body with
  | [] => None
  | _ =>
      match digits_val body 0 with
      | None => None
      | Some v =>
          let v' := if neg then - v else v in
          if (int64_min <=? v') && (v' <=? int64_max) then Some v' else None
      end
  end.

(* q * 2^e as a binary64, exact when representable (0 <= q <= 2^53, e >= -1074) *)
Definition mk_float (q e : Z) : float :=
  ldshiftexp (of_uint63 (Uint63.of_Z q)) (Uint63.of_Z (e + FloatOps.shift)).

(* the binary64 nearest (ties to even) to num/den, num > 0, den > 0; None on overflow *)
Definition round_ratio (num den : Z) : option float :=
  let l := Z.log2 num - Z.log2 den in           (* 2^(l-1) < num/den < 2^(l+1) *)
  let quo (e : Z) : Z * Z * Z :=                 (* floor(num/den / 2^e), remainder, divisor *)
    if e <? 0 then let a := num * 2 ^ (- e) in (a / den, a mod den, den)
    else let d := den * 2 ^ e in (num / d, num mod d, d) in
  let e0 := l - 52 in
  let '(q0, _, _) := quo e0 in
  let e1 := if q0 <? 2 ^ 52 then e0 - 1 else if 2 ^ 53 <=? q0 then e0 + 1 else e0 in
  let e := if e1 <? -1074 then -1074 else e1 in
  let '(q, r, d) := quo e in
  let q' := if (d <? 2 * r) || ((2 * r =? d) && Z.odd q) then q + 1 else q in
  (* overflow: q' * 2^e >= 2^1024 *)
  if (2 ^ 53 <=? q') && (971 <=? e) then None
  else if 971 <? e then None
  else Some (mk_float q' e).

(* float64(iv) for an int64 *)
Definition int_to_float (v : Z) : float :=
  if v =? 0 then zero
  else match round_ratio (Z.abs v) 1 with
       | Some f => if v <? 0 then (- f)%float else f
       | None => zero
       end.

(* strconv.ParseFloat(s, 64) restricted to [+-]digits[.digits] with at least one digit:
   Some f iff err == nil (a range error returns an infinity together with a non-nil error) *)
Definition parse_float (s : string) : option float :=
  let (neg, body) := split_sign (string_bytes s) in
  let (ip, fp) := split_dot body [] in
  let fpd := match fp with Some f => f | None => [] end in
  match ip ++ fpd with
  | [] => None
  | ds =>
      match digits_val ds 0 with
      | None => None
      | Some n =>
          if n =? 0 then Some (if neg then (- zero)%float else zero)
          else match round_ratio n (10 ^ Z.of_nat (List.length fpd)) with
               | Some f => Some (if neg then (- f)%float else f)
               | None => None
               end
      end
  end.
