(* Model of pkg/logic/gcs/parse/{parser.go, parse.go}: the Pratt parser, pulling tokens from the
   lexer's producer (Model/GcsLex.v).  It models the repaired code ("fix: gcs Parse drains the
   lexer on return", "fix: gcs parser reports a missing closing parenthesis", "fix: gcs parser requires a comma
   between function parameters", "fix: gcs parser rejects a token that cannot start an
   expression", "fix: gcs parser rejects a second default in a switch", "fix: gcs parser rejects a
   repeated field name in a map literal").
   Executable; no proofs here.

   * the look-ahead slice [p.token] with the index [p.pos] is a zipper: [consumed] holds
     token[0..pos] newest first, [ahead] holds token[pos+1..]; [Cursor() = |consumed| - 1],
     [TokensPulled() = |consumed| + |ahead|];
   * one Go function = one Gallina function, one loop = one recursive function; every call
     and every loop iteration spends one unit of the fuel [n] (out of fuel = [RFuel]);
   * a lexer panic while the parser waits for a token is [RCrash]; a parse error is [RErr]
     carrying the parser state at the moment of the error (error texts are not modelled);
   * same precedence table, same prefix/infix registration, same order of token consumption
     as the Go code, including what it does on malformed input. *)
From Coq Require Import List ZArith Bool String Ascii Floats.
From SR Require Import Base.CaseLib Model.GcsAst Model.GcsUnicode Model.GcsLex Model.GcsNum.
Import ListNotations.
Open Scope Z_scope.

(* ---- parser state ---- *)
Record pstate := mkP { prod : producer; ahead : list ltoken; consumed : list ltoken }.

Inductive PR (A : Type) :=
| ROk (a : A) (ps : pstate)
| RErr (ps : pstate)
| RCrash
| RFuel.
Arguments ROk {A} a ps. Arguments RErr {A} ps. Arguments RCrash {A}. Arguments RFuel {A}.

Definition bindP {A B} (x : PR A) (f : A -> pstate -> PR B) : PR B :=
  match x with
  | ROk a ps => f a ps
  | RErr ps => RErr ps
  | RCrash => RCrash
  | RFuel => RFuel
  end.
Notation "'pb' ( x , s ) <- e ; f" := (bindP e (fun x s => f))
  (at level 200, x pattern, s name, e at level 100, f at level 200).

Definition tk (t : ltoken) : token := Tok (lt_typ t) (lt_val t).
Definition typ_is (t : ltoken) (k : toktype) : bool := toktype_eqb (lt_typ t) k.

(* p.next() *)
Definition pnext (inp : input) (ps : pstate) : PR ltoken :=
  match ahead ps with
  | t :: r => ROk t (mkP (prod ps) r (t :: consumed ps))
  | [] =>
      match recv (lex_fuel inp) inp (prod ps) with
      | Ok (t, p') => ROk t (mkP p' [] (t :: consumed ps))
      | Panic => RCrash
      | Fuel => RFuel
      end
  end.
(* p.backup() *)
Definition pbackup (ps : pstate) : pstate :=
  match consumed ps with
  | t :: c => mkP (prod ps) (t :: ahead ps) c
  | [] => ps
  end.
(* p.peek() *)
Definition ppeek (inp : input) (ps : pstate) : PR ltoken :=
  pb (t, s) <- pnext inp ps; ROk t (pbackup s).
(* p.consume(i): the token is consumed even when it does not match *)
Definition pconsume (inp : input) (k : toktype) (ps : pstate) : PR ltoken :=
  pb (t, s) <- pnext inp ps; if typ_is t k then ROk t s else RErr s.

(* ---- precedence table (parse.go) ---- *)
Definition Lowest := 1. Definition LogicalOr := 2. Definition LogicalAnd := 3.
Definition Equals := 4. Definition LessOrGreater := 5. Definition Sum := 6.
Definition Product := 7. Definition Prefix := 8. Definition Call := 9.

Definition tok_prec (k : toktype) : Z :=
  match k with
  | LogicOr => LogicalOr
  | LogicAnd => LogicalAnd
  | OpEqual | OpNotEqual => Equals
  | OpLessThan | OpGreaterThan | OpLessThanOrEqual | OpGreaterThanOrEqual => LessOrGreater
  | ItemPlus | ItemMinus => Sum
  | ItemForwardSlash | ItemAsterisk => Product
  | ItemLeftParen => Call
  | _ => Lowest
  end.

(* prefixParseFns (parser.go: New) *)
Inductive prefix_fn := PfIdent | PfNumber | PfBool | PfString | PfNull | PfFnLit | PfUnary | PfParen | PfMap.
Definition prefix_of (k : toktype) : option prefix_fn :=
  match k with
  | ItemIdentifier => Some PfIdent
  | ItemNumber => Some PfNumber
  | ItemBool => Some PfBool
  | ItemString => Some PfString
  | ItemNull => Some PfNull
  | KeywordFn => Some PfFnLit
  | LogicNot | ItemMinus => Some PfUnary
  | ItemLeftParen => Some PfParen
  | ItemLeftSquareParen => Some PfMap
  | _ => None
  end.
(* infixParseFns *)
Inductive infix_fn := IfBinary | IfCall.
Definition infix_of (k : toktype) : option infix_fn :=
  match k with
  | LogicAnd | LogicOr | ItemPlus | ItemMinus | ItemForwardSlash | ItemAsterisk
  | OpEqual | OpNotEqual | OpLessThan | OpLessThanOrEqual | OpGreaterThan
  | OpGreaterThanOrEqual => Some IfBinary
  | ItemLeftParen => Some IfCall
  | _ => None
  end.

(* parseNumber's decision: int if ParseInt accepts, else float if ParseFloat accepts *)
Definition number_lit (v : string) : option expr :=
  match parse_int v with
  | Some i => Some (ENum i (int_to_float i) false)
  | None =>
      match parse_float v with
      | Some f => Some (ENum 0 f true)
      | None => None
      end
  end.
Definition bool_lit (v : string) : option expr :=
  if string_eqb v "true" then Some (ENum 1 one false)
  else if string_eqb v "false" then Some (ENum 0 zero false) else None.

Definition block_append (b : list node) (x : node) : list node := b ++ [x].

Fixpoint has_dup (l : list string) : bool :=
  match l with
  | [] => false
  | x :: r => existsb (string_eqb x) r || has_dup r
  end.

(* _, dup := expr.Fields[k] *)
Definition has_key {A} (k : string) (m : list (string * A)) : bool :=
  existsb (fun kv => string_eqb k (fst kv)) m.

Definition is_if_or_block (x : node) : option stmt :=
  match x with
  | NStmt (SIf c b e) => Some (SIf c b e)
  | NStmt (SBlock b) => Some (SBlock b)
  | _ => None
  end.

Section Parser.
Variable inp : input.
Notation next := (pnext inp).
Notation peek := (ppeek inp).
Notation consume := (pconsume inp).

(* every function is [match n with O => RFuel | S n => body end]; the mutual block is
   structurally recursive on the fuel *)
Fixpoint p_expr (n : nat) (pre : Z) (ps : pstate) {struct n} : PR expr :=
  match n with O => RFuel | S n =>
    pb (t, s) <- next ps;
    match prefix_of (lt_typ t) with
    | None => RErr s                                      (* the token stays consumed *)
    | Some pf =>
        pb (lhs, s) <- p_prefix n pf (pbackup s);
        p_infix_loop n pre lhs s
    end
  end
(* the for loop of parseExpr *)
with p_infix_loop (n : nat) (pre : Z) (left : expr) (ps : pstate) {struct n} : PR expr :=
  match n with O => RFuel | S n =>
    pb (t, s) <- peek ps;
    if negb (typ_is t ItemTerminateLine) && (pre <? tok_prec (lt_typ t)) then
      match infix_of (lt_typ t) with
      | None => ROk left s
      | Some IfBinary => pb (l2, s) <- p_binary n left s; p_infix_loop n pre l2 s
      | Some IfCall => pb (l2, s) <- p_call n left s; p_infix_loop n pre l2 s
      end
    else ROk left s
  end
with p_prefix (n : nat) (pf : prefix_fn) (ps : pstate) {struct n} : PR expr :=
  match n with O => RFuel | S n =>
    match pf with
    | PfIdent => pb (t, s) <- next ps; ROk (EIdent (lt_val t)) s
    | PfString => pb (t, s) <- next ps; ROk (EStr (lt_val t)) s
    | PfNull => pb (t, s) <- next ps; ROk ENull s
    | PfNumber =>
        pb (t, s) <- next ps;
        match number_lit (lt_val t) with Some e => ROk e s | None => RErr s end
    | PfBool =>
        pb (t, s) <- next ps;
        match bool_lit (lt_val t) with Some e => ROk e s | None => RErr s end
    | PfFnLit =>
        pb (_, s) <- peek ps;
        pb (f, s) <- p_fn n false s;
        match f with
        | SFn _ args body => ROk (EFuncLit args body) s
        | _ => RErr s
        end
    | PfUnary =>
        pb (t, s) <- next ps;
        if typ_is t LogicNot || typ_is t ItemMinus then
          pb (r, s) <- p_expr n Prefix s; ROk (EUnary (tk t) r) s
        else RErr s
    | PfParen =>
        pb (_, s) <- next ps;
        pb (e, s) <- p_expr n Lowest s;
        pb (t, s) <- peek s;
        if typ_is t ItemRightParen then pb (_, s) <- next s; ROk e s else RErr s
    | PfMap =>
        pb (_, s) <- next ps;
        pb (t, s) <- peek s;
        if typ_is t ItemRightSquareParen then pb (_, s) <- next s; ROk (EMap [] []) s
        else p_map_loop n [] [] s
    end
  end
(* the for loop of parseMap *)
with p_map_loop (n : nat) (arr : list expr) (fields : list (string * expr)) (ps : pstate)
     {struct n} : PR expr :=
  match n with O => RFuel | S n =>
    pb (ele, s) <- next ps;
    pb (nx, s) <- next s;
    pb (af, s) <-
      (if typ_is ele ItemIdentifier && typ_is nx ItemAssign then
         pb (e, s) <- p_expr n Lowest s;
         (* a field name occurs at most once ("fix: gcs parser rejects a repeated field name ...") *)
         if has_key (lt_val ele) fields then RErr s
         else ROk (arr, fields_set (lt_val ele) e fields) s
       else
         pb (e, s) <- p_expr n Lowest (pbackup (pbackup s)); ROk (arr ++ [e], fields) s);
    let (arr2, fields2) := af in
    pb (t, s) <- next s;
    if typ_is t ItemRightSquareParen then ROk (EMap arr2 fields2) s
    else if typ_is t ItemComma then p_map_loop n arr2 fields2 s
    else RErr s
  end
with p_binary (n : nat) (left : expr) (ps : pstate) {struct n} : PR expr :=
  match n with O => RFuel | S n =>
    pb (t, s) <- next ps;
    pb (r, s) <- p_expr n (tok_prec (lt_typ t)) s;
    ROk (EBinary left r (tk t)) s
  end
with p_call (n : nat) (f : expr) (ps : pstate) {struct n} : PR expr :=
  match n with O => RFuel | S n =>
    pb (_, s) <- consume ItemLeftParen ps;
    pb (args, s) <- p_call_args n s;
    ROk (ECall f args) s
  end
with p_call_args (n : nat) (ps : pstate) {struct n} : PR (list expr) :=
  match n with O => RFuel | S n =>
    pb (t, s) <- peek ps;
    if typ_is t ItemRightParen then pb (_, s) <- next s; ROk [] s
    else
      pb (e, s) <- p_expr n Lowest s;
      p_call_args_loop n [e] s
  end
with p_call_args_loop (n : nat) (args : list expr) (ps : pstate) {struct n} : PR (list expr) :=
  match n with O => RFuel | S n =>
    pb (t, s) <- peek ps;
    if typ_is t ItemComma then
      pb (_, s) <- next s;
      pb (e, s) <- p_expr n Lowest s;
      p_call_args_loop n (args ++ [e]) s
    else
      pb (t, s) <- next s;
      if typ_is t ItemRightParen then ROk args s else RErr (pbackup s)
  end
(* parseFn(ident) *)
with p_fn (n : nat) (ident : bool) (ps : pstate) {struct n} : PR stmt :=
  match n with O => RFuel | S n =>
    pb (_, s) <- next ps;
    pb (fv, s) <- (if ident then pb (t, s) <- consume ItemIdentifier s; ROk (tk t) s
                   else ROk (Tok ItemError EmptyString) s);
    pb (t, s) <- peek s;
    if typ_is t ItemLeftParen then
      pb (_, s) <- next s;                                (* parseFnArgs consumes the paren *)
      pb (args, s) <- p_fn_args n [] s;
      pb (body, s) <- p_block n s;
      if has_dup args then RErr s else ROk (SFn fv args body) s
    else RErr s
  end
(* the for loop of parseFnArgs *)
with p_fn_args (n : nat) (args : list string) (ps : pstate) {struct n} : PR (list string) :=
  match n with O => RFuel | S n =>
    pb (t, s) <- next ps;
    if typ_is t ItemRightParen then ROk args s
    else if typ_is t ItemIdentifier then
      pb (c, s) <- peek s;
      if typ_is c ItemComma then
        pb (_, s) <- next s;
        pb (i, s) <- peek s;
        if typ_is i ItemIdentifier then p_fn_args n (args ++ [lt_val t]) s else RErr s
      else if typ_is c ItemRightParen then p_fn_args n (args ++ [lt_val t]) s
      else RErr s
    else RErr s
  end
(* parseBlock *)
with p_block (n : nat) (ps : pstate) {struct n} : PR block :=
  match n with O => RFuel | S n =>
    pb (_, s) <- consume ItemLeftBrace ps;
    p_block_loop n [] s
  end
with p_block_loop (n : nat) (acc : list node) (ps : pstate) {struct n} : PR block :=
  match n with O => RFuel | S n =>
    pb (t, s) <- peek ps;
    if typ_is t ItemRightBrace then pb (_, s) <- next s; ROk (Block acc) s
    else if typ_is t ItemEOF then RErr s
    else pb (x, s) <- p_statement n s; p_block_loop n (block_append acc x) s
  end
(* parseStatement *)
with p_statement (n : nat) (ps : pstate) {struct n} : PR node :=
  match n with O => RFuel | S n =>
    pb (t, s) <- peek ps;
    let semi (r : PR node) : PR node :=
      pb (x, s) <- r; pb (_, s) <- consume ItemTerminateLine s; ROk x s in
    let as_stmt (r : PR stmt) : PR node := pb (x, s) <- r; ROk (NStmt x) s in
    let as_expr (r : PR expr) : PR node := pb (x, s) <- r; ROk (NExpr x) s in
    match lt_typ t with
    | KeywordBreak | KeywordFallthrough | KeywordContinue => semi (as_stmt (p_ctrl n s))
    | KeywordLet => semi (as_stmt (p_let n s))
    | KeywordReturn => semi (as_stmt (p_return n s))
    | KeywordIf => as_stmt (p_if n s)
    | KeywordSwitch => as_stmt (p_switch n s)
    | KeywordFn => as_stmt (p_fn n true s)
    | KeywordWhile => as_stmt (p_while n s)
    | KeywordFor => as_stmt (p_for n s)
    | ItemLeftBrace => pb (b, s) <- p_block n s; ROk (NStmt (SBlock b)) s
    | ItemIdentifier =>
        pb (_, s) <- next s;
        pb (x, s) <- peek s;
        if typ_is x ItemAssign then semi (as_stmt (p_assign n (pbackup s)))
        else semi (as_expr (p_expr n Lowest (pbackup s)))
    | _ => semi (as_expr (p_expr n Lowest s))
    end
  end
with p_let (n : nat) (ps : pstate) {struct n} : PR stmt :=
  match n with O => RFuel | S n =>
    pb (_, s) <- next ps;
    pb (id, s) <- consume ItemIdentifier s;
    pb (_, s) <- consume ItemAssign s;
    pb (e, s) <- p_expr n Lowest s;
    ROk (SLet (tk id) e) s
  end
with p_assign (n : nat) (ps : pstate) {struct n} : PR stmt :=
  match n with O => RFuel | S n =>
    pb (id, s) <- consume ItemIdentifier ps;
    pb (_, s) <- consume ItemAssign s;
    pb (e, s) <- p_expr n Lowest s;
    ROk (SAssign (tk id) e) s
  end
with p_return (n : nat) (ps : pstate) {struct n} : PR stmt :=
  match n with O => RFuel | S n =>
    pb (_, s) <- next ps;
    pb (e, s) <- p_expr n Lowest s;
    ROk (SReturn e) s
  end
with p_ctrl (n : nat) (ps : pstate) {struct n} : PR stmt :=
  match n with O => RFuel | S n =>
    pb (t, s) <- next ps;
    match lt_typ t with
    | KeywordBreak => ROk (SCtrl CtrlBreak) s
    | KeywordContinue => ROk (SCtrl CtrlContinue) s
    | KeywordFallthrough => ROk (SCtrl CtrlFallthrough) s
    | _ => RErr s
    end
  end
with p_if (n : nat) (ps : pstate) {struct n} : PR stmt :=
  match n with O => RFuel | S n =>
    pb (_, s) <- next ps;
    pb (c, s) <- p_expr n Lowest s;
    pb (t, s) <- peek s;
    if typ_is t ItemLeftBrace then
      pb (b, s) <- p_block n s;
      pb (t, s) <- peek s;
      if typ_is t KeywordElse then
        pb (_, s) <- next s;
        pb (x, s) <- p_statement n s;
        match is_if_or_block x with
        | Some e => ROk (SIf c b e) s
        | None => RErr s
        end
      else ROk (SIf c b SNil) s
    else RErr s
  end
with p_switch (n : nat) (ps : pstate) {struct n} : PR stmt :=
  match n with O => RFuel | S n =>
    pb (_, s) <- consume KeywordSwitch ps;
    pb (t, s) <- peek s;
    pb (c, s) <- (if typ_is t ItemLeftBrace then ROk ENil s else p_expr n Lowest s);
    pb (t, s) <- next s;
    if typ_is t ItemLeftBrace then p_switch_loop n c [] BNil s else RErr s
  end
(* the for loop of parseSwitch *)
with p_switch_loop (n : nat) (c : expr) (cases : list casestmt) (def : block) (ps : pstate)
     {struct n} : PR stmt :=
  match n with O => RFuel | S n =>
    pb (t, s) <- next ps;
    if typ_is t ItemRightBrace then ROk (SSwitch c cases def) s
    else if typ_is t KeywordCase then
      pb (cc, s) <- p_expr n Lowest s;
      pb (k, s) <- peek s;
      if typ_is k ItemColon then
        pb (body, s) <- p_case_body n s;
        p_switch_loop n c (cases ++ [Case cc body]) def s
      else RErr s
    else if typ_is t KeywordDefault then
      (* at most one default ("fix: gcs parser rejects a second default in a switch"): checked
         before the colon *)
      match def with
      | Block _ => RErr s
      | BNil =>
          pb (k, s) <- peek s;
          if typ_is k ItemColon then
            pb (body, s) <- p_case_body n s;
            p_switch_loop n c cases body s
          else RErr s
      end
    else RErr s
  end
with p_case_body (n : nat) (ps : pstate) {struct n} : PR block :=
  match n with O => RFuel | S n =>
    pb (_, s) <- next ps;
    p_case_body_loop n [] s
  end
with p_case_body_loop (n : nat) (acc : list node) (ps : pstate) {struct n} : PR block :=
  match n with O => RFuel | S n =>
    pb (t, s) <- peek ps;
    if typ_is t KeywordDefault || typ_is t KeywordCase || typ_is t ItemRightBrace then ROk (Block acc) s
    else if typ_is t ItemEOF then RErr s
    else pb (x, s) <- p_statement n s; p_case_body_loop n (block_append acc x) s
  end
with p_while (n : nat) (ps : pstate) {struct n} : PR stmt :=
  match n with O => RFuel | S n =>
    pb (_, s) <- next ps;
    pb (c, s) <- p_expr n Lowest s;
    pb (t, s) <- peek s;
    if typ_is t ItemLeftBrace then pb (b, s) <- p_block n s; ROk (SWhile c b) s else RErr s
  end
with p_for (n : nat) (ps : pstate) {struct n} : PR stmt :=
  match n with O => RFuel | S n =>
    pb (_, s) <- next ps;
    pb (t, s) <- peek s;
    if typ_is t ItemLeftBrace then pb (b, s) <- p_block n s; ROk (SFor SNil ENil SNil b) s
    else
      (* existVarDecl *)
      pb (decl, s) <-
        (pb (t, s) <- peek s;
         if typ_is t KeywordLet then ROk true s
         else if typ_is t ItemIdentifier then
           pb (_, s) <- next s; pb (a, s) <- peek s; ROk (typ_is a ItemAssign) (pbackup s)
         else ROk false s);
      pb (init, s) <-
        (if decl then
           pb (t, s) <- peek s;
           pb (i, s) <- (if typ_is t KeywordLet then p_let n s else p_assign n s);
           pb (t, s) <- peek s;
           if typ_is t ItemTerminateLine then pb (_, s) <- next s; ROk i s else RErr s
         else ROk SNil s);
      pb (cond, s) <- p_expr n Lowest s;
      pb (t, s) <- peek s;
      pb (post, s) <-
        (if typ_is t ItemTerminateLine then
           pb (_, s) <- next s;
           pb (t, s) <- peek s;
           if typ_is t ItemLeftBrace then ROk SNil s else p_assign n s
         else ROk SNil s);
      pb (t, s) <- peek s;
      if typ_is t ItemLeftBrace then pb (b, s) <- p_block n s; ROk (SFor init cond post b) s
      else RErr s
  end.

(* parseRows, iterated by Parse: the program so far is kept also on an error *)
Fixpoint p_rows (n : nat) (acc : list node) (ps : pstate) {struct n} : PR block :=
  match n with O => RFuel | S n =>
    pb (t, s) <- ppeek inp ps;
    if typ_is t ItemEOF then ROk (Block acc) s
    else pb (x, s) <- p_statement n s; p_rows n (block_append acc x) s
  end.

End Parser.

(* ---- Parse ---- *)
Definition pstate0 : pstate := mkP producer0 [] [].

(* number of calls / loop iterations that always suffices (Proofs/GcsParseProofs.v) *)
Definition parse_fuel (inp : input) : nat := Z.to_nat (16 * in_len inp + 64).

Inductive outcome :=
| OProgram (b : block)    (* Parse returned (program, nil) *)
| OError                  (* Parse returned (nil, err) *)
| ODied                   (* the lexing goroutine panicked: the process is gone *)
| OFuel.                  (* the model ran out of fuel (proved impossible) *)

(* the deferred l.drain(): run the goroutine until it has closed the channel *)
Definition drain_producer (inp : input) (p : producer) : R producer :=
  match drain (drain_fuel inp) inp p [] with
  | Ok _ => Ok PClosed
  | Panic => Panic
  | Fuel => Fuel
  end.

Record presult := mkRes {
  r_out : outcome;
  r_pulled : Z;           (* TokensPulled() when Parse returned *)
  r_cursor : Z;           (* Cursor() when Parse returned *)
  r_prod : producer }.    (* state of the lexing goroutine when Parse returned *)

Definition finish (inp : input) (o : outcome) (ps : pstate) : presult :=
  let pulled := Z.of_nat (List.length (consumed ps) + List.length (ahead ps)) in
  let cur := Z.of_nat (List.length (consumed ps)) - 1 in
  match drain_producer inp (prod ps) with
  | Ok p => mkRes o pulled cur p
  | Panic => mkRes ODied pulled cur PDead
  | Fuel => mkRes OFuel pulled cur (prod ps)
  end.

(* parse.New(src).Parse() *)
Definition parse_input (inp : input) : presult :=
  match p_rows inp (parse_fuel inp) [] pstate0 with
  | ROk b ps => finish inp (OProgram b) ps
  | RErr ps => finish inp OError ps
  | RCrash => mkRes ODied 0 0 PDead
  | RFuel => mkRes OFuel 0 0 PDead
  end.

Definition parse_bytes (bs : list Z) : presult := parse_input (mk_input bs).
