CONFIG = {
    "id": "C17",
    "coq_targets": ["Model/DispatchInterp.v", "Gen/DispatchTable.v", "Proofs/DispatchTableProofs.v", "Gen/FormulasInfo.v", "Gen/FormulasAttr.v", "Gen/FormulasHeal.v", "Proofs/FormulasInfoProofs.v", "Proofs/FormulasAttrCoreProofs.v", "Proofs/FormulasHealProofs.v",
                    "Model/HandlersInterp.v", "Gen/HandlersTable.v", "Proofs/HandlersTableProofs.v",
                    "Props/C17.v", "Model/HealCheck.v", "Model/HealTerms.v", "Model/SimCheck.v", "Model/DispatchCheck.v", "Proofs/DispatchProofs.v", "Model/EventsCheck.v", "Model/AttrCheck.v"],
    "prop_files": ["Props/C17.v"],
    "gen": ["FormulasInfo", "FormulasAttr", "FormulasHeal", "DispatchTable", "HandlersTable"],
    "components": [{
        "name": "heal",
        # HealTerms last: it gives the case files the constructors at the binary64 instance
        "modules": ["Model.CombatCore", "Model.CombatCheck", "Model.Heal", "Model.HealCheck", "Model.HealTerms"],
        "check": "check_case", "monitor": "monitor_case", "model_out": "model_out",
        "case_type": "case",
        "ops_path": [2],
        "n_quick": 800, "n_thorough": 40000, "shard": 100,
    }, {
        # heals issued by content through the engine entry point (simulation.Heal -> combat.Heal) inside whole
        # battles: flat-value heals of the living, of units at zero HP awaiting revival and of the dead, from
        # actions, inserts and listeners (the whole-simulation model of C03/C08/C09/C11 carries them); a
        # disagreement is reported as a correspondence that no longer checks
        "name": "sim", "modules": ["Base.NumOps", "Model.Turn", "Model.Sim", "Model.SimCheck"],
        "check": "check_case", "monitor": "monitor_c03", "model_out": "monitor_detail",
        "case_type": "case", "ops_path": None, "mismatch_is_violation": False,
        "n_quick": 450, "n_thorough": 6000, "shard": 150,
    }, {
        # the modifier manager's LISTENER DISPATCH (listener.go): which unit's callbacks an event reaches, in which
        # order, how often (Model/Dispatch.v; role table Model/DispatchSpec.v)
        "name": "dispatch_heal",
        "modules": ["Model.Dispatch", "Model.DispatchSpec", "Model.DispatchCheck"],
        "check": "check_case", "monitor": "monitor_case", "model_out": "model_out",
        "case_type": "case",
        "ops_path": [3],            # input = (catalog, valid units, attaches, events)
        "n_quick": 400, "n_thorough": 20000, "shard": 100,
    }, {
        # the event handlers the heal listeners are delivered through (HealStart is the one MUTABLE event handler:
        # handler/mutable.go; priority order incl. extreme priorities, subscription and nested emission from inside a
        # running emission): Model/Events.v, shared with C18 (tools/props.d/C18.py describes the component)
        "name": "events", "modules": ["Model.Events", "Model.EventsCheck"],
        "check": "check_case", "monitor": "monitor_case", "model_out": "model_trace",
        "case_type": "case", "ops_path": [1],
        "n_quick": 900, "n_thorough": 10000, "shard": 300,
    }, {
        # the attribute service the heal goes through (attribute/modify.go, event.go are anchors of C17): HP updates,
        # the life state while HPChange / LimboWaitHeal are delivered, re-entrant listeners (Model/Attr.v, shared with
        # C07: tools/props.d/C07.py describes the component)
        "name": "attr", "modules": ["Model.Attr", "Model.AttrCheck"],
        "check": "check_case", "monitor": "monitor_case", "model_out": "model_out",
        "case_type": "case", "ops_path": [1],
        "n_quick": 600, "n_thorough": 8000, "shard": 100,
    }],
    "rule": "2-4 units (id pool 1..4 plus one unregistered id) with generated HP/ATK/DEF base/percent/flat/convert, "
            "outgoing/incoming heal bonuses and HP ratio (full, partial, zero, above 1), a set of units whose limbo wait is "
            "answered; 2-8 operations: heals (0-3 targets incl. repeated, dead and unknown ones, 0-5 formula terms, flat value, "
            "0-3 HealStart listener adjustments of either snapshot / formula map / flat value / map replacement) and direct HP "
            "changes (exact kill, one ulp either side, overkill, zero, negative zero); half of the values come from a boundary "
            "pool (every literal of the anchored files and its two binary64 neighbours); a third of the heals aim their flat value "
            "at the overheal boundary (missing HP, one ulp above / below) read from the real attribute service; all randomness "
            "from one splitmix64 state; a case is non-trivial when distinct as an input term || Component dispatch_heal (the modifier manager's listener dispatch, pkg/engine/modifier/listener.go + the two listener walks of tick.go, through the REAL modifier.NewManager over a fake engine with a real event.System): per case 2-4 modifier configs registered with the real modifier.Register (Stacking Multiple; half of them with EVERY field of modifier.Listeners set, the others with a random half of the fields - a nil field must be skipped; a third with CanModifySnapshot), every set field recording (field name, instance tag, Instance.Owner(), target argument); the six callbacks of the mutable events (OnBeforeDealHeal / OnBeforeBeingHeal on *HealStart, the four OnBefore*Hit* on *info.Hit) also rewrite one number of the event as v -> (2v + tag + 1) mod 1000003, read back after Emit; 2-4 valid units out of ids 1..4 in random order, 0-3 instances each attached in interleaved order incl. several of one config, an attach to an invalid unit now and then; in half of the cases the configs carry SCRIPTS for callbacks that are in play in the case's events (RemoveSelf of itself / of another tag, AddModifier on some unit or on the owner) that run inside the dispatch; in half of those config 0 has every callback and, for most callbacks in play, the script [RemoveSelf; AddModifier(owner, config 0)] or [RemoveSelf], and most instances are of config 0, so that nearly every walk runs over a list that changes under it; 3-20 events emitted through the real event.System: heals of 1-3 targets as HealStart [HPChange] HealEnd per target with a common snapshot flag (1 in 4), lone HealStart / HealEnd / HPChange, LimboWaitHeal with 0, 1 or several instances answering true; unit ids of every role drawn independently (self-heal / attacker among the targets / attacker = defender / repeated targets / killer = victim arise often) and one time in 14 an id the engine does not know.  Compared per event: the exact call sequence, the LimboWaitHeal verdict returned by Emit, the number read back, and the (tag, config) lists of every unit afterwards.",
    "trusted": [
        "event handlers (HealStart goes through handler/mutable.go) and logger fan-out, TRANSLATED from the Go source on every "
        "run (go2coq HandlersTable -> Gen/HandlersTable.v; interpreter Model/HandlersInterp.v; Proofs/HandlersTableProofs.v; "
        "theorem C17_handlers_are_the_source; described under C18): Subscribe / Emit of the four handler types and "
        "logging.Log / InitLoggers as a first-order table whose interpretation is proved EQUAL to Events.subscribe / emit / "
        "log_items / init_loggers for all inputs; any unrecognised statement, field, function or variable makes go2coq exit 1. "
        "Hand-written under it: listeners as data, the trace items, Go slice semantics and sort.Sort as stable insertion",
        'listener dispatch, TRANSLATED from the Go source on every run (go2coq DispatchTable -> Gen/DispatchTable.v; interpreter Model/DispatchInterp.v; Proofs/DispatchTableProofs.v; theorem C17_dispatch_is_the_source): the Subscribe wiring of (*Manager).subscribe (which event field of event.System is wired to which method, with which priority; the function is the only one of the package calling Subscribe and is called exactly once) and, for each of the 18 subscribed methods of listener.go, the locals `qualified := e...IsQualified()` / `snapshot := e...UseSnapshot` (field paths), the walks `for _, mod := range mgr.itr(<role expression>)` resp. `for _, t := range e.Targets { for _, mod := range mgr.itr(t) ... }` in source order, per walk whether `if snapshot && !mod.modifySnapshot { continue }` guards the body, the callbacks `f := mod.listeners.K; if f != nil [&& qualified] { f(mod [, e | e.Target]) }` in source order, the early `if result { return true }` and the closing `return false` of limboWaitHeal, and the field list of modifier.Listeners.  The interpretation of the generated table is proved EQUAL to Model/Dispatch.run_event (calls, verdict, read-back number, world afterwards) for every world and every event; so a changed role expression, callback field, order of walks or of callbacks, a dropped or added gate, a changed wiring or priority breaks a kernel-checked obligation for all inputs; any statement outside the recognised shapes (head of harness/cmd/go2coq/dispatch.go) makes go2coq exit 1 (broken translator obligation).  (*Manager).itr is checked to be verbatim make + copy + return',
        'listener dispatch, still HAND-WRITTEN / trusted under the translator tie: callbacks are data (has = the Listeners field is non-nil, script_of / do_actions = what the harness callback does, c_snap = Instance.modifySnapshot, the recorded call, the number the six mutating harness callbacks rewrite), `attached` = mgr.targets[unit] with mgr.itr a copy of it taken when the walk starts, the table in Model/DispatchInterp.v saying which constructor argument of the model event is which Go field path (record projections: Attacker, Defender, Hit.AttackType.IsQualified(), Healer.ID(), Info.Target, ...), the event system that delivers an event to the subscribed method (C18) and that a priority-100 listener runs after the default-priority ones; NOT translated: emitAdd / emitRemove / emitDispel / emitExtendDuration / emitExtendCount / emitPropertyChange (the model has no event for them; it records OnAdd / OnRemove only as the consequence of a script attach / detach) and the OnPhase1 / OnPhase2 walks of tick.go (ETick) - those stay tied by correspondence only; the translator itself (go/packages, go/types front end and the shape matcher of dispatch.go)',
        "TRANSLATED from the Go source on every run and proved equal to the model for every NumOps instance and "
        "every argument (Gen/FormulasHeal.v, Gen/FormulasInfo.v, Gen/FormulasAttr.v; Proofs/FormulasHealProofs.v; "
        "theorem C17_model_formulas_are_the_source): heal.go — the missing-HP term, the per-key switch (which stat "
        "each HealFormula key multiplies; the summation loop is checked to have the sorted-keys shape and mapped "
        "to the model's fold), the scaling by healer's HealBoost and target's HealTaken, the overflow split; the "
        "stats getters and PropMap.Modify (stats.go, map.go); ModifyHPByAmount's new ratio and clamp; the "
        "HealFormula key values",
        "still HAND-WRITTEN (correspondence only): the loop over targets, the HealStart / HealEnd emissions and "
        "that the computation reads the event after the listeners ran, the dead-source and empty-target guards, "
        "emitHPChangeEvents",
        "translator (harness/cmd/go2coq formulas.go, formulas_specs.go): trusted are the Go front end "
        "(go/packages, go/types, go/constant), the fixed whitelist and accessor tables (which Go field / method is "
        "which model accessor), the statement translation listed at the top of formulas.go, and that lit N n d "
        "(the correctly rounded quotient of two integers below 2^53) is the binary64 the Go compiler stores for "
        "the literal n/d; the translator fails closed (unknown construct, added or missing assignment, changed "
        "signature: go2coq exits 1 and the check reports a broken translator obligation)",
        "for functions that mix effects and arithmetic only the whitelisted statements are translated (the "
        "statements of one block that assign the named variables, their number fixed; every other assignment to "
        "those variables or to the inputs must be whitelisted verbatim): the ORDER of effects around the "
        "arithmetic (event emissions, service calls, which unit receives the energy) stays hand-written and is "
        "tied by correspondence only",
        "the Go map of formula terms is traversed in the model in ascending key order: the generator keeps at most two "
        "float addends after the initial value (order independent in binary64), or, in the 'dyadic' third of the cases, up to "
        "five terms whose partial sums are all exact; over the reals the sum is proved order independent (heal_base_perm)",
        "clauses (c)-(e) of C17_statement are about the same Gallina definitions instantiated at the real numbers (RNum): "
        "IEEE rounding between the two instances is not covered by a theorem, the binary64 instance is compared bit for bit",
        "the modifier evaluation (property vector of a unit) and engine.Target.IsCharacter are harness fakes; the attribute "
        "service, the event system and the combat manager are the real ones",
        'listener dispatch (Model/Dispatch.v, hand-written from listener.go function by function; since the translator tie: proved equal to the interpretation of the table go2coq generates from listener.go, and exact correspondence as before): `mgr.itr(unit)` is a copy of the attached list taken when the loop starts (Go `range` over a fresh slice), so a walk is modelled over the list as it was when the walk began; callbacks are data: the recording harness callbacks with their scripts (RemoveSelf, AddModifier with Stacking Multiple, no stats, no duration, no chance); OnAdd is always installed by the harness (it is the only way to learn the *Instance of a fresh attach) and recorded only when the config has it; the expiry pass of Manager.Tick removes nothing for such instances and is not modelled',
        'the role table (Model/DispatchSpec.v: for every field of modifier.Listeners the triggering event, the role whose modifiers receive it, qualified-only and snapshot gates, argument) is a hand transcription of the doc comments of modifier.Listeners and Config.CanModifySnapshot; a unit listed twice among the targets of an attack plays the role twice (the code calls its callbacks once per occurrence; the doc comments do not say otherwise)',
        "the dispatch monitor evaluates the role table on the calls the implementation made, against the attached lists the implementation itself reported before the event (never running the model).  In every case: per call (event kind, role of the owner, argument, qualified / snapshot gate, the instance has the callback), the read-back number = fold of the adjustments, LimboWaitHeal in full (candidates up to the first true, verdict = disjunction) and, per callback kind of the event's FIRST role (all kinds of a single-role event), call list = table - these hold of the model in every world (first_role_any_world, limbo_any_world); when no config of the case carries a script also the whole table per kind, the role order across kinds and the All-then-plain pairing.  Calls of later roles in scripted cases (the second walk sees the lists the first walk's scripts left) are checked by the exact correspondence only",
    ],
    "assumptions": [
        "stat vectors are finite binary64 values (a max HP of 0 and the resulting NaN ratio are generated and compared, "
        "but clause (e) assumes positive max HP and a ratio in [0,1])",
        "HealStart listeners adjust the event through Stats.AddProperty, the formula map and the flat value (they do not "
        "emit further heals from inside the listener)",
        'dispatch theorems: the full role table (clauses a-g) is stated for worlds whose callbacks only record; for callbacks that detach / attach modifiers during the dispatch the theorem is per walk (each walk visits the eligible instances attached when it started), plus the full table for single-walk events and LimboWaitHeal; callbacks do not emit engine events from inside a dispatch',
    ],
    "manifest": {
        "level_text": "Translator tie (way 1) of the event handlers (pkg/engine/event/handler Subscribe / Emit, logging.Log / InitLoggers; go2coq HandlersTable, interpretation proved EQUAL to Model/Events.v for all inputs); Translator tie (way 1) of the listener dispatch: pkg/engine/modifier/listener.go (Subscribe wiring with priorities, walks, role expressions, snapshot / qualified / nil gates, callback order, the early return of limboWaitHeal) is regenerated as a first-order table on every run (go2coq DispatchTable) and its interpretation is proved EQUAL to the dispatch model for all worlds and events; Translator tie (way 1): the heal amount of heal.go (per-key switch, boosts, missing-HP term, overflow split), the stats it reads and the HP update are regenerated from the Go source on every run (go2coq FormulasHeal / FormulasInfo / FormulasAttr) and proved EQUAL to the model definitions for all inputs; "
                      "Kernel-checked theorems over an executable Gallina model of Manager.Heal and the attribute service's "
                      "HP update (structure and dead-source clause at every arithmetic instance, no-overheal at the binary64 "
                      "level for all histories, amount/overflow algebra at the real instance), tied to the Go code by exact "
                      "bit-for-bit trace correspondence and an independent monitor on generated histories."
                      " Listener dispatch: kernel-checked role table of the modifier callbacks (which unit's instances an event reaches, exactly once per role occurrence and eligible instance, in attachment / role / target order, qualified and snapshot gates, LimboWaitHeal verdict = disjunction; for all worlds and events, per walk also when callbacks detach / attach modifiers) over an executable model of listener.go, tied to the real modifier.Manager by exact call-sequence correspondence and a role-table monitor on recorded calls.",
        "level_note": "go2coq DispatchTable translator + interpreter Model/DispatchInterp.v + kernel-checked equality generated table = Model/Dispatch.v; hand-written model Model/Dispatch.v + role table Model/DispatchSpec.v (listener.go), correspondence component dispatch_heal; go2coq Formulas* translator + kernel-checked equalities generated = model; "
                      "Coq kernel; hand-written model Model/CombatCore.v + Model/Heal.v; correspondence harness against the "
                      "real combat manager, attribute service and event system; reals vs binary64 gap named in trusted.",
        "technique": "source-to-Coq translation of listener.go into a dispatch table with an interpreter and equality proofs (induction over attached lists and walks, computation per event kind) + Coq proof of the dispatch role table (induction over attached lists, target lists and walks; case analysis over the 19 events x 39 callbacks) + source-to-Coq translation of the formulas with equality proofs + "
                     "Coq proof (induction over op lists; lra/nra over the reals; case analysis on binary64 comparisons) + "
                     "model/implementation correspondence + trace monitor",
        "design_ref": "DESIGN.md section 7, C17",
    },
}
