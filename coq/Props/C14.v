(* C14 - gcs source is parsed into the tree the grammar prescribes.
   Only statements, [exact] and [Print Assumptions] live here.

   Proved: completeness of the Pratt parser model (same precedence table, prefix/infix
   registration and loops as parse.go) - it returns exactly the tree whose canonical token
   sequence (Model/GcsSpec.v: parentheses only where precedence or left association require)
   it is given - for the expression fragment (literals, identifiers, unary operators, all
   thirteen binary operators at their six levels, calls, parentheses) and for every statement
   form over that fragment (blocks, let, assignment, return, break/continue/fallthrough,
   if/else chains, while, for with optional init/condition/post, switch with optional subject,
   cases and default, function declarations), end to end through the lazy producer-driven Parse.
   Partial (see tools/props.d/C14.py): map and function literals, layout independence of the
   lexer and soundness are covered by correspondence and monitors, not by a theorem. *)
From Coq Require Import List ZArith.
From SR Require Import Model.GcsAst Model.GcsLex Model.GcsParse Model.GcsSpec
  Proofs.GcsRoundTrip Proofs.GcsBridge Proofs.GcsStmtRoundTrip Proofs.GcsC14Proofs.

(* expressions: precedence climbing, left association, parentheses only where required *)
Theorem C14_expressions_parse_to_their_tree : C14_expression_statement.
Proof. exact C14_expression_holds. Qed.
Print Assumptions C14_expressions_parse_to_their_tree.

(* end to end, every statement form: if lexing the source gives the canonical tokens of a
   well-formed program, parse.New(src).Parse() returns exactly that program *)
Theorem C14_parse_unparse_partial : C14_statements_statement.
Proof. exact C14_statements_holds. Qed.
Print Assumptions C14_parse_unparse_partial.

(* the same for flat programs of simple statements (a corollary kept for its simpler hypothesis) *)
Theorem C14_parse_unparse_flat : C14_partial_statement.
Proof. exact C14_partial_holds. Qed.
Print Assumptions C14_parse_unparse_flat.

(* it does not matter when the parser pulls its tokens from the lexer *)
Theorem C14_prefetch_invariance : forall inp n, QALL inp n.
Proof. exact bridge_all. Qed.
Print Assumptions C14_prefetch_invariance.

Theorem C14_nonvacuous :
  (flat_program demo14_nodes /\ lexes_to demo14_src demo14_nodes /\
   r_out (parse_bytes demo14_src) = OProgram (Block demo14_nodes)) /\
  (wf_program demo14b_nodes /\ lexes_to demo14b_src demo14b_nodes /\
   r_out (parse_bytes demo14b_src) = OProgram (Block demo14b_nodes)).
Proof.
  exact (conj (conj demo14_flat (conj demo14_lexes demo14_parses))
              (conj demo14b_wf (conj demo14b_lexes demo14b_parses))).
Qed.
