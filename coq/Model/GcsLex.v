(* Model of pkg/logic/gcs/parse/lex.go (after the repairs "fix: gcs lexer treats only ASCII
   digits ..." and "fix: gcs Parse drains the lexer ...").  Executable; no proofs here.

   * the input is a byte string accessed by index; [pos], [start], [width] are [Z], and every
     Go slice / index expression is checked: running off either end is the outcome [Panic]
     (in Go: a run-time panic inside the lexing goroutine, which kills the process);
   * [next] decodes one rune exactly as [utf8.DecodeRuneInString] (invalid, truncated,
     overlong and surrogate encodings give (U+FFFD, 1));
   * [unicode.IsLetter] / [unicode.IsDigit] are the generated range tables of GcsUnicode.v;
   * one call of a Go state function ([lexText], [lexComment], [lexQuote], [lexIdentifier],
     [lexNumber]) is one [lex_step]; the loops inside a state function run on a local fuel
     (bytes left + 1) whose exhaustion is the distinct outcome [Fuel];
   * the unbuffered token channel is the explicit [producer] state: the tokens the goroutine
     still has to hand over from the state function it is in, the lexer registers and the
     next state function; [PClosed] after [close(l.items)], [PDead] after a panic.
   The text of ItemError tokens (a formatted message) is not modelled: it is the empty
   string here and the harness blanks it on the Go side. *)
From Coq Require Import List ZArith Bool String Ascii FMapPositive.
From SR Require Import Base.CaseLib Model.GcsAst Model.GcsUnicode.
Import ListNotations.
Open Scope Z_scope.

(* ---- three-valued results ---- *)
Inductive R (A : Type) := Ok (a : A) | Panic | Fuel.
Arguments Ok {A} a. Arguments Panic {A}. Arguments Fuel {A}.
Definition bindR {A B} (x : R A) (f : A -> R B) : R B :=
  match x with Ok a => f a | Panic => Panic | Fuel => Fuel end.
Notation "'do' x <- e ; f" := (bindR e (fun x => f)) (at level 200, x pattern, e at level 100, f at level 200).

(* ---- input ---- *)
Record input := mkInput { in_len : Z; in_get : Z -> Z }.

Fixpoint fill (bs : list Z) (i : positive) (m : PositiveMap.t Z) : PositiveMap.t Z :=
  match bs with
  | [] => m
  | b :: r => fill r (Pos.succ i) (PositiveMap.add i b m)
  end.
(* the input string given by its bytes (taken mod 256); [in_get] is a logarithmic-time index *)
Definition mk_input (bs : list Z) : input :=
  let m := fill bs 1%positive (PositiveMap.empty Z) in
  mkInput (Z.of_nat (List.length bs))
          (fun i => match PositiveMap.find (Z.to_pos (i + 1)) m with Some b => b mod 256 | None => 0 end).

(* ---- utf8.DecodeRuneInString(input[p:]) for 0 <= p < len: (rune, width) ---- *)
Definition rune_error : Z := 65533.
Definition is_cont (b : Z) : bool := (128 <=? b) && (b <=? 191).
Definition decode (inp : input) (p : Z) : Z * Z :=
  let n := in_len inp - p in
  let g := in_get inp in
  let b0 := g p in
  if b0 <? 128 then (b0, 1)
  else if (b0 <? 194) || (244 <? b0) then (rune_error, 1)
  else if b0 <? 224 then
    if n <? 2 then (rune_error, 1)
    else let b1 := g (p + 1) in
         if is_cont b1 then ((b0 - 192) * 64 + (b1 - 128), 2) else (rune_error, 1)
  else if b0 <? 240 then
    if n <? 3 then (rune_error, 1)
    else let b1 := g (p + 1) in let b2 := g (p + 2) in
         let lo := if b0 =? 224 then 160 else 128 in
         let hi := if b0 =? 237 then 159 else 191 in
         if (lo <=? b1) && (b1 <=? hi) && is_cont b2
         then ((b0 - 224) * 4096 + (b1 - 128) * 64 + (b2 - 128), 3) else (rune_error, 1)
  else
    if n <? 4 then (rune_error, 1)
    else let b1 := g (p + 1) in let b2 := g (p + 2) in let b3 := g (p + 3) in
         let lo := if b0 =? 240 then 144 else 128 in
         let hi := if b0 =? 244 then 143 else 191 in
         if (lo <=? b1) && (b1 <=? hi) && is_cont b2 && is_cont b3
         then ((b0 - 240) * 262144 + (b1 - 128) * 4096 + (b2 - 128) * 64 + (b3 - 128), 4)
         else (rune_error, 1).

(* ---- tokens as the lexer sends them ---- *)
Record ltoken := LT { lt_typ : toktype; lt_pos : Z; lt_val : string; lt_line : Z }.
(* what a receive on the closed channel yields: the zero ast.Token *)
Definition zero_tok : ltoken := LT ItemError 0 EmptyString 0.

(* ---- the lexer registers ---- *)
Record lexer := mkLexer {
  pos : Z; start : Z; width : Z; line : Z; startLine : Z;
  parenDepth : Z; sqParenDepth : Z; braceDepth : Z }.

Definition init_lexer : lexer := mkLexer 0 0 0 1 1 0 0 0.

Definition set_cursor (l : lexer) (p w ln : Z) : lexer :=
  mkLexer p (start l) w ln (startLine l) (parenDepth l) (sqParenDepth l) (braceDepth l).
Definition set_start (l : lexer) : lexer :=
  mkLexer (pos l) (pos l) (width l) (line l) (line l) (parenDepth l) (sqParenDepth l) (braceDepth l).
Definition set_depths (l : lexer) (a b c : Z) : lexer :=
  mkLexer (pos l) (start l) (width l) (line l) (startLine l) a b c.

Definition eof : Z := -1.

(* l.next() *)
Definition next (inp : input) (l : lexer) : R (Z * lexer) :=
  if in_len inp <=? pos l then Ok (eof, set_cursor l (pos l) 0 (line l))
  else if pos l <? 0 then Panic                       (* l.input[l.pos:] *)
  else let '(r, w) := decode inp (pos l) in
       Ok (r, set_cursor l (pos l + w) w (if r =? 10 then line l + 1 else line l)).

(* l.backup() *)
Definition backup (inp : input) (l : lexer) : R lexer :=
  let p := pos l - width l in
  if width l =? 1 then
    if (p <? 0) || (in_len inp <=? p) then Panic      (* l.input[l.pos] *)
    else Ok (set_cursor l p (width l) (if in_get inp p =? 10 then line l - 1 else line l))
  else Ok (set_cursor l p (width l) (line l)).

(* l.peek() *)
Definition peek (inp : input) (l : lexer) : R (Z * lexer) :=
  do (r, l1) <- next inp l; do l2 <- backup inp l1; Ok (r, l2).

Fixpoint sub_go (inp : input) (n : nat) (hi : Z) (acc : string) : string :=
  match n with
  | O => acc
  | S n' => sub_go inp n' (hi - 1) (String (ascii_of_code (in_get inp (hi - 1))) acc)
  end.
(* l.input[a:b] *)
Definition substr (inp : input) (a b : Z) : R string :=
  if (0 <=? a) && (a <=? b) && (b <=? in_len inp)
  then Ok (sub_go inp (Z.to_nat (b - a)) b EmptyString) else Panic.

(* l.emit(t): the token and the registers after the send *)
Definition emit (inp : input) (l : lexer) (t : toktype) : R (ltoken * lexer) :=
  do v <- substr inp (start l) (pos l);
  Ok (LT t (start l) v (startLine l), set_start l).

(* l.ignore() *)
Definition ignore (l : lexer) : lexer := set_start l.

(* l.errorf(...): the error token; the next state is nil *)
Definition error_tok (l : lexer) : ltoken := LT ItemError (start l) EmptyString (startLine l).

Definition is_space (r : Z) : bool := (r =? 32) || (r =? 9) || (r =? 10) || (r =? 13).
Definition is_ascii_digit (r : Z) : bool := (48 <=? r) && (r <=? 57).
(* isNumeric after the repair: the digit set of lexNumber *)
Definition is_numeric (r : Z) : bool := is_ascii_digit r.
Definition is_alnum (r : Z) : bool :=
  (r =? 95) || (r =? 45) || is_letter r || is_digit r || (r =? 37).

Inductive lstate := SText | SComment | SQuote | SIdent | SNumber.

(* result of one state function: tokens sent (in order), registers, next state (None = nil) *)
Inductive lres :=
| LPanic
| LFuel
| LNext (emitted : list ltoken) (l : lexer) (nxt : option lstate).

Definition lift {A} (x : R A) (f : A -> lres) : lres :=
  match x with Ok a => f a | Panic => LPanic | Fuel => LFuel end.
Notation "'lt' x <- e ; f" := (lift e (fun x => f)) (at level 200, x pattern, e at level 100, f at level 200).

Definition emit1 (inp : input) (l : lexer) (t : toktype) : lres :=
  lt (tk, l1) <- emit inp l t; LNext [tk] l1 (Some SText).
Definition fail1 (l : lexer) : lres := LNext [error_tok l] l None.

(* a bracket: emit, adjust the depth, complain when it went negative *)
Definition emit_close (inp : input) (l : lexer) (t : toktype) (which : nat) : lres :=
  lt (tk, l1) <- emit inp l t;
  let a := parenDepth l1 in let b := sqParenDepth l1 in let c := braceDepth l1 in
  let l2 := match which with
            | O => set_depths l1 (a - 1) b c
            | S O => set_depths l1 a (b - 1) c
            | _ => set_depths l1 a b (c - 1)
            end in
  let d := match which with O => a - 1 | S O => b - 1 | _ => c - 1 end in
  if d <? 0 then LNext [tk; error_tok l2] l2 None else LNext [tk] l2 (Some SText).
Definition emit_open (inp : input) (l : lexer) (t : toktype) (which : nat) : lres :=
  lt (tk, l1) <- emit inp l t;
  let a := parenDepth l1 in let b := sqParenDepth l1 in let c := braceDepth l1 in
  let l2 := match which with
            | O => set_depths l1 (a + 1) b c
            | S O => set_depths l1 a (b + 1) c
            | _ => set_depths l1 a b (c + 1)
            end in
  LNext [tk] l2 (Some SText).

(* lexText *)
Definition lex_text (inp : input) (l : lexer) : lres :=
  lt (r, l) <- next inp l;
  if r =? eof then lt (tk, l1) <- emit inp l ItemEOF; LNext [tk] l1 None
  else if r =? 59 then emit1 inp l ItemTerminateLine                  (* ; *)
  else if r =? 58 then emit1 inp l ItemColon                          (* : *)
  else if is_space r then LNext [] (ignore l) (Some SText)
  else if r =? 35 then LNext [] (ignore l) (Some SComment)            (* # *)
  else if r =? 61 then                                                (* = *)
    lt (n, l) <- next inp l;
    if n =? 61 then emit1 inp l OpEqual
    else lt l <- backup inp l; emit1 inp l ItemAssign
  else if r =? 44 then emit1 inp l ItemComma                          (* , *)
  else if r =? 42 then emit1 inp l ItemAsterisk                       (* * *)
  else if r =? 43 then emit1 inp l ItemPlus                           (* + *)
  else if r =? 47 then                                                (* / *)
    lt (n, l) <- next inp l;
    if n =? 47 then LNext [] (ignore l) (Some SComment)
    else lt l <- backup inp l; emit1 inp l ItemForwardSlash
  else if r =? 46 then                                                (* . *)
    lt (n, l) <- next inp l;
    if is_numeric n then
      lt l <- backup inp l; lt l <- backup inp l; LNext [] l (Some SNumber)
    else lt l <- backup inp l; fail1 l
  else if is_ascii_digit r then
    lt l <- backup inp l; LNext [] l (Some SNumber)
  else if r =? 45 then                                                (* - *)
    lt (n, l) <- next inp l;
    if is_numeric n then
      lt l <- backup inp l; lt l <- backup inp l; LNext [] l (Some SNumber)
    else lt l <- backup inp l; emit1 inp l ItemMinus
  else if r =? 62 then                                                (* > *)
    lt (n, l) <- next inp l;
    if n =? 61 then emit1 inp l OpGreaterThanOrEqual
    else lt l <- backup inp l; emit1 inp l OpGreaterThan
  else if r =? 60 then                                                (* < *)
    lt (n, l) <- next inp l;
    if n =? 61 then emit1 inp l OpLessThanOrEqual
    else if n =? 62 then emit1 inp l OpNotEqual
    else lt l <- backup inp l; emit1 inp l OpLessThan
  else if r =? 124 then                                               (* | *)
    lt (n, l) <- next inp l;
    if n =? 124 then emit1 inp l LogicOr else fail1 l
  else if r =? 33 then                                                (* ! *)
    lt (n, l) <- next inp l;
    if n =? 61 then emit1 inp l OpNotEqual
    else lt l <- backup inp l; emit1 inp l LogicNot
  else if r =? 34 then LNext [] l (Some SQuote)                       (* double quote *)
  else if r =? 38 then                                                (* & *)
    lt (n, l) <- next inp l;
    if n =? 38 then emit1 inp l LogicAnd else fail1 l
  else if r =? 40 then emit_open inp l ItemLeftParen 0%nat
  else if r =? 41 then emit_close inp l ItemRightParen 0%nat
  else if r =? 91 then emit_open inp l ItemLeftSquareParen 1%nat
  else if r =? 93 then emit_close inp l ItemRightSquareParen 1%nat
  else if r =? 123 then emit_open inp l ItemLeftBrace 2%nat
  else if r =? 125 then emit_close inp l ItemRightBrace 2%nat
  else if is_alnum r then lt l <- backup inp l; LNext [] l (Some SIdent)
  else fail1 l.

(* fuel of the loops inside one state function: every iteration consumes at least a byte *)
Definition loop_fuel (inp : input) (l : lexer) : nat := S (Z.to_nat (in_len inp - pos l)).

(* lexComment *)
Fixpoint comment_loop (n : nat) (inp : input) (l : lexer) : R lexer :=
  match n with
  | O => Fuel
  | S n' =>
      do (r, l1) <- next inp l;
      if (r =? eof) || (r =? 10) then backup inp l1 else comment_loop n' inp l1
  end.
Definition lex_comment (inp : input) (l : lexer) : lres :=
  lt l1 <- comment_loop (loop_fuel inp l) inp l; LNext [] l1 (Some SText).

(* lexQuote: Some l = closing quote consumed; None = unterminated *)
Fixpoint quote_loop (n : nat) (inp : input) (l : lexer) : R (option lexer * lexer) :=
  match n with
  | O => Fuel
  | S n' =>
      do (r, l1) <- next inp l;
      if r =? 92 then
        do (r2, l2) <- next inp l1;
        if negb (r2 =? eof) && negb (r2 =? 10) then quote_loop n' inp l2 else Ok (None, l2)
      else if (r =? eof) || (r =? 10) then Ok (None, l1)
      else if r =? 34 then Ok (Some l1, l1)
      else quote_loop n' inp l1
  end.
Definition lex_quote (inp : input) (l : lexer) : lres :=
  lt (closed, l1) <- quote_loop (loop_fuel inp l) inp l;
  match closed with
  | Some l2 => emit1 inp l2 ItemString
  | None => fail1 l1
  end.

(* ast.Keys[word] > ast.ItemKeyword *)
Definition keyword_of (w : string) : option toktype :=
  if string_eqb w "let" then Some KeywordLet
  else if string_eqb w "while" then Some KeywordWhile
  else if string_eqb w "if" then Some KeywordIf
  else if string_eqb w "else" then Some KeywordElse
  else if string_eqb w "fn" then Some KeywordFn
  else if string_eqb w "switch" then Some KeywordSwitch
  else if string_eqb w "case" then Some KeywordCase
  else if string_eqb w "default" then Some KeywordDefault
  else if string_eqb w "break" then Some KeywordBreak
  else if string_eqb w "continue" then Some KeywordContinue
  else if string_eqb w "fallthrough" then Some KeywordFallthrough
  else if string_eqb w "return" then Some KeywordReturn
  else if string_eqb w "for" then Some KeywordFor
  else None.

Definition word_type (w : string) : toktype :=
  match keyword_of w with
  | Some k => k
  | None =>
      if string_eqb w "true" || string_eqb w "false" then ItemBool
      else if string_eqb w "null" then ItemNull else ItemIdentifier
  end.

(* the terminator set of atTerminator: eof . , | : ) ( + = > < & ! ; [ ] and spaces *)
Definition is_terminator (r : Z) : bool :=
  is_space r || (r =? eof) || (r =? 46) || (r =? 44) || (r =? 124) || (r =? 58) || (r =? 41) ||
  (r =? 40) || (r =? 43) || (r =? 61) || (r =? 62) || (r =? 60) || (r =? 38) || (r =? 33) ||
  (r =? 59) || (r =? 91) || (r =? 93).

(* lexIdentifier: absorb alphanumerics *)
Fixpoint ident_loop (n : nat) (inp : input) (l : lexer) : R lexer :=
  match n with
  | O => Fuel
  | S n' =>
      do (r, l1) <- next inp l;
      if is_alnum r then ident_loop n' inp l1 else backup inp l1
  end.
Definition lex_ident (inp : input) (l : lexer) : lres :=
  lt l1 <- ident_loop (loop_fuel inp l) inp l;
  lt w <- substr inp (start l1) (pos l1);
  lt (r, l2) <- peek inp l1;
  if is_terminator r then emit1 inp l2 (word_type w) else fail1 l2.

(* l.accept(valid) for a set of ASCII characters given by a predicate *)
Definition accept (inp : input) (l : lexer) (valid : Z -> bool) : R (bool * lexer) :=
  do (r, l1) <- next inp l;
  if valid r then Ok (true, l1) else do l2 <- backup inp l1; Ok (false, l2).
Fixpoint accept_run (n : nat) (inp : input) (l : lexer) (valid : Z -> bool) : R lexer :=
  match n with
  | O => Fuel
  | S n' =>
      do (r, l1) <- next inp l;
      if valid r then accept_run n' inp l1 valid else backup inp l1
  end.

(* lexNumber *)
Definition lex_number (inp : input) (l : lexer) : lres :=
  lt (_, l1) <- accept inp l (fun r => (r =? 43) || (r =? 45));
  lt l2 <- accept_run (loop_fuel inp l1) inp l1 is_ascii_digit;
  lt (dot, l3) <- accept inp l2 (fun r => r =? 46);
  lt l4 <- (if dot then accept_run (loop_fuel inp l3) inp l3 is_ascii_digit else Ok l3);
  emit1 inp l4 ItemNumber.

Definition lex_step (inp : input) (s : lstate) (l : lexer) : lres :=
  match s with
  | SText => lex_text inp l
  | SComment => lex_comment inp l
  | SQuote => lex_quote inp l
  | SIdent => lex_ident inp l
  | SNumber => lex_number inp l
  end.

(* ---- the goroutine behind the channel ---- *)
Inductive producer :=
| PRun (pending : list ltoken) (l : lexer) (nxt : option lstate)
| PClosed
| PDead.

Definition producer0 : producer := PRun [] init_lexer (Some SText).

(* one receive, [<-l.items]: hand over the pending token, else run state functions until one
   sends; when run() has returned the channel is closed and a receive yields the zero token *)
Fixpoint recv (n : nat) (inp : input) (p : producer) : R (ltoken * producer) :=
  match p with
  | PClosed => Ok (zero_tok, PClosed)
  | PDead => Panic
  | PRun (t :: r) l st => Ok (t, PRun r l st)
  | PRun [] _ None => Ok (zero_tok, PClosed)
  | PRun [] l (Some s) =>
      match n with
      | O => Fuel
      | S n' =>
          match lex_step inp s l with
          | LPanic => Panic
          | LFuel => Fuel
          | LNext em l' st' => recv n' inp (PRun em l' st')
          end
      end
  end.

(* number of state-function calls that always suffices (Proofs/GcsLexProofs.v) *)
Definition lex_fuel (inp : input) : nat := Z.to_nat (3 * in_len inp + 3).

(* l.drain() / LexAll: receive until the channel is closed; the tokens received, in order *)
Fixpoint drain (n : nat) (inp : input) (p : producer) (acc : list ltoken) : R (list ltoken) :=
  match p with
  | PClosed => Ok (rev acc)
  | PDead => Panic
  | PRun (t :: r) l st =>
      match n with O => Fuel | S n' => drain n' inp (PRun r l st) (t :: acc) end
  | PRun [] _ None => Ok (rev acc)
  | PRun [] l (Some s) =>
      match n with
      | O => Fuel
      | S n' =>
          match lex_step inp s l with
          | LPanic => Panic
          | LFuel => Fuel
          | LNext em l' st' => drain n' inp (PRun em l' st') acc
          end
      end
  end.
Definition drain_fuel (inp : input) : nat := (3 * lex_fuel inp)%nat.

(* parse.LexAll(src) *)
Definition lex_all (inp : input) : R (list ltoken) := drain (drain_fuel inp) inp producer0 [].
