(* Types of the site tables that harness/cmd/go2coq writes into Gen/Sites.v (property C01).
   Only data types live here; the generated file contains nothing but two list literals. *)
From Coq Require Import List String ZArith.
Import ListNotations.

(* How the translator classified the body of a `range` over a Go map (or an iterator over a
   map).  Every class except [CUnclassified] names a loop schema proved independent of the
   iteration order in Proofs/MapIterProofs.v. *)
Inductive site_class :=
| CCopy            (* dst[k] = f(k, v)                                  — range_copy / range_insert_distinct *)
| CInsertDistinct  (* recv.set(k, f(k, v)) through a per-key method     — range_insert_distinct *)
| CUpdatePerKey    (* only dst[k] is read and written                   — range_update_per_key *)
| CDeleteAll       (* delete(m, k) for every k of m                     — range_delete_all *)
| CAccCommAssoc    (* integer / boolean accumulation                    — range_acc_comm_assoc *)
| CCollectSorted   (* collect, then sort by a total order               — range_collect_sorted *)
| CUnclassified.   (* matches no schema: must be listed in Model/SitesAllow.v *)

Record map_site := mk_map_site {
  ms_file  : string;      (* repository-relative file *)
  ms_func  : string;      (* enclosing function, methods as "( *T).M" *)
  ms_ord   : Z;           (* ordinal among the map-iteration sites of that function *)
  ms_hash  : string;      (* hash of the normalised statement text *)
  ms_class : site_class;
  ms_line  : Z;           (* informative only *)
  ms_note  : string       (* what was matched / why nothing matched *)
}.

Inductive ambient_kind :=
| AMathRand     (* package-level math/rand function: the process-global generator *)
| ACryptoRand   (* crypto/rand *)
| ATime         (* wall clock, timers *)
| AEnv          (* process environment *)
| AGo.          (* goroutine start *)

Record ambient_site := mk_ambient_site {
  as_file   : string;
  as_func   : string;
  as_kind   : ambient_kind;
  as_callee : string;
  as_line   : Z;          (* informative only *)
  as_reach  : bool        (* reachable from simulation.Run (over-approximated call graph) *)
}.

(* a map-iteration site is identified by file, function, ordinal and body hash, so that a new
   site or an edited body is a different site *)
Definition site_key := (string * string * Z * string)%type.
Definition key_of (s : map_site) : site_key := (ms_file s, ms_func s, ms_ord s, ms_hash s).
Definition site_key_eqb (a b : site_key) : bool :=
  let '(f1, g1, o1, h1) := a in let '(f2, g2, o2, h2) := b in
  (String.eqb f1 f2 && String.eqb g1 g2 && Z.eqb o1 o2 && String.eqb h1 h2)%bool.

(* an ambient use is identified by file, function, kind and what is used *)
Definition ambient_kind_eqb (a b : ambient_kind) : bool :=
  match a, b with
  | AMathRand, AMathRand | ACryptoRand, ACryptoRand | ATime, ATime | AEnv, AEnv | AGo, AGo => true
  | _, _ => false
  end.
Definition ambient_key := (string * string * ambient_kind * string)%type.
Definition akey_of (a : ambient_site) : ambient_key := (as_file a, as_func a, as_kind a, as_callee a).
Definition ambient_key_eqb (a b : ambient_key) : bool :=
  let '(f1, g1, k1, c1) := a in let '(f2, g2, k2, c2) := b in
  (String.eqb f1 f2 && String.eqb g1 g2 && ambient_kind_eqb k1 k2 && String.eqb c1 c2)%bool.
