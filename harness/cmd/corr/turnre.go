package main

import (
	"encoding/json"
	"math"

	"github.com/simimpact/srsim/pkg/engine/event"
	"github.com/simimpact/srsim/pkg/engine/info"
	"github.com/simimpact/srsim/pkg/engine/turn"
	"github.com/simimpact/srsim/pkg/key"

	"verif/harness/term"
)

// The turn manager WITH RE-ENTRANT LISTENERS (model: coq/Model/TurnRe.v).
//
// The input is (slots, ops): `slots` = mkQ added reset gauge cost holds, per event the manager emits
// (TurnTargetsAdded, TurnReset, GaugeChange, CurrentGaugeCostChange), a queue of scripts; the ONE listener
// subscribed to that event pops the next script and executes its operations ON THE SAME MANAGER while the call
// that emitted the event is still running.  The recorded trace, in time order:
//
//	TCall o      a call (top-level or nested) is entered
//	TEv e        a listener is invoked with event e (all fields, the turn order with ids, gauges, AV bits)
//	TRet r p     the call returns: r = [] | [EErr] | [EStart id av order totalAV]; p = (ids and gauges of
//	             EventTurnStatus(), TotalAV()) read right after the return
//
// After its script has run, a listener serialises the event it was given once more: a payload that changed
// under its feet (a buffer shared with a nested call) is recorded as a second TEv, which no model run contains.
// A Go panic ends the run with TRet [EPanic].

type trEvInfo struct {
	kind    string // "added", "reset", "gauge", "cost"
	targets []key.TargetID
	order   []event.TurnStatus
}

type trDriver struct {
	attr   *turnAttr
	mgr    turn.Manager
	trace  []term.T
	record bool
	depth  int
	// script returns the operations the listener of this delivery executes
	script func(e trEvInfo) []term.T
}

type trStatuser interface {
	EventTurnStatus() []event.TurnStatus
}

func (d *trDriver) status() []event.TurnStatus { return d.mgr.(trStatuser).EventTurnStatus() }

func (d *trDriver) probe() term.T {
	out := []term.T{}
	for _, s := range d.status() {
		out = append(out, term.Tup(term.I(int64(s.ID)), term.I(s.Gauge)))
	}
	return term.Tup(term.L(out...), term.F(d.mgr.TotalAV()))
}

func trSame(a, b term.T) bool {
	x, _ := json.Marshal(a)
	y, _ := json.Marshal(b)
	return string(x) == string(y)
}

func newTrDriver(record bool) *trDriver {
	d := &trDriver{attr: &turnAttr{spd: map[key.TargetID]float64{}}, record: record}
	sys := &event.System{}
	d.mgr = turn.New(sys, d.attr)
	react := func(e trEvInfo, payload func() term.T) {
		var before term.T
		if d.record {
			before = payload()
			d.trace = append(d.trace, term.C("TEv", before))
		}
		if d.script != nil {
			sc := d.script(e)
			d.depth++
			for _, o := range sc {
				d.doOp(o)
			}
			d.depth--
		}
		if d.record {
			if after := payload(); !trSame(before, after) {
				d.trace = append(d.trace, term.C("TEv", after))
			}
		}
	}
	sys.TurnTargetsAdded.Subscribe(func(e event.TurnTargetsAdded) {
		react(trEvInfo{"added", e.Targets, e.TurnOrder}, func() term.T {
			ids := []term.T{}
			for _, id := range e.Targets {
				ids = append(ids, term.I(int64(id)))
			}
			return term.C("EAdded", term.L(ids...), statusTerm(e.TurnOrder))
		})
	})
	sys.TurnReset.Subscribe(func(e event.TurnReset) {
		react(trEvInfo{"reset", []key.TargetID{e.ResetTarget}, e.TurnOrder}, func() term.T {
			return term.C("EReset", term.I(int64(e.ResetTarget)), term.F(e.GaugeCost), statusTerm(e.TurnOrder))
		})
	})
	sys.GaugeChange.Subscribe(func(e event.GaugeChange) {
		react(trEvInfo{"gauge", []key.TargetID{e.Target}, e.TurnOrder}, func() term.T {
			return term.C("EGauge", term.I(int64(e.Target)), term.I(e.OldGauge), term.I(e.NewGauge), statusTerm(e.TurnOrder))
		})
	})
	sys.CurrentGaugeCostChange.Subscribe(func(e event.CurrentGaugeCostChange) {
		react(trEvInfo{"cost", nil, nil}, func() term.T {
			return term.C("ECost", term.F(e.OldCost), term.F(e.NewCost))
		})
	})
	return d
}

// doOp executes one operation (top-level or from inside a listener) on the real manager
func (d *trDriver) doOp(o term.T) {
	if d.record {
		d.trace = append(d.trace, term.C("TCall", o))
	}
	rets := []term.T{}
	fail := func(err error) {
		if err != nil {
			rets = append(rets, term.C("EErr"))
		}
	}
	name, a := term.Ctor(o)
	ma := func() info.ModifyAttribute {
		return info.ModifyAttribute{Key: "k", Target: key.TargetID(term.Int(a[0])), Source: 1, Amount: term.Float(a[1])}
	}
	switch name {
	case "OSetSpeed":
		d.attr.spd[key.TargetID(term.Int(a[0]))] = term.Float(a[1])
	case "OAdd":
		ids := []key.TargetID{}
		for _, iv := range term.List(a[0]) {
			it := term.TupleItems(iv)
			id := key.TargetID(term.Int(it[0]))
			d.attr.spd[id] = term.Float(it[1])
			ids = append(ids, id)
		}
		d.mgr.AddTargets(ids...)
	case "ORemove":
		fail(d.mgr.RemoveTarget(key.TargetID(term.Int(a[0]))))
	case "OStart":
		id, av, st, err := d.mgr.StartTurn()
		if err != nil {
			fail(err)
		} else {
			rets = append(rets, term.C("EStart", term.I(int64(id)), term.F(av), statusTerm(st), term.F(d.mgr.TotalAV())))
		}
	case "OReset":
		fail(d.mgr.ResetTurn())
	case "OSetGauge":
		fail(d.mgr.SetGauge(ma()))
	case "OModNorm":
		fail(d.mgr.ModifyGaugeNormalized(ma()))
	case "OModAV":
		fail(d.mgr.ModifyGaugeAV(ma()))
	case "OSetCost":
		d.mgr.SetCurrentGaugeCost(info.ModifyCurrentGaugeCost{Key: "k", Source: 1, Amount: term.Float(a[0])})
	case "OModCost":
		d.mgr.ModifyCurrentGaugeCost(info.ModifyCurrentGaugeCost{Key: "k", Source: 1, Amount: term.Float(a[0])})
	default:
		panic("unknown op " + name)
	}
	if d.record {
		d.trace = append(d.trace, term.C("TRet", term.L(rets...), d.probe()))
	}
}

// top runs a top-level operation; false when the manager panicked (the run ends there)
func (d *trDriver) top(o term.T) (ok bool) {
	defer func() {
		if r := recover(); r != nil {
			d.depth = 0
			if d.record {
				d.trace = append(d.trace, term.C("TRet", term.L(term.C("EPanic")), term.Tup(term.L(), term.F(0))))
			}
			ok = false
		}
	}()
	d.doOp(o)
	return true
}

func runTurnRe(in term.T) term.T {
	it := term.TupleItems(in)
	_, qs := term.Ctor(it[0]) // mkQ added reset gauge cost
	queues := map[string][]term.T{
		"added": term.List(qs[0]), "reset": term.List(qs[1]), "gauge": term.List(qs[2]), "cost": term.List(qs[3]),
	}
	d := newTrDriver(true)
	d.script = func(e trEvInfo) []term.T {
		q := queues[e.kind]
		if len(q) == 0 {
			return nil // exhausted queue: a listener that does nothing
		}
		queues[e.kind] = q[1:]
		return term.List(q[0])
	}
	for _, o := range term.List(it[1]) {
		if !d.top(o) {
			break
		}
	}
	return term.L(d.trace...)
}

// ---- generator ----
// The scripts are generated WHILE the history runs on a real manager of the generator's own (nothing is
// compared against it): the listener of a delivery decides, knowing the event, the nesting depth and the turn
// order at that moment, what it will do, executes it right away (so that later choices see its effect) and
// appends the script to the queue of the event's slot.  Deliveries occur in the same order when the case is
// run, so every script is popped by the delivery it was made for.  Aim: the unit the outer call is working on.

type trGen struct {
	r         *term.Rng
	d         *trDriver
	queues    map[string][]term.T
	budget    int // nested operations left
	maxDepth  int
	listen    bool
	tie       bool
	speedPool []float64
	next      int64
}

var (
	trNorm  = []float64{-0.25, -0.5, -1, -2, 0.25, 0.5, 0.3, -0.3, 0.1, -0.12, 1, 0}
	trAVs   = []float64{-10, -25.5, 10, 30, -200, 5, 0, -0.5}
	trCosts = []float64{1, 0.5, 0.75, 1.5, 2, 0, 0.1, -0.5}
	trDCost = []float64{-0.5, 0.5, 0.25, -0.25, 1, -1}
	trTieG  = []float64{10000, 5000, 6000, 4500, 9000, 12000, 0, 2500, 3000, 2250}
)

func (g *trGen) members() []int64 {
	out := []int64{}
	for _, id := range g.d.mgr.TurnOrder() {
		out = append(out, int64(id))
	}
	return out
}

func (g *trGen) pick() int64 {
	m := g.members()
	if len(m) == 0 || g.r.Chance(1, 25) {
		return int64(g.r.Range(1, int(g.next)+1)) // sometimes an id that was removed or never existed
	}
	return term.Pick(g.r, m)
}

func (g *trGen) amount() float64 {
	r := g.r
	if g.tie && r.Chance(3, 4) {
		return term.Pick(r, trTieG)
	}
	switch r.Intn(8) {
	case 0:
		return 0
	case 1:
		return float64(r.Range(0, 12000))
	case 2:
		return -float64(r.Range(1, 3000))
	case 3:
		return 10000
	case 4:
		return float64(r.Range(0, 10000)) + 0.75
	default:
		return float64(r.Range(0, 10000))
	}
}

// a gauge operation on unit id
func (g *trGen) gaugeOp(id int64) term.T {
	r := g.r
	switch r.Intn(6) {
	case 0, 1:
		return term.C("OSetGauge", term.I(id), term.F(g.amount()))
	case 2, 3, 4:
		return term.C("OModNorm", term.I(id), term.F(term.Pick(r, trNorm)))
	default:
		return term.C("OModAV", term.I(id), term.F(term.Pick(r, trAVs)))
	}
}

// set unit `other` to the gauge at which its action value equals that of unit `id` right now (when that gauge
// is an integer the two tie exactly and the documented tie order decides)
func (g *trGen) tieWith(id, other int64) term.T {
	for _, s := range g.d.status() {
		if int64(s.ID) == id {
			gauge := s.AV * g.d.attr.Stats(key.TargetID(other)).SPD()
			if !math.IsNaN(gauge) && !math.IsInf(gauge, 0) && math.Abs(gauge) < 1e9 {
				return term.C("OSetGauge", term.I(other), term.F(math.Round(gauge)))
			}
		}
	}
	return g.gaugeOp(other)
}

func (g *trGen) costOp() term.T {
	if g.r.Bool() {
		return term.C("OSetCost", term.F(term.Pick(g.r, trCosts)))
	}
	return term.C("OModCost", term.F(term.Pick(g.r, trDCost)))
}

// what the listener of delivery e does
func (g *trGen) makeScript(e trEvInfo) []term.T {
	r := g.r
	if !g.listen || g.budget <= 0 || g.d.depth >= g.maxDepth || r.Chance(2, 5) {
		return nil
	}
	n := 1
	if r.Chance(1, 3) {
		n = 2
	}
	if r.Chance(1, 12) {
		n = 3
	}
	if n > g.budget {
		n = g.budget
	}
	return make([]term.T, n) // filled one operation at a time by the caller (each sees the effect of the previous)
}

func (g *trGen) scriptOp(e trEvInfo) term.T {
	r := g.r
	var t int64 = -1
	if len(e.targets) > 0 {
		t = int64(term.Pick(r, e.targets))
	} else if m := g.members(); len(m) > 0 {
		t = m[0] // cost changes: the head of the order (the acting unit during a turn)
	}
	other := g.pick()
	if e.kind == "cost" && r.Chance(1, 2) {
		return g.costOp() // the same event again
	}
	if t < 0 {
		return g.gaugeOp(other)
	}
	switch k := r.Intn(20); {
	case k < 8:
		return g.gaugeOp(t) // the same unit again (for a gauge change: the same event inside itself)
	case k < 10:
		return term.C("ORemove", term.I(t)) // remove what the outer call has just reported
	case k < 12:
		return term.C("OSetSpeed", term.I(t), term.F(term.Pick(r, g.speedPool))) // the stored order goes stale
	case k < 15:
		return g.tieWith(t, other)
	case k < 17:
		return g.gaugeOp(other)
	case k < 19:
		return g.costOp()
	default:
		return term.C("ORemove", term.I(other))
	}
}

func genTurnRe(r *term.Rng, idx int) term.T {
	g := &trGen{r: r, queues: map[string][]term.T{}, maxDepth: 3, next: 1}
	g.listen = idx%8 != 7
	g.budget = r.Range(4, 26)
	nu := r.Range(2, 6)
	n := r.Range(5, 28)
	g.speedPool = []float64{90, 100, 100, 101, 120, 134, 160, 99.5, 250, 1, 500, 133.4}
	if r.Chance(1, 10) {
		// a large battle with many ties (sort.Stable vs sort.Sort); fewer calls so that the trace stays small
		nu = r.Range(13, 18)
		g.speedPool = []float64{100, 100, 100, 120, 120, 90}
		n = r.Range(5, 14)
		if g.budget > 12 {
			g.budget = 12
		}
	}
	g.tie = r.Chance(1, 3)
	if g.tie {
		g.speedPool = []float64{100, 120, 90, 100}
	}
	g.d = newTrDriver(false)
	g.d.script = func(e trEvInfo) []term.T {
		sc := g.makeScript(e)
		// reserve the script's place in the queue now: scripts of nested deliveries of the same kind come later
		q := g.queues[e.kind]
		pos := len(q)
		g.queues[e.kind] = append(q, nil)
		g.budget -= len(sc)
		done := []term.T{}
		for range sc {
			o := g.scriptOp(e)
			done = append(done, o)
			g.d.depth++
			g.d.doOp(o)
			g.d.depth--
		}
		g.queues[e.kind][pos] = term.L(done...)
		return nil // already executed
	}
	ops := []term.T{}
	alive := true
	emit := func(o term.T) {
		ops = append(ops, o)
		if alive {
			alive = g.d.top(o)
		}
	}
	addSome := func(k int) {
		ids := []term.T{}
		for ; k > 0; k-- {
			ids = append(ids, term.Tup(term.I(g.next), term.F(term.Pick(r, g.speedPool))))
			g.next++
		}
		emit(term.C("OAdd", term.L(ids...)))
	}
	addSome(nu)
	inTurn := false
	for len(ops) < n {
		k := r.Intn(20)
		if g.tie && r.Chance(1, 3) {
			k = term.Pick(r, []int{6, 7, 8, 16, 17})
		}
		switch {
		case k < 5:
			if inTurn {
				emit(term.C("OReset"))
			} else {
				emit(term.C("OStart"))
			}
			inTurn = !inTurn
		case k < 6:
			if r.Chance(1, 3) { // protocol violations: double start / reset without a turn
				if r.Bool() {
					emit(term.C("OStart"))
					inTurn = true
				} else {
					emit(term.C("OReset"))
					inTurn = false
				}
			} else {
				emit(g.costOp())
			}
		case k < 9:
			emit(term.C("OSetGauge", term.I(g.pick()), term.F(g.amount())))
		case k < 12:
			emit(term.C("OModNorm", term.I(g.pick()), term.F(term.Pick(r, trNorm))))
		case k < 14:
			emit(term.C("OModAV", term.I(g.pick()), term.F(term.Pick(r, trAVs))))
		case k < 16:
			emit(g.costOp())
		case k < 18:
			emit(term.C("OSetSpeed", term.I(g.pick()), term.F(term.Pick(r, g.speedPool))))
		case k < 19:
			if m := g.members(); len(m) > 1 {
				emit(term.C("ORemove", term.I(term.Pick(r, m))))
			}
		default:
			addSome(r.Range(1, 2))
		}
	}
	if r.Chance(3, 4) {
		// epilogue: make the hidden fields visible (gauge cost, active flag, acting unit)
		emit(term.C("OSetCost", term.F(3.375)))
		emit(term.C("OReset"))
		emit(term.C("OStart"))
	}
	qs := func(k string) term.T {
		out := []term.T{}
		for _, s := range g.queues[k] {
			if s == nil {
				s = term.L()
			}
			out = append(out, s)
		}
		// trailing idle listeners need no entry
		for len(out) > 0 && len(term.List(out[len(out)-1])) == 0 {
			out = out[:len(out)-1]
		}
		return term.L(out...)
	}
	return term.Tup(term.C("mkQ", qs("added"), qs("reset"), qs("gauge"), qs("cost")), term.L(ops...))
}

func kindsTurnRe(in term.T) map[string]int {
	m := map[string]int{}
	it := term.TupleItems(in)
	for _, o := range term.List(it[1]) {
		n, _ := term.Ctor(o)
		m[n]++
	}
	_, qs := term.Ctor(it[0])
	names := []string{"added", "reset", "gauge", "cost"}
	nested := 0
	for i, q := range qs {
		for _, s := range term.List(q) {
			ops := term.List(s)
			if len(ops) > 0 {
				m["script."+names[i]]++
			}
			for _, o := range ops {
				n, _ := term.Ctor(o)
				m["nested."+n]++
				nested++
			}
		}
	}
	if nested == 0 {
		m["no-listener-scripts"]++
	}
	return m
}

func init() { register("turnre", component{gen: genTurnRe, run: runTurnRe, kinds: kindsTurnRe}) }
