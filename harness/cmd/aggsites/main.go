// aggsites lists, for the two worker pools that feed the aggregators (cmd/srsim/execute.go and
// pkg/servermode/pool.go), every call of an aggregator's Add / Flush together with the function
// it sits in and whether it sits inside a goroutine body, and every function started with `go`.
// Property C19 relies on "one collector goroutine adds worker results": tools/props.d/C19.py
// compares this listing with the expected shape on every check run.
//
//	aggsites -repo /repo      prints one JSON object
package main

import (
	"encoding/json"
	"flag"
	"fmt"
	"go/ast"
	"go/parser"
	"go/token"
	"os"
	"path/filepath"
	"sort"
)

type site struct {
	File        string `json:"file"`
	Func        string `json:"func"`
	Call        string `json:"call"`
	InGoroutine bool   `json:"in_goroutine"` // lexically inside `go func() {...}()`
	InLoop      bool   `json:"in_loop"`
}

type report struct {
	Sites    []site              `json:"sites"`
	Launched map[string][]string `json:"launched"` // file -> functions / methods started with `go`
}

func selName(e ast.Expr) (recv, name string, ok bool) {
	s, isSel := e.(*ast.SelectorExpr)
	if !isSel {
		return "", "", false
	}
	if id, isID := s.X.(*ast.Ident); isID {
		return id.Name, s.Sel.Name, true
	}
	return "?", s.Sel.Name, true
}

func main() {
	repo := flag.String("repo", "/repo", "repository root")
	flag.Parse()
	files := []string{"cmd/srsim/execute.go", "pkg/servermode/pool.go"}
	rep := report{Launched: map[string][]string{}}
	fset := token.NewFileSet()
	for _, rel := range files {
		f, err := parser.ParseFile(fset, filepath.Join(*repo, rel), nil, 0)
		if err != nil {
			fmt.Fprintln(os.Stderr, "aggsites:", err)
			os.Exit(1)
		}
		for _, d := range f.Decls {
			fd, ok := d.(*ast.FuncDecl)
			if !ok || fd.Body == nil {
				continue
			}
			var walk func(n ast.Node, inGo, inLoop bool)
			walk = func(n ast.Node, inGo, inLoop bool) {
				ast.Inspect(n, func(x ast.Node) bool {
					switch v := x.(type) {
					case *ast.GoStmt:
						if lit, isLit := v.Call.Fun.(*ast.FuncLit); isLit {
							walk(lit.Body, true, false)
							for _, a := range v.Call.Args {
								walk(a, inGo, inLoop)
							}
							return false
						}
						if _, name, ok := selName(v.Call.Fun); ok {
							rep.Launched[rel] = append(rep.Launched[rel], name)
						} else if id, isID := v.Call.Fun.(*ast.Ident); isID {
							rep.Launched[rel] = append(rep.Launched[rel], id.Name)
						}
					case *ast.ForStmt:
						if v.Init != nil {
							walk(v.Init, inGo, inLoop)
						}
						if v.Cond != nil {
							walk(v.Cond, inGo, inLoop)
						}
						if v.Post != nil {
							walk(v.Post, inGo, inLoop)
						}
						walk(v.Body, inGo, true)
						return false
					case *ast.RangeStmt:
						walk(v.X, inGo, inLoop)
						walk(v.Body, inGo, true)
						return false
					case *ast.CallExpr:
						if recv, name, ok := selName(v.Fun); ok && (name == "Add" || name == "Flush") {
							// aggregator calls: aggs.Add(result), a.Add(result), aggregators.Flush()
							isAgg := (name == "Add" && len(v.Args) == 1) || (name == "Flush" && len(v.Args) == 0)
							if isAgg && recv != "bar" && recv != "wg" {
								rep.Sites = append(rep.Sites, site{rel, fd.Name.Name, recv + "." + name, inGo, inLoop})
							}
						}
					}
					return true
				})
			}
			walk(fd.Body, false, false)
		}
		sort.Strings(rep.Launched[rel])
	}
	out, _ := json.MarshalIndent(rep, "", " ")
	fmt.Println(string(out))
}
