(* C14, expression fragment: the Pratt parser model returns exactly the tree whose canonical
   token sequence (Model/GcsSpec.v: parentheses only where precedence or left association
   require them) it is given - precedence climbing, left association, parentheses, unary
   operators, calls. *)
From Coq Require Import List ZArith Bool String Ascii Lia.
From SR Require Import Base.CaseLib Model.GcsAst Model.GcsUnicode Model.GcsLex Model.GcsNum
  Model.GcsParse Model.GcsSpec.
Import ListNotations.
Open Scope Z_scope.

(* ---- the expression fragment ---- *)
Definition is_binop (k : toktype) : bool :=
  match infix_of k with Some IfBinary => true | _ => false end.
Definition is_unop (k : toktype) : bool :=
  match k with LogicNot | ItemMinus => true | _ => false end.

Fixpoint efrag (e : expr) : bool :=
  match e with
  | ENum _ _ _ | EStr _ | ENull | EIdent _ => true
  | ECall f args => efrag f && forallb efrag args
  | EUnary op r => is_unop (t_typ op) && efrag r
  | EBinary l r op => is_binop (t_typ op) && efrag l && efrag r
  | _ => false
  end.

Fixpoint esize (e : expr) : nat :=
  match e with
  | ECall f args => S (S (esize f + list_sum (map esize args)))
  | EUnary _ r => S (esize r)
  | EBinary l r _ => S (esize l + esize r)
  | _ => 1
  end.

(* ---- the left spine ---- *)
Inductive hd := HBare (e : expr) | HParen (e : expr).
Inductive sfx := XBin (op : token) (r : expr) | XCall (args : list expr).

Fixpoint spine (e : expr) : hd * list sfx :=
  match e with
  | EBinary l r op =>
      if tok_prec (t_typ op) - 1 <? level l
      then let (h, s) := spine l in (h, s ++ [XBin op r])
      else (HParen l, [XBin op r])
  | ECall f args =>
      if 8 <? level f
      then let (h, s) := spine f in (h, s ++ [XCall args])
      else (HParen f, [XCall args])
  | _ => (HBare e, [])
  end.

Definition app_sfx (l : expr) (x : sfx) : expr :=
  match x with XBin op r => EBinary l r op | XCall a => ECall l a end.
Definition hd_expr (h : hd) : expr := match h with HBare e | HParen e => e end.
Definition U_hd (h : hd) : list utok :=
  match h with HBare e => unparse_expr e | HParen e => LP :: unparse_expr e ++ [RP] end.
Definition U_sfx (x : sfx) : list utok :=
  match x with
  | XBin op r => utok_of op :: paren_if (tok_prec (t_typ op)) r (unparse_expr r)
  | XCall args => LP :: sep_by COMMA (map unparse_expr args) ++ [RP]
  end.
Definition sfx_prec (x : sfx) : Z :=
  match x with XBin op _ => tok_prec (t_typ op) | XCall _ => 9 end.
Definition sfx_size (x : sfx) : nat :=
  match x with XBin _ r => S (esize r) | XCall args => S (S (list_sum (map esize args))) end.
Definition hd_size (h : hd) : nat := esize (hd_expr h).

Lemma spine_rebuild : forall e, fold_left app_sfx (snd (spine e)) (hd_expr (fst (spine e))) = e.
Proof.
  induction e; cbn [spine]; try reflexivity.
  - (* call *)
    destruct (8 <? level e); [|reflexivity].
    destruct (spine e) as [h s]. cbn [fst snd] in *.
    rewrite fold_left_app. cbn. rewrite IHe. reflexivity.
  - (* binary *)
    destruct (tok_prec (t_typ op) - 1 <? level e1); [|reflexivity].
    destruct (spine e1) as [h s]. cbn [fst snd] in *.
    rewrite fold_left_app. cbn. rewrite IHe1. reflexivity.
Qed.

Lemma spine_tokens : forall e,
  unparse_expr e = U_hd (fst (spine e)) ++ flat_map U_sfx (snd (spine e)).
Proof.
  induction e; cbn [spine]; try (cbn [fst snd U_hd flat_map]; rewrite app_nil_r; reflexivity).
  - (* call *)
    cbn [unparse_expr]. unfold paren_if. destruct (8 <? level e) eqn:E.
    + destruct (spine e) as [h s]. cbn [fst snd] in *.
      rewrite flat_map_app. cbn [flat_map U_sfx]. rewrite app_nil_r. rewrite IHe.
      rewrite <- app_assoc. reflexivity.
    + cbn [fst snd U_hd flat_map U_sfx]. rewrite app_nil_r.
      cbn. rewrite <- app_assoc. reflexivity.
  - (* binary *)
    cbn [unparse_expr]. unfold paren_if at 1. destruct (tok_prec (t_typ op) - 1 <? level e1) eqn:E.
    + destruct (spine e1) as [h s]. cbn [fst snd] in *.
      rewrite flat_map_app. cbn [flat_map U_sfx]. rewrite app_nil_r. rewrite IHe1.
      rewrite <- app_assoc. reflexivity.
    + cbn [fst snd U_hd flat_map U_sfx]. rewrite app_nil_r.
      cbn. rewrite <- app_assoc. reflexivity.
Qed.

Lemma spine_size : forall e,
  esize e = (hd_size (fst (spine e)) + list_sum (map sfx_size (snd (spine e))))%nat.
Proof.
  induction e; cbn [spine]; try (cbn; lia).
  - destruct (8 <? level e).
    + destruct (spine e) as [h s]. cbn [fst snd] in *.
      rewrite map_app, list_sum_app. cbn [esize map list_sum fold_right sfx_size]. lia.
    + cbn [fst snd hd_size hd_expr map list_sum fold_right sfx_size esize]. lia.
  - destruct (tok_prec (t_typ op) - 1 <? level e1).
    + destruct (spine e1) as [h s]. cbn [fst snd] in *.
      rewrite map_app, list_sum_app. cbn [esize map list_sum fold_right sfx_size]. lia.
    + cbn [fst snd hd_size hd_expr map list_sum fold_right sfx_size esize]. lia.
Qed.

(* a bare head is never a binary or call node *)
Definition is_infix_node (e : expr) : bool :=
  match e with EBinary _ _ _ | ECall _ _ => true | _ => false end.

Lemma spine_head_bare : forall e h, fst (spine e) = HBare h -> is_infix_node h = false.
Proof.
  induction e; intros h H; cbn [spine] in H; try (inversion H; reflexivity).
  - destruct (8 <? level e); [|discriminate].
    destruct (spine e) as [h0 s]. cbn [fst] in *. apply IHe. exact H.
  - destruct (tok_prec (t_typ op) - 1 <? level e1); [|discriminate].
    destruct (spine e1) as [h0 s]. cbn [fst] in *. apply IHe1. exact H.
Qed.

Lemma spine_paren_nonempty : forall e l, fst (spine e) = HParen l -> snd (spine e) <> [].
Proof.
  destruct e; intros l H; cbn [spine] in *; try discriminate.
  - destruct (8 <? level e); [|cbn; discriminate].
    destruct (spine e) as [h s]. cbn [snd]. destruct s; discriminate.
  - destruct (tok_prec (t_typ op) - 1 <? level e1); [|cbn; discriminate].
    destruct (spine e1) as [h s]. cbn [snd]. destruct s; discriminate.
Qed.

Lemma spine_no_sfx : forall e, is_infix_node e = false -> spine e = (HBare e, []).
Proof. destruct e; intros H; try discriminate; reflexivity. Qed.

(* ---- precedences along the spine ---- *)
Definition hd_level (h : hd) : Z := match h with HBare e => level e | HParen _ => 10 end.
Fixpoint chain_ok (up : Z) (s : list sfx) : Prop :=
  match s with
  | [] => True
  | x :: r => sfx_prec x <= up /\ chain_ok (sfx_prec x) r
  end.
Definition top_level (up : Z) (s : list sfx) : Z := fold_left (fun _ x => sfx_prec x) s up.

Lemma chain_ok_app : forall s up x,
  chain_ok up s -> sfx_prec x <= top_level up s -> chain_ok up (s ++ [x]).
Proof.
  induction s as [|y s IH]; intros up x H1 H2; cbn in *.
  - split; [exact H2|exact I].
  - destruct H1 as [A B]. split; [exact A|]. apply IH; assumption.
Qed.
Lemma top_level_app : forall s up x, top_level up (s ++ [x]) = sfx_prec x.
Proof. intros. unfold top_level. rewrite fold_left_app. reflexivity. Qed.

Ltac uprec := unfold Lowest, LogicalOr, LogicalAnd, Equals, LessOrGreater, Sum, Product, Prefix, Call in *.
Lemma tok_prec_range : forall k, 1 <= tok_prec k <= 9.
Proof. destruct k; cbn; uprec; lia. Qed.
Lemma level_range : forall e, 1 <= level e <= 10.
Proof. destruct e; cbn; try lia. pose proof (tok_prec_range (t_typ op)). lia. Qed.

Lemma spine_chain : forall e,
  chain_ok (hd_level (fst (spine e))) (snd (spine e)) /\
  top_level (hd_level (fst (spine e))) (snd (spine e)) = level e.
Proof.
  induction e; cbn [spine]; try (cbn; split; [exact I|reflexivity]).
  - destruct (8 <? level e) eqn:E.
    + destruct (spine e) as [h s]. cbn [fst snd] in *. destruct IHe as [C Tl].
      split; [|rewrite top_level_app; reflexivity].
      apply chain_ok_app; [exact C|]. rewrite Tl. cbn. apply Z.ltb_lt in E. lia.
    + cbn. split; [split; [lia|exact I]|reflexivity].
  - destruct (tok_prec (t_typ op) - 1 <? level e1) eqn:E.
    + destruct (spine e1) as [h s]. cbn [fst snd] in *. destruct IHe1 as [C Tl].
      split; [|rewrite top_level_app; reflexivity].
      apply chain_ok_app; [exact C|]. rewrite Tl. cbn. apply Z.ltb_lt in E. lia.
    + cbn. split; [split; [|exact I]|reflexivity]. pose proof (tok_prec_range (t_typ op)). lia.
Qed.

Lemma top_level_le : forall s up, chain_ok up s -> top_level up s <= up.
Proof.
  induction s as [|y s IH]; intros up C; cbn in *; [lia|].
  destruct C as [A B]. fold (top_level (sfx_prec y) s). specialize (IH _ B). lia.
Qed.

(* every suffix binds at least as tightly as the whole expression *)
Lemma chain_lower : forall s up, chain_ok up s -> forall x, In x s -> top_level up s <= sfx_prec x.
Proof.
  induction s as [|y s IH]; intros up C x Hin; [destruct Hin|].
  cbn in C. destruct C as [A B]. cbn [top_level fold_left]. fold (top_level (sfx_prec y) s).
  destruct Hin as [->|Hin]; [apply top_level_le; exact B|apply IH; assumption].
Qed.

(* ---- matching canonical tokens against lexed ones, in Prop ---- *)
Definition Umatch (u : utok) (t : ltoken) : Prop :=
  match u with
  | UT k v => lt_typ t = k /\ lt_val t = v
  | UNum i f s =>
      (lt_typ t = ItemNumber /\ number_lit (lt_val t) = Some (ENum i f s)) \/
      (lt_typ t = ItemBool /\ bool_lit (lt_val t) = Some (ENum i f s))
  end.
Definition Umatches := Forall2 Umatch.

Lemma Umatches_app : forall us1 us2 ts, Umatches (us1 ++ us2) ts ->
  exists ts1 ts2, ts = ts1 ++ ts2 /\ Umatches us1 ts1 /\ Umatches us2 ts2.
Proof.
  intros us1 us2 ts H. apply Forall2_app_inv_l in H. destruct H as (l1 & l2 & A & B & C).
  exists l1, l2. auto.
Qed.
Lemma Umatches_cons : forall u us ts, Umatches (u :: us) ts ->
  exists t ts', ts = t :: ts' /\ Umatch u t /\ Umatches us ts'.
Proof. intros u us ts H. inversion H; subst. eauto. Qed.
Lemma Umatches_nil : forall ts, Umatches [] ts -> ts = [].
Proof. intros ts H. inversion H. reflexivity. Qed.

(* ---- parser states whose look-ahead is already in [ahead] ---- *)
Section RT.
Variable inp : input.

Lemma nx : forall p t r c, pnext inp (mkP p (t :: r) c) = ROk t (mkP p r (t :: c)).
Proof. reflexivity. Qed.
Lemma pk : forall p t r c, ppeek inp (mkP p (t :: r) c) = ROk t (mkP p (t :: r) c).
Proof. reflexivity. Qed.

(* one unfolding of the functions of the expression fragment *)
Lemma p_expr_eq : forall n pre ps, p_expr inp (S n) pre ps =
  pb (t, s) <- pnext inp ps;
  match prefix_of (lt_typ t) with
  | None => RErr s
  | Some pf => pb (lhs, s) <- p_prefix inp n pf (pbackup s); p_infix_loop inp n pre lhs s
  end.
Proof. reflexivity. Qed.
Lemma p_infix_loop_eq : forall n pre lhs ps, p_infix_loop inp (S n) pre lhs ps =
  pb (t, s) <- ppeek inp ps;
  if negb (typ_is t ItemTerminateLine) && (pre <? tok_prec (lt_typ t)) then
    match infix_of (lt_typ t) with
    | None => ROk lhs s
    | Some IfBinary => pb (l2, s) <- p_binary inp n lhs s; p_infix_loop inp n pre l2 s
    | Some IfCall => pb (l2, s) <- p_call inp n lhs s; p_infix_loop inp n pre l2 s
    end
  else ROk lhs s.
Proof. reflexivity. Qed.
Lemma p_binary_eq : forall n lhs ps, p_binary inp (S n) lhs ps =
  pb (t, s) <- pnext inp ps;
  pb (r, s) <- p_expr inp n (tok_prec (lt_typ t)) s;
  ROk (EBinary lhs r (tk t)) s.
Proof. reflexivity. Qed.
Lemma p_call_eq : forall n f ps, p_call inp (S n) f ps =
  pb (_, s) <- pconsume inp ItemLeftParen ps;
  pb (args, s) <- p_call_args inp n s;
  ROk (ECall f args) s.
Proof. reflexivity. Qed.
Lemma p_call_args_eq : forall n ps, p_call_args inp (S n) ps =
  pb (t, s) <- ppeek inp ps;
  if typ_is t ItemRightParen then pb (_, s) <- pnext inp s; ROk [] s
  else pb (e, s) <- p_expr inp n Lowest s; p_call_args_loop inp n [e] s.
Proof. reflexivity. Qed.
Lemma p_call_args_loop_eq : forall n args ps, p_call_args_loop inp (S n) args ps =
  pb (t, s) <- ppeek inp ps;
  if typ_is t ItemComma then
    pb (_, s) <- pnext inp s;
    pb (e, s) <- p_expr inp n Lowest s;
    p_call_args_loop inp n (args ++ [e]) s
  else
    pb (t, s) <- pnext inp s;
    if typ_is t ItemRightParen then ROk args s else RErr (pbackup s).
Proof. reflexivity. Qed.
Lemma p_prefix_unary_eq : forall n ps, p_prefix inp (S n) PfUnary ps =
  pb (t, s) <- pnext inp ps;
  if typ_is t LogicNot || typ_is t ItemMinus then
    pb (r, s) <- p_expr inp n Prefix s; ROk (EUnary (tk t) r) s
  else RErr s.
Proof. reflexivity. Qed.
Lemma p_prefix_paren_eq : forall n ps, p_prefix inp (S n) PfParen ps =
  pb (_, s) <- pnext inp ps;
  pb (e, s) <- p_expr inp n Lowest s;
  pb (t, s) <- ppeek inp s;
  if typ_is t ItemRightParen then pb (_, s) <- pnext inp s; ROk e s else RErr s.
Proof. reflexivity. Qed.

(* the infix loop stops at this token *)
Definition stops (pre : Z) (t : ltoken) : Prop :=
  lt_typ t = ItemTerminateLine \/ tok_prec (lt_typ t) <= pre.
Definition stop (pre : Z) (rest : list ltoken) : Prop :=
  exists t r, rest = t :: r /\ stops pre t.

Lemma typ_is_true : forall t k, lt_typ t = k -> typ_is t k = true.
Proof. intros t k H. unfold typ_is, toktype_eqb. rewrite H. apply Z.eqb_refl. Qed.
Lemma typ_is_false : forall t k, lt_typ t <> k -> typ_is t k = false.
Proof.
  intros t k H. unfold typ_is, toktype_eqb. apply Z.eqb_neq. intro E. apply H.
  destruct (lt_typ t), k; cbn in E; try reflexivity; discriminate.
Qed.

Lemma loop_stops : forall n pre lhs p rest c, stop pre rest ->
  p_infix_loop inp (S n) pre lhs (mkP p rest c) = ROk lhs (mkP p rest c).
Proof.
  intros n pre lhs p rest c (t & r & -> & Hs). rewrite p_infix_loop_eq, pk. cbn [bindP].
  destruct Hs as [Hs|Hs].
  - rewrite (typ_is_true t _ Hs). reflexivity.
  - replace (pre <? tok_prec (lt_typ t)) with false by (symmetry; apply Z.ltb_ge; lia).
    rewrite andb_false_r. reflexivity.
Qed.

Lemma p_prefix_ident_eq : forall n ps, p_prefix inp (S n) PfIdent ps =
  pb (t, s) <- pnext inp ps; ROk (EIdent (lt_val t)) s.
Proof. reflexivity. Qed.
Lemma p_prefix_string_eq : forall n ps, p_prefix inp (S n) PfString ps =
  pb (t, s) <- pnext inp ps; ROk (EStr (lt_val t)) s.
Proof. reflexivity. Qed.
Lemma p_prefix_null_eq : forall n ps, p_prefix inp (S n) PfNull ps =
  pb (t, s) <- pnext inp ps; ROk ENull s.
Proof. reflexivity. Qed.
Lemma p_prefix_number_eq : forall n ps, p_prefix inp (S n) PfNumber ps =
  pb (t, s) <- pnext inp ps;
  match number_lit (lt_val t) with Some e => ROk e s | None => RErr s end.
Proof. reflexivity. Qed.
Lemma p_prefix_bool_eq : forall n ps, p_prefix inp (S n) PfBool ps =
  pb (t, s) <- pnext inp ps;
  match bool_lit (lt_val t) with Some e => ROk e s | None => RErr s end.
Proof. reflexivity. Qed.

Definition Main (e : expr) : Prop :=
  forall pre n ts rest p c,
    efrag e = true -> 1 <= pre <= 8 ->
    (is_infix_node e = true -> pre < level e) ->
    Umatches (unparse_expr e) ts ->
    stop pre rest ->
    (4 * esize e + 8 <= n)%nat ->
    p_expr inp n pre (mkP p (ts ++ rest) c) = ROk e (mkP p rest (rev ts ++ c)).

Lemma stop_weaken : forall pre pre' rest, stop pre rest -> pre <= pre' -> stop pre' rest.
Proof.
  intros pre pre' rest (t & r & E & [H|H]) Hle; exists t, r; (split; [exact E|]); [left; exact H|right; lia].
Qed.
Lemma stop_tok : forall pre t r, stops pre t -> stop pre (t :: r).
Proof. intros. exists t, r. auto. Qed.

Lemma binop_not_semi : forall k, is_binop k = true -> k <> ItemTerminateLine.
Proof. intros k H E. subst k. discriminate. Qed.
Lemma binop_infix : forall k, is_binop k = true -> infix_of k = Some IfBinary.
Proof. intros k H. unfold is_binop in H. destruct (infix_of k) as [[|]|]; try discriminate. reflexivity. Qed.
Lemma binop_prec : forall k, is_binop k = true -> 2 <= tok_prec k <= 7.
Proof. destruct k; cbn; intros H; try discriminate; uprec; lia. Qed.

Lemma size_pos : forall e, (1 <= esize e)%nat.
Proof. destruct e; cbn; lia. Qed.

(* an operand position: the tokens of [r], parenthesised unless its level exceeds [m] *)
Lemma operand : forall r, Main r -> forall m pre n ts rest p c,
  efrag r = true -> 1 <= pre <= 8 ->
  (m < level r -> is_infix_node r = true -> pre < level r) ->
  Umatches (paren_if m r (unparse_expr r)) ts ->
  stop pre rest ->
  (4 * esize r + 10 <= n)%nat ->
  p_expr inp n pre (mkP p (ts ++ rest) c) = ROk r (mkP p rest (rev ts ++ c)).
Proof.
  intros r HM m pre n ts rest p c Hf Hpre Hb Hm Hs Hn. unfold paren_if in Hm.
  destruct (m <? level r) eqn:E.
  - apply Z.ltb_lt in E. apply HM; try assumption; [auto|lia].
  - (* ( r ) *)
    apply Umatches_cons in Hm. destruct Hm as (tl & ts1 & -> & [Hl1 Hl2] & Hm).
    apply Umatches_app in Hm. destruct Hm as (tr & ts2 & -> & Hr & Hm).
    apply Umatches_cons in Hm. destruct Hm as (trp & ts3 & -> & [Hr1 Hr2] & Hm).
    apply Umatches_nil in Hm. subst ts3.
    destruct n as [|n]; [lia|]. rewrite p_expr_eq. cbn [app]. rewrite nx. cbn [bindP].
    rewrite Hl1. cbn [prefix_of pbackup consumed prod ahead].
    destruct n as [|n]; [lia|]. rewrite p_prefix_paren_eq, nx. cbn [bindP].
    rewrite <- app_assoc. cbn [app]. unfold Lowest.
    rewrite (HM 1 n tr (trp :: rest) p (tl :: c)); try assumption; try lia.
    + cbn [bindP]. rewrite pk. cbn [bindP]. rewrite (typ_is_true trp _ Hr1). rewrite nx. cbn [bindP].
      destruct n as [|n]; [pose proof (size_pos r); lia|].
      rewrite loop_stops by assumption.
      f_equal. f_equal. cbn [rev]. rewrite rev_app_distr. cbn [rev app]. rewrite <- !app_assoc. reflexivity.
    + intros Hi. pose proof (level_range r). destruct r; try discriminate; cbn [level] in *.
      * lia.
      * pose proof (tok_prec_range (t_typ op)).
        cbn [efrag] in Hf. apply andb_true_iff in Hf. destruct Hf as [Hf _]. apply andb_true_iff in Hf.
        destruct Hf as [Hf _]. pose proof (binop_prec _ Hf). lia.
    + apply stop_tok. right. rewrite Hr1. cbn. uprec. lia.
Qed.

(* the first canonical token of an expression of the fragment *)
Definition expr_start (k : toktype) : bool :=
  match k with
  | ItemNumber | ItemBool | ItemString | ItemNull | ItemIdentifier | LogicNot | ItemMinus
  | ItemLeftParen => true
  | _ => false
  end.
Lemma U_starts_strong : forall e, efrag e = true ->
  exists u us, unparse_expr e = u :: us /\ forall t, Umatch u t -> expr_start (lt_typ t) = true.
Proof.
  induction e; intros Hf; try discriminate.
  - eexists _, _. split; [reflexivity|]. intros t [[H _]|[H _]]; rewrite H; reflexivity.
  - eexists _, _. split; [reflexivity|]. intros t [H _]; rewrite H; reflexivity.
  - eexists _, _. split; [reflexivity|]. intros t [H _]; rewrite H; reflexivity.
  - eexists _, _. split; [reflexivity|]. intros t [H _]; rewrite H; reflexivity.
  - cbn [efrag] in Hf. apply andb_true_iff in Hf. destruct Hf as [Hf _].
    cbn [unparse_expr]. unfold paren_if. destruct (8 <? level e).
    + destruct (IHe Hf) as (u & us & E & H). rewrite E. eexists _, _. split; [reflexivity|exact H].
    + eexists _, _. split; [reflexivity|]. intros t [H _]; rewrite H; reflexivity.
  - cbn [efrag] in Hf. apply andb_true_iff in Hf. destruct Hf as [Hf _].
    eexists _, _. split; [reflexivity|]. intros t [H _]. unfold utok_of in H. cbn in H. rewrite H.
    destruct (t_typ op); try discriminate; reflexivity.
  - cbn [efrag] in Hf. apply andb_true_iff in Hf. destruct Hf as [Hf _]. apply andb_true_iff in Hf. destruct Hf as [_ Hf].
    cbn [unparse_expr]. unfold paren_if at 1. destruct (tok_prec (t_typ op) - 1 <? level e1).
    + destruct (IHe1 Hf) as (u & us & E & H). rewrite E. eexists _, _. split; [reflexivity|exact H].
    + eexists _, _. split; [reflexivity|]. intros t [H _]; rewrite H; reflexivity.
Qed.
Lemma U_starts : forall e, efrag e = true ->
  exists u us, unparse_expr e = u :: us /\
    forall t, Umatch u t -> prefix_of (lt_typ t) <> None /\ lt_typ t <> ItemRightParen.
Proof.
  intros e Hf. destruct (U_starts_strong e Hf) as (u & us & E & H). exists u, us. split; [exact E|].
  intros t Hm. specialize (H t Hm). destruct (lt_typ t); try discriminate; split; discriminate.
Qed.

Lemma sep_by_flat : forall (r : list expr) (x : list utok),
  sep_by COMMA (x :: map unparse_expr r) = x ++ flat_map (fun a => COMMA :: unparse_expr a) r.
Proof.
  induction r as [|a r IH]; intros x; cbn [map flat_map]; [cbn; rewrite app_nil_r; reflexivity|].
  change (sep_by COMMA (x :: unparse_expr a :: map unparse_expr r))
    with (x ++ COMMA :: sep_by COMMA (unparse_expr a :: map unparse_expr r)).
  rewrite IH. reflexivity.
Qed.

Lemma args_loop : forall r, Forall Main r -> forall acc n ts rest p c,
  forallb efrag r = true ->
  Umatches (flat_map (fun a => COMMA :: unparse_expr a) r ++ [RP]) ts ->
  (4 * list_sum (map esize r) + 10 <= n)%nat ->
  p_call_args_loop inp n acc (mkP p (ts ++ rest) c) = ROk (acc ++ r) (mkP p rest (rev ts ++ c)).
Proof.
  induction r as [|a r IH]; intros HM acc n ts rest p c Hf Hm Hn.
  - cbn [flat_map app] in Hm. apply Umatches_cons in Hm. destruct Hm as (t & ts' & -> & [H1 H2] & Hm).
    apply Umatches_nil in Hm. subst ts'.
    destruct n as [|n]; [lia|]. rewrite p_call_args_loop_eq. cbn [app]. rewrite pk. cbn [bindP].
    rewrite (typ_is_false t ItemComma) by (rewrite H1; discriminate).
    rewrite nx. cbn [bindP]. rewrite (typ_is_true t _ H1). rewrite app_nil_r. reflexivity.
  - inversion HM as [|a' r' HMa HMr]; subst.
    cbn [forallb] in Hf. apply andb_true_iff in Hf. destruct Hf as [Hfa Hfr].
    cbn [flat_map] in Hm. rewrite <- app_assoc in Hm. cbn [app] in Hm.
    apply Umatches_cons in Hm. destruct Hm as (tc & ts1 & -> & [Hc1 Hc2] & Hm).
    apply Umatches_app in Hm. destruct Hm as (ta & ts2 & -> & Ha & Hm).
    cbn [map list_sum fold_right] in Hn.
    destruct n as [|n]; [lia|]. rewrite p_call_args_loop_eq. cbn [app]. rewrite pk. cbn [bindP].
    rewrite (typ_is_true tc _ Hc1). rewrite nx. cbn [bindP].
    rewrite <- app_assoc.
    assert (Hstop : stop 1 (ts2 ++ rest)).
    { destruct r as [|b r].
      - cbn [flat_map app] in Hm. apply Umatches_cons in Hm. destruct Hm as (t & ts' & -> & [H1 H2] & _).
        cbn [app]. apply stop_tok. right. rewrite H1. cbn. uprec. lia.
      - cbn [flat_map] in Hm. rewrite <- app_assoc in Hm. cbn [app] in Hm.
        apply Umatches_cons in Hm. destruct Hm as (t & ts' & -> & [H1 H2] & _).
        cbn [app]. apply stop_tok. right. rewrite H1. cbn. uprec. lia. }
    unfold Lowest.
    rewrite (HMa 1 n ta (ts2 ++ rest) p (tc :: c)); try assumption; try (unfold list_sum in *; lia).
    + cbn [bindP]. rewrite (IH HMr (acc ++ [a]) n ts2 rest p (rev ta ++ tc :: c)); try assumption; try (unfold list_sum in *; lia).
      * f_equal; [rewrite <- app_assoc; reflexivity|].
        f_equal. cbn [rev]. rewrite rev_app_distr. rewrite <- !app_assoc. reflexivity.
      * pose proof (size_pos a). unfold list_sum in *. lia.
    + intros Hi. pose proof (level_range a). destruct a; try discriminate; cbn [level] in *; [lia|].
      cbn [efrag] in Hfa. apply andb_true_iff in Hfa. destruct Hfa as [Hfa _]. apply andb_true_iff in Hfa.
      destruct Hfa as [Hfa _]. pose proof (binop_prec _ Hfa). lia.
Qed.

Lemma call_args_ok : forall args, Forall Main args -> forall n ts rest p c,
  forallb efrag args = true ->
  Umatches (sep_by COMMA (map unparse_expr args) ++ [RP]) ts ->
  (4 * list_sum (map esize args) + 11 <= n)%nat ->
  p_call_args inp n (mkP p (ts ++ rest) c) = ROk args (mkP p rest (rev ts ++ c)).
Proof.
  intros args HM n ts rest p c Hf Hm Hn. destruct args as [|a r].
  - cbn [map sep_by app] in Hm. apply Umatches_cons in Hm. destruct Hm as (t & ts' & -> & [H1 H2] & Hm).
    apply Umatches_nil in Hm. subst ts'.
    destruct n as [|n]; [lia|]. rewrite p_call_args_eq. cbn [app]. rewrite pk. cbn [bindP].
    rewrite (typ_is_true t _ H1). rewrite nx. reflexivity.
  - inversion HM as [|a' r' HMa HMr]; subst.
    cbn [forallb] in Hf. apply andb_true_iff in Hf. destruct Hf as [Hfa Hfr].
    cbn [map] in Hm. rewrite sep_by_flat in Hm. rewrite <- app_assoc in Hm.
    apply Umatches_app in Hm. destruct Hm as (ta & ts2 & -> & Ha & Hm).
    cbn [map list_sum fold_right] in Hn.
    destruct (U_starts a Hfa) as (u & us & Eu & Hu). rewrite Eu in Ha.
    apply Umatches_cons in Ha. destruct Ha as (t0 & ta' & -> & Hu0 & Ha').
    destruct (Hu t0 Hu0) as [Hp0 Hnr].
    destruct n as [|n]; [lia|]. rewrite p_call_args_eq. rewrite <- app_assoc. cbn [app]. rewrite pk. cbn [bindP].
    rewrite (typ_is_false t0 _ Hnr).
    assert (Hstop : stop 1 (ts2 ++ rest)).
    { destruct r as [|b r].
      - cbn [flat_map app] in Hm. apply Umatches_cons in Hm. destruct Hm as (t & ts' & -> & [H1 H2] & _).
        cbn [app]. apply stop_tok. right. rewrite H1. cbn. uprec. lia.
      - cbn [flat_map] in Hm. rewrite <- app_assoc in Hm. cbn [app] in Hm.
        apply Umatches_cons in Hm. destruct Hm as (t & ts' & -> & [H1 H2] & _).
        cbn [app]. apply stop_tok. right. rewrite H1. cbn. uprec. lia. }
    unfold Lowest.
    change (t0 :: ta' ++ ts2 ++ rest) with ((t0 :: ta') ++ ts2 ++ rest).
    rewrite (HMa 1 n (t0 :: ta') (ts2 ++ rest) p c); try assumption; try (unfold list_sum in *; lia).
    + cbn [bindP]. rewrite (args_loop r HMr [a] n ts2 rest p (rev (t0 :: ta') ++ c)); try assumption; try (unfold list_sum in *; lia).
      cbn [app]. f_equal. f_equal.
      change (t0 :: ta' ++ ts2) with ((t0 :: ta') ++ ts2).
      rewrite rev_app_distr. rewrite <- app_assoc. reflexivity.
    + intros Hi. pose proof (level_range a). destruct a; try discriminate; cbn [level] in *; [lia|].
      cbn [efrag] in Hfa. apply andb_true_iff in Hfa. destruct Hfa as [Hfa _]. apply andb_true_iff in Hfa.
      destruct Hfa as [Hfa _]. pose proof (binop_prec _ Hfa). lia.
    + rewrite Eu. constructor; assumption.
Qed.

Definition sfx_ok (x : sfx) : Prop :=
  match x with
  | XBin op r => is_binop (t_typ op) = true /\ efrag r = true /\ Main r
  | XCall args => forallb efrag args = true /\ Forall Main args
  end.

Lemma tk_utok : forall (op : token) t, Umatch (utok_of op) t -> tk t = op.
Proof. intros [k v] t [H1 H2]. unfold tk. cbn in *. rewrite H1, H2. reflexivity. Qed.

(* the first token of a suffix stops an operand parsed at a level at least the suffix's *)
Lemma sfx_first_stops : forall y s ts rest q,
  sfx_prec y <= q -> q <= 8 -> (match y with XBin op _ => is_binop (t_typ op) = true | XCall _ => True end) ->
  Umatches (flat_map U_sfx (y :: s)) ts -> stop q (ts ++ rest).
Proof.
  intros y s ts rest q Hq Hq8 Hy Hm. cbn [flat_map] in Hm. destruct y as [op r|args]; cbn [U_sfx] in Hm.
  - rewrite <- app_comm_cons in Hm. apply Umatches_cons in Hm. destruct Hm as (t & ts' & -> & [H1 H2] & _).
    cbn [app]. apply stop_tok. right. cbn in H1. rewrite H1. cbn [sfx_prec] in Hq. lia.
  - cbn [sfx_prec] in Hq. lia.
Qed.

Lemma infix_ok : forall s, Forall sfx_ok s -> forall up lhs pre n ts rest p c,
  1 <= pre <= 8 -> chain_ok up s -> (forall x, In x s -> pre < sfx_prec x) ->
  Umatches (flat_map U_sfx s) ts -> stop pre rest ->
  (4 * list_sum (map sfx_size s) + 8 <= n)%nat ->
  p_infix_loop inp n pre lhs (mkP p (ts ++ rest) c) =
  ROk (fold_left app_sfx s lhs) (mkP p rest (rev ts ++ c)).
Proof.
  induction s as [|x s IH]; intros Hok up lhs pre n ts rest p c Hpre Hch Hlow Hm Hs Hn.
  - cbn [flat_map] in Hm. apply Umatches_nil in Hm. subst ts. cbn [app rev fold_left].
    destruct n as [|n]; [lia|]. apply loop_stops. exact Hs.
  - inversion Hok as [|x' s' Hx Hsok]; subst.
    cbn [chain_ok] in Hch. destruct Hch as [Hup Hch].
    assert (Hpx : pre < sfx_prec x) by (apply Hlow; left; reflexivity).
    assert (Hlow' : forall y, In y s -> pre < sfx_prec y) by (intros y Hy; apply Hlow; right; exact Hy).
    cbn [flat_map] in Hm. apply Umatches_app in Hm. destruct Hm as (tx & ts' & -> & Hmx & Hms).
    cbn [map list_sum fold_right] in Hn. fold (list_sum (map sfx_size s)) in Hn.
    destruct x as [op r|args]; cbn [U_sfx sfx_prec sfx_size sfx_ok] in *.
    + (* binary operator *)
      destruct Hx as (Hbin & Hfr & HMr).
      pose proof (binop_prec _ Hbin) as Hbp.
      apply Umatches_cons in Hmx. destruct Hmx as (top & tr & -> & Hop & Hmr).
      pose proof Hop as [Ht1 Ht2]. cbn in Ht1.
      destruct n as [|n]; [lia|]. rewrite p_infix_loop_eq. rewrite <- app_assoc. cbn [app]. rewrite pk. cbn [bindP].
      rewrite (typ_is_false top ItemTerminateLine) by (rewrite Ht1; apply binop_not_semi; exact Hbin).
      rewrite Ht1. replace (pre <? tok_prec (t_typ op)) with true by (symmetry; apply Z.ltb_lt; lia).
      cbn [negb andb]. rewrite (binop_infix _ Hbin).
      destruct n as [|n]; [lia|]. rewrite p_binary_eq, nx. cbn [bindP]. rewrite Ht1.
      try rewrite <- app_assoc.
      assert (Hstop : stop (tok_prec (t_typ op)) (ts' ++ rest)).
      { destruct s as [|y s2].
        - cbn [flat_map] in Hms. apply Umatches_nil in Hms. subst ts'. cbn [app].
          apply (stop_weaken pre); [exact Hs|lia].
        - cbn [chain_ok] in Hch. destruct Hch as [Hy _].
          apply (sfx_first_stops y s2); try assumption; try lia.
          inversion Hsok as [|y' s2' Hyok _]; subst. destruct y; cbn [sfx_ok] in Hyok; [tauto|exact I]. }
      rewrite (operand r HMr (tok_prec (t_typ op)) (tok_prec (t_typ op)) n tr (ts' ++ rest) p (top :: c));
        try assumption; try lia; auto.
      cbn [bindP]. rewrite (tk_utok op top Hop).
      rewrite (IH Hsok (tok_prec (t_typ op)) (EBinary lhs r op) pre (S n) ts' rest p (rev tr ++ top :: c));
        try assumption; try lia.
      cbn [fold_left app_sfx]. f_equal. f_equal.
      change (top :: tr ++ ts') with ((top :: tr) ++ ts'). rewrite rev_app_distr. cbn [rev].
      rewrite <- !app_assoc. reflexivity.
    + (* call *)
      destruct Hx as (Hfa & HMa).
      apply Umatches_cons in Hmx. destruct Hmx as (tl & targs & -> & [Hl1 Hl2] & Hma).
      destruct n as [|n]; [lia|]. rewrite p_infix_loop_eq. rewrite <- app_assoc. cbn [app]. rewrite pk. cbn [bindP].
      rewrite (typ_is_false tl ItemTerminateLine) by (rewrite Hl1; discriminate).
      rewrite Hl1. replace (pre <? tok_prec ItemLeftParen) with true by (symmetry; apply Z.ltb_lt; cbn; uprec; lia).
      cbn [negb andb infix_of].
      destruct n as [|n]; [lia|]. rewrite p_call_eq. unfold pconsume. rewrite nx. cbn [bindP].
      rewrite (typ_is_true tl _ Hl1). cbn [bindP].
      try rewrite <- app_assoc.
      rewrite (call_args_ok args HMa n targs (ts' ++ rest) p (tl :: c)); try assumption; try lia.
      cbn [bindP].
      rewrite (IH Hsok 9 (ECall lhs args) pre (S n) ts' rest p (rev targs ++ tl :: c));
        try assumption; try lia.
      cbn [fold_left app_sfx]. f_equal. f_equal.
      change (tl :: targs ++ ts') with ((tl :: targs) ++ ts'). rewrite rev_app_distr. cbn [rev].
      rewrite <- !app_assoc. reflexivity.
Qed.

Definition sfx_frag (x : sfx) : Prop :=
  match x with
  | XBin op r => is_binop (t_typ op) = true /\ efrag r = true
  | XCall args => forallb efrag args = true
  end.

Lemma spine_frag : forall e, efrag e = true ->
  efrag (hd_expr (fst (spine e))) = true /\ Forall sfx_frag (snd (spine e)).
Proof.
  induction e; intros Hf; cbn [spine]; try (cbn [fst snd hd_expr]; split; [exact Hf|constructor]).
  - cbn [efrag] in Hf. apply andb_true_iff in Hf. destruct Hf as [Hf1 Hf2].
    destruct (8 <? level e).
    + destruct (spine e) as [h s]. cbn [fst snd] in *. destruct (IHe Hf1) as [A B].
      split; [exact A|]. apply Forall_app. split; [exact B|]. constructor; [exact Hf2|constructor].
    + cbn [fst snd hd_expr]. split; [exact Hf1|]. constructor; [exact Hf2|constructor].
  - cbn [efrag] in Hf. apply andb_true_iff in Hf. destruct Hf as [Hf Hf3].
    apply andb_true_iff in Hf. destruct Hf as [Hf1 Hf2].
    destruct (tok_prec (t_typ op) - 1 <? level e1).
    + destruct (spine e1) as [h s]. cbn [fst snd] in *. destruct (IHe1 Hf2) as [A B].
      split; [exact A|]. apply Forall_app. split; [exact B|]. constructor; [split; assumption|constructor].
    + cbn [fst snd hd_expr]. split; [exact Hf2|]. constructor; [split; assumption|constructor].
Qed.

Lemma In_sum : forall {X} (f : X -> nat) l x, In x l -> (f x <= list_sum (map f l))%nat.
Proof.
  induction l as [|y l IH]; intros x H; [destruct H|].
  cbn [map list_sum fold_right]. fold (list_sum (map f l)). destruct H as [->|H]; [lia|].
  specialize (IH x H). lia.
Qed.

Theorem main_all : forall k e, (esize e <= k)%nat -> Main e.
Proof.
  induction k as [|k IHk]; intros e Hk; [pose proof (size_pos e); lia|].
  intros pre n ts rest p c Hf Hpre Hinf Hm Hs Hn.
  pose proof (spine_tokens e) as Etok. pose proof (spine_size e) as Esz.
  pose proof (spine_rebuild e) as Ereb. pose proof (spine_chain e) as [Ech Etop].
  pose proof (spine_frag e Hf) as [Hfh Hfs].
  pose proof (spine_head_bare e) as Hbare.
  destruct (spine e) as [h s] eqn:Esp. cbn [fst snd] in *.
  rewrite Etok in Hm. apply Umatches_app in Hm. destruct Hm as (th & tss & -> & Hmh & Hms).
  (* every part of a suffix is smaller than e *)
  assert (Hsok : Forall sfx_ok s).
  { apply Forall_forall. intros x Hx. rewrite Forall_forall in Hfs. specialize (Hfs x Hx).
    pose proof (In_sum sfx_size s x Hx) as Hsz. pose proof (size_pos (hd_expr h)) as Hhp. unfold hd_size in Esz.
    destruct x as [op r|args]; cbn [sfx_frag sfx_ok sfx_size] in *.
    - destruct Hfs as [A B]. repeat split; try assumption. apply IHk. lia.
    - split; [exact Hfs|]. apply Forall_forall. intros a Ha. apply IHk.
      pose proof (In_sum esize args a Ha). lia. }
  assert (Hlow : forall x, In x s -> pre < sfx_prec x).
  { intros x Hx. pose proof (chain_lower s _ Ech x Hx) as Hl. rewrite Etop in Hl.
    assert (is_infix_node e = true).
    { destruct e; try reflexivity; cbn [spine] in Esp; inversion Esp; subst; destruct Hx. }
    specialize (Hinf H). lia. }
  assert (Hstop_s : forall q, pre <= q -> q <= 8 -> hd_level h <= q \/ s = [] -> stop q (tss ++ rest)).
  { intros q Hq Hq8 Hh. destruct s as [|y s2].
    - cbn [flat_map] in Hms. apply Umatches_nil in Hms. subst tss. cbn [app]. apply (stop_weaken pre); assumption.
    - destruct Hh as [Hh|Hh]; [|discriminate]. cbn [chain_ok] in Ech. destruct Ech as [Hy _].
      apply (sfx_first_stops y s2); try assumption; try lia.
      inversion Hfs as [|y' s2' Hyf _]; subst. destruct y; cbn [sfx_frag] in Hyf; [tauto|exact I]. }
  assert (Hfuel_s : (4 * list_sum (map sfx_size s) + 8 <= n - 1)%nat).
  { pose proof (size_pos (hd_expr h)). unfold hd_size in Esz. lia. }
  rewrite <- Ereb.
  destruct n as [|n]; [lia|]. rewrite p_expr_eq.
  destruct h as [h0|l]; cbn [U_hd hd_expr hd_level hd_size] in *.
  - (* a bare head: an atom or a unary expression *)
    specialize (Hbare h0 eq_refl).
    destruct h0; try discriminate; cbn [unparse_expr] in Hmh.
    + (* number *)
      apply Umatches_cons in Hmh. destruct Hmh as (t0 & r0 & -> & Hu & Hr0). apply Umatches_nil in Hr0. subst r0.
      cbn [app]. rewrite nx. cbn [bindP].
      destruct n as [|n]; [lia|].
      destruct Hu as [[Ht Hv]|[Ht Hv]]; rewrite Ht; cbn [prefix_of pbackup consumed prod ahead].
      * rewrite p_prefix_number_eq, nx. cbn [bindP]. rewrite Hv. cbn [bindP].
        rewrite (infix_ok s Hsok 10 _ pre (S n) tss rest p (t0 :: c)); try assumption; try lia. cbn [rev app]. rewrite <- app_assoc. reflexivity.
      * rewrite p_prefix_bool_eq, nx. cbn [bindP]. rewrite Hv. cbn [bindP].
        rewrite (infix_ok s Hsok 10 _ pre (S n) tss rest p (t0 :: c)); try assumption; try lia. cbn [rev app]. rewrite <- app_assoc. reflexivity.
    + (* string *)
      apply Umatches_cons in Hmh. destruct Hmh as (t0 & r0 & -> & [Ht Hv] & Hr0). apply Umatches_nil in Hr0. subst r0.
      cbn [app]. rewrite nx. cbn [bindP]. destruct n as [|n]; [lia|].
      rewrite Ht; cbn [prefix_of pbackup consumed prod ahead].
      rewrite p_prefix_string_eq, nx. cbn [bindP]. rewrite Hv. cbn [bindP].
      rewrite (infix_ok s Hsok 10 _ pre (S n) tss rest p (t0 :: c)); try assumption; try lia. cbn [rev app]. rewrite <- app_assoc. reflexivity.
    + (* null *)
      apply Umatches_cons in Hmh. destruct Hmh as (t0 & r0 & -> & [Ht Hv] & Hr0). apply Umatches_nil in Hr0. subst r0.
      cbn [app]. rewrite nx. cbn [bindP]. destruct n as [|n]; [lia|].
      rewrite Ht; cbn [prefix_of pbackup consumed prod ahead].
      rewrite p_prefix_null_eq, nx. cbn [bindP].
      rewrite (infix_ok s Hsok 10 _ pre (S n) tss rest p (t0 :: c)); try assumption; try lia. cbn [rev app]. rewrite <- app_assoc. reflexivity.
    + (* identifier *)
      apply Umatches_cons in Hmh. destruct Hmh as (t0 & r0 & -> & [Ht Hv] & Hr0). apply Umatches_nil in Hr0. subst r0.
      cbn [app]. rewrite nx. cbn [bindP]. destruct n as [|n]; [lia|].
      rewrite Ht; cbn [prefix_of pbackup consumed prod ahead].
      rewrite p_prefix_ident_eq, nx. cbn [bindP]. rewrite Hv. cbn [bindP].
      rewrite (infix_ok s Hsok 10 _ pre (S n) tss rest p (t0 :: c)); try assumption; try lia. cbn [rev app]. rewrite <- app_assoc. reflexivity.
    + (* unary *)
      cbn [efrag] in Hfh. apply andb_true_iff in Hfh. destruct Hfh as [Hun Hfr].
      apply Umatches_cons in Hmh. destruct Hmh as (top & tr & -> & Hop & Hmr).
      pose proof Hop as [Ht1 Ht2]. cbn in Ht1.
      cbn [app]. rewrite nx. cbn [bindP]. destruct n as [|n]; [lia|].
      assert (Epf : prefix_of (lt_typ top) = Some PfUnary) by (rewrite Ht1; destruct (t_typ op); try discriminate; reflexivity).
      rewrite Epf. cbn [pbackup consumed prod ahead].
      rewrite p_prefix_unary_eq, nx. cbn [bindP].
      assert (Eun : typ_is top LogicNot || typ_is top ItemMinus = true).
      { unfold typ_is. rewrite Ht1. destruct (t_typ op); try discriminate; reflexivity. }
      rewrite Eun. rewrite <- app_assoc.
      unfold hd_size in Esz. cbn [hd_expr esize] in Esz. unfold Prefix.
      rewrite (operand h0 (IHk h0 ltac:(lia)) 7 8 n tr (tss ++ rest) p (top :: c)); try assumption; try lia.
      * cbn [bindP]. rewrite (tk_utok op top Hop).
        rewrite (infix_ok s Hsok 8 _ pre (S n) tss rest p (rev tr ++ top :: c)); try assumption; try lia.
        f_equal. f_equal.
        change (top :: tr ++ tss) with ((top :: tr) ++ tss). rewrite rev_app_distr. cbn [rev].
        rewrite <- !app_assoc. reflexivity.
      * intros Hl Hi. destruct h0; try discriminate; cbn [level] in *; [lia|].
        cbn [efrag] in Hfr. apply andb_true_iff in Hfr. destruct Hfr as [Hfr _]. apply andb_true_iff in Hfr.
        destruct Hfr as [Hfr _]. pose proof (binop_prec _ Hfr). lia.
      * apply Hstop_s; [lia|lia|]. left. cbn [level]. lia.
  - (* a parenthesised head *)
    apply Umatches_cons in Hmh. destruct Hmh as (tl & t1 & -> & [Hl1 Hl2] & Hmh).
    apply Umatches_app in Hmh. destruct Hmh as (tr & t2 & -> & Hr & Hmh).
    apply Umatches_cons in Hmh. destruct Hmh as (trp & t3 & -> & [Hr1 Hr2] & Hmh).
    apply Umatches_nil in Hmh. subst t3.
    cbn [app]. rewrite nx. cbn [bindP]. rewrite Hl1. cbn [prefix_of pbackup consumed prod ahead].
    destruct n as [|n]; [lia|]. rewrite p_prefix_paren_eq, nx. cbn [bindP].
    rewrite <- !app_assoc. cbn [app]. unfold Lowest.
    assert (Hsz2 : (2 <= list_sum (map sfx_size s))%nat).
    { destruct s as [|y s2].
      - exfalso. pose proof (spine_paren_nonempty e l) as Hne. rewrite Esp in Hne. cbn [fst snd] in Hne.
        apply Hne; reflexivity.
      - cbn [map list_sum fold_right]. destruct y as [o r0|a0]; cbn [sfx_size]; [pose proof (size_pos r0)|]; lia. }
    unfold hd_size in Esz. cbn [hd_expr] in Esz.
    rewrite (IHk l ltac:(lia) 1 n tr (trp :: tss ++ rest) p (tl :: c)); try assumption; try lia.
    + cbn [bindP]. rewrite pk. cbn [bindP]. rewrite (typ_is_true trp _ Hr1). rewrite nx. cbn [bindP].
      rewrite (infix_ok s Hsok 10 _ pre (S n) tss rest p (trp :: rev tr ++ tl :: c)); try assumption; try lia.
      f_equal. f_equal.
      change (tl :: tr ++ trp :: tss) with ((tl :: tr) ++ trp :: tss).
      rewrite rev_app_distr. cbn [rev]. rewrite <- !app_assoc. reflexivity.
    + intros Hi. pose proof (level_range l). destruct l; try discriminate; cbn [level] in *; [lia|].
      cbn [efrag] in Hfh. apply andb_true_iff in Hfh. destruct Hfh as [Hfh _]. apply andb_true_iff in Hfh.
      destruct Hfh as [Hfh _]. pose proof (binop_prec _ Hfh). lia.
    + apply stop_tok. right. rewrite Hr1. cbn. uprec. lia.
Qed.

End RT.

(* ---- simple statements and flat programs ---- *)
Section RT2.
Variable inp : input.

Lemma p_rows_eq : forall n acc ps, p_rows inp (S n) acc ps =
  pb (t, s) <- ppeek inp ps;
  if typ_is t ItemEOF then ROk (Block acc) s
  else pb (x, s) <- p_statement inp n s; p_rows inp n (block_append acc x) s.
Proof. reflexivity. Qed.
Lemma p_let_eq : forall n ps, p_let inp (S n) ps =
  pb (_, s) <- pnext inp ps;
  pb (id, s) <- pconsume inp ItemIdentifier s;
  pb (_, s) <- pconsume inp ItemAssign s;
  pb (e, s) <- p_expr inp n Lowest s;
  ROk (SLet (tk id) e) s.
Proof. reflexivity. Qed.
Lemma p_assign_eq : forall n ps, p_assign inp (S n) ps =
  pb (id, s) <- pconsume inp ItemIdentifier ps;
  pb (_, s) <- pconsume inp ItemAssign s;
  pb (e, s) <- p_expr inp n Lowest s;
  ROk (SAssign (tk id) e) s.
Proof. reflexivity. Qed.
Lemma p_return_eq : forall n ps, p_return inp (S n) ps =
  pb (_, s) <- pnext inp ps;
  pb (e, s) <- p_expr inp n Lowest s;
  ROk (SReturn e) s.
Proof. reflexivity. Qed.
Lemma p_ctrl_eq : forall n ps, p_ctrl inp (S n) ps =
  pb (t, s) <- pnext inp ps;
  match lt_typ t with
  | KeywordBreak => ROk (SCtrl CtrlBreak) s
  | KeywordContinue => ROk (SCtrl CtrlContinue) s
  | KeywordFallthrough => ROk (SCtrl CtrlFallthrough) s
  | _ => RErr s
  end.
Proof. reflexivity. Qed.

(* parseStatement on the statement forms that end in ';' *)
Definition semi_tail {X} (r : PR X) : PR X :=
  pb (x, s) <- r; pb (_, s) <- pconsume inp ItemTerminateLine s; ROk x s.
Lemma p_statement_default : forall n ps t s, ppeek inp ps = ROk t s ->
  match lt_typ t with
  | KeywordBreak | KeywordFallthrough | KeywordContinue | KeywordLet | KeywordReturn | KeywordIf
  | KeywordSwitch | KeywordFn | KeywordWhile | KeywordFor | ItemLeftBrace | ItemIdentifier => False
  | _ => True
  end ->
  p_statement inp (S n) ps = semi_tail (pb (x, s) <- p_expr inp n Lowest s; ROk (NExpr x) s).
Proof.
  intros n ps t s E H. unfold semi_tail. simpl. unfold ppeek in E. unfold ppeek.
  destruct (pnext inp ps) as [t0 s0| | |]; cbn [bindP] in *; try discriminate.
  inversion E; subst. destruct (lt_typ t); try contradiction; reflexivity.
Qed.
Lemma p_statement_ident : forall n ps t s, ppeek inp ps = ROk t s -> lt_typ t = ItemIdentifier ->
  p_statement inp (S n) ps =
  pb (_, s) <- pnext inp s;
  pb (x, s) <- ppeek inp s;
  if typ_is x ItemAssign
  then semi_tail (pb (x, s) <- p_assign inp n (pbackup s); ROk (NStmt x) s)
  else semi_tail (pb (x, s) <- p_expr inp n Lowest (pbackup s); ROk (NExpr x) s).
Proof.
  intros n ps t s E H. unfold semi_tail. simpl. unfold ppeek in E. unfold ppeek.
  destruct (pnext inp ps) as [t0 s0| | |]; cbn [bindP] in *; try discriminate.
  inversion E; subst. rewrite H. reflexivity.
Qed.
Lemma p_statement_let : forall n ps t s, ppeek inp ps = ROk t s -> lt_typ t = KeywordLet ->
  p_statement inp (S n) ps = semi_tail (pb (x, s) <- p_let inp n s; ROk (NStmt x) s).
Proof.
  intros n ps t s E H. unfold semi_tail. simpl. unfold ppeek in E. unfold ppeek.
  destruct (pnext inp ps) as [t0 s0| | |]; cbn [bindP] in *; try discriminate.
  inversion E; subst. rewrite H. reflexivity.
Qed.
Lemma p_statement_return : forall n ps t s, ppeek inp ps = ROk t s -> lt_typ t = KeywordReturn ->
  p_statement inp (S n) ps = semi_tail (pb (x, s) <- p_return inp n s; ROk (NStmt x) s).
Proof.
  intros n ps t s E H. unfold semi_tail. simpl. unfold ppeek in E. unfold ppeek.
  destruct (pnext inp ps) as [t0 s0| | |]; cbn [bindP] in *; try discriminate.
  inversion E; subst. rewrite H. reflexivity.
Qed.
Lemma p_statement_ctrl : forall n ps t s, ppeek inp ps = ROk t s ->
  (lt_typ t = KeywordBreak \/ lt_typ t = KeywordContinue \/ lt_typ t = KeywordFallthrough) ->
  p_statement inp (S n) ps = semi_tail (pb (x, s) <- p_ctrl inp n s; ROk (NStmt x) s).
Proof.
  intros n ps t s E H. unfold semi_tail. simpl. unfold ppeek in E. unfold ppeek.
  destruct (pnext inp ps) as [t0 s0| | |]; cbn [bindP] in *; try discriminate.
  inversion E; subst. destruct H as [H|[H|H]]; rewrite H; reflexivity.
Qed.

Ltac rv := cbn [rev]; repeat rewrite rev_app_distr; cbn [rev app]; repeat rewrite <- app_assoc; cbn [app]; reflexivity.

Lemma efrag_main : forall e, Main inp e.
Proof. intros e. apply (main_all inp (esize e)). lia. Qed.

Lemma infix_level_gt1 : forall e, efrag e = true -> is_infix_node e = true -> 1 < level e.
Proof.
  intros e Hf Hi. destruct e; try discriminate; cbn [level]; [lia|].
  cbn [efrag] in Hf. apply andb_true_iff in Hf. destruct Hf as [Hf _]. apply andb_true_iff in Hf.
  destruct Hf as [Hf _]. pose proof (binop_prec _ Hf). lia.
Qed.

Lemma efrag_not_fn : forall e, efrag e = true -> starts_fn e = false.
Proof.
  induction e; intros Hf; try discriminate; try reflexivity.
  - cbn [efrag] in Hf. apply andb_true_iff in Hf. destruct Hf as [Hf _].
    cbn [starts_fn]. destruct (8 <? level e); [apply IHe; exact Hf|reflexivity].
  - cbn [efrag] in Hf. apply andb_true_iff in Hf. destruct Hf as [Hf _]. apply andb_true_iff in Hf. destruct Hf as [_ Hf].
    cbn [starts_fn]. destruct (tok_prec (t_typ op) - 1 <? level e1); [apply IHe1; exact Hf|reflexivity].
Qed.

(* an expression of the fragment followed by ';' *)
Lemma expr_semi : forall e n te tq rest p c,
  efrag e = true -> Umatches (unparse_expr e) te -> lt_typ tq = ItemTerminateLine ->
  (4 * esize e + 8 <= n)%nat ->
  p_expr inp n Lowest (mkP p (te ++ tq :: rest) c) = ROk e (mkP p (tq :: rest) (rev te ++ c)).
Proof.
  intros e n te tq rest p c Hf Hm Hq Hn. unfold Lowest.
  apply (efrag_main e); try assumption; try lia.
  - intros Hi. apply infix_level_gt1; assumption.
  - apply stop_tok. left. exact Hq.
Qed.

(* after a leading identifier of an expression statement the next token is not '=' *)
Lemma second_not_assign : forall e t1 ts' tq rest,
  efrag e = true -> Umatches (unparse_expr e) (t1 :: ts') -> lt_typ t1 = ItemIdentifier ->
  lt_typ tq <> ItemAssign ->
  exists t2 r2, ts' ++ tq :: rest = t2 :: r2 /\ lt_typ t2 <> ItemAssign.
Proof.
  intros e t1 ts' tq rest Hf Hm H1 Hq.
  pose proof (spine_tokens e) as Etok. pose proof (spine_frag e Hf) as [Hfh Hfs].
  pose proof (spine_head_bare e) as Hbare.
  destruct (spine e) as [h s]. cbn [fst snd] in *. rewrite Etok in Hm.
  destruct h as [h0|l]; cbn [U_hd hd_expr] in *.
  - specialize (Hbare h0 eq_refl). destruct h0; try discriminate; cbn [unparse_expr app] in Hm.
    + apply Umatches_cons in Hm. destruct Hm as (t & r & E & [[A _]|[A _]] & _); inversion E; subst; congruence.
    + apply Umatches_cons in Hm. destruct Hm as (t & r & E & [A _] & _); inversion E; subst; congruence.
    + apply Umatches_cons in Hm. destruct Hm as (t & r & E & [A _] & _); inversion E; subst; congruence.
    + apply Umatches_cons in Hm. destruct Hm as (t & r & E & _ & Hm). inversion E; subst.
      destruct s as [|y s2].
      * cbn [flat_map] in Hm. apply Umatches_nil in Hm. subst. cbn [app]. eexists _, _. split; [reflexivity|]. exact Hq.
      * inversion Hfs as [|y' s2' Hy _]; subst. cbn [flat_map] in Hm.
        destruct y as [op r0|args]; cbn [U_sfx sfx_frag] in *.
        -- rewrite <- app_comm_cons in Hm. apply Umatches_cons in Hm. destruct Hm as (t2 & r2 & -> & [A _] & _).
           cbn [app]. eexists _, _. split; [reflexivity|]. cbn in A. rewrite A. destruct Hy as [Hy _].
           intro E2. rewrite E2 in Hy. discriminate.
        -- rewrite <- app_comm_cons in Hm. apply Umatches_cons in Hm. destruct Hm as (t2 & r2 & -> & [A _] & _).
           cbn [app]. eexists _, _. split; [reflexivity|]. rewrite A. discriminate.
    + cbn [efrag] in Hfh. apply andb_true_iff in Hfh. destruct Hfh as [Hun _].
      try rewrite <- app_comm_cons in Hm.
      apply Umatches_cons in Hm. destruct Hm as (t & r & E & [A _] & _). inversion E; subst. cbn in A.
      rewrite H1 in A. rewrite <- A in Hun. discriminate.
  - try rewrite <- app_comm_cons in Hm.
    apply Umatches_cons in Hm. destruct Hm as (t & r & E & [A _] & _). inversion E; subst. congruence.
Qed.

Definition simple_stmt (x : node) : Prop :=
  match x with
  | NExpr e => efrag e = true
  | NStmt (SLet id e) | NStmt (SAssign id e) => t_typ id = ItemIdentifier /\ efrag e = true
  | NStmt (SReturn e) => efrag e = true
  | NStmt (SCtrl c) => c <> InvalidCtrl
  | _ => False
  end.
Definition nsize (x : node) : nat :=
  match x with
  | NExpr e | NStmt (SLet _ e) | NStmt (SAssign _ e) | NStmt (SReturn e) => esize e
  | _ => 1
  end.

Lemma consume_ok : forall k p t r c, lt_typ t = k ->
  pconsume inp k (mkP p (t :: r) c) = ROk t (mkP p r (t :: c)).
Proof. intros. unfold pconsume. rewrite nx. cbn [bindP]. rewrite (typ_is_true t k H). reflexivity. Qed.

Lemma node_ok : forall x n ts rest p c,
  simple_stmt x -> Umatches (unparse_node x) ts -> (4 * nsize x + 16 <= n)%nat ->
  p_statement inp n (mkP p (ts ++ rest) c) = ROk x (mkP p rest (rev ts ++ c)).
Proof.
  intros x n ts rest p c Hs Hm Hn. destruct n as [|n]; [lia|].
  destruct x as [e|st]; cbn [simple_stmt nsize] in *.
  - (* expression statement *)
    cbn [unparse_node] in Hm. rewrite (efrag_not_fn e Hs) in Hm.
    apply Umatches_app in Hm. destruct Hm as (te & tq0 & -> & Hme & Hmq).
    apply Umatches_cons in Hmq. destruct Hmq as (tq & r0 & -> & [Hq _] & Hr0). apply Umatches_nil in Hr0. subst r0.
    destruct (U_starts_strong e Hs) as (u & us & Eu & Hu).
    pose proof Hme as Hme'. rewrite Eu in Hme'. apply Umatches_cons in Hme'.
    destruct Hme' as (t1 & te' & -> & Hu1 & _). specialize (Hu t1 Hu1).
    rewrite <- app_assoc. cbn [app].
    destruct (toktype_eqb (lt_typ t1) ItemIdentifier) eqn:Eid.
    + assert (Hid : lt_typ t1 = ItemIdentifier).
      { unfold toktype_eqb in Eid. apply Z.eqb_eq in Eid. destruct (lt_typ t1); cbn in Eid; try discriminate; reflexivity. }
      rewrite (p_statement_ident n _ t1 _ (pk inp p t1 _ c) Hid). rewrite nx. cbn [bindP].
      destruct (second_not_assign e t1 te' tq rest Hs Hme Hid ltac:(rewrite Hq; discriminate)) as (t2 & r2 & E2 & Hna).
      rewrite E2. rewrite pk. cbn [bindP]. rewrite (typ_is_false t2 _ Hna).
      cbn [pbackup consumed prod ahead]. rewrite <- E2. unfold semi_tail.
      change (t1 :: te' ++ tq :: rest) with ((t1 :: te') ++ tq :: rest).
      rewrite (expr_semi e n (t1 :: te') tq rest p c Hs Hme Hq ltac:(lia)). cbn [bindP].
      rewrite (consume_ok _ p tq rest _ Hq). cbn [bindP]. f_equal. f_equal.
      rv.
    + rewrite (p_statement_default n _ t1 _ (pk inp p t1 _ c)).
      * unfold semi_tail. change (t1 :: te' ++ tq :: rest) with ((t1 :: te') ++ tq :: rest).
        rewrite (expr_semi e n (t1 :: te') tq rest p c Hs Hme Hq ltac:(lia)). cbn [bindP].
        rewrite (consume_ok _ p tq rest _ Hq). cbn [bindP]. f_equal. f_equal.
        rv.
      * destruct (lt_typ t1); try discriminate; exact I.
  - destruct st; try contradiction; cbn [unparse_node unparse_stmt] in Hm.
    + (* assignment *)
      destruct Hs as [Hid Hf].
      rewrite <- !app_comm_cons in Hm.
      apply Umatches_cons in Hm. destruct Hm as (t1 & r1 & -> & H1 & Hm).
      apply Umatches_cons in Hm. destruct Hm as (t2 & r2 & -> & [H2 _] & Hm).
      apply Umatches_app in Hm. destruct Hm as (te & tq0 & -> & Hme & Hmq).
      apply Umatches_cons in Hmq. destruct Hmq as (tq & r0 & -> & [Hq _] & Hr0). apply Umatches_nil in Hr0. subst r0.
      pose proof H1 as [H1a _]. cbn in H1a. rewrite Hid in H1a.
      cbn [app].
      rewrite (p_statement_ident n _ t1 _ (pk inp p t1 _ c) H1a). rewrite nx. cbn [bindP].
      rewrite pk. cbn [bindP]. rewrite (typ_is_true t2 _ H2). cbn [pbackup consumed prod ahead].
      unfold semi_tail. destruct n as [|n]; [lia|]. rewrite p_assign_eq.
      rewrite (consume_ok _ p t1 _ c H1a). cbn [bindP]. rewrite (consume_ok _ p t2 _ _ H2). cbn [bindP].
      rewrite <- app_assoc. cbn [app].
      rewrite (expr_semi v n te tq rest p (t2 :: t1 :: c) Hf Hme Hq ltac:(lia)). cbn [bindP].
      rewrite (consume_ok _ p tq rest _ Hq). cbn [bindP]. rewrite (tk_utok id t1 H1). f_equal. f_equal.
      rv.
    + (* let *)
      destruct Hs as [Hid Hf].
      rewrite <- !app_comm_cons in Hm.
      apply Umatches_cons in Hm. destruct Hm as (t0 & r0' & -> & [H0 _] & Hm).
      apply Umatches_cons in Hm. destruct Hm as (t1 & r1 & -> & H1 & Hm).
      apply Umatches_cons in Hm. destruct Hm as (t2 & r2 & -> & [H2 _] & Hm).
      apply Umatches_app in Hm. destruct Hm as (te & tq0 & -> & Hme & Hmq).
      apply Umatches_cons in Hmq. destruct Hmq as (tq & r0 & -> & [Hq _] & Hr0). apply Umatches_nil in Hr0. subst r0.
      pose proof H1 as [H1a _]. cbn in H1a. rewrite Hid in H1a.
      cbn [app].
      rewrite (p_statement_let n _ t0 _ (pk inp p t0 _ c) H0).
      unfold semi_tail. destruct n as [|n]; [lia|]. rewrite p_let_eq. rewrite nx. cbn [bindP].
      rewrite (consume_ok _ p t1 _ _ H1a). cbn [bindP]. rewrite (consume_ok _ p t2 _ _ H2). cbn [bindP].
      rewrite <- app_assoc. cbn [app].
      rewrite (expr_semi v n te tq rest p (t2 :: t1 :: t0 :: c) Hf Hme Hq ltac:(lia)). cbn [bindP].
      rewrite (consume_ok _ p tq rest _ Hq). cbn [bindP]. rewrite (tk_utok id t1 H1). f_equal. f_equal.
      rv.
    + (* return *)
      rewrite <- !app_comm_cons in Hm.
      apply Umatches_cons in Hm. destruct Hm as (t0 & r0' & -> & [H0 _] & Hm).
      apply Umatches_app in Hm. destruct Hm as (te & tq0 & -> & Hme & Hmq).
      apply Umatches_cons in Hmq. destruct Hmq as (tq & r0 & -> & [Hq _] & Hr0). apply Umatches_nil in Hr0. subst r0.
      cbn [app].
      rewrite (p_statement_return n _ t0 _ (pk inp p t0 _ c) H0).
      unfold semi_tail. destruct n as [|n]; [lia|]. rewrite p_return_eq. rewrite nx. cbn [bindP].
      rewrite <- app_assoc. cbn [app].
      rewrite (expr_semi v n te tq rest p (t0 :: c) Hs Hme Hq ltac:(lia)). cbn [bindP].
      rewrite (consume_ok _ p tq rest _ Hq). cbn [bindP]. f_equal. f_equal.
      rv.
    + (* break / continue / fallthrough *)
      destruct t; try contradiction; cbn [ctrl_tok app] in Hm;
      apply Umatches_cons in Hm; destruct Hm as (t0 & r0' & -> & [H0 _] & Hm);
      apply Umatches_cons in Hm; destruct Hm as (tq & r0 & -> & [Hq _] & Hr0); apply Umatches_nil in Hr0; subst r0;
      cbn [app];
      rewrite (p_statement_ctrl n _ t0 _ (pk inp p t0 _ c)) by (rewrite H0; auto);
      unfold semi_tail; (destruct n as [|n]; [lia|]); rewrite p_ctrl_eq, nx; cbn [bindP]; rewrite H0; cbn [bindP];
      rewrite (consume_ok _ p tq rest _ Hq); reflexivity.
Qed.

Lemma node_first : forall x, simple_stmt x ->
  exists u us, unparse_node x = u :: us /\ forall t, Umatch u t -> lt_typ t <> ItemEOF.
Proof.
  intros x Hs. destruct x as [e|st]; cbn [simple_stmt] in Hs.
  - cbn [unparse_node]. rewrite (efrag_not_fn e Hs).
    destruct (U_starts_strong e Hs) as (u & us & E & H). rewrite E. eexists _, _. split; [reflexivity|].
    intros t Hm. specialize (H t Hm). destruct (lt_typ t); discriminate.
  - destruct st; try contradiction; cbn [unparse_node unparse_stmt].
    + destruct Hs as [Hid _]. eexists _, _. split; [reflexivity|]. intros t [A _]. cbn in A. rewrite A, Hid. discriminate.
    + eexists _, _. split; [reflexivity|]. intros t [A _]. rewrite A. discriminate.
    + eexists _, _. split; [reflexivity|]. intros t [A _]. rewrite A. discriminate.
    + destruct t; try contradiction; cbn [ctrl_tok app]; eexists _, _; (split; [reflexivity|]);
      intros t0 [A _]; rewrite A; discriminate.
Qed.

Lemma rows_ok : forall nodes acc n ts teof rest p c,
  Forall simple_stmt nodes -> Umatches (flat_map unparse_node nodes) ts -> lt_typ teof = ItemEOF ->
  (4 * list_sum (map nsize nodes) + 17 + List.length nodes <= n)%nat ->
  p_rows inp n acc (mkP p (ts ++ teof :: rest) c) =
  ROk (Block (acc ++ nodes)) (mkP p (teof :: rest) (rev ts ++ c)).
Proof.
  induction nodes as [|x nodes IH]; intros acc n ts teof rest p c Hs Hm He Hn.
  - cbn [flat_map] in Hm. apply Umatches_nil in Hm. subst ts. cbn [app rev].
    destruct n as [|n]; [lia|]. rewrite p_rows_eq, pk. cbn [bindP]. rewrite (typ_is_true teof _ He).
    rewrite app_nil_r. reflexivity.
  - inversion Hs as [|x' n' Hx Hns]; subst.
    cbn [flat_map] in Hm. apply Umatches_app in Hm. destruct Hm as (tx & ts' & -> & Hmx & Hms).
    cbn [map list_sum fold_right List.length] in Hn. fold (list_sum (map nsize nodes)) in Hn.
    destruct (node_first x Hx) as (u & us & Eu & Hu).
    pose proof Hmx as Hmx'. rewrite Eu in Hmx'. apply Umatches_cons in Hmx'.
    destruct Hmx' as (t1 & tx' & Etx & Hu1 & _). specialize (Hu t1 Hu1).
    destruct n as [|n]; [lia|]. rewrite p_rows_eq. rewrite <- app_assoc.
    rewrite Etx at 1. cbn [app]. rewrite pk. cbn [bindP]. rewrite (typ_is_false t1 _ Hu).
    change (t1 :: tx' ++ ts' ++ teof :: rest) with ((t1 :: tx') ++ ts' ++ teof :: rest). rewrite <- Etx.
    rewrite (node_ok x n tx (ts' ++ teof :: rest) p c Hx Hmx ltac:(lia)). cbn [bindP].
    rewrite (IH (block_append acc x) n ts' teof rest p (rev tx ++ c) Hns Hms He ltac:(lia)).
    unfold block_append. f_equal; [rewrite <- app_assoc; reflexivity|]. f_equal.
    rewrite rev_app_distr. rewrite <- app_assoc. reflexivity.
Qed.

End RT2.
