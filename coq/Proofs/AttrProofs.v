(* Proofs about Model/Attr.v for property C07 (all at the binary64 level). *)
From Coq Require Import List ZArith Bool Lia.
From SR Require Import Base.FloatFactsAttr Model.Attr.
From Coq Require Import Floats.
Import ListNotations.
Open Scope Z_scope.

(* ------------------------------------------------------------------------------------ *)
(* Hypotheses of the property: a valid start, finite amounts, positive finite max HP     *)
(* ------------------------------------------------------------------------------------ *)

Definition env_ok (e : env) : Prop :=
  finite (e_maxHP e) /\ ltb 0 (e_maxHP e) = true /\
  finite (e_regen e) /\ finite (e_bonus e).

Definition op_ok (o : op) : Prop :=
  match o with
  | OAdd _ hp en me stc ms =>
      leb hp 1 = true /\ leb 0 en = true /\ leb 0 me = true /\ finite me /\
      leb 0 stc = true /\ leb stc ms = true /\ finite ms
  | OSetHP c a _ | OModHPAmount c a _ | OSetStance c a | OModStance c a
  | OSetEnergy c a | OModEnergy c a | OModEnergyFixed c a => env_ok (c_env c) /\ finite a
  | OModHPRatio c r _ f _ => env_ok (c_env c) /\ finite r /\ finite f
  | OModSP _ _ _ => True
  end.

(* the ranges of the property *)
Definition unit_ok (u : unit_) : Prop :=
  leb 0 (u_hp u) = true /\ leb (u_hp u) 1 = true /\
  leb 0 (u_energy u) = true /\ leb (u_energy u) (u_maxEnergy u) = true /\
  leb 0 (u_maxEnergy u) = true /\ finite (u_maxEnergy u) /\
  leb 0 (u_stance u) = true /\ leb (u_stance u) (u_maxStance u) = true /\
  leb 0 (u_maxStance u) = true /\ finite (u_maxStance u).

Definition state_ok (s : state) : Prop :=
  Forall (fun p => unit_ok (snd p)) (units s) /\ 0 <= sp s <= 5.

(* ------------------------------------------------------------------------------------ *)
(* Observations on event lists                                                           *)
(* ------------------------------------------------------------------------------------ *)

Inductive quantity := QHP | QEnergy | QStance.

Definition qval (q : quantity) (u : unit_) : float :=
  match q with QHP => u_hp u | QEnergy => u_energy u | QStance => u_stance u end.

(* (old, new) of a change event of quantity q for unit id *)
Definition q_ev (q : quantity) (id : Z) (e : ev) : list (float * float) :=
  match q, e with
  | QHP, EHP _ t o n _ _ _ => if t =? id then [(o, n)] else []
  | QEnergy, EEnergy _ t _ o n => if t =? id then [(o, n)] else []
  | QStance, EStance _ t _ o n => if t =? id then [(o, n)] else []
  | _, _ => []
  end.
Definition q_evs (q : quantity) (id : Z) (evs : list ev) : list (float * float) :=
  flat_map (q_ev q id) evs.

Definition sp_ev (e : ev) : list (Z * Z) :=
  match e with ESP _ _ o n => [(o, n)] | _ => [] end.
Definition sp_evs (evs : list ev) : list (Z * Z) := flat_map sp_ev evs.

Definition is_break (id : Z) (e : ev) : bool :=
  match e with EBreak _ t _ => t =? id | _ => false end.
Definition is_reset (id : Z) (e : ev) : bool :=
  match e with EReset _ t => t =? id | _ => false end.
Definition n_break (id : Z) (evs : list ev) : nat := length (filter (is_break id) evs).
Definition n_reset (id : Z) (evs : list ev) : nat := length (filter (is_reset id) evs).

Definition b2n (b : bool) : nat := if b then 1%nat else 0%nat.

(* exactly one event (old = x, new = x') when the value changed, none when it did not *)
Definition report (x x' : float) : list (float * float) :=
  if eqb x x' then [] else [(x, x')].
Definition report_sp (x x' : Z) : list (Z * Z) :=
  if x =? x' then [] else [(x, x')].

(* what one call must report, for every unit id *)
Definition step_report (s s' : state) (evs : list ev) : Prop :=
  (forall id u, find_unit id (units s) = Some u ->
     exists u', find_unit id (units s') = Some u' /\
       (forall q, q_evs q id evs = report (qval q u) (qval q u')) /\
       (* break: the stance reaches zero from a positive value; reset: it leaves zero *)
       n_break id evs = b2n (ltb 0 (u_stance u) && eqb (u_stance u') 0) /\
       n_reset id evs = b2n (eqb (u_stance u) 0 && ltb 0 (u_stance u'))) /\
  (forall id, find_unit id (units s) = None ->
     (forall q, q_evs q id evs = []) /\ n_break id evs = 0%nat /\ n_reset id evs = 0%nat) /\
  sp_evs evs = report_sp (sp s) (sp s').

(* ------------------------------------------------------------------------------------ *)
(* The unit table                                                                        *)
(* ------------------------------------------------------------------------------------ *)

Lemma find_set_unit t u' us id :
  find_unit id (set_unit t u' us) =
  if id =? t then match find_unit t us with Some _ => Some u' | None => None end
  else find_unit id us.
Proof.
  induction us as [|[k v] r IH]; cbn [set_unit find_unit].
  - destruct (id =? t); reflexivity.
  - destruct (Z.eqb_spec k t) as [Ekt|Ekt]; cbn [find_unit].
    + subst k. destruct (Z.eqb_spec id t) as [Eit|Eit].
      * subst id. rewrite Z.eqb_refl. reflexivity.
      * destruct (Z.eqb_spec t id); [congruence | reflexivity].
    + destruct (Z.eqb_spec k id) as [Eki|Eki].
      * subst k. destruct (Z.eqb_spec id t); [congruence | reflexivity].
      * exact IH.
Qed.

Lemma find_app_unit us id k v :
  find_unit id (us ++ [(k, v)]) =
  match find_unit id us with Some u => Some u | None => if k =? id then Some v else None end.
Proof.
  induction us as [|[k' v'] r IH]; cbn [app find_unit].
  - reflexivity.
  - destruct (k' =? id); [reflexivity | exact IH].
Qed.

Lemma set_unit_ok t u' us :
  unit_ok u' -> Forall (fun p => unit_ok (snd p)) us ->
  Forall (fun p => unit_ok (snd p)) (set_unit t u' us).
Proof.
  intros Hu H. induction H as [|[k v] r Hv Hr IH]; cbn [set_unit]; [constructor|].
  destruct (k =? t); constructor; auto.
Qed.

Lemma find_unit_ok id us u :
  Forall (fun p => unit_ok (snd p)) us -> find_unit id us = Some u -> unit_ok u.
Proof.
  intros H. induction H as [|[k v] r Hv Hr IH]; cbn [find_unit]; [discriminate|].
  destruct (k =? id); [intros E; inversion E; subst; exact Hv | exact IH].
Qed.

(* ------------------------------------------------------------------------------------ *)
(* Clamps and the computed amounts                                                       *)
(* ------------------------------------------------------------------------------------ *)

Lemma clampTo_range hi x :
  nn x -> leb 0 hi = true -> leb 0 (clampTo hi x) = true /\ leb (clampTo hi x) hi = true.
Proof. exact (fclamp_range hi x). Qed.

Lemma unit_finite u : unit_ok u ->
  finite (u_hp u) /\ finite (u_energy u) /\ finite (u_stance u).
Proof.
  intros (H1 & H2 & H3 & H4 & H4' & H5 & H6 & H7 & H7' & H8).
  repeat split.
  - eapply finite_of_range; eauto. exact finite_one.
  - eapply finite_of_range; eauto.
  - eapply finite_of_range; eauto.
Qed.

Lemma unit_nn u q : unit_ok u -> nn (qval q u).
Proof.
  intros H. destruct (unit_finite u H) as (A & B & C).
  destruct q; apply finite_nn; assumption.
Qed.

Lemma new_hp_set_range maxHP a :
  finite maxHP -> ltb 0 maxHP = true -> finite a ->
  leb 0 (new_hp_set maxHP a) = true /\ leb (new_hp_set maxHP a) 1 = true.
Proof.
  intros Fm Pm Fa. apply clampTo_range; [|exact leb_zero_one].
  apply div_nn_finite_pos; auto. apply finite_nn, Fa.
Qed.

Lemma new_hp_amount_range maxHP cur a :
  finite maxHP -> ltb 0 maxHP = true -> finite cur -> finite a ->
  leb 0 (new_hp_amount maxHP cur a) = true /\ leb (new_hp_amount maxHP cur a) 1 = true.
Proof.
  intros Fm Pm Fc Fa. apply clampTo_range; [|exact leb_zero_one].
  apply div_nn_finite_pos; auto.
  apply add_nn_finite; auto. apply mul_finite_nn; auto.
Qed.

Lemma hp_ratio_raw_nn cur ratio rtype : finite cur -> finite ratio -> nn (hp_ratio_raw cur ratio rtype).
Proof.
  intros Fc Fr. unfold hp_ratio_raw. destruct (rtype =? 2).
  - apply add_finite_nn; auto. apply mul_finite_nn; auto.
  - apply add_finite_nn; auto. apply finite_nn, Fr.
Qed.

Lemma new_hp_ratio_range maxHP cur ratio rtype floor :
  finite maxHP -> ltb 0 maxHP = true -> finite cur -> finite ratio -> finite floor ->
  leb 0 (new_hp_ratio maxHP cur ratio rtype floor) = true /\
  leb (new_hp_ratio maxHP cur ratio rtype floor) 1 = true.
Proof.
  intros Fm Pm Fc Fr Ff. apply clampTo_range; [|exact leb_zero_one].
  destruct (ltb (hp_ratio_raw cur ratio rtype * maxHP) floor).
  - apply div_nn_finite_pos; auto. apply finite_nn, Ff.
  - apply hp_ratio_raw_nn; auto.
Qed.

Lemma scaled_nn cur a k : finite cur -> finite a -> finite k -> nn (cur + a * (1 + k)).
Proof. intros. apply add_finite_nn; auto. apply mul_finite_nn; auto. apply add_one_finite; auto. Qed.

(* ------------------------------------------------------------------------------------ *)
(* One call on one unit                                                                  *)
(* ------------------------------------------------------------------------------------ *)

Definition ustep_spec (t : Z) (u u' : unit_) (evs : list ev) : Prop :=
  unit_ok u' /\
  (forall q, q_evs q t evs = report (qval q u) (qval q u')) /\
  (forall id q, id <> t -> q_evs q id evs = []) /\
  n_break t evs = b2n (ltb 0 (u_stance u) && eqb (u_stance u') 0) /\
  n_reset t evs = b2n (eqb (u_stance u) 0 && ltb 0 (u_stance u')) /\
  (forall id, id <> t -> n_break id evs = 0%nat /\ n_reset id evs = 0%nat) /\
  sp_evs evs = [].

Lemma report_same x : nn x -> report x x = [].
Proof. intros N. unfold report. rewrite (eqb_refl x N). reflexivity. Qed.

(* a stance that did not change announces neither a break nor a reset *)
Lemma no_break_same x : leb 0 x = true -> finite x ->
  ltb 0 x && eqb x 0 = false /\ eqb x 0 && ltb 0 x = false.
Proof.
  intros H F. destruct (eqb x 0) eqn:E.
  - rewrite (eqb_zero_not_pos x E). split; reflexivity.
  - split; [apply andb_false_r | reflexivity].
Qed.

Lemma neqb_other t id : id <> t -> (t =? id) = false.
Proof. intros H. apply Z.eqb_neq. congruence. Qed.

Ltac split_spec :=
  unfold ustep_spec; refine (conj _ (conj _ (conj _ (conj _ (conj _ (conj _ _)))))).

Lemma do_hp_spec c u newR dmg :
  unit_ok u -> leb 0 newR = true -> leb newR 1 = true ->
  ustep_spec (c_target c) u (fst (do_hp c u newR dmg)) (snd (do_hp c u newR dmg)).
Proof.
  intros Hu H0 H1.
  pose proof Hu as (A1 & A2 & A3 & A4 & Hme & A5 & A6 & A7 & Hms & A8).
  destruct (unit_finite u Hu) as (Fh & Fe & Fs).
  destruct (no_break_same (u_stance u) A6 Fs) as [NB NR].
  assert (OK : forall st la, unit_ok (mkUnit newR (u_energy u) (u_maxEnergy u) (u_stance u) (u_maxStance u) st la)).
  { intros. unfold unit_ok; cbn. repeat split; auto. }
  unfold do_hp, emit_hp.
  destruct (eqb (u_hp u) newR) eqn:E.
  - (* no event *)
    cbn [fst snd]. split_spec.
    + apply OK.
    + intros q. destruct q; cbn [q_evs flat_map qval set_hp u_hp u_energy u_stance]; unfold report.
      * rewrite E. reflexivity.
      * rewrite (eqb_refl _ (finite_nn _ Fe)). reflexivity.
      * rewrite (eqb_refl _ (finite_nn _ Fs)). reflexivity.
    + reflexivity.
    + cbn. rewrite NB. reflexivity.
    + cbn. rewrite NR. reflexivity.
    + intros; split; reflexivity.
    + reflexivity.
  - (* one HPChange, possibly followed by LimboWaitHeal *)
    assert (Q : forall u' tail, u_hp u' = newR -> u_energy u' = u_energy u -> u_stance u' = u_stance u ->
                (forall q id, q_evs q id tail = []) ->
                forall q, q_evs q (c_target c)
                  (EHP (c_key c) (c_target c) (u_hp u) newR (e_maxHP (c_env c) * u_hp u) (e_maxHP (c_env c) * newR) dmg :: tail)
                  = report (qval q u) (qval q u')).
    { intros u' tail E1 E2 E3 T q. unfold q_evs. cbn [flat_map]. fold (q_evs q (c_target c) tail). rewrite T.
      destruct q; cbn [q_ev qval]; rewrite ?E1, ?E2, ?E3; unfold report.
      - rewrite Z.eqb_refl, E. reflexivity.
      - rewrite (eqb_refl _ (finite_nn _ Fe)). reflexivity.
      - rewrite (eqb_refl _ (finite_nn _ Fs)). reflexivity. }
    destruct dmg; cbn [u_state set_last set_hp]; destruct (u_state u) eqn:ES;
      try destruct (ltb 0 newR) eqn:P; cbn [fst snd]; split_spec;
      try (apply OK); try (apply Q; reflexivity);
      try (apply Q; try reflexivity; intros q id; destruct q; reflexivity);
      try (intros id q Hid; unfold q_evs; cbn [flat_map]; destruct q; cbn [q_ev]; rewrite ?(neqb_other _ _ Hid); reflexivity);
      try (cbn; rewrite NB; reflexivity); try (cbn; rewrite NR; reflexivity);
      try (intros; split; reflexivity); try reflexivity.
Qed.

Lemma do_energy_spec c u a :
  unit_ok u -> nn a ->
  ustep_spec (c_target c) u (fst (do_energy c u a)) (snd (do_energy c u a)).
Proof.
  intros Hu Na.
  pose proof Hu as (A1 & A2 & A3 & A4 & Hme & A5 & A6 & A7 & Hms & A8).
  destruct (unit_finite u Hu) as (Fh & Fe & Fs).
  destruct (no_break_same (u_stance u) A6 Fs) as [NB NR].
  destruct (clampTo_range (u_maxEnergy u) a Na Hme) as [R0 R1].
  unfold do_energy. cbn [fst snd].
  set (a' := clampTo (u_maxEnergy u) a) in *.
  assert (OK : unit_ok (set_energy u a')).
  { unfold unit_ok; cbn. repeat split; auto. }
  destruct (eqb (u_energy u) a') eqn:E; split_spec; try exact OK.
  - intros q. destruct q; cbn [q_evs flat_map qval set_energy u_hp u_energy u_stance]; unfold report.
    + rewrite (eqb_refl _ (finite_nn _ Fh)). reflexivity.
    + rewrite E. reflexivity.
    + rewrite (eqb_refl _ (finite_nn _ Fs)). reflexivity.
  - reflexivity.
  - cbn. rewrite NB. reflexivity.
  - cbn. rewrite NR. reflexivity.
  - intros; split; reflexivity.
  - reflexivity.
  - intros q. unfold q_evs. cbn [flat_map app].
    destruct q; cbn [q_ev qval set_energy u_hp u_energy u_stance]; unfold report.
    + rewrite (eqb_refl _ (finite_nn _ Fh)). reflexivity.
    + rewrite Z.eqb_refl, E. reflexivity.
    + rewrite (eqb_refl _ (finite_nn _ Fs)). reflexivity.
  - intros id q Hid. unfold q_evs. cbn [flat_map]. destruct q; cbn [q_ev]; rewrite ?(neqb_other _ _ Hid); reflexivity.
  - cbn. rewrite NB. reflexivity.
  - cbn. rewrite NR. reflexivity.
  - intros; split; reflexivity.
  - reflexivity.
Qed.

Lemma do_stance_spec c u amount :
  unit_ok u -> nn amount ->
  ustep_spec (c_target c) u (fst (do_stance c u amount)) (snd (do_stance c u amount)).
Proof.
  intros Hu Na.
  pose proof Hu as (A1 & A2 & A3 & A4 & Hme & A5 & A6 & A7 & Hms & A8).
  destruct (unit_finite u Hu) as (Fh & Fe & Fs).
  destruct (no_break_same (u_stance u) A6 Fs) as [NB NR].
  destruct (clampTo_range (u_maxStance u) amount Na Hms) as [R0 R1].
  unfold do_stance.
  set (a := clampTo (u_maxStance u) amount) in *.
  assert (Fa : finite a) by (eapply finite_of_range; eauto).
  destruct (eqb (u_stance u) a) eqn:E; cbn [fst snd].
  - (* unchanged: SetStance returns before emitting anything *)
    split_spec.
    + exact Hu.
    + intros q. cbn [q_evs flat_map]. symmetry. apply report_same, unit_nn, Hu.
    + reflexivity.
    + cbn. rewrite NB. reflexivity.
    + cbn. rewrite NR. reflexivity.
    + intros; split; reflexivity.
    + reflexivity.
  - assert (OK : unit_ok (set_stance u a)).
    { unfold unit_ok; cbn. repeat split; auto. }
    assert (Q : forall pre, (forall q id, q_evs q id pre = []) ->
              forall q, q_evs q (c_target c) (pre ++ [EStance (c_key c) (c_target c) (c_source c) (u_stance u) a])
                        = report (qval q u) (qval q (set_stance u a))).
    { intros pre T q. unfold q_evs. rewrite flat_map_app. fold (q_evs q (c_target c) pre). rewrite T.
      cbn [app flat_map].
      destruct q; cbn [q_ev qval set_stance u_hp u_energy u_stance]; unfold report.
      - rewrite (eqb_refl _ (finite_nn _ Fh)). reflexivity.
      - rewrite (eqb_refl _ (finite_nn _ Fe)). reflexivity.
      - rewrite Z.eqb_refl, E. reflexivity. }
    assert (O : forall pre, (forall q id, q_evs q id pre = []) ->
              forall id q, id <> c_target c ->
                q_evs q id (pre ++ [EStance (c_key c) (c_target c) (c_source c) (u_stance u) a]) = []).
    { intros pre T id q Hid. unfold q_evs. rewrite flat_map_app. fold (q_evs q id pre). rewrite T.
      cbn [app flat_map]. destruct q; cbn [q_ev]; rewrite ?(neqb_other _ _ Hid); reflexivity. }
    destruct (eqb a 0) eqn:Ea0.
    + (* the stance reaches zero: StanceBreak, then StanceChange *)
      assert (Es0 : eqb (u_stance u) 0 = false).
      { destruct (eqb (u_stance u) 0) eqn:X; [|reflexivity].
        rewrite <- E. symmetry.
        apply (eqb_trans (u_stance u) 0 a); auto; [exact finite_zero | rewrite eqb_sym; exact Ea0]. }
      pose proof (pos_of_nonneg_nonzero _ A6 Es0) as Ps.
      split_spec.
      * exact OK.
      * apply Q. intros q id. destruct q; reflexivity.
      * apply O. intros q id. destruct q; reflexivity.
      * unfold n_break; cbn [app filter is_break length set_stance u_stance]. rewrite Z.eqb_refl. cbn [length].
        rewrite Ps, Ea0. reflexivity.
      * unfold n_reset; cbn [app filter is_reset length set_stance u_stance]. rewrite Es0. reflexivity.
      * intros id Hid. unfold n_break, n_reset; cbn [app filter is_break is_reset]. rewrite (neqb_other _ _ Hid). split; reflexivity.
      * reflexivity.
    + destruct (eqb (u_stance u) 0) eqn:Es0.
      * (* the stance leaves zero: StanceReset, then StanceChange *)
        pose proof (pos_of_nonneg_nonzero _ R0 Ea0) as Pa.
        split_spec.
        -- exact OK.
        -- apply Q. intros q id. destruct q; reflexivity.
        -- apply O. intros q id. destruct q; reflexivity.
        -- unfold n_break; cbn [app filter is_break length set_stance u_stance]. rewrite Ea0, andb_false_r. reflexivity.
        -- unfold n_reset; cbn [app filter is_reset length set_stance u_stance]. rewrite Z.eqb_refl. cbn [length].
           rewrite Pa, Es0. reflexivity.
        -- intros id Hid. unfold n_break, n_reset; cbn [app filter is_break is_reset]. rewrite (neqb_other _ _ Hid). split; reflexivity.
        -- reflexivity.
      * split_spec.
        -- exact OK.
        -- apply (Q []). intros; reflexivity.
        -- apply (O []). intros; reflexivity.
        -- unfold n_break; cbn [app filter is_break length set_stance u_stance]. rewrite Ea0, andb_false_r. reflexivity.
        -- unfold n_reset; cbn [app filter is_reset length set_stance u_stance]. rewrite Es0. reflexivity.
        -- intros; split; reflexivity.
        -- reflexivity.
Qed.

(* ------------------------------------------------------------------------------------ *)
(* One call on the whole state                                                           *)
(* ------------------------------------------------------------------------------------ *)

Lemma unit_quiet u : unit_ok u ->
  (forall q, [] = report (qval q u) (qval q u)) /\
  0%nat = b2n (ltb 0 (u_stance u) && eqb (u_stance u) 0) /\
  0%nat = b2n (eqb (u_stance u) 0 && ltb 0 (u_stance u)).
Proof.
  intros Hu. pose proof Hu as (A1 & A2 & A3 & A4 & Hme & A5 & A6 & A7 & Hms & A8).
  destruct (unit_finite u Hu) as (Fh & Fe & Fs).
  destruct (no_break_same (u_stance u) A6 Fs) as [NB NR].
  rewrite NB, NR. repeat split.
  intros q. symmetry. apply report_same, unit_nn, Hu.
Qed.

(* a call that emits no unit event and leaves every registered unit as it was *)
Lemma step_report_quiet s s' evs :
  state_ok s ->
  (forall id u, find_unit id (units s) = Some u -> find_unit id (units s') = Some u) ->
  (forall q id, q_evs q id evs = []) ->
  (forall id, n_break id evs = 0%nat /\ n_reset id evs = 0%nat) ->
  sp_evs evs = report_sp (sp s) (sp s') ->
  step_report s s' evs.
Proof.
  intros [Hs _] Hf Hq Hb Hsp. unfold step_report. repeat split.
  - intros id u Hu. exists u. split; [apply Hf, Hu|].
    destruct (unit_quiet u (find_unit_ok _ _ _ Hs Hu)) as (Q1 & Q2 & Q3).
    split; [intros q; rewrite Hq; apply Q1|].
    destruct (Hb id) as [B1 B2]. rewrite B1, B2. split; assumption.
  - intros q. apply Hq.
  - apply Hb.
  - apply Hb.
  - exact Hsp.
Qed.

Lemma report_sp_same x : report_sp x x = [].
Proof. unfold report_sp. rewrite Z.eqb_refl. reflexivity. Qed.

Lemma step_report_nil s : state_ok s -> step_report s s [].
Proof.
  intros Hs.
  apply step_report_quiet;
    [exact Hs | auto | reflexivity | intros; split; reflexivity | rewrite report_sp_same; reflexivity].
Qed.

Lemma on_target_report s c f s' evs err :
  state_ok s ->
  (forall u, find_unit (c_target c) (units s) = Some u -> unit_ok u ->
             ustep_spec (c_target c) u (fst (f u)) (snd (f u))) ->
  on_target s c f = (s', evs, err) ->
  state_ok s' /\ step_report s s' evs.
Proof.
  intros Hs Hf. unfold on_target.
  destruct (find_unit (c_target c) (units s)) as [u|] eqn:Eu.
  - pose proof Hs as [Hus Hsp].
    pose proof (find_unit_ok _ _ _ Hus Eu) as Hu.
    specialize (Hf u eq_refl Hu).
    destruct (f u) as [u' evs'] eqn:Ef. cbn [fst snd] in Hf.
    intros H; inversion H; subst; clear H.
    destruct Hf as (OK & Q & QO & NB & NR & NO & SP).
    split.
    + split; [apply set_unit_ok; assumption | exact Hsp].
    + unfold step_report. cbn [units sp]. repeat split.
      * intros id u0 Hu0. rewrite find_set_unit.
        destruct (Z.eqb_spec id (c_target c)) as [->|Hid].
        -- rewrite Eu in *. inversion Hu0; subst u0. exists u'. repeat split; auto.
        -- exists u0. split; [exact Hu0|].
           destruct (unit_quiet u0 (find_unit_ok _ _ _ Hus Hu0)) as (Q1 & Q2 & Q3).
           split; [intros q; rewrite (QO id q Hid); apply Q1|].
           destruct (NO id Hid) as [B1 B2]. rewrite B1, B2. split; assumption.
      * intros q. apply QO. intros ->. congruence.
      * apply NO. intros ->. congruence.
      * apply NO. intros ->. congruence.
      * rewrite SP, report_sp_same. reflexivity.
  - intros H; inversion H; subst; clear H. split; [exact Hs | apply step_report_nil, Hs].
Qed.

Lemma add_unit_ok id hp en me stc ms :
  op_ok (OAdd id hp en me stc ms) -> unit_ok (add_unit hp en me stc ms id).
Proof.
  cbn [op_ok]. intros (H1 & H2 & H3 & H4 & H5 & H6 & H7).
  destruct (leb_nn _ _ H1) as [Nhp _]. destruct (leb_nn _ _ H2) as [_ Nen].
  pose proof (finite_nn _ H4) as Nme.
  unfold add_unit, unit_ok; cbn [u_hp u_energy u_maxEnergy u_stance u_maxStance].
  assert (Fs : finite stc) by (eapply finite_of_range; eauto).
  repeat split; auto.
  - destruct (leb hp 0) eqn:E; [exact leb_zero_one|].
    apply leb_false_leb; auto. exact nn_zero.
  - destruct (leb hp 0); [apply leb_refl, nn_one | exact H1].
  - destruct (ltb me en); assumption.
  - destruct (ltb me en) eqn:E; [apply leb_refl, Nme|].
    apply ltb_false_leb; auto.
  - apply (leb_trans 0 stc ms); auto. exact finite_zero.
Qed.

Lemma new_sp_range old a : 0 <= new_sp old a <= 5.
Proof.
  unfold new_sp. destruct (5 <? wrap_int64 (old + a)) eqn:E1; [lia|].
  destruct (wrap_int64 (old + a) <? 0) eqn:E2; [lia|].
  apply Z.ltb_ge in E1. apply Z.ltb_ge in E2. lia.
Qed.

Theorem step_spec s o s' evs err :
  state_ok s -> op_ok o -> step s o = (s', evs, err) ->
  state_ok s' /\ step_report s s' evs.
Proof.
  intros Hs Ho. destruct o; cbn [step].
  - (* AddTarget *)
    destruct (find_unit id (units s)) eqn:Eu; intros H; inversion H; subst; clear H.
    + split; [exact Hs | apply step_report_nil, Hs].
    + pose proof (add_unit_ok _ _ _ _ _ _ Ho) as OK. destruct Hs as [Hus Hsp]. split.
      * split; [|exact Hsp]. cbn [units]. apply Forall_app. split; [exact Hus|]. constructor; [exact OK | constructor].
      * apply step_report_quiet; cbn [units sp];
          [split; assumption | | reflexivity | intros; split; reflexivity | rewrite report_sp_same; reflexivity].
        intros id0 u Hu. rewrite find_app_unit, Hu. reflexivity.
  - (* SetHP *)
    destruct Ho as ((Fm & Pm & _ & _) & Fa).
    apply on_target_report; auto. intros u _ Hu.
    destruct (new_hp_set_range _ _ Fm Pm Fa). apply do_hp_spec; auto.
  - (* ModifyHPByAmount *)
    destruct Ho as ((Fm & Pm & _ & _) & Fa).
    apply on_target_report; auto. intros u _ Hu.
    destruct (unit_finite u Hu) as (Fh & _ & _).
    destruct (new_hp_amount_range _ _ _ Fm Pm Fh Fa). apply do_hp_spec; auto.
  - (* ModifyHPByRatio *)
    destruct Ho as ((Fm & Pm & _ & _) & Fr & Ff).
    destruct ((rtype =? 1) || (rtype =? 2)).
    + apply on_target_report; auto. intros u _ Hu.
      destruct (unit_finite u Hu) as (Fh & _ & _).
      destruct (new_hp_ratio_range _ _ _ rtype _ Fm Pm Fh Fr Ff). apply do_hp_spec; auto.
    + intros H; inversion H; subst; clear H. split; [exact Hs | apply step_report_nil, Hs].
  - (* SetStance *)
    destruct Ho as (_ & Fa).
    apply on_target_report; auto. intros u _ Hu. apply do_stance_spec; auto. apply finite_nn, Fa.
  - (* ModifyStance *)
    destruct Ho as ((_ & _ & _ & Fb) & Fa).
    apply on_target_report; auto. intros u _ Hu.
    destruct (unit_finite u Hu) as (_ & _ & Fs).
    apply do_stance_spec; auto. apply scaled_nn; auto.
  - (* SetEnergy *)
    destruct Ho as (_ & Fa).
    apply on_target_report; auto. intros u _ Hu. apply do_energy_spec; auto. apply finite_nn, Fa.
  - (* ModifyEnergy *)
    destruct Ho as ((_ & _ & Fr & _) & Fa).
    apply on_target_report; auto. intros u _ Hu.
    destruct (unit_finite u Hu) as (_ & Fe & _).
    apply do_energy_spec; auto. apply scaled_nn; auto.
  - (* ModifyEnergyFixed *)
    destruct Ho as (_ & Fa).
    apply on_target_report; auto. intros u _ Hu.
    destruct (unit_finite u Hu) as (_ & Fe & _).
    apply do_energy_spec; auto. apply add_finite_nn; auto. apply finite_nn, Fa.
  - (* ModifySP *)
    intros H; inversion H; subst; clear H. destruct Hs as [Hus Hsp]. split.
    + split; [exact Hus | apply new_sp_range].
    + apply step_report_quiet; cbn [units sp]; [split; assumption | auto | | | ].
      * intros q id. destruct (sp s =? new_sp (sp s) amount); destruct q; reflexivity.
      * intros id. destruct (sp s =? new_sp (sp s) amount); split; reflexivity.
      * unfold report_sp. destruct (sp s =? new_sp (sp s) amount); reflexivity.
Qed.

(* ------------------------------------------------------------------------------------ *)
(* Sequences of calls                                                                    *)
(* ------------------------------------------------------------------------------------ *)

Definition all_events (s : state) (ops : list op) : list ev := flat_map r_evs (snd (run s ops)).
Definition reach (ops : list op) : state := fst (run init ops).

Lemma run_cons s o r s1 evs err :
  step s o = (s1, evs, err) ->
  run s (o :: r) = (fst (run s1 r), mkRes evs err (snapshot s1 (op_target o)) :: snd (run s1 r)).
Proof. intros H. cbn [run]. rewrite H. destruct (run s1 r); reflexivity. Qed.

Lemma run_app s a b : fst (run s (a ++ b)) = fst (run (fst (run s a)) b).
Proof.
  revert s. induction a as [|o a IH]; intros s; [reflexivity|].
  destruct (step s o) as [[s1 evs] err] eqn:E.
  cbn [app]. rewrite (run_cons _ _ _ _ _ _ E), (run_cons _ _ _ _ _ _ E). cbn [fst]. apply IH.
Qed.

Lemma init_ok : state_ok init.
Proof. split; [constructor | cbn; lia]. Qed.

Lemma run_ok ops : forall s, state_ok s -> Forall op_ok ops -> state_ok (fst (run s ops)).
Proof.
  induction ops as [|o r IH]; intros s Hs Ho; [exact Hs|].
  inversion Ho; subst.
  destruct (step s o) as [[s1 evs] err] eqn:E.
  rewrite (run_cons _ _ _ _ _ _ E). cbn [fst].
  apply IH; auto. eapply step_spec; eauto.
Qed.

(* consecutive change events of one unit and quantity: new_i == old_(i+1) *)
Fixpoint chained (l : list (float * float)) : Prop :=
  match l with
  | (_, n1) :: r => match r with (o2, _) :: _ => eqb n1 o2 = true | [] => True end /\ chained r
  | [] => True
  end.
Definition head_is (x : float) (l : list (float * float)) : Prop :=
  match l with [] => True | (o, _) :: _ => eqb x o = true end.

Fixpoint sp_chained (l : list (Z * Z)) : Prop :=
  match l with
  | (_, n1) :: r => match r with (o2, _) :: _ => n1 = o2 | [] => True end /\ sp_chained r
  | [] => True
  end.
Definition sp_head_is (x : Z) (l : list (Z * Z)) : Prop :=
  match l with [] => True | (o, _) :: _ => x = o end.

Lemma q_evs_app q id a b : q_evs q id (a ++ b) = q_evs q id a ++ q_evs q id b.
Proof. apply flat_map_app. Qed.

Lemma all_events_cons s o r s1 evs err :
  step s o = (s1, evs, err) -> all_events s (o :: r) = evs ++ all_events s1 r.
Proof. intros H. unfold all_events. rewrite (run_cons _ _ _ _ _ _ H). reflexivity. Qed.

Lemma state_unit_ok s id u : state_ok s -> find_unit id (units s) = Some u -> unit_ok u.
Proof. intros [H _]. apply find_unit_ok, H. Qed.

Lemma chain_inv ops : forall s, state_ok s -> Forall op_ok ops -> forall q id,
  chained (q_evs q id (all_events s ops)) /\
  (forall u, find_unit id (units s) = Some u -> head_is (qval q u) (q_evs q id (all_events s ops))).
Proof.
  induction ops as [|o r IH]; intros s Hs Ho q id.
  - split; [exact I | intros; exact I].
  - inversion Ho as [|? ? Ho1 Hor]; subst.
    destruct (step s o) as [[s1 evs] err] eqn:E.
    rewrite (all_events_cons _ _ _ _ _ _ E), q_evs_app.
    destruct (step_spec _ _ _ _ _ Hs Ho1 E) as [Hs1 (RU & RN & _)].
    destruct (IH s1 Hs1 Hor q id) as [C2 H2].
    destruct (find_unit id (units s)) as [u|] eqn:Eu.
    + destruct (RU id u Eu) as (u1 & Eu1 & Q & _).
      rewrite (Q q). specialize (H2 u1 Eu1).
      pose proof (state_unit_ok _ _ _ Hs Eu) as Ou. pose proof (state_unit_ok _ _ _ Hs1 Eu1) as Ou1.
      pose proof (unit_nn u q Ou) as Nu.
      assert (Fu : finite (qval q u)) by (destruct (unit_finite u Ou) as (?&?&?); destruct q; assumption).
      assert (Fu1 : finite (qval q u1)) by (destruct (unit_finite u1 Ou1) as (?&?&?); destruct q; assumption).
      unfold report. destruct (eqb (qval q u) (qval q u1)) eqn:Eq; cbn [app].
      * split; [exact C2|]. intros u0 E0; inversion E0; subst u0.
        destruct (q_evs q id (all_events s1 r)) as [|[o2 n2] l2]; [exact I|].
        cbn [head_is] in *. apply (eqb_trans _ (qval q u1)); auto. eapply eqb_finite; eauto.
      * split.
        -- cbn [chained]. split; [|exact C2].
           destruct (q_evs q id (all_events s1 r)) as [|[o2 n2] l2]; [exact I | exact H2].
        -- intros u0 E0; inversion E0; subst u0. cbn [head_is]. apply eqb_refl, Nu.
    + destruct (RN id Eu) as (Q & _). rewrite (Q q). cbn [app].
      split; [exact C2 | intros; discriminate].
Qed.

Lemma sp_evs_app a b : sp_evs (a ++ b) = sp_evs a ++ sp_evs b.
Proof. apply flat_map_app. Qed.

Lemma sp_chain_inv ops : forall s, state_ok s -> Forall op_ok ops ->
  sp_chained (sp_evs (all_events s ops)) /\ sp_head_is (sp s) (sp_evs (all_events s ops)).
Proof.
  induction ops as [|o r IH]; intros s Hs Ho.
  - split; exact I.
  - inversion Ho as [|? ? Ho1 Hor]; subst.
    destruct (step s o) as [[s1 evs] err] eqn:E.
    rewrite (all_events_cons _ _ _ _ _ _ E), sp_evs_app.
    destruct (step_spec _ _ _ _ _ Hs Ho1 E) as [Hs1 (_ & _ & SP)].
    destruct (IH s1 Hs1 Hor) as [C2 H2]. rewrite SP. unfold report_sp.
    destruct (Z.eqb_spec (sp s) (sp s1)) as [Eq|Ne]; cbn [app].
    + split; [exact C2|]. rewrite Eq. exact H2.
    + split; [|reflexivity]. cbn [sp_chained]. split; [|exact C2].
      destruct (sp_evs (all_events s1 r)) as [|[o2 n2] l2]; [exact I | exact H2].
Qed.

(* ------------------------------------------------------------------------------------ *)
(* C07                                                                                   *)
(* ------------------------------------------------------------------------------------ *)

(* the ranges, read through the unit table (what the getters return) *)
Definition in_range (s : state) : Prop :=
  (forall id u, find_unit id (units s) = Some u ->
     leb 0 (u_hp u) = true /\ leb (u_hp u) 1 = true /\
     leb 0 (u_energy u) = true /\ leb (u_energy u) (u_maxEnergy u) = true /\
     leb 0 (u_stance u) = true /\ leb (u_stance u) (u_maxStance u) = true) /\
  0 <= sp s <= 5.

Lemma state_ok_in_range s : state_ok s -> in_range s.
Proof.
  intros Hs. split; [|apply Hs]. intros id u Hu.
  destruct (state_unit_ok _ _ _ Hs Hu) as (A1 & A2 & A3 & A4 & _ & _ & A6 & A7 & _ & _). auto 10.
Qed.

Definition C07_statement : Prop :=
  forall ops, Forall op_ok ops ->
    (* after any sequence of calls every quantity is in its range *)
    in_range (reach ops) /\
    (* any further call reports exactly the changes it makes: per unit and quantity one
       event (old = value before, new = value after) iff the value changed; break / reset
       exactly when the stance reaches / leaves zero; one SPChange iff the SP changed *)
    (forall o, op_ok o ->
       step_report (reach ops) (fst (fst (step (reach ops) o))) (snd (fst (step (reach ops) o)))) /\
    (* over the whole sequence the events of a unit and quantity chain *)
    (forall q id, chained (q_evs q id (all_events init ops))) /\
    sp_chained (sp_evs (all_events init ops)) /\ sp_head_is 3 (sp_evs (all_events init ops)).

Theorem C07_holds : C07_statement.
Proof.
  intros ops Ho.
  pose proof (run_ok ops init init_ok Ho) as Hr. fold (reach ops) in Hr.
  split; [apply state_ok_in_range, Hr|].
  split.
  - intros o Hoo. destruct (step (reach ops) o) as [[s1 evs] err] eqn:E. cbn [fst snd].
    eapply step_spec; eauto.
  - split; [intros q id; apply (chain_inv ops init init_ok Ho q id)|].
    apply (sp_chain_inv ops init init_ok Ho).
Qed.

(* the first event of a unit reports the value the unit was registered with *)
Theorem C07_first_event_old s ops q id u :
  state_ok s -> Forall op_ok ops -> find_unit id (units s) = Some u ->
  head_is (qval q u) (q_evs q id (all_events s ops)).
Proof. intros Hs Ho Hu. apply (chain_inv ops s Hs Ho q id), Hu. Qed.

(* the ranges hold in every intermediate state as well (prefixes of valid lists are valid) *)
Theorem C07_ranges_every_prefix pre post :
  Forall op_ok (pre ++ post) -> in_range (reach pre).
Proof.
  intros H. apply Forall_app in H. destruct H as [H _].
  apply state_ok_in_range, run_ok; [exact init_ok | exact H].
Qed.

(* ---- non-vacuity: a valid history that exercises every clause ---- *)
Definition demo_env : env := mkEnv 100 0 0 50 0.25 0.25.
Definition demo_call (k t s : Z) (l : bool) : call := mkCall demo_env k t s l.
Definition demo_ops : list op :=
  [ OAdd 1 1 50 100 60 60;
    OModHPRatio (demo_call 0 1 2 false) (-0.75) 1 50 true;   (* 100 -> 25 -> floor 50 *)
    OModHPRatio (demo_call 1 1 2 false) (-2) 1 (-1000) true; (* clamps at 0: dead *)
    OModStance (demo_call 2 1 2 false) (-60);                (* break *)
    OModStance (demo_call 2 1 2 false) (-60);                (* nothing *)
    OSetStance (demo_call 3 1 2 false) 1000;                 (* reset, clamps at 60 *)
    OModEnergy (demo_call 4 1 1 false) 70;                   (* clamps at 100 *)
    OModSP 5 1 7; OModSP 5 1 (-1) ].

Lemma demo_valid : Forall op_ok demo_ops.
Proof. repeat constructor; vm_compute; reflexivity. Qed.

Lemma demo_runs :
  length (all_events init demo_ops) = 10%nat /\
  q_evs QHP 1 (all_events init demo_ops) = [(1, 0.5); (0.5, 0)]%float /\
  n_break 1 (all_events init demo_ops) = 1%nat /\ n_reset 1 (all_events init demo_ops) = 1%nat /\
  sp_evs (all_events init demo_ops) = [(3, 5); (5, 4)].
Proof. vm_compute. repeat split; reflexivity. Qed.

Definition clamp_statement : Prop :=
  forall hi x, nn x -> leb 0 hi = true ->
    leb 0 (clampTo hi x) = true /\ leb (clampTo hi x) hi = true.

Definition demo_statement : Prop :=
  Forall op_ok demo_ops /\
  length (all_events init demo_ops) = 10%nat /\
  q_evs QHP 1 (all_events init demo_ops) = [(1, 0.5); (0.5, 0)]%float /\
  n_break 1 (all_events init demo_ops) = 1%nat /\ n_reset 1 (all_events init demo_ops) = 1%nat /\
  sp_evs (all_events init demo_ops) = [(3, 5); (5, 4)].
