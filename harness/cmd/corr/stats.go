package main

// Correspondence harness for Model/Stats.v (property C06): the real modifier.Manager and the
// real attribute service behind a small fake engine.  The caller's descriptions
// (info.Modifier values with their maps) are kept by the harness and re-used for several
// AddModifier calls, mutated afterwards, instances are mutated through their handles, kept
// snapshots are mutated through the Stats mutators, and everything is re-read.

import (
	"fmt"

	"github.com/simimpact/srsim/pkg/engine"
	"github.com/simimpact/srsim/pkg/engine/attribute"
	"github.com/simimpact/srsim/pkg/engine/event"
	"github.com/simimpact/srsim/pkg/engine/info"
	"github.com/simimpact/srsim/pkg/engine/modifier"
	"github.com/simimpact/srsim/pkg/engine/prop"
	"github.com/simimpact/srsim/pkg/key"
	"github.com/simimpact/srsim/pkg/model"

	"verif/harness/term"
)

type statsEngine struct {
	engine.Engine
	ev    *event.System
	attr  attribute.Manager
	valid map[key.TargetID]bool
}

func (e *statsEngine) Events() *event.System            { return e.ev }
func (e *statsEngine) IsValid(t key.TargetID) bool      { return e.valid[t] }
func (e *statsEngine) Stats(t key.TargetID) *info.Stats { return e.attr.Stats(t) }

type statsWorld struct {
	uid     int
	eng     *statsEngine
	mgr     *modifier.Manager
	units   []key.TargetID
	descs   []*info.Modifier
	nextTag int64
	handles map[int64]*modifier.Instance
	snaps   []*info.Stats
	pk      []prop.Property
	fk      []model.BehaviorFlag
	dk      []model.DamageType
}

func (w *statsWorld) name(n int64) key.Modifier {
	return key.Modifier(fmt.Sprintf("vs%d_%d", w.uid, n))
}

func pairs(t term.T) [][2]term.T {
	out := [][2]term.T{}
	for _, e := range term.List(t) {
		it := term.TupleItems(e)
		out = append(out, [2]term.T{it[0], it[1]})
	}
	return out
}

// the model's of_list: the first pair of a key wins
func propMapOf(t term.T) info.PropMap {
	m := info.NewPropMap()
	ps := pairs(t)
	for i := len(ps) - 1; i >= 0; i-- {
		m[prop.Property(term.Int(ps[i][0]))] = term.Float(ps[i][1])
	}
	return m
}
func dresMapOf(t term.T) info.DebuffRESMap {
	m := info.NewDebuffRESMap()
	ps := pairs(t)
	for i := len(ps) - 1; i >= 0; i-- {
		m[model.BehaviorFlag(term.Int(ps[i][0]))] = term.Float(ps[i][1])
	}
	return m
}
func weakMapOf(t term.T) info.WeaknessMap {
	m := info.NewWeaknessMap()
	ps := pairs(t)
	for i := len(ps) - 1; i >= 0; i-- {
		m[model.DamageType(term.Int(ps[i][0]))] = term.Float(ps[i][1]) != 0
	}
	return m
}

func optArg(t term.T) (term.T, bool) {
	n, a := term.Ctor(t)
	if n == "Some" {
		return a[0], true
	}
	return nil, false
}

func newStatsWorld(wd term.T) *statsWorld {
	if prop.AllDamageReduce != 90 || prop.Fatigue != 91 || prop.HPBase != 1 || prop.HPConvert != 4 ||
		prop.ATKBase != 5 || prop.ATKConvert != 8 {
		panic("property ids moved: Model/Stats.v must be revisited")
	}
	modCaseUID++
	w := &statsWorld{uid: modCaseUID, handles: map[int64]*modifier.Instance{}}
	_, a := term.Ctor(wd) // mkW6 cat units descs pk fk dk
	eng := &statsEngine{ev: &event.System{}, valid: map[key.TargetID]bool{}}
	w.eng = eng
	w.mgr = modifier.NewManager(eng)
	eng.attr = attribute.New(eng.ev, w.mgr)
	for i, c := range term.List(a[0]) { // mkC6 stack status flags
		_, ca := term.Ctor(c)
		st, _ := term.Ctor(ca[0])
		cfg := modifier.Config{StatusType: model.StatusType(term.Int(ca[1]))}
		switch st {
		case "SUnique":
			cfg.Stacking = modifier.Unique
		case "SReplace":
			cfg.Stacking = modifier.Replace
		case "SMultiple":
			cfg.Stacking = modifier.Multiple
		}
		for _, f := range term.List(ca[2]) {
			cfg.BehaviorFlags = append(cfg.BehaviorFlags, model.BehaviorFlag(term.Int(f)))
		}
		cfg.Listeners.OnAdd = func(m *modifier.Instance) { w.handles[tagOf(m.State())] = m }
		modifier.Register(w.name(int64(i)), cfg)
	}
	for _, u := range term.List(a[1]) { // (id, mkUb p d w)
		it := term.TupleItems(u)
		id := key.TargetID(term.Int(it[0]))
		if eng.valid[id] {
			continue
		}
		_, ba := term.Ctor(it[1])
		attr := info.DefaultAttribute()
		attr.BaseStats = propMapOf(ba[0])
		attr.BaseDebuffRES = dresMapOf(ba[1])
		attr.Weakness = weakMapOf(ba[2])
		if err := eng.attr.AddTarget(id, attr); err != nil {
			panic(err)
		}
		eng.valid[id] = true
		w.units = append(w.units, id)
	}
	for _, d := range term.List(a[2]) { // mkDi name src p d w
		_, da := term.Ctor(d)
		m := &info.Modifier{Name: w.name(term.Int(da[0])), Source: key.TargetID(term.Int(da[1]))}
		if x, ok := optArg(da[2]); ok {
			m.Stats = propMapOf(x)
		}
		if x, ok := optArg(da[3]); ok {
			m.DebuffRES = dresMapOf(x)
		}
		if x, ok := optArg(da[4]); ok {
			m.Weakness = weakMapOf(x)
		}
		w.descs = append(w.descs, m)
	}
	for _, p := range term.List(a[3]) {
		w.pk = append(w.pk, prop.Property(term.Int(p)))
	}
	for _, f := range term.List(a[4]) {
		w.fk = append(w.fk, model.BehaviorFlag(term.Int(f)))
	}
	for _, d := range term.List(a[5]) {
		w.dk = append(w.dk, model.DamageType(term.Int(d)))
	}
	return w
}

func floats(xs []float64) term.T {
	out := []term.T{}
	for _, x := range xs {
		out = append(out, term.F(x))
	}
	return term.L(out...)
}
func bools(xs []bool) term.T {
	out := []term.T{}
	for _, x := range xs {
		out = append(out, term.B(x))
	}
	return term.L(out...)
}

func (w *statsWorld) view(s *info.Stats) term.T {
	ps, ds, ws, fs := []float64{}, []float64{}, []bool{}, []bool{}
	for _, p := range w.pk {
		ps = append(ps, s.GetProperty(p))
	}
	for _, f := range w.fk {
		ds = append(ds, s.GetDebuffRES(f))
		fs = append(fs, s.HasBehaviorFlag(f))
	}
	for _, d := range w.dk {
		ws = append(ws, s.IsWeakTo(d))
	}
	counts := []term.T{}
	for st := 0; st <= 2; st++ {
		counts = append(counts, term.I(int64(s.StatusCount(model.StatusType(st)))))
	}
	return term.C("mkV", floats(ps), floats(ds), bools(ws), bools(fs), term.L(counts...), term.F(s.ATK()), term.F(s.MaxHP()))
}

// scribble: the holder of a snapshot also owns the per-modifier change sets it lists (Stats.Modifiers()):
// writing into their maps is "changing the snapshot" and must reach neither the unit nor a later snapshot
// (the snapshot's own totals are stored separately, so nothing the harness reads from it changes either)
func (w *statsWorld) scribble(s *info.Stats, x float64) {
	for _, cs := range s.Modifiers() {
		for _, p := range w.pk {
			if cs.Props != nil {
				cs.Props[p] += x + 1
			}
		}
		for _, f := range w.fk {
			if cs.DebuffRES != nil {
				cs.DebuffRES[f] += x + 1
			}
		}
		for _, d := range w.dk {
			if cs.Weakness != nil {
				cs.Weakness[d] = !cs.Weakness[d]
			}
		}
	}
}

func (w *statsWorld) tags(u key.TargetID) term.T {
	seen := map[key.Modifier]int{}
	cache := map[key.Modifier][]info.Modifier{}
	l := []term.T{}
	for _, cs := range w.mgr.EvalModifiers(u).Modifiers {
		if _, ok := cache[cs.Name]; !ok {
			cache[cs.Name] = w.mgr.GetModifiers(u, cs.Name)
		}
		m := cache[cs.Name][seen[cs.Name]]
		seen[cs.Name]++
		l = append(l, term.I(tagOf(m.State)))
	}
	return term.L(l...)
}

func (w *statsWorld) triple(ps, ds []float64, ws []bool) term.T {
	return term.Tup(floats(ps), floats(ds), bools(ws))
}

func (w *statsWorld) dump() term.T {
	descs := []term.T{}
	for _, d := range w.descs {
		ps, ds, ws := []float64{}, []float64{}, []bool{}
		for _, p := range w.pk {
			ps = append(ps, d.Stats[p])
		}
		for _, f := range w.fk {
			ds = append(ds, d.DebuffRES[f])
		}
		for _, k := range w.dk {
			ws = append(ws, d.Weakness[k])
		}
		descs = append(descs, w.triple(ps, ds, ws))
	}
	insts := []term.T{}
	for tag := int64(0); tag < w.nextTag; tag++ {
		h, ok := w.handles[tag]
		if !ok {
			continue
		}
		ps, ds, ws := []float64{}, []float64{}, []bool{}
		for _, p := range w.pk {
			ps = append(ps, h.GetProperty(p))
		}
		for _, f := range w.fk {
			ds = append(ds, h.GetDebuffRES(f))
		}
		for _, k := range w.dk {
			ws = append(ws, h.HasWeakness(k))
		}
		insts = append(insts, term.Tup(term.I(tag), w.triple(ps, ds, ws)))
	}
	snaps := []term.T{}
	for _, s := range w.snaps {
		snaps = append(snaps, w.view(s))
	}
	return term.C("mkDump", term.L(descs...), term.L(insts...), term.L(snaps...))
}

func (w *statsWorld) doOp(o term.T) {
	n, a := term.Ctor(o)
	switch n {
	case "PAdd":
		d := int(term.Int(a[1]))
		if d < 0 || d >= len(w.descs) {
			return
		}
		m := *w.descs[d] // the caller passes its description by value: the maps are shared
		m.State = w.nextTag
		w.nextTag++
		if _, err := w.mgr.AddModifier(key.TargetID(term.Int(a[0])), m); err != nil {
			return
		}
	case "PRemove":
		w.mgr.RemoveModifier(key.TargetID(term.Int(a[0])), w.name(term.Int(a[1])))
	case "PRemoveSelf":
		if h, ok := w.handles[term.Int(a[0])]; ok {
			h.RemoveSelf()
		}
	case "PDescSet":
		d := int(term.Int(a[0]))
		if d < 0 || d >= len(w.descs) {
			return
		}
		k, v := term.Int(a[2]), term.Float(a[3])
		switch term.Int(a[1]) {
		case 0:
			if w.descs[d].Stats != nil {
				w.descs[d].Stats[prop.Property(k)] = v
			}
		case 1:
			if w.descs[d].DebuffRES != nil {
				w.descs[d].DebuffRES[model.BehaviorFlag(k)] = v
			}
		default:
			if w.descs[d].Weakness != nil {
				w.descs[d].Weakness[model.DamageType(k)] = v != 0
			}
		}
	case "PInstAddP":
		if h, ok := w.handles[term.Int(a[0])]; ok {
			h.AddProperty(prop.Property(term.Int(a[1])), term.Float(a[2]))
		}
	case "PInstSetP":
		if h, ok := w.handles[term.Int(a[0])]; ok {
			h.SetProperty(prop.Property(term.Int(a[1])), term.Float(a[2]))
		}
	case "PInstAddD":
		if h, ok := w.handles[term.Int(a[0])]; ok {
			h.AddDebuffRES(model.BehaviorFlag(term.Int(a[1])), term.Float(a[2]))
		}
	case "PInstAddW":
		if h, ok := w.handles[term.Int(a[0])]; ok {
			h.AddWeakness(model.DamageType(term.Int(a[1])))
		}
	case "PInstDelW":
		if h, ok := w.handles[term.Int(a[0])]; ok {
			h.RemoveWeakness(model.DamageType(term.Int(a[1])))
		}
	case "PSnap":
		w.snaps = append(w.snaps, w.eng.Stats(key.TargetID(term.Int(a[0]))))
	case "PSnapAddP":
		k := int(term.Int(a[0]))
		if k >= 0 && k < len(w.snaps) {
			w.snaps[k].AddProperty("verif", prop.Property(term.Int(a[1])), term.Float(a[2]))
			w.scribble(w.snaps[k], term.Float(a[2]))
		}
	case "PSnapAddD":
		k := int(term.Int(a[0]))
		if k >= 0 && k < len(w.snaps) {
			w.snaps[k].AddDebuffRES("verif", model.BehaviorFlag(term.Int(a[1])), term.Float(a[2]))
			w.scribble(w.snaps[k], term.Float(a[2]))
		}
	case "PReadAll":
	default:
		panic("bad op " + n)
	}
}

// input: (world, ops); output: Obs6 [(units, dump option)] per op
func runStats(in term.T) term.T {
	it := term.TupleItems(in)
	w := newStatsWorld(it[0])
	out := []term.T{}
	for _, o := range term.List(it[1]) {
		w.doOp(o)
		us := []term.T{}
		for _, u := range w.units {
			us = append(us, term.Tup(w.tags(u), w.view(w.eng.Stats(u))))
		}
		dm := term.None()
		if n, _ := term.Ctor(o); n == "PReadAll" {
			dm = term.Some(w.dump())
		}
		out = append(out, term.Tup(term.L(us...), dm))
	}
	return term.C("Obs6", term.L(out...))
}

// ---- generator ----

var statProps = []int64{5, 6, 7, 8, 1, 2, 3, 90, 91, 17}
var statFlags = []int64{100, 103, 4, 36} // incl. flags 32 and 96 apart (4, 36, 100)
var statDmg = []int64{1, 3}

// amounts: exactly representable values (sums of a few of them are exact) and awkward ones
var statAmounts = []float64{0.5, 0.25, -0.25, 1, 2, 100, -100, 0.1, 0.3, -0.7, 0, 1e-3, 3.5, -1, 0.2}

func genPairs(r *term.Rng, keys []int64, max int) term.T {
	out := []term.T{}
	used := map[int64]bool{}
	for n := r.Intn(max + 1); n > 0; n-- {
		k := term.Pick(r, keys)
		if used[k] {
			continue
		}
		used[k] = true
		out = append(out, term.Tup(term.I(k), term.F(term.Pick(r, statAmounts))))
	}
	return term.L(out...)
}

func genOptPairs(r *term.Rng, keys []int64, max int, pNil int) term.T {
	if r.Chance(1, pNil) {
		return term.None()
	}
	return term.Some(genPairs(r, keys, max))
}

func genStats(r *term.Rng, idx int) term.T {
	ncat := r.Range(2, 4)
	cat := []term.T{}
	stacks := []string{"SUnique", "SReplace", "SMultiple", "SMultiple"}
	for i := 0; i < ncat; i++ {
		fl := []term.T{}
		for _, f := range statFlags {
			if r.Chance(1, 3) {
				fl = append(fl, term.I(f))
			}
		}
		cat = append(cat, term.C("mkC6", term.C(term.Pick(r, stacks)), term.I(int64(r.Intn(3))), term.L(fl...)))
	}
	units := []term.T{}
	for u := 1; u <= 3; u++ {
		units = append(units, term.Tup(term.I(int64(u)),
			term.C("mkUb", genPairs(r, statProps, 5), genPairs(r, statFlags, 1), genPairs(r, statDmg, 1))))
	}
	ndesc := r.Range(1, 3)
	descs := []term.T{}
	for i := 0; i < ndesc; i++ {
		descs = append(descs, term.C("mkDi", term.I(int64(r.Intn(ncat))), term.I(int64(r.Range(1, 3))),
			genOptPairs(r, statProps, 3, 5), genOptPairs(r, statFlags, 1, 3), genOptPairs(r, statDmg, 1, 3)))
	}
	il := func(xs []int64) term.T {
		out := []term.T{}
		for _, x := range xs {
			out = append(out, term.I(x))
		}
		return term.L(out...)
	}
	nops := r.Range(5, 40)
	ops := []term.T{}
	tags, snaps := 0, 0
	amt := func() term.T { return term.F(term.Pick(r, statAmounts)) }
	for len(ops) < nops {
		switch k := r.Intn(24); {
		case k < 7:
			ops = append(ops, term.C("PAdd", term.I(int64(r.Range(1, 3))), term.Nat(r.Intn(ndesc))))
			tags++
		case k < 8:
			ops = append(ops, term.C("PRemove", term.I(int64(r.Range(1, 3))), term.I(int64(r.Intn(ncat)))))
		case k < 9:
			ops = append(ops, term.C("PRemoveSelf", term.I(int64(r.Intn(tags+1)))))
		case k < 12:
			ops = append(ops, term.C("PDescSet", term.Nat(r.Intn(ndesc)), term.I(0), term.I(term.Pick(r, statProps)), amt()))
		case k < 13:
			ops = append(ops, term.C("PDescSet", term.Nat(r.Intn(ndesc)), term.I(1), term.I(term.Pick(r, statFlags)), amt()))
		case k < 14:
			ops = append(ops, term.C("PDescSet", term.Nat(r.Intn(ndesc)), term.I(2), term.I(term.Pick(r, statDmg)), amt()))
		case k < 16:
			ops = append(ops, term.C("PInstAddP", term.I(int64(r.Intn(tags+1))), term.I(term.Pick(r, statProps)), amt()))
		case k < 17:
			ops = append(ops, term.C("PInstSetP", term.I(int64(r.Intn(tags+1))), term.I(term.Pick(r, statProps)), amt()))
		case k < 18:
			ops = append(ops, term.C("PInstAddD", term.I(int64(r.Intn(tags+1))), term.I(term.Pick(r, statFlags)), amt()))
		case k < 19:
			if r.Bool() {
				ops = append(ops, term.C("PInstAddW", term.I(int64(r.Intn(tags+1))), term.I(term.Pick(r, statDmg))))
			} else {
				ops = append(ops, term.C("PInstDelW", term.I(int64(r.Intn(tags+1))), term.I(term.Pick(r, statDmg))))
			}
		case k < 20:
			if snaps < 3 {
				ops = append(ops, term.C("PSnap", term.I(int64(r.Range(1, 3)))))
				snaps++
			}
		case k < 21:
			ops = append(ops, term.C("PSnapAddP", term.Nat(r.Intn(snaps+1)), term.I(term.Pick(r, statProps)), amt()))
		case k < 22:
			ops = append(ops, term.C("PSnapAddD", term.Nat(r.Intn(snaps+1)), term.I(term.Pick(r, statFlags)), amt()))
		default:
			ops = append(ops, term.C("PReadAll"))
		}
	}
	ops = append(ops, term.C("PReadAll"))
	return term.Tup(term.C("mkW6", term.L(cat...), term.L(units...), term.L(descs...), il(statProps), il(statFlags), il(statDmg)), term.L(ops...))
}

func kindsStats(in term.T) map[string]int {
	m := map[string]int{}
	it := term.TupleItems(in)
	for _, o := range term.List(it[1]) {
		n, _ := term.Ctor(o)
		m[n]++
	}
	return m
}

func init() {
	register("stats", component{gen: genStats, run: runStats, kinds: kindsStats})
}
