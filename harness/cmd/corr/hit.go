package main

// Component "hit" (property C04): Manager.Attack / performHit / EndAttack of the real combat
// package (with the real attribute service and shield manager) against coq/Model/Hit.v.

import (
	"math"

	"github.com/simimpact/srsim/pkg/engine/combat"
	"github.com/simimpact/srsim/pkg/engine/info"
	"github.com/simimpact/srsim/pkg/key"
	"github.com/simimpact/srsim/pkg/model"

	"verif/harness/term"
)

func (w *cbWorld) execHitOp(o term.T) {
	name, a := term.Ctor(o)
	switch name {
	case "AAttack": // key idx source targets atype dtype terms energy stance ratio flat pure snapf adjs
		bd := info.DamageMap{}
		for k, v := range pairsToMap(a[6]) {
			bd[model.DamageFormula(k)] = v
		}
		w.adjs = term.List(a[13])
		w.mgr.Attack(info.Attack{
			Key:          key.Attack(keyStr(term.Int(a[0]))),
			HitIndex:     int(term.Int(a[1])),
			Source:       key.TargetID(term.Int(a[2])),
			Targets:      idList(a[3]),
			AttackType:   model.AttackType(term.Int(a[4])),
			DamageType:   model.DamageType(term.Int(a[5])),
			BaseDamage:   bd,
			EnergyGain:   fxGet(a[7]),
			StanceDamage: fxGet(a[8]),
			HitRatio:     fxGet(a[9]),
			DamageValue:  fxGet(a[10]),
			AsPureDamage: term.Bool(a[11]),
			UseSnapshot:  term.Bool(a[12]),
		})
		w.adjs = nil
	case "AEndAttack":
		w.mgr.EndAttack()
	case "AShield": // target skey hp
		t := key.TargetID(term.Int(a[0]))
		if _, ok := w.tgt.chars[t]; ok {
			w.addShield(t, term.Int(a[1]), fxGet(a[2]))
		}
	case "AModHP":
		_ = w.attr.ModifyHPByAmount(info.ModifyAttribute{
			Key:    key.Reason(keyStr(term.Int(a[0]))),
			Target: key.TargetID(term.Int(a[1])),
			Source: key.TargetID(term.Int(a[2])),
			Amount: fxGet(a[3]),
		}, term.Bool(a[4]))
	default:
		panic("bad hit op " + name)
	}
}

func hitWorld(units, limbo, draws, ops []term.T) *cbWorld {
	w := newCbWorld(units, limbo, draws)
	// ShieldAdded is not part of the compared trace (the shield strength is an input)
	for _, o := range ops {
		w.execHitOp(o)
		w.unitItems()
	}
	return w
}

func runHit(in term.T) term.T {
	it := term.TupleItems(in)
	w := hitWorld(term.List(it[0]), term.List(it[1]), term.List(it[2]), term.List(it[3]))
	return term.C("Ok", term.L(w.trace...))
}

// tryHitWorld is hitWorld for the generator: nil when the real code panics on the history
func tryHitWorld(units, limbo, draws, ops []term.T) (w *cbWorld) {
	defer func() {
		if r := recover(); r != nil {
			w = nil
		}
	}()
	return hitWorld(units, limbo, draws, ops)
}

// ---- generator ----

// draws are multiples of 2^-53 in [0,1): exactly what rand.Float64 can return for a source value k * 2^10
var drawPool = []float64{0, 1.0 / (1 << 53), 0.125, 0.25, 0.5, 0.75, 1 - 1.0/(1<<53)}

func critChancePool() []float64 {
	out := boundaryPool(drawPool)
	return append(out, 1, 1.5, -0.1, 0.05)
}

// properties a hit reads besides the base stats, with "ordinary" values per property
var hitProps = []struct {
	p   int
	ord []float64
}{
	{18, []float64{0.5, 1.2, 2.0}},     // crit damage
	{19, []float64{0.194, 0.05, -0.5}}, // energy regen
	{20, []float64{0.1}},
	{33, []float64{0.3, 1.8, 0.64}}, // break effect
	{34, []float64{0.2, -0.1, 0.4}}, // all RES
	{42, []float64{0.1, 0.25}},      // all PEN
	{50, []float64{0.3, 1.2, 2.5}},  // all damage taken
	{58, []float64{0.466, 0.1, 1.0}},
	{59, []float64{0.3, 0.72}},
	{67, []float64{0.2, 0.5, -0.25}},
	{90, []float64{0.1, 0.25, 0.99, 0.5}},
	{91, []float64{0.1, 0.3, 1.0}},
}

func genHitUnit(r *term.Rng, id int, lvl int, dyadic bool) term.T {
	return genUnit2(r, id, lvl, dyadic, func() [][2]float64 {
		ps := [][2]float64{}
		if r.Chance(3, 4) {
			ps = append(ps, [2]float64{17, term.Pick(r, critChancePool())})
		}
		for _, hp := range hitProps {
			if r.Chance(1, 2) {
				ps = append(ps, [2]float64{float64(hp.p), pickVal(r, hp.ord)})
			}
		}
		// element-specific properties: RES 35-41, PEN 43-49, taken 51-57, percent 60-66
		for _, base := range []int{35, 43, 51, 60} {
			for k := 0; k < 7; k++ {
				if r.Chance(1, 3) {
					ps = append(ps, [2]float64{float64(base + k), pickVal(r, []float64{0.2, 0.4, -0.2, 0.1, 1.2, 0.6})})
				}
			}
		}
		return ps
	})
}

// genUnit2 is genCombatUnit with a chosen level and hit-relevant attribute pools
func genUnit2(r *term.Rng, id int, lvl int, dyadic bool, extra func() [][2]float64) term.T {
	var ratio float64
	if dyadic {
		ratio = term.Pick(r, []float64{1, 0.5, 0.25, 0.75, 1})
	} else {
		ratio = term.Pick(r, []float64{1, 1, 0.5, 0.3, 0.999, 0.01, 0, 1e-9})
	}
	maxE := term.Pick(r, []float64{0, 100, 120, 140})
	energy := term.Pick(r, []float64{0, 50, 100, 115, 200})
	maxS := term.Pick(r, []float64{0, 30, 60, 90, 120})
	stance := term.Pick(r, []float64{0, 30, 60, 90, 120, 10, 45})
	if stance > maxS && !r.Chance(1, 10) {
		stance = maxS
	}
	weak := []term.T{}
	for d := 0; d <= 8; d++ {
		if r.Chance(1, 2) {
			weak = append(weak, term.I(int64(d)))
		}
	}
	ps := genBaseStats(r, dyadic)
	ps = append(ps, extra()...)
	return term.C("USpec", term.I(int64(id)), term.B(r.Bool()), term.I(int64(lvl)),
		fx(ratio), fx(energy), fx(maxE), fx(stance), fx(maxS), term.L(weak...), propsTerm(ps))
}

func genHitAdjs(r *term.Rng, dyadic bool) []term.T {
	out := []term.T{}
	if !r.Chance(1, 2) {
		return out
	}
	for n := r.Range(1, 3); n > 0; n-- {
		switch r.Intn(8) {
		case 0: // a base-stat property of either snapshot
			p := int64(r.Range(1, 12))
			var amt float64
			if dyadic {
				amt = term.Pick(r, []float64{0.25, -0.25, 16, 100, -64, 0.5})
			} else {
				amt = pickVal(r, []float64{0.1, -0.3, 100, 55.5, -200})
			}
			out = append(out, term.C("AProp", term.B(r.Bool()), term.I(p), fx(amt)))
		case 1, 2: // any other property a factor reads, on either snapshot
			p := term.Pick(r, []int64{17, 18, 33, 34, 42, 50, 58, 59, 67, 90, 91, 19,
				int64(35 + r.Intn(7)), int64(43 + r.Intn(7)), int64(51 + r.Intn(7)), int64(60 + r.Intn(7))})
			out = append(out, term.C("AProp", term.B(r.Bool()), term.I(p), fx(pickVal(r, []float64{0.1, 0.25, -0.5, 1.5, 0.3}))))
		case 3:
			c := plainCoef
			if dyadic {
				c = dyadicCoef
			}
			out = append(out, term.C("ATermSet", term.I(int64(r.Range(0, 5))), fx(term.Pick(r, c))))
		case 4:
			out = append(out, term.C("ATermDel", term.I(int64(r.Range(0, 5)))))
		case 5:
			out = append(out, term.C("AFlatSet", fx(term.Pick(r, plainFlat))))
		case 6:
			out = append(out, term.C("AFlatAdd", fx(term.Pick(r, plainFlat))))
		case 7:
			out = append(out, term.C("ARemap"))
		}
	}
	return out
}

func genHit(r0 *term.Rng, idx int) term.T {
	r := caseRng(r0, idx)
	dyadic := r.Chance(1, 3)
	nu := r.Range(2, 4)
	nLevels := len(combat.BreakBaseDamage)
	units := []term.T{}
	levels := map[int64]int{}
	for id := 1; id <= nu; id++ {
		lvl := r.Range(0, nLevels-1)
		if r.Chance(1, 40) {
			lvl = term.Pick(r, []int{-1, nLevels, nLevels + 49}) // outside the break table
		}
		if id == 1 && idx < nLevels {
			lvl = idx // every row of the break table is visited in each shard
		}
		levels[int64(id)] = lvl
		units = append(units, genHitUnit(r, id, lvl, dyadic))
	}
	limbo := []term.T{}
	for id := 1; id <= nu; id++ {
		if r.Chance(1, 3) {
			limbo = append(limbo, term.I(int64(id)))
		}
	}
	draws := []term.T{}
	for n := r.Range(0, 8); n > 0; n-- {
		draws = append(draws, fx(term.Pick(r, drawPool)))
	}
	anyID := func() int64 {
		if r.Chance(1, 20) {
			return 7 // never registered
		}
		return int64(r.Range(1, nu))
	}
	ops := []term.T{}
	nops := r.Range(2, 7)
	first := true
	for len(ops) < nops {
		w := tryHitWorld(units, limbo, draws, ops)
		if w == nil {
			break // the history already panics in the real code: keep it as it is
		}
		k := int64(len(ops))
		c := r.Intn(10)
		switch {
		case c == 0 && !first:
			ops = append(ops, term.C("AEndAttack"))
			continue
		case c == 1 && !first:
			t := anyID()
			st := w.attr.Stats(key.TargetID(t))
			cur, max := st.CurrentHP(), st.MaxHP()
			amt := term.Pick(r, []float64{-cur, -cur / 2, -math.Nextafter(cur, math.Inf(1)), -2 * max, 10, -max / 4})
			if math.IsNaN(amt) || math.IsInf(amt, 0) {
				amt = -1
			}
			ops = append(ops, term.C("AModHP", term.I(k), term.I(t), term.I(anyID()), fx(amt), term.B(r.Bool())))
			continue
		case c == 2 && !first:
			ops = append(ops, term.C("AShield", term.I(int64(r.Range(1, nu))), term.I(int64(r.Range(1, 3))),
				fx(term.Pick(r, []float64{100, 250.5, 1, 1000, 0, 5000}))))
			continue
		}
		// ---- an attack ----
		src := anyID()
		if idx < nLevels && first {
			src = 1
		}
		targets := []int64{}
		for n := r.Range(1, 3); n > 0; n-- {
			targets = append(targets, anyID())
		}
		if r.Chance(1, 25) {
			targets = nil
		}
		atype := int64(term.Pick(r, []int{1, 2, 3, 4, 5, 6, 7, 8, 9, 0, 12, 4, 9, 1}))
		dtype := int64(term.Pick(r, []int{1, 2, 3, 4, 5, 6, 7, 0, 8}))
		coef := plainCoef
		if dyadic {
			coef = dyadicCoef
		}
		var terms map[int64]float64
		var adjs []term.T
		for try := 0; ; try++ {
			terms = map[int64]float64{}
			for n := r.Range(0, 4); n > 0; n-- {
				terms[int64(r.Range(0, 5))] = term.Pick(r, coef)
			}
			if idx < nLevels && first {
				terms[4] = term.Pick(r, []float64{1, 0.5, 2})
			}
			adjs = genHitAdjs(r, dyadic)
			if try > 20 {
				adjs = nil
				terms = map[int64]float64{int64(r.Range(1, 4)): term.Pick(r, coef)}
			}
			eff, _ := finalFormula(terms, 0, adjs, 1, 4)
			// float sums over the Go map: at most two addends after the initial 0, or only exact
			// partial sums (dyadic stats; the break table is integral only for levels 0..3)
			if len(eff) <= 2 {
				break
			}
			if dyadic && (!eff[4] || (levels[src] >= 0 && levels[src] <= 3)) {
				break
			}
		}
		pure := r.Chance(1, 4)
		ratio := term.Pick(r, []float64{1, 1, 0, -1, 0.45, 0.5, 0.25, 2})
		energy := term.Pick(r, []float64{0, 5, 20, 30, 100, -10})
		stance := term.Pick(r, []float64{0, 30, 60, 10, 90, 15, 45, -30})
		flat := term.Pick(r, []float64{0, 0, 0, 50, 1234.5, -20})
		tl := []term.T{}
		for _, t := range targets {
			tl = append(tl, term.I(t))
		}
		atk := term.C("AAttack", term.I(k), term.I(int64(r.Intn(3))), term.I(src), term.L(tl...), term.I(atype), term.I(dtype),
			pmapTerm(toI32(terms)), fx(energy), fx(stance), fx(ratio), fx(flat), term.B(pure), term.B(r.Chance(1, 4)), term.L(adjs...))
		// aim shields and remaining HP at the damage this attack is going to deal
		if len(targets) > 0 && r.Chance(1, 3) {
			if w2 := tryHitWorld(units, limbo, draws, append(append([]term.T{}, ops...), atk)); w2 != nil {
				total := math.NaN()
				for _, it := range w2.trace[len(w.trace):] {
					n, a := term.Ctor(it)
					if n == "IHitEnd" {
						total = fxGet(term.List(a[6])[8])
						break
					}
				}
				if !math.IsNaN(total) && !math.IsInf(total, 0) && total > 0 {
					hp := term.Pick(r, []float64{total, math.Nextafter(total, math.Inf(1)), math.Nextafter(total, 0), total / 2, total * 2})
					if _, ok := w.tgt.chars[key.TargetID(targets[0])]; ok {
						ops = append(ops, term.C("AShield", term.I(targets[0]), term.I(int64(r.Range(1, 3))), fx(hp)))
						if r.Chance(1, 3) {
							ops = append(ops, term.C("AShield", term.I(targets[0]), term.I(int64(r.Range(1, 3))),
								fx(term.Pick(r, []float64{total / 4, total, total * 3}))))
						}
					}
				}
			}
		}
		ops = append(ops, atk)
		first = false
	}
	return term.Tup(term.L(units...), term.L(limbo...), term.L(draws...), term.L(ops...))
}

func kindsHit(in term.T) map[string]int {
	m := map[string]int{}
	it := term.TupleItems(in)
	for _, o := range term.List(it[3]) {
		n, a := term.Ctor(o)
		m[n]++
		if n == "AAttack" {
			m["attack_targets"] += len(term.List(a[3]))
			m["attack_terms"] += len(term.List(a[6]))
			m["atype_"+model.AttackType(term.Int(a[4])).String()]++
			if term.Bool(a[11]) {
				m["pure"]++
			}
			for _, ad := range term.List(a[13]) {
				an, _ := term.Ctor(ad)
				m["adj_"+an]++
			}
		}
	}
	return m
}

func init() {
	register("hit", component{gen: genHit, run: runHit, kinds: kindsHit})
}
