(* C20 -- tiny model of the catalog lookups done while a run is set up
   (pkg/simulation/run.go initialize / startBattle, pkg/engine/target/character/add.go
   AddCharacter, pkg/engine/equip/lightcone.Get, pkg/engine/equip/relic.Get,
   pkg/engine/target/enemy/add.go AddEnemy):

     for every character of the config, in order:
        character key   not in the character catalog  -> error "invalid character: <key>"
        light cone key  not in the light cone catalog -> error "invalid lightcone: <key>"
        a relic set key not in the relic catalog      -> error "invalid relic: <key>"
     then for every enemy, in order:
        enemy key       not in the enemy catalog      -> error "invalid enemy: <key>"

   The first failing lookup ends the run with that error.  (Go ranges over the relic COUNT map,
   so with two unknown relic sets on one character either may be named; the model names the
   first in configuration order, and the harness generates at most one unknown name.)
   Executable; no proofs here. *)
From Coq Require Import List String Bool.
From SR Require Import Base.GlobalTypes Model.RunSpec.
Import ListNotations.
Open Scope string_scope.

Record catalogs := mkCat {
  cat_chars : list string; cat_cones : list string; cat_relics : list string; cat_enemies : list string }.

Inductive reject := BadChar (k : string) | BadCone (k : string) | BadRelic (k : string) | BadEnemy (k : string).

Definition lookup (c : list string) (k : string) : bool := str_in k c.

Fixpoint first_unknown (c : list string) (ks : list string) : option string :=
  match ks with
  | [] => None
  | k :: r => if lookup c k then first_unknown c r else Some k
  end.

Definition add_character (cs : catalogs) (c : chspec) : option reject :=
  if negb (lookup (cat_chars cs) (ch_key c)) then Some (BadChar (ch_key c))
  else if negb (lookup (cat_cones cs) (ch_cone c)) then Some (BadCone (ch_cone c))
  else match first_unknown (cat_relics cs) (ch_relics c) with
       | Some k => Some (BadRelic k)
       | None => None
       end.

Fixpoint add_characters (cs : catalogs) (l : list chspec) : option reject :=
  match l with
  | [] => None
  | c :: r => match add_character cs c with Some e => Some e | None => add_characters cs r end
  end.

Fixpoint add_enemies (cs : catalogs) (l : list enspec) : option reject :=
  match l with
  | [] => None
  | e :: r => if lookup (cat_enemies cs) (en_key e) then add_enemies cs r else Some (BadEnemy (en_key e))
  end.

(* None: every lookup succeeded and the battle starts *)
Definition setup (cs : catalogs) (r : runspec) : option reject :=
  let '(RS chars enemies _ _ _) := r in
  match add_characters cs chars with
  | Some e => Some e
  | None => add_enemies cs enemies
  end.

(* the error text simulation.Run returns *)
Definition reject_message (e : reject) : string :=
  match e with
  | BadChar k => "error initializing character invalid character: " ++ k
  | BadCone k => "error initializing character invalid lightcone: " ++ k
  | BadRelic k => "error initializing character invalid relic: " ++ k
  | BadEnemy k => "error initializing enemy invalid enemy: " ++ k
  end.

(* every name a configuration mentions, with the catalog it must be in *)
Definition char_names_known (cs : catalogs) (c : chspec) : bool :=
  lookup (cat_chars cs) (ch_key c) && lookup (cat_cones cs) (ch_cone c) &&
  forallb (lookup (cat_relics cs)) (ch_relics c).
Definition all_names_known (cs : catalogs) (r : runspec) : bool :=
  let '(RS chars enemies _ _ _) := r in
  forallb (char_names_known cs) chars && forallb (fun e => lookup (cat_enemies cs) (en_key e)) enemies.
