(* C08 — Death is final and the dead do not act.  Statements about the whole-simulation model
   (Model/Sim.v); only [exact] and [Print Assumptions] here.  The trace-level predicate
   [death_ok] / [killer_ok_from] of Model/SimProtocol.v is evaluated on every real trace. *)
From Coq Require Import List ZArith Bool.
From SR Require Import Base.CaseLib Base.NumOps Model.Turn Model.Sim Model.SimProtocol Proofs.SimProofs Proofs.SimDeath Proofs.SimDeathTrace.
Import ListNotations.

(* what a death check kills: dead units always, units held in limbo only at the turn-end check *)
Theorem C08_who_is_killed : forall s k id u, get_unit (units s) id = Some u ->
  should_kill s k id = match ust u with Dead => true | Limbo => k | Alive => false end.
Proof. exact should_kill_spec. Qed.
Print Assumptions C08_who_is_killed.

(* for every state, fuel, content: the living lists after a death check are exactly the old
   lists without the killed units; nothing the check runs (energy-on-kill hook, death
   listeners with any scripts) touches them; lists only shrink *)
Theorem C08_death_check_lists : forall cfg fuel s k s', death_check cfg fuel s k = Some s' ->
  chars s' = filter (fun i => negb (should_kill s k i)) (chars s) /\
  enemies s' = filter (fun i => negb (should_kill s k i)) (enemies s).
Proof. exact death_check_lists. Qed.
Print Assumptions C08_death_check_lists.

Theorem C08_killed_units_leave_the_lists : forall cfg fuel s k s' id, death_check cfg fuel s k = Some s' ->
  should_kill s k id = true -> ~ In id (chars s') /\ ~ In id (enemies s').
Proof. exact death_check_removes. Qed.
Print Assumptions C08_killed_units_leave_the_lists.

(* content never changes the living lists: any script, any listener nesting *)
Theorem C08_content_cannot_touch_lists : forall cfg fuel lm s self p sc s',
  exec_ops cfg fuel lm s self p sc = Some s' -> chars s' = chars s /\ enemies s' = enemies s.
Proof. intros cfg fuel lm s self p sc s' H. exact (sl_exec_ops cfg fuel lm s self p sc s' H). Qed.
Print Assumptions C08_content_cannot_touch_lists.

(* death is final: no content script, with any nesting of listeners (HPChange listeners included),
   brings a dead unit back to life or puts it into limbo *)
Theorem C08_dead_stays_dead : forall cfg fuel lm s self p sc s',
  exec_ops cfg fuel lm s self p sc = Some s' ->
  forall id, state_of s id = Some Dead -> state_of s' id = Some Dead.
Proof. intros cfg fuel lm s self p sc s' H. exact (dead_is_final cfg fuel lm s self p sc s' H). Qed.
Print Assumptions C08_dead_stays_dead.

(* the dead do not act: an action starts only for a unit whose state is Alive *)
Theorem C08_action_needs_alive : forall cfg fuel s id ins s', execute_action cfg fuel s id ins = AOk s' ->
  (exists u, get_unit (units s) id = Some u /\ ust u = Alive) \/ s' = s.
Proof. exact action_needs_alive. Qed.
Print Assumptions C08_action_needs_alive.

(* queued inserts of a dead / removed / flagged source are dropped: no event, nothing executed *)
Theorem C08_dead_inserts_dropped : forall cfg fuel s t s1, pop s = Some (t, s1) ->
  chars s <> [] -> enemies s <> [] -> droppable s1 t = true -> drain cfg (S fuel) s = drain cfg fuel s1.
Proof. exact drain_drops. Qed.
Print Assumptions C08_dead_inserts_dropped.

(* the trace-level statement, for every configuration, every content script set and every run
   length: in the trace of every run that ends (Termination or an error return), a unit is announced
   dead at most once and, from its announcement on, it is absent from every turn order snapshot
   (turn start, turn reset), every sample of the living lists and the turn order, every turn-end
   snapshot, is never the unit whose turn starts, and starts no action and no insert *)
Theorem C08_trace_level : forall cfg fuel s, start cfg fuel = Stop s \/ start cfg fuel = Err s ->
  death_ok (trace s) = true.
Proof. exact death_trace. Qed.
Print Assumptions C08_trace_level.

(* non-vacuity and the trace predicate on a model run with a kill *)
Theorem C08_nonvacuous :
  match start demo_cfg 200 with
  | Stop s => death_ok (trace s) && killer_ok_from [] [] (trace s) &&
              existsb (fun e => match e with VTargetDeath _ _ => true | _ => false end) (trace s)
  | _ => false
  end = true.
Proof. vm_compute. reflexivity. Qed.
