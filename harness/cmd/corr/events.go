package main

import (
	"fmt"
	"github.com/simimpact/srsim/pkg/engine/event/handler"
	"github.com/simimpact/srsim/pkg/engine/logging"
	"math"

	"verif/harness/term"
)

// ---- the real generic handlers, instantiated on a small event type ----

type ev struct {
	H int
	V int64
	C bool
}

func (e ev) Cancelled() handler.CancellableEvent { e.C = true; return e }

type evWorld struct {
	kinds  []string
	simple map[int]*handler.EventHandler[ev]
	prio   map[int]*handler.PriorityEventHandler[ev]
	mut    map[int]*handler.MutableEventHandler[ev]
	cancel map[int]*handler.CancelableEventHandler[ev]
	reacts map[int64][]term.T
	nextID int64
	trace  []term.T
}

type evLogger struct {
	id int64
	w  *evWorld
}

func (l *evLogger) Log(e any) {
	var x ev
	switch v := e.(type) {
	case ev:
		x = v
	case *ev:
		x = *v
	case handler.CancellableEvent:
		x = v.(ev)
	default:
		panic("unexpected event type")
	}
	l.w.trace = append(l.w.trace, term.C("ILog", term.I(l.id), term.Nat(x.H), term.I(x.V), term.B(x.C)))
}

func (w *evWorld) pop(lid int64) (x term.T, cancel bool, acts []term.T) {
	q := w.reacts[lid]
	if len(q) == 0 {
		return term.C("XAdd", term.I(0)), false, nil
	}
	w.reacts[lid] = q[1:]
	_, a := term.Ctor(q[0]) // mkR x cancel acts
	return a[0], term.Bool(a[1]), term.List(a[2])
}

func applyX(x term.T, v int64) int64 {
	n, a := term.Ctor(x)
	k := term.Int(a[0])
	switch n {
	case "XAdd":
		return v + k
	case "XMul":
		return v * k
	case "XSet":
		return k
	}
	panic("bad xform")
}

func (w *evWorld) emit(h int, v int64) {
	if h < 0 || h >= len(w.kinds) {
		panic("emit on unknown handler")
	}
	w.trace = append(w.trace, term.C("IEmit", term.Nat(h), term.I(v)))
	switch w.kinds[h] {
	case "KSimple":
		w.simple[h].Emit(ev{H: h, V: v})
		w.trace = append(w.trace, term.C("IRet", term.Nat(h), term.B(false), term.I(v)))
	case "KPriority":
		w.prio[h].Emit(ev{H: h, V: v})
		w.trace = append(w.trace, term.C("IRet", term.Nat(h), term.B(false), term.I(v)))
	case "KMutable":
		e := ev{H: h, V: v}
		w.mut[h].Emit(&e)
		w.trace = append(w.trace, term.C("IRet", term.Nat(h), term.B(false), term.I(e.V)))
	case "KCancel":
		c := w.cancel[h].Emit(ev{H: h, V: v})
		w.trace = append(w.trace, term.C("IRet", term.Nat(h), term.B(c), term.I(v)))
	}
}

// one operation of the component, from the top-level history or from inside a listener (then it
// re-enters the real handlers while the outer Emit is still in its listener loop)
func (w *evWorld) exec(o term.T) {
	name, a := term.Ctor(o)
	switch name {
	case "OSub":
		w.subscribe(int(term.Int(a[0])), term.Int(a[1]), term.List(a[2]))
	case "OEmit":
		w.emit(int(term.Int(a[0])), term.Int(a[1]))
	case "OInit":
		ls := []logging.Logger{}
		ids := []term.T{}
		for _, id := range term.List(a[0]) {
			ls = append(ls, &evLogger{id: term.Int(id), w: w})
			ids = append(ids, term.I(term.Int(id)))
		}
		logging.InitLoggers(ls...)
		w.trace = append(w.trace, term.C("IInit", term.L(ids...)))
	default:
		panic("bad op " + name)
	}
}

// body of every listener: record the call, run the script (re-entrant operations), then react
func (w *evWorld) react(lid int64, h int, v int64) (int64, bool) {
	w.trace = append(w.trace, term.C("ICall", term.I(lid), term.Nat(h), term.I(v)))
	x, cancel, acts := w.pop(lid)
	for _, a := range acts {
		w.exec(a)
	}
	return applyX(x, v), cancel
}

func (w *evWorld) subscribe(h int, prio int64, rs []term.T) {
	if h < 0 || h >= len(w.kinds) {
		panic("subscribe on unknown handler")
	}
	lid := w.nextID
	w.nextID++
	w.reacts[lid] = rs
	switch w.kinds[h] {
	case "KSimple":
		w.simple[h].Subscribe(func(e ev) { w.react(lid, h, e.V) })
	case "KPriority":
		w.prio[h].Subscribe(func(e ev) { w.react(lid, h, e.V) }, int(prio))
	case "KMutable":
		w.mut[h].Subscribe(func(e *ev) { e.V, _ = w.react(lid, h, e.V) }, int(prio))
	case "KCancel":
		w.cancel[h].Subscribe(func(e ev) bool { _, c := w.react(lid, h, e.V); return c }, int(prio))
	}
	w.trace = append(w.trace, term.C("ISub", term.I(lid), term.Nat(h), term.I(prio)))
}

func runEvents(in term.T) term.T {
	it := term.TupleItems(in)
	w := &evWorld{
		simple: map[int]*handler.EventHandler[ev]{},
		prio:   map[int]*handler.PriorityEventHandler[ev]{},
		mut:    map[int]*handler.MutableEventHandler[ev]{},
		cancel: map[int]*handler.CancelableEventHandler[ev]{},
		reacts: map[int64][]term.T{},
	}
	for i, k := range term.List(it[0]) {
		name, _ := term.Ctor(k)
		w.kinds = append(w.kinds, name)
		switch name {
		case "KSimple":
			w.simple[i] = &handler.EventHandler[ev]{}
		case "KPriority":
			w.prio[i] = &handler.PriorityEventHandler[ev]{}
		case "KMutable":
			w.mut[i] = &handler.MutableEventHandler[ev]{}
		case "KCancel":
			w.cancel[i] = &handler.CancelableEventHandler[ev]{}
		}
	}
	logging.InitLoggers()
	defer logging.InitLoggers()
	for _, o := range term.List(it[1]) {
		w.exec(o)
	}
	return term.C("Obs", term.L(w.trace...))
}

// ---- generator ----

// evGen carries the budgets that keep a history small: listeners per handler (sort.Sort is an insertion
// sort, hence stable, only up to 12 elements), reactions and script operations in total
type evGen struct {
	r        *term.Rng
	nh       int
	kinds    []string
	subs     []int
	maxSubs  int
	prios    []int64
	big      bool
	distinct map[int]int64
	reacts   int // reactions generated so far (each is consumed by at most one listener call)
	acts     int // script operations generated so far
}

func (g *evGen) prioFor(h int, around int64, haveAround bool) int64 {
	if g.big {
		// pairwise distinct priorities per handler, arriving out of order: 7*k mod 41 walks 0..40 without repeats
		k := g.distinct[h]
		g.distinct[h]++
		return (7*k)%41 - 20
	}
	if haveAround && g.r.Chance(2, 3) {
		// aimed at the running loop: before / same key / after the listener that subscribes
		switch g.r.Intn(4) {
		case 0, 1:
			if around > math.MinInt64 {
				return around - 1
			}
			return around
		case 2:
			return around
		default:
			if around < math.MaxInt64 {
				return around + 1
			}
			return around
		}
	}
	return term.Pick(g.r, g.prios)
}

func (g *evGen) canSub(h int) bool { return g.subs[h] < g.maxSubs }

// a reaction of a listener of handler h (priority prio) at script nesting depth d
func (g *evGen) reaction(h int, prio int64, d int) term.T {
	r := g.r
	g.reacts++
	var x term.T
	switch r.Intn(4) {
	case 0:
		x = term.C("XAdd", term.I(int64(r.Range(-3, 3))))
	case 1:
		x = term.C("XMul", term.I(int64(r.Range(-2, 3))))
	case 2:
		x = term.C("XSet", term.I(int64(r.Range(-5, 5))))
	default:
		x = term.C("XAdd", term.I(0))
	}
	acts := []term.T{}
	if r.Chance(2, 5) && g.acts < 70 {
		n := 1
		if r.Chance(1, 3) {
			n = 2
		}
		if r.Chance(1, 12) {
			n = 3
		}
		for ; n > 0; n-- {
			acts = append(acts, g.act(h, prio, d))
		}
	}
	return term.C("mkR", x, term.B(r.Chance(1, 4)), term.L(acts...))
}

// one script operation of a listener of handler h: mostly aimed at h itself
func (g *evGen) act(h int, prio int64, d int) term.T {
	r := g.r
	g.acts++
	target := h
	if r.Chance(1, 3) {
		target = r.Intn(g.nh)
	}
	switch {
	case r.Chance(9, 20) && g.canSub(target):
		// Subscribe from inside the listener loop; the new listener may carry scripts itself
		g.subs[target]++
		p := g.prioFor(target, prio, target == h)
		rs := []term.T{}
		if d < 2 && g.reacts < 60 && r.Chance(1, 2) {
			for k := r.Range(1, 2); k > 0 && g.reacts < 60; k-- {
				rs = append(rs, g.reaction(target, p, d+1))
			}
		}
		return term.C("OSub", term.Nat(target), term.I(p), term.L(rs...))
	case r.Chance(1, 8):
		ls := []term.T{}
		for k := r.Intn(3); k > 0; k-- {
			ls = append(ls, term.I(int64(100+len(ls)+r.Intn(2))))
		}
		return term.C("OInit", term.L(ls...))
	default:
		// the same event again (or another one)
		return term.C("OEmit", term.Nat(target), term.I(int64(r.Range(-9, 9))))
	}
}

// genEventsLong: state that only differs after MANY uses of one handler: 70-140 emissions on a handler
// whose first listener cancels (or just rewrites) most of them, a second listener behind it that sees
// the ones that get through, sometimes a subscription half way.
func genEventsLong(r *term.Rng) term.T {
	allKinds := []string{"KSimple", "KPriority", "KMutable", "KCancel"}
	k0 := "KCancel"
	if r.Chance(1, 3) {
		k0 = term.Pick(r, allKinds)
	}
	kinds := []term.T{term.C(k0)}
	if r.Bool() {
		kinds = append(kinds, term.C(term.Pick(r, allKinds)))
	}
	n := r.Range(70, 140)
	rs := []term.T{}
	for i := 0; i < n; i++ {
		x := term.C("XAdd", term.I(int64(r.Range(0, 2))))
		rs = append(rs, term.C("mkR", x, term.B(r.Chance(9, 10)), term.L()))
	}
	ops := []term.T{term.C("OInit", term.L(term.I(100))),
		term.C("OSub", term.Nat(0), term.I(int64(r.Range(-1, 1))), term.L(rs...)),
		term.C("OSub", term.Nat(0), term.I(int64(r.Range(2, 5))), term.L())}
	half := r.Range(0, n)
	for i := 0; i < n+r.Range(3, 8); i++ {
		if i == half && r.Bool() {
			ops = append(ops, term.C("OSub", term.Nat(0), term.I(int64(r.Range(-3, 6))), term.L()))
		}
		h := 0
		if len(kinds) > 1 && r.Chance(1, 10) {
			h = 1
		}
		ops = append(ops, term.C("OEmit", term.Nat(h), term.I(int64(r.Range(-9, 9)))))
	}
	return term.Tup(term.L(kinds...), term.L(ops...))
}

func genEvents(r *term.Rng, idx int) term.T {
	allKinds := []string{"KSimple", "KPriority", "KMutable", "KCancel"}
	if r.Chance(1, 12) {
		return genEventsLong(r)
	}
	nh := r.Range(2, 6)
	if r.Chance(1, 4) {
		nh = r.Range(1, 2) // few handlers: everything collides on the same listener slice
	}
	kinds := []term.T{}
	knames := []string{}
	for i := 0; i < nh; i++ {
		k := term.Pick(r, allKinds)
		if i < 4 && nh >= 4 {
			k = allKinds[i]
		} else if nh <= 2 && r.Chance(2, 3) {
			k = allKinds[1+r.Intn(3)]
		}
		kinds = append(kinds, term.C(k))
		knames = append(knames, k)
	}
	nops := r.Range(3, 40)
	ops := []term.T{}
	g := &evGen{r: r, nh: nh, kinds: knames, subs: make([]int, nh), maxSubs: 12, distinct: map[int]int64{}}
	// a small priority pool makes equal and negative priorities the norm
	g.prios = []int64{-2, -1, 0, 0, 1, 5}
	if r.Chance(1, 5) {
		// extreme but valid priorities ("always first" / "always last" sentinels): differences that do
		// not fit an int must still compare correctly
		g.prios = []int64{math.MinInt64, math.MinInt64 + 1, -100, -1, 0, 1, 100, math.MaxInt64 - 1, math.MaxInt64}
	}
	// big mode: more listeners on a handler than sort.Sort's insertion-sort bound (12) and than any small
	// fixed buffer, all with pairwise distinct priorities (so every correct sort gives the same order)
	g.big = r.Chance(1, 6)
	if g.big {
		nops = r.Range(30, 70)
		g.maxSubs = 40
	}
	if r.Chance(9, 10) {
		ops = append(ops, term.C("OInit", term.L(term.I(100), term.I(101))))
	}
	for len(ops) < nops {
		switch {
		case r.Chance(1, 2):
			h := r.Intn(nh)
			if g.big && r.Chance(2, 3) {
				h = 0
				if nh >= 4 {
					h = 3 - r.Intn(3) // one of the priority / mutable / cancelable handlers
				}
			}
			if !g.canSub(h) {
				if r.Chance(1, 4) {
					ops = append(ops, term.C("OEmit", term.Nat(h), term.I(int64(r.Range(-9, 9)))))
				}
				continue
			}
			g.subs[h]++
			p := g.prioFor(h, 0, false)
			rs := []term.T{}
			if g.big {
				if r.Chance(1, 3) && g.reacts < 40 {
					rs = append(rs, g.reaction(h, p, 0))
				}
			} else {
				for k := r.Intn(4); k > 0 && g.reacts < 60; k-- {
					rs = append(rs, g.reaction(h, p, 0))
				}
			}
			ops = append(ops, term.C("OSub", term.Nat(h), term.I(p), term.L(rs...)))
		case r.Chance(1, 12):
			ls := []term.T{}
			k := r.Intn(4)
			if r.Chance(1, 6) {
				k = r.Range(9, 14) // more loggers than any small fixed buffer
			}
			for ; k > 0; k-- {
				ls = append(ls, term.I(int64(100+len(ls))))
			}
			ops = append(ops, term.C("OInit", term.L(ls...)))
		default:
			ops = append(ops, term.C("OEmit", term.Nat(r.Intn(nh)), term.I(int64(r.Range(-9, 9)))))
		}
	}
	return term.Tup(term.L(kinds...), term.L(ops...))
}

func countScript(m map[string]int, h int, rs []term.T, depth int) {
	for _, rr := range rs {
		_, ra := term.Ctor(rr)
		if term.Bool(ra[1]) {
			m["reaction_cancel"]++
		}
		for _, a := range term.List(ra[2]) {
			n, aa := term.Ctor(a)
			same := n != "OInit" && int(term.Int(aa[0])) == h
			switch n {
			case "OEmit":
				m["script_emit"]++
				if same {
					m["script_emit_same_handler"]++
				}
			case "OSub":
				m["script_subscribe"]++
				if same {
					m["script_subscribe_same_handler"]++
				}
				if depth+1 > m["_depth"] {
					m["_depth"] = depth + 1
				}
				countScript(m, int(term.Int(aa[0])), term.List(aa[2]), depth+1)
			case "OInit":
				m["script_init_loggers"]++
			}
		}
	}
}

func kindsEvents(in term.T) map[string]int {
	m := map[string]int{}
	it := term.TupleItems(in)
	for _, o := range term.List(it[1]) {
		n, a := term.Ctor(o)
		m[n]++
		if n == "OSub" {
			countScript(m, int(term.Int(a[0])), term.List(a[2]), 0)
		}
	}
	// histories by depth of Subscribe-inside-script nesting (one count per history)
	d := m["_depth"]
	delete(m, "_depth")
	m[fmt.Sprintf("history_script_subscribe_depth_%d", d)] = 1
	if m["script_emit"]+m["script_subscribe"]+m["script_init_loggers"] > 0 {
		m["history_reentrant"] = 1
	}
	return m
}

func init() {
	register("events", component{gen: genEvents, run: runEvents, kinds: kindsEvents})
}
