From Coq Require Import List ZArith Bool Lia Arith Sorting.Sorted Permutation.
From SR Require Import Model.Events.
Import ListNotations.
Open Scope Z_scope.

(* ------------------------------------------------------------------ *)
(* Small list facts                                                     *)
(* ------------------------------------------------------------------ *)

Lemma skipn_firstn_nth {A} : forall (a : list A) (i N : nat) (l : A),
  nth_error a i = Some l -> (i < N)%nat ->
  skipn i (firstn N a) = l :: skipn (S i) (firstn N a).
Proof.
  induction a as [|x a IH]; intros i N l Hn Hlt.
  - destruct i; discriminate.
  - destruct N as [|N]; [lia|]. destruct i as [|i].
    + cbn in Hn. inversion Hn; subst. reflexivity.
    + cbn [nth_error] in Hn. cbn [firstn]. cbn [skipn].
      rewrite (IH i N l Hn) by lia. reflexivity.
Qed.

Lemma firstn_app_le {A} (a b : list A) n : (n <= length a)%nat -> firstn n (a ++ b) = firstn n a.
Proof.
  intros H. rewrite firstn_app. replace (n - length a)%nat with O by lia.
  cbn. apply app_nil_r.
Qed.

Lemma nth_error_update_nth_eq {A} (f : A -> A) : forall (l : list A) n x,
  nth_error l n = Some x -> nth_error (update_nth n f l) n = Some (f x).
Proof.
  induction l as [|y l IH]; intros n x H; destruct n; cbn in *; try discriminate.
  - inversion H; reflexivity.
  - apply IH; exact H.
Qed.

Lemma nth_error_update_nth_neq {A} (f : A -> A) : forall (l : list A) n m,
  n <> m -> nth_error (update_nth n f l) m = nth_error l m.
Proof.
  induction l as [|y l IH]; intros n m H; destruct n, m; cbn; try reflexivity; try congruence.
  apply IH. congruence.
Qed.

(* ------------------------------------------------------------------ *)
(* Handler tables: what Subscribe maintains                             *)
(* ------------------------------------------------------------------ *)

Definition prio_sorted (ls : list listener) : Prop :=
  Sorted (fun a b => l_prio a <= l_prio b) ls.
Definition ids_increasing (ls : list listener) : Prop :=
  StronglySorted (fun a b => l_id a < l_id b) ls.

(* unique listeners; simple handlers keep subscription order (ids are a counter), the
   others ascending priority *)
Definition table_ok (k : hkind) (ls : list listener) : Prop :=
  NoDup (map l_id ls) /\
  match k with
  | KSimple => ids_increasing ls
  | _ => prio_sorted ls
  end.

Definition handler_wf (bound : Z) (hd : handler) : Prop :=
  Forall (fun l => l_id l < bound) (h_ls hd) /\ table_ok (h_kind hd) (h_ls hd).

Lemma insert_prio_perm l ls : Permutation (l :: ls) (insert_prio l ls).
Proof.
  induction ls as [|y ls IH]; cbn; [reflexivity|].
  destruct (l_prio l <? l_prio y); [reflexivity|].
  rewrite perm_swap. constructor. exact IH.
Qed.

Lemma insert_prio_sorted l ls : prio_sorted ls -> prio_sorted (insert_prio l ls).
Proof.
  unfold prio_sorted. induction ls as [|y ls IH]; intros H; cbn.
  - repeat constructor.
  - destruct (l_prio l <? l_prio y) eqn:E.
    + constructor; [exact H|]. constructor. apply Z.ltb_lt in E. lia.
    + apply Z.ltb_ge in E. inversion H as [|? ? Hs Hh]; subst.
      constructor; [apply IH; exact Hs|].
      destruct ls as [|z ls]; cbn.
      * constructor. exact E.
      * destruct (l_prio l <? l_prio z); constructor; [exact E|].
        inversion Hh; subst. assumption.
Qed.

(* stable insertion: the new listener goes after every listener of priority <= its own and
   the relative order of the old listeners is kept *)
Lemma insert_prio_split l ls : exists a b, ls = a ++ b /\ insert_prio l ls = a ++ l :: b /\
  Forall (fun x => l_prio x <= l_prio l) a /\
  match b with [] => True | y :: _ => l_prio l < l_prio y end.
Proof.
  induction ls as [|y ls IH]; cbn.
  - exists [], []. repeat split; constructor.
  - destruct (l_prio l <? l_prio y) eqn:E.
    + exists [], (y :: ls). apply Z.ltb_lt in E. repeat split; auto.
    + destruct IH as (a & b & E1 & E2 & E4 & E5). apply Z.ltb_ge in E.
      exists (y :: a), b. subst ls. cbn. rewrite E2. repeat split; auto.
Qed.

Lemma insert_prio_length l ls : length (insert_prio l ls) = S (length ls).
Proof. rewrite <- (Permutation_length (insert_prio_perm l ls)). reflexivity. Qed.

Lemma ins_perm k l ls : Permutation (l :: ls) (ins k l ls).
Proof.
  destruct k; cbn [ins]; try apply insert_prio_perm. apply Permutation_cons_append.
Qed.

Lemma ins_length k l ls : length (ins k l ls) = S (length ls).
Proof. rewrite <- (Permutation_length (ins_perm k l ls)). reflexivity. Qed.

Lemma NoDup_app_local {A} (l : list A) x : NoDup l -> ~ In x l -> NoDup (l ++ [x]).
Proof.
  intros Hnd Hni. eapply Permutation_NoDup; [apply Permutation_cons_append|].
  constructor; assumption.
Qed.

Lemma handler_wf_mono b b' hd : b <= b' -> handler_wf b hd -> handler_wf b' hd.
Proof.
  intros Hle (Hb & Hr). split; [|exact Hr].
  eapply Forall_impl; [|exact Hb]. cbn; intros; lia.
Qed.

Lemma ids_increasing_snoc ls l :
  ids_increasing ls -> Forall (fun x => l_id x < l_id l) ls -> ids_increasing (ls ++ [l]).
Proof.
  unfold ids_increasing. induction ls as [|y ls IH]; intros Hs Hb; cbn.
  - repeat constructor.
  - inversion Hs; subst. inversion Hb; subst. constructor; [apply IH; assumption|].
    apply Forall_app; split; [assumption|]. constructor; [assumption|constructor].
Qed.

Lemma ins_table_ok b k prio ls :
  Forall (fun l => l_id l < b) ls -> table_ok k ls ->
  Forall (fun l => l_id l < b + 1) (ins k (mkL b prio) ls) /\ table_ok k (ins k (mkL b prio) ls).
Proof.
  intros Hb (Hnd & Hk).
  assert (Hnotin : ~ In b (map l_id ls)).
  { intros Hin. apply in_map_iff in Hin. destruct Hin as (x & Hx & Hin).
    rewrite Forall_forall in Hb. apply Hb in Hin. lia. }
  assert (Hb' : Forall (fun l => l_id l < b + 1) ls).
  { eapply Forall_impl; [|exact Hb]. cbn; intros; lia. }
  pose proof (ins_perm k (mkL b prio) ls) as HPm.
  split; [|split].
  - eapply Permutation_Forall; [exact HPm|]. constructor; [cbn; lia|exact Hb'].
  - eapply Permutation_NoDup; [apply Permutation_map; exact HPm|].
    cbn. constructor; assumption.
  - destruct k; cbn [ins]; try (apply insert_prio_sorted; exact Hk).
    apply ids_increasing_snoc; [exact Hk|exact Hb].
Qed.

Lemma subscribe_h_shape hd l hd' : subscribe_h hd l = Some hd' ->
  h_kind hd' = h_kind hd /\ h_ls hd' = ins (h_kind hd) l (h_ls hd).
Proof.
  unfold subscribe_h. intros H. destruct (h_kind hd) eqn:K.
  - destruct (Nat.ltb (length (h_ls hd)) (h_cap hd)).
    + inversion H; subst; clear H. cbn. auto.
    + destruct (grow (h_cap hd)) as [c'|]; [|discriminate].
      inversion H; subst; clear H. cbn. auto.
  - inversion H; subst; clear H. cbn. auto.
  - inversion H; subst; clear H. cbn. auto.
  - inversion H; subst; clear H. cbn. auto.
Qed.

Lemma subscribe_h_wf b hd prio hd' :
  handler_wf b hd -> subscribe_h hd (mkL b prio) = Some hd' -> handler_wf (b + 1) hd'.
Proof.
  intros (Hb & Ht) H. apply subscribe_h_shape in H. destruct H as (Hk & Hl).
  unfold handler_wf. rewrite Hk, Hl. apply ins_table_ok; assumption.
Qed.

Definition world_wf (w : world) : Prop := Forall (handler_wf (next_id w)) (hs w).

Lemma update_nth_Forall {A} (P Q : A -> Prop) f : (forall x, P x -> Q x) ->
  forall n l x, nth_error l n = Some x -> Q (f x) -> Forall P l -> Forall Q (update_nth n f l).
Proof.
  intros HPQ n l. revert n. induction l as [|y l IH]; intros n x Hn Hq H; cbn.
  - destruct n; constructor.
  - inversion H; subst. destruct n; cbn in Hn.
    + inversion Hn; subst. constructor; [exact Hq|].
      eapply Forall_impl; [|eassumption]. exact HPQ.
    + constructor; [auto|]. eapply IH; eassumption.
Qed.

Lemma init_wf kinds : world_wf (init kinds).
Proof.
  unfold world_wf, init. cbn. induction kinds as [|k ks IH]; cbn; constructor; [|exact IH].
  unfold handler_wf, table_ok. cbn. repeat split; try constructor. destruct k; constructor.
Qed.

(* ------------------------------------------------------------------ *)
(* Backing arrays: what a running listener loop can observe             *)
(* ------------------------------------------------------------------ *)

(* an array, once it exists, only ever grows at its end: nothing is written below its length *)
Definition hd_evolves (hd hd' : handler) : Prop :=
  h_kind hd' = h_kind hd /\
  forall g a, arr hd g = Some a -> exists tl, arr hd' g = Some (a ++ tl).

Definition evolves (w w' : world) : Prop :=
  forall h hd, nth_error (hs w) h = Some hd ->
    exists hd', nth_error (hs w') h = Some hd' /\ hd_evolves hd hd'.

Lemma hd_evolves_refl hd : hd_evolves hd hd.
Proof.
  split; [reflexivity|]. intros g a Ha. exists []. rewrite app_nil_r. exact Ha.
Qed.

Lemma evolves_same_hs w w' : hs w' = hs w -> evolves w w'.
Proof.
  intros E h hd Hn. exists hd. rewrite E. split; [exact Hn|]. apply hd_evolves_refl.
Qed.

Lemma evolves_trans w w1 w2 : evolves w w1 -> evolves w1 w2 -> evolves w w2.
Proof.
  intros H1 H2 h hd Hn.
  destruct (H1 h hd Hn) as (hd1 & Hn1 & Hk1 & Ha1).
  destruct (H2 h hd1 Hn1) as (hd2 & Hn2 & Hk2 & Ha2).
  exists hd2. split; [exact Hn2|]. split; [congruence|].
  intros g a Ha.
  destruct (Ha1 g a Ha) as (t1 & Hg1).
  destruct (Ha2 g _ Hg1) as (t2 & Hg2).
  exists (t1 ++ t2). rewrite app_assoc. exact Hg2.
Qed.

Lemma arr_le hd g a : arr hd g = Some a -> (g <= h_gen hd)%nat.
Proof.
  unfold arr. destruct (Nat.eqb g (h_gen hd)) eqn:E.
  - apply Nat.eqb_eq in E. lia.
  - destruct (Nat.ltb g (h_gen hd)) eqn:E2; [|discriminate]. apply Nat.ltb_lt in E2. lia.
Qed.

Lemma arr_current hd : arr hd (h_gen hd) = Some (h_ls hd).
Proof. unfold arr. rewrite Nat.eqb_refl. reflexivity. Qed.

Lemma realloc_arr k ls' c' hd g a : arr hd g = Some a ->
  arr (mkH k ls' c' (S (h_gen hd)) ((h_gen hd, h_ls hd) :: h_old hd)) g = Some a.
Proof.
  intros Ha. pose proof (arr_le _ _ _ Ha) as Hle.
  unfold arr in *. cbn [h_gen h_ls h_old lookup_arr].
  destruct (Nat.eqb g (S (h_gen hd))) eqn:E1; [apply Nat.eqb_eq in E1; lia|].
  assert (Nat.ltb g (S (h_gen hd)) = true) as -> by (apply Nat.ltb_lt; lia).
  destruct (Nat.eqb g (h_gen hd)) eqn:E; [exact Ha|].
  destruct (Nat.ltb g (h_gen hd)); [exact Ha|discriminate].
Qed.

(* Subscribe: every array that exists keeps its contents; the only write into an existing
   array is a simple handler's append at index len *)
Lemma subscribe_h_arr hd l hd' : subscribe_h hd l = Some hd' -> hd_evolves hd hd'.
Proof.
  intros H. pose proof (subscribe_h_shape _ _ _ H) as (Hk & Hl).
  split; [exact Hk|]. intros g a Ha.
  unfold subscribe_h in H. destruct (h_kind hd) eqn:K.
  - destruct (Nat.ltb (length (h_ls hd)) (h_cap hd)).
    + (* in place, at the end *)
      inversion H; subst hd'; clear H. unfold arr in *. cbn [h_gen h_ls h_old] in *.
      destruct (Nat.eqb g (h_gen hd)) eqn:E.
      * inversion Ha; subst a. exists [l]. reflexivity.
      * exists []. rewrite app_nil_r. exact Ha.
    + destruct (grow (h_cap hd)) as [c'|]; [|discriminate].
      inversion H; subst hd'; clear H. exists []. rewrite app_nil_r. apply realloc_arr. exact Ha.
  - inversion H; subst hd'; clear H. exists []. rewrite app_nil_r. apply realloc_arr. exact Ha.
  - inversion H; subst hd'; clear H. exists []. rewrite app_nil_r. apply realloc_arr. exact Ha.
  - inversion H; subst hd'; clear H. exists []. rewrite app_nil_r. apply realloc_arr. exact Ha.
Qed.

(* ------------------------------------------------------------------ *)
(* Specification of one emission frame                                  *)
(* ------------------------------------------------------------------ *)

Definition canceller (k : hkind) (c : call) : bool :=
  kind_eqb k KCancel && r_cancel (call_r c).

(* DELIVERY: the listeners called are exactly those subscribed when Emit was entered, each
   once, in the handler's order - all of them without a cancellation, a prefix with one *)
Definition delivery_ok (fr : frame) : Prop :=
  match fr with
  | Frame h k ls0 vin calls vout c lgs =>
      (c = false -> map call_l calls = ls0) /\
      (c = true -> exists post, ls0 = map call_l calls ++ post)
  end.

(* CANCELLATION: reported iff some listener cancels, only by a cancelable handler; the loop
   stops at the first canceller *)
Definition cancel_ok (fr : frame) : Prop :=
  match fr with
  | Frame h k ls0 vin calls vout c lgs =>
      (c = false -> length calls = length ls0 /\
                    (k = KCancel -> Forall (fun cl => r_cancel (call_r cl) = false) calls)) /\
      (c = true -> k = KCancel /\ (length calls <= length ls0)%nat /\
         exists pre lst, calls = pre ++ [lst] /\ r_cancel (call_r lst) = true /\
           Forall (fun cl => r_cancel (call_r cl) = false) pre)
  end.

Definition frame_ok (fr : frame) : Prop :=
  match fr with
  | Frame h k ls0 vin calls vout c lgs =>
      table_ok k ls0 /\ cancel_ok fr /\ threaded k vin calls vout /\ delivery_ok fr
  end.

(* ------------------------------------------------------------------ *)
(* The history as a flat list of events, replayed by the specification  *)
(* ------------------------------------------------------------------ *)

Definition subs_of (h : nat) (subs : list (nat * listener)) : list listener :=
  flat_map (fun p => if Nat.eqb (fst p) h then [snd p] else []) subs.

(* [subs]: every Subscribe so far, in order; [cur]: argument of the latest InitLoggers *)
Fixpoint consistent (subs : list (nat * listener)) (cur : list Z) (es : list ev) : Prop :=
  match es with
  | [] => True
  | EStart h ls0 :: r => Permutation ls0 (subs_of h subs) /\ consistent subs cur r
  | ESub h l :: r => consistent (subs ++ [(h, l)]) cur r
  | EInit lgs :: r => consistent subs lgs r
  | EDone _ _ _ lgs :: r => lgs = cur /\ consistent subs cur r
  end.

Fixpoint replay_subs (subs : list (nat * listener)) (es : list ev) : list (nat * listener) :=
  match es with
  | [] => subs
  | ESub h l :: r => replay_subs (subs ++ [(h, l)]) r
  | _ :: r => replay_subs subs r
  end.
Fixpoint replay_cur (cur : list Z) (es : list ev) : list Z :=
  match es with
  | [] => cur
  | EInit lgs :: r => replay_cur lgs r
  | _ :: r => replay_cur cur r
  end.

Lemma replay_subs_app subs a b : replay_subs subs (a ++ b) = replay_subs (replay_subs subs a) b.
Proof. revert subs. induction a as [|e a IH]; intros subs; [reflexivity|]. destruct e; cbn; apply IH. Qed.
Lemma replay_cur_app cur a b : replay_cur cur (a ++ b) = replay_cur (replay_cur cur a) b.
Proof. revert cur. induction a as [|e a IH]; intros cur; [reflexivity|]. destruct e; cbn; apply IH. Qed.

Lemma consistent_app subs cur a b :
  consistent subs cur (a ++ b) <->
  consistent subs cur a /\ consistent (replay_subs subs a) (replay_cur cur a) b.
Proof.
  revert subs cur. induction a as [|e a IH]; intros subs cur; cbn [app consistent replay_subs replay_cur].
  - tauto.
  - destruct e; cbn [consistent replay_subs replay_cur]; rewrite ?IH; tauto.
Qed.

Definition rel (w : world) (subs : list (nat * listener)) (cur : list Z) : Prop :=
  loggers w = cur /\
  forall h hd, nth_error (hs w) h = Some hd -> Permutation (h_ls hd) (subs_of h subs).

(* ------------------------------------------------------------------ *)
(* What a stretch of execution guarantees                               *)
(* ------------------------------------------------------------------ *)

(* from w to w', having produced trace items T, frames F, events Ev *)
Definition good (w w' : world) (T : list item) (F : list frame) (Ev : list ev) : Prop :=
  world_wf w' /\ evolves w w' /\ trace w' = trace w ++ T /\ Forall frame_ok F /\
  forall subs cur, rel w subs cur ->
    consistent subs cur Ev /\ rel w' (replay_subs subs Ev) (replay_cur cur Ev).

Lemma good_refl w : world_wf w -> good w w [] [] [].
Proof.
  intros Hw. split; [exact Hw|]. split; [apply evolves_same_hs; reflexivity|].
  split; [symmetry; apply app_nil_r|]. split; [constructor|].
  intros subs cur HR. split; [exact I|exact HR].
Qed.

Lemma good_trans w w1 w2 T1 T2 F1 F2 E1 E2 :
  good w w1 T1 F1 E1 -> good w1 w2 T2 F2 E2 ->
  good w w2 (T1 ++ T2) (F1 ++ F2) (E1 ++ E2).
Proof.
  intros (Hw1 & Hev1 & Ht1 & Hf1 & Hc1) (Hw2 & Hev2 & Ht2 & Hf2 & Hc2).
  split; [exact Hw2|]. split; [eapply evolves_trans; eassumption|].
  split; [rewrite Ht2, Ht1, app_assoc; reflexivity|].
  split; [apply Forall_app; split; assumption|].
  intros subs cur HR. destruct (Hc1 subs cur HR) as [C1 R1].
  destruct (Hc2 _ _ R1) as [C2 R2].
  rewrite consistent_app, replay_subs_app, replay_cur_app. auto.
Qed.

(* steps that touch neither the handlers nor the loggers nor the id counter *)
Lemma good_silent w w' T :
  world_wf w -> hs w' = hs w -> loggers w' = loggers w -> next_id w' = next_id w ->
  trace w' = trace w ++ T -> good w w' T [] [].
Proof.
  intros Hw Hh Hl Hn Ht. split; [unfold world_wf; rewrite Hh, Hn; exact Hw|].
  split; [apply evolves_same_hs; exact Hh|]. split; [exact Ht|]. split; [constructor|].
  intros subs cur [R1 R2]. split; [exact I|]. cbn. split; [congruence|]. rewrite Hh. exact R2.
Qed.

Lemma good_add_frames w w' T F E F' :
  Forall frame_ok F' -> good w w' T F E -> good w w' T (F' ++ F) E.
Proof.
  intros HF (H1 & H2 & H3 & H4 & H5). split; [exact H1|]. split; [exact H2|]. split; [exact H3|].
  split; [apply Forall_app; split; assumption|exact H5].
Qed.

Lemma good_start w h hd v : world_wf w -> nth_error (hs w) h = Some hd ->
  good w (add_trace w [IEmit h v]) [IEmit h v] [] [EStart h (h_ls hd)].
Proof.
  intros Hw Hn. split; [exact Hw|]. split; [apply evolves_same_hs; reflexivity|].
  split; [reflexivity|]. split; [constructor|].
  intros subs cur [R1 R2]. cbn. split; [split; [apply R2; exact Hn|exact I]|].
  split; [exact R1|exact R2].
Qed.

Lemma good_done w h v c : world_wf w ->
  good w (add_trace w (log_items (loggers w) h v c ++ [IRet h c v]))
       (log_items (loggers w) h v c ++ [IRet h c v]) [] [EDone h v c (loggers w)].
Proof.
  intros Hw. split; [exact Hw|]. split; [apply evolves_same_hs; reflexivity|].
  split; [reflexivity|]. split; [constructor|].
  intros subs cur [R1 R2]. cbn. split; [split; [exact R1|exact I]|].
  split; [exact R1|exact R2].
Qed.

Lemma good_init_loggers w lgs : world_wf w ->
  good w (init_loggers w lgs) [IInit lgs] [] [EInit lgs].
Proof.
  intros Hw. split; [exact Hw|]. split; [apply evolves_same_hs; reflexivity|].
  split; [reflexivity|]. split; [constructor|].
  intros subs cur [R1 R2]. cbn. split; [exact I|]. split; [reflexivity|exact R2].
Qed.

Lemma subs_of_app h a b : subs_of h (a ++ b) = subs_of h a ++ subs_of h b.
Proof. unfold subs_of. apply flat_map_app. Qed.

Lemma good_subscribe w h prio rs w' ch : world_wf w ->
  subscribe w h prio rs = Ok (w', ch) ->
  good w w' (flatten_child ch) [] (events_child ch).
Proof.
  intros Hw H. unfold subscribe in H.
  destruct (nth_error (hs w) h) as [hd|] eqn:Hn; [|discriminate].
  destruct (subscribe_h hd (mkL (next_id w) prio)) as [hd'|] eqn:HS; [|discriminate].
  inversion H; subst w' ch; clear H.
  pose proof (subscribe_h_shape _ _ _ HS) as (Hk & Hl).
  cbn [flatten_child events_child l_id l_prio].
  split; [|split; [|split; [|split]]].
  - unfold world_wf. cbn [hs next_id].
    eapply update_nth_Forall; [| exact Hn | | exact Hw].
    + intros x. apply handler_wf_mono. lia.
    + eapply subscribe_h_wf; [|exact HS].
      unfold world_wf in Hw. rewrite Forall_forall in Hw. apply Hw.
      eapply nth_error_In; exact Hn.
  - intros h1 hd1 Hn1. cbn [hs].
    destruct (Nat.eq_dec h h1) as [->|Hne].
    + rewrite Hn in Hn1. inversion Hn1; subst hd1.
      exists hd'. split; [erewrite nth_error_update_nth_eq; [reflexivity|exact Hn]|].
      eapply subscribe_h_arr; exact HS.
    + exists hd1. split; [rewrite nth_error_update_nth_neq; assumption|].
      apply hd_evolves_refl.
  - reflexivity.
  - constructor.
  - intros subs cur [R1 R2]. cbn [consistent replay_subs replay_cur].
    split; [exact I|]. split; [exact R1|].
    intros h1 hd1 Hn1. cbn [hs] in Hn1. rewrite subs_of_app.
    destruct (Nat.eq_dec h h1) as [->|Hne].
    + erewrite nth_error_update_nth_eq in Hn1; [|exact Hn]. inversion Hn1; subst hd1.
      rewrite Hl. cbn [subs_of flat_map fst snd]. rewrite Nat.eqb_refl. cbn [app].
      rewrite <- ins_perm. rewrite (R2 _ _ Hn). apply Permutation_cons_append.
    + rewrite nth_error_update_nth_neq in Hn1 by assumption.
      cbn [subs_of flat_map fst snd]. apply Nat.eqb_neq in Hne. rewrite Hne. cbn [app].
      rewrite app_nil_r. apply R2. exact Hn1.
Qed.

Definition good_emitter (E : emitter) : Prop :=
  forall w h v w' c v' fr, world_wf w -> E w h v = Ok (w', c, v', fr) ->
    good w w' (flatten fr) (all_frames fr) (events fr).

Lemma good_emit0 : good_emitter (emit 0).
Proof. intros w h v w' c v' fr _ H; discriminate. Qed.

Lemma run_acts_good E (GE : good_emitter E) : forall acts w w' kids, world_wf w ->
  run_acts E w acts = Ok (w', kids) ->
  good w w' (flat_map flatten_child kids) (flat_map all_frames_child kids)
       (flat_map events_child kids).
Proof.
  induction acts as [|a acts IH]; intros w w' kids Hw H; cbn [run_acts] in H.
  - inversion H; subst. cbn. apply good_refl. exact Hw.
  - match type of H with match ?S with _ => _ end = _ => destruct S as [[w1 ch]|e] eqn:HS; [|discriminate] end.
    destruct (run_acts E w1 acts) as [[w2 chs]|e] eqn:HR; [|discriminate].
    inversion H; subst w' kids; clear H.
    assert (G1 : good w w1 (flatten_child ch) (all_frames_child ch) (events_child ch)).
    { destruct a as [h prio rs|h v|lgs].
      - pose proof (good_subscribe _ _ _ _ _ _ Hw HS) as G.
        unfold subscribe in HS.
        destruct (nth_error (hs w) h); [|discriminate].
        destruct (subscribe_h _ _) as [?|]; [|discriminate].
        inversion HS; subst. exact G.
      - destruct (E w h v) as [[[[w1' c] v1] fr]|e] eqn:HE; [|discriminate].
        inversion HS; subst w1 ch; clear HS. cbn. eapply GE; eassumption.
      - inversion HS; subst w1 ch; clear HS. cbn. apply good_init_loggers. exact Hw. }
    cbn [flat_map]. eapply good_trans; [exact G1|]. apply IH; [|exact HR]. apply G1.
Qed.

Lemma canceller_cancel cl : canceller KCancel cl = false -> r_cancel (call_r cl) = false.
Proof. unfold canceller. cbn. auto. Qed.

(* the listener loop *)
Lemma deliver_spec E (GE : good_emitter E) k h g : forall todo i w v w' c v' cls,
  world_wf w -> deliver E k h g w todo i v = Ok (w', c, v', cls) ->
  good w w' (flat_map (flatten_call h) cls) (flat_map all_frames_call cls)
       (flat_map events_call cls) /\
  threaded k v cls v' /\
  (c = false -> length cls = todo /\ Forall (fun cl => canceller k cl = false) cls) /\
  (c = true -> k = KCancel /\ (length cls <= todo)%nat /\
     exists pre lst, cls = pre ++ [lst] /\ r_cancel (call_r lst) = true /\
       Forall (fun cl => canceller k cl = false) pre) /\
  (* the listeners called are the ones the array held, from index i on, when the loop got here *)
  (forall hd a, nth_error (hs w) h = Some hd -> arr hd g = Some a ->
     (i + todo <= length a)%nat ->
     map call_l cls = firstn (length cls) (skipn i (firstn (i + todo) a))).
Proof.
  induction todo as [|todo IH]; intros i w v w' c v' cls Hw H; cbn [deliver] in H.
  - inversion H; subst. cbn.
    split; [apply good_refl; exact Hw|]. split; [reflexivity|].
    split; [intros _; split; [reflexivity|constructor]|]. split; [discriminate|].
    intros; reflexivity.
  - destruct (nth_error (hs w) h) as [hd|] eqn:Hn; [|discriminate].
    destruct (arr hd g) as [a|] eqn:Ha; [|discriminate].
    destruct (nth_error a i) as [l|] eqn:Hl; [|discriminate].
    destruct (pop (reacts (add_trace w [ICall (l_id l) h v])) (l_id l)) as [r rs'] eqn:HP.
    match type of H with context [run_acts E ?W ?N] => set (w2 := W) in * end.
    destruct (run_acts E w2 (r_acts r)) as [[w3 kids]|e] eqn:HN; [|discriminate].
    assert (G12 : good w w2 [ICall (l_id l) h v] [] []).
    { subst w2. apply good_silent; auto. }
    assert (Hw2 : world_wf w2) by apply G12.
    pose proof (run_acts_good E GE _ _ _ _ Hw2 HN) as G23.
    pose proof (good_trans _ _ _ _ _ _ _ _ _ G12 G23) as G13. cbn [app] in G13.
    assert (Hw3 : world_wf w3) by apply G23.
    (* where the loop's array is after the listener ran: the same contents, possibly longer *)
    assert (Hev : evolves w w3) by apply G13.
    destruct (Hev h hd Hn) as (hd3 & Hn3 & Hk3 & Harr3).
    destruct (Harr3 g a Ha) as (tl & Ha3).
    destruct (kind_eqb k KCancel && r_cancel r) eqn:HC.
    + inversion H; subst w' c v' cls; clear H.
      apply andb_prop in HC. destruct HC as [HK HR].
      assert (k = KCancel) by (destruct k; cbn in HK; congruence). subst k.
      cbn [flat_map flatten_call all_frames_call events_call].
      rewrite !app_nil_r.
      split; [exact G13|].
      split; [cbn; auto|].
      split; [discriminate|].
      split.
      { intros _. split; [reflexivity|]. split; [cbn; lia|].
        exists [], (Call l v r kids). cbn. repeat split; auto. }
      intros hd0 a0 Hn0 Ha0 Hle. inversion Hn0; subst hd0.
      rewrite Ha in Ha0. inversion Ha0; subst a0.
      cbn [length map call_l]. rewrite (skipn_firstn_nth _ _ _ _ Hl) by lia. reflexivity.
    + destruct (deliver E k h g w3 todo (S i) _) as [[[[w4 c4] v4] cls4]|e] eqn:HD; [|discriminate].
      inversion H; subst w' c v' cls; clear H.
      destruct (IH _ _ _ _ _ _ _ Hw3 HD) as (G34 & Hth & Hnc & Hc & Hdel).
      cbn [flat_map flatten_call all_frames_call events_call].
      split.
      { pose proof (good_trans _ _ _ _ _ _ _ _ _ G13 G34) as G. cbn [app] in G. exact G. }
      split; [cbn [threaded call_v]; split; [reflexivity|exact Hth]|].
      split.
      { intros Hcf. destruct (Hnc Hcf) as [E1 E2]. split; [cbn; f_equal; exact E1|].
        constructor; [exact HC|exact E2]. }
      split.
      { intros Hct. destruct (Hc Hct) as (Hk & Hle & pre & lst & E1 & E3 & E4).
        split; [exact Hk|]. split; [cbn; lia|].
        exists (Call l v r kids :: pre), lst. subst cls4. cbn.
        split; [reflexivity|]. split; [exact E3|]. constructor; [exact HC|exact E4]. }
      intros hd0 a0 Hn0 Ha0 Hle. inversion Hn0; subst hd0.
      rewrite Ha in Ha0. inversion Ha0; subst a0.
      assert (Hle3 : (S i + todo <= length (a ++ tl))%nat) by (rewrite app_length; lia).
      specialize (Hdel hd3 (a ++ tl) Hn3 Ha3 Hle3).
      replace (S i + todo)%nat with (i + S todo)%nat in Hdel by lia.
      rewrite (firstn_app_le a tl _ Hle) in Hdel.
      cbn [length map call_l]. rewrite (skipn_firstn_nth _ _ _ _ Hl) by lia.
      cbn [firstn]. f_equal. exact Hdel.
Qed.

Lemma good_emit_step E : good_emitter E ->
  good_emitter (fun w h v =>
      match nth_error (hs w) h with
      | None => Err BadHandler
      | Some hd =>
          match deliver E (h_kind hd) h (h_gen hd) (add_trace w [IEmit h v])
                        (length (h_ls hd)) O v with
          | Err e => Err e
          | Ok (w1, c, v', cls) =>
              Ok (add_trace w1 (log_items (loggers w1) h v' c ++ [IRet h c v']), c, v',
                  Frame h (h_kind hd) (h_ls hd) v cls v' c (loggers w1))
          end
      end).
Proof.
  intros GE w h v w' c v' fr Hw H.
  destruct (nth_error (hs w) h) as [hd|] eqn:Hnth; [|discriminate].
  destruct (deliver E (h_kind hd) h (h_gen hd) _ (length (h_ls hd)) 0 v)
    as [[[[w1 c1] v1] cls]|e] eqn:HD; [|discriminate].
  inversion H; subst w' c v' fr; clear H.
  pose proof (good_start w h hd v Hw Hnth) as G0.
  assert (Hw0 : world_wf (add_trace w [IEmit h v])) by apply G0.
  destruct (deliver_spec E GE _ _ _ _ _ _ _ _ _ _ _ Hw0 HD) as (G1 & Hth & Hnc & Hc & Hdel).
  assert (Hw1 : world_wf w1) by apply G1.
  pose proof (good_done w1 h v1 c1 Hw1) as G2.
  pose proof (good_trans _ _ _ _ _ _ _ _ _ (good_trans _ _ _ _ _ _ _ _ _ G0 G1) G2) as G.
  cbn [app] in G. rewrite !app_nil_r in G.
  cbn [flatten all_frames events].
  assert (Hfr : frame_ok (Frame h (h_kind hd) (h_ls hd) v cls v1 c1 (loggers w1))).
  { assert (Hwf : handler_wf (next_id w) hd).
    { unfold world_wf in Hw. rewrite Forall_forall in Hw. apply Hw. eapply nth_error_In; exact Hnth. }
    cbn [frame_ok]. split; [apply Hwf|]. split; [|split; [exact Hth|]].
    - cbn [cancel_ok]. split.
      + intros Hcf. destruct (Hnc Hcf) as [E1 E2]. split; [exact E1|].
        intros HK. rewrite HK in E2. eapply Forall_impl; [|exact E2]. apply canceller_cancel.
      + intros Hct. destruct (Hc Hct) as (HK & Hle & pre & lst & E1 & E3 & E4).
        split; [exact HK|]. split; [exact Hle|]. exists pre, lst.
        split; [exact E1|]. split; [exact E3|].
        rewrite HK in E4. eapply Forall_impl; [|exact E4]. apply canceller_cancel.
    - specialize (Hdel hd (h_ls hd) Hnth (arr_current hd) (Nat.le_refl _)).
      cbn [Nat.add skipn] in Hdel. rewrite firstn_all in Hdel.
      cbn [delivery_ok]. split.
      + intros Hcf. destruct (Hnc Hcf) as [E1 _]. rewrite E1, firstn_all in Hdel. exact Hdel.
      + intros _. exists (skipn (length cls) (h_ls hd)). rewrite Hdel. symmetry. apply firstn_skipn. }
  change (Frame h (h_kind hd) (h_ls hd) v cls v1 c1 (loggers w1) :: flat_map all_frames_call cls)
    with ([Frame h (h_kind hd) (h_ls hd) v cls v1 c1 (loggers w1)] ++ flat_map all_frames_call cls).
  apply good_add_frames; [constructor; [exact Hfr|constructor]|].
  exact G.
Qed.

Theorem emit_good : forall fuel, good_emitter (emit fuel).
Proof.
  induction fuel as [|f IH]; [exact good_emit0|].
  cbn [emit]. apply good_emit_step. exact IH.
Qed.

Theorem run_good fuel ops w w' kids : world_wf w -> run fuel w ops = Ok (w', kids) ->
  good w w' (flat_map flatten_child kids) (flat_map all_frames_child kids)
       (flat_map events_child kids).
Proof. intros Hw H. eapply run_acts_good; [apply emit_good|exact Hw|exact H]. Qed.

Lemma rel_init kinds : rel (init kinds) [] [].
Proof.
  split; [reflexivity|]. intros h hd Hn. cbn [init hs] in Hn.
  apply nth_error_In in Hn. apply in_map_iff in Hn. destruct Hn as (k & <- & _). constructor.
Qed.

(* ------------------------------------------------------------------ *)
(* Logs: every logger sees the completion order of the emission forest  *)
(* ------------------------------------------------------------------ *)

Section ForestInd.
  Variables (P : frame -> Prop) (Q : call -> Prop) (R : child -> Prop).
  Hypothesis HF : forall h k ls0 vin calls vout c lgs,
    Forall Q calls -> P (Frame h k ls0 vin calls vout c lgs).
  Hypothesis HC : forall l vs r kids, Forall R kids -> Q (Call l vs r kids).
  Hypothesis HK1 : forall fr, P fr -> R (CFrame fr).
  Hypothesis HK2 : forall h l, R (CSub h l).
  Hypothesis HK3 : forall lgs, R (CInit lgs).
  Fixpoint frame_ind3 (fr : frame) : P fr :=
    match fr with
    | Frame h k ls0 vin calls vout c lgs =>
        HF h k ls0 vin calls vout c lgs
           ((fix go (cs : list call) : Forall Q cs :=
               match cs with [] => Forall_nil _ | x :: r => Forall_cons _ (call_ind3 x) (go r) end) calls)
    end
  with call_ind3 (cl : call) : Q cl :=
    match cl with
    | Call l vs r kids =>
        HC l vs r kids
           ((fix go (ks : list child) : Forall R ks :=
               match ks with [] => Forall_nil _ | x :: r => Forall_cons _ (child_ind3 x) (go r) end) kids)
    end
  with child_ind3 (ch : child) : R ch :=
    match ch with
    | CFrame fr => HK1 fr (frame_ind3 fr)
    | CSub h l => HK2 h l
    | CInit lgs => HK3 lgs
    end.
End ForestInd.

(* what logger lg receives from one event of the history: the completed emission once per
   registration of lg at that moment, nothing otherwise *)
Definition ev_log (lg : Z) (e : ev) : list (nat * Z * bool) :=
  match e with
  | EDone h v c lgs => repeat (h, v, c) (count_occ Z.eq_dec lgs lg)
  | _ => []
  end.

Lemma log_of_app lg a b : log_of lg (a ++ b) = log_of lg a ++ log_of lg b.
Proof. unfold log_of. apply flat_map_app. Qed.

Lemma log_of_log_items lg lgs h v c :
  log_of lg (log_items lgs h v c) = repeat (h, v, c) (count_occ Z.eq_dec lgs lg).
Proof.
  induction lgs as [|x lgs IH]; [reflexivity|].
  cbn [log_items map log_of flat_map count_occ]. fold (log_items lgs h v c).
  fold (log_of lg (log_items lgs h v c)). rewrite IH.
  destruct (Z.eq_dec x lg) as [->|Hne].
  - rewrite Z.eqb_refl. reflexivity.
  - apply Z.eqb_neq in Hne. rewrite Hne. reflexivity.
Qed.

Lemma log_of_flat_map {A} lg (f : A -> list item) l :
  log_of lg (flat_map f l) = flat_map (fun x => log_of lg (f x)) l.
Proof.
  induction l as [|x l IH]; cbn [flat_map]; [reflexivity|].
  rewrite log_of_app, IH. reflexivity.
Qed.

Lemma flat_map_flat_map {A B C} (f : A -> list B) (g : B -> list C) l :
  flat_map g (flat_map f l) = flat_map (fun x => flat_map g (f x)) l.
Proof.
  induction l as [|x l IH]; cbn [flat_map]; [reflexivity|].
  rewrite flat_map_app, IH. reflexivity.
Qed.

Lemma flat_map_ext_Forall {A B} (f g : A -> list B) l :
  Forall (fun x => f x = g x) l -> flat_map f l = flat_map g l.
Proof. induction 1 as [|x l Hx _ IH]; cbn; [reflexivity|]. rewrite Hx, IH. reflexivity. Qed.

Theorem log_is_completion_order lg :
  forall fr, log_of lg (flatten fr) = flat_map (ev_log lg) (events fr).
Proof.
  apply (frame_ind3
           (fun fr => log_of lg (flatten fr) = flat_map (ev_log lg) (events fr))
           (fun cl => forall h, log_of lg (flatten_call h cl) = flat_map (ev_log lg) (events_call cl))
           (fun ch => log_of lg (flatten_child ch) = flat_map (ev_log lg) (events_child ch))).
  - intros h k ls0 vin calls vout c lgs Hcs. cbn [flatten events].
    change (IEmit h vin :: ?x) with ([IEmit h vin] ++ x).
    rewrite !log_of_app, log_of_log_items.
    cbn [flat_map ev_log app]. rewrite flat_map_app. cbn [flat_map ev_log].
    rewrite app_nil_r. cbn [log_of flat_map app]. f_equal; [|symmetry; apply app_nil_r].
    rewrite log_of_flat_map, flat_map_flat_map.
    apply flat_map_ext_Forall. eapply Forall_impl; [|exact Hcs]. intros cl Hcl. apply Hcl.
  - intros l vs r kids Hs h. cbn [flatten_call events_call].
    change (ICall (l_id l) h vs :: ?x) with ([ICall (l_id l) h vs] ++ x).
    rewrite log_of_app. cbn [log_of flat_map app].
    fold (log_of lg (flat_map flatten_child kids)).
    rewrite log_of_flat_map, flat_map_flat_map.
    apply flat_map_ext_Forall. exact Hs.
  - intros fr H. exact H.
  - reflexivity.
  - reflexivity.
Qed.

Corollary log_of_kids lg kids :
  log_of lg (flat_map flatten_child kids) = flat_map (ev_log lg) (flat_map events_child kids).
Proof.
  rewrite log_of_flat_map, flat_map_flat_map. apply flat_map_ext_Forall.
  apply Forall_forall. intros ch _. destruct ch; [apply log_is_completion_order| |]; reflexivity.
Qed.

(* spelled out for the usual case of distinct loggers *)
Lemma ev_log_registered lg h v c lgs : NoDup lgs -> In lg lgs -> ev_log lg (EDone h v c lgs) = [(h, v, c)].
Proof.
  intros Hnd Hin. cbn. rewrite (proj1 (NoDup_count_occ' Z.eq_dec lgs) Hnd lg Hin). reflexivity.
Qed.
Lemma ev_log_unregistered lg h v c lgs : ~ In lg lgs -> ev_log lg (EDone h v c lgs) = [].
Proof.
  intros Hni. cbn. rewrite (proj1 (count_occ_not_In Z.eq_dec lgs lg) Hni). reflexivity.
Qed.

(* ------------------------------------------------------------------ *)
(* Property-level statements (C18)                                      *)
(* ------------------------------------------------------------------ *)

(* For every history (top-level operations and listener scripts of any shape), every fuel,
   provided the run ends normally (not out of fuel / bad handler index / beyond the growth
   table): *)
Definition C18_statement : Prop :=
  forall fuel kinds ops w kids,
    run fuel (init kinds) ops = Ok (w, kids) ->
    (* (1) the observable trace is exactly the flattening of the forest of emissions,
           subscriptions and logger registrations: an emission's listeners run first (with
           whatever their scripts do nested inside), then the loggers, then Emit returns *)
    trace w = flat_map flatten_child kids /\
    (* (2) every logger's log is the completion order of the emissions, each one once per
           registration of the logger at the moment the emission completed *)
    (forall lg, log_of lg (trace w) = flat_map (ev_log lg) (flat_map events_child kids)) /\
    (* (3) the listeners an emission starts from are (a permutation of) everything subscribed
           to its handler before, at top level or from inside listeners; the loggers it is
           passed to are those of the latest InitLoggers before its completion *)
    consistent [] [] (flat_map events_child kids) /\
    (* (4) per emission - whatever its listeners do meanwhile, Subscribe to its own handler
           included: table order, cancellation, value threading, and delivery exactly once in
           order to the listeners subscribed when it was entered *)
    Forall frame_ok (flat_map all_frames_child kids).

Theorem C18_holds : C18_statement.
Proof.
  intros fuel kinds ops w kids HR.
  destruct (run_good fuel ops _ _ _ (init_wf kinds) HR) as (_ & _ & Ht & Hf & Hc).
  split; [exact Ht|].
  split; [intros lg; rewrite Ht; cbn [init trace app]; apply log_of_kids|].
  split; [apply (Hc [] [] (rel_init kinds))|exact Hf].
Qed.

(* The delivery clause at full strength: EVERY emission of every history, whatever the listener
   scripts do (Subscribe to the handler being emitted included), reaches each listener
   subscribed when it was entered exactly once, in the handler's order - all of them without a
   cancellation, the prefix up to the first canceller with one.  A listener subscribed while
   the emission is running is reached from the next emission on (clause (3): that emission
   starts from everything subscribed before it). *)
Definition C18_delivery_full : Prop :=
  forall fuel kinds ops w kids,
    run fuel (init kinds) ops = Ok (w, kids) ->
    Forall delivery_ok (flat_map all_frames_child kids).

Theorem C18_delivery_full_holds : C18_delivery_full.
Proof.
  intros fuel kinds ops w kids HR. destruct (C18_holds _ _ _ _ _ HR) as (_ & _ & _ & Hf).
  eapply Forall_impl; [|exact Hf]. intros [h k ls0 vin calls vout c lgs] H. apply H.
Qed.

Lemma NoDup_app_left {A} (a b : list A) : NoDup (a ++ b) -> NoDup a.
Proof.
  induction a as [|x a IH]; intros H; [constructor|].
  cbn in H. inversion H as [|? ? Hni Hnd]; subst. constructor; [|apply IH; exact Hnd].
  intros Hin. apply Hni. apply in_or_app. left. exact Hin.
Qed.

(* "exactly once", spelled out: no listener is called twice by one emission *)
Corollary delivery_no_duplicates : forall fuel kinds ops w kids,
  run fuel (init kinds) ops = Ok (w, kids) ->
  Forall (fun fr => match fr with
                    | Frame _ _ _ _ calls _ _ _ => NoDup (map (fun cl => l_id (call_l cl)) calls)
                    end) (flat_map all_frames_child kids).
Proof.
  intros fuel kinds ops w kids HR. destruct (C18_holds _ _ _ _ _ HR) as (_ & _ & _ & Hf).
  eapply Forall_impl; [|exact Hf]. intros [h k ls0 vin calls vout c lgs] (Ht & _ & _ & Hd).
  destruct Ht as [Hnd _]. cbn [delivery_ok] in Hd. rewrite <- map_map.
  destruct c.
  - destruct (proj2 Hd eq_refl) as (post & E). rewrite E, map_app in Hnd.
    eapply NoDup_app_left. exact Hnd.
  - rewrite (proj1 Hd eq_refl). exact Hnd.
Qed.

(* The history that disturbed the unrepaired code (corpus case
   reentrant_subscribe_disturbs_running_emit; it called listeners 0, 0, 1): three listeners on
   a priority handler; the first one, when called, subscribes a listener of lower priority to
   the handler it is being called by.  Now the running emission calls 0, 1, 2 and the next
   emission calls the new listener first. *)
Definition disturb_kinds : list hkind := [KPriority].
Definition disturb_ops : list op :=
  [ OSub 0 0 [mkR (XAdd 0) false [OSub 0 (-1) []]];
    OSub 0 1 [];
    OSub 0 2 [];
    OEmit 0 7 ].

Example reentrant_subscribe_delivered :
  exists w kids,
    run 2 (init disturb_kinds) (disturb_ops ++ [OEmit 0 8]) = Ok (w, kids) /\
    map (fun fr => match fr with Frame _ _ ls0 _ calls _ c _ =>
                     (map l_id ls0, map (fun cl => l_id (call_l cl)) calls, c) end)
        (flat_map all_frames_child kids)
    = [([0; 1; 2], [0; 1; 2], false); ([3; 0; 1; 2], [3; 0; 1; 2], false)] /\
    trace w = [ISub 0 0 0; ISub 1 0 1; ISub 2 0 2;
               IEmit 0 7; ICall 0 0 7; ISub 3 0 (-1); ICall 1 0 7; ICall 2 0 7; IRet 0 false 7;
               IEmit 0 8; ICall 3 0 8; ICall 0 0 8; ICall 1 0 8; ICall 2 0 8; IRet 0 false 8].
Proof. eexists. eexists. vm_compute. repeat split. Qed.

(* mutable threading, spelled out: the logged value is the fold of the transformers *)
Lemma threaded_mutable_fold vin calls vout : threaded KMutable vin calls vout ->
  vout = fold_left (fun v cl => apply_x (r_x (call_r cl)) v) calls vin /\
  forall pre cl post, calls = pre ++ cl :: post ->
    call_v cl = fold_left (fun v c0 => apply_x (r_x (call_r c0)) v) pre vin.
Proof.
  revert vin. induction calls as [|c0 cs IH]; intros vin H; cbn in H.
  - subst. split; [reflexivity|]. intros pre cl post E. destruct pre; discriminate.
  - destruct H as [Hv Hth]. unfold after_call in Hth. cbn in Hth.
    destruct (IH _ Hth) as [E1 E2]. split.
    + cbn. rewrite <- Hv. exact E1.
    + intros pre cl post E. destruct pre as [|p pre]; cbn in E.
      * inversion E; subst. cbn. reflexivity.
      * inversion E; subst. cbn. eapply E2. reflexivity.
Qed.

Lemma threaded_const k vin calls vout : k <> KMutable -> threaded k vin calls vout ->
  vout = vin /\ Forall (fun cl => call_v cl = vin) calls.
Proof.
  intros Hk. revert vin. induction calls as [|c0 cs IH]; intros vin H; cbn in H.
  - subst; split; [reflexivity|constructor].
  - destruct H as [Hv Hth]. unfold after_call in Hth.
    assert (kind_eqb k KMutable = false) as Hf by (destruct k; cbn; congruence).
    rewrite Hf, Hv in Hth. destruct (IH _ Hth) as [E1 E2].
    split; [exact E1|]. constructor; assumption.
Qed.

(* ------------------------------------------------------------------ *)
(* Non-vacuity                                                          *)
(* ------------------------------------------------------------------ *)

(* a re-entrant history: a mutable listener emits on its own handler again; another one emits
   on a cancelable handler and then subscribes to the handler it is being called by (the
   append goes to a fresh array: the running loop keeps the one it started with); a cancelable listener
   re-registers the loggers; a simple listener subscribes to its own handler *)
Definition demo_kinds := [KSimple; KPriority; KMutable; KCancel].
Definition demo_ops : list op :=
  [ OInit [100; 101];
    OSub 2 5 [mkR (XMul 3) false [OEmit 2 1]];
    OSub 2 (-1) [mkR (XAdd 4) false [OEmit 3 7; OSub 2 0 []]];
    OSub 3 0 [mkR (XAdd 0) false [OInit [101]]; mkR (XAdd 0) true [OEmit 0 1]];
    OSub 3 0 [mkR (XAdd 0) true []];
    OSub 0 0 [mkR (XAdd 0) false [OSub 0 0 []]];
    OEmit 2 10; OEmit 3 9; OEmit 0 0 ].

Example demo_runs : exists w kids, run 10 (init demo_kinds) demo_ops = Ok (w, kids) /\
  length (trace w) = 38%nat /\
  length (flat_map all_frames_child kids) = 6%nat /\
  (* listeners subscribed at entry / listeners called / cancelled, per emission in order of entry *)
  map (fun fr => match fr with Frame h _ ls0 _ calls _ c _ =>
                   (h, map l_id ls0, map (fun cl => l_id (call_l cl)) calls, c) end)
      (flat_map all_frames_child kids)
  = [(2%nat, [1; 0], [1; 0], false); (3%nat, [2; 3], [2; 3], true);
     (2%nat, [1; 5; 0], [1; 5; 0], false); (3%nat, [2; 3], [2], true);
     (0%nat, [4], [4], false); (0%nat, [4; 6], [4; 6], false)] /\
  log_of 101 (trace w) = [(3%nat, 7, true); (2%nat, 1, false); (2%nat, 42, false);
                          (0%nat, 1, false); (3%nat, 9, true); (0%nat, 0, false)] /\
  log_of 100 (trace w) = [].
Proof. eexists. eexists. vm_compute. repeat split. Qed.

(* running out of fuel is a distinct outcome, never a normal-looking result *)
Example demo_out_of_fuel : run 1 (init demo_kinds) demo_ops = Err OutOfFuel.
Proof. vm_compute. reflexivity. Qed.

(* ------------------------------------------------------------------ *)
(* The listener loop never reads outside its backing array              *)
(* ------------------------------------------------------------------ *)

Definition never_stuck (E : emitter) : Prop :=
  forall w h v, world_wf w -> E w h v <> Err Stuck.

Lemma run_acts_never_stuck E (GE : good_emitter E) (NS : never_stuck E) : forall acts w,
  world_wf w -> run_acts E w acts <> Err Stuck.
Proof.
  induction acts as [|a acts IH]; intros w Hw; cbn [run_acts]; [discriminate|].
  destruct a as [h prio rs|h v|lgs].
  - destruct (subscribe w h prio rs) as [[w1 ch]|e] eqn:HS.
    + assert (Hw1 : world_wf w1) by (eapply good_subscribe; eassumption).
      specialize (IH w1 Hw1). destruct (run_acts E w1 acts) as [[w2 chs]|e]; [discriminate|].
      intros H; inversion H; subst; apply IH; reflexivity.
    + unfold subscribe in HS. destruct (nth_error (hs w) h); [|inversion HS; discriminate].
      destruct (subscribe_h _ _) as [?|]; inversion HS; discriminate.
  - specialize (NS w h v Hw). destruct (E w h v) as [[[[w1 c] v1] fr]|e] eqn:HE.
    + assert (Hw1 : world_wf w1) by (eapply GE; eassumption).
      specialize (IH w1 Hw1). destruct (run_acts E w1 acts) as [[w2 chs]|e]; [discriminate|].
      intros H; inversion H; subst; apply IH; reflexivity.
    + intros H; inversion H; subst; apply NS; reflexivity.
  - assert (Hw1 : world_wf (init_loggers w lgs)) by exact Hw.
    specialize (IH _ Hw1). destruct (run_acts E (init_loggers w lgs) acts) as [[w2 chs]|e]; [discriminate|].
    intros H; inversion H; subst; apply IH; reflexivity.
Qed.

Lemma deliver_never_stuck E (GE : good_emitter E) (NS : never_stuck E) k h g :
  forall todo i w v hd a, world_wf w -> nth_error (hs w) h = Some hd -> arr hd g = Some a ->
    (i + todo <= length a)%nat -> deliver E k h g w todo i v <> Err Stuck.
Proof.
  induction todo as [|todo IH]; intros i w v hd a Hw Hn Ha Hle; cbn [deliver]; [discriminate|].
  rewrite Hn, Ha.
  destruct (nth_error a i) as [l|] eqn:Hl; [|apply nth_error_None in Hl; lia].
  destruct (pop (reacts (add_trace w [ICall (l_id l) h v])) (l_id l)) as [r rs'] eqn:HP.
  match goal with |- context [run_acts E ?W ?N] => set (w2 := W) in * end.
  assert (G12 : good w w2 [ICall (l_id l) h v] [] []).
  { subst w2. apply good_silent; auto. }
  assert (Hw2 : world_wf w2) by apply G12.
  pose proof (run_acts_never_stuck E GE NS (r_acts r) w2 Hw2) as Hns.
  destruct (run_acts E w2 (r_acts r)) as [[w3 kids]|e] eqn:HN;
    [|intros H; inversion H; subst; apply Hns; reflexivity].
  pose proof (run_acts_good E GE _ _ _ _ Hw2 HN) as G23.
  pose proof (good_trans _ _ _ _ _ _ _ _ _ G12 G23) as G13.
  assert (Hw3 : world_wf w3) by apply G23.
  assert (Hev : evolves w w3) by apply G13.
  destruct (Hev h hd Hn) as (hd3 & Hn3 & Hk3 & Harr3).
  destruct (Harr3 g a Ha) as (tl & Ha3).
  destruct (kind_eqb k KCancel && r_cancel r); [discriminate|].
  assert (Hle3 : (S i + todo <= length (a ++ tl))%nat) by (rewrite app_length; lia).
  specialize (IH (S i) w3 (if kind_eqb k KMutable then apply_x (r_x r) v else v) hd3 (a ++ tl) Hw3 Hn3 Ha3 Hle3).
  destruct (deliver E k h g w3 todo (S i) _) as [[[[w4 c4] v4] cls4]|e]; [discriminate|].
  intros H; inversion H; subst; apply IH; reflexivity.
Qed.

Lemma emit_never_stuck : forall fuel, never_stuck (emit fuel).
Proof.
  induction fuel as [|f IH]; intros w h v Hw; cbn [emit]; [discriminate|].
  destruct (nth_error (hs w) h) as [hd|] eqn:Hn; [|discriminate].
  assert (Hw0 : world_wf (add_trace w [IEmit h v])) by exact Hw.
  pose proof (deliver_never_stuck (emit f) (emit_good f) IH (h_kind hd) h (h_gen hd)
                (length (h_ls hd)) O (add_trace w [IEmit h v]) v hd (h_ls hd) Hw0 Hn
                (arr_current hd) (Nat.le_refl _)) as Hd.
  destruct (deliver (emit f) (h_kind hd) h (h_gen hd) _ (length (h_ls hd)) 0 v)
    as [[[[w1 c1] v1] cls]|e]; [discriminate|].
  intros H; inversion H; subst; apply Hd; reflexivity.
Qed.

Theorem run_never_stuck fuel kinds ops : run fuel (init kinds) ops <> Err Stuck.
Proof.
  apply run_acts_never_stuck; [apply emit_good|apply emit_never_stuck|apply init_wf].
Qed.

(* ------------------------------------------------------------------ *)
(* The logging monitor accepts every model run                          *)
(* ------------------------------------------------------------------ *)
From SR Require Import Model.EventsCheck.

Lemma log_scan_pending cur h v c rest : forall more,
  log_scan cur (Some (more, h, v, c)) (log_items more h v c ++ IRet h c v :: rest) =
  log_scan cur None rest.
Proof.
  induction more as [|lg more IH].
  - cbn [log_items map app log_scan]. rewrite Nat.eqb_refl, Z.eqb_refl, eqb_reflx. reflexivity.
  - cbn [log_items map app log_scan]. fold (log_items more h v c).
    rewrite Nat.eqb_refl, !Z.eqb_refl, eqb_reflx. cbn [andb]. exact IH.
Qed.

Lemma log_scan_block lgs h v c rest :
  log_scan lgs None (log_items lgs h v c ++ IRet h c v :: rest) = log_scan lgs None rest.
Proof.
  destruct lgs as [|lg more].
  - reflexivity.
  - cbn [log_items map app log_scan]. fold (log_items more h v c).
    rewrite Z.eqb_refl. cbn [andb]. apply log_scan_pending.
Qed.

Lemma log_scan_list {A} (fl : A -> list item) (fe : A -> list ev) (l : list A) :
  Forall (fun x => forall subs cur rest, consistent subs cur (fe x) ->
            log_scan cur None (fl x ++ rest) = log_scan (replay_cur cur (fe x)) None rest) l ->
  forall subs cur rest, consistent subs cur (flat_map fe l) ->
    log_scan cur None (flat_map fl l ++ rest) = log_scan (replay_cur cur (flat_map fe l)) None rest.
Proof.
  induction 1 as [|x l Hx _ IH]; intros subs cur rest Hc; [reflexivity|].
  cbn [flat_map] in *. apply consistent_app in Hc. destruct Hc as [C1 C2].
  rewrite <- app_assoc, (Hx _ _ _ C1), replay_cur_app. eapply IH. exact C2.
Qed.

Lemma log_scan_forest :
  forall fr subs cur rest, consistent subs cur (events fr) ->
    log_scan cur None (flatten fr ++ rest) = log_scan (replay_cur cur (events fr)) None rest.
Proof.
  apply (frame_ind3
    (fun fr => forall subs cur rest, consistent subs cur (events fr) ->
       log_scan cur None (flatten fr ++ rest) = log_scan (replay_cur cur (events fr)) None rest)
    (fun cl => forall h subs cur rest, consistent subs cur (events_call cl) ->
       log_scan cur None (flatten_call h cl ++ rest) = log_scan (replay_cur cur (events_call cl)) None rest)
    (fun ch => forall subs cur rest, consistent subs cur (events_child ch) ->
       log_scan cur None (flatten_child ch ++ rest) = log_scan (replay_cur cur (events_child ch)) None rest)).
  - intros h k ls0 vin calls vout c lgs Hcs subs cur rest Hc.
    cbn [events consistent] in Hc. destruct Hc as [_ Hc].
    apply consistent_app in Hc. destruct Hc as [C1 C2]. cbn [consistent] in C2. destruct C2 as [E _].
    cbn [flatten events replay_cur app log_scan].
    rewrite <- !app_assoc.
    assert (Hcs' : Forall (fun x => forall subs cur rest, consistent subs cur (events_call x) ->
                log_scan cur None (flatten_call h x ++ rest) =
                log_scan (replay_cur cur (events_call x)) None rest) calls).
    { eapply Forall_impl; [|exact Hcs]. intros cl Hcl. apply Hcl. }
    rewrite (log_scan_list (flatten_call h) events_call calls Hcs' _ _ _ C1).
    rewrite replay_cur_app. cbn [replay_cur]. rewrite <- E.
    cbn [app]. apply log_scan_block.
  - intros l vs r kids Hks h subs cur rest Hc. cbn [flatten_call events_call app log_scan] in *.
    eapply (log_scan_list flatten_child events_child kids Hks). exact Hc.
  - intros fr H subs cur rest Hc. cbn [flatten_child events_child] in *. eapply H. exact Hc.
  - intros h l subs cur rest _. reflexivity.
  - intros lgs subs cur rest _. reflexivity.
Qed.

Theorem log_monitor_accepts_model : forall fuel kinds ops w kids,
  run fuel (init kinds) ops = Ok (w, kids) -> log_scan [] None (trace w) = true.
Proof.
  intros fuel kinds ops w kids HR. destruct (C18_holds _ _ _ _ _ HR) as (Ht & _ & Hc & _).
  rewrite Ht, <- (app_nil_r (flat_map flatten_child kids)).
  assert (HF : Forall (fun x => forall subs cur rest, consistent subs cur (events_child x) ->
            log_scan cur None (flatten_child x ++ rest) =
            log_scan (replay_cur cur (events_child x)) None rest) kids).
  { apply Forall_forall. intros ch _. destruct ch as [fr|h l|lgs].
    - intros subs cur rest Hcc. cbn [flatten_child events_child] in *. eapply log_scan_forest. exact Hcc.
    - intros; reflexivity.
    - intros; reflexivity. }
  rewrite (log_scan_list flatten_child events_child kids HF _ _ _ Hc). reflexivity.
Qed.
