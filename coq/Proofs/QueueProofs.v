(* Proofs for C10 over Model/Queue.v.
   Part A: queue.go's Less is the lexicographic order on (priority, insertion id): a strict
           total order on tasks with distinct ids.
   Part B: Pop removes exactly the least pending task (smallest priority, then oldest).
   Part C: invariants over every interleaving of inserts and pops: ids are handed out in
           insertion order, pending ids are distinct, a task is taken at most once.
   Part D: the drain: which tasks are dropped, and that nothing happens for a dropped task.
   Part E: the property statement. *)
From Coq Require Import List ZArith Bool Lia Permutation.
From SR Require Import Model.Queue.
Import ListNotations.
Open Scope Z_scope.

(* ------------------------------------------------------------------------------------ *)
(* Part A *)
Definition lex_lt (a b : task) : Prop :=
  t_prio a < t_prio b \/ (t_prio a = t_prio b /\ t_id a < t_id b).

Lemma less_iff : forall a b, less a b = true <-> lex_lt a b.
Proof.
  intros a b. unfold less, lex_lt. rewrite orb_true_iff, andb_true_iff, !Z.ltb_lt, Z.eqb_eq. tauto.
Qed.
Lemma less_false_iff : forall a b, less a b = false <-> ~ lex_lt a b.
Proof. intros. rewrite <- less_iff. destruct (less a b); split; intros; try congruence; tauto. Qed.

Lemma less_irrefl : forall a, less a a = false.
Proof. intros. apply less_false_iff. unfold lex_lt. lia. Qed.
Lemma less_trans : forall a b c, less a b = true -> less b c = true -> less a c = true.
Proof. intros a b c. rewrite !less_iff. unfold lex_lt. lia. Qed.
Lemma less_asym : forall a b, less a b = true -> less b a = false.
Proof. intros a b. rewrite less_iff, less_false_iff. unfold lex_lt. lia. Qed.
Lemma less_total : forall a b, t_id a <> t_id b -> less a b = true \/ less b a = true.
Proof. intros a b H. rewrite !less_iff. unfold lex_lt. lia. Qed.
(* not-less is transitive too (a weak order) *)
Lemma nless_trans : forall a b c, less b a = false -> less c b = false -> less c a = false.
Proof. intros a b c. rewrite !less_false_iff. unfold lex_lt. lia. Qed.

(* "smallest priority value, and among equals the one queued first" *)
Lemma nless_meaning : forall m t, less t m = false ->
  t_prio m <= t_prio t /\ (t_prio t = t_prio m -> t_id m <= t_id t).
Proof. intros m t. rewrite less_false_iff. unfold lex_lt. lia. Qed.

(* ------------------------------------------------------------------------------------ *)
(* Part B *)
Lemma min_task_in : forall l m, In (min_task m l) (m :: l).
Proof.
  induction l as [|t r IH]; intros m; cbn [min_task]; [now left|].
  destruct (IH (if less t m then t else m)) as [H|H].
  - destruct (less t m); [right; left; exact H|left; exact H].
  - right. right. exact H.
Qed.

Lemma min_task_le_start : forall l m, less m (min_task m l) = false.
Proof.
  induction l as [|t r IH]; intros m; cbn [min_task]; [apply less_irrefl|].
  destruct (less t m) eqn:E.
  - (* the minimum is at most t, and t < m *)
    specialize (IH t). apply less_false_iff. apply less_false_iff in IH. apply less_iff in E.
    unfold lex_lt in *. lia.
  - apply IH.
Qed.

Lemma min_task_least : forall l m t, In t (m :: l) -> less t (min_task m l) = false.
Proof.
  induction l as [|t0 r IH]; intros m t Hin; cbn [min_task].
  - destruct Hin as [<-|[]]. apply less_irrefl.
  - destruct Hin as [He|[He|Hin]].
    + (* t = m *)
      subst t. destruct (less t0 m) eqn:E.
      * pose proof (min_task_le_start r t0) as H. apply less_false_iff. apply less_false_iff in H.
        apply less_iff in E. unfold lex_lt in *. lia.
      * apply min_task_le_start.
    + (* t = t0 *)
      subst t. destruct (less t0 m) eqn:E.
      * apply min_task_le_start.
      * pose proof (min_task_le_start r m) as H. apply less_false_iff. apply less_false_iff in H.
        apply less_false_iff in E. unfold lex_lt in *. lia.
    + apply IH. now right.
Qed.

Definition ids (l : list task) : list Z := map t_id l.

Lemma remove_id_perm : forall l m, In m l -> NoDup (ids l) -> Permutation l (m :: remove_id (t_id m) l).
Proof.
  induction l as [|t r IH]; intros m Hin Hnd; [destruct Hin|].
  cbn [remove_id]. inversion Hnd as [|? ? Hx Hr]; subst.
  destruct (t_id t =? t_id m) eqn:E.
  - apply Z.eqb_eq in E. destruct Hin as [->|Hin]; [reflexivity|].
    exfalso. apply Hx. rewrite E. unfold ids. now apply in_map.
  - destruct Hin as [->|Hin]; [rewrite Z.eqb_refl in E; discriminate|].
    rewrite perm_swap. constructor. now apply IH.
Qed.

Lemma remove_id_in : forall l i t, In t (remove_id i l) -> In t l.
Proof.
  induction l as [|t0 r IH]; intros i t H; cbn [remove_id] in H; [destruct H|].
  destruct (t_id t0 =? i); [now right|]. destruct H as [<-|H]; [now left|right; eauto].
Qed.

Lemma remove_id_not_in : forall l i, NoDup (ids l) -> ~ In i (ids (remove_id i l)).
Proof.
  induction l as [|t0 r IH]; intros i Hnd; cbn [remove_id]; [intros []|].
  inversion Hnd as [|? ? Hx Hr]; subst.
  destruct (t_id t0 =? i) eqn:E.
  - apply Z.eqb_eq in E. subst i. exact Hx.
  - cbn. intros [He|Hi]; [apply Z.eqb_neq in E; contradiction|]. now apply (IH i Hr).
Qed.

Lemma remove_id_ids_incl : forall l i x, In x (ids (remove_id i l)) -> In x (ids l).
Proof.
  intros l i x H. unfold ids in *. apply in_map_iff in H. destruct H as [t [<- Ht]].
  apply in_map. eapply remove_id_in; eauto.
Qed.

Lemma remove_id_nodup : forall l i, NoDup (ids l) -> NoDup (ids (remove_id i l)).
Proof.
  induction l as [|t0 r IH]; intros i Hnd; cbn [remove_id]; [constructor|].
  inversion Hnd as [|? ? Hx Hr]; subst.
  destruct (t_id t0 =? i); [assumption|]. cbn. constructor; [|now apply IH].
  intros Hi. apply Hx. eapply remove_id_ids_incl; eauto.
Qed.

(* the queue invariant: pending ids are distinct and below the counter *)
Definition qinv (q : queue) : Prop :=
  NoDup (ids (q_pending q)) /\ 0 <= q_counter q /\
  (forall t, In t (q_pending q) -> 0 <= t_id t < q_counter q).

Lemma qinv_empty : qinv q_empty.
Proof. split; [constructor|split; [cbn; lia|intros t []]]. Qed.

Theorem pop_min_spec : forall q m q', qinv q -> pop_min q = Some (m, q') ->
  In m (q_pending q) /\
  (forall t, In t (q_pending q) -> less t m = false) /\
  (forall t, In t (q_pending q) -> t <> m -> less m t = true) /\
  Permutation (q_pending q) (m :: q_pending q') /\
  ~ In (t_id m) (ids (q_pending q')) /\
  q_counter q' = q_counter q /\ qinv q'.
Proof.
  intros q m q' [Hnd [Hc Hb]] H. unfold pop_min in H.
  destruct (q_pending q) as [|t r] eqn:E; [discriminate|]. inversion H; subst m q'; clear H.
  set (m := min_task t r) in *.
  assert (Hin : In m (t :: r)) by apply min_task_in.
  assert (Hleast : forall t', In t' (t :: r) -> less t' m = false) by (intros; now apply min_task_least).
  split; [exact Hin|]. split; [exact Hleast|]. split.
  { intros t' Ht' Hne.
    assert (Hid : t_id m <> t_id t').
    { intros Heq. apply Hne.
      (* distinct elements of a NoDup-id list have distinct ids *)
      clear - Hnd Hin Ht' Heq. revert Hnd Hin Ht'. generalize (t :: r) as l.
      induction l as [|x l IH]; intros Hnd Hin Ht'; [destruct Hin|].
      inversion Hnd as [|? ? Hx Hr]; subst.
      destruct Hin as [->|Hin], Ht' as [->|Ht']; auto.
      - exfalso. apply Hx. rewrite Heq. unfold ids. now apply in_map.
      - exfalso. apply Hx. rewrite <- Heq. unfold ids. now apply in_map. }
    destruct (less_total m t' Hid) as [H|H]; [exact H|]. rewrite (Hleast t' Ht') in H. discriminate. }
  change (if t_id t =? t_id m then r else t :: remove_id (t_id m) r) with (remove_id (t_id m) (t :: r)).
  cbn [q_pending q_counter]. split; [now apply remove_id_perm|].
  split; [now apply remove_id_not_in|]. split; [reflexivity|].
  split; [now apply remove_id_nodup|]. split; [exact Hc|].
  intros t' Ht'. apply Hb. eapply remove_id_in; eauto.
Qed.

Lemma pop_min_none : forall q, pop_min q = None <-> q_pending q = [].
Proof. intros q. unfold pop_min. destruct (q_pending q); split; intros; congruence. Qed.

Lemma nodup_snoc : forall (l : list Z) k, NoDup l -> ~ In k l -> NoDup (l ++ [k]).
Proof.
  induction l as [|x r IH]; intros k Hnd Hni; cbn.
  - constructor; [intros []|constructor].
  - inversion Hnd as [|? ? Hx Hr]; subst. constructor.
    + rewrite in_app_iff. intros [Hi|[He|[]]]; [contradiction|]. subst. apply Hni. now left.
    + apply IH; [assumption|]. intros Hi. apply Hni. now right.
Qed.

Lemma insert_qinv : forall q p s f b, qinv q -> qinv (q_insert q p s f b).
Proof.
  intros q p s f b [Hnd [Hc Hb]]. unfold q_insert. split; [|split]; cbn [q_pending q_counter]; [|lia|].
  - unfold ids. rewrite map_app. cbn.
    assert (Hni : ~ In (q_counter q) (map t_id (q_pending q))).
    { intros Hi. apply in_map_iff in Hi. destruct Hi as [t [He Ht]]. specialize (Hb t Ht). lia. }
    now apply nodup_snoc.
  - intros t Ht. apply in_app_or in Ht. destruct Ht as [Ht|[<-|[]]].
    + specialize (Hb t Ht). lia.
    + cbn. lia.
Qed.

(* ------------------------------------------------------------------------------------ *)
(* Part C: every interleaving of inserts and pops *)
Inductive aop := AIns (prio src : Z) (flags : list Z) (b : body) | APop.

(* final queue and the tasks popped, in order (a pop on the empty queue takes nothing) *)
Fixpoint arun (q : queue) (ops : list aop) : queue * list task :=
  match ops with
  | [] => (q, [])
  | AIns p s f b :: r => arun (q_insert q p s f b) r
  | APop :: r =>
      match pop_min q with
      | None => arun q r
      | Some (t, q') => let (qf, l) := arun q' r in (qf, t :: l)
      end
  end.

Fixpoint count_ins (ops : list aop) : Z :=
  match ops with
  | [] => 0
  | AIns _ _ _ _ :: r => count_ins r + 1
  | APop :: r => count_ins r
  end.

Lemma arun_app : forall a b q,
  arun q (a ++ b) = let (q1, l1) := arun q a in let (q2, l2) := arun q1 b in (q2, l1 ++ l2).
Proof.
  induction a as [|o r IH]; intros b q; cbn [arun app].
  - destruct (arun q b); reflexivity.
  - destruct o as [p s f bd|].
    + apply IH.
    + destruct (pop_min q) as [[t q']|]; [|apply IH].
      rewrite IH. destruct (arun q' r) as [q1 l1]. destruct (arun q1 b) as [q2 l2]. reflexivity.
Qed.

Lemma arun_qinv : forall ops q, qinv q -> qinv (fst (arun q ops)).
Proof.
  induction ops as [|o r IH]; intros q H; cbn [arun]; [exact H|].
  destruct o as [p s f b|].
  - apply IH. now apply insert_qinv.
  - destruct (pop_min q) as [[t q']|] eqn:E; [|now apply IH].
    destruct (pop_min_spec q t q' H E) as [_ [_ [_ [_ [_ [_ Hq']]]]]].
    specialize (IH q' Hq'). destruct (arun q' r). exact IH.
Qed.

(* ids are handed out in insertion order: the counter counts the inserts, and an insert stamps
   the current counter *)
Lemma arun_counter : forall ops q, q_counter (fst (arun q ops)) = q_counter q + count_ins ops.
Proof.
  induction ops as [|o r IH]; intros q; cbn [arun count_ins]; [cbn; lia|].
  destruct o as [p s f b|].
  - rewrite IH. cbn. lia.
  - destruct (pop_min q) as [[t q']|] eqn:E.
    + specialize (IH q'). destruct (arun q' r) as [qf l]. cbn [fst] in *. rewrite IH.
      unfold pop_min in E. destruct (q_pending q); [discriminate|]. inversion E; subst. cbn. lia.
    + rewrite IH. lia.
Qed.

Lemma insert_stamps : forall q p s f b,
  q_pending (q_insert q p s f b) = q_pending q ++ [mkT (q_counter q) p s f b] /\
  q_counter (q_insert q p s f b) = q_counter q + 1.
Proof. intros. split; reflexivity. Qed.

Lemma perm_ids_in : forall (l l' : list task) x, Permutation l l' -> In x (ids l) -> In x (ids l').
Proof. intros l l' x HP H. unfold ids in *. eapply Permutation_in; [apply Permutation_map; exact HP|exact H]. Qed.

(* a task is popped at most once; what is popped was pending or inserted later *)
Lemma arun_popped : forall ops q, qinv q ->
  NoDup (ids (snd (arun q ops))) /\
  forall t, In t (snd (arun q ops)) -> In (t_id t) (ids (q_pending q)) \/ q_counter q <= t_id t.
Proof.
  induction ops as [|o r IH]; intros q H; cbn [arun].
  - cbn. split; [constructor|intros t []].
  - destruct o as [p s f b|].
    + destruct (IH _ (insert_qinv q p s f b H)) as [Hnd Hfrom]. split; [exact Hnd|].
      intros t Ht. destruct (Hfrom t Ht) as [Hi|Hc].
      * cbn [q_insert q_pending] in Hi. unfold ids in Hi. rewrite map_app in Hi. apply in_app_or in Hi.
        destruct Hi as [Hi|[He|[]]]; [now left|]. cbn in He. right. lia.
      * cbn [q_insert q_counter] in Hc. right. lia.
    + destruct (pop_min q) as [[m q']|] eqn:E; [|now apply IH].
      destruct (pop_min_spec q m q' H E) as [Hin [_ [_ [HP [Hni [Hc Hq']]]]]].
      destruct (IH q' Hq') as [Hnd Hfrom]. destruct (arun q' r) as [qf l]. cbn [snd] in *.
      destruct H as [_ [_ Hb]].
      split.
      * cbn. constructor; [|exact Hnd]. intros Hi. unfold ids in Hi. apply in_map_iff in Hi.
        destruct Hi as [t [He Ht]]. destruct (Hfrom t Ht) as [Hp|Hge].
        -- apply Hni. now rewrite <- He.
        -- specialize (Hb m Hin). lia.
      * intros t [<-|Ht].
        -- left. unfold ids. now apply in_map.
        -- destruct (Hfrom t Ht) as [Hp|Hge]; [left|right; lia].
           eapply perm_ids_in; [apply Permutation_sym; exact HP|]. cbn. now right.
Qed.

(* ------------------------------------------------------------------------------------ *)
(* Part D: the drain *)

(* q' extends q: the counter does not go back and new pending tasks carry fresh ids *)
Definition grows (q q' : queue) : Prop :=
  q_counter q <= q_counter q' /\
  (forall t, In t (q_pending q') -> In t (q_pending q) \/ q_counter q <= t_id t).

Lemma grows_refl : forall q, grows q q.
Proof. intros q. split; [lia|auto]. Qed.
Lemma grows_trans : forall a b c, grows a b -> grows b c -> grows a c.
Proof.
  intros a b c [H1 H2] [H3 H4]. split; [lia|]. intros t Ht.
  destruct (H4 t Ht) as [Hb|Hge]; [|right; lia]. destruct (H2 t Hb); auto.
Qed.
Lemma grows_insert : forall q p s f b, grows q (q_insert q p s f b).
Proof.
  intros. split; cbn; [lia|]. intros t Ht. apply in_app_or in Ht. destruct Ht as [Ht|[<-|[]]]; [now left|].
  right. cbn. lia.
Qed.

Lemma apply_eff_q : forall s e, qinv (s_q s) ->
  qinv (s_q (apply_eff s e)) /\ grows (s_q s) (s_q (apply_eff s e)) /\
  s_log (apply_eff s e) = s_log s.
Proof.
  intros s e H. destruct e as [p src f sc|u|u l|u|u f on]; cbn [apply_eff].
  - cbn. split; [apply insert_qinv; exact H|]. split; [apply grows_insert|reflexivity].
  - cbn. split; [apply insert_qinv; exact H|]. split; [apply grows_insert|reflexivity].
  - destruct (zget (s_life s) u) as [[]|]; cbn; (split; [exact H|]; split; [apply grows_refl|reflexivity]).
  - destruct (zget (s_life s) u) as [[| | |]|]; cbn; (split; [exact H|]; split; [apply grows_refl|reflexivity]).
  - destruct (zget (s_cls s) u); cbn; (split; [exact H|]; split; [apply grows_refl|reflexivity]).
Qed.

Lemma run_script_q : forall sc s, qinv (s_q s) ->
  qinv (s_q (run_script s sc)) /\ grows (s_q s) (s_q (run_script s sc)) /\
  s_log (run_script s sc) = s_log s.
Proof.
  induction sc as [|e r IH]; intros s H.
  - cbn. split; [exact H|]. split; [apply grows_refl|reflexivity].
  - destruct (apply_eff_q s e H) as [H1 [H2 H3]]. destruct (IH _ H1) as [H4 [H5 H6]].
    unfold run_script in *. cbn [fold_left]. split; [exact H4|]. split; [eapply grows_trans; eauto|congruence].
Qed.

Lemma execute_q : forall s t, qinv (s_q s) ->
  qinv (s_q (fst (execute s t))) /\ grows (s_q s) (s_q (fst (execute s t))) /\
  s_log (fst (execute s t)) = s_log s.
Proof.
  intros s t H. unfold execute. destruct (t_body t) as [sc|u].
  - cbn [fst]. destruct (run_script_q sc (emit s [TInsertStart (t_id t) (t_src t) (t_prio t); TExec (t_id t)]) H)
      as [H1 [H2 H3]]. cbn [emit s_q s_log] in *. auto.
  - destruct (lstate_eqb (life_of s u) LAlive); [|cbn; split; [exact H|]; split; [apply grows_refl|reflexivity]].
    unfold next_act. cbn [emit s_acts].
    destruct (zget (s_acts s) u) as [[|sc rest]|]; cbn [fst].
    + cbn. split; [exact H|]. split; [apply grows_refl|reflexivity].
    + destruct (run_script_q sc (with_acts (emit s [TActionStart u; TAct u]) (zset (s_acts s) u rest)) H)
        as [H1 [H2 H3]]. cbn [emit with_acts s_q s_log] in *. auto.
    + cbn. split; [exact H|]. split; [apply grows_refl|reflexivity].
Qed.

(* the drain invariant: the queue invariant, and every task recorded as taken has left the
   pending set for good and was recorded once *)
Definition taken (s : sim) : list Z := map (fun e => t_id (e_task e)) (s_log s).

Definition J (s : sim) : Prop :=
  qinv (s_q s) /\ NoDup (taken s) /\
  (forall i, In i (taken s) -> i < q_counter (s_q s) /\ ~ In i (ids (q_pending (s_q s)))).

Lemma J_from_grows : forall s s', J s -> qinv (s_q s') -> grows (s_q s) (s_q s') -> s_log s' = s_log s -> J s'.
Proof.
  intros s s' [Hq [Hnd Hlog]] Hq' [Hc Hp] Hl. unfold J, taken in *. rewrite Hl.
  split; [exact Hq'|]. split; [exact Hnd|]. intros i Hi. destruct (Hlog i Hi) as [H1 H2].
  split; [lia|]. intros Hin. unfold ids in Hin. apply in_map_iff in Hin. destruct Hin as [t [He Ht]].
  destruct (Hp t Ht) as [Hold|Hge]; [|lia]. apply H2. unfold ids. rewrite <- He. now apply in_map.
Qed.

Lemma J_apply_eff : forall s e, J s -> J (apply_eff s e).
Proof. intros s e HJ. destruct (apply_eff_q s e (proj1 HJ)) as [H1 [H2 H3]]. eapply J_from_grows; eauto. Qed.

Lemma J_init : forall units acts, J (sim_init units acts).
Proof.
  intros. unfold J, taken; cbn. split; [apply qinv_empty|]. split; [constructor|intros i []].
Qed.

(* the fate of the task an iteration takes, as a function of the state at that moment *)
Definition fate_of (s : sim) (t : task) : fate :=
  if lstate_eqb (life_of s (t_src t)) LDead then DroppedDead
  else if negb (on_field s (t_src t)) then DroppedOffField
  else if has_flag s (t_src t) (t_flags t) then DroppedFlag
  else match t_body t with
       | BAction u => if lstate_eqb (life_of s u) LAlive then Executed else ActionNotAlive
       | BAbility _ => Executed
       end.

Lemma execute_fate : forall s t, snd (execute s t) =
  match t_body t with
  | BAction u => if lstate_eqb (life_of s u) LAlive then Executed else ActionNotAlive
  | BAbility _ => Executed
  end.
Proof.
  intros. unfold execute. destruct (t_body t) as [sc|u]; [reflexivity|].
  destruct (lstate_eqb (life_of s u) LAlive); [|reflexivity].
  destruct (next_act (emit s [TActionStart u; TAct u]) u). reflexivity.
Qed.

Theorem iter_spec : forall s s' stopped, J s -> iter s = Some (s', stopped) ->
  (* a side has been wiped out: the battle ends, nothing is taken *)
  (exists r, exit_reason s = Some r /\ q_pending (s_q s) <> [] /\
             s' = emit s [TTermination r] /\ stopped = true) \/
  (exit_reason s = None /\
   exists t q', pop_min (s_q s) = Some (t, q') /\
    (* it is the least pending task *)
    In t (q_pending (s_q s)) /\ (forall t', In t' (q_pending (s_q s)) -> less t' t = false) /\
    (* it is recorded once, with the fate the state at that moment dictates *)
    s_log s' = s_log s ++ [mkE t (fate_of s t)] /\
    (* a dropped task: nothing at all happens besides leaving the queue *)
    ((fate_of s t = DroppedDead \/ fate_of s t = DroppedOffField \/ fate_of s t = DroppedFlag) ->
       s' = record (with_q s q') (mkE t (fate_of s t)) /\ stopped = false) /\
    (* an inserted action of a unit that is not alive does nothing either *)
    (fate_of s t = ActionNotAlive ->
       s_q s' = q' /\ s_life s' = s_life s /\ s_flags s' = s_flags s /\ s_acts s' = s_acts s) /\
    J s').
Proof.
  intros s s' stopped HJ H. unfold iter in H.
  destruct (pop_min (s_q s)) as [[t q']|] eqn:E; [|discriminate].
  destruct (exit_reason s) as [r|] eqn:Eexit.
  { left. exists r. inversion H; subst. repeat split; try reflexivity.
    intros Hp. apply pop_min_none in Hp. congruence. }
  right. split; [reflexivity|].
  destruct HJ as [Hq [Hnd Hlog]].
  destruct (pop_min_spec _ _ _ Hq E) as [Hin [Hleast [_ [HP [Hni [Hc Hq']]]]]].
  exists t, q'. split; [reflexivity|]. split; [exact Hin|]. split; [exact Hleast|].
  (* J of the state right after the pop, with the task recorded *)
  assert (Hfresh : ~ In (t_id t) (taken s)).
  { intros Hi. destruct (Hlog _ Hi) as [_ Hn]. apply Hn. unfold ids. now apply in_map. }
  assert (Hsub : forall i, In i (ids (q_pending q')) -> In i (ids (q_pending (s_q s)))).
  { intros i Hi. eapply perm_ids_in; [apply Permutation_sym; exact HP|]. cbn. now right. }
  assert (Hlt : t_id t < q_counter (s_q s)) by (destruct Hq as [_ [_ Hb]]; specialize (Hb t Hin); lia).
  assert (J0 : J (with_q s q')).
  { unfold J, taken. cbn [with_q s_q s_log]. split; [exact Hq'|]. split; [exact Hnd|].
    intros i Hi. destruct (Hlog i Hi) as [H1 H2]. split; [lia|]. intros Hx. apply H2. now apply Hsub. }
  assert (Jrec : forall s1 f, qinv (s_q s1) -> grows q' (s_q s1) -> s_log s1 = s_log s ->
                  J (record s1 (mkE t f))).
  { intros s1 f Hq1 [Hc1 Hp1] Hl1. unfold J, taken. cbn [record s_q s_log]. rewrite Hl1, map_app. cbn [map e_task].
    split; [exact Hq1|]. split.
    - apply nodup_snoc; assumption.
    - intros i Hi. apply in_app_or in Hi. destruct Hi as [Hi|[<-|[]]].
      + destruct (Hlog i Hi) as [H1 H2]. split; [lia|]. intros Hx. unfold ids in Hx.
        apply in_map_iff in Hx. destruct Hx as [t1 [He Ht1]]. destruct (Hp1 t1 Ht1) as [Hold|Hge]; [|lia].
        apply H2. apply Hsub. unfold ids. rewrite <- He. now apply in_map.
      + split; [lia|]. intros Hx. unfold ids in Hx. apply in_map_iff in Hx. destruct Hx as [t1 [He Ht1]].
        destruct (Hp1 t1 Ht1) as [Hold|Hge]; [|lia]. apply Hni. unfold ids. rewrite <- He. now apply in_map. }
  unfold fate_of. change (life_of (with_q s q')) with (life_of s) in H.
  change (has_flag (with_q s q')) with (has_flag s) in H.
  change (on_field (with_q s q')) with (on_field s) in H.
  destruct (lstate_eqb (life_of s (t_src t)) LDead) eqn:Ed.
  { inversion H; subst s' stopped; clear H. split; [reflexivity|]. split; [auto|]. split; [discriminate|].
    apply Jrec; [exact Hq'|apply grows_refl|reflexivity]. }
  destruct (negb (on_field s (t_src t))) eqn:Eo.
  { inversion H; subst s' stopped; clear H. split; [reflexivity|]. split; [auto|]. split; [discriminate|].
    apply Jrec; [exact Hq'|apply grows_refl|reflexivity]. }
  destruct (has_flag s (t_src t) (t_flags t)) eqn:Ef.
  { inversion H; subst s' stopped; clear H. split; [reflexivity|]. split; [auto|]. split; [discriminate|].
    apply Jrec; [exact Hq'|apply grows_refl|reflexivity]. }
  pose proof (execute_fate (with_q s q') t) as Hfate. change (life_of (with_q s q')) with (life_of s) in Hfate.
  destruct (execute_q (with_q s q') t Hq') as [Hq1 [Hg1 Hl1]].
  destruct (execute (with_q s q') t) as [s1 f] eqn:Ex. cbn [fst snd] in *. subst f.
  set (f := match t_body t with
            | BAbility _ => Executed
            | BAction u => if lstate_eqb (life_of s u) LAlive then Executed else ActionNotAlive
            end) in *.
  assert (Jdc : J (death_check (record s1 (mkE t f)))).
  { assert (J1 : J (record s1 (mkE t f))) by (apply Jrec; assumption).
    unfold J, taken in *. exact J1. }
  assert (Hlogdc : s_log (death_check (record s1 (mkE t f))) = s_log s ++ [mkE t f]).
  { cbn. now rewrite Hl1. }
  assert (Hna : f = ActionNotAlive ->
            s_q s1 = q' /\ s_life s1 = s_life s /\ s_flags s1 = s_flags s /\ s_acts s1 = s_acts s).
  { intros Hf. unfold execute in Ex. subst f. destruct (t_body t) as [sc|u]; [discriminate|].
    destruct (lstate_eqb (life_of s u) LAlive) eqn:Ea; [discriminate|].
    change (life_of (with_q s q') u) with (life_of s u) in Ex. rewrite Ea in Ex.
    inversion Ex; subst s1. cbn. auto. }
  destruct (exit_reason (death_check (record s1 (mkE t f)))) as [r|];
    inversion H; subst s' stopped; clear H.
  - split; [exact Hlogdc|]. split; [intros [Hx|[Hx|Hx]]; subst f; destruct (t_body t) as [|u]; try discriminate;
      destruct (lstate_eqb (life_of s u) LAlive); discriminate|].
    split; [exact Hna|]. exact Jdc.
  - split; [exact Hlogdc|]. split; [intros [Hx|[Hx|Hx]]; subst f; destruct (t_body t) as [|u]; try discriminate;
      destruct (lstate_eqb (life_of s u) LAlive); discriminate|].
    split; [exact Hna|]. exact Jdc.
Qed.

Lemma iter_none : forall s, iter s = None <-> q_pending (s_q s) = [].
Proof.
  intros s. rewrite <- pop_min_none. unfold iter. destruct (pop_min (s_q s)) as [[t q']|].
  - split; [|discriminate]. intros H.
    destruct (exit_reason s); [discriminate|].
    destruct (lstate_eqb (life_of (with_q s q') (t_src t)) LDead); [discriminate|].
    destruct (negb (on_field (with_q s q') (t_src t))); [discriminate|].
    destruct (has_flag (with_q s q') (t_src t) (t_flags t)); [discriminate|].
    destruct (execute (with_q s q') t) as [s1 f].
    destruct (exit_reason (death_check (record s1 (mkE t f)))); discriminate.
  - tauto.
Qed.

Lemma iter_J : forall s s' stopped, J s -> iter s = Some (s', stopped) -> J s'.
Proof.
  intros s s' stopped HJ H. destruct (iter_spec _ _ _ HJ H) as [[r [_ [_ [-> _]]]]|[_ [t [q' [_ [_ [_ [_ [_ [_ HJ1]]]]]]]]]].
  - exact HJ.
  - exact HJ1.
Qed.

Lemma iter_log : forall s s' stopped, J s -> iter s = Some (s', stopped) -> exists more, s_log s' = s_log s ++ more.
Proof.
  intros s s' stopped HJ H. destruct (iter_spec _ _ _ HJ H) as [[r [_ [_ [-> _]]]]|[_ [t [q' [_ [_ [_ [Hl _]]]]]]]].
  - exists []. cbn. now rewrite app_nil_r.
  - eauto.
Qed.

Lemma drain_J : forall fuel s s' stopped, J s -> drain fuel s = Some (s', stopped) -> J s'.
Proof.
  induction fuel as [|n IH]; intros s s' stopped HJ H; cbn [drain] in H; [discriminate|].
  destruct (iter s) as [[s1 [|]]|] eqn:E.
  - inversion H; subst. eapply iter_J; eauto.
  - eapply IH; [|exact H]. eapply iter_J; eauto.
  - inversion H; subst. exact HJ.
Qed.

(* a drain that is not cut short by an exit condition leaves the queue empty *)
Lemma drain_empties : forall fuel s s', drain fuel s = Some (s', false) -> q_pending (s_q s') = [].
Proof.
  induction fuel as [|n IH]; intros s s' H; cbn [drain] in H; [discriminate|].
  destruct (iter s) as [[s1 [|]]|] eqn:E.
  - discriminate.
  - eapply IH; eauto.
  - inversion H; subst. now apply iter_none.
Qed.

(* the log only grows during a drain: what was taken stays taken *)
Lemma drain_log_prefix : forall fuel s s' stopped, J s -> drain fuel s = Some (s', stopped) ->
  exists more, s_log s' = s_log s ++ more.
Proof.
  induction fuel as [|n IH]; intros s s' stopped HJ H; cbn [drain] in H; [discriminate|].
  destruct (iter s) as [[s1 [|]]|] eqn:E.
  - inversion H; subst. eapply iter_log; eauto.
  - destruct (iter_log _ _ _ HJ E) as [m1 Hl]. pose proof (iter_J _ _ _ HJ E) as HJ1.
    destruct (IH _ _ _ HJ1 H) as [more Hm]. rewrite Hm, Hl, <- app_assoc. eauto.
  - inversion H; subst. exists []. now rewrite app_nil_r.
Qed.

Lemma top_run_J : forall fuel ops s s', J s -> top_run fuel s ops = Some s' -> J s'.
Proof.
  induction ops as [|o r IH]; intros s s' HJ H; cbn [top_run] in H; [inversion H; subst; exact HJ|].
  destruct o as [e| |u]; cbn [top_step] in H.
  - eapply IH; [|exact H]. now apply J_apply_eff.
  - destruct (drain fuel s) as [[s1 stopped]|] eqn:E; [|discriminate].
    pose proof (drain_J _ _ _ _ HJ E) as HJ1.
    assert (HJ2 : J (emit s1 [TDrained stopped (q_is_empty (s_q s1))])) by exact HJ1.
    destruct stopped; [inversion H; subst; exact HJ2|]. eapply IH; eauto.
  - eapply IH; [|exact H]. exact HJ.
Qed.

(* ---- the Execute callback of an insert runs at most once (what the harness observes) ---- *)
Definition texecs (tr : list titem) : list Z :=
  flat_map (fun it => match it with TExec i => [i] | _ => [] end) tr.
Definition ran_ability (e : entry) : bool :=
  match e_fate e, t_body (e_task e) with Executed, BAbility _ => true | _, _ => false end.
Definition K (s : sim) : Prop :=
  texecs (s_trace s) = map (fun e => t_id (e_task e)) (filter ran_ability (s_log s)).

Lemma texecs_app : forall a b, texecs (a ++ b) = texecs a ++ texecs b.
Proof. intros. unfold texecs. apply flat_map_app. Qed.

Lemma apply_eff_trace : forall s e, s_trace (apply_eff s e) = s_trace s.
Proof.
  intros s e. destruct e as [p src f sc|u|u l|u|u f on]; cbn [apply_eff]; try reflexivity.
  - destruct (zget (s_life s) u) as [[]|]; reflexivity.
  - destruct (zget (s_life s) u) as [[| | |]|]; reflexivity.
  - destruct (zget (s_cls s) u); reflexivity.
Qed.
Lemma run_script_trace : forall sc s, s_trace (run_script s sc) = s_trace s.
Proof.
  induction sc as [|e r IH]; intros s; [reflexivity|]. unfold run_script in *. cbn [fold_left].
  rewrite IH. apply apply_eff_trace.
Qed.

Lemma death_check_texecs : forall s, texecs (s_trace (death_check s)) = texecs (s_trace s).
Proof.
  intros s. unfold death_check. cbn [emit s_trace with_sides]. rewrite texecs_app.
  assert (H : forall l, texecs (map TDeath l) = []) by (induction l; auto).
  rewrite H. apply app_nil_r.
Qed.

Lemma execute_texecs : forall s t,
  texecs (s_trace (fst (execute s t))) =
  texecs (s_trace s) ++ match t_body t with BAbility _ => [t_id t] | BAction _ => [] end.
Proof.
  intros s t. unfold execute. destruct (t_body t) as [sc|u].
  - cbn [fst emit s_trace]. rewrite texecs_app, run_script_trace. cbn [emit s_trace].
    rewrite texecs_app. cbn. rewrite app_nil_r. reflexivity.
  - destruct (lstate_eqb (life_of s u) LAlive); [|cbn; now rewrite app_nil_r].
    unfold next_act. cbn [emit s_acts].
    destruct (zget (s_acts s) u) as [[|sc rest]|]; cbn [fst emit s_trace];
      rewrite ?texecs_app, ?run_script_trace; cbn [with_acts emit s_trace]; rewrite ?texecs_app; cbn;
      rewrite ?app_nil_r; reflexivity.
Qed.

Lemma apply_eff_log : forall s e, s_log (apply_eff s e) = s_log s.
Proof.
  intros s e. destruct e as [p src f sc|u|u l|u|u f on]; cbn [apply_eff]; try reflexivity.
  - destruct (zget (s_life s) u) as [[]|]; reflexivity.
  - destruct (zget (s_life s) u) as [[| | |]|]; reflexivity.
  - destruct (zget (s_cls s) u); reflexivity.
Qed.
Lemma run_script_log : forall sc s, s_log (run_script s sc) = s_log s.
Proof.
  induction sc as [|e r IH]; intros s; [reflexivity|]. unfold run_script in *. cbn [fold_left].
  rewrite IH. apply apply_eff_log.
Qed.
Lemma execute_log : forall s t, s_log (fst (execute s t)) = s_log s.
Proof.
  intros s t. unfold execute. destruct (t_body t) as [sc|u].
  - cbn [fst emit s_log]. now rewrite run_script_log.
  - destruct (lstate_eqb (life_of s u) LAlive); [|reflexivity].
    unfold next_act. cbn [emit s_acts].
    destruct (zget (s_acts s) u) as [[|sc rest]|]; cbn [fst emit s_log]; rewrite ?run_script_log; reflexivity.
Qed.

Lemma iter_K : forall s s' stopped, K s -> iter s = Some (s', stopped) -> K s'.
Proof.
  intros s s' stopped HK H. unfold iter in H.
  destruct (pop_min (s_q s)) as [[t q']|]; [|discriminate].
  destruct (exit_reason s).
  { inversion H; subst. unfold K in *. cbn [emit s_trace s_log]. rewrite texecs_app. cbn.
    rewrite app_nil_r. exact HK. }
  destruct (lstate_eqb (life_of (with_q s q') (t_src t)) LDead).
  { inversion H; subst. unfold K in *. cbn [record with_q s_trace s_log]. rewrite filter_app, map_app.
    cbn. rewrite app_nil_r. exact HK. }
  destruct (negb (on_field (with_q s q') (t_src t))).
  { inversion H; subst. unfold K in *. cbn [record with_q s_trace s_log]. rewrite filter_app, map_app.
    cbn. rewrite app_nil_r. exact HK. }
  destruct (has_flag (with_q s q') (t_src t) (t_flags t)).
  { inversion H; subst. unfold K in *. cbn [record with_q s_trace s_log]. rewrite filter_app, map_app.
    cbn. rewrite app_nil_r. exact HK. }
  pose proof (execute_texecs (with_q s q') t) as Ht.
  pose proof (execute_fate (with_q s q') t) as Hf.
  pose proof (execute_log (with_q s q') t) as Hl.
  destruct (execute (with_q s q') t) as [s1 f]. cbn [fst snd] in *.
  assert (HK2 : K (death_check (record s1 (mkE t f)))).
  { unfold K in *. rewrite death_check_texecs. cbn [record s_trace death_check emit with_sides s_log].
    rewrite Ht, Hl. cbn [with_q s_trace s_log]. rewrite HK, filter_app, map_app. f_equal.
    cbn [filter]. unfold ran_ability at 1. cbn [e_fate e_task]. subst f.
    destruct (t_body t) as [sc|u]; [reflexivity|].
    destruct (lstate_eqb (life_of (with_q s q') u) LAlive); reflexivity. }
  destruct (exit_reason (death_check (record s1 (mkE t f)))); inversion H; subst; [|exact HK2].
  unfold K in *. cbn [emit s_trace s_log]. rewrite texecs_app. cbn. rewrite app_nil_r. exact HK2.
Qed.

Lemma drain_K : forall fuel s s' stopped, K s -> drain fuel s = Some (s', stopped) -> K s'.
Proof.
  induction fuel as [|n IH]; intros s s' stopped HK H; cbn [drain] in H; [discriminate|].
  destruct (iter s) as [[s1 [|]]|] eqn:E.
  - inversion H; subst. eapply iter_K; eauto.
  - eapply IH; [|exact H]. eapply iter_K; eauto.
  - inversion H; subst. exact HK.
Qed.

Lemma top_run_K : forall fuel ops s s', K s -> top_run fuel s ops = Some s' -> K s'.
Proof.
  induction ops as [|o r IH]; intros s s' HK H; cbn [top_run] in H; [inversion H; subst; exact HK|].
  destruct o as [e| |u]; cbn [top_step] in H; [| |eapply IH; [|exact H]; exact HK].
  - eapply IH; [|exact H]. unfold K in *. now rewrite apply_eff_trace, apply_eff_log.
  - destruct (drain fuel s) as [[s1 stopped]|] eqn:E; [|discriminate].
    pose proof (drain_K _ _ _ _ HK E) as HK1.
    assert (HK2 : K (emit s1 [TDrained stopped (q_is_empty (s_q s1))])).
    { unfold K in *. cbn [emit s_trace s_log]. rewrite texecs_app. cbn. now rewrite app_nil_r. }
    destruct stopped; [inversion H; subst; exact HK2|]. eapply IH; eauto.
Qed.

Lemma nodup_map_filter : forall A (f : A -> Z) (p : A -> bool) l, NoDup (map f l) -> NoDup (map f (filter p l)).
Proof.
  induction l as [|x r IH]; intros H; cbn; [constructor|]. inversion H as [|? ? Hx Hr]; subst.
  destruct (p x); cbn; [constructor|]; auto.
  intros Hi. apply Hx. apply in_map_iff in Hi. destruct Hi as [y [He Hy]]. apply filter_In in Hy.
  apply in_map_iff. exists y. tauto.
Qed.

(* from the harness's initial state: every task is taken at most once and every Execute
   callback runs at most once, whatever the scripts do *)
Theorem taken_at_most_once : forall units acts fuel ops s,
  top_run fuel (sim_init units acts) ops = Some s ->
  J s /\ NoDup (taken s) /\ NoDup (texecs (s_trace s)).
Proof.
  intros units acts fuel ops s H.
  assert (HJ : J s) by (eapply top_run_J; [apply J_init|exact H]).
  assert (HK : K s) by (eapply top_run_K; [|exact H]; reflexivity).
  split; [exact HJ|]. split; [apply HJ|]. rewrite HK. apply nodup_map_filter. apply HJ.
Qed.

(* ---- dropped if and only if ---- *)
Lemma lstate_eqb_eq : forall a b, lstate_eqb a b = true <-> a = b.
Proof. intros a b. destruct a, b; cbn; split; intros; try discriminate; reflexivity. Qed.

Theorem dropped_iff : forall s t,
  (fate_of s t = DroppedDead <-> life_of s (t_src t) = LDead) /\
  (fate_of s t = DroppedOffField <-> life_of s (t_src t) <> LDead /\ on_field s (t_src t) = false) /\
  (fate_of s t = DroppedFlag <->
     life_of s (t_src t) <> LDead /\ on_field s (t_src t) = true /\ has_flag s (t_src t) (t_flags t) = true) /\
  (fate_of s t = ActionNotAlive <->
     life_of s (t_src t) <> LDead /\ on_field s (t_src t) = true /\ has_flag s (t_src t) (t_flags t) = false /\
     exists u, t_body t = BAction u /\ life_of s u <> LAlive) /\
  (fate_of s t = Executed <->
     life_of s (t_src t) <> LDead /\ on_field s (t_src t) = true /\ has_flag s (t_src t) (t_flags t) = false /\
     match t_body t with BAction u => life_of s u = LAlive | BAbility _ => True end).
Proof.
  intros s t. unfold fate_of.
  assert (Hd : forall a b, lstate_eqb a b = false -> a <> b).
  { intros a b H He. apply lstate_eqb_eq in He. congruence. }
  destruct (lstate_eqb (life_of s (t_src t)) LDead) eqn:Ed;
    [apply lstate_eqb_eq in Ed|apply Hd in Ed];
  (destruct (on_field s (t_src t)) eqn:Eo; cbn [negb]);
  (destruct (has_flag s (t_src t) (t_flags t)) eqn:Ef);
  (destruct (t_body t) as [sc|u]; [|destruct (lstate_eqb (life_of s u) LAlive) eqn:Ea;
                                     [apply lstate_eqb_eq in Ea|apply Hd in Ea]]);
  intuition (try discriminate; try congruence);
  try (match goal with H : exists _, _ |- _ => destruct H as [u' [He Hn]] end;
       try discriminate; inversion He; subst; contradiction);
  eauto.
Qed.

(* the source is off the field exactly when it is in neither living side list *)
Lemma on_field_iff : forall s u, on_field s u = true <-> In u (s_chars s) \/ In u (s_enemies s).
Proof.
  intros s u. unfold on_field, zmem. rewrite orb_true_iff, !existsb_exists.
  split; intros [H|H]; [left|right|left|right];
    try (destruct H as [x [Hx He]]; apply Z.eqb_eq in He; subst; exact Hx);
    exists u; (split; [exact H|apply Z.eqb_refl]).
Qed.

(* ------------------------------------------------------------------------------------ *)
(* Part E: the property *)
Definition C10_statement : Prop :=
  (* the comparison is (priority, insertion id), a strict total order on distinct ids *)
  (forall a b, less a b = true <-> lex_lt a b) /\
  (forall a b, t_id a <> t_id b -> less a b = true \/ less b a = true) /\
  (* an insert stamps the running counter *)
  (forall q p s f b, q_pending (q_insert q p s f b) = q_pending q ++ [mkT (q_counter q) p s f b] /\
                     q_counter (q_insert q p s f b) = q_counter q + 1) /\
  (* after ANY interleaving of inserts and pops: ids were handed out in insertion order and are
     distinct; the next pop takes exactly the pending task with the smallest priority, the
     oldest among equals, and only that one leaves the queue *)
  (forall pre, let q := fst (arun q_empty pre) in
     qinv q /\ q_counter q = count_ins pre /\
     (pop_min q = None <-> q_pending q = []) /\
     (forall m q', pop_min q = Some (m, q') ->
        In m (q_pending q) /\
        (forall t, In t (q_pending q) -> t_prio m <= t_prio t /\ (t_prio t = t_prio m -> t_id m <= t_id t)) /\
        (forall t, In t (q_pending q) -> t <> m -> less m t = true) /\
        Permutation (q_pending q) (m :: q_pending q'))) /\
  (* no task is popped twice *)
  (forall ops, NoDup (ids (snd (arun q_empty ops)))) /\
  (* the drain, from any state satisfying the invariant: the task taken is the least pending
     one, it is recorded once with the fate its source's state dictates, and a dropped task
     changes nothing; when a side has been wiped out nothing is taken and the battle ends *)
  (forall s s' stopped, J s -> iter s = Some (s', stopped) ->
     (exists r, exit_reason s = Some r /\ q_pending (s_q s) <> [] /\
                s' = emit s [TTermination r] /\ stopped = true) \/
     (exit_reason s = None /\
      exists t q', pop_min (s_q s) = Some (t, q') /\
       In t (q_pending (s_q s)) /\ (forall t', In t' (q_pending (s_q s)) -> less t' t = false) /\
       s_log s' = s_log s ++ [mkE t (fate_of s t)] /\
       ((fate_of s t = DroppedDead \/ fate_of s t = DroppedOffField \/ fate_of s t = DroppedFlag) ->
          s' = record (with_q s q') (mkE t (fate_of s t)) /\ stopped = false) /\
       (fate_of s t = ActionNotAlive ->
          s_q s' = q' /\ s_life s' = s_life s /\ s_flags s' = s_flags s /\ s_acts s' = s_acts s) /\
       J s')) /\
  (* dropped exactly when the source is dead, or has left the field (is in neither living side
     list), or carries an abort flag; an inserted action additionally does nothing unless its
     unit is alive *)
  (forall s t,
     (fate_of s t = DroppedDead <-> life_of s (t_src t) = LDead) /\
     (fate_of s t = DroppedOffField <-> life_of s (t_src t) <> LDead /\ on_field s (t_src t) = false) /\
     (fate_of s t = DroppedFlag <->
        life_of s (t_src t) <> LDead /\ on_field s (t_src t) = true /\ has_flag s (t_src t) (t_flags t) = true) /\
     (fate_of s t = ActionNotAlive <->
        life_of s (t_src t) <> LDead /\ on_field s (t_src t) = true /\ has_flag s (t_src t) (t_flags t) = false /\
        exists u, t_body t = BAction u /\ life_of s u <> LAlive) /\
     (fate_of s t = Executed <->
        life_of s (t_src t) <> LDead /\ on_field s (t_src t) = true /\ has_flag s (t_src t) (t_flags t) = false /\
        match t_body t with BAction u => life_of s u = LAlive | BAbility _ => True end)) /\
  (forall s u, on_field s u = true <-> In u (s_chars s) \/ In u (s_enemies s)) /\
  (* whole runs of the harness machine (effects, drains, inserts from inside executing inserts):
     the invariant holds, every task is taken at most once, every Execute callback runs at
     most once; a drain that is not stopped by an exit condition empties the queue *)
  (forall units acts fuel ops s, top_run fuel (sim_init units acts) ops = Some s ->
     J s /\ NoDup (taken s) /\ NoDup (texecs (s_trace s))) /\
  (forall fuel s s', drain fuel s = Some (s', false) -> q_pending (s_q s') = []).

Theorem C10_holds : C10_statement.
Proof.
  split; [exact less_iff|]. split; [exact less_total|]. split; [exact insert_stamps|].
  split.
  { intros pre q.
    assert (Hq : qinv q) by (apply arun_qinv, qinv_empty).
    split; [exact Hq|]. split; [unfold q; rewrite arun_counter; cbn; lia|].
    split; [apply pop_min_none|].
    intros m q' E. destruct (pop_min_spec q m q' Hq E) as [Hin [Hleast [Hstrict [HP _]]]].
    split; [exact Hin|]. split; [intros t Ht; apply nless_meaning; now apply Hleast|].
    split; [exact Hstrict|exact HP]. }
  split; [intros ops; apply arun_popped, qinv_empty|].
  split; [exact iter_spec|]. split; [exact dropped_iff|]. split; [exact on_field_iff|].
  split; [exact taken_at_most_once|exact drain_empties].
Qed.

(* non-vacuity: three pending inserts of mixed priority, one of them queued by an executing
   insert, a dead source and a flagged source *)
Definition demo_units : list (Z * class) := [(1, CChar); (3, CEnemy); (4, CEnemy)].
Definition demo_ops : list top :=
  [ TEff (EAbility 115 1 [] [EAbility 75 1 [] []; EKill 4 false]);   (* id 0; queues id 5 and kills unit 4 *)
    TEff (EAbility 75 3 [100] []);                                     (* id 1 *)
    TEff (EAbility 75 4 [] []);                                        (* id 2 *)
    TEff (EAction 4);                                                  (* id 3 *)
    TEff (EFlag 3 100 true);
    TEff (EAbility 45 9 [] []);                                        (* id 4; 9 never was a unit *)
    TDrain ].

Lemma demo_runs : exists s,
  top_run 50 (sim_init demo_units []) demo_ops = Some s /\
  map (fun e => (t_id (e_task e), e_fate e)) (s_log s) =
    [(4, DroppedOffField); (1, DroppedFlag); (2, Executed); (0, Executed); (5, Executed); (3, DroppedDead)] /\
  texecs (s_trace s) = [2; 0; 5].
Proof. eexists. vm_compute. repeat split; reflexivity. Qed.
