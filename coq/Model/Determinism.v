(* C01 — seeded runs are reproducible: the terms exchanged with the repeated-run harness
   (harness/cmd/corr/determinism.go) and the model side of the comparison.

   A Gallina function is deterministic by construction, so what is modelled here is not the
   simulator but what could make two repetitions of the SAME (configuration, script, seed)
   differ in Go: the iteration order of maps (Base/MapIter.v: an explicit oracle), ambient
   randomness and clock (Gen/Sites.v).  For a repeated run the model's prediction is therefore
   simply: every repetition equals repetition 0 — same iteration result, same event log line for
   line, same printed script output, same error/panic status. *)
From Coq Require Import List ZArith Bool String.
Import ListNotations.
Open Scope Z_scope.

(* ---- the generated configuration (input term) ---- *)
Inductive det_lc := DLc (key : string) (level imposition : Z).
Inductive det_relic := DRelic (set : string) (pieces stat amount_milli : Z).
Inductive det_char :=
  DChar (key : string) (level eidolon : Z) (traces : list string) (lc : det_lc)
        (relics : list det_relic) (start_energy start_hp_pct : Z).
Inductive det_enemy :=
  DEnemy (level : Z) (attack : string) (hits dmg_pct : Z) (dmg_type : string)
         (weaknesses : list string) (base_hp : Z).

(* characters, enemies, gcs script, seed, cycle limit, harness probes on/off *)
Definition det_in := (list det_char * list det_enemy * string * Z * Z * bool)%type.

(* ---- what the harness observed ---- *)
Inductive det_out :=
| DetOut (status : string)       (* outcome of repetition 0: ok / error: ... / panic: ... *)
         (flags : list bool)     (* repetitions 1..4 vs repetition 0: result, log, printed, status equal *)
         (hashes : list string)  (* hash of everything each of the 5 repetitions produced *)
         (lines : Z)             (* log lines of repetition 0 *)
         (first_difference : string)
| HarnessPanic (msg : string).

Definition in_process_repetitions : nat := 3.
Definition fresh_process_repetitions : nat := 2.
Definition repetitions : nat := in_process_repetitions + fresh_process_repetitions.
Definition comparisons_per_repetition : nat := 4.

(* the model's prediction for any input: all comparisons come out equal *)
Definition predicted_flags (i : det_in) : list bool :=
  repeat true ((repetitions - 1) * comparisons_per_repetition).
