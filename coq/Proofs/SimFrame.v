(* A frame principle for the whole-simulation model: any reflexive, transitive relation between
   simulation states that every primitive of the content level respects is respected by every
   script run (in either mode, at any listener nesting depth).  Instantiated by the trace-level
   death proof (SimDeathTrace.v). *)
From Coq Require Import List ZArith Bool Floats Lia.
From SR Require Import Base.CaseLib Base.NumOps Model.Turn Model.Sim Model.SimProtocol Proofs.SimDeath.
Import ListNotations.
Open Scope Z_scope.

(* events a content script can cause, other than the sample *)
Definition script_ev (e : ev) : bool :=
  match e with
  | VHPSeen _ _ | VHPChange _ _ _ | VLimbo _ _ | VHitStart _ _ | VHitEnd _ _ _ _
  | VAttackStart _ _ | VAttackEnd _ _ | VEnergyChange _ _ _ | VSPChange _ _ | VGaugeChange _ _ _ => true
  | _ => false
  end.

Lemma gauge_events_script outs : forallb script_ev (gauge_events outs) = true.
Proof.
  unfold gauge_events. induction outs as [|o outs IH]; [reflexivity|].
  cbn [flat_map]. rewrite forallb_app, IH, andb_true_r. destruct o; reflexivity.
Qed.

Section Frame.
  Variable cfg : config.
  Variable Q : sim -> sim -> Prop.
  Hypothesis Q_refl : forall s, Q s s.
  Hypothesis Q_trans : forall a b c, Q a b -> Q b c -> Q a c.
  Hypothesis Q_emit : forall s l, forallb script_ev l = true -> Q s (emit s l).
  Hypothesis Q_sample : forall s, Q s (emit s [VSample (chars s) (enemies s) (turn_ids s)]).
  (* a unit record is replaced by one with the same id; a dead unit's record stays dead *)
  Hypothesis Q_upd : forall s u u0, get_unit (units s) (uid u) = Some u0 -> (ust u0 = Dead -> ust u = Dead) ->
    Q s (upd_unit s u).
  (* bookkeeping fields: skill points, queue, budget, listener slots, attack flag, statistics *)
  Hypothesis Q_same : forall s s', units s' = units s -> chars s' = chars s -> enemies s' = enemies s ->
    turn s' = turn s -> trace s' = trace s -> Q s s'.
  Hypothesis Q_gauge : forall s id amt, Q s (set_turn s (fst (Turn.step F (turn s) (@OModNorm F id amt)))).

  Ltac via_emit := match goal with |- Q _ (emit ?m _) => apply Q_trans with m; [|apply Q_emit; reflexivity] end.

  Definition q_runner (R : runner) : Prop := forall s self p sc s', R s self p sc = Some s' -> Q s s'.

  Lemma get_unit_uid us id u : get_unit us id = Some u -> uid u = id.
  Proof.
    induction us as [|x us IH]; cbn; [discriminate|].
    destruct (uid x =? id) eqn:E; [intros H; inversion H; subst; apply Z.eqb_eq; exact E|exact IH].
  Qed.

  Lemma Q_upd_same s id u u' : get_unit (units s) id = Some u -> uid u' = uid u -> ust u' = ust u -> Q s (upd_unit s u').
  Proof.
    intros G I S. apply (Q_upd s u' u).
    - rewrite I, (get_unit_uid _ _ _ G). exact G.
    - rewrite S. auto.
  Qed.

  Lemma Q_set_energy s id a : Q s (set_energy s id a).
  Proof.
    unfold set_energy. destruct (get_unit (units s) id) as [u|] eqn:G; [|apply Q_refl].
    match goal with |- context [PrimFloat.eqb ?x ?y] => destruct (PrimFloat.eqb x y) end; [apply Q_refl|].
    match goal with |- Q s (emit ?m _) => apply Q_trans with m end; [|apply Q_emit; reflexivity].
    eapply Q_upd_same; [exact G|reflexivity|reflexivity].
  Qed.

  Lemma Q_mod_energy s id a : Q s (mod_energy_fixed s id a).
  Proof. unfold mod_energy_fixed. destruct (get_unit (units s) id); [apply Q_set_energy|apply Q_refl]. Qed.

  Lemma Q_mod_sp s a : Q s (mod_sp s a).
  Proof.
    unfold mod_sp. match goal with |- context [?x =? ?y] => destruct (x =? y) end; [apply Q_refl|].
    via_emit. apply Q_same; reflexivity.
  Qed.

  Lemma Q_record_hit s d t : Q s (record_hit s d t).
  Proof. unfold record_hit. destruct (get_unit (units s) d); [apply Q_same; reflexivity|apply Q_refl]. Qed.

  Lemma Q_pop_slot s x : Q s (snd (pop_slot s x)).
  Proof. unfold pop_slot. destruct (nth (slot_ix x) (lslots s) []); [apply Q_refl|apply Q_same; reflexivity]. Qed.

  Lemma Q_end_attack s : Q s (end_attack s).
  Proof.
    unfold end_attack. destruct (in_attack s) as [[k a]|]; [|apply Q_refl].
    via_emit. apply Q_same; reflexivity.
  Qed.

  Lemma Q_enqueue s p src ab k : Q s (enqueue s p src ab k).
  Proof. apply Q_same; reflexivity. Qed.

  Lemma Q_hp_change R (GR : q_runner R) s u n d src s' :
    get_unit (units s) (uid u) = Some u -> hp_change cfg R s u n d src = Some s' -> Q s s'.
  Proof.
    intros G. unfold hp_change. destruct (PrimFloat.eqb (uhp u) n); [intros H; inversion H; subst; apply Q_refl|].
    set (s0 := emit (upd_unit s _) [VHPSeen (uid u) d]).
    assert (E0 : Q s s0).
    { unfold s0. via_emit. eapply (Q_upd_same s (uid u) u); [exact G|reflexivity|reflexivity]. }
    destruct (pop_slot s0 LHP) as [sc s1] eqn:EP.
    assert (E1 : Q s s1).
    { eapply Q_trans; [exact E0|]. replace s1 with (snd (pop_slot s0 LHP)) by (rewrite EP; reflexivity). apply Q_pop_slot. }
    match goal with |- match ?r with _ => _ end = _ -> _ => destruct r as [s2|] eqn:ER; [|discriminate] end.
    assert (E2 : Q s s2).
    { destruct sc as [i|]; [eapply Q_trans; [exact E1|eapply GR; exact ER]|inversion ER; subst; exact E1]. }
    set (s3 := emit s2 [VHPChange (uid u) (uhp u) n]).
    assert (E3 : Q s s3) by (eapply Q_trans; [exact E2|apply Q_emit; reflexivity]).
    destruct (get_unit (units s3) (uid u)) as [u'|] eqn:G3; [|intros H; inversion H; subst; exact E3].
    assert (I3 : uid u' = uid u) by (eapply get_unit_uid; exact G3).
    assert (G3' : forall st, get_unit (units s3) (uid (with_state u' st)) = Some u') by (intros st; cbn [uid with_state]; rewrite I3; exact G3).
    destruct (ust u') eqn:EU; try (intros H; inversion H; subst; exact E3);
      (destruct (PrimFloat.ltb 0 n); intros H; inversion H; subst;
       [eapply Q_trans; [exact E3|eapply Q_upd; [apply G3'|rewrite EU; discriminate]]
       |eapply Q_trans; [exact E3|]; via_emit; eapply Q_upd; [apply G3'|rewrite EU; discriminate]]).
  Qed.

  Lemma Q_set_hp R (GR : q_runner R) s id a s' : set_hp cfg R s id a = Some s' -> Q s s'.
  Proof.
    unfold set_hp. destruct (get_unit (units s) id) as [u|] eqn:G; [|intros H; inversion H; subst; apply Q_refl].
    apply Q_hp_change; [exact GR|]. rewrite (get_unit_uid _ _ _ G). exact G.
  Qed.

  Lemma Q_damage_hp R (GR : q_runner R) s id src dm s' : damage_hp cfg R s id src dm = Some s' -> Q s s'.
  Proof.
    unfold damage_hp. destruct (get_unit (units s) id) as [u|] eqn:G; [|intros H; inversion H; subst; apply Q_refl].
    apply Q_hp_change; [exact GR|]. rewrite (get_unit_uid _ _ _ G). exact G.
  Qed.

  Lemma Q_heal_hp R (GR : q_runner R) s id src a s' : heal_hp cfg R s id src a = Some s' -> Q s s'.
  Proof.
    unfold heal_hp. destruct (get_unit (units s) id) as [u|] eqn:G; [|intros H; inversion H; subst; apply Q_refl].
    apply Q_hp_change; [exact GR|]. rewrite (get_unit_uid _ _ _ G). exact G.
  Qed.
  Lemma Q_do_heals R (GR : q_runner R) : forall ts s self a s', do_heals cfg R s self a ts = Some s' -> Q s s'.
  Proof.
    induction ts as [|t ts IH]; intros s self a s' H; cbn [do_heals] in H; [inversion H; subst; apply Q_refl|].
    destruct (heal_hp cfg R s t self a) as [s1|] eqn:E1; [|discriminate].
    eapply Q_trans; [eapply Q_heal_hp; eassumption|eapply IH; exact H].
  Qed.

  Lemma Q_do_hits R (GR : q_runner R) : forall ts s self dmg s',
    do_hits cfg R s self dmg ts = Some s' -> Q s s'.
  Proof.
    induction ts as [|d ts IH]; intros s self dmg s' H; cbn [do_hits] in H.
    - inversion H; subst. apply Q_refl.
    - set (s2 := emit s [VHitStart self d]) in *.
      destruct (damage_hp cfg R s2 d self dmg) as [s3|] eqn:ED; [|discriminate].
      set (s4 := record_hit s3 d dmg) in *.
      destruct (pop_slot s4 LHitEnd) as [sc s5] eqn:EP.
      assert (E5 : Q s s5).
      { eapply Q_trans; [apply (Q_emit s [VHitStart self d]); reflexivity|].
        eapply Q_trans; [eapply Q_damage_hp; eassumption|]. eapply Q_trans; [apply Q_record_hit|].
        replace s5 with (snd (pop_slot s4 LHitEnd)) by (rewrite EP; reflexivity). apply Q_pop_slot. }
      match type of H with match ?r with _ => _ end = _ => destruct r as [s6|] eqn:ER; [|discriminate] end.
      assert (E6 : Q s s6).
      { destruct sc as [i|].
        - eapply Q_trans; [exact E5|]. eapply GR. exact ER.
        - inversion ER; subst. exact E5. }
      eapply Q_trans; [exact E6|]. eapply Q_trans; [|eapply IH; exact H]. apply Q_emit. reflexivity.
  Qed.

  Lemma Q_exec_op R (GR : q_runner R) lm s self p o s' : exec_op cfg R lm s self p o = Some s' -> Q s s'.
  Proof.
    intros H. destruct o; cbn [exec_op] in H.
    - match type of H with (if ?c then _ else _) = _ => destruct c end; [inversion H; subst; apply Q_refl|].
      destruct (in_attack s); [eapply Q_do_hits; eassumption|].
      destruct qualified; [|eapply Q_do_hits; eassumption].
      destruct lm; [discriminate|].
      destruct (pop_slot (set_attack s (Some (key, self))) LAttackStart) as [sc s1] eqn:EP.
      match type of H with match ?r with _ => _ end = _ => destruct r as [s2|] eqn:ER; [|discriminate] end.
      assert (E1 : Q s s1).
      { eapply Q_trans; [apply (Q_same s (set_attack s (Some (key, self)))); reflexivity|].
        replace s1 with (snd (pop_slot (set_attack s (Some (key, self))) LAttackStart)) by (rewrite EP; reflexivity). apply Q_pop_slot. }
      assert (E2 : Q s s2).
      { destruct sc as [i|]; [eapply Q_trans; [exact E1|eapply GR; exact ER]|inversion ER; subst; exact E1]. }
      eapply Q_trans; [exact E2|]. eapply Q_trans; [|eapply Q_do_hits; eassumption]. apply Q_emit. reflexivity.
    - destruct lm; [discriminate|]. inversion H; subst. apply Q_end_attack.
    - destruct (get_unit (units s) _); [eapply Q_set_hp; eassumption|inversion H; subst; apply Q_refl].
    - destruct (budget s <=? 0); inversion H; subst; [apply Q_refl|].
      match goal with |- Q _ (enqueue ?m _ _ _ _) => apply Q_trans with m; [apply Q_same; reflexivity|apply Q_enqueue] end.
    - destruct (budget s <=? 0); inversion H; subst; [apply Q_refl|].
      match goal with |- Q _ (enqueue ?m _ _ _ _) => apply Q_trans with m; [apply Q_same; reflexivity|apply Q_enqueue] end.
    - inversion H; subst. apply Q_mod_energy.
    - inversion H; subst. apply Q_mod_sp.
    - destruct (get_unit (units s) _) as [u|] eqn:G; [|inversion H; subst; apply Q_refl].
      destruct (existsb _ _); inversion H; subst; [apply Q_refl|].
      eapply Q_upd_same; [exact G|reflexivity|reflexivity].
    - destruct (get_unit (units s) _) as [u|] eqn:G; inversion H; subst; [|apply Q_refl].
      eapply Q_upd_same; [exact G|reflexivity|reflexivity].
    - destruct (Turn.step F (turn s) _) as [t' outs] eqn:ET. inversion H; subst.
      eapply Q_trans; [apply (Q_gauge s (resolve self p t) amt)|]. rewrite ET. cbn [fst].
      apply Q_emit. apply gauge_events_script.
    - destruct (get_unit (units s) _) as [u|] eqn:G; inversion H; subst; [|apply Q_refl].
      eapply Q_upd_same; [exact G|reflexivity|reflexivity].
    - inversion H; subst. apply Q_sample.
    - match type of H with (if ?c then _ else _) = _ => destruct c end; [inversion H; subst; apply Q_refl|].
      eapply Q_do_heals; eassumption.
  Qed.

  Lemma Q_exec_list R (GR : q_runner R) lm : forall ops s self p s',
    exec_list cfg R lm s self p ops = Some s' -> Q s s'.
  Proof.
    induction ops as [|o ops IH]; intros s self p s' H; cbn [exec_list] in H.
    - inversion H; subst. apply Q_refl.
    - destruct (exec_op cfg R lm s self p o) as [s1|] eqn:E1; [|discriminate].
      eapply Q_trans; [eapply Q_exec_op; eassumption|]. eapply IH. exact H.
  Qed.

  Theorem Q_exec_ops : forall fuel lm, q_runner (exec_ops cfg fuel lm).
  Proof.
    induction fuel as [|f IH]; intros lm s self p sc s' H; [discriminate|].
    cbn [exec_ops] in H. eapply Q_exec_list; [apply IH|exact H].
  Qed.

  Lemma Q_run_slot fuel s x self p s' : run_slot cfg fuel s x self p = Some s' -> Q s s'.
  Proof.
    unfold run_slot. destruct (pop_slot s x) as [sc s1] eqn:EP. intros H.
    assert (E1 : Q s s1).
    { replace s1 with (snd (pop_slot s x)) by (rewrite EP; reflexivity). apply Q_pop_slot. }
    destruct sc as [i|].
    - eapply Q_trans; [exact E1|]. eapply Q_exec_ops. exact H.
    - inversion H; subst. exact E1.
  Qed.

  (* content, the engine's closing of an open attack, the end event's listeners *)
  Lemma Q_run_body fuel s self p sc endev sl s' :
    run_body cfg fuel s self p sc endev sl = Some s' -> exists s1, Q s s1 /\ s' = emit s1 [endev].
  Proof.
    unfold run_body. destruct (exec_ops cfg fuel false s self p sc) as [s1|] eqn:E1; [|discriminate].
    assert (A : Q s (end_attack s1)) by (eapply Q_trans; [eapply Q_exec_ops; exact E1|apply Q_end_attack]).
    destruct sl as [x|].
    - destruct (run_slot cfg fuel (end_attack s1) x self self) as [s3|] eqn:E3; [|discriminate].
      intros H; inversion H; subst. exists s3. split; [|reflexivity].
      eapply Q_trans; [exact A|eapply Q_run_slot; exact E3].
    - intros H; inversion H; subst. exists (end_attack s1). split; [exact A|reflexivity].
  Qed.

  Lemma Q_pop_act s id : Q s (snd (pop_act cfg s id)).
  Proof.
    unfold pop_act. destruct (get_unit (units s) id) as [u|] eqn:G; [|apply Q_refl].
    destruct (uacts u); [apply Q_refl|]. cbn [snd]. eapply Q_upd_same; [exact G|reflexivity|reflexivity].
  Qed.
End Frame.
