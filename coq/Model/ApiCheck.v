(* Checker for the harness component `engineapi` (C20, harness/cmd/corr/apiprobe.go): after a
   real run, error-returning engine calls (SetHP, ModifyHPByRatio, ModifyStance, ModifyEnergy,
   ModifyEnergyFixed, SetGauge, ModifyGaugeNormalized, ModifyGaugeAV) are issued with target ids
   inside and outside the battle.

   Model (pkg/engine/attribute/modify.go, pkg/engine/turn/modify.go): every such call first
   looks its target up; a target id that was never created by this run (ids are 1..units) makes
   it return an error; for a created target it returns (nil, or an error when the unit has
   already left the turn order) -- it never fails. *)
From Coq Require Import List ZArith Bool String.
From SR Require Import Base.CaseLib Base.GlobalTypes Model.RunSpec.
Import ListNotations.
Open Scope Z_scope.

Inductive probe := Probe (kind target amount : Z).
Inductive api_out := ApiOut (run : obs) (units : Z) (statuses : list Z).

Definition api_case := (runspec * list probe * api_out)%type.

Inductive answer := MustError | MustReturn      (* MustReturn: nil or error, not a failure *)
                  | MustAnswer.                  (* a query without an error result (AdjacentTo, IsValid, IsAlive,
                                                    IsCharacter, IsEnemy: kinds 8, 9): it answers for every id *)

Definition created (units target : Z) : bool := (1 <=? target) && (target <=? units).

Definition engine_call (units : Z) (p : probe) : answer :=
  let '(Probe kind target _) := p in
  if 8 <=? kind then MustAnswer else if created units target then MustReturn else MustError.

Definition answer_ok (a : answer) (status : Z) : bool :=
  match a with
  | MustError => status =? 1
  | MustReturn => (status =? 0) || (status =? 1)
  | MustAnswer => status =? 0
  end.

Fixpoint answers_ok (units : Z) (ps : list probe) (sts : list Z) : bool :=
  match ps, sts with
  | [], [] => true
  | p :: ps', s :: sts' => answer_ok (engine_call units p) s && answers_ok units ps' sts'
  | _, _ => false
  end.

Definition api_model_out (c : api_case) : list answer :=
  let '(_, ps, ApiOut _ units _) := c in map (engine_call units) ps.

Definition api_check_case (c : api_case) : bool :=
  let '(RS chars enemies _ _ _, ps, ApiOut run units sts) := c in
  (* the run itself completed and created one target per configured character and enemy *)
  (ob_status run =? 0) && (units =? Z.of_nat (List.length chars + List.length enemies)) &&
  answers_ok units ps sts.

(* the property's own clause: no call failed *)
Definition api_monitor_case (c : api_case) : bool :=
  let '(_, _, ApiOut run _ sts) := c in
  negb (ob_status run =? 2) && negb (ob_status run =? 3) && forallb (fun s => negb (s =? 2)) sts.
