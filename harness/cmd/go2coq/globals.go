package main

// Generator "Globals" (properties C15, C20): the table of package-level state of the repository.
// Entry point: genGlobals(repo) returns the text of coq/Gen/Globals.v; main.go dispatches
// `go2coq Globals -repo <path>` to it.  (Self-contained: go/parser + go/types only; it shares
// nothing with the Sites generator but the constant modulePath.)
//
// Walks every non-test Go file (default build tags: files guarded by `//go:build verif` are
// hooks of the verification harness and are not part of the program) under pkg/, internal/
// and cmd/, type-checks the packages from source with go/types, and emits coq/Gen/Globals.v:
//
//   global_vars      every package-level `var`: package, name, file, type class
//   global_writes    every WRITE to a package-level variable: assignment, op-assignment,
//                    inc/dec, map/slice index assignment, field assignment, assignment through
//                    a pointer global, delete/copy/clear, a method call on the variable other
//                    than the read-only ones listed in readOnlyMethods, taking its address,
//                    and handing out a reference-typed global as a value ("alias": return,
//                    assignment, call argument, composite literal field) -- with the enclosing
//                    function, whether that function is init-time code, and whether it is
//                    reachable from the run entry points
//   register_calls   every call of a catalog Register* function: callee, enclosing function,
//                    init-time or not, reachable or not, constant key if any
//   registered_*     the constant keys registered at init time per catalog
//
// Init-time code = the body of a func init() and package-level variable initialisers, NOT
// function literals written inside them (a listener closure created in init() runs later).
//
// Call graph (over-approximate, documented rule):
//   nodes   every declared function / method and every function literal
//   edges   f -> g when f's body (outside nested literals) contains
//             * a call or any other mention of the declared function / concrete method g
//               (mentioning a function value counts as possibly calling it),
//             * a function literal g,
//             * a call of an interface method m: every method named m of a module type that
//               implements the interface (every method named m when the interface type could
//               not be resolved),
//             * a call through a function-typed value (variable, field, parameter, result):
//               every function, method value or literal whose value is mentioned anywhere in
//               the module ("address taken") with an identical signature (same arity when a
//               type parameter or an unresolved third-party type is involved).
//   roots   simulation.Run, simulation.NewSimulation, (*Simulation).Run and every function
//           declared in cmd/srsim/execute.go, pkg/servermode/pool.go, pkg/servermode/sample.go
//
// Not covered (stated in the property's trusted base): writes through an alias after it has
// been handed out (the hand-out itself is a row), unsafe, reflection, cgo, assembly.

import (
	"fmt"
	"go/ast"
	"go/build"
	"go/constant"
	"go/importer"
	"go/parser"
	"go/token"
	"go/types"
	"os"
	"path/filepath"
	"sort"
	"strings"
)

type gPkg struct {
	path  string // import path
	rel   string // path relative to the repo root
	dir   string
	files []*ast.File
	names []string
	tpkg  *types.Package
	info  *types.Info
}

type gLoader struct {
	repo   string
	fset   *token.FileSet
	pkgs   map[string]*gPkg
	std    types.Importer
	stdSrc types.Importer
	fake   map[string]*types.Package
	stack  map[string]bool
}

func (l *gLoader) Import(path string) (*types.Package, error) {
	if path == "unsafe" {
		return types.Unsafe, nil
	}
	if path == modulePath || strings.HasPrefix(path, modulePath+"/") {
		p := l.load(path)
		if p == nil {
			return l.fakePkg(path), nil
		}
		return p.tpkg, nil
	}
	first := path
	if i := strings.Index(path, "/"); i >= 0 {
		first = path[:i]
	}
	if !strings.Contains(first, ".") { // standard library
		if p, err := l.std.Import(path); err == nil {
			return p, nil
		}
		if p, err := l.stdSrc.Import(path); err == nil {
			return p, nil
		}
	}
	return l.fakePkg(path), nil // third-party: opaque
}

func (l *gLoader) fakePkg(path string) *types.Package {
	if p, ok := l.fake[path]; ok {
		return p
	}
	name := path[strings.LastIndex(path, "/")+1:]
	if strings.HasPrefix(name, "v") && len(name) <= 3 { // .../v2
		rest := path[:strings.LastIndex(path, "/")]
		name = rest[strings.LastIndex(rest, "/")+1:]
	}
	name = strings.TrimPrefix(name, "go-")
	p := types.NewPackage(path, name)
	p.MarkComplete()
	l.fake[path] = p
	return p
}

func (l *gLoader) load(path string) *gPkg {
	if p, ok := l.pkgs[path]; ok {
		return p
	}
	if l.stack[path] {
		panic("import cycle through " + path)
	}
	rel := strings.TrimPrefix(strings.TrimPrefix(path, modulePath), "/")
	dir := filepath.Join(l.repo, rel)
	ents, err := os.ReadDir(dir)
	if err != nil {
		l.pkgs[path] = nil
		return nil
	}
	ctx := build.Default
	ctx.BuildTags = nil
	p := &gPkg{path: path, rel: rel, dir: dir}
	for _, e := range ents {
		n := e.Name()
		if e.IsDir() || !strings.HasSuffix(n, ".go") || strings.HasSuffix(n, "_test.go") {
			continue
		}
		if ok, err := ctx.MatchFile(dir, n); err != nil || !ok {
			continue
		}
		f, err := parser.ParseFile(l.fset, filepath.Join(dir, n), nil, parser.SkipObjectResolution)
		if err != nil {
			panic(fmt.Sprintf("cannot parse %s/%s: %v", rel, n, err))
		}
		p.files = append(p.files, f)
		p.names = append(p.names, n)
	}
	if len(p.files) == 0 {
		l.pkgs[path] = nil
		return nil
	}
	l.stack[path] = true
	p.info = &types.Info{
		Types:      map[ast.Expr]types.TypeAndValue{},
		Defs:       map[*ast.Ident]types.Object{},
		Uses:       map[*ast.Ident]types.Object{},
		Selections: map[*ast.SelectorExpr]*types.Selection{},
		Instances:  map[*ast.Ident]types.Instance{},
	}
	conf := types.Config{Importer: l, Error: func(error) {}, FakeImportC: true}
	p.tpkg, _ = conf.Check(path, l.fset, p.files, p.info)
	delete(l.stack, path)
	l.pkgs[path] = p
	return p
}

// ---------------------------------------------------------------------------------------

type gNode struct {
	id       string // printable name
	pkg      *gPkg
	file     string
	body     ast.Node // *ast.BlockStmt or initialiser expression
	isInit   bool     // init-time code
	fn       *types.Func
	sig      *types.Signature
	edges    map[*gNode]bool
	ifaceCs  []ifaceCall
	dynCalls []*types.Signature
	reach    bool
}

type ifaceCall struct {
	name  string
	iface *types.Interface
}

type gWrite struct {
	pkg, name, kind, fn, file string
	init, reach               bool
	node                      *gNode
}

type gReg struct {
	callee, pkg, fn, file, key string
	init, reach                bool
	node                       *gNode
}

type gAnalysis struct {
	inCall   map[*ast.Ident]bool // identifiers (function names) that occur in call position
	l        *gLoader
	nodes    []*gNode
	byFunc   map[*types.Func]*gNode
	taken    []*gNode // address-taken functions / literals with their value signature
	takenSig []*types.Signature
	writes   []*gWrite
	regs     []*gReg
	methods  map[string][]*gNode // module methods by name
}

var readOnlyMethods = map[string]bool{
	"Lock": true, "Unlock": true, "RLock": true, "RUnlock": true, "Load": true, "Get": true, "String": true,
	"Len": true, "Has": true, "Error": true, "Range": true, "Contains": true, "Copy": true, "Keys": true,
	"Values": true, "Descriptor": true, "Enum": true, "Number": true, "Type": true, "EnumDescriptor": true,
	"ProtoReflect": true, "Wait": true,
}

func relFile(p *gPkg, l *gLoader, pos token.Pos) string {
	return p.rel + "/" + filepath.Base(l.fset.Position(pos).Filename)
}

func isPkgLevel(v *types.Var) bool {
	return v != nil && !v.IsField() && v.Pkg() != nil && v.Parent() == v.Pkg().Scope()
}

func typeClass(t types.Type) string {
	if n, ok := t.(*types.Named); ok && n.Obj().Pkg() != nil {
		if pp := n.Obj().Pkg().Path(); pp == "sync" || pp == "sync/atomic" {
			return "CSync"
		}
	}
	switch u := t.Underlying().(type) {
	case *types.Map:
		return "CMap"
	case *types.Slice:
		return "CSlice"
	case *types.Array:
		return "CArray"
	case *types.Pointer:
		return "CPointer"
	case *types.Chan:
		return "CChan"
	case *types.Signature:
		return "CFunc"
	case *types.Interface:
		return "CInterface"
	case *types.Struct:
		return "CStruct"
	case *types.Basic:
		if u.Kind() == types.Invalid {
			return "CUnknown"
		}
		return "CScalar"
	}
	return "CUnknown"
}

func isRefClass(c string) bool {
	return c == "CMap" || c == "CSlice" || c == "CPointer" || c == "CChan"
}

// rootVar strips index / field / deref / slice / paren wrappers and returns the package-level
// variable at the root of an lvalue-like expression, with a description of the path
func (a *gAnalysis) rootVar(p *gPkg, e ast.Expr) (*types.Var, string) {
	path := ""
	for {
		switch x := e.(type) {
		case *ast.ParenExpr:
			e = x.X
		case *ast.IndexExpr:
			path = "index"
			e = x.X
		case *ast.SliceExpr:
			path = "index"
			e = x.X
		case *ast.StarExpr:
			path = "deref"
			e = x.X
		case *ast.SelectorExpr:
			// pkg.Var ?
			if id, ok := x.X.(*ast.Ident); ok {
				if _, isPkg := p.info.Uses[id].(*types.PkgName); isPkg {
					if v, ok := p.info.Uses[x.Sel].(*types.Var); ok && isPkgLevel(v) {
						return v, path
					}
					return nil, ""
				}
			}
			if path == "" {
				path = "field"
			}
			e = x.X
		case *ast.Ident:
			if v, ok := p.info.Uses[x].(*types.Var); ok && isPkgLevel(v) {
				return v, path
			}
			return nil, ""
		default:
			return nil, ""
		}
	}
}

func (a *gAnalysis) inModule(pk *types.Package) bool {
	return pk != nil && (pk.Path() == modulePath || strings.HasPrefix(pk.Path(), modulePath+"/"))
}

func relPkg(pk *types.Package) string {
	return strings.TrimPrefix(strings.TrimPrefix(pk.Path(), modulePath), "/")
}

func (a *gAnalysis) addWrite(n *gNode, v *types.Var, kind string, pos token.Pos) {
	if !a.inModule(v.Pkg()) {
		// writes to globals of other modules / the standard library are listed too (direct
		// assignments only: their methods and aliases are outside this table)
		if strings.HasPrefix(kind, "method-") || kind == "alias" || kind == "addr" {
			return
		}
		a.writes = append(a.writes, &gWrite{pkg: v.Pkg().Path(), name: v.Name(), kind: kind, fn: n.id,
			file: relFile(n.pkg, a.l, pos), init: n.isInit, node: n})
		return
	}
	a.writes = append(a.writes, &gWrite{pkg: relPkg(v.Pkg()), name: v.Name(), kind: kind, fn: n.id,
		file: relFile(n.pkg, a.l, pos), init: n.isInit, node: n})
}

func hasTypeParamOrInvalid(t types.Type, depth int) bool {
	if depth > 6 {
		return false
	}
	switch x := t.(type) {
	case *types.TypeParam:
		return true
	case *types.Basic:
		return x.Kind() == types.Invalid
	case *types.Pointer:
		return hasTypeParamOrInvalid(x.Elem(), depth+1)
	case *types.Slice:
		return hasTypeParamOrInvalid(x.Elem(), depth+1)
	case *types.Array:
		return hasTypeParamOrInvalid(x.Elem(), depth+1)
	case *types.Map:
		return hasTypeParamOrInvalid(x.Key(), depth+1) || hasTypeParamOrInvalid(x.Elem(), depth+1)
	case *types.Named:
		ta := x.TypeArgs()
		for i := 0; i < ta.Len(); i++ {
			if hasTypeParamOrInvalid(ta.At(i), depth+1) {
				return true
			}
		}
		return false
	case *types.Signature:
		return sigLoose(x)
	case *types.Tuple:
		for i := 0; i < x.Len(); i++ {
			if hasTypeParamOrInvalid(x.At(i).Type(), depth+1) {
				return true
			}
		}
	}
	return false
}

func sigLoose(s *types.Signature) bool {
	return hasTypeParamOrInvalid(s.Params(), 1) || hasTypeParamOrInvalid(s.Results(), 1)
}

func sigMatch(a, b *types.Signature) bool {
	if a.Params().Len() != b.Params().Len() || a.Results().Len() != b.Results().Len() {
		return false
	}
	if sigLoose(a) || sigLoose(b) {
		return true
	}
	// compare without receivers
	na := types.NewSignatureType(nil, nil, nil, a.Params(), a.Results(), a.Variadic())
	nb := types.NewSignatureType(nil, nil, nil, b.Params(), b.Results(), b.Variadic())
	return types.Identical(na, nb)
}

var builtinNoAlias = map[string]bool{"len": true, "cap": true, "delete": true, "append": true, "copy": true,
	"clear": true, "print": true, "println": true, "panic": true, "new": true, "make": true, "min": true, "max": true}

// scan walks the body of node n (not descending into nested function literals, which are
// their own nodes) and records writes, register calls and call-graph edges
func (a *gAnalysis) scan(n *gNode) {
	p := n.pkg
	litCount := 0
	var walk func(x ast.Node, callFun map[ast.Expr]bool)
	callFun := map[ast.Expr]bool{} // expressions in call position
	aliasOK := map[ast.Expr]bool{} // occurrences of a global that are plain reads

	noteValueUse := func(e ast.Expr, pos token.Pos) {
		// a reference-typed global handed out as a value
		e2 := e
		for {
			if pe, ok := e2.(*ast.ParenExpr); ok {
				e2 = pe.X
				continue
			}
			break
		}
		var v *types.Var
		switch x := e2.(type) {
		case *ast.Ident:
			if vv, ok := p.info.Uses[x].(*types.Var); ok && isPkgLevel(vv) {
				v = vv
			}
		case *ast.SelectorExpr:
			if id, ok := x.X.(*ast.Ident); ok {
				if _, isPkg := p.info.Uses[id].(*types.PkgName); isPkg {
					if vv, ok := p.info.Uses[x.Sel].(*types.Var); ok && isPkgLevel(vv) {
						v = vv
					}
				}
			}
		}
		if v != nil && isRefClass(typeClass(v.Type())) && a.inModule(v.Pkg()) {
			a.addWrite(n, v, "alias", pos)
		}
	}

	walk = func(x ast.Node, _ map[ast.Expr]bool) {
		ast.Inspect(x, func(m ast.Node) bool {
			switch s := m.(type) {
			case *ast.FuncLit:
				// own node
				litCount++
				ln := &gNode{id: fmt.Sprintf("%s$%d", n.id, litCount), pkg: p, file: n.file, body: s.Body, edges: map[*gNode]bool{}}
				if tv, ok := p.info.Types[s]; ok {
					if sg, ok := tv.Type.(*types.Signature); ok {
						ln.sig = sg
						a.taken = append(a.taken, ln)
						a.takenSig = append(a.takenSig, sg)
					}
				}
				a.nodes = append(a.nodes, ln)
				n.edges[ln] = true
				a.scan(ln)
				return false
			case *ast.AssignStmt:
				if s.Tok != token.DEFINE {
					for _, lhs := range s.Lhs {
						if v, path := a.rootVar(p, lhs); v != nil {
							kind := "assign"
							if s.Tok != token.ASSIGN {
								kind = "opassign"
							}
							if path != "" {
								kind = path + "-" + kind
							}
							if path == "" && len(s.Rhs) == 1 {
								if ce, ok := s.Rhs[0].(*ast.CallExpr); ok {
									if id, ok := ce.Fun.(*ast.Ident); ok && id.Name == "append" {
										kind = "append-assign"
									}
								}
							}
							a.addWrite(n, v, kind, s.Pos())
						}
					}
				}
				for _, rhs := range s.Rhs {
					noteValueUse(rhs, rhs.Pos())
				}
			case *ast.IncDecStmt:
				if v, path := a.rootVar(p, s.X); v != nil {
					kind := "incdec"
					if path != "" {
						kind = path + "-incdec"
					}
					a.addWrite(n, v, kind, s.Pos())
				}
			case *ast.RangeStmt:
				if s.Tok == token.ASSIGN {
					for _, e := range []ast.Expr{s.Key, s.Value} {
						if e != nil {
							if v, _ := a.rootVar(p, e); v != nil {
								a.addWrite(n, v, "range-assign", s.Pos())
							}
						}
					}
				}
			case *ast.UnaryExpr:
				if s.Op == token.AND {
					if v, _ := a.rootVar(p, s.X); v != nil {
						a.addWrite(n, v, "addr", s.Pos())
					}
				}
			case *ast.ReturnStmt:
				for _, r := range s.Results {
					noteValueUse(r, r.Pos())
				}
			case *ast.KeyValueExpr:
				noteValueUse(s.Value, s.Value.Pos())
			case *ast.CompositeLit:
				for _, el := range s.Elts {
					if _, ok := el.(*ast.KeyValueExpr); !ok {
						noteValueUse(el, el.Pos())
					}
				}
			case *ast.SendStmt:
				noteValueUse(s.Value, s.Value.Pos())
			case *ast.CallExpr:
				a.scanCall(n, s, noteValueUse)
			case *ast.Ident:
				a.noteFuncMention(n, s, nil)
			case *ast.SelectorExpr:
				a.noteFuncMention(n, s.Sel, s)
			}
			return true
		})
	}
	_ = aliasOK
	walk(n.body, callFun)
}

// noteFuncMention: any mention of a declared function or concrete method is an edge; when it
// is not in call position the function is address-taken with the value's signature
func (a *gAnalysis) noteFuncMention(n *gNode, id *ast.Ident, sel *ast.SelectorExpr) {
	p := n.pkg
	f, ok := p.info.Uses[id].(*types.Func)
	if !ok || !a.inModule(f.Pkg()) {
		return
	}
	f = f.Origin()
	sig, _ := f.Type().(*types.Signature)
	if sig != nil && sig.Recv() != nil {
		if _, isIface := sig.Recv().Type().Underlying().(*types.Interface); isIface {
			return // interface method: handled at the call
		}
	}
	tn := a.nodeOf(f)
	if tn == nil {
		return
	}
	n.edges[tn] = true
	if a.inCall[id] {
		return // a plain call: the function's value does not escape here
	}
	// address taken? (value signature = type of the mentioning expression)
	var e ast.Expr = id
	if sel != nil {
		e = sel
	}
	if tv, ok := p.info.Types[e]; ok {
		if vs, ok := tv.Type.(*types.Signature); ok {
			a.taken = append(a.taken, tn)
			a.takenSig = append(a.takenSig, vs)
		}
	} else if sig != nil {
		a.taken = append(a.taken, tn)
		a.takenSig = append(a.takenSig, sig)
	}
}

func (a *gAnalysis) nodeOf(f *types.Func) *gNode {
	return a.byFunc[f]
}

func (a *gAnalysis) scanCall(n *gNode, c *ast.CallExpr, noteValueUse func(ast.Expr, token.Pos)) {
	p := n.pkg
	fun := c.Fun
	for {
		if pe, ok := fun.(*ast.ParenExpr); ok {
			fun = pe.X
			continue
		}
		break
	}
	// generic instantiation f[T](...)
	if ix, ok := fun.(*ast.IndexExpr); ok {
		if tv, ok := p.info.Types[ix.X]; ok {
			if _, isSig := tv.Type.(*types.Signature); isSig {
				fun = ix.X
			}
		}
	}
	switch f := fun.(type) {
	case *ast.Ident:
		a.inCall[f] = true
	case *ast.SelectorExpr:
		a.inCall[f.Sel] = true
	}
	builtin := ""
	if id, ok := fun.(*ast.Ident); ok {
		if _, isB := p.info.Uses[id].(*types.Builtin); isB {
			builtin = id.Name
		}
	}
	// arguments: reference-typed globals passed on are aliases (except to the builtins)
	if !builtinNoAlias[builtin] {
		for _, arg := range c.Args {
			noteValueUse(arg, arg.Pos())
		}
	}
	switch builtin {
	case "delete", "clear":
		if len(c.Args) > 0 {
			if v, _ := a.rootVar(p, c.Args[0]); v != nil {
				a.addWrite(n, v, builtin, c.Pos())
			}
		}
		return
	case "copy":
		if len(c.Args) > 0 {
			if v, _ := a.rootVar(p, c.Args[0]); v != nil {
				a.addWrite(n, v, "copy", c.Pos())
			}
		}
		return
	}
	if builtin != "" {
		return
	}
	// conversion?
	if tv, ok := p.info.Types[fun]; ok && tv.IsType() {
		return
	}
	// static callee?
	var callee *types.Func
	var selExpr *ast.SelectorExpr
	switch f := fun.(type) {
	case *ast.Ident:
		callee, _ = p.info.Uses[f].(*types.Func)
	case *ast.SelectorExpr:
		callee, _ = p.info.Uses[f.Sel].(*types.Func)
		selExpr = f
	}
	if callee != nil {
		callee = callee.Origin()
		sig, _ := callee.Type().(*types.Signature)
		// method call on a package-level variable
		if selExpr != nil && sig != nil && sig.Recv() != nil {
			if v, _ := a.rootVar(p, selExpr.X); v != nil && !readOnlyMethods[callee.Name()] {
				a.addWrite(n, v, "method-"+callee.Name(), c.Pos())
			}
		}
		if sig != nil && sig.Recv() != nil {
			if it, isIface := sig.Recv().Type().Underlying().(*types.Interface); isIface {
				n.ifaceCs = append(n.ifaceCs, ifaceCall{callee.Name(), it})
				return
			}
		}
		// catalog registration?
		if a.inModule(callee.Pkg()) && strings.HasPrefix(callee.Name(), "Register") && (sig == nil || sig.Recv() == nil) {
			key := ""
			if len(c.Args) > 0 {
				if tv, ok := p.info.Types[c.Args[0]]; ok && tv.Value != nil && tv.Value.Kind() == constant.String {
					key = constant.StringVal(tv.Value)
				}
			}
			a.regs = append(a.regs, &gReg{callee: relPkg(callee.Pkg()) + "." + callee.Name(), pkg: p.rel, fn: n.id,
				file: relFile(p, a.l, c.Pos()), key: key, init: n.isInit, node: n})
		}
		return // the edge itself is added by noteFuncMention
	}
	// unresolved selector on an unknown (third-party / invalid) type: interface-like by name
	if selExpr != nil {
		if _, ok := p.info.Selections[selExpr]; !ok {
			if tv, ok := p.info.Types[selExpr.X]; !ok || tv.Type == nil || hasTypeParamOrInvalid(tv.Type, 0) {
				n.ifaceCs = append(n.ifaceCs, ifaceCall{selExpr.Sel.Name, nil})
				return
			}
		}
	}
	// dynamic call through a function value
	if tv, ok := p.info.Types[fun]; ok {
		if sg, ok := tv.Type.Underlying().(*types.Signature); ok {
			n.dynCalls = append(n.dynCalls, sg)
			return
		}
	}
	// type unknown: any address-taken function with the same number of arguments
	n.dynCalls = append(n.dynCalls, nil)
}

func genGlobals(repo string) string {
	repo, _ = filepath.Abs(repo)
	l := &gLoader{repo: repo, fset: token.NewFileSet(), pkgs: map[string]*gPkg{}, fake: map[string]*types.Package{},
		stack: map[string]bool{}}
	l.std = importer.Default()
	l.stdSrc = importer.ForCompiler(l.fset, "source", nil)
	// all package directories
	var dirs []string
	for _, top := range []string{"pkg", "internal", "cmd"} {
		_ = filepath.WalkDir(filepath.Join(repo, top), func(path string, d os.DirEntry, err error) error {
			if err != nil {
				return nil
			}
			if d.IsDir() {
				if n := d.Name(); n == "testdata" || n == "node_modules" || strings.HasPrefix(n, ".") {
					return filepath.SkipDir
				}
				dirs = append(dirs, path)
			}
			return nil
		})
	}
	sort.Strings(dirs)
	var pkgs []*gPkg
	for _, d := range dirs {
		rel, _ := filepath.Rel(repo, d)
		if p := l.load(modulePath + "/" + filepath.ToSlash(rel)); p != nil {
			pkgs = append(pkgs, p)
		}
	}
	if len(pkgs) < 50 {
		panic(fmt.Sprintf("only %d packages found under %s", len(pkgs), repo))
	}
	a := &gAnalysis{l: l, byFunc: map[*types.Func]*gNode{}, methods: map[string][]*gNode{}, inCall: map[*ast.Ident]bool{}}

	// ---- variables and nodes ----
	type gv struct{ pkg, name, file, class string }
	var vars []gv
	type initExpr struct {
		p    *gPkg
		e    ast.Expr
		file string
		name string
	}
	var inits []initExpr
	for _, p := range pkgs {
		for fi, f := range p.files {
			file := p.rel + "/" + p.names[fi]
			for _, d := range f.Decls {
				switch dd := d.(type) {
				case *ast.GenDecl:
					if dd.Tok != token.VAR {
						continue
					}
					for _, sp := range dd.Specs {
						vs := sp.(*ast.ValueSpec)
						for _, id := range vs.Names {
							if id.Name == "_" {
								continue
							}
							if v, ok := p.info.Defs[id].(*types.Var); ok {
								vars = append(vars, gv{p.rel, id.Name, file, typeClass(v.Type())})
							}
						}
						for i, e := range vs.Values {
							nm := "_"
							if i < len(vs.Names) {
								nm = vs.Names[i].Name
							}
							inits = append(inits, initExpr{p, e, file, nm})
						}
					}
				case *ast.FuncDecl:
					if dd.Body == nil {
						continue
					}
					fn, _ := p.info.Defs[dd.Name].(*types.Func)
					id := p.rel + "." + dd.Name.Name
					if dd.Recv != nil && len(dd.Recv.List) > 0 {
						id = p.rel + ".(" + types.ExprString(dd.Recv.List[0].Type) + ")." + dd.Name.Name
					}
					n := &gNode{id: id, pkg: p, file: file, body: dd.Body, fn: fn, edges: map[*gNode]bool{},
						isInit: dd.Recv == nil && dd.Name.Name == "init"}
					if fn != nil {
						n.sig, _ = fn.Type().(*types.Signature)
						a.byFunc[fn] = n
						if dd.Recv != nil {
							a.methods[dd.Name.Name] = append(a.methods[dd.Name.Name], n)
						}
					}
					a.nodes = append(a.nodes, n)
				}
			}
		}
	}
	for _, ie := range inits {
		n := &gNode{id: ie.p.rel + ".var:" + ie.name, pkg: ie.p, file: ie.file, body: ie.e, isInit: true, edges: map[*gNode]bool{}}
		a.nodes = append(a.nodes, n)
	}
	// scan declared functions and initialisers (literals are scanned recursively)
	top := append([]*gNode{}, a.nodes...)
	for _, n := range top {
		a.scan(n)
	}

	// ---- resolve interface and dynamic calls ----
	for _, n := range a.nodes {
		for _, ic := range n.ifaceCs {
			for _, m := range a.methods[ic.name] {
				if ic.iface == nil || m.fn == nil {
					n.edges[m] = true
					continue
				}
				rs := m.fn.Type().(*types.Signature).Recv()
				if rs == nil {
					continue
				}
				rt := rs.Type()
				base := rt
				if pt, ok := rt.(*types.Pointer); ok {
					base = pt.Elem()
				}
				if types.Implements(base, ic.iface) || types.Implements(types.NewPointer(base), ic.iface) ||
					hasTypeParamOrInvalid(types.NewTuple(), 0) {
					n.edges[m] = true
				} else if ifaceLoose(ic.iface) {
					n.edges[m] = true
				}
			}
		}
		for _, ds := range n.dynCalls {
			for i, t := range a.taken {
				if ds == nil || sigMatch(ds, a.takenSig[i]) {
					n.edges[t] = true
				}
			}
		}
	}

	// ---- reachability ----
	rootFiles := map[string]bool{"cmd/srsim/execute.go": true, "pkg/servermode/pool.go": true, "pkg/servermode/sample.go": true}
	rootIDs := map[string]bool{"pkg/simulation.Run": true, "pkg/simulation.NewSimulation": true,
		"pkg/simulation.(*Simulation).Run": true}
	var queue []*gNode
	var rootsFound []string
	for _, n := range a.nodes {
		if n.fn == nil {
			continue
		}
		if rootIDs[n.id] || rootFiles[n.file] {
			n.reach = true
			queue = append(queue, n)
			rootsFound = append(rootsFound, n.id)
		}
	}
	for id := range rootIDs {
		found := false
		for _, r := range rootsFound {
			if r == id {
				found = true
			}
		}
		if !found {
			panic("run entry point not found: " + id)
		}
	}
	for len(queue) > 0 {
		n := queue[0]
		queue = queue[1:]
		for m := range n.edges {
			if !m.reach {
				m.reach = true
				queue = append(queue, m)
			}
		}
	}
	nReach := 0
	for _, n := range a.nodes {
		if n.reach {
			nReach++
		}
	}

	// ---- output ----
	q := func(s string) string { return "\"" + strings.ReplaceAll(s, "\"", "\"\"") + "\"" }
	b := func(x bool) string {
		if x {
			return "true"
		}
		return "false"
	}
	var sb strings.Builder
	sb.WriteString("(* Generated by harness/cmd/go2coq Globals from the Go source tree; do not edit.\n")
	sb.WriteString("   Package-level variables, writes to them, catalog registration call sites, with\n")
	sb.WriteString("   init-time / reachability classification (rule: see harness/cmd/go2coq/globals.go). *)\n")
	sb.WriteString("From Coq Require Import List String.\nFrom SR Require Import Base.GlobalTypes.\nImport ListNotations.\nOpen Scope string_scope.\n\n")
	fmt.Fprintf(&sb, "Definition gen_packages : nat := %d.\nDefinition gen_functions : nat := %d.\nDefinition gen_reachable_functions : nat := %d.\n\n",
		len(pkgs), len(a.nodes), nReach)
	sort.Strings(rootsFound)
	sb.WriteString("Definition run_roots : list string := [\n")
	for i, r := range rootsFound {
		sep := ";"
		if i == len(rootsFound)-1 {
			sep = ""
		}
		fmt.Fprintf(&sb, "  %s%s\n", q(r), sep)
	}
	sb.WriteString("].\n\n")

	sort.Slice(vars, func(i, j int) bool {
		if vars[i].pkg != vars[j].pkg {
			return vars[i].pkg < vars[j].pkg
		}
		return vars[i].name < vars[j].name
	})
	sb.WriteString("Definition global_vars : list gvar := [\n")
	for i, v := range vars {
		sep := ";"
		if i == len(vars)-1 {
			sep = ""
		}
		fmt.Fprintf(&sb, "  mkGVar %s %s %s %s%s\n", q(v.pkg), q(v.name), q(v.file), v.class, sep)
	}
	sb.WriteString("].\n\n")

	for _, w := range a.writes {
		w.reach = w.node.reach
	}
	// dedupe identical rows
	seen := map[string]bool{}
	var ws []*gWrite
	for _, w := range a.writes {
		k := strings.Join([]string{w.pkg, w.name, w.kind, w.fn, w.file, b(w.init), b(w.reach)}, "|")
		if !seen[k] {
			seen[k] = true
			ws = append(ws, w)
		}
	}
	sort.Slice(ws, func(i, j int) bool {
		x, y := ws[i], ws[j]
		kx := x.pkg + "|" + x.name + "|" + x.fn + "|" + x.kind
		ky := y.pkg + "|" + y.name + "|" + y.fn + "|" + y.kind
		return kx < ky
	})
	sb.WriteString("(* mkGWrite package variable kind function file init_time reachable *)\n")
	sb.WriteString("Definition global_writes : list gwrite := [\n")
	for i, w := range ws {
		sep := ";"
		if i == len(ws)-1 {
			sep = ""
		}
		fmt.Fprintf(&sb, "  mkGWrite %s %s %s %s %s %s %s%s\n", q(w.pkg), q(w.name), q(w.kind), q(w.fn), q(w.file), b(w.init), b(w.reach), sep)
	}
	sb.WriteString("].\n\n")

	for _, r := range a.regs {
		r.reach = r.node.reach
	}
	sort.Slice(a.regs, func(i, j int) bool {
		x, y := a.regs[i], a.regs[j]
		return x.callee+"|"+x.fn+"|"+x.key < y.callee+"|"+y.fn+"|"+y.key
	})
	sb.WriteString("(* mkReg callee package function file key init_time reachable *)\n")
	sb.WriteString("Definition register_calls : list regcall := [\n")
	for i, r := range a.regs {
		sep := ";"
		if i == len(a.regs)-1 {
			sep = ""
		}
		fmt.Fprintf(&sb, "  mkReg %s %s %s %s %s %s %s%s\n", q(r.callee), q(r.pkg), q(r.fn), q(r.file), q(r.key), b(r.init), b(r.reach), sep)
	}
	sb.WriteString("].\n")
	return sb.String()
}

func ifaceLoose(it *types.Interface) bool {
	for i := 0; i < it.NumMethods(); i++ {
		if s, ok := it.Method(i).Type().(*types.Signature); ok && sigLoose(s) {
			return true
		}
	}
	return false
}
