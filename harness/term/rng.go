package term

import "bytes"

func bytesReader(b []byte) *bytes.Reader { return bytes.NewReader(b) }

// Rng is a splitmix64 generator: every random choice of the harness derives from one state
// so that a seed replays exactly, independent of the Go release.
type Rng struct{ s uint64 }

func NewRng(seed uint64) *Rng {
	// run the seed through the splitmix64 finaliser: with a linear map, NewRng(seed+1) would be
	// NewRng(seed) advanced by one step and consecutive seeds would generate overlapping streams
	z := seed + 0x9E3779B97F4A7C15
	z = (z ^ (z >> 30)) * 0xBF58476D1CE4E5B9
	z = (z ^ (z >> 27)) * 0x94D049BB133111EB
	return &Rng{s: z ^ (z >> 31)}
}

func (r *Rng) U64() uint64 {
	r.s += 0x9E3779B97F4A7C15
	z := r.s
	z = (z ^ (z >> 30)) * 0xBF58476D1CE4E5B9
	z = (z ^ (z >> 27)) * 0x94D049BB133111EB
	return z ^ (z >> 31)
}

// Intn returns a value in [0,n).
func (r *Rng) Intn(n int) int {
	if n <= 0 {
		return 0
	}
	return int(r.U64() % uint64(n))
}

// Range returns a value in [lo,hi].
func (r *Rng) Range(lo, hi int) int { return lo + r.Intn(hi-lo+1) }

func (r *Rng) Bool() bool { return r.U64()&1 == 1 }

// Chance is true with probability num/den.
func (r *Rng) Chance(num, den int) bool { return r.Intn(den) < num }

func (r *Rng) Float01() float64 { return float64(r.U64()>>11) / (1 << 53) }

func Pick[X any](r *Rng, xs []X) X { return xs[r.Intn(len(xs))] }

// Fork derives an independent generator (per case), so cases can be regenerated alone.
func (r *Rng) Fork() *Rng { return NewRng(r.U64()) }
