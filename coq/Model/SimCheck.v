(* Correspondence checker for the whole-simulation model. *)
From Coq Require Import List ZArith Bool Floats.
From SR Require Import Base.CaseLib Base.NumOps Model.Turn Model.Sim.
Import ListNotations.
Open Scope Z_scope.

Definition zl (l : list Z) : list Z := Z.of_nat (length l) :: l.
Definition zb (b : bool) : Z := if b then 1 else 0.
Definition fb := bits64.
Definition zpairs (l : list (Z * Z)) : list Z :=
  Z.of_nat (length l) :: flat_map (fun p => [fst p; snd p]) l.

(* canonical encoding of an event (floats by bit pattern) *)
Definition ev_code (e : ev) : list Z :=
  match e with
  | VInitialize => [1]
  | VCharactersAdded ids => 2 :: zl ids
  | VEnemiesAdded ids => 3 :: zl ids
  | VTurnTargetsAdded o => 4 :: zl o
  | VBattleStart => [5]
  | VTurnStart a d t o => 6 :: a :: fb d :: fb t :: zpairs o
  | VPhase1Start => [7] | VPhase1End => [8] | VPhase2Start => [9] | VPhase2End => [10]
  | VTurnEnd c e => 11 :: zl c ++ zl e
  | VTurnReset i o => 12 :: i :: zpairs o
  | VActionStart o a i => [13; o; a; zb i]
  | VActionEnd o a i => [14; o; a; zb i]
  | VInsertStart k o p => [15; k; o; p]
  | VInsertEnd k o p => [16; k; o; p]
  | VAttackStart k a => [17; k; a]
  | VAttackEnd k a => [18; k; a]
  | VHitStart a d => [19; a; d]
  | VHitEnd a d t h => [20; a; d; fb t; fb h]
  | VHPChange t o n => [21; t; fb o; fb n]
  | VLimbo t c => [22; t; zb c]
  | VTargetDeath t k => [23; t; k]
  | VSPChange o n => [24; o; n]
  | VEnergyChange t o n => [25; t; fb o; fb n]
  | VGaugeChange t o n => [26; t; o; n]
  | VBreakExtend t => [27; t]
  | VTermination r t => [28; r; fb t]
  | VNextAction i t e => [29; i; t; e]
  | VDefaultAction i => [30; i]
  | VUltCheck rs => 31 :: Z.of_nat (length rs) :: flat_map (fun r => [fst (fst r); snd (fst r); snd r]) rs
  | VCall k i p => [32; k; i; p]
  | VSample c e o => 33 :: zl c ++ zl e ++ zl o
  | VDeathSeen t k => [34; t; k]
  | VHPSeen t d => [35; t; zb d]
  end.

Definition ev_eqb (a b : ev) : bool := list_eqb Z.eqb (ev_code a) (ev_code b).

Inductive rstatus := RFinished | RError | RCrashed.
Definition rstatus_eqb (a b : rstatus) : bool :=
  match a, b with RFinished, RFinished | RError, RError | RCrashed, RCrashed => true | _, _ => false end.

Definition observed := (rstatus * list ev * result * float)%type.
Definition case := (config * observed)%type.

Definition FUEL : nat := 4000.

Definition res_eqb (a b : result) : bool :=
  feqb_bits (r_dealt a) (r_dealt b) && feqb_bits (r_taken a) (r_taken b) &&
  list_eqb feqb_bits (r_dealt_cyc a) (r_dealt_cyc b) && list_eqb feqb_bits (r_taken_cyc a) (r_taken_cyc b).

Definition model_out (c : case) : option observed :=
  match start (fst c) FUEL with
  | Stop s => Some (RFinished, trace s, res s, total_av s)
  | Err s => Some (RError, trace s, mkRes 0 0 [] [], 0%float)
  | Ok s => None            (* the loop only ends by Stop or Err *)
  | OutOfFuel => None
  end.

Definition check_case (c : case) : bool :=
  match model_out c with
  | None => false
  | Some (st, tr, r, av) =>
      let '(st', tr', r', av') := snd c in
      rstatus_eqb st st' && list_eqb ev_eqb tr tr' &&
      match st with
      | RFinished => res_eqb r r' && feqb_bits av av'
      | _ => true
      end
  end.

(* first index where the traces differ (for replay files) *)
Fixpoint first_diff (i : Z) (a b : list ev) : option (Z * option ev * option ev) :=
  match a, b with
  | [], [] => None
  | x :: a', y :: b' => if ev_eqb x y then first_diff (i + 1) a' b' else Some (i, Some x, Some y)
  | x :: _, [] => Some (i, Some x, None)
  | [], y :: _ => Some (i, None, Some y)
  end.
Definition model_diff (c : case) :=
  match model_out c with
  | None => None
  | Some (st, tr, r, av) => Some (st, first_diff 0 tr (snd (fst (fst (snd c)))), r, av)
  end.

(* ---- monitors: the properties' own predicates on what the implementation did ---- *)
From SR Require Import Model.SimProtocol.

Definition nchars_of (c : config) : Z := Z.of_nat (length (filter d_char (c_units c))).

Definition monitor_case (c : case) : bool :=
  let '(st, tr, r, av) := snd c in
  match st with
  | RFinished =>
      protocol_ok tr && one_termination tr && death_ok tr && killer_ok_from [] [] tr && decision_ok (fst c) tr &&
      result_ok (nchars_of (fst c)) (Z.of_nat (length (c_units (fst c)))) tr r av
  | _ => true
  end.

Definition monitor_detail (c : case) :=
  let '(st, tr, r, av) := snd c in
  (protocol_ok tr, one_termination tr, death_ok tr, killer_ok_from [] [] tr, decision_ok (fst c) tr, result_ok (nchars_of (fst c)) (Z.of_nat (length (c_units (fst c)))) tr r av).

(* per-property monitors *)
Definition fin (c : case) : bool := match fst (fst (fst (snd c))) with RFinished => true | _ => false end.
Definition tr_of (c : case) : list ev := snd (fst (fst (snd c))).
Definition monitor_c03 (c : case) : bool := negb (fin c) || (protocol_ok (tr_of c) && one_termination (tr_of c)).
Definition monitor_c08 (c : case) : bool :=
  negb (fin c) || (death_ok (tr_of c) && killer_ok_from [] [] (tr_of c) && dead_state_ok (tr_of c)).
Definition monitor_c09 (c : case) : bool :=
  let '(st, tr, r, av) := snd c in
  negb (fin c) || (one_termination tr && reason_ok (fst c) tr &&
                   result_ok (nchars_of (fst c)) (Z.of_nat (length (c_units (fst c)))) tr r av).
Definition monitor_c11 (c : case) : bool := negb (fin c) || decision_ok (fst c) (tr_of c).
