package main

// Input generators for the gcs components (see gcs.go).
//
// gcstree: programs derived from the grammar together with the tree the grammar prescribes
// (expressions enumerated exhaustively over one operator per precedence level to depth 2,
// random programs to depth 7 over every statement form), rendered with random layouts, and
// ALL single-token deletions of small programs.
// gcstotal: the same plus byte flips, random bytes (a few up to 64 KiB), invalid UTF-8, every
// kind of Unicode digit/letter after a sign or dot, unterminated strings/comments, deep nesting.

import (
	"strconv"
	"strings"
	"unicode"
	"unicode/utf8"

	"verif/harness/term"
)

// ---- grammar objects: expected tree + canonical token texts ----

type gx struct {
	t       term.T   // expected Coq term (expr / stmt / node / block, by context)
	toks    []string // canonical token texts
	level   int      // 2..7 binary operator level, 8 unary, 9 call, 10 atom
	fnFirst bool     // the first token is `fn`
}

type opInfo struct {
	text, typ string
	prec      int
}

var binOps = []opInfo{
	{"||", "LogicOr", 2}, {"&&", "LogicAnd", 3},
	{"==", "OpEqual", 4}, {"!=", "OpNotEqual", 4}, {"<>", "OpNotEqual", 4},
	{"<", "OpLessThan", 5}, {">", "OpGreaterThan", 5}, {"<=", "OpLessThanOrEqual", 5}, {">=", "OpGreaterThanOrEqual", 5},
	{"+", "ItemPlus", 6}, {"-", "ItemMinus", 6},
	{"*", "ItemAsterisk", 7}, {"/", "ItemForwardSlash", 7},
}

// one operator per level (and both additive ones) for the exhaustive enumeration
var repOps = []opInfo{binOps[0], binOps[1], binOps[2], binOps[5], binOps[9], binOps[10], binOps[11]}

var unOps = []opInfo{{"-", "ItemMinus", 8}, {"!", "LogicNot", 8}}

var identPool = []string{"a", "b", "c", "x1", "foo_bar", "a_name_longer_than_ten_bytes", "exactly10b", "hp%", "a-b", "é", "变量", "_", "٣x", "lets", "iff"}
var numberPool = []string{"0", "1", "2", "42", "007", "-3", "1.5", ".5", "5.", "-0.25", "9223372036854775807",
	"9007199254740993", "9223372036854775808", "-9223372036854775808", "-9223372036854775809", "123456789012345678901234567890",
	"0.1", "1.0", "-0", "-0.0", "3.14159", "100000000000000000000000.5", "0.000001", "1.7976931348623157"}
var stringPool = []string{`"s"`, `""`, `"a b"`, `"hello, world and more"`, `"é"`, `"q\"q"`, `"\\"`, `"# no comment"`, `"// x"`, `"let"`, "\"\xff\""}

func tokT(typ, text string) term.T { return term.C("Tok", term.C(typ), gcsStr(text)) }

func paren(g gx, min int) []string {
	if g.level > min {
		return g.toks
	}
	out := []string{"("}
	out = append(out, g.toks...)
	return append(out, ")")
}
func parenFn(g gx, min int) bool { return g.level > min && g.fnFirst }

func cat(parts ...[]string) []string {
	var out []string
	for _, p := range parts {
		out = append(out, p...)
	}
	return out
}

func gIdent(name string) gx {
	return gx{t: term.C("EIdent", gcsStr(name)), toks: []string{name}, level: 10}
}

// gNumber: the tree strconv prescribes for the lexeme (ok=false if neither parser accepts)
func gNumber(lex string) (gx, bool) {
	if iv, err := strconv.ParseInt(lex, 10, 64); err == nil {
		return gx{t: term.C("ENum", term.I(iv), term.F(float64(iv)), term.B(false)), toks: []string{lex}, level: 10}, true
	}
	fv, err := strconv.ParseFloat(lex, 64)
	if err != nil {
		return gx{}, false
	}
	return gx{t: term.C("ENum", term.I(0), term.F(fv), term.B(true)), toks: []string{lex}, level: 10}, true
}
func gString(lex string) gx {
	return gx{t: term.C("EStr", gcsStr(lex)), toks: []string{lex}, level: 10}
}
func gBool(b bool) gx {
	if b {
		return gx{t: term.C("ENum", term.I(1), term.F(1), term.B(false)), toks: []string{"true"}, level: 10}
	}
	return gx{t: term.C("ENum", term.I(0), term.F(0), term.B(false)), toks: []string{"false"}, level: 10}
}
func gNull() gx { return gx{t: term.C("ENull"), toks: []string{"null"}, level: 10} }

func gUnary(op opInfo, r gx) gx {
	return gx{t: term.C("EUnary", tokT(op.typ, op.text), r.t), toks: cat([]string{op.text}, paren(r, 7)), level: 8}
}
func gBinary(op opInfo, l, r gx) gx {
	return gx{t: term.C("EBinary", l.t, r.t, tokT(op.typ, op.text)),
		toks:  cat(paren(l, op.prec-1), []string{op.text}, paren(r, op.prec)),
		level: op.prec, fnFirst: parenFn(l, op.prec-1)}
}
func gCall(f gx, args []gx) gx {
	toks := cat(paren(f, 8), []string{"("})
	ts := make([]term.T, 0, len(args))
	for i, a := range args {
		if i > 0 {
			toks = append(toks, ",")
		}
		toks = append(toks, a.toks...)
		ts = append(ts, a.t)
	}
	toks = append(toks, ")")
	return gx{t: term.C("ECall", f.t, term.L(ts...)), toks: toks, level: 9, fnFirst: parenFn(f, 8)}
}

// mapKeepOrder: write map fields in generation order instead of the canonical (sorted) one;
// only used for cases without an expected-token cross-check
var mapKeepOrder bool

type field struct {
	key string
	val gx
}

// gMap: array elements first, then the fields (distinct keys) in the given order; the expected
// tree lists the fields sorted
func gMap(arr []gx, fields []field) gx {
	toks := []string{"["}
	first := true
	ats := []term.T{}
	for _, a := range arr {
		if !first {
			toks = append(toks, ",")
		}
		first = false
		toks = append(toks, a.toks...)
		ats = append(ats, a.t)
	}
	sorted := append([]field(nil), fields...)
	for i := 1; i < len(sorted); i++ {
		for j := i; j > 0 && sorted[j].key < sorted[j-1].key; j-- {
			sorted[j], sorted[j-1] = sorted[j-1], sorted[j]
		}
	}
	fts := []term.T{}
	for _, f := range sorted {
		fts = append(fts, term.Tup(gcsStr(f.key), f.val.t))
	}
	emit := sorted // canonical: sorted by key, after the array elements
	if mapKeepOrder {
		emit = fields
	}
	for _, f := range emit {
		if !first {
			toks = append(toks, ",")
		}
		first = false
		toks = append(toks, f.key, "=")
		toks = append(toks, f.val.toks...)
	}
	toks = append(toks, "]")
	return gx{t: term.C("EMap", term.L(ats...), term.L(fts...)), toks: toks, level: 10}
}

func paramToks(params []string) []string {
	toks := []string{"("}
	for i, p := range params {
		if i > 0 {
			toks = append(toks, ",")
		}
		toks = append(toks, p)
	}
	return append(toks, ")")
}
func paramTerm(params []string) term.T {
	ps := make([]term.T, 0, len(params))
	for _, p := range params {
		ps = append(ps, gcsStr(p))
	}
	return term.L(ps...)
}

func gBlock(nodes []gx) gx {
	toks := []string{"{"}
	ts := make([]term.T, 0, len(nodes))
	for _, n := range nodes {
		toks = append(toks, n.toks...)
		ts = append(ts, n.t)
	}
	toks = append(toks, "}")
	return gx{t: term.C("Block", term.L(ts...)), toks: toks}
}

func gFuncLit(params []string, body gx) gx {
	return gx{t: term.C("EFuncLit", paramTerm(params), body.t), toks: cat([]string{"fn"}, paramToks(params), body.toks),
		level: 10, fnFirst: true}
}

// ---- statements (as nodes) ----

func nExpr(e gx) gx {
	toks := e.toks
	if e.fnFirst {
		toks = cat([]string{"("}, toks, []string{")"})
	}
	return gx{t: term.C("NExpr", e.t), toks: cat(toks, []string{";"})}
}
func nStmt(s gx, semi bool) gx {
	toks := s.toks
	if semi {
		toks = cat(toks, []string{";"})
	}
	return gx{t: term.C("NStmt", s.t), toks: toks}
}
func sLet(name string, e gx) gx {
	return gx{t: term.C("SLet", tokT("ItemIdentifier", name), e.t), toks: cat([]string{"let", name, "="}, e.toks)}
}
func sAssign(name string, e gx) gx {
	return gx{t: term.C("SAssign", tokT("ItemIdentifier", name), e.t), toks: cat([]string{name, "="}, e.toks)}
}
func sReturn(e gx) gx { return gx{t: term.C("SReturn", e.t), toks: cat([]string{"return"}, e.toks)} }
func sCtrl(kw string) gx {
	names := map[string]string{"break": "CtrlBreak", "continue": "CtrlContinue", "fallthrough": "CtrlFallthrough"}
	return gx{t: term.C("SCtrl", term.C(names[kw])), toks: []string{kw}}
}
func sNil() gx        { return gx{t: term.C("SNil")} }
func eNil() gx        { return gx{t: term.C("ENil")} }
func isNil(g gx) bool { n, _ := term.Ctor(g.t); return n == "SNil" || n == "ENil" || n == "BNil" }

// els: sNil(), an sIf, or a block wrapped by sBlock
func sIf(c, b, els gx) gx {
	toks := cat([]string{"if"}, c.toks, b.toks)
	if !isNil(els) {
		toks = cat(toks, []string{"else"}, els.toks)
	}
	return gx{t: term.C("SIf", c.t, b.t, els.t), toks: toks}
}
func sBlock(b gx) gx { return gx{t: term.C("SBlock", b.t), toks: b.toks} }
func sWhile(c, b gx) gx {
	return gx{t: term.C("SWhile", c.t, b.t), toks: cat([]string{"while"}, c.toks, b.toks)}
}
func sFor(init, cond, post, body gx) gx {
	toks := []string{"for"}
	if !isNil(init) {
		toks = cat(toks, init.toks, []string{";"})
	}
	if !isNil(cond) {
		toks = cat(toks, cond.toks)
	}
	if !isNil(post) {
		toks = cat(toks, []string{";"}, post.toks)
	}
	return gx{t: term.C("SFor", init.t, cond.t, post.t, body.t), toks: cat(toks, body.toks)}
}
func sFn(name string, params []string, body gx) gx {
	return gx{t: term.C("SFn", tokT("ItemIdentifier", name), paramTerm(params), body.t),
		toks: cat([]string{"fn", name}, paramToks(params), body.toks)}
}

type swCase struct {
	cond gx
	body []gx
}

// def == nil: no default
func sSwitch(c gx, cases []swCase, def []gx) gx {
	toks := []string{"switch"}
	if !isNil(c) {
		toks = cat(toks, c.toks)
	}
	toks = append(toks, "{")
	cts := []term.T{}
	for _, cs := range cases {
		toks = cat(toks, []string{"case"}, cs.cond.toks, []string{":"})
		bts := []term.T{}
		for _, n := range cs.body {
			toks = cat(toks, n.toks)
			bts = append(bts, n.t)
		}
		cts = append(cts, term.C("Case", cs.cond.t, term.C("Block", term.L(bts...))))
	}
	dt := term.C("BNil")
	if def != nil {
		toks = cat(toks, []string{"default", ":"})
		bts := []term.T{}
		for _, n := range def {
			toks = cat(toks, n.toks)
			bts = append(bts, n.t)
		}
		dt = term.C("Block", term.L(bts...))
	}
	toks = append(toks, "}")
	return gx{t: term.C("SSwitch", c.t, term.L(cts...), dt), toks: toks}
}

// ---- random programs ----

type gctx struct{ r *term.Rng }

func (g gctx) ident() string { return term.Pick(g.r, identPool) }

func (g gctx) atom() gx {
	switch g.r.Intn(10) {
	case 0, 1, 2, 3:
		return gIdent(g.ident())
	case 4, 5, 6:
		for {
			if n, ok := gNumber(term.Pick(g.r, numberPool)); ok {
				return n
			}
		}
	case 7:
		return gString(term.Pick(g.r, stringPool))
	case 8:
		return gBool(g.r.Bool())
	}
	return gNull()
}

func (g gctx) expr(depth int) gx {
	if depth <= 0 || g.r.Chance(1, 5) {
		return g.atom()
	}
	switch g.r.Intn(16) {
	case 0, 1, 2, 3, 4, 5, 6:
		return gBinary(term.Pick(g.r, binOps), g.expr(depth-1), g.expr(depth-1))
	case 7, 8:
		return gUnary(term.Pick(g.r, unOps), g.expr(depth-1))
	case 9, 10:
		n := g.r.Intn(4)
		args := make([]gx, 0, n)
		for i := 0; i < n; i++ {
			args = append(args, g.expr(depth-1))
		}
		return gCall(g.expr(depth-1), args)
	case 11, 12:
		na, nf := g.r.Intn(3), g.r.Intn(3)
		arr := []gx{}
		for i := 0; i < na; i++ {
			arr = append(arr, g.expr(depth-1))
		}
		fs := []field{}
		used := map[string]bool{}
		for i := 0; i < nf; i++ {
			k := g.ident()
			if used[k] {
				continue
			}
			used[k] = true
			fs = append(fs, field{k, g.expr(depth - 1)})
		}
		return gMap(arr, fs)
	case 13:
		return gFuncLit(g.params(), g.block(depth-1))
	}
	return g.atom()
}

func (g gctx) params() []string {
	n := g.r.Intn(4)
	out := []string{}
	used := map[string]bool{}
	for i := 0; i < n; i++ {
		k := g.ident()
		if used[k] {
			continue
		}
		used[k] = true
		out = append(out, k)
	}
	return out
}

func (g gctx) block(depth int) gx {
	n := g.r.Intn(3)
	if depth <= 0 {
		n = g.r.Intn(2)
	}
	nodes := []gx{}
	for i := 0; i < n; i++ {
		nodes = append(nodes, g.node(depth))
	}
	return gBlock(nodes)
}

func (g gctx) nodes(depth, max int) []gx {
	n := g.r.Intn(max + 1)
	out := []gx{}
	for i := 0; i < n; i++ {
		out = append(out, g.node(depth))
	}
	return out
}

func (g gctx) ifStmt(depth int) gx {
	els := sNil()
	switch g.r.Intn(4) {
	case 0:
		els = sBlock(g.block(depth - 1))
	case 1:
		if depth > 1 {
			els = g.ifStmt(depth - 1)
		}
	}
	return sIf(g.expr(depth-1), g.block(depth-1), els)
}

func (g gctx) node(depth int) gx {
	if depth <= 0 {
		switch g.r.Intn(4) {
		case 0:
			return nStmt(sCtrl(term.Pick(g.r, []string{"break", "continue", "fallthrough"})), true)
		case 1:
			return nStmt(sAssign(g.ident(), g.atom()), true)
		}
		return nExpr(g.atom())
	}
	switch g.r.Intn(14) {
	case 0, 1:
		return nExpr(g.expr(depth))
	case 2, 3:
		return nStmt(sLet(g.ident(), g.expr(depth-1)), true)
	case 4:
		return nStmt(sAssign(g.ident(), g.expr(depth-1)), true)
	case 5:
		return nStmt(sReturn(g.expr(depth-1)), true)
	case 6:
		return nStmt(sCtrl(term.Pick(g.r, []string{"break", "continue", "fallthrough"})), true)
	case 7, 8:
		return nStmt(g.ifStmt(depth), false)
	case 9:
		return nStmt(sWhile(g.expr(depth-1), g.block(depth-1)), false)
	case 10:
		init, cond, post := sNil(), eNil(), sNil()
		if g.r.Chance(4, 5) {
			cond = g.expr(depth - 1)
			if g.r.Bool() {
				if g.r.Bool() {
					init = sLet(g.ident(), g.expr(depth-1))
				} else {
					init = sAssign(g.ident(), g.expr(depth-1))
				}
			}
			if g.r.Bool() {
				post = sAssign(g.ident(), g.expr(depth-1))
			}
		}
		return nStmt(sFor(init, cond, post, g.block(depth-1)), false)
	case 11:
		c := eNil()
		if g.r.Chance(2, 3) {
			c = g.expr(depth - 1)
		}
		nc := g.r.Intn(3)
		cases := []swCase{}
		for i := 0; i < nc; i++ {
			cases = append(cases, swCase{g.expr(depth - 1), g.nodes(depth-1, 2)})
		}
		var def []gx
		if g.r.Bool() {
			def = g.nodes(depth-1, 2)
			if def == nil {
				def = []gx{}
			}
		}
		return nStmt(sSwitch(c, cases, def), false)
	case 12:
		return nStmt(sFn(g.ident(), g.params(), g.block(depth-1)), false)
	}
	return nStmt(sBlock(g.block(depth-1)), false)
}

func (g gctx) program(depth, maxStmts int) gx {
	n := 1 + g.r.Intn(maxStmts)
	nodes := []gx{}
	toks := []string{}
	ts := []term.T{}
	for i := 0; i < n; i++ {
		x := g.node(depth)
		nodes = append(nodes, x)
		toks = append(toks, x.toks...)
		ts = append(ts, x.t)
	}
	return gx{t: term.C("Block", term.L(ts...)), toks: toks}
}

// ---- exhaustive expression enumeration ----

var enumCache [][]gx

func enumExprs(depth int) []gx {
	for len(enumCache) <= depth {
		d := len(enumCache)
		if d == 0 {
			enumCache = append(enumCache, []gx{gIdent("a")})
			continue
		}
		prev := enumCache[d-1]
		cur := []gx{gIdent("a")}
		for _, e := range prev {
			cur = append(cur, gUnary(unOps[0], e))
		}
		for _, op := range repOps {
			for _, l := range prev {
				for _, r := range prev {
					cur = append(cur, gBinary(op, l, r))
				}
			}
		}
		for _, e := range prev {
			cur = append(cur, gCall(e, []gx{gIdent("b")}))
		}
		enumCache = append(enumCache, cur)
	}
	return enumCache[depth]
}

// ---- layout ----

var sepPool = []string{" ", " ", " ", "\n", "\t", "\r\n", "  ", " \n ", " # c\n", " // c ; } \n", "\n#\n", " #\"\n", "\n//\n\t"}
var leadPool = []string{"", "", " ", "\n", "#c\n", "//\n", " \t"}
var trailPool = []string{"", "", " ", "\n", " # end", " //", "\n\n"}

// render interleaves token texts with layout chunks; plain=true uses a single space everywhere
func render(r *term.Rng, toks []string, plain bool) []term.T {
	out := []term.T{}
	if !plain {
		if l := term.Pick(r, leadPool); l != "" {
			out = append(out, chunk(true, l))
		}
	}
	for i, t := range toks {
		if i > 0 {
			if plain {
				out = append(out, chunk(true, " "))
			} else {
				out = append(out, chunk(true, term.Pick(r, sepPool)))
			}
		}
		out = append(out, chunk(false, t))
	}
	if !plain {
		if l := term.Pick(r, trailPool); l != "" {
			out = append(out, chunk(true, l))
		}
	}
	return out
}

// ---- systematic layouts (C14 layout theorem: Proofs/GcsLayout.v, follow_ok) ----

func isDigitByte(c byte) bool { return '0' <= c && c <= '9' }

// tokClass: 'w' word, 'n' number, 's' string, 'o' operator / punctuation
func tokClass(t string) byte {
	switch t {
	case ";", "=", ",", "(", ")", "[", "]", "{", "}", ":", "+", "-", "*", "/", "!", "&&", "||", "==", "!=", "<>",
		">", ">=", "<", "<=":
		return 'o'
	}
	if t[0] == '"' {
		return 's'
	}
	if isDigitByte(t[0]) || (len(t) > 1 && (t[0] == '-' || t[0] == '.') && isDigitByte(t[1])) {
		return 'n'
	}
	return 'w'
}

// followOK mirrors follow_ok of Proofs/GcsLayout.v: may byte c (0 = end of file) directly follow token t?
func followOK(t string, c byte, eof bool) bool {
	switch tokClass(t) {
	case 'w':
		if eof {
			return true
		}
		return strings.IndexByte(" \t\n\r.,|:)(+=><&!;[]", c) >= 0
	case 'n':
		if eof {
			return true
		}
		if isDigitByte(c) {
			return false
		}
		return strings.IndexByte(t, '.') >= 0 || c != '.'
	case 's':
		return true
	}
	if eof {
		return true
	}
	switch t {
	case "=", ">", "!":
		return c != '='
	case "<":
		return c != '=' && c != '>'
	case "/":
		return c != '/'
	case "-":
		return !isDigitByte(c)
	}
	return true
}

// renderWith: sep(i) proposes the separator before token i (i = len(toks): after the last token); when the
// proposal may not directly follow the previous token a space is put in front of it
func renderWith(toks []string, lead string, sep func(i int) string) []term.T {
	out := []term.T{}
	if lead != "" {
		out = append(out, chunk(true, lead))
	}
	for i, t := range toks {
		if i > 0 {
			s := sep(i)
			next := s + t
			if !followOK(toks[i-1], next[0], false) {
				s = " " + s
			}
			if s != "" {
				out = append(out, chunk(true, s))
			}
		}
		out = append(out, chunk(false, t))
	}
	if len(toks) > 0 {
		s := sep(len(toks))
		if s != "" && !followOK(toks[len(toks)-1], s[0], false) {
			s = " " + s
		}
		if s != "" {
			out = append(out, chunk(true, s))
		}
	}
	return out
}

// systematicLayout: the same tokens under one of the layouts the layout theorem quantifies over
func systematicLayout(r *term.Rng, toks []string) []term.T {
	switch r.Intn(8) {
	case 0: // tokens glued wherever the lexer keeps them apart without a separator
		return renderWith(toks, "", func(int) string { return "" })
	case 1: // a '#' comment at every token boundary, no trailing newline after the last one
		return renderWith(toks, "#lead\n", func(i int) string {
			if i == len(toks) {
				return "# end ; } ) ]"
			}
			return "# c ; { \" \n"
		})
	case 2: // a '//' comment at every token boundary
		return renderWith(toks, "// lead\n", func(i int) string {
			if i == len(toks) {
				return "// end"
			}
			return "// c # \" ) \n"
		})
	case 3: // CR LF everywhere
		return renderWith(toks, "\r\n", func(int) string { return "\r\n" })
	case 4: // tabs everywhere, no trailing newline
		return renderWith(toks, "\t", func(i int) string {
			if i == len(toks) {
				return ""
			}
			return "\t"
		})
	case 5: // both kinds of comments alternating, CR LF line ends
		return renderWith(toks, "", func(i int) string {
			if i%2 == 0 {
				return "#x\r\n"
			}
			return "//y\r\n\t"
		})
	case 6: // random choice per boundary among: nothing, comment without leading space, CR LF, tab
		return renderWith(toks, term.Pick(r, leadPool), func(i int) string {
			return term.Pick(r, []string{"", "", "#c\n", "//c\n", "\r\n", "\t", "#\n//\n", " "})
		})
	}
	// a comment directly after the previous token only where the lexer allows it, then glued
	return renderWith(toks, "", func(i int) string {
		if i%3 == 0 {
			return "//k\n"
		}
		return ""
	})
}

// duplicateProgram: tokens of a program that holds a switch with two defaults or a map literal with
// a repeated field name (both are rejected since the parser repairs), possibly nested
func (g gctx) duplicateProgram() []string {
	var inner []string
	if g.r.Bool() {
		inner = []string{"switch"}
		if g.r.Bool() {
			inner = append(inner, g.atom().toks...)
		}
		inner = append(inner, "{")
		entry := func(def bool) {
			if def {
				inner = append(inner, "default", ":")
			} else {
				inner = cat(inner, []string{"case"}, g.atom().toks, []string{":"})
			}
			for _, n := range g.nodes(1, 2) {
				inner = append(inner, n.toks...)
			}
		}
		for i := g.r.Intn(2); i > 0; i-- {
			entry(false)
		}
		entry(true)
		for i := g.r.Intn(2); i > 0; i-- {
			entry(false)
		}
		entry(true)
		for i := g.r.Intn(2); i > 0; i-- {
			entry(g.r.Chance(1, 4))
		}
		inner = append(inner, "}")
	} else {
		k := g.ident()
		ents := [][]string{cat([]string{k, "="}, g.expr(1).toks)}
		for i := g.r.Intn(3); i > 0; i-- {
			if g.r.Bool() {
				ents = append(ents, g.atom().toks)
			} else {
				ents = append(ents, cat([]string{g.ident(), "="}, g.atom().toks))
			}
		}
		ents = append(ents, cat([]string{k, "="}, g.expr(1).toks))
		// the two entries with the same name at random places
		for i := len(ents) - 1; i > 0; i-- {
			j := g.r.Intn(i + 1)
			ents[i], ents[j] = ents[j], ents[i]
		}
		m := []string{"["}
		for i, e := range ents {
			if i > 0 {
				m = append(m, ",")
			}
			m = append(m, e...)
		}
		m = append(m, "]")
		switch g.r.Intn(3) {
		case 0:
			inner = cat([]string{"let", g.ident(), "="}, m, []string{";"})
		case 1:
			inner = cat([]string{g.ident(), "("}, m, []string{")", ";"})
		default:
			inner = cat(m, []string{";"})
		}
	}
	switch g.r.Intn(3) {
	case 0:
		return inner
	case 1:
		return cat([]string{"if", g.ident(), "{"}, inner, []string{"}"})
	}
	return cat(g.node(1).toks, []string{"fn", g.ident(), "(", ")", "{"}, inner, []string{"}"})
}

// mapFnProgram: a small program built around map literals and function literals (for the
// all-single-token-deletions cases of the new forms)
func (g gctx) mapFnProgram() gx {
	fn := gFuncLit(g.params(), gBlock([]gx{nStmt(sReturn(g.atom()), true)}))
	fs := []field{{g.ident(), fn}}
	if g.r.Bool() {
		k := g.ident()
		if k != fs[0].key {
			fs = append(fs, field{k, g.atom()})
		}
	}
	arr := []gx{}
	for i := g.r.Intn(3); i > 0; i-- {
		arr = append(arr, g.atom())
	}
	m := gMap(arr, fs)
	var first gx
	switch g.r.Intn(4) {
	case 0:
		first = nStmt(sLet(g.ident(), m), true)
	case 1:
		first = nExpr(gCall(gIdent(g.ident()), []gx{m, gFuncLit(g.params(), gBlock(nil))}))
	case 2:
		first = nExpr(gCall(gFuncLit(nil, gBlock([]gx{nExpr(m)})), nil))
	default:
		first = nStmt(sIf(gMap(nil, nil), gBlock([]gx{nStmt(sAssign(g.ident(), m), true)}), sNil()), false)
	}
	nodes := []gx{first}
	if g.r.Bool() {
		nodes = append(nodes, nExpr(gMap([]gx{gMap(nil, nil), g.atom()}, nil)))
	}
	toks := []string{}
	ts := []term.T{}
	for _, x := range nodes {
		toks = append(toks, x.toks...)
		ts = append(ts, x.t)
	}
	return gx{t: term.C("Block", term.L(ts...)), toks: toks}
}

// ---- gcstree ----

var treeQueue []term.T // pending deletion cases of the current small program

func genTree(r *term.Rng, idx int) term.T {
	g := gctx{r}
	all := enumExprs(2)
	if idx < len(all) {
		// exhaustive expressions: `e ;`
		e := all[idx]
		p := nExpr(e)
		return mkInput(term.Some(term.C("Block", term.L(p.t))), render(r, p.toks, idx%3 != 0))
	}
	if len(treeQueue) > 0 {
		c := treeQueue[0]
		treeQueue = treeQueue[1:]
		return c
	}
	switch r.Intn(15) {
	case 14:
		// a second default in a switch / a repeated field name in a map literal: rejected (no expected tree)
		return mkInput(nil, render(r, g.duplicateProgram(), r.Bool()))
	case 10, 11:
		// the layouts of the layout theorem: glued tokens, comments of both kinds at every boundary,
		// CR LF, tabs, no newline at the end
		p := g.program(1+r.Intn(4), 3)
		return mkInput(term.Some(p.t), systematicLayout(r, p.toks))
	case 12:
		// map and function literals, and queued every single-token deletion (brackets, commas, '=',
		// `fn`, terminators, ...) under plain, random or systematic layouts
		p := g.mapFnProgram()
		if len(p.toks) <= 48 {
			for i := range p.toks {
				del := append(append([]string{}, p.toks[:i]...), p.toks[i+1:]...)
				switch r.Intn(3) {
				case 0:
					treeQueue = append(treeQueue, mkInput(nil, render(r, del, true)))
				case 1:
					treeQueue = append(treeQueue, mkInput(nil, render(r, del, false)))
				default:
					treeQueue = append(treeQueue, mkInput(nil, systematicLayout(r, del)))
				}
			}
		}
		return mkInput(term.Some(p.t), systematicLayout(r, p.toks))
	case 13:
		// one statement with map / function literals under every systematic layout in turn
		p := g.mapFnProgram()
		return mkInput(term.Some(p.t), systematicLayout(r, p.toks))
	case 0, 1, 2:
		// a small program and, queued, every single-token deletion of it
		p := g.program(2+r.Intn(2), 2)
		if len(p.toks) <= 40 {
			for i := range p.toks {
				del := append(append([]string{}, p.toks[:i]...), p.toks[i+1:]...)
				treeQueue = append(treeQueue, mkInput(nil, render(r, del, r.Bool())))
			}
		}
		return mkInput(term.Some(p.t), render(r, p.toks, r.Bool()))
	case 3:
		// depth-3 enumeration, sampled
		d3 := enumExprs(2)
		l, rr := term.Pick(r, d3), term.Pick(r, d3)
		e := gBinary(term.Pick(r, binOps), l, rr)
		p := nExpr(e)
		return mkInput(term.Some(term.C("Block", term.L(p.t))), render(r, p.toks, false))
	case 4, 5:
		p := g.program(3+r.Intn(5), 4)
		return mkInput(term.Some(p.t), render(r, p.toks, false))
	case 6:
		// one expression statement, deep
		p := nExpr(g.expr(3 + r.Intn(5)))
		return mkInput(term.Some(term.C("Block", term.L(p.t))), render(r, p.toks, false))
	case 7:
		// map entries in arbitrary order: tree and derivation are checked, not the canonical tokens
		mapKeepOrder = true
		p := g.program(2+r.Intn(3), 3)
		mapKeepOrder = false
		return mkInput(nil, render(r, p.toks, false))
	default:
		p := g.program(1+r.Intn(3), 3)
		return mkInput(term.Some(p.t), render(r, p.toks, r.Chance(1, 3)))
	}
}

// ---- gcstotal ----

func byteChunks(b []byte, size int) []term.T {
	out := []term.T{}
	for len(b) > 0 {
		n := size
		if n > len(b) {
			n = len(b)
		}
		out = append(out, chunk(false, string(b[:n])))
		b = b[n:]
	}
	return out
}

var alphabet = []string{" ", " ", "\n", "\t", ";", ":", "=", "==", ",", "*", "+", "/", "//", "#", ".", "-", ">", ">=", "<", "<=",
	"<>", "|", "||", "!", "!=", "\"", "\\", "&", "&&", "(", ")", "[", "]", "{", "}", "a", "x", "_", "%", "0", "1", "9", "let", "if",
	"else", "fn", "switch", "case", "default", "for", "while", "return", "break", "true", "null", "٣", "é", "变", "𝟘", "²", "½", "Ⅷ",
	"\xff", "\xc3", "\xe2\x82", "\xf0\x9f\x98", "\xc0\x80", "\xed\xa0\x80", "\xf4\x90\x80\x80", "\x80", "\x00", "\x7f", "@", "$", "~", "^", "'", "`", "?"}

// one rune of every Nd block (its zero and a random digit), and letters / numbers of other kinds
func unicodeProbe(r *term.Rng) string {
	switch r.Intn(6) {
	case 0, 1, 2:
		t := unicode.Nd
		if r.Bool() && len(t.R32) > 0 {
			rg := t.R32[r.Intn(len(t.R32))]
			return string(rune(rg.Lo + uint32(r.Intn(int(rg.Hi-rg.Lo)+1))))
		}
		rg := t.R16[r.Intn(len(t.R16))]
		return string(rune(uint32(rg.Lo) + uint32(r.Intn(int(rg.Hi-rg.Lo)+1))))
	case 3:
		tabs := []*unicode.RangeTable{unicode.Nl, unicode.No, unicode.Lu, unicode.Ll, unicode.Lt, unicode.Lm, unicode.Lo, unicode.Mn, unicode.Sm, unicode.Zs, unicode.Cf}
		t := tabs[r.Intn(len(tabs))]
		if len(t.R32) > 0 && r.Bool() {
			rg := t.R32[r.Intn(len(t.R32))]
			return string(rune(rg.Lo))
		}
		if len(t.R16) == 0 {
			return "x"
		}
		rg := t.R16[r.Intn(len(t.R16))]
		return string(rune(rg.Hi))
	case 4:
		return string(rune(r.Intn(0x110000)))
	}
	// a random (possibly invalid) encoding
	n := 1 + r.Intn(4)
	b := make([]byte, n)
	b[0] = byte(0xc0 + r.Intn(0x40))
	for i := 1; i < n; i++ {
		b[i] = byte(0x80 + r.Intn(0x40))
	}
	if r.Chance(1, 4) {
		b[n-1] = byte(r.Intn(256))
	}
	return string(b)
}

func randAlphabet(r *term.Rng, n int) []term.T {
	out := []term.T{}
	for i := 0; i < n; i++ {
		switch r.Intn(12) {
		case 0:
			out = append(out, chunk(false, string([]byte{byte(r.Intn(256))})))
		case 1:
			out = append(out, chunk(false, unicodeProbe(r)))
		default:
			out = append(out, chunk(false, term.Pick(r, alphabet)))
		}
	}
	return out
}

func genTotal(r *term.Rng, idx int) term.T {
	g := gctx{r}
	// a few large inputs per run
	switch idx % 160 {
	case 7:
		n := 60000 + r.Intn(5536)
		b := make([]byte, n)
		for i := range b {
			b[i] = byte(r.Intn(256))
		}
		return mkInput(nil, byteChunks(b, 2048))
	case 47:
		// large, from the token alphabet
		var sb strings.Builder
		for sb.Len() < 65000 {
			sb.WriteString(term.Pick(r, alphabet[:60]))
			if r.Chance(2, 3) {
				sb.WriteString(" ")
			}
		}
		return mkInput(nil, byteChunks([]byte(sb.String()[:65000]), 2048))
	case 87:
		// deep nesting up to the size limit
		open := term.Pick(r, []string{"(", "[", "{", "- ", "! ", "f(", "fn(){ ", "if a { ", "a + ( "})
		n := 65536 / len(open)
		return mkInput(nil, byteChunks([]byte(strings.Repeat(open, n)), 4096))
	case 127:
		// a long unterminated string / comment / identifier / number / valid statement list
		k := r.Intn(5)
		body := strings.Repeat(term.Pick(r, []string{"ab ", "é", "x\\\"", "9", "变量 "}), 20000)
		pre := []string{"\"", "# ", "// ", "", "let x = 1 ; "}[k]
		s := pre + body
		if k == 4 {
			s = strings.Repeat("let x = 1 + 2 * 3 ; ", 3000)
		}
		if len(s) > 65536 {
			s = s[:65536]
		}
		return mkInput(nil, byteChunks([]byte(s), 4096))
	}
	if r.Chance(1, 25) {
		// a map / argument list with a forgotten comma (or a stray token) before a token of ANY length and kind:
		// the error message of that path prints the whole offending token
		tok := term.Pick(r, []string{"a_name_longer_than_ten_bytes", "exactly10b", "12345678901", "1234567890", "\"hello, world\"",
			"\"short\"", "fallthrough", "continue", "x", "123456789012345678901234567890", "0.000000000001", "变量变量变量变量"})
		pre := term.Pick(r, []string{"let m = [ 1 , 2", "print ( [ x", "[ 1", "let t = [ a = 1 , b", "f ( [ \"s\"", "return [ [ 1 ] "})
		post := term.Pick(r, []string{"] ;", "] ) ;", ", 3 ] ;", "", "]"})
		toks := append(append(strings.Fields(pre), tok), strings.Fields(post)...)
		return mkInput(nil, render(r, toks, r.Bool()))
	}
	switch r.Intn(20) {
	case 0, 1, 2:
		p := g.program(1+r.Intn(4), 4)
		return mkInput(nil, render(r, p.toks, r.Bool()))
	case 3, 4:
		// single-token deletion
		p := g.program(1+r.Intn(3), 3)
		i := r.Intn(len(p.toks))
		if r.Bool() {
			// single-token substitution: a token of another kind (literal keyword, bracket, operator, name,
			// number, string) in the place of any token - every "expecting X, got Y" path of the parser
			sub := append([]string{}, p.toks...)
			sub[i] = term.Pick(r, []string{"true", "false", "null", "let", "fn", "if", "else", "for", "while", "switch", "case",
				"default", "return", "break", "continue", "fallthrough", ";", ":", ",", "=", "(", ")", "[", "]", "{", "}", "+", "-", "!",
				"<=", "||", "x", "1", "1.5", "\"s\""})
			return mkInput(nil, render(r, sub, r.Bool()))
		}
		del := append(append([]string{}, p.toks[:i]...), p.toks[i+1:]...)
		return mkInput(nil, render(r, del, r.Bool()))
	case 5, 6:
		// byte flips of a rendered program
		p := g.program(1+r.Intn(3), 3)
		src := []byte(strings.Join(p.toks, " "))
		for k := 1 + r.Intn(3); k > 0 && len(src) > 0; k-- {
			i := r.Intn(len(src))
			switch r.Intn(3) {
			case 0:
				src[i] = byte(r.Intn(256))
			case 1:
				src[i] ^= 1 << uint(r.Intn(8))
			default:
				src = append(src[:i], src[i+1:]...)
			}
		}
		return mkInput(nil, byteChunks(src, 1))
	case 7, 8:
		// no separators at all between tokens
		p := g.program(1+r.Intn(3), 3)
		out := []term.T{}
		for _, t := range p.toks {
			out = append(out, chunk(false, t))
			if r.Chance(1, 3) {
				out = append(out, chunk(true, term.Pick(r, sepPool)))
			}
		}
		return mkInput(nil, out)
	case 9, 10, 11:
		// sign or dot followed by every kind of digit / letter
		lead := term.Pick(r, []string{"", " ", "x ", "1", "(", "\n"})
		sign := term.Pick(r, []string{"-", ".", "+", "-.", "..", "--", "-", "."})
		tail := term.Pick(r, []string{"", "1", " ", ";", ".5", "x", "\n"})
		return mkInput(nil, []term.T{chunk(false, lead), chunk(false, sign), chunk(false, unicodeProbe(r)), chunk(false, tail)})
	case 12, 13:
		// unterminated strings and comments
		pre := term.Pick(r, []string{"", "let s = ", "x ; ", "f ( "})
		open := term.Pick(r, []string{"\"", "\"abc", "\"a\\", "\"a\\\n", "\"a\nb\"", "# c", "// c", "/", "\"\\\"", "\"é\xff"})
		out := []term.T{chunk(false, pre), chunk(false, open)}
		if r.Bool() {
			out = append(out, chunk(false, term.Pick(r, []string{"\n", " ;", "\"", "\\"})))
		}
		return mkInput(nil, out)
	case 14:
		// deep nesting, moderate
		open := term.Pick(r, []string{"(", "[", "{", "- ", "! ", "f(", "fn(){ ", "if a { ", "a + ( ", "switch { case ", "[ a = "})
		n := 1 + r.Intn(300)
		s := strings.Repeat(open, n)
		if r.Bool() {
			s += "a"
		}
		return mkInput(nil, byteChunks([]byte(s), len(open)))
	case 15:
		// raw random bytes, small
		n := r.Intn(24)
		b := make([]byte, n)
		for i := range b {
			b[i] = byte(r.Intn(256))
		}
		return mkInput(nil, byteChunks(b, 1))
	default:
		return mkInput(nil, randAlphabet(r, r.Intn(14)))
	}
}

var _ = utf8.RuneError
