(* C11 — The engine performs what the script decided. *)
From Coq Require Import List ZArith Bool.
From SR Require Import Base.CaseLib Base.NumOps Model.Turn Model.Sim Model.SimProtocol Proofs.SimProofs Proofs.SimDecision.
Import ListNotations.

(* for an alive character: the decision asked of the script is recorded; the action started is
   the decided type, or the default attack (evaluator First) when a skill was decided but the
   team lacks its skill-point cost; a skill is only performed with its cost available; the
   primary target handed to the content is the result of the decided target rule *)
Theorem C11_action_matches_decision : forall cfg fuel s id ins s' u,
  get_unit (units s) id = Some u -> ust u = Alive -> uchar u = true ->
  execute_action cfg fuel s id ins = AOk s' ->
  let '(d, _) := pop_next (next_q s) id in
  let '(evl, atype, fallback) := action_decision s id u in
  exists pre rest p,
    trace s' = trace s ++ VNextAction id (dc_type d) (dc_eval d) :: pre ++
               VActionStart id atype ins :: VCall (if atype =? ATYPE_SKILL then 1 else 0)%Z id p :: rest /\
    (fallback = true -> pre = VDefaultAction id :: match pre with _ :: t => t | [] => [] end) /\
    (atype = ATYPE_SKILL -> (uspneed u <= sp s)%Z) /\
    (exists s2, evaluate s2 id evl (if (atype =? ATYPE_SKILL)%Z then utt_s u else utt_a u) = Some p /\
                units s2 = units s /\ chars s2 = chars s /\ enemies s2 = enemies s).
Proof. exact action_matches_decision. Qed.
Print Assumptions C11_action_matches_decision.

(* the target rules: First = head of the living candidates of the right side; LowestHP /
   LowestHPRatio = a candidate with minimal key (given that the float comparison is a total
   preorder on the candidates' HP values, i.e. none is NaN); a named unit only if it is alive
   and of the class the ability's target type asks for *)
Theorem C11_target_satisfies_rule : forall s src evl tt p,
  evaluate s src evl tt = Some p -> rule_ok s src evl tt p.
Proof. exact evaluate_rule. Qed.
Print Assumptions C11_target_satisfies_rule.

(* skill points stay within [0,5]; a change is clamp(sp + delta) *)
Theorem C11_skill_points : forall s amt, (0 <= sp s <= 5)%Z ->
  (0 <= sp (mod_sp s amt) <= 5)%Z /\ sp (mod_sp s amt) = Z.max 0 (Z.min 5 (sp s + amt)).
Proof. exact mod_sp_range. Qed.
Print Assumptions C11_skill_points.

(* an ultimate is queued only for a character the script asked for whose energy is full, and
   queuing sets its energy to zero *)
Theorem C11_ult_only_when_asked_and_able : ult_request_statement.
Proof. exact ult_request_spec. Qed.
Print Assumptions C11_ult_only_when_asked_and_able.

Theorem C11_nonvacuous :
  match start demo_cfg2 300 with
  | Stop s => decision_ok demo_cfg2 (trace s) && protocol_ok (trace s) &&
              existsb (fun e => match e with VActionStart 1 2 false => true | _ => false end) (trace s) &&
              existsb (fun e => match e with VDefaultAction 1 => true | _ => false end) (trace s) &&
              existsb (fun e => match e with VActionStart 1 3 true => true | _ => false end) (trace s)
  | _ => false
  end = true.
Proof. exact demo_cfg2_runs. Qed.
