(* The translator tie for the shield model of C16 (Model/Shield.v): the strength formula of
   AddShield and the loop body of AbsorbDamage as GENERATED from pkg/engine/shield/{add,absorb}.go
   (Gen/FormulasShield.v) are, for every numeric instance, the definitions the C16 model and its
   theorems use.  See Proofs/FormulasInfoProofs.v for the scheme. *)
From Coq Require Import List ZArith Bool.
From SR Require Import Model.Shield.
From SR Require Gen.FormulasShield.
Import ListNotations.
Open Scope Z_scope.

Lemma gen_order_is_model : FormulasShield.shieldFormulaOrder = canon.
Proof. reflexivity. Qed.

(* AddShield: the announced base strength and the stored strength *)
Lemma gen_addShield_is_model : forall (T : Type) (O : NumOps T) f flat src tgt maxsh,
  FormulasShield.addShield_hp O f flat src tgt maxsh =
  (base_hp O f flat src tgt maxsh, strength O f flat src tgt maxsh).
Proof. reflexivity. Qed.

Lemma gen_dim_is_math_Dim : forall (T : Type) (O : NumOps T) x y,
  dim O x y = (let v := n_sub O x y in if n_leb O v (n_zero O) then n_zero O else v).
Proof. reflexivity. Qed.

Section Absorb.
  Context {T : Type} (O : NumOps T).

  (* AbsorbDamage's loop as a fold of the generated loop body: (shields after the hit, damageOut,
     newMaxShieldHP, maxShieldID) *)
  Definition gen_loop_body (d : T) (st : list (shield T) * T * T * option Z) (s : shield T) :=
    let '(acc, dOut, nmax, mid) := st in
    let '(hp', dOut', nmax', mid') := FormulasShield.absorb_step O d (snd s) (fst s) dOut nmax mid in
    (acc ++ [(fst s, hp')], dOut', nmax', mid').

  Definition gen_loop (d : T) (l : list (shield T)) :=
    fold_left (gen_loop_body d) l ([], fst (FormulasShield.absorb_init O d), snd (FormulasShield.absorb_init O d), None).

  Lemma gen_loop_body_is_model : forall d acc dOut nmax mid s,
    gen_loop_body d (acc, dOut, nmax, mid) s =
    (acc ++ [hit O d s],
     (let r := dim O d (snd s) in if n_ltb O r dOut then r else dOut),
     fst (if n_ltb O nmax (snd (hit O d s)) then (snd (hit O d s), Some (fst (hit O d s))) else (nmax, mid)),
     snd (if n_ltb O nmax (snd (hit O d s)) then (snd (hit O d s), Some (fst (hit O d s))) else (nmax, mid))).
  Proof.
    intros d acc dOut nmax mid [k hp]. unfold gen_loop_body, FormulasShield.absorb_step, hit. cbn [fst snd].
    destruct (n_ltb O nmax (dim O hp d)); reflexivity.
  Qed.

  Lemma gen_loop_gen : forall d l acc dOut nmax mid,
    fold_left (gen_loop_body d) l (acc, dOut, nmax, mid) =
    (acc ++ map (hit O d) l,
     fold_left (fun out s => let r := dim O d (snd s) in if n_ltb O r out then r else out) l dOut,
     fst (fold_left (fun a s => if n_ltb O (fst a) (snd s) then (snd s, Some (fst s)) else a) (map (hit O d) l) (nmax, mid)),
     snd (fold_left (fun a s => if n_ltb O (fst a) (snd s) then (snd s, Some (fst s)) else a) (map (hit O d) l) (nmax, mid))).
  Proof.
    intros d l. induction l as [|s r IH]; intros acc dOut nmax mid.
    - cbn [fold_left map fst snd]. rewrite app_nil_r. reflexivity.
    - cbn [fold_left map]. rewrite gen_loop_body_is_model, IH. rewrite <- app_assoc. cbn [app fst snd].
      destruct (n_ltb O nmax (snd (hit O d s))); reflexivity.
  Qed.

  (* the loop computes exactly what do_absorb uses: the shields after the hit, damage_out, new_max *)
  Lemma gen_loop_is_model : forall d l,
    gen_loop d l = (map (hit O d) l, damage_out O d l, fst (new_max O (map (hit O d) l)), snd (new_max O (map (hit O d) l))).
  Proof. intros d l. unfold gen_loop. rewrite gen_loop_gen. reflexivity. Qed.

  (* do_absorb in terms of the generated loop *)
  Lemma gen_do_absorb_is_model : forall w tgt d,
    do_absorb O w tgt d =
    (let l := get_sh w tgt in
     if negb (is_shielded l) || n_leb O d (n_zero O) then (w, [], d)
     else
       let oldmax := max_shield O l in
       let '(l', out, nmax, mid) := gen_loop d l in
       let gone := filter (is_zero O) l' in
       let kept := filter (fun s => negb (is_zero O s)) l' in
       (set_sh w tgt kept, map (fun s => ERemoved (fst s) tgt) gone ++ [EChange tgt mid nmax oldmax d out], out)).
  Proof.
    intros w tgt d. unfold do_absorb, zero. cbv zeta. rewrite gen_loop_is_model.
    destruct (negb (is_shielded (get_sh w tgt)) || n_leb O d (n_zero O)); [reflexivity|].
    destruct (new_max O (map (hit O d) (get_sh w tgt))); reflexivity.
  Qed.
End Absorb.

Definition C16_formulas_statement : Prop :=
  FormulasShield.shieldFormulaOrder = canon /\
  (forall (T : Type) (O : NumOps T) f flat src tgt maxsh,
     FormulasShield.addShield_hp O f flat src tgt maxsh = (base_hp O f flat src tgt maxsh, strength O f flat src tgt maxsh)) /\
  (forall (T : Type) (O : NumOps T) d l,
     gen_loop O d l = (map (hit O d) l, damage_out O d l, fst (new_max O (map (hit O d) l)), snd (new_max O (map (hit O d) l)))) /\
  (forall (T : Type) (O : NumOps T) w tgt d,
     do_absorb O w tgt d =
     (let l := get_sh w tgt in
      if negb (is_shielded l) || n_leb O d (n_zero O) then (w, [], d)
      else
        let oldmax := max_shield O l in
        let '(l', out, nmax, mid) := gen_loop O d l in
        let gone := filter (is_zero O) l' in
        let kept := filter (fun s => negb (is_zero O s)) l' in
        (set_sh w tgt kept, map (fun s => ERemoved (fst s) tgt) gone ++ [EChange tgt mid nmax oldmax d out], out))).

Lemma C16_formulas_hold : C16_formulas_statement.
Proof.
  unfold C16_formulas_statement. repeat match goal with |- _ /\ _ => split end.
  - reflexivity.
  - reflexivity.
  - intros. apply gen_loop_is_model.
  - intros. apply gen_do_absorb_is_model.
Qed.
