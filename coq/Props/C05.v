(* C05 — Modifiers stack, tick and expire as documented.
   Only statements, [exact] and [Print Assumptions] live here. *)
From Coq Require Import List ZArith Bool Sorting.Sorted.
From SR Require Import Base.ListCount Model.Modifier Proofs.ModifierProofs.
From SR Require Import Model.SimSkeleton Model.StackingExpected Model.StackingInterp Gen.StackingTable Proofs.StackingTableProofs.
Import ListNotations.
Open Scope Z_scope.

(* after any history: attachment order, one attachment per instance, every slot that left was
   announced removed exactly once (dispelled ones exactly one Dispelled as well); every single
   operation, listeners included, keeps the survivors in order with newcomers behind; and no
   attached instance is left with stack count zero *)
Theorem C05_modifiers : C05_statement.
Proof. exact C05_holds. Qed.
Print Assumptions C05_modifiers.

Theorem C05_reachable_states_wellformed :
  forall w seed d ops, NoDup (unit_ids w) -> lists_ok w (run w d (init_seed seed) ops).
Proof. exact reachable_ok. Qed.
Print Assumptions C05_reachable_states_wellformed.

(* ---- stacking behaviours (for any listener behaviour X) ---- *)
Theorem C05_no_match_appends :
  forall w X s t k tag,
    (match k with
     | Multiple => True
     | ReplaceBySource => find_first (heap s) (by_name_src (i_name (heap s tag)) (i_src (heap s tag))) (tg s t) = None
     | _ => find_first (heap s) (by_name (i_name (heap s tag))) (tg s t) = None
     end) ->
    stack w X s t k tag = (append s t tag, tag, true) /\
    tg (append s t tag) t = tg s t ++ [(nslot s, tag)] /\ heap (append s t tag) = heap s.
Proof. exact stack_appends. Qed.
Print Assumptions C05_no_match_appends.

Theorem C05_unique_keeps_old :
  forall w X s t tag m,
    find_first (heap s) (by_name (i_name (heap s tag))) (tg s t) = Some m ->
    stack w X s t Unique tag = (s, m, false).
Proof. exact stack_unique. Qed.
Print Assumptions C05_unique_keeps_old.

Theorem C05_multiple_always_adds :
  forall w X s t tag, stack w X s t Multiple tag = (append s t tag, tag, true).
Proof. exact stack_multiple. Qed.
Print Assumptions C05_multiple_always_adds.

Theorem C05_replace_swaps_in_place_and_stacks :
  forall w X s t tag k p m,
    (k = Replace /\ p = by_name (i_name (heap s tag)) \/
     k = ReplaceBySource /\ p = by_name_src (i_name (heap s tag)) (i_src (heap s tag))) ->
    find_first (heap s) p (tg s t) = Some m ->
    exists pre e post s',
      stack w X s t k tag = (s', tag, true) /\
      tg s t = pre ++ e :: post /\ snd e = m /\ Forall (fun e' => p (heap s (snd e')) = false) pre /\
      tg s' t = pre ++ (fst e, tag) :: post /\ others_unchanged s s' t /\
      i_cnt (heap s' tag) = stack_count (heap s tag) (i_cnt (heap s m)) /\
      (forall x, x <> tag -> heap s' x = heap s x).
Proof. exact stack_replace. Qed.
Print Assumptions C05_replace_swaps_in_place_and_stacks.

Theorem C05_stacks_up_to_the_maximum :
  forall new prev, 0 <= prev -> 0 <= i_cnt new ->
    stack_count new prev = if 0 <? i_max new then Z.min (prev + i_cnt new) (i_max new) else prev + i_cnt new.
Proof. exact stack_count_spec. Qed.
Print Assumptions C05_stacks_up_to_the_maximum.

Theorem C05_refresh_resets_duration :
  forall w X s t tag m,
    find_first (heap s) (by_name (i_name (heap s tag))) (tg s t) = Some m ->
    stack w X s t Refresh tag =
      (emit_extdur w X (upd s m (w_dur (i_dur (heap s tag)))) t m (i_dur (heap s m)), m, false).
Proof. exact stack_refresh. Qed.
Print Assumptions C05_refresh_resets_duration.

Theorem C05_prolong_adds_duration :
  forall w X s t tag m,
    find_first (heap s) (by_name (i_name (heap s tag))) (tg s t) = Some m ->
    stack w X s t Prolong tag =
      (emit_extdur w X (upd s m (w_dur (i_dur (heap s m) + i_dur (heap s tag)))) t m (i_dur (heap s m)), m, false).
Proof. exact stack_prolong. Qed.
Print Assumptions C05_prolong_adds_duration.

Theorem C05_merge_accumulates :
  forall w X s t tag m,
    find_first (heap s) (by_name (i_name (heap s tag))) (tg s t) = Some m -> m <> tag ->
    exists s', stack w X s t Merge tag = (s', m, true) /\ tg s' = tg s /\
      i_cnt (heap s' m) = stack_count (heap s tag) (i_cnt (heap s m)) /\
      i_dur (heap s' m) = Z.max (i_dur (heap s m)) (i_dur (heap s tag)) /\
      (forall x, x <> m -> heap s' x = heap s x).
Proof. exact stack_merge. Qed.
Print Assumptions C05_merge_accumulates.

(* ---- dispel by first / last added ---- *)
Theorem C05_dispel_first_added :
  forall w X s t status count,
    let l := tg s t in
    let chosen := firstn (dispel_n count l) (filter (fun e => dispellable w status (heap s (snd e))) l) in
    exists keep, dispel w X s t status 2 count = emit_dispel w X (setl s t keep) t chosen /\
      sublist keep l /\ forall x, c (map fst l) x = c (map fst keep) x + c (map fst chosen) x.
Proof. exact dispel_first. Qed.
Print Assumptions C05_dispel_first_added.

Theorem C05_dispel_last_added :
  forall w X s t status count,
    let l := tg s t in
    let chosen := rev (firstn (dispel_n count l) (rev (filter (fun e => dispellable w status (heap s (snd e))) l))) in
    exists keep, dispel w X s t status 1 count = emit_dispel w X (setl s t keep) t chosen /\
      sublist keep l /\ forall x, c (map fst l) x = c (map fst keep) x + c (map fst chosen) x.
Proof. exact dispel_last. Qed.
Print Assumptions C05_dispel_last_added.

(* ExtendCount: exactly the instances of that name whose count is not positive leave *)
Theorem C05_extend_count_leaves :
  forall w X s t n amt,
    exists s1, ext_cnt w X s t n amt = remove_by w X s1 t (fun i => (i_name i =? n) && (i_cnt i <=? 0)).
Proof. exact ext_cnt_leaves. Qed.
Print Assumptions C05_extend_count_leaves.

(* ---- ticking and expiry ---- *)
Theorem C05_tick_one_instance :
  forall w turn_now mom i,
    let i' := fst (tick_inst w turn_now mom i) in
    let stay := snd (tick_inst w turn_now mom i) in
    (c_tick (getcfg w (i_name i)) <> mom -> i' = i /\ stay = true) /\
    (turn_now = i_renew i -> tick_immediately mom i = false -> i' = i /\ stay = true) /\
    (c_tick (getcfg w (i_name i)) = mom -> (turn_now <> i_renew i \/ tick_immediately mom i = true) ->
       i_dur i' = (if 0 <=? i_dur i then Z.max 0 (i_dur i - 1) else i_dur i) /\
       i' = w_dur (i_dur i') i /\
       (stay = false <-> i_cnt i = 0 \/ 0 <= i_dur i <= 1)).
Proof. exact tick_inst_spec. Qed.
Print Assumptions C05_tick_one_instance.

Theorem C05_expires_after_exactly_d_eligible_phase_ends :
  forall w turn_now mom i,
    c_tick (getcfg w (i_name i)) = mom -> (turn_now <> i_renew i \/ tick_immediately mom i = true) -> i_cnt i <> 0 ->
    (1 < i_dur i -> tick_inst w turn_now mom i = (w_dur (i_dur i - 1) i, true)) /\
    (i_dur i = 1 -> snd (tick_inst w turn_now mom i) = false) /\
    (i_dur i < 0 -> tick_inst w turn_now mom i = (i, true)).
Proof. exact tick_countdown. Qed.
Print Assumptions C05_expires_after_exactly_d_eligible_phase_ends.

Theorem C05_phase_end_of_owner_turn :
  forall w X s t mom, lists_ok w s ->
    phase_end w X s t mom = emit_remove w X (pe_pure w s t mom) t (pe_expired w s t mom) /\
    let s1 := pe_pure w s t mom in
    turn s1 = turn s /\
    (forall u, u <> t -> tg s1 u = tg s u) /\
    tg s1 t = filter (fun e => snd (tick_inst w (turn s) mom (heap s (snd e)))) (tg s t) /\
    (forall e, In e (tg s t) -> heap s1 (snd e) = fst (tick_inst w (turn s) mom (heap s (snd e)))) /\
    (forall m, ~ In m (map snd (tg s t)) -> heap s1 m = heap s m).
Proof. exact phase_end_spec. Qed.
Print Assumptions C05_phase_end_of_owner_turn.

Theorem C05_other_phases :
  forall w X s t,
    tick w X s t 2 = set_turn s (turn s + 1) /\
    (forall ph, ph <> 2 -> ph <> 3 -> ph <> 6 -> ph <> 8 -> tick w X s t ph = s) /\
    tg (tick w X s t 6) = tg s /\ evs (tick w X s t 6) = evs s.
Proof. exact tick_other_phases. Qed.
Print Assumptions C05_other_phases.

(* NOT covered by the theorems above (partial): leaving when the duration reaches zero holds of
   ticking only.  A negative ExtendDuration (or a Prolong whose incoming duration is the
   infinite -1) can leave an attached instance at duration 0 until the next eligible phase end,
   or below zero where it never expires. *)
Theorem C05_duration_clause_refuted_for_negative_extension :
  (let s := run dz_world 0 (init_seed 1) dz_ops1 in exists e, In e (tg s 1) /\ i_dur (heap s (snd e)) = 0) /\
  (let s := run dz_world 0 (init_seed 1) dz_ops2 in exists e, In e (tg s 1) /\ i_dur (heap s (snd e)) = -1).
Proof. exact C05_duration_zero_refuted. Qed.

Theorem C05_nonvacuous :
  let s := run demo_world 2 (init_seed 7) demo_ops in
  map snd (tg s 1) = [3; 4] /\ slots s 1 = [2; 3] /\ nslot s = 4 /\
  rev (rem_slots (evs s)) = [0; 1] /\ dsp_slots (evs s) = [1] /\ length (evs s) = 12%nat.
Proof. exact demo_run. Qed.


(* The stacking logic of the model IS the stacking logic of the source.  `go2coq StackingTable` translates every
   statement of add.go (AddModifier and its seven stacking helpers, stackCount, attemptResist), of remove.go
   (RemoveModifier, RemoveModifierFromSource, RemoveSelf, DispelStatus) and of tick.go (Tick, modifierPhaseEnd) into a
   first-order step table, Gen/StackingTable.v, regenerated on every run.  (1) That table and the constants equal the
   pinned table Model/StackingExpected.v (lookup by name / by name and source, count and duration updates, early
   returns, surviving instance, order of emits: an edit of any of them breaks this equation).  (2) stackCount of the
   table, run on the model's instance record, is Modifier.stack_count for every instance and every previous count.
   (3) The `switch config.Stacking` of AddModifier with the helper it selects (unique, replaceBySource, replace,
   multiple, refresh, prolong, merge), run on the model's state, is Modifier.stack for every world, listener runner,
   state, unit, behaviour and incoming instance. *)
Theorem C05_stacking_is_the_source : stacking_tie.
Proof. exact stacking_is_the_source. Qed.
Print Assumptions C05_stacking_is_the_source.
