(* C09 — runs stop exactly at an exit condition and the result adds up: facts about the model. *)
From Coq Require Import List ZArith Bool Floats Lia.
From SR Require Import Base.CaseLib Base.NumOps Model.Turn Model.Sim Model.SimProtocol Proofs.SimProofs.
Import ListNotations.
Open Scope Z_scope.

Section Result.
  Variable cfg : config.

  (* the exit check: continue iff both sides have living units and the cycle limit is not
     reached; otherwise loss, else win, else timeout *)
  Definition reached_limit (s : sim) : bool := c_cycle_limit cfg <=? ftoZ (PrimFloat.div (total_av s) 100).

  Theorem exit_check_reason s :
    match chars s, enemies s with
    | [], _ => exit_check cfg s = Stop (emit s [VTermination 1 (total_av s)])           (* loss *)
    | _ :: _, [] => exit_check cfg s = Stop (emit s [VTermination 2 (total_av s)])      (* win *)
    | _ :: _, _ :: _ =>
        if reached_limit s then exit_check cfg s = Stop (emit s [VTermination 3 (total_av s)])   (* timeout *)
        else exit_check cfg s = Ok s
    end.
  Proof.
    unfold exit_check, reached_limit. destruct (chars s); [reflexivity|]. destruct (enemies s); [reflexivity|].
    destruct (c_cycle_limit cfg <=? _); reflexivity.
  Qed.

  (* a cycle limit of zero times out at the very first exit check *)
  Corollary zero_limit_times_out s c cs e es : chars s = c :: cs -> enemies s = e :: es ->
    c_cycle_limit cfg = 0 -> PrimFloat.leb 0 (total_av s) = true -> PrimFloat.is_nan (total_av s) = false ->
    (0 <=? ftoZ (PrimFloat.div (total_av s) 100)) = true ->
    exit_check cfg s = Stop (emit s [VTermination 3 (total_av s)]).
  Proof.
    intros Hc He Hl _ _ Hz. pose proof (exit_check_reason s) as H. rewrite Hc, He in H.
    unfold reached_limit in H. rewrite Hl, Hz in H. exact H.
  Qed.

  (* every Stop comes from an exit check: its last event is Termination carrying the clock *)
  Definition stopped (s : sim) : Prop := exists s0 r, s = emit s0 [VTermination r (total_av s0)].

  Lemma exit_stopped s s' : exit_check cfg s = Stop s' -> stopped s'.
  Proof.
    intros H. destruct (exit_check_cases cfg s) as [E|(r & E)]; rewrite E in H; [discriminate|].
    inversion H; subst. exists s, r. reflexivity.
  Qed.

  Lemma drain_stopped : forall fuel s s', drain cfg fuel s = Stop s' -> stopped s'.
  Proof.
    induction fuel as [|f IH]; intros s s' H; cbn [drain] in H; [discriminate|].
    destruct (pop s) as [[t s1]|]; [|discriminate].
    destruct (_ || _); [eapply exit_stopped; exact H|].
    destruct (match state_of s1 (t_src t) with Some Dead => true | _ => false end); [eapply IH; exact H|].
    destruct (negb (existsb _ _)); [eapply IH; exact H|].
    destruct (has_flag s1 (t_src t) (t_abort t)); [eapply IH; exact H|].
    destruct (execute_task cfg f s1 t); try discriminate.
    destruct (death_check cfg f s0 false); [|discriminate].
    destruct (exit_check cfg s2) eqn:EE; try discriminate.
    - destruct (ult_check s3) eqn:EU; try discriminate; [eapply IH; exact H|].
      exfalso. eapply ult_check_no_stop. exact EU.
    - inversion H; subst. eapply exit_stopped. exact EE.
  Qed.

  Lemma execute_queue_stopped fuel s b s' : execute_queue cfg fuel s b = Stop s' -> stopped s'.
  Proof.
    unfold execute_queue. destruct (ult_check s) eqn:EU; try discriminate.
    - destruct (b && _); [apply exit_stopped|apply drain_stopped].
    - intros _. exfalso. eapply ult_check_no_stop. exact EU.
  Qed.

  Lemma phase2_stopped fuel s s' : phase2 cfg fuel s = Stop s' -> stopped s'.
  Proof.
    unfold phase2. destruct (Turn.step F (turn s) _) as [t2 outs2].
    destruct (execute_queue cfg fuel _ false) eqn:EQ; try discriminate.
    - destruct (run_slot cfg fuel _ LPhase2 _ _); [|discriminate].
      destruct (death_check cfg fuel _ true); [apply exit_stopped|discriminate].
    - intros H. inversion H; subst. eapply execute_queue_stopped. exact EQ.
  Qed.

  Lemma one_turn_stopped fuel s s' : one_turn cfg fuel s = Stop s' -> stopped s'.
  Proof.
    unfold one_turn. destruct (Turn.step F (turn s) _) as [t' outs].
    destruct outs as [|o [|o2 outs]]; try discriminate; [|destruct o; discriminate]. destruct o; try discriminate.
    destruct (match get_unit (units s) id with Some _ => false | None => true end); [discriminate|].
    destruct (run_slot cfg fuel _ LPhase1 id id) as [s2|]; [|discriminate].
    destruct (death_check cfg fuel _ false) as [s3|]; [|discriminate].
    destruct (has_flag s3 id _); [apply phase2_stopped|].
    destruct (_ && _); [apply phase2_stopped|].
    destruct (execute_queue cfg fuel s3 true) eqn:EQ; try discriminate.
    - destruct (execute_action cfg fuel _ id false); try discriminate.
      destruct (death_check cfg fuel _ false); [apply phase2_stopped|discriminate].
    - intros H. inversion H; subst. eapply execute_queue_stopped. exact EQ.
  Qed.

  Lemma turns_stopped : forall fuel s s', turns cfg fuel s = Stop s' -> stopped s'.
  Proof.
    induction fuel as [|f IH]; intros s s' H; cbn [turns] in H; [discriminate|].
    destruct (one_turn cfg f s) eqn:E1; try discriminate.
    - eapply IH. exact H.
    - inversion H; subst. eapply one_turn_stopped. exact E1.
  Qed.

  (* the total action value of the result is the battle clock in the final Termination event *)
  Theorem result_av_is_clock fuel s : start cfg fuel = Stop s ->
    exists r, last (trace s) VInitialize = VTermination r (total_av s).
  Proof.
    intros H. unfold start in H.
    destruct (Turn.step F (Turn.init F) _) as [t1 outs].
    destruct (run_slot cfg fuel _ LBattle 0 0) as [s1|]; [|discriminate].
    assert (St : stopped s).
    { destruct (execute_queue cfg fuel _ true) eqn:EQ; try discriminate.
      - eapply turns_stopped. exact H.
      - inversion H; subst. eapply execute_queue_stopped. exact EQ. }
    destruct St as (s0 & r & ->). exists r. cbn [trace emit]. rewrite last_last. reflexivity.
  Qed.

  (* ---- the HitEnd subscriber of statistics.go ---- *)
  Lemma pad_to_length : forall n l x, length (pad_to l n x) = Nat.max (length l) n.
  Proof.
    induction n as [|n IH]; intros l x; cbn [pad_to]; [rewrite Nat.max_0_r; reflexivity|].
    destruct l as [|y l]; cbn [length]; rewrite IH; cbn; lia.
  Qed.
  Lemma set_nth_length : forall l n v, length (set_nth_f l n v) = length l.
  Proof.
    induction l as [|x l IH]; intros n v; cbn; [reflexivity|]. destruct n; cbn; [reflexivity|]. rewrite IH. reflexivity.
  Qed.
  Lemma set_nth_get : forall l n v, (n < length l)%nat -> nth n (set_nth_f l n v) 0%float = v.
  Proof.
    induction l as [|x l IH]; intros n v H; cbn in H; [lia|]. destruct n; cbn; [reflexivity|]. apply IH. lia.
  Qed.

  (* recording a hit: the defender's side total grows by the hit's damage (enemy defender:
     dealt; character defender: taken; unknown id: nothing), both per-cycle series keep equal
     lengths, and the entry of the current cycle holds the running total *)
  Definition record_hit_statement : Prop := forall s d t,
    let s' := record_hit s d t in
    let cyc := Z.to_nat (Z.max 0 (ceil_div100 (total_av s) - 1)) in
    match get_unit (units s) d with
    | None => s' = s
    | Some u =>
        r_dealt (res s') = (if uchar u then r_dealt (res s) else PrimFloat.add (r_dealt (res s)) t) /\
        r_taken (res s') = (if uchar u then PrimFloat.add (r_taken (res s)) t else r_taken (res s)) /\
        (length (r_dealt_cyc (res s)) = length (r_taken_cyc (res s)) ->
         length (r_dealt_cyc (res s')) = length (r_taken_cyc (res s'))) /\
        nth cyc (r_dealt_cyc (res s')) 0%float = r_dealt (res s') /\
        nth cyc (r_taken_cyc (res s')) 0%float = r_taken (res s')
    end.

  Theorem record_hit_spec : record_hit_statement.
  Proof.
    intros s d t. cbn zeta. unfold record_hit. destruct (get_unit (units s) d) as [u|]; [|reflexivity].
    cbn [res r_dealt r_taken r_dealt_cyc r_taken_cyc].
    split; [reflexivity|]. split; [reflexivity|]. split.
    - intros HL. rewrite !set_nth_length, !pad_to_length, HL. reflexivity.
    - split; apply set_nth_get; rewrite pad_to_length; lia.
  Qed.
End Result.
