CONFIG = {
    "id": "C16",
    "coq_targets": ["Props/C16.v", "Model/ShieldCheck.v"],
    "prop_files": ["Props/C16.v"],
    "gen": [],
    "components": [{
        "name": "shield", "modules": ["Model.Shield", "Model.ShieldCheck"],
        "check": "check_case", "monitor": "monitor_case", "model_out": "model_out",
        "case_type": "case",
        "ops_path": [2],            # (unit pool, key pool, ops)
        "n_quick": 1000, "n_thorough": 30000, "shard": 250,
    }],
    "rule": "op lists of 5-40 calls (serve a stat vector; AddShield with 0-5 formula terms, flat value, source and "
            "target from 3 units, key from 4; RemoveShield; AbsorbDamage) on the real shield.Manager with a real "
            "event.System and a fake attribute.Getter returning real info.Stats; 60% of the damage amounts aimed at a "
            "present shield (exactly its strength, one ulp below/above, half, above the strongest), the rest from "
            "{0,-0,negative,small,large,denormal}; stats/coefficients/bonuses from small pools incl. 0 and negative "
            "ones; after every call all events (all fields), the return value and IsShielded/MaxShield/HasShield of "
            "every unit and key are compared bit-exactly; a case is non-trivial when distinct as an input term",
    "trusted": ["algebraic clauses (strength formula, 'what exceeds the strongest shield') are proved for the same "
                "definitions instantiated at the real numbers (NumOps section); the binary64 instance is what is "
                "executed and corresponded; at binary64 the sign clauses are proved from FloatAxioms and the min/max "
                "duality is checked on every implementation trace by the monitor (finite values)",
                "math.Dim is modelled as `v := x - y; if v <= 0 {0} else {v}` (its Go 1.23 source)",
                "info.Stats.ATK/DEF/HP of the fake getter are statCalc(base, 0, 0+0), written into the model"],
    "assumptions": ["the formula map of a shield has distinct keys (it is a Go map)",
                    "strictly-positive survivors / non-negative strength need non-NaN inputs; a shield added with a "
                    "negative or NaN strength (negative coefficients or bonuses below -1) stays until the next absorb"],
    "manifest": {
        "level_text": "Kernel-checked theorems over an executable Gallina model of the shield manager (all sequences of "
                      "add/remove/absorb, every numeric instance for the structural clauses, reals for the algebra, "
                      "binary64 for the signs), tied to the Go code by bit-exact correspondence on generated histories "
                      "and a trace monitor on the implementation.",
        "level_note": "Coq kernel; hand-written model Model/Shield.v; correspondence harness; IEEE rounding gap between "
                      "the binary64 and real instances for the strength formula and the min/max duality.",
        "technique": "Coq proof (invariant over op lists, NumOps instances at float and R) + model/implementation "
                     "correspondence + monitor",
        "design_ref": "DESIGN.md section 7, C16",
    },
}
