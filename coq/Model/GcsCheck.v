(* Correspondence checker for the gcs lexer/parser models (components gcstotal: C13 and
   gcstree: C14 of harness/cmd/corr/gcs.go).

   A case is (expected tree or None, chunks of the source as (is_layout, hex text), observed).
   [check_case]: the model run on the same bytes predicts exactly what the real
   parse.New(src).Parse() and parse.LexAll(src) did in the sacrificial child process.
   [monitor_total] (C13) and [monitor_tree] (C14) judge the implementation's behaviour alone. *)
From Coq Require Import List ZArith Bool String Ascii Floats.
From SR Require Import Base.CaseLib Model.GcsAst Model.GcsLex Model.GcsNum Model.GcsParse Model.GcsSpec.
Import ListNotations.
Open Scope Z_scope.

Inductive iout :=
| IProgram (b : block)   (* Parse returned a program *)
| IError                 (* Parse returned an error *)
| IDied                  (* the child process died (a panic in the lexing goroutine) *)
| IHung.                 (* no answer within the time limit *)

Inductive obs :=
| Obs (o : iout)
      (toks : option (list ltoken))   (* LexAll(src); None if the process died *)
      (leak : Z)                      (* runtime.NumGoroutine() after Parse returned minus before *)
      (ns : Z)                        (* wall time of New+Parse, nanoseconds *)
      (pulled : Z) (cursor : Z).      (* TokensPulled(), Cursor() after Parse returned *)

Definition case := (option block * list (bool * string) * obs)%type.

Definition source_of (chunks : list (bool * string)) : list Z :=
  flat_map (fun c => hex_bytes (snd c)) chunks.

Definition ltoken_eqb (a b : ltoken) : bool :=
  toktype_eqb (lt_typ a) (lt_typ b) && (lt_pos a =? lt_pos b) &&
  string_eqb (lt_val a) (lt_val b) && (lt_line a =? lt_line b).

Definition producer_closed (p : producer) : bool :=
  match p with PClosed => true | _ => false end.

(* what the model predicts: (outcome, tokens pulled, cursor, producer closed, LexAll) *)
Definition model_out (c : case) :=
  let '(_, chunks, _) := c in
  let inp := mk_input (source_of chunks) in
  let r := parse_input inp in
  (r_out r, r_pulled r, r_cursor r, r_prod r, lex_all inp).

Definition check_case (c : case) : bool :=
  let '(_, chunks, Obs o toks leak ns pulled cursor) := c in
  let inp := mk_input (source_of chunks) in
  let r := parse_input inp in
  let lx := lex_all inp in
  match r_out r, o with
  | OProgram b, IProgram b' =>
      block_eqb b b' && (r_pulled r =? pulled) && (r_cursor r =? cursor) &&
      Bool.eqb (producer_closed (r_prod r)) (leak =? 0)
  | OError, IError =>
      (r_pulled r =? pulled) && (r_cursor r =? cursor) &&
      Bool.eqb (producer_closed (r_prod r)) (leak =? 0)
  | ODied, IDied => true
  | _, _ => false
  end &&
  match lx, toks with
  | Ok ts, Some ts' => list_eqb ltoken_eqb ts ts'
  | Panic, None => true
  | _, _ => false
  end.

(* C13 on the implementation: it answered (program or error), nothing died or hung, no
   goroutine is left, the number of tokens pulled and the time are within a bound linear in
   the length of the source *)
Definition monitor_total (c : case) : bool :=
  let '(_, chunks, Obs o toks leak ns pulled cursor) := c in
  let len := Z.of_nat (List.length (source_of chunks)) in
  match o with IProgram _ | IError => true | _ => false end &&
  match toks with Some ts => Z.of_nat (List.length ts) <=? len + 2 | None => false end &&
  (leak =? 0) &&
  (pulled <=? len + 4) && (cursor <? pulled) &&
  (ns <=? 6000000000 + 50000 * len).   (* generous: the proved bound is the step count; this only guards against hangs on a loaded machine *)

(* C14 on the implementation:
   * a program derived from the grammar is accepted with exactly its tree, and the real lexer
     returns its canonical tokens whatever the layout;
   * whatever is accepted (valid program or one with a token deleted) is a derivation of the
     returned tree - so a program with a missing terminator, bracket or keyword part is
     rejected *)
Definition monitor_tree (c : case) : bool :=
  let '(expected, chunks, Obs o toks leak ns pulled cursor) := c in
  match toks with
  | None => false
  | Some ts =>
      match expected with
      | Some a =>
          match o with IProgram b => block_eqb a b | _ => false end &&
          program_matches (unparse_program a) ts
      | None => true
      end &&
      match o with
      | IProgram b => derives_b b ts
      | IError => true
      | _ => false
      end
  end.

(* for the non-vacuity examples and replay files *)
Definition monitor_case := monitor_total.
