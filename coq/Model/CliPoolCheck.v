(* Checker for the harness component `clipool` (C15, harness/cmd/corr/clipool.go): the REAL
   worker pool of the command-line program (cmd/srsim/execute.go: createPool / worker / start /
   processWorkerResult), exercised in the srsim binary built from the tree under test.

   A case is one run description plus (iterations, workers).  The harness computes, in its own
   process, the reference: the job seeds as pool.start draws them, every job run ALONE with a
   fresh evaluator, aggregated with the exported InitializeAggregators / Add / Flush; then it
   runs the binary twice (one worker; the generated number of workers) and reports, per run, the
   exit status and one flag per statistic of the overview: does the statistic in result.gz equal
   the reference (exactly for count / min / max / quartiles / histograms / series length, up to
   1e-9 relative for mean and SD -- arrival order differs between pools, property C19).

   What the model says about it.  A job of the pool is a run of the system of Model/Runs.v: its
   private state is (configuration, program, seed, its own evaluator and simulation), and the
   pool's channels only decide the SCHEDULE.  Theorem C15_interleaving_invariance (Props/C15.v,
   proved in Proofs/RunsProofs.v as interleaving_invariance) says that under the frame condition
   every run ends, in every schedule and after any number of other runs, exactly where it ends
   alone.  So the multiset of iteration results the aggregators receive is the multiset of the
   alone results, whatever the number of workers, and (property C19, flush_depends_on_multiset)
   the flushed statistics are those of the reference.  check_case below is the executable form of
   that statement: "the pool yields, for every job, the result of that job run alone" -- both
   runs exited 0 and every flag is true.  A pool that keeps state between the jobs of a worker
   (one evaluator per worker), draws the job seeds in a scheduling-dependent order, or loses /
   duplicates results is outside the frame condition and shows up as a false flag. *)
From Coq Require Import List ZArith Bool String.
From SR Require Import Base.CaseLib Base.GlobalTypes Model.RunSpec.
Import ListNotations.
Open Scope Z_scope.

Inductive cli_in := CliIn (run : runspec) (iterations workers : nat).

Definition flag := (string * bool)%type.

Inductive cli_out :=
| Cli (status1 : Z) (flags1 : list flag) (status2 : Z) (flags2 : list flag)
| CliSkip (why : string)     (* the reference itself produced no result: nothing to compare (counted; the
                                orchestrator bounds the share of such cases) *)
| CliHung                    (* the case did not finish within the per-case time limit *)
| HarnessPanic (msg : string).

Definition case := (cli_in * cli_out)%type.

(* the statistics compared, in the order the harness reports them (cliFlagNames in clipool.go) *)
Definition flag_names : list string :=
  [ "result_file"; "debug_seed"; "iterations";
    "dealt.min"; "dealt.max"; "dealt.mean"; "dealt.sd";
    "taken.min"; "taken.max"; "taken.mean"; "taken.sd";
    "av.min"; "av.max"; "av.mean"; "av.sd";
    "dpc.min"; "dpc.max"; "dpc.mean"; "dpc.sd"; "dpc.quartiles"; "dpc.hist";
    "dealt_by_cycle.len"; "dealt_by_cycle.min_max"; "dealt_by_cycle.mean_sd";
    "dealt_by_cycle.quartiles"; "dealt_by_cycle.hist";
    "taken_by_cycle.len"; "taken_by_cycle.min_max"; "taken_by_cycle.mean_sd";
    "taken_by_cycle.quartiles"; "taken_by_cycle.hist" ]%string.

Definition all_true : list flag := map (fun n => (n, true)) flag_names.

(* the model's prediction: both runs exit 0 and every statistic is the reference's *)
Definition model_out (c : case) : cli_out := Cli 0 all_true 0 all_true.

Definition flag_eqb (a b : flag) : bool := str_eqb (fst a) (fst b) && Bool.eqb (snd a) (snd b).

Definition out_eqb (a b : cli_out) : bool :=
  match a, b with
  | Cli s1 f1 s2 f2, Cli s1' f1' s2' f2' =>
      (s1 =? s1') && list_eqb flag_eqb f1 f1' && (s2 =? s2') && list_eqb flag_eqb f2 f2'
  | _, _ => false
  end.

Definition check_case (c : case) : bool :=
  match snd c with
  | CliSkip _ => true
  | o => out_eqb o (model_out c)
  end.

(* the property's own clause on what the implementation did, written without the model's output:
   both runs of the binary exited 0, reported every statistic, and every flag is true *)
Definition run_ok (status : Z) (flags : list flag) : bool :=
  (status =? 0) && Nat.eqb (List.length flags) (List.length flag_names) && forallb snd flags.

Definition monitor_case (c : case) : bool :=
  match snd c with
  | Cli s1 f1 s2 f2 => run_ok s1 f1 && run_ok s2 f2
  | CliSkip _ => true
  | CliHung => false
  | HarnessPanic _ => false
  end.
