(* Model of pkg/engine/event/handler/{simple,priority,mutable,cancel}.go and
   pkg/engine/logging/logger.go.  Executable; no proofs here.

   Listeners are data: each subscribed listener owns a finite queue of reactions; one
   invocation consumes one reaction (an exhausted queue behaves as [idle]).  A reaction
   performs nested emissions, then transforms the (mutable) event value, then answers the
   cancel verdict.  This is what "any listener code" can do that the handlers can observe. *)
From Coq Require Import List ZArith Bool.
Import ListNotations.
Open Scope Z_scope.

Inductive hkind := KSimple | KPriority | KMutable | KCancel.

Inductive xform := XAdd (k : Z) | XMul (k : Z) | XSet (k : Z).
Definition apply_x (x : xform) (v : Z) : Z :=
  match x with XAdd k => v + k | XMul k => v * k | XSet k => k end.

Record reaction := mkR { r_x : xform; r_cancel : bool; r_nested : list (nat * Z) }.
Definition idle : reaction := mkR (XAdd 0) false [].

Record listener := mkL { l_id : Z; l_prio : Z }.
Record handler := mkH { h_kind : hkind; h_ls : list listener }.

Inductive item :=
| ICall (lid : Z) (h : nat) (v : Z)            (* listener lid of handler h invoked, sees v *)
| ILog (lg : Z) (h : nat) (v : Z) (c : bool)   (* logger lg receives the event of handler h *)
| IRet (h : nat) (c : bool) (v : Z).           (* Emit on handler h returns *)

Record world := mkW {
  hs : list handler;
  loggers : list Z;
  reacts : list (Z * list reaction);
  next_id : Z;
  trace : list item }.

(* ---- structured record of one emission (specification side) ---- *)
Inductive frame := Frame (h : nat) (vin : Z) (calls : list call) (vout : Z) (c : bool)
with call := Call (l : listener) (vseen : Z) (r : reaction) (subs : list frame).

Definition kind_eqb (a b : hkind) : bool :=
  match a, b with
  | KSimple, KSimple | KPriority, KPriority | KMutable, KMutable | KCancel, KCancel => true
  | _, _ => false
  end.

Fixpoint pop (rs : list (Z * list reaction)) (lid : Z) : reaction * list (Z * list reaction) :=
  match rs with
  | [] => (idle, [])
  | (k, q) :: rest =>
      if k =? lid then
        match q with
        | [] => (idle, rs)
        | r :: q' => (r, (k, q') :: rest)
        end
      else let (r, rest') := pop rest lid in (r, (k, q) :: rest')
  end.

Definition add_trace (w : world) (it : list item) : world :=
  mkW (hs w) (loggers w) (reacts w) (next_id w) (trace w ++ it).
Definition set_reacts (w : world) (rs : list (Z * list reaction)) : world :=
  mkW (hs w) (loggers w) rs (next_id w) (trace w).

(* logging.Log: every registered logger, in registration order, exactly one call *)
Definition log_items (lgs : list Z) (h : nat) (v : Z) (c : bool) : list item :=
  map (fun lg => ILog lg h v c) lgs.

Definition emitter := world -> nat -> Z -> option (world * bool * Z * frame).

Fixpoint nested (E : emitter) (w : world) (ns : list (nat * Z)) : option (world * list frame) :=
  match ns with
  | [] => Some (w, [])
  | (h, v) :: ns' =>
      match E w h v with
      | None => None
      | Some (w1, _, _, fr) =>
          match nested E w1 ns' with
          | None => None
          | Some (w2, frs) => Some (w2, fr :: frs)
          end
      end
  end.

(* the `for _, listener := range handler.listeners` loop of the four Emit bodies *)
Fixpoint deliver (E : emitter) (k : hkind) (h : nat) (w : world) (ls : list listener) (v : Z)
  : option (world * bool * Z * list call) :=
  match ls with
  | [] => Some (w, false, v, [])
  | l :: rest =>
      let w1 := add_trace w [ICall (l_id l) h v] in
      let (r, rs') := pop (reacts w1) (l_id l) in
      let w2 := set_reacts w1 rs' in
      match nested E w2 (r_nested r) with
      | None => None
      | Some (w3, subs) =>
          let v' := if kind_eqb k KMutable then apply_x (r_x r) v else v in
          let cl := Call l v r subs in
          if kind_eqb k KCancel && r_cancel r then Some (w3, true, v', [cl])
          else match deliver E k h w3 rest v' with
               | None => None
               | Some (w4, c, v'', cls) => Some (w4, c, v'', cl :: cls)
               end
      end
  end.

Fixpoint emit (fuel : nat) : emitter :=
  match fuel with
  | O => fun _ _ _ => None
  | S f => fun w h v =>
      match nth_error (hs w) h with
      | None => None
      | Some hd =>
          match deliver (emit f) (h_kind hd) h w (h_ls hd) v with
          | None => None
          | Some (w1, c, v', cls) =>
              (* exactly one logging.Log on every path, after the loop *)
              Some (add_trace w1 (log_items (loggers w1) h v' c ++ [IRet h c v']), c, v',
                    Frame h v cls v' c)
          end
      end
  end.

(* Subscribe: simple = append; the others = append + sort.Sort by priority.  For the sizes
   the correspondence uses exactly (<= 12 listeners per handler) sort.Sort is insertion sort,
   hence stable, hence the new listener ends after every listener of priority <= its own. *)
Fixpoint insert_prio (l : listener) (ls : list listener) : list listener :=
  match ls with
  | [] => [l]
  | x :: rest => if l_prio l <? l_prio x then l :: ls else x :: insert_prio l rest
  end.

Definition subscribe_h (hd : handler) (l : listener) : handler :=
  match h_kind hd with
  | KSimple => mkH KSimple (h_ls hd ++ [l])
  | k => mkH k (insert_prio l (h_ls hd))
  end.

Fixpoint update_nth {A} (n : nat) (f : A -> A) (l : list A) : list A :=
  match l, n with
  | [], _ => []
  | x :: r, O => f x :: r
  | x :: r, S n' => x :: update_nth n' f r
  end.

Inductive op :=
| OSub (h : nat) (prio : Z) (rs : list reaction)
| OEmit (h : nat) (v : Z)
| OInit (lgs : list Z).

Definition init (kinds : list hkind) : world :=
  mkW (map (fun k => mkH k []) kinds) [] [] 0 [].

(* one top-level operation; the frame of a top-level emission is returned with the handler
   table and logger list it ran under *)
Definition step (fuel : nat) (w : world) (o : op)
  : option (world * option (list handler * list Z * frame)) :=
  match o with
  | OSub h prio rs =>
      let l := mkL (next_id w) prio in
      Some (mkW (update_nth h (fun hd => subscribe_h hd l) (hs w)) (loggers w)
                ((next_id w, rs) :: reacts w) (next_id w + 1) (trace w), None)
  | OEmit h v =>
      match emit fuel w h v with
      | None => None
      | Some (w', _, _, fr) => Some (w', Some (hs w, loggers w, fr))
      end
  | OInit lgs => Some (mkW (hs w) lgs (reacts w) (next_id w) (trace w), None)
  end.

Fixpoint run (fuel : nat) (w : world) (ops : list op)
  : option (world * list (list handler * list Z * frame)) :=
  match ops with
  | [] => Some (w, [])
  | o :: rest =>
      match step fuel w o with
      | None => None
      | Some (w1, fo) =>
          match run fuel w1 rest with
          | None => None
          | Some (w2, frs) =>
              Some (w2, match fo with Some x => x :: frs | None => frs end)
          end
      end
  end.

(* ---- specification-side functions on frames ---- *)
Fixpoint flatten (lgs : list Z) (fr : frame) : list item :=
  match fr with
  | Frame h vin calls vout c =>
      flat_map (flatten_call lgs h) calls ++ log_items lgs h vout c ++ [IRet h c vout]
  end
with flatten_call (lgs : list Z) (h : nat) (cl : call) : list item :=
  match cl with
  | Call l vs r subs => ICall (l_id l) h vs :: flat_map (flatten lgs) subs
  end.

(* completion order of the emission forest: (handler, logged value, cancelled) *)
Fixpoint postorder (fr : frame) : list (nat * Z * bool) :=
  match fr with
  | Frame h vin calls vout c => flat_map postorder_call calls ++ [(h, vout, c)]
  end
with postorder_call (cl : call) : list (nat * Z * bool) :=
  match cl with
  | Call _ _ _ subs => flat_map postorder subs
  end.

Definition log_of (lg : Z) (tr : list item) : list (nat * Z * bool) :=
  flat_map (fun it => match it with
                      | ILog lg' h v c => if lg' =? lg then [(h, v, c)] else []
                      | _ => [] end) tr.

(* what a listener's invocations look like in one frame *)
Definition call_l (c : call) := match c with Call l _ _ _ => l end.
Definition call_v (c : call) := match c with Call _ v _ _ => v end.
Definition call_r (c : call) := match c with Call _ _ r _ => r end.
Definition call_subs (c : call) := match c with Call _ _ _ s => s end.

(* value after a call, as the next listener must see it *)
Definition after_call (k : hkind) (c : call) : Z :=
  if kind_eqb k KMutable then apply_x (r_x (call_r c)) (call_v c) else call_v c.

Fixpoint threaded (k : hkind) (vin : Z) (cs : list call) (vout : Z) : Prop :=
  match cs with
  | [] => vout = vin
  | c :: rest => call_v c = vin /\ threaded k (after_call k c) rest vout
  end.
