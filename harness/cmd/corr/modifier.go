package main

// Correspondence harness for Model/Modifier.v (property C05): drives the real
// modifier.Manager (modifier.NewManager) over a small fake engine.  The catalog of a case is
// registered under case-unique names; listener behaviour is the script carried by the
// catalog entry.  Every AddModifier call gets a fresh tag which is passed as
// info.Modifier.State, so every instance the implementation reports is identified.

import (
	"fmt"
	"math"
	"math/rand"
	"strconv"
	"strings"

	"github.com/simimpact/srsim/pkg/engine"
	"github.com/simimpact/srsim/pkg/engine/event"
	"github.com/simimpact/srsim/pkg/engine/info"
	"github.com/simimpact/srsim/pkg/engine/modifier"
	"github.com/simimpact/srsim/pkg/engine/prop"
	"github.com/simimpact/srsim/pkg/key"
	"github.com/simimpact/srsim/pkg/model"

	"verif/harness/term"
)

// ---- random source: splitmix64, 63-bit outputs with ten low zero bits (Model: sm_next) ----
type smSource struct{ s uint64 }

func (r *smSource) Int63() int64 {
	r.s += 0x9E3779B97F4A7C15
	z := r.s
	z = (z ^ (z >> 30)) * 0xBF58476D1CE4E5B9
	z = (z ^ (z >> 27)) * 0x94D049BB133111EB
	z ^= z >> 31
	return int64((z >> 11) << 10)
}
func (r *smSource) Seed(int64) {}

// ---- fake engine: only what the manager calls ----
type modEngine struct {
	engine.Engine
	ev    *event.System
	rnd   *rand.Rand
	mgr   *modifier.Manager
	attrs map[key.TargetID]*info.Attributes
}

func (e *modEngine) Events() *event.System       { return e.ev }
func (e *modEngine) Rand() *rand.Rand            { return e.rnd }
func (e *modEngine) IsValid(t key.TargetID) bool { _, ok := e.attrs[t]; return ok }
func (e *modEngine) Stats(t key.TargetID) *info.Stats {
	a, ok := e.attrs[t]
	if !ok {
		d := info.DefaultAttribute()
		a = &d
	}
	return info.NewStats(t, a, e.mgr.EvalModifiers(t))
}

var modCaseUID int

type modWorld struct {
	uid     int
	eng     *modEngine
	mgr     *modifier.Manager
	units   []key.TargetID
	ncat    int
	depth   int
	nextTag int64
	handles map[int64]*modifier.Instance
	events  []term.T
	total   int
}

func (w *modWorld) name(n int64) key.Modifier { return key.Modifier(fmt.Sprintf("vm%d_%d", w.uid, n)) }
func (w *modWorld) idx(name key.Modifier) int64 {
	s := string(name)
	i := strings.LastIndex(s, "_")
	n, err := strconv.ParseInt(s[i+1:], 10, 64)
	if err != nil {
		panic(err)
	}
	return n
}

func intOf(x float64) int64 {
	if x != math.Trunc(x) || math.Abs(x) > 1e15 {
		panic(fmt.Sprintf("non-integral count %v", x))
	}
	return int64(x)
}

func tagOf(state any) int64 {
	if v, ok := state.(int64); ok {
		return v
	}
	panic("instance without tag")
}

func (w *modWorld) mi(m info.Modifier) term.T {
	return term.C("MI", term.I(tagOf(m.State)), term.I(w.idx(m.Name)), term.I(int64(m.Source)),
		term.I(int64(m.Duration)), term.B(m.TickImmediately), term.I(intOf(m.Count)), term.I(intOf(m.MaxCount)),
		term.I(intOf(m.CountAddWhenStack)), term.B(m.CanDispel))
}

// a history whose listener scripts re-add and re-remove stacking modifiers at every nesting level can record
// millions of events (gigabytes): such a case is given up and reported as CaseTooLarge, which the orchestrator
// counts among the discarded oversize cases (nothing is learnt from it that smaller cases do not show)
const modMaxEvents = 60000

type modTooLarge struct{}

func (w *modWorld) rec(t term.T) {
	w.total++
	if w.total > modMaxEvents {
		panic(modTooLarge{})
	}
	w.events = append(w.events, t)
}

func selOf(m *modifier.Instance, s term.T) key.TargetID {
	n, a := term.Ctor(s)
	switch n {
	case "TOwner":
		return m.Owner()
	case "TSource":
		return m.Source()
	case "TUnit":
		return key.TargetID(term.Int(a[0]))
	}
	panic("bad tsel")
}

// mkD name src chance dur tick cnt max cadd stats
func (w *modWorld) addModifier(target key.TargetID, d term.T, src *key.TargetID) int64 {
	_, a := term.Ctor(d)
	tag := w.nextTag
	w.nextTag++
	m := info.Modifier{
		Name:              w.name(term.Int(a[0])),
		Source:            key.TargetID(term.Int(a[1])),
		State:             tag,
		Chance:            term.Float(a[2]),
		Duration:          int(term.Int(a[3])),
		TickImmediately:   term.Bool(a[4]),
		Count:             float64(term.Int(a[5])),
		MaxCount:          float64(term.Int(a[6])),
		CountAddWhenStack: float64(term.Int(a[7])),
	}
	if src != nil {
		m.Source = *src
	}
	if term.Bool(a[8]) {
		m.Stats = info.PropMap{prop.ATKPercent: 0.25}
	}
	ok, err := w.mgr.AddModifier(target, m)
	switch {
	case err != nil && strings.HasPrefix(err.Error(), "invalid target"):
		return 2
	case err != nil && strings.HasPrefix(err.Error(), "invalid source"):
		return 3
	case err != nil:
		panic(err)
	case ok:
		return 0
	}
	return 1
}

func (w *modWorld) dispel(t key.TargetID, status, order, count int64) {
	w.mgr.DispelStatus(t, info.Dispel{Status: model.StatusType(status), Order: model.DispelOrder(order), Count: int(count)})
}

func (w *modWorld) doAct(m *modifier.Instance, act term.T) {
	n, a := term.Ctor(act)
	switch n {
	case "AAdd":
		src := selOf(m, a[1])
		w.addModifier(selOf(m, a[0]), a[2], &src)
	case "ARemove":
		w.mgr.RemoveModifier(selOf(m, a[0]), w.name(term.Int(a[1])))
	case "ARemoveSrc":
		w.mgr.RemoveModifierFromSource(selOf(m, a[0]), selOf(m, a[1]), w.name(term.Int(a[2])))
	case "ARemoveSelf":
		m.RemoveSelf()
	case "ADispel":
		w.dispel(selOf(m, a[0]), term.Int(a[1]), term.Int(a[2]), term.Int(a[3]))
	case "AExtDur":
		w.mgr.ExtendDuration(selOf(m, a[0]), w.name(term.Int(a[1])), int(term.Int(a[2])))
	case "AExtCnt":
		w.mgr.ExtendCount(selOf(m, a[0]), w.name(term.Int(a[1])), float64(term.Int(a[2])))
	default:
		panic("bad act " + n)
	}
}

func (w *modWorld) listener(kind string, script []term.T) func(*modifier.Instance) {
	return func(m *modifier.Instance) {
		tag := tagOf(m.State())
		w.handles[tag] = m
		w.rec(term.C("VCall", term.C(kind), term.I(tag)))
		if w.depth > 0 {
			w.depth--
			for _, a := range script {
				w.doAct(m, a)
			}
			w.depth++
		}
	}
}

var stackingOf = map[string]modifier.StackingBehavior{
	"Unique": modifier.Unique, "ReplaceBySource": modifier.ReplaceBySource, "Replace": modifier.Replace,
	"Multiple": modifier.Multiple, "Refresh": modifier.Refresh, "Prolong": modifier.Prolong, "Merge": modifier.Merge,
}

// mkCfg stack tick dur cnt max cadd status dispel flag ls
func (w *modWorld) register(i int, c term.T) {
	_, a := term.Ctor(c)
	st, _ := term.Ctor(a[0])
	tk, _ := term.Ctor(a[1])
	cfg := modifier.Config{
		Stacking:          stackingOf[st],
		TickMoment:        modifier.ModifierPhase2End,
		Duration:          int(term.Int(a[2])),
		Count:             float64(term.Int(a[3])),
		MaxCount:          float64(term.Int(a[4])),
		CountAddWhenStack: float64(term.Int(a[5])),
		StatusType:        model.StatusType(term.Int(a[6])),
		CanDispel:         term.Bool(a[7]),
	}
	if tk == "Phase1End" {
		cfg.TickMoment = modifier.ModifierPhase1End
	}
	if term.Bool(a[8]) {
		cfg.BehaviorFlags = []model.BehaviorFlag{model.BehaviorFlag_STAT_CTRL}
	}
	seen := map[string]bool{}
	for _, e := range term.List(a[9]) {
		it := term.TupleItems(e)
		kind, _ := term.Ctor(it[0])
		if seen[kind] { // the model's lookup takes the first entry of a kind
			continue
		}
		seen[kind] = true
		f := w.listener(kind, term.List(it[1]))
		switch kind {
		case "LAdd":
			cfg.Listeners.OnAdd = f
		case "LRemove":
			cfg.Listeners.OnRemove = f
		case "LDispel":
			cfg.Listeners.OnDispel = f
		case "LExtDur":
			cfg.Listeners.OnExtendDuration = f
		case "LExtCnt":
			cfg.Listeners.OnExtendCount = f
		case "LProp":
			cfg.Listeners.OnPropertyChange = f
		case "LPhase1":
			cfg.Listeners.OnPhase1 = f
		case "LPhase2":
			cfg.Listeners.OnPhase2 = f
		default:
			panic("bad listener kind")
		}
	}
	modifier.Register(w.name(int64(i)), cfg)
}

func (w *modWorld) lists() term.T {
	out := []term.T{}
	for _, u := range w.units {
		seen := map[key.Modifier]int{}
		cache := map[key.Modifier][]info.Modifier{}
		l := []term.T{}
		for _, cs := range w.mgr.EvalModifiers(u).Modifiers {
			if _, ok := cache[cs.Name]; !ok {
				cache[cs.Name] = w.mgr.GetModifiers(u, cs.Name)
			}
			m := cache[cs.Name][seen[cs.Name]]
			seen[cs.Name]++
			l = append(l, term.Tup(term.I(tagOf(m.State)), term.I(w.idx(m.Name)), term.I(int64(m.Source)),
				term.I(intOf(m.Count)), term.I(int64(m.Duration))))
		}
		out = append(out, term.L(l...))
	}
	return term.L(out...)
}

// per unit: does the evaluated change set carry the STAT_CTRL flag, and does HasFlag agree
// (property C06: flags are the union over exactly the instances attached at this moment)
func (w *modWorld) flags() term.T {
	out := []term.T{}
	for _, u := range w.units {
		inSet := false
		for _, f := range w.mgr.EvalModifiers(u).Flags {
			if f == model.BehaviorFlag_STAT_CTRL {
				inSet = true
			}
		}
		has := w.mgr.HasFlag(u, model.BehaviorFlag_STAT_CTRL)
		out = append(out, term.Tup(term.B(inSet), term.B(has)))
	}
	return term.L(out...)
}

func newModWorld(wd term.T, seed int64, depth int) *modWorld {
	modCaseUID++
	w := &modWorld{uid: modCaseUID, depth: depth, handles: map[int64]*modifier.Instance{}}
	_, wa := term.Ctor(wd) // mkWd cat units
	eng := &modEngine{ev: &event.System{}, attrs: map[key.TargetID]*info.Attributes{}}
	eng.rnd = rand.New(&smSource{s: uint64(seed)})
	for _, u := range term.List(wa[1]) {
		it := term.TupleItems(u)
		id := key.TargetID(term.Int(it[0]))
		fs := term.TupleItems(it[1])
		a := info.DefaultAttribute()
		a.BaseStats[prop.EffectHitRate] = term.Float(fs[0])
		a.BaseStats[prop.EffectRES] = term.Float(fs[1])
		a.BaseDebuffRES[model.BehaviorFlag_STAT_CTRL] = term.Float(fs[2])
		if _, dup := eng.attrs[id]; dup {
			continue // the model's lookup takes the first entry
		}
		eng.attrs[id] = &a
		w.units = append(w.units, id)
	}
	w.eng = eng
	w.mgr = modifier.NewManager(eng)
	eng.mgr = w.mgr
	for i, c := range term.List(wa[0]) {
		w.register(i, c)
		w.ncat++
	}
	ev := eng.ev
	ev.ModifierAdded.Subscribe(func(e event.ModifierAdded) {
		w.rec(term.C("VAdded", term.I(int64(e.Target)), w.mi(e.Modifier), term.F(e.Chance)))
	})
	ev.ModifierResisted.Subscribe(func(e event.ModifierResisted) {
		w.rec(term.C("VResisted", term.I(int64(e.Target)), term.I(int64(e.Source)), term.I(w.idx(e.Modifier)),
			term.F(e.Chance), term.F(e.BaseChance), term.F(e.EffectHitRate), term.F(e.EffectRES), term.F(e.DebuffRES)))
	})
	ev.ModifierRemoved.Subscribe(func(e event.ModifierRemoved) {
		w.rec(term.C("VRemoved", term.I(int64(e.Target)), w.mi(e.Modifier)))
	})
	ev.ModifierDispelled.Subscribe(func(e event.ModifierDispelled) {
		w.rec(term.C("VDispelled", term.I(int64(e.Target)), w.mi(e.Modifier)))
	})
	ev.ModifierExtendedDuration.Subscribe(func(e event.ModifierExtendedDuration) {
		w.rec(term.C("VExtDur", term.I(int64(e.Target)), w.mi(e.Modifier), term.I(int64(e.OldValue)), term.I(int64(e.NewValue))))
	})
	ev.ModifierExtendedCount.Subscribe(func(e event.ModifierExtendedCount) {
		w.rec(term.C("VExtCnt", term.I(int64(e.Target)), w.mi(e.Modifier), term.I(intOf(e.OldValue)), term.I(intOf(e.NewValue))))
	})
	return w
}

func (w *modWorld) doOp(o term.T) int64 {
	n, a := term.Ctor(o)
	switch n {
	case "OAdd":
		return w.addModifier(key.TargetID(term.Int(a[0])), a[1], nil)
	case "ORemove":
		w.mgr.RemoveModifier(key.TargetID(term.Int(a[0])), w.name(term.Int(a[1])))
	case "ORemoveSrc":
		w.mgr.RemoveModifierFromSource(key.TargetID(term.Int(a[0])), key.TargetID(term.Int(a[1])), w.name(term.Int(a[2])))
	case "ORemoveSelf":
		if h, ok := w.handles[term.Int(a[0])]; ok {
			h.RemoveSelf()
		}
	case "ODispel":
		w.dispel(key.TargetID(term.Int(a[0])), term.Int(a[1]), term.Int(a[2]), term.Int(a[3]))
	case "OExtDur":
		w.mgr.ExtendDuration(key.TargetID(term.Int(a[0])), w.name(term.Int(a[1])), int(term.Int(a[2])))
	case "OExtCnt":
		w.mgr.ExtendCount(key.TargetID(term.Int(a[0])), w.name(term.Int(a[1])), float64(term.Int(a[2])))
	case "OTick":
		w.mgr.Tick(key.TargetID(term.Int(a[0])), info.BattlePhase(term.Int(a[1])))
	default:
		panic("bad op " + n)
	}
	return 0
}

// input: (world, seed, depth, ops); output: Obs [(result, lists, events)] per op
func runModifier(in term.T) (res term.T) {
	defer func() {
		if r := recover(); r != nil {
			if _, ok := r.(modTooLarge); ok {
				res = term.C("CaseTooLarge")
				return
			}
			panic(r)
		}
	}()
	it := term.TupleItems(in)
	w := newModWorld(it[0], term.Int(it[1]), int(term.Int(it[2])))
	out := []term.T{}
	for _, o := range term.List(it[3]) {
		w.events = nil
		res := w.doOp(o)
		out = append(out, term.Tup(term.I(res), w.lists(), w.flags(), term.L(w.events...)))
	}
	return term.C("Obs", term.L(out...))
}

// ---- generator ----

func genTsel(r *term.Rng) term.T {
	switch r.Intn(4) {
	case 0:
		return term.C("TSource")
	case 1:
		return term.C("TUnit", term.I(int64(r.Range(1, 3))))
	}
	return term.C("TOwner")
}

func genModUnit(r *term.Rng) int64 {
	if r.Chance(1, 25) {
		return term.Pick(r, []int64{0, 7})
	}
	return int64(r.Range(1, 3))
}

func genName(r *term.Rng, ncat int) int64 {
	if r.Chance(1, 40) {
		return int64(ncat) // not registered
	}
	return int64(r.Intn(ncat))
}

func genDesc(r *term.Rng, ncat int) term.T {
	chance := 0.0
	if r.Chance(1, 4) {
		chance = term.Pick(r, []float64{0.5, 1.0, 0.3, 2.0, -1, 0.05, 0.75})
	}
	return term.C("mkD", term.I(genName(r, ncat)), term.I(genModUnit(r)), term.F(chance),
		term.I(term.Pick(r, []int64{0, 0, 1, 2, 3, -1})), term.B(r.Chance(1, 3)),
		term.I(term.Pick(r, []int64{0, 0, 1, 2, 5, -1})), term.I(term.Pick(r, []int64{0, 0, 2, 3})),
		term.I(term.Pick(r, []int64{0, 0, 1, 2})), term.B(r.Chance(1, 5)))
}

func genAct(r *term.Rng, ncat int) term.T {
	switch r.Intn(9) {
	case 0, 1:
		return term.C("AAdd", genTsel(r), genTsel(r), genDesc(r, ncat))
	case 2:
		return term.C("ARemove", genTsel(r), term.I(genName(r, ncat)))
	case 3:
		return term.C("ARemoveSrc", genTsel(r), genTsel(r), term.I(genName(r, ncat)))
	case 4, 5:
		return term.C("ARemoveSelf")
	case 6:
		return term.C("ADispel", genTsel(r), term.I(int64(r.Intn(3))), term.I(int64(r.Range(1, 3))), term.I(term.Pick(r, []int64{0, 1, 2})))
	case 7:
		return term.C("AExtDur", genTsel(r), term.I(genName(r, ncat)), term.I(term.Pick(r, []int64{-1, 1, 2})))
	}
	return term.C("AExtCnt", genTsel(r), term.I(genName(r, ncat)), term.I(term.Pick(r, []int64{-1, -2, 1, 2})))
}

var lkinds = []string{"LAdd", "LRemove", "LDispel", "LExtDur", "LExtCnt", "LProp", "LPhase1", "LPhase2"}
var stackings = []string{"Unique", "ReplaceBySource", "Replace", "Multiple", "Refresh", "Prolong", "Merge"}

func genCfg(r *term.Rng, ncat int, i int, quiet bool) term.T {
	ls := []term.T{}
	for _, k := range lkinds {
		p := 4
		if k == "LProp" {
			p = 10
		}
		if k == "LAdd" {
			p = 2
		}
		if !r.Chance(1, p) {
			continue
		}
		acts := []term.T{}
		if !quiet {
			n := r.Intn(3)
			if k == "LProp" && n > 1 {
				n = 1
			}
			if (k == "LRemove" || k == "LDispel") && i == 0 && r.Chance(1, 2) {
				// (only on the first config of a case: on every config the nested histories explode)
				// a removal listener that attaches several modifiers to the unit whose list is being cut:
				// the batch being announced must not be disturbed by them
				for j := r.Range(2, 3); j > 0; j-- {
					acts = append(acts, term.C("AAdd", term.C("TOwner"), genTsel(r), genDesc(r, ncat)))
				}
				n = 0
			}
			for ; n > 0; n-- {
				if (k == "LExtCnt" || k == "LExtDur" || k == "LPhase1" || k == "LPhase2") && r.Chance(1, 2) {
					// listeners that change the owner's list while the manager iterates over it
					switch r.Intn(3) {
					case 0:
						acts = append(acts, term.C("ARemove", term.C("TOwner"), term.I(genName(r, ncat))))
					case 1:
						acts = append(acts, term.C("ARemoveSelf"))
					default:
						acts = append(acts, term.C("AAdd", term.C("TOwner"), genTsel(r), genDesc(r, ncat)))
					}
					continue
				}
				acts = append(acts, genAct(r, ncat))
			}
		}
		ls = append(ls, term.Tup(term.C(k), term.L(acts...)))
	}
	st := stackings[r.Intn(len(stackings))]
	if i < len(stackings) && r.Chance(1, 2) {
		st = stackings[(i*3+r.Intn(7))%7]
	}
	tick := "Phase2End"
	if r.Chance(1, 2) {
		tick = "Phase1End"
	}
	return term.C("mkCfg", term.C(st), term.C(tick),
		term.I(term.Pick(r, []int64{0, 0, 1, 2, 3})), term.I(term.Pick(r, []int64{0, 0, 1, 2})),
		term.I(term.Pick(r, []int64{0, 0, 1, 3, 5})), term.I(term.Pick(r, []int64{0, 0, 1, 2})),
		term.I(int64(r.Intn(3))), term.B(r.Chance(3, 4)), term.B(r.Chance(1, 3)), term.L(ls...))
}

func genModifier(r *term.Rng, idx int) term.T {
	ncat := r.Range(2, 5)
	quiet := r.Chance(1, 4) // no scripts: long pure histories
	cat := []term.T{}
	for i := 0; i < ncat; i++ {
		cat = append(cat, genCfg(r, ncat, i, quiet))
	}
	fpool := []float64{0, 0, 0.5, -0.2, 1.0, 0.3, 0.1}
	units := []term.T{}
	for u := 1; u <= 3; u++ {
		units = append(units, term.Tup(term.I(int64(u)),
			term.Tup(term.F(term.Pick(r, fpool)), term.F(term.Pick(r, fpool)), term.F(term.Pick(r, fpool)))))
	}
	depth := term.Pick(r, []int{0, 1, 1, 2, 2, 3})
	nops := r.Range(5, 80)
	ops := []term.T{}
	tags := 0
	if r.Chance(1, 5) {
		// scenario: a listener of config 0 changes its owner's list while the manager walks it
		kind := term.Pick(r, []string{"LExtCnt", "LExtCnt", "LExtDur", "LExtDur", "LPhase1", "LPhase2", "LProp", "LRemove", "LDispel"})
		var act term.T
		switch r.Intn(6) {
		case 0, 1, 2:
			act = term.C("ARemove", term.C("TOwner"), term.I(1))
		case 3:
			act = term.C("ARemoveSelf")
		case 4:
			act = term.C("ARemove", term.C("TOwner"), term.I(0))
		default:
			act = term.C("AAdd", term.C("TOwner"), term.C("TOwner"), genDesc(r, ncat))
		}
		tick := "Phase2End"
		if r.Bool() {
			tick = "Phase1End"
		}
		cat[0] = term.C("mkCfg", term.C(term.Pick(r, []string{"Multiple", "Multiple", "ReplaceBySource", "Merge"})), term.C(tick),
			term.I(term.Pick(r, []int64{0, 2, 3})), term.I(term.Pick(r, []int64{1, 2})), term.I(9), term.I(1),
			term.I(1), term.B(true), term.B(false), term.L(term.Tup(term.C(kind), term.L(act))))
		cat[1] = term.C("mkCfg", term.C("Multiple"), term.C(tick), term.I(0), term.I(0), term.I(0), term.I(0),
			term.I(1), term.B(true), term.B(false), term.L())
		if depth == 0 {
			depth = 1
		}
		u := int64(r.Range(1, 3))
		names := []int64{0, 1, 0}
		for k := r.Intn(4); k > 0; k-- {
			names = append(names, int64(r.Intn(2)))
		}
		for _, nm := range names {
			ops = append(ops, term.C("OAdd", term.I(u), term.C("mkD", term.I(nm), term.I(int64(r.Range(1, 3))), term.F(0),
				term.I(term.Pick(r, []int64{0, 2, 3})), term.B(r.Bool()), term.I(0), term.I(0), term.I(0), term.B(kind == "LProp" && r.Bool()))))
			tags++
		}
		switch kind {
		case "LExtCnt":
			ops = append(ops, term.C("OExtCnt", term.I(u), term.I(0), term.I(term.Pick(r, []int64{1, 1, 2, -1}))))
		case "LExtDur":
			ops = append(ops, term.C("OExtDur", term.I(u), term.I(0), term.I(term.Pick(r, []int64{1, 2, -1}))))
		case "LPhase1":
			ops = append(ops, term.C("OTick", term.I(u), term.I(2)), term.C("OTick", term.I(u), term.I(3)))
		case "LPhase2":
			ops = append(ops, term.C("OTick", term.I(u), term.I(2)), term.C("OTick", term.I(u), term.I(6)), term.C("OTick", term.I(u), term.I(8)))
		case "LProp":
			ops = append(ops, term.C("OAdd", term.I(u), term.C("mkD", term.I(1), term.I(1), term.F(0), term.I(0), term.B(false), term.I(0), term.I(0), term.I(0), term.B(true))))
			tags++
		case "LRemove":
			ops = append(ops, term.C("ORemove", term.I(u), term.I(0)))
		default:
			ops = append(ops, term.C("ODispel", term.I(u), term.I(1), term.I(int64(r.Range(1, 3))), term.I(term.Pick(r, []int64{0, 1, 2}))))
		}
	}
	for len(ops) < nops {
		switch k := r.Intn(20); {
		case k < 8:
			ops = append(ops, term.C("OAdd", term.I(genModUnit(r)), genDesc(r, ncat)))
			tags += 2
		case k < 9:
			ops = append(ops, term.C("ORemove", term.I(genModUnit(r)), term.I(genName(r, ncat))))
		case k < 10:
			ops = append(ops, term.C("ORemoveSrc", term.I(genModUnit(r)), term.I(genModUnit(r)), term.I(genName(r, ncat))))
		case k < 12:
			ops = append(ops, term.C("ORemoveSelf", term.I(int64(r.Intn(tags+1)))))
		case k < 13:
			ops = append(ops, term.C("ODispel", term.I(genModUnit(r)), term.I(int64(r.Intn(3))),
				term.I(term.Pick(r, []int64{1, 2, 3, 1, 2, 3, 0})), term.I(term.Pick(r, []int64{0, 1, 1, 2, 2, -1, 5}))))
		case k < 14:
			ops = append(ops, term.C("OExtDur", term.I(genModUnit(r)), term.I(genName(r, ncat)), term.I(term.Pick(r, []int64{-2, -1, 0, 1, 2, 3}))))
		case k < 15:
			ops = append(ops, term.C("OExtCnt", term.I(genModUnit(r)), term.I(genName(r, ncat)), term.I(term.Pick(r, []int64{-3, -2, -1, 0, 1, 2, 10}))))
		case k < 17:
			// a whole turn of one unit
			u := int64(r.Range(1, 3))
			for _, ph := range []int64{2, 3, 6, 8} {
				ops = append(ops, term.C("OTick", term.I(u), term.I(ph)))
				if ph == 3 && r.Chance(1, 2) {
					ops = append(ops, term.C("OAdd", term.I(genModUnit(r)), genDesc(r, ncat)))
					tags += 2
				}
			}
		default:
			ops = append(ops, term.C("OTick", term.I(genModUnit(r)), term.I(term.Pick(r, []int64{2, 3, 6, 8, 2, 3, 6, 8, 1, 5}))))
		}
		if r.Chance(1, 25) {
			// a burst: several instances on one unit, then an operation that walks the whole list
			u := int64(r.Range(1, 3))
			for k := r.Range(2, 5); k > 0; k-- {
				ops = append(ops, term.C("OAdd", term.I(u), genDesc(r, ncat)))
				tags += 2
			}
			switch r.Intn(4) {
			case 0:
				ops = append(ops, term.C("OExtCnt", term.I(u), term.I(genName(r, ncat)), term.I(term.Pick(r, []int64{-1, 1, 2}))))
			case 1:
				ops = append(ops, term.C("OExtDur", term.I(u), term.I(genName(r, ncat)), term.I(term.Pick(r, []int64{-1, 1, 2}))))
			case 2:
				ops = append(ops, term.C("ODispel", term.I(u), term.I(int64(r.Intn(3))), term.I(int64(r.Range(1, 3))), term.I(term.Pick(r, []int64{0, 1, 2, 3}))))
			default:
				ops = append(ops, term.C("ORemoveSelf", term.I(int64(r.Intn(tags+1)))))
			}
		}
	}
	return term.Tup(term.C("mkWd", term.L(cat...), term.L(units...)), term.I(int64(r.Intn(1<<30))), term.Nat(depth), term.L(ops...))
}

func kindsModifier(in term.T) map[string]int {
	m := map[string]int{}
	it := term.TupleItems(in)
	_, wa := term.Ctor(it[0])
	for _, c := range term.List(wa[0]) {
		_, a := term.Ctor(c)
		st, _ := term.Ctor(a[0])
		tk, _ := term.Ctor(a[1])
		m["cfg_"+st]++
		m["cfg_"+tk]++
		for _, e := range term.List(a[9]) {
			k, _ := term.Ctor(term.TupleItems(e)[0])
			m["listener_"+k]++
			for _, act := range term.List(term.TupleItems(e)[1]) {
				an, _ := term.Ctor(act)
				m["act_"+an]++
			}
		}
	}
	for _, o := range term.List(it[3]) {
		n, a := term.Ctor(o)
		m[n]++
		if n == "OTick" {
			m[fmt.Sprintf("OTick_phase%d", term.Int(a[1]))]++
		}
		if n == "ODispel" {
			m[fmt.Sprintf("ODispel_order%d", term.Int(a[2]))]++
		}
	}
	return m
}

func init() {
	register("modifier", component{gen: genModifier, run: runModifier, kinds: kindsModifier})
}
