(* Proofs for C17 (heals) about Model/Heal.v.
   - statements that hold at EVERY instance of the arithmetic (hence for the executed binary64
     model): what a heal emits, from which (adjusted) event it is computed, that a heal from a
     source that is not alive does nothing;
   - order facts at the binary64 level: the HP ratio written by a heal is never above 1;
   - exact algebra at the real instance [RNum] of the same definitions: the documented
     amount, the overflow split, "HP rises by the amount but not above the maximum". *)
From Coq Require Import List ZArith Bool Reals Lra Lia Floats Permutation.
From SR Require Import Model.CombatCore Model.Heal Proofs.CombatFacts.
Import ListNotations.

(* ====================================================================================== *)
(* 1. Every instance                                                                       *)
(* ====================================================================================== *)
Section Any.
  Variable N : NumOps.

  (* the event as the computation sees it: after the listeners' adjustments *)
  Definition adjusted (w : world N) (source t : Z) (terms : pmap N) (flat : num N) (adjs : list (adj N)) :=
    apply_adjs N (stats_of N w source, stats_of N w t, terms, flat) adjs.

  Lemma heal_dead_source_nothing w key source ts terms flat snapf adjs :
    ts = [] \/ is_alive N w source = false ->
    heal N w key source ts terms flat snapf adjs = (w, []).
  Proof.
    intros [ -> | H ]; [reflexivity|]. unfold heal. rewrite H. destruct ts; reflexivity.
  Qed.

  (* one target: HealStart carries the adjusted event, the amount and the overflow are computed
     from that adjusted event, the applied part goes to the attribute service (not as damage),
     HealEnd reports both parts *)
  Lemma heal_one_shape w key source t terms flat snapf adjs :
    forall healer target terms' flat',
      adjusted w source t terms flat adjs = (healer, target, terms', flat') ->
      let raw := heal_raw N healer target terms' flat' in
      let applied := fst (heal_split N target raw) in
      let overflow := snd (heal_split N target raw) in
      heal_one N w key source t terms flat snapf adjs =
        (fst (modify_hp N w key t source applied false),
         IHealStart key (s_id N target) (s_id N healer)
                    (fst (heal_event_stats N healer target)) (snd (heal_event_stats N healer target))
                    (sort_terms N terms') flat' snapf
           :: snd (modify_hp N w key t source applied false)
           ++ [IHealEnd key t source applied overflow snapf]).
  Proof.
    intros healer target terms' flat' H. unfold heal_one. unfold adjusted in H. rewrite H.
    cbn zeta. destruct (heal_split N target (heal_raw N healer target terms' flat')) as [a o].
    cbn [fst snd heal_event_stats].
    destruct (modify_hp N w key t source a false) as [w1 evs]. reflexivity.
  Qed.

  (* several targets are healed one after the other, each from the state the previous left *)
  Lemma heal_targets_cons w key source t ts terms flat snapf adjs :
    heal_targets N w key source (t :: ts) terms flat snapf adjs =
      (fst (heal_targets N (fst (heal_one N w key source t terms flat snapf adjs)) key source ts terms flat snapf adjs),
       snd (heal_one N w key source t terms flat snapf adjs) ++
       snd (heal_targets N (fst (heal_one N w key source t terms flat snapf adjs)) key source ts terms flat snapf adjs)).
  Proof.
    cbn [heal_targets]. destruct (heal_one N w key source t terms flat snapf adjs) as [w1 e1].
    cbn [fst snd]. destruct (heal_targets N w1 key source ts terms flat snapf adjs) as [w2 e2]. reflexivity.
  Qed.

  (* which party each formula term reads: keys 1-3 the healer only, keys 4-5 the target only *)
  Lemma heal_stat_healer_only h t t' k : (k = 1 \/ k = 2 \/ k = 3)%Z -> heal_stat N h t k = heal_stat N h t' k.
  Proof. intros [ -> | [ -> | -> ] ]; reflexivity. Qed.
  Lemma heal_stat_target_only h h' t k : (k = 4 \/ k = 5)%Z -> heal_stat N h t k = heal_stat N h' t k.
  Proof. intros [ -> | -> ]; reflexivity. Qed.
  Lemma heal_stat_other h t k : (k < 1 \/ 5 < k)%Z -> heal_stat N h t k = None.
  Proof. intros H. destruct k as [|p|p]; try reflexivity; try lia.
         do 3 (destruct p as [p|p|]; try reflexivity; try lia). Qed.

  (* ---- what modify_hp does to the unit table ---- *)
  Lemma modify_hp_units w key target source amount dmg :
    let w' := fst (modify_hp N w key target source amount dmg) in
    (forall id, id <> target -> find_unit N (w_units N w') id = find_unit N (w_units N w) id) /\
    match find_unit N (w_units N w) target with
    | None => w' = w
    | Some u =>
        let st := stats_of N w target in
        exists state last,
          find_unit N (w_units N w') target =
            Some (set_hp N u (clamp01 N (ndiv N (nadd N (CurrentHP N st) amount) (MaxHP N st))) state last)
    end.
  Proof.
    unfold modify_hp. destruct (find_unit N (w_units N w) target) as [u|] eqn:Hf; cbn zeta.
    2:{ cbn [fst]. split; [reflexivity|reflexivity]. }
    pose proof (find_unit_id N _ _ _ Hf) as Hid.
    set (st := stats_of N w target).
    set (r := clamp01 N (ndiv N (nadd N (CurrentHP N st) amount) (MaxHP N st))).
    assert (P : forall u', u_id N u' = target ->
              (forall id, id <> target -> find_unit N (w_units N (upd N w u')) id = find_unit N (w_units N w) id) /\
              find_unit N (w_units N (upd N w u')) target = Some u').
    { intros u' Hu'. split.
      - intros id Hne. cbn [upd set_units w_units]. apply find_put_other. congruence.
      - cbn [upd set_units w_units]. eapply find_put_same; eassumption. }
    destruct (neqb N (u_ratio N u) r).
    - cbn [fst]. destruct (P (set_hp N u r (u_state N u) (u_last N u)) Hid) as [P1 P2].
      split; [exact P1|]. eexists. eexists. exact P2.
    - destruct (u_state N u =? stDead)%Z; cbn [fst];
        [destruct (P (set_hp N u r stDead (if dmg then source else u_last N u)) Hid) as [P1 P2];
         split; [exact P1|]; eexists; eexists; exact P2|].
      destruct (nltb N (c0 N) r); cbn [fst].
      + destruct (P (set_hp N u r stAlive (if dmg then source else u_last N u)) Hid) as [P1 P2].
        split; [exact P1|]. eexists. eexists. exact P2.
      + destruct (P (set_hp N u r (if existsb (Z.eqb target) (w_limbo N w) then stLimbo else stDead)
                            (if dmg then source else u_last N u)) Hid) as [P1 P2].
        split; [exact P1|]. eexists. eexists. exact P2.
  Qed.
End Any.

(* ====================================================================================== *)
(* 2. Binary64: no overheal, for every history                                             *)
(* ====================================================================================== *)
Notation Fl := FloatNum.

Definition ratio_ok (u : unit Fl) : Prop := PrimFloat.ltb (c1 Fl) (u_ratio Fl u) = false.

(* every unit of w' existed in w and its HP ratio is either unchanged or not above 1 *)
Definition no_overheal (w w' : world Fl) : Prop :=
  forall id u', find_unit Fl (w_units Fl w') id = Some u' ->
    exists u, find_unit Fl (w_units Fl w) id = Some u /\ (u_ratio Fl u' = u_ratio Fl u \/ ratio_ok u').

Lemma no_overheal_refl w : no_overheal w w.
Proof. intros id u' H. exists u'. auto. Qed.

Lemma no_overheal_trans w1 w2 w3 : no_overheal w1 w2 -> no_overheal w2 w3 -> no_overheal w1 w3.
Proof.
  intros H12 H23 id u3 H3. destruct (H23 _ _ H3) as (u2 & H2 & Hr2).
  destruct (H12 _ _ H2) as (u1 & H1 & Hr1). exists u1. split; [exact H1|].
  destruct Hr2 as [E|Hok]; [|right; exact Hok].
  destruct Hr1 as [E1|Hok1]; [left; congruence|]. right. unfold ratio_ok in *. rewrite E. exact Hok1.
Qed.

Lemma modify_hp_no_overheal w key target source amount dmg :
  no_overheal w (fst (modify_hp Fl w key target source amount dmg)).
Proof.
  pose proof (modify_hp_units Fl w key target source amount dmg) as [Hother Htarget].
  intros id u' H. destruct (Z.eq_dec id target) as [->|Hne].
  - destruct (find_unit Fl (w_units Fl w) target) as [u|] eqn:Hf.
    + destruct Htarget as (state & last & Hnew). rewrite Hnew in H. inversion H; subst u'.
      exists u. split; [reflexivity|]. right. unfold ratio_ok. cbn [u_ratio set_hp].
      apply clamp01_float_le1.
    + rewrite Htarget in H. rewrite Hf in H. discriminate.
  - rewrite (Hother _ Hne) in H. exists u'. auto.
Qed.

Lemma heal_one_no_overheal w key source t terms flat snapf adjs :
  no_overheal w (fst (heal_one Fl w key source t terms flat snapf adjs)).
Proof.
  destruct (adjusted Fl w source t terms flat adjs) as [[[healer target] terms'] flat'] eqn:HA.
  rewrite (heal_one_shape Fl w key source t terms flat snapf adjs _ _ _ _ HA). cbn [fst].
  apply modify_hp_no_overheal.
Qed.

Lemma heal_targets_no_overheal key source terms flat snapf adjs : forall ts w,
  no_overheal w (fst (heal_targets Fl w key source ts terms flat snapf adjs)).
Proof.
  induction ts as [|t ts IH]; intros w; [apply no_overheal_refl|].
  rewrite heal_targets_cons. cbn [fst].
  eapply no_overheal_trans; [apply heal_one_no_overheal|apply IH].
Qed.

Lemma hstep_no_overheal w o : no_overheal w (fst (hstep Fl w o)).
Proof.
  destruct o as [key source ts terms flat snapf adjs|key target source amount dmg]; cbn [hstep].
  - unfold heal. destruct ts as [|t ts]; [apply no_overheal_refl|].
    destruct (is_alive Fl w source); [apply heal_targets_no_overheal|apply no_overheal_refl].
  - apply modify_hp_no_overheal.
Qed.

Theorem hrun_no_overheal : forall ops w, no_overheal w (fst (hrun Fl w ops)).
Proof.
  induction ops as [|o ops IH]; intros w; [apply no_overheal_refl|].
  cbn [hrun]. destruct (hstep Fl w o) as [w1 e1] eqn:H1.
  specialize (IH w1). destruct (hrun Fl w1 ops) as [w2 e2]. cbn [fst] in *.
  eapply no_overheal_trans; [|exact IH]. pose proof (hstep_no_overheal w o) as H. rewrite H1 in H. exact H.
Qed.

(* ====================================================================================== *)
(* 3. Real numbers: the documented amount and the overflow split                           *)
(* ====================================================================================== *)
Open Scope R_scope.
Notation Rn := RNum.

(* value of one formula term *)
Definition term_value (healer target : snap Rn) (kv : Z * R) : R :=
  match heal_stat Rn healer target (fst kv) with Some x => snd kv * x | None => 0 end.

Fixpoint sumR (l : list R) : R := match l with [] => 0 | x :: r => x + sumR r end.

Lemma sumR_perm l l' : Permutation l l' -> sumR l = sumR l'.
Proof. induction 1; cbn; lra. Qed.

Lemma heal_base_R healer target terms flat :
  heal_base Rn healer target terms flat = flat + sumR (map (term_value healer target) terms).
Proof.
  unfold heal_base. revert flat. induction terms as [|kv terms IH]; intros flat; cbn [fold_left map sumR].
  - lra.
  - rewrite IH.
    assert (E : term_value healer target kv =
                match heal_stat Rn healer target (fst kv) with Some x => snd kv * x | None => 0 end) by reflexivity.
    rewrite E. destruct (heal_stat Rn healer target (fst kv)) as [x|]; cbn [nadd nmul RNum]; lra.
Qed.

(* the order in which the formula map is traversed does not matter over the reals *)
Lemma heal_base_perm healer target terms terms' flat :
  Permutation terms terms' -> heal_base Rn healer target terms flat = heal_base Rn healer target terms' flat.
Proof.
  intros H. rewrite !heal_base_R. f_equal. apply sumR_perm. apply Permutation_map. exact H.
Qed.

(* documented amount: (flat + sum of terms) * (1 + outgoing bonus of the healer) * (1 + incoming bonus of the target) *)
Lemma heal_raw_R healer target terms flat :
  heal_raw Rn healer target terms flat =
    (flat + sumR (map (term_value healer target) terms))
    * (1 + (sget Rn healer pHealBoost + sget Rn healer pHealBoostConvert))
    * (1 + sget Rn target pHealTaken).
Proof. unfold heal_raw. rewrite heal_base_R. reflexivity. Qed.

(* the five documented terms *)
Lemma term_value_doc healer target v :
  term_value healer target (1%Z, v) = v * ATK Rn healer /\
  term_value healer target (2%Z, v) = v * DEF Rn healer /\
  term_value healer target (3%Z, v) = v * MaxHP Rn healer /\
  term_value healer target (4%Z, v) = v * MaxHP Rn target /\
  term_value healer target (5%Z, v) = v * (MaxHP Rn target - s_ratio Rn target * MaxHP Rn target).
Proof. repeat split; reflexivity. Qed.

(* overflow split *)
Lemma heal_split_R target raw :
  let cur := CurrentHP Rn target in
  let mx := MaxHP Rn target in
  let applied := fst (heal_split Rn target raw) in
  let overflow := snd (heal_split Rn target raw) in
  applied + overflow = raw /\
  (mx < raw + cur -> applied = mx - cur /\ overflow = raw + cur - mx /\ 0 < overflow) /\
  (raw + cur <= mx -> applied = raw /\ overflow = 0) /\
  (cur <= mx -> cur + applied <= mx) /\
  (0 <= raw -> cur <= mx -> 0 <= applied /\ 0 <= overflow) /\
  (0 <= raw -> cur <= mx -> applied = Rmin raw (mx - cur)).
Proof.
  cbn zeta. unfold heal_split. cbn [nltb nadd nsub RNum c0 nofZ].
  destruct (Rltb (MaxHP Rn target) (raw + CurrentHP Rn target)) eqn:H; cbn [fst snd].
  - apply Rltb_true in H. repeat split; try lra.
    intros. rewrite Rmin_right; lra.
  - apply Rltb_false in H. repeat split; try lra.
    intros. rewrite Rmin_left; lra.
Qed.

(* "the target's HP rises by that amount but not above its maximum": the ratio the attribute
   service stores after adding [amount] to a unit with positive max HP and ratio in [0,1] *)
Lemma modify_hp_ratio_R (w : world Rn) key target source amount dmg u :
  find_unit Rn (w_units Rn w) target = Some u ->
  let st := stats_of Rn w target in
  0 < MaxHP Rn st ->
  exists u', find_unit Rn (w_units Rn (fst (modify_hp Rn w key target source amount dmg))) target = Some u' /\
    u_ratio Rn u' * MaxHP Rn st = Rmin (MaxHP Rn st) (Rmax 0 (u_ratio Rn u * MaxHP Rn st + amount)).
Proof.
  intros Hf st Hpos.
  pose proof (modify_hp_units Rn w key target source amount dmg) as [_ Ht]. rewrite Hf in Ht.
  destruct Ht as (state & last & Hnew). eexists. split; [exact Hnew|].
  cbn [u_ratio set_hp]. rewrite clamp01_R. fold st.
  assert (Hcur : CurrentHP Rn st = u_ratio Rn u * MaxHP Rn st).
  { unfold CurrentHP, st, stats_of. rewrite Hf. reflexivity. }
  rewrite Hcur. cbn [ndiv nadd RNum].
  set (m := MaxHP Rn st) in *. set (x := u_ratio Rn u * m + amount).
  assert (Hx : x / m * m = x) by (field; lra).
  destruct (Rle_dec (x / m) 0) as [H0|H0].
  - rewrite (Rmax_left 0 (x / m)) by lra. rewrite Rmin_right by lra.
    assert (x <= 0) by (rewrite <- Hx; nra).
    rewrite (Rmax_left 0 x) by lra. rewrite Rmin_right; lra.
  - rewrite (Rmax_right 0 (x / m)) by lra.
    assert (0 < x) by (rewrite <- Hx; nra).
    rewrite (Rmax_right 0 x) by lra.
    destruct (Rle_dec 1 (x / m)) as [H1|H1].
    + rewrite Rmin_left by lra. assert (m <= x) by (rewrite <- Hx; nra). rewrite Rmin_left; lra.
    + rewrite Rmin_right by lra. assert (x <= m) by (rewrite <- Hx; nra). rewrite Rmin_right; lra.
Qed.

(* end to end over the reals, for a heal whose listeners leave the TARGET's snapshot alone
   (so the snapshot's current and max HP are the unit's): the new HP is min(max, old + raw),
   i.e. old + applied, and overflow is exactly the part that did not fit *)
Lemma heal_one_hp_R (w : world Rn) key source t terms flat snapf adjs u healer terms' flat' :
  find_unit Rn (w_units Rn w) t = Some u ->
  adjusted Rn w source t terms flat adjs = (healer, stats_of Rn w t, terms', flat') ->
  let st := stats_of Rn w t in
  let raw := heal_raw Rn healer st terms' flat' in
  0 < MaxHP Rn st -> 0 <= u_ratio Rn u <= 1 -> 0 <= raw ->
  exists u', find_unit Rn (w_units Rn (fst (heal_one Rn w key source t terms flat snapf adjs))) t = Some u' /\
    let oldHP := u_ratio Rn u * MaxHP Rn st in
    let newHP := u_ratio Rn u' * MaxHP Rn st in
    let applied := fst (heal_split Rn st raw) in
    let overflow := snd (heal_split Rn st raw) in
    newHP = Rmin (MaxHP Rn st) (oldHP + raw) /\
    newHP = oldHP + applied /\
    overflow = raw - (newHP - oldHP) /\
    u_ratio Rn u' <= 1.
Proof.
  intros Hf HA st raw Hpos Hr Hraw.
  rewrite (heal_one_shape Rn w key source t terms flat snapf adjs _ _ _ _ HA). cbn [fst].
  fold st. fold raw.
  destruct (modify_hp_ratio_R w key t source (fst (heal_split Rn st raw)) false u Hf Hpos) as (u' & Hu' & Hnew).
  exists u'. split; [exact Hu'|]. cbn zeta. fold st in Hnew.
  assert (Hcur : CurrentHP Rn st = u_ratio Rn u * MaxHP Rn st).
  { unfold CurrentHP, st, stats_of. rewrite Hf. reflexivity. }
  pose proof (heal_split_R st raw) as (S1 & S2 & S3 & S4 & S5 & S6). cbn zeta in *.
  set (m := MaxHP Rn st) in *. set (a := fst (heal_split Rn st raw)) in *.
  set (o := snd (heal_split Rn st raw)) in *. set (old := u_ratio Rn u * m) in *.
  rewrite Hcur in *.
  assert (Hold : 0 <= old <= m) by (unfold old; nra).
  assert (Ha : 0 <= a /\ 0 <= o) by (apply S5; lra).
  assert (Hfit : old + a <= m) by (apply S4; lra).
  assert (Hnew' : u_ratio Rn u' * m = old + a).
  { rewrite Hnew. rewrite (Rmax_right 0 (old + a)) by lra. rewrite Rmin_right; lra. }
  assert (Ha' : a = Rmin raw (m - old)) by (apply S6; lra).
  repeat split.
  - rewrite Hnew', Ha'. unfold Rmin. destruct (Rle_dec raw (m - old)); destruct (Rle_dec m (old + raw)); lra.
  - exact Hnew'.
  - rewrite Hnew'. lra.
  - assert (u_ratio Rn u' * m <= 1 * m) by lra. nra.
Qed.

(* ====================================================================================== *)
(* Property-level statement (C17)                                                          *)
(* ====================================================================================== *)
Definition C17_statement : Prop :=
  (* (a) a heal from a source that is not alive (or without targets) does nothing: no event,
         no state change -- at every instance, in particular the executed binary64 model *)
  (forall N w key source ts terms flat snapf adjs,
      ts = [] \/ is_alive N w source = false ->
      heal N w key source ts terms flat snapf adjs = (w, [])) /\
  (* (b) per target: HealStart shows the event AFTER the listeners' adjustments; amount and
         overflow are computed from exactly that adjusted event (snapshots, formula terms,
         flat value); the applied part is added to the target's HP (not as damage); HealEnd
         reports applied part and overflow -- at every instance *)
  (forall N w key source t terms flat snapf adjs healer target terms' flat',
      adjusted N w source t terms flat adjs = (healer, target, terms', flat') ->
      let raw := heal_raw N healer target terms' flat' in
      let applied := fst (heal_split N target raw) in
      let overflow := snd (heal_split N target raw) in
      heal_one N w key source t terms flat snapf adjs =
        (fst (modify_hp N w key t source applied false),
         IHealStart key (s_id N target) (s_id N healer)
                    (fst (heal_event_stats N healer target)) (snd (heal_event_stats N healer target))
                    (sort_terms N terms') flat' snapf
           :: snd (modify_hp N w key t source applied false)
           ++ [IHealEnd key t source applied overflow snapf])) /\
  (* (b') a list of targets is healed one target after the other, each from the state the
          previous heal left (so a target listed twice is healed twice, the second time from its
          new HP); an alive source heals exactly the listed targets -- at every instance *)
  (forall N w key source t ts terms flat snapf adjs,
      heal_targets N w key source (t :: ts) terms flat snapf adjs =
        (fst (heal_targets N (fst (heal_one N w key source t terms flat snapf adjs)) key source ts terms flat snapf adjs),
         snd (heal_one N w key source t terms flat snapf adjs) ++
         snd (heal_targets N (fst (heal_one N w key source t terms flat snapf adjs)) key source ts terms flat snapf adjs))) /\
  (forall N w key source t ts terms flat snapf adjs, is_alive N w source = true ->
      heal N w key source (t :: ts) terms flat snapf adjs = heal_targets N w key source (t :: ts) terms flat snapf adjs) /\
  (* (c) the documented amount, over the reals: (flat + sum of the formula terms) * (1 + healer's
         outgoing bonus) * (1 + target's incoming bonus); each term is its coefficient times the
         healer's ATK / DEF / max HP, the target's max HP or the target's MISSING HP; the order
         in which the formula map is traversed is irrelevant *)
  (forall healer target terms flat,
      heal_raw Rn healer target terms flat =
        (flat + sumR (map (term_value healer target) terms))
        * (1 + (sget Rn healer pHealBoost + sget Rn healer pHealBoostConvert))
        * (1 + sget Rn target pHealTaken)) /\
  (forall healer target v,
      term_value healer target (1%Z, v) = v * ATK Rn healer /\
      term_value healer target (2%Z, v) = v * DEF Rn healer /\
      term_value healer target (3%Z, v) = v * MaxHP Rn healer /\
      term_value healer target (4%Z, v) = v * MaxHP Rn target /\
      term_value healer target (5%Z, v) = v * (MaxHP Rn target - s_ratio Rn target * MaxHP Rn target)) /\
  (forall healer target terms terms' flat, Permutation terms terms' ->
      heal_base Rn healer target terms flat = heal_base Rn healer target terms' flat) /\
  (* (d) overflow split over the reals: applied + overflow = amount; what does not fit under
         the maximum is the overflow; both parts are non-negative for a non-negative amount *)
  (forall target raw,
      let cur := CurrentHP Rn target in
      let mx := MaxHP Rn target in
      let applied := fst (heal_split Rn target raw) in
      let overflow := snd (heal_split Rn target raw) in
      applied + overflow = raw /\
      (mx < raw + cur -> applied = mx - cur /\ overflow = raw + cur - mx /\ 0 < overflow) /\
      (raw + cur <= mx -> applied = raw /\ overflow = 0) /\
      (cur <= mx -> cur + applied <= mx) /\
      (0 <= raw -> cur <= mx -> 0 <= applied /\ 0 <= overflow) /\
      (0 <= raw -> cur <= mx -> applied = Rmin raw (mx - cur))) /\
  (* (e) the target's HP rises by the amount but not above its maximum (reals; listeners that
         leave the target's snapshot alone): new HP = min(max, old + amount) = old + applied,
         overflow = amount - (new - old), new ratio <= 1 *)
  (forall (w : world Rn) key source t terms flat snapf adjs u healer terms' flat',
      find_unit Rn (w_units Rn w) t = Some u ->
      adjusted Rn w source t terms flat adjs = (healer, stats_of Rn w t, terms', flat') ->
      let st := stats_of Rn w t in
      let raw := heal_raw Rn healer st terms' flat' in
      0 < MaxHP Rn st -> 0 <= u_ratio Rn u <= 1 -> 0 <= raw ->
      exists u', find_unit Rn (w_units Rn (fst (heal_one Rn w key source t terms flat snapf adjs))) t = Some u' /\
        let oldHP := u_ratio Rn u * MaxHP Rn st in
        let newHP := u_ratio Rn u' * MaxHP Rn st in
        newHP = Rmin (MaxHP Rn st) (oldHP + raw) /\
        newHP = oldHP + fst (heal_split Rn st raw) /\
        snd (heal_split Rn st raw) = raw - (newHP - oldHP) /\
        u_ratio Rn u' <= 1) /\
  (* (f) no overheal at the binary64 level, for EVERY history of heals and HP changes from
         every world, whatever the listeners do: a unit's HP ratio is either untouched or not
         above 1 *)
  (forall ops w, no_overheal w (fst (hrun Fl w ops))).

Theorem C17_holds : C17_statement.
Proof.
  split; [exact heal_dead_source_nothing|].
  split; [exact heal_one_shape|].
  split; [exact heal_targets_cons|].
  split; [intros N w key source t ts terms flat snapf adjs H; unfold heal; rewrite H; reflexivity|].
  split; [exact heal_raw_R|].
  split; [exact term_value_doc|].
  split; [exact heal_base_perm|].
  split; [exact heal_split_R|].
  split; [exact heal_one_hp_R|].
  exact hrun_no_overheal.
Qed.

(* ---- non-vacuity: a concrete binary64 run ---- *)
Close Scope R_scope.
Open Scope Z_scope.
From SR Require Import Model.HealTerms.   (* the constructors at the binary64 instance *)

(* unit 1: 1000 max HP at ratio 1/2, +50% outgoing bonus; unit 2: 2000 max HP at 1/4, +25% incoming *)
Definition demo_units : list (uspec Fl) :=
  [ USpec 1 true 10 0.5%float 0%float 0%float 0%float 0%float [] [(pHPBase, 1000%float); (pATKBase, 100%float); (pHealBoost, 0.5%float)];
    USpec 2 false 10 0.25%float 0%float 0%float 0%float 0%float [] [(pHPBase, 2000%float); (pHealTaken, 0.25%float)] ].
Definition demo_ops : list (hop Fl) :=
  [ HHeal 0 1 [2; 1] [(1, 2%float); (5, 0.5%float)] 10%float false [AFlatAdd 6%float];
    HModHP 1 1 2 (-2000)%float true;
    HHeal 2 1 [2] [] 100%float false [] ].

Definition demo_statement : Prop :=
  let tr := snd (hrun Fl (init_world Fl demo_units [] []) demo_ops) in
  (* healing 2 from 1: (16 + 2*100 + 0.5*1500) * 1.5 * 1.25 = 1811.25 -> 1500 applied, 311.25 overflow *)
  nth_error tr 2 = Some (IHealEnd 0 2 1 1500%float 311.25%float false) /\
  (* the third heal comes from the now dead unit 1: nothing but the getters is reported *)
  List.length tr = 14%nat.

Example demo_heal : demo_statement.
Proof. vm_compute. split; reflexivity. Qed.
