CONFIG = {
    "id": "C09",
    "coq_targets": ["Props/C09.v", "Model/SimCheck.v"],
    "prop_files": ["Props/C09.v"],
    "gen": [],
    "components": [{
        "name": "sim", "modules": ["Base.NumOps", "Model.Turn", "Model.Sim", "Model.SimCheck"],
        "check": "check_case", "monitor": "monitor_c09", "model_out": "monitor_detail",
        "case_type": "case", "ops_path": None, "mismatch_is_violation": False,
        "n_quick": 900, "n_thorough": 12000, "shard": 150,
    }],
    "rule": "scripted battles on the REAL simulation.Simulation: 1-4 registered harness characters (4 kinds: speeds, SP "
            "costs, target types), 1-5 harness enemies (HP 50-400, speeds incl. ties), 5-14 content scripts of engine calls "
            "(attacks qualified/unqualified with lethal and scratch damage on any unit incl. dead and unknown ids, SetHP, "
            "insert abilities with real priorities and abort flags, extra actions, energy, SP, flag modifiers, gauge "
            "changes, revive switches, samples of Characters()/Enemies()/turn order), per-unit action queues, listener "
            "slots (BattleStart, ActionEnd, HitEnd, TargetDeath, LimboWaitHeal verdict), decision sequences of the "
            "script callbacks incl. invalid targets and ult requests, cycle limit 0-4, insert budget 0-12; distinct = "
            "distinct input term",
    "trusted": ["hits of harness content are 'plain' (no DEF/RES/stance/shield/crit), so a hit's total is its flat damage; the "
                "damage formula itself is C04",
                "listener scripts never open or close an attack bracket (legal use of the API, enforced by the model as a "
                "distinct outcome and respected by the generator)",
                "the turn manager part is Model/Turn.v at binary64 (property C02)"],
    "assumptions": ["content uses the engine API legally: qualified attacks and EndAttack only from action / ult / insert bodies"],
    "manifest": {
        "level_text": "Kernel-checked theorems about the model: the exit check's decision (loss, else win, else timeout iff floor(clock/100) >= limit, else continue), that every returned run stopped at an exit check with Termination as its one and last event carrying the clock that is the result's total action value, and the hit subscriber's bookkeeping (side totals grow by exactly the hit's damage, both per-cycle series keep equal length, current cycle entry = running total). That the totals equal the sums of all hits in log order and that the series are non-decreasing is checked by the trace monitor on every real run (float summation order of nested hits makes the log-order sum a statement over the reals, not binary64) (partial).",
        "level_note": "Coq kernel; hand-written model Model/Sim.v tied by whole-trace correspondence; content is scripted harness "
                      "content registered through the exported Register functions; internal/* content is not modelled.",
        "technique": 'Coq proofs (exit decision, stop provenance, hit bookkeeping) + whole-trace correspondence + result monitor',
        "design_ref": "DESIGN.md section 7, C09",
    },
}
