(* C01 — seeded runs are reproducible: the property-level statement.

   What is proved (all inside Coq, for all inputs):
   (A) oracle model: every loop schema of Proofs/MapIterProofs.v gives the same result for
       every two iteration orders, and a whole program whose deterministic steps respect the
       state equivalence and whose `range` loops are order independent gives equivalent final
       states for every two legal oracles (program_oracle_independent);
   (B) every map-iteration site of the Go source is an instance of such a schema or is listed
       in the reviewed table (all_map_sites_classified, over Gen/Sites.v);
   (C) no code reachable from simulation.Run touches ambient randomness, clock, environment or
       starts goroutines (no_ambient_randomness, over Gen/Sites.v);
   (D) the repeated-run checker accepts a case exactly when all repetitions agreed, and the
       monitor accepts only when the five content hashes agree.
   What is NOT proved in Coq and is covered by the repeated-run search on the implementation
   only: that the Go runtime's map randomisation is "some permutation", that the translator's
   pattern matcher assigns a loop to the right schema, that code outside maps/rand/time is
   deterministic Go, and equality between a run in this process and one in a fresh process. *)
From Coq Require Import List ZArith Bool String Permutation.
From SR Require Import Base.CaseLib Base.SiteTypes Base.MapIter Proofs.MapIterProofs
  Gen.Sites Model.SitesAllow Proofs.SitesProofs Model.Determinism Model.DeterminismCheck.
Import ListNotations.

(* (D) *)
Lemma list_eqb_bool_eq : forall a b : list bool, list_eqb Bool.eqb a b = true <-> a = b.
Proof.
  induction a as [|x a IH]; destruct b as [|y b]; cbn [list_eqb]; split; intro H;
    try reflexivity; try discriminate.
  - apply andb_true_iff in H. destruct H as [H1 H2]. apply Bool.eqb_prop in H1. apply IH in H2. subst. reflexivity.
  - inversion H; subst. apply andb_true_iff. split; [apply Bool.eqb_reflx|apply IH; reflexivity].
Qed.

Lemma check_case_iff_all_agree : forall (i : det_in) st flags hashes n d,
  check_case (i, DetOut st flags hashes n d) = true <->
  (List.length flags = 16%nat /\ Forall (fun b => b = true) flags).
Proof.
  intros i st flags hashes n d. unfold check_case. cbn [snd fst].
  rewrite list_eqb_bool_eq. unfold predicted_flags. cbn.
  split.
  - intro H. subst. split; [reflexivity|]. repeat constructor.
  - intros [HL HF].
    do 17 (destruct flags as [|? flags]; try discriminate HL);
    repeat match goal with H : Forall _ (_ :: _) |- _ => inversion H; clear H; subst end.
    reflexivity.
Qed.

Lemma check_case_rejects_panic : forall i m, check_case (i, HarnessPanic m) = false.
Proof. reflexivity. Qed.

Lemma monitor_case_sound : forall (i : det_in) st flags hashes n d,
  monitor_case (i, DetOut st flags hashes n d) = true ->
  List.length hashes = 5%nat /\ forall h h', In h hashes -> In h' hashes -> h = h'.
Proof.
  intros i st flags hashes n d H. unfold monitor_case in H. cbn [snd] in H.
  destruct hashes as [|h0 hs]; [discriminate|].
  apply andb_true_iff in H. destruct H as [HL HA].
  apply Nat.eqb_eq in HL. split; [exact HL|].
  rewrite forallb_forall in HA.
  assert (E : forall x, In x (h0 :: hs) -> x = h0).
  { intros x [Hx|Hx]; [symmetry; exact Hx|]. symmetry. apply String.eqb_eq, HA, Hx. }
  intros h h' Hh Hh'. rewrite (E h Hh), (E h' Hh'). reflexivity.
Qed.

(* (A) as one statement *)
Definition oracle_model_statement : Prop :=
  forall (St K V : Type) (R : St -> St -> Prop),
    (forall s, R s s) ->
    forall p : list (step St K V), Forall (step_ok St K V R) p ->
    forall o1 o2 : oracle K V, legal o1 -> legal o2 ->
    forall s, R (run_prog o1 0 p s) (run_prog o2 0 p s).

Lemma oracle_model_holds : oracle_model_statement.
Proof.
  intros St K V R Hr p Hp o1 o2 L1 L2 s.
  apply (program_oracle_independent St K V R p Hp o1 o2 L1 L2). apply Hr.
Qed.

Definition C01_statement : Prop :=
  oracle_model_statement /\
  (forall c, class_proved c = true -> schema_statement c) /\
  all_map_sites_classified_statement /\
  no_ambient_randomness_statement /\
  (forall (i : det_in) st flags hashes n d,
     check_case (i, DetOut st flags hashes n d) = true <->
     (List.length flags = 16%nat /\ Forall (fun b => b = true) flags)) /\
  (forall (i : det_in) st flags hashes n d,
     monitor_case (i, DetOut st flags hashes n d) = true ->
     List.length hashes = 5%nat /\ forall h h', In h hashes -> In h' hashes -> h = h').

Theorem C01_holds : C01_statement.
Proof.
  split; [exact oracle_model_holds|].
  split; [exact schema_holds|].
  split; [exact all_map_sites_classified|].
  split; [exact no_ambient_randomness|].
  split; [exact check_case_iff_all_agree|exact monitor_case_sound].
Qed.

(* ---- non-vacuity: a concrete program built from the schemas, run under two different legal
   oracles ---- *)
Definition demo_src : @amap Z Z := [(1, 10); (2, 20); (3, 30)]%Z.
(* `for k, v := range src { dst[k] += v }` ; `dst[100] = 1` ; `for k, v := range src { dst[k+1] = v }` *)
Definition demo_prog : list (step (@amap Z Z) Z Z) :=
  [ Range (fun _ => demo_src)
      (per_key_body Z.eqb (fun k => k) (fun _ v old => Some (v + match old with Some x => x | None => 0 end)%Z));
    Det (fun d => alter Z.eqb 100%Z (fun _ => Some 1%Z) d);
    Range (fun _ => demo_src) (per_key_body Z.eqb (fun k => (k + 1)%Z) (fun _ v _ => Some v)) ].

Definition oracle_id : oracle Z Z := fun _ m => m.
Definition oracle_rev : oracle Z Z := fun _ m => rev m.

Lemma oracle_id_legal : legal oracle_id.
Proof. intros n m. apply Permutation_refl. Qed.
Lemma oracle_rev_legal : legal oracle_rev.
Proof. intros n m. apply Permutation_rev. Qed.

Lemma Zeqb_spec : forall a b : Z, Z.eqb a b = true <-> a = b.
Proof. intros. apply Z.eqb_eq. Qed.

Lemma demo_src_wf : wf demo_src.
Proof. unfold wf, demo_src. cbn. repeat constructor; cbn; intuition discriminate. Qed.

Lemma demo_prog_ok : Forall (step_ok (@amap Z Z) Z Z (same_map Z.eqb)) demo_prog.
Proof.
  unfold demo_prog. repeat constructor; cbn [step_ok].
  - intros s s' HR o o' Ho Ho'.
    apply (range_update_per_key_gen Z.eqb Zeqb_spec demo_src _ _ (fun _ _ E => E) demo_src_wf o o' Ho Ho' s s' HR).
  - intros s s' HR. apply (alter_proper Z.eqb Zeqb_spec), HR.
  - intros s s' HR o o' Ho Ho'.
    apply (range_update_per_key_gen Z.eqb Zeqb_spec demo_src _ _ (fun k1 k2 E => proj1 (Z.add_cancel_r k1 k2 1%Z) E) demo_src_wf o o' Ho Ho' s s' HR).
Qed.

Lemma demo_oracle_independent : forall o1 o2 : oracle Z Z, legal o1 -> legal o2 ->
  forall d, same_map Z.eqb (run_prog o1 0 demo_prog d) (run_prog o2 0 demo_prog d).
Proof.
  intros o1 o2 L1 L2 d.
  apply (oracle_model_holds (@amap Z Z) Z Z (same_map Z.eqb) (same_map_refl Z.eqb)
           demo_prog demo_prog_ok o1 o2 L1 L2 d).
Qed.

(* the two oracles really visit the entries in different orders, the association lists differ,
   and they are nevertheless the same map *)
Lemma demo_runs :
  run_prog oracle_id 0 demo_prog [] <> run_prog oracle_rev 0 demo_prog [] /\
  map (fun k => lookup Z.eqb k (run_prog oracle_id 0 demo_prog [])) [1; 2; 3; 4; 100]%Z =
    [Some 10; Some 10; Some 20; Some 30; Some 1]%Z /\
  map (fun k => lookup Z.eqb k (run_prog oracle_rev 0 demo_prog [])) [1; 2; 3; 4; 100]%Z =
    [Some 10; Some 10; Some 20; Some 30; Some 1]%Z.
Proof. split; [vm_compute; discriminate|split; vm_compute; reflexivity]. Qed.
