module verif/harness

go 1.23.1

require github.com/simimpact/srsim v0.0.0

require google.golang.org/protobuf v1.34.2 // indirect

replace github.com/simimpact/srsim => /repo
