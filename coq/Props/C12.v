(* C12 - gcs programs evaluate according to the language semantics.
   Only statements, [exact] and [Print Assumptions] live here.
   Models: Model/GcsEval.v (the implementation, dual number representation),
           Model/GcsSem.v (the reference semantics); proofs: Proofs/GcsEvalProofs.v. *)
From Coq Require Import List ZArith Bool String.
From SR Require Import Base.CaseLib Model.GcsAst Model.GcsStore Model.GcsEval Model.GcsSem
  Model.GcsEvalCheck Proofs.GcsEvalProofs.
Import ListNotations.
Open Scope Z_scope.

(* the whole property *)
Theorem C12_gcs_evaluation : C12_statement.
Proof. exact C12_holds. Qed.
Print Assumptions C12_gcs_evaluation.

(* Values, printed output and callback decisions are those of the reference semantics: for
   every well-formed program, engine state, random stream, callback script and fuel the trace
   of the implementation model abstracts to the trace the semantics defines. *)
Theorem C12_impl_refines_spec : forall fuel prog eng draws calls,
  wf_block prog = true ->
  GcsSem.run_case fuel prog eng draws calls = map abs_item (GcsEval.run_case fuel prog eng draws calls).
Proof. exact impl_refines_spec. Qed.
Print Assumptions C12_impl_refines_spec.

(* The result does not depend on how a number was produced: operators commute with the
   denotation on every pair of representations, the invariant is established by literals and
   builtins and preserved by operators and by whole programs, and states denoting the same
   numbers cannot be told apart. *)
Theorem C12_numbers_consistent : numbers_consistent_statement.
Proof. exact numbers_consistent_holds. Qed.
Print Assumptions C12_numbers_consistent.

(* Evaluation never crashes: no outcome of Init or of a callback invocation is a Go panic. *)
Theorem C12_impl_never_panics : forall fuel prog eng draws calls g,
  wf_block prog = true -> In g (GcsEval.run_case fuel prog eng draws calls) -> ~ is_panic_item g.
Proof. exact impl_never_panics. Qed.
Print Assumptions C12_impl_never_panics.

(* Ill-typed operations, unknown names, wrong arity and integer division by zero are errors. *)
Theorem C12_spec_reports_errors : spec_reports_errors_statement.
Proof. exact spec_reports_errors. Qed.
Print Assumptions C12_spec_reports_errors.

(* The reference semantics has the control flow the property names: a return inside a loop
   leaves the loop with its value (and the enclosing call returns it); signals leave blocks from
   any depth; fallthrough runs the next case; a continue inside a switch reaches the loop. *)
Theorem C12_sem_return_leaves_while : forall eng n c b env s vc s1 v s2,
  GcsSem.eval_expr eng n c env s = (Ok vc, s1) -> truthy vc = true ->
  GcsSem.eval_block eng n b env s1 = (Ok (SRet v), s2) ->
  GcsSem.eval_while eng (S n) c b env s = (Ok (SRet v), s2).
Proof. exact sem_return_leaves_while. Qed.
Print Assumptions C12_sem_return_leaves_while.

Theorem C12_sem_block_passes_signal : forall eng n st r scope s sg s1,
  GcsSem.eval_stmt eng n st scope s = (Ok sg, s1) -> sg <> SNormal ->
  GcsSem.eval_nodes eng (S n) (NStmt st :: r) scope s = (Ok sg, s1).
Proof. exact sem_block_passes_signal. Qed.
Print Assumptions C12_sem_block_passes_signal.

(* non-vacuity: a concrete well-formed program (integer division then promotion, return from
   inside a while loop, in-place sort, a builtin number promoted, a registered callback) runs to
   the expected trace in both models *)
Theorem C12_nonvacuous :
  wf_block demo_prog = true /\
  GcsSem.run_case 200 demo_prog demo_eng [] [CNext 1] = demo_trace /\
  map abs_item (GcsEval.run_case 200 demo_prog demo_eng [] [CNext 1]) =
    GcsSem.run_case 200 demo_prog demo_eng [] [CNext 1].
Proof. exact demo_runs. Qed.
