CONFIG = {
    "id": "C02",
    "coq_targets": ["Gen/FormulasTurn.v", "Proofs/FormulasTurnProofs.v",
                    "Props/C02.v", "Model/TurnCheck.v"],
    "prop_files": ["Props/C02.v"],
    "gen": ["FormulasTurn"],
    "components": [{
        "name": "turn", "modules": ["Base.NumOps", "Model.Turn", "Model.TurnCheck"],
        "check": "check_case", "monitor": "monitor_case", "model_out": "model_out",
        "case_type": "case", "ops_path": [],
        "n_quick": 900, "n_thorough": 30000, "shard": 300,
    }],
    "rule": "histories of 5-60 turn-manager operations (add/remove units, start turn, end of action, set/advance/"
            "delay gauge by gauge, by normalized amount and by AV, set/modify gauge cost incl. fractional and "
            "negative, speed changes between operations) over 2-10 units with speeds from a pool containing equal "
            "speeds; amounts half from boundary values (0, exactly base gauge, negative, fractional, larger than the "
            "remaining gauge); also protocol violations (double start, reset without a turn, absent ids); "
            "distinct = distinct input term",
    "trusted": [
        "TRANSLATED from the Go source on every run and proved equal to the model for every number system and "
        "every argument (Gen/FormulasTurn.v; Proofs/FormulasTurnProofs.v; theorems "
        "C02_model_formulas_are_the_source, C02_StartTurn_is_the_source): BaseGauge, turnOrderHandler.av and Less, "
        "manager.av, StartTurn's per-unit gauge decrement (int64(av * SPD)), clock update, cost reset and the "
        "acting unit's zero gauge, ResetTurn's gauge (int64(BaseGauge * cost) floored at 0), SetGauge's truncated "
        "floored gauge, the amounts of ModifyGaugeNormalized / ModifyGaugeAV / ModifyCurrentGaugeCost",
        "still HAND-WRITTEN (correspondence only): the re-insertion position of SetGauge, move-to-end of "
        "ResetTurn, AddTargets / RemoveTarget, the error paths, the emitted status lists; Stats(id).SPD() is the "
        "model's speed table",
        "translator (harness/cmd/go2coq formulas.go, formulas_specs.go): trusted are the Go front end "
        "(go/packages, go/types, go/constant), the fixed whitelist and accessor tables (which Go field / method is "
        "which model accessor), the statement translation listed at the top of formulas.go, and that lit N n d "
        "(the correctly rounded quotient of two integers below 2^53) is the binary64 the Go compiler stores for "
        "the literal n/d; the translator fails closed (unknown construct, added or missing assignment, changed "
        "signature: go2coq exits 1 and the check reports a broken translator obligation)",
        "for functions that mix effects and arithmetic only the whitelisted statements are translated (the "
        "statements of one block that assign the named variables, their number fixed; every other assignment to "
        "those variables or to the inputs must be whitelisted verbatim): the ORDER of effects around the "
        "arithmetic (event emissions, service calls, which unit receives the energy) stays hand-written and is "
        "tied by correspondence only","sort.Stable is modelled by stable insertion sort (the stable sorted permutation of a strict weak order is unique)",
                "arithmetic clauses (gauges never negative after a turn start, elapsed AV >= 0, proportional shrink) are proved "
                "for the model instantiated at the real numbers; the binary64 instance is executed and compared bit-exactly with "
                "the Go code and the float-level monitor checks the same clauses on every implementation output"],
    "assumptions": ["speeds are positive and finite; unit ids are unique in the turn order"],
    "manifest": {
        "level_text": "Translator tie (way 1): BaseGauge, the action value and its comparison, and the gauge / clock / cost arithmetic of the turn manager are regenerated from turn/turn.go and turn/modify.go on every run (go2coq FormulasTurn) and proved EQUAL to the model's definitions for all inputs; "
                      "Kernel-checked theorems over an executable Gallina model of the turn manager (all histories of "
                      "operations and speed changes), binary64 instance compared bit-exactly with the real turn.Manager on "
                      "generated histories; a float-level monitor re-checks the property's clauses on the implementation's outputs.",
        "level_note": "go2coq FormulasTurn translator + kernel-checked equalities generated = model; "
                      "Coq kernel + stdlib real-number axioms for the R instance; sort.Stable contract; IEEE rounding gap between "
                      "the float and real instances is named in the evidence.",
        "technique": "source-to-Coq translation of the formulas with equality proofs + "
                     "Coq proof (invariants over operation histories; NumOps model at float and R) + correspondence",
        "design_ref": "DESIGN.md section 7, C02",
    },
}
