(* The translator tie at the formula level (DESIGN.md section 2, way T) for the combat models.

   coq/Gen/Formulas.v is GENERATED from the Go source by harness/cmd/go2coq (formulas.go): every
   definition there is the translation of a Go function, of named statements of a Go function,
   or of a constant / table of the source.  This file proves, for every generated definition,
   that it is EQUAL to the hand-written model definition the property theorems are about — for
   every NumOps instance (binary64 and the reals alike) and every argument.  So an edit of the
   Go source that changes a formula, a literal, a comparison, the party a factor reads or a table
   row makes one of these lemmas fail for all inputs, independent of the case generator.

   Where the model inlines an expression in a larger function (perform_hit, modify_hp, ...), the
   lemma restates the model function with the generated pieces plugged in and proves the two
   equal.  Nothing here changes a model or a property theorem. *)
From Coq Require Import List ZArith Bool Floats.
From SR Require Import Model.CombatCore Model.Hit.
From SR Require Gen.FormulasInfo Gen.FormulasAttr Gen.Formulas.
From SR Require Import Proofs.FormulasInfoProofs Proofs.FormulasAttrCoreProofs.
Import ListNotations.
Open Scope Z_scope.

Lemma gen_attack_types_are_model :
  FormulasInfo.AttackType_DOT = atDOT /\ FormulasInfo.AttackType_PURSUED = atPURSUED /\
  FormulasInfo.AttackType_ELEMENT_DAMAGE = atELEMENT /\
  FormulasInfo.DamageFormula_BY_ATK = 1 /\ FormulasInfo.DamageFormula_BY_DEF = 2 /\
  FormulasInfo.DamageFormula_BY_MAX_HP = 3 /\ FormulasInfo.DamageFormula_BY_BREAK_DAMAGE = 4.
Proof. repeat split; reflexivity. Qed.

(* combat.BreakBaseDamage: every row, bit for bit *)
Lemma gen_break_table_is_model : Formulas.BreakBaseDamage = break_table.
Proof. reflexivity. Qed.

(* model.AttackType.IsQualified *)
Lemma gen_IsQualified_is_model : forall t, Formulas.AttackType_IsQualified t = is_qualified t.
Proof.
  intros t. unfold Formulas.AttackType_IsQualified, is_qualified.
  change FormulasInfo.AttackType_DOT with atDOT. change FormulasInfo.AttackType_PURSUED with atPURSUED.
  change FormulasInfo.AttackType_ELEMENT_DAMAGE with atELEMENT.
  destruct (t =? atDOT); destruct (t =? atPURSUED); destruct (t =? atELEMENT); reflexivity.
Qed.

(* ------------------------------------------------------------------ combat/damage.go *)

Lemma gen_baseDamage_is_model : forall N brk (h : hit N), Formulas.baseDamage N brk h = baseDamage N brk h.
Proof. reflexivity. Qed.
Lemma gen_bonusDamage_is_model : forall N (h : hit N), Formulas.bonusDamage N h = bonusDamage N h.
Proof. reflexivity. Qed.
Lemma gen_defMult_is_model : forall N (h : hit N), Formulas.defMult N h = defMult N h.
Proof. reflexivity. Qed.
Lemma gen_res_is_model : forall N (h : hit N), Formulas.res N h = res N h.
Proof. reflexivity. Qed.
Lemma gen_vul_is_model : forall N (h : hit N), Formulas.vul N h = vul N h.
Proof. reflexivity. Qed.
Lemma gen_toughness_is_model : forall N (h : hit N), Formulas.toughness N h = toughness N h.
Proof. reflexivity. Qed.
Lemma gen_damageReduce_is_model : forall N (h : hit N), Formulas.damageReduce N h = damageReduce N h.
Proof. reflexivity. Qed.
Lemma gen_critDmg_is_model : forall N (h : hit N) c, Formulas.critDmg N h c = critDmg N h c.
Proof. reflexivity. Qed.

(* crit(h, rdm): false without a draw when the hit is not eligible, else  draw < CritChance  *)
Lemma gen_crit_is_model : forall N (h : hit N) d,
  Formulas.crit N h d = (if crit_eligible N h then nltb N d (CritChance N (h_att N h)) else false).
Proof.
  intros N h d. unfold Formulas.crit, crit_eligible.
  change FormulasInfo.AttackType_DOT with atDOT. change FormulasInfo.AttackType_ELEMENT_DAMAGE with atELEMENT.
  destruct ((h_atype N h =? atDOT) || (h_atype N h =? atELEMENT) || h_pure N h); reflexivity.
Qed.

(* the model's crit step is the generated function applied to the next value of the random source *)
Lemma gen_crit_step_is_model : forall N w (h : hit N),
  fst (fst (crit_step N w h)) = Formulas.crit N h (fst (pop_draw N w)).
Proof.
  intros N w h. rewrite gen_crit_is_model. unfold crit_step.
  destruct (crit_eligible N h); [destruct (pop_draw N w)|]; reflexivity.
Qed.

(* ------------------------------------------------------------------ combat/hit.go *)

(* base, the eight factors in HitEnd order, and their left-to-right product *)
Lemma gen_performHit_damage_is_model : forall N (h : hit N) bd c,
  Formulas.performHit_damage N h bd c =
  (let base := nadd N (nmul N (nmul N bd (h_ratio N h)) (bonusDamage N h)) (h_flat N h) in
   (factors N h base c, product N (factors N h base c))).
Proof. reflexivity. Qed.

Lemma gen_newHit_ratio_is_model : forall N w target key idx source atype dtype terms energy stance ratio flat pure snapf,
  h_ratio N (new_hit N w target key idx source atype dtype terms energy stance ratio flat pure snapf) =
  Formulas.newHit_ratio N ratio.
Proof. reflexivity. Qed.

(* perform_hit, with every arithmetic expression replaced by its generated twin *)
Lemma gen_perform_hit_is_model : forall N brk w h0 adjs,
  perform_hit N brk w h0 adjs =
  (let h := with_event N h0 (apply_adjs N (h_att N h0, h_def N h0, h_terms N h0, h_flat N h0) adjs) in
   let att := s_id N (h_att N h) in
   let def := s_id N (h_def N h) in
   let start := IHitStart (h_key N h) (h_idx N h) att def (h_atype N h) (h_dtype N h) (sort_terms N (h_terms N h))
                          [h_energy N h; h_stance N h; h_ratio N h; h_flat N h] (h_pure N h) (h_snap N h) in
   let '(crit, w1, drawn) := crit_step N w h in
   match Formulas.baseDamage N brk h with
   | None => None
   | Some bd =>
       let '(fs, total) := Formulas.performHit_damage N h bd crit in
       let '(w2, shieldEvs, hpUpdate) := absorb N w1 def total in
       let '(w3, hpEvs) := modify_hp N w2 (h_key N h) def att (Formulas.performHit_hpAmount N h hpUpdate) true in
       let '(w4, stEvs) :=
         if Formulas.performHit_stanceCond N h hpUpdate
         then modify_stance N w3 (h_key N h) def att (Formulas.performHit_stanceAmount N h hpUpdate)
         else (w3, []) in
       let amount := Formulas.performHit_energyAmount N h hpUpdate in
       let receiver := if is_char N w4 att then att else def in
       let '(w5, enEvs) := modify_energy N w4 (h_key N h) receiver att amount in
       let fin := IHitEnd (h_key N h) (h_idx N h) att def (h_atype N h) (h_dtype N h)
                          (fs ++ [total; hpUpdate; nsub N total hpUpdate; ratio_left N w5 def])
                          crit (h_snap N h) in
       Some (w5, start :: drawn ++ shieldEvs ++ hpEvs ++ stEvs ++ enEvs ++ [fin])
   end).
Proof. reflexivity. Qed.

(* ------------------------------------------------------------------ shield/absorb.go (as modelled in CombatCore) *)

Lemma gen_dim_is_math_Dim : forall N x y, dim N x y = (let v := nsub N x y in if nleb N v (c0 N) then c0 N else v).
Proof. reflexivity. Qed.

(* one iteration of AbsorbDamage's loop: the recursion equation of absorb_loop in terms of the
   generated loop body *)
Lemma gen_absorb_loop_step_is_model : forall N k hp r damage dOut newMax maxId,
  absorb_loop N ((k, hp) :: r) damage dOut newMax maxId =
  (let '(hp', dOut', newMax', maxId') := Formulas.absorb_step N damage hp k dOut newMax maxId in
   let '(kept, removed, dO, nM, mI) := absorb_loop N r damage dOut' newMax' maxId' in
   if neqb N hp' (c0 N) then (kept, k :: removed, dO, nM, mI)
   else ((k, hp') :: kept, removed, dO, nM, mI)).
Proof.
  intros. cbn [absorb_loop]. unfold Formulas.absorb_step.
  destruct (nltb N newMax (dim N hp damage)); reflexivity.
Qed.

Lemma gen_absorb_init_is_model : forall N w target damage u sh,
  find_unit N (w_units N w) target = Some u -> u_shields N u = sh -> sh <> [] -> nleb N damage (c0 N) = false ->
  absorb N w target damage =
  (let '(dOut0, newMax0) := Formulas.absorb_init N damage in
   let oldMax := max_shield N sh (c0 N) in
   let '(kept, removed, dOut, newMax, maxId) := absorb_loop N sh damage dOut0 newMax0 (-1) in
   (upd N w (set_shields N u kept),
    map (fun k => IShieldRemoved k target) removed ++ [IShieldChange target maxId newMax oldMax damage dOut],
    dOut)).
Proof.
  intros N w target damage u sh Hf Hs Hne Hd. unfold absorb. rewrite Hf, Hs, Hd.
  destruct sh; [congruence|]. reflexivity.
Qed.

(* ------------------------------------------------------------------ summary used by Props/C04.v *)

Definition C04_formulas_statement : Prop :=
  (* damage.go *)
  (forall N brk (h : hit N), Formulas.baseDamage N brk h = baseDamage N brk h) /\
  (forall N (h : hit N), Formulas.bonusDamage N h = bonusDamage N h) /\
  (forall N (h : hit N), Formulas.defMult N h = defMult N h) /\
  (forall N (h : hit N), Formulas.res N h = res N h) /\
  (forall N (h : hit N), Formulas.vul N h = vul N h) /\
  (forall N (h : hit N), Formulas.toughness N h = toughness N h) /\
  (forall N (h : hit N), Formulas.damageReduce N h = damageReduce N h) /\
  (forall N (h : hit N) c, Formulas.critDmg N h c = critDmg N h c) /\
  (forall N (h : hit N) d,
     Formulas.crit N h d = (if crit_eligible N h then nltb N d (CritChance N (h_att N h)) else false)) /\
  (forall N w (h : hit N), fst (fst (crit_step N w h)) = Formulas.crit N h (fst (pop_draw N w))) /\
  (* hit.go: base, factors, product, HP / stance / energy amounts, hit ratio default *)
  (forall N (h : hit N) bd c,
     Formulas.performHit_damage N h bd c =
     (let base := nadd N (nmul N (nmul N bd (h_ratio N h)) (bonusDamage N h)) (h_flat N h) in
      (factors N h base c, product N (factors N h base c)))) /\
  (forall N (h : hit N) hp, Formulas.performHit_hpAmount N h hp = nopp N hp) /\
  (forall N (h : hit N) hp, Formulas.performHit_stanceCond N h hp = IsWeakTo N (h_def N h) (h_dtype N h)) /\
  (forall N (h : hit N) hp, Formulas.performHit_stanceAmount N h hp = nmul N (nopp N (h_stance N h)) (h_ratio N h)) /\
  (forall N (h : hit N) hp, Formulas.performHit_energyAmount N h hp = nmul N (h_energy N h) (h_ratio N h)) /\
  (forall N r, Formulas.newHit_ratio N r = (if nleb N r (c0 N) then c1 N else r)) /\
  (* stats.go, map.go, prop.go *)
  (forall N b p f, FormulasInfo.statCalc N b p f = statCalc N b p f) /\
  (forall N s, FormulasInfo.MaxHP N s = MaxHP N s) /\ (forall N s, FormulasInfo.ATK N s = ATK N s) /\
  (forall N s, FormulasInfo.DEF N s = DEF N s) /\ (forall N s, FormulasInfo.CurrentHP N s = CurrentHP N s) /\
  (forall N s, FormulasInfo.CritChance N s = CritChance N s) /\ (forall N s, FormulasInfo.CritDamage N s = CritDamage N s) /\
  (forall N s, FormulasInfo.BreakEffect N s = BreakEffect N s) /\ (forall N s, FormulasInfo.EnergyRegen N s = EnergyRegen N s) /\
  (forall N s dt, FormulasInfo.DamagePercent N s dt = DamagePercent N s dt) /\
  (forall N s dt, FormulasInfo.DamageRES N s dt = DamageRES N s dt) /\
  (forall N s p, FormulasInfo.GetProperty N s p = sget N s p) /\
  (forall N m p amt, FormulasInfo.PropMap_Modify N m p amt = modifyp N m p amt) /\
  (forall dt, FormulasInfo.prop_DamagePercent dt = dmgPercentProp dt) /\ (forall dt, FormulasInfo.prop_DamageRES dt = dmgRESProp dt) /\
  (forall dt, FormulasInfo.prop_DamagePEN dt = dmgPENProp dt) /\ (forall dt, FormulasInfo.prop_DamageTaken dt = dmgTakenProp dt) /\
  (* tables and enum values *)
  Formulas.BreakBaseDamage = break_table /\
  (forall t, Formulas.AttackType_IsQualified t = is_qualified t) /\
  (* attribute service and shield absorption as the hit model uses them *)
  (forall N st amount,
     FormulasAttr.modifyHPByAmount_ratio N st amount = clamp01 N (ndiv N (nadd N (CurrentHP N st) amount) (MaxHP N st))) /\
  (forall N maxS amount,
     FormulasAttr.setStance_amount N maxS amount = (if nltb N maxS amount then maxS else if nltb N amount (c0 N) then c0 N else amount)) /\
  (forall N st cur amount,
     FormulasAttr.modifyStance_amount N st cur amount = nadd N cur (nmul N amount (nadd N (c1 N) (sget N st pAllStanceDMGPercent)))) /\
  (forall N st cur amount,
     FormulasAttr.modifyEnergy_amount N st cur amount = nadd N cur (nmul N amount (nadd N (c1 N) (EnergyRegen N st)))) /\
  (forall N maxE a,
     FormulasAttr.setEnergy_amount N maxE a = (if nltb N maxE a then maxE else if nltb N a (c0 N) then c0 N else a)) /\
  (forall N k hp r damage dOut newMax maxId,
     absorb_loop N ((k, hp) :: r) damage dOut newMax maxId =
     (let '(hp', dOut', newMax', maxId') := Formulas.absorb_step N damage hp k dOut newMax maxId in
      let '(kept, removed, dO, nM, mI) := absorb_loop N r damage dOut' newMax' maxId' in
      if neqb N hp' (c0 N) then (kept, k :: removed, dO, nM, mI)
      else ((k, hp') :: kept, removed, dO, nM, mI))).

Lemma C04_formulas_hold : C04_formulas_statement.
Proof.
  unfold C04_formulas_statement.
  repeat match goal with |- _ /\ _ => split end;
    try reflexivity;
    first [ exact gen_crit_is_model | exact gen_crit_step_is_model | exact gen_IsQualified_is_model
          | exact gen_absorb_loop_step_is_model ].
Qed.

