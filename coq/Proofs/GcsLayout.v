(* C14, layout independence of the lexer model (Model/GcsLex.v).

   A source text is rendered from a list of lexemes (token type + text) and separators drawn from
   white space (space, tab, CR, LF), '#' comments and '//' comments (each closed by a newline; the
   last one of the file may also be closed by the end of the file).  [layout_ok] says, byte for
   byte, which renderings keep adjacent tokens apart for THIS lexer:
     * every lexeme is a text the lexer can produce for its type ([lexeme_ok]);
     * the byte that follows a lexeme (first byte of the separator, or of the next lexeme when the
       separator is empty, or the end of the file) does not extend or spoil it ([follow_ok]): a
       word must be followed by one of the lexer's identifier terminators (so a comment may not
       directly follow a word, and 'a*b' is an error), a number by no digit (and no '.' when it has
       none), '=' '>' '!' by no '=', '<' by no '=' or '>', '/' by no '/', '-' by no digit;
     * no closing bracket without an opening one of its kind before it ([depth_ok]).
   Theorem [C14_layout_holds]: for every such rendering the lexer returns exactly the lexemes (type
   and text), then ItemEOF - whatever the separators are.  [ws_layout_ok]: putting at least one white
   space character between any two lexemes always satisfies [follow_ok]. *)
From Coq Require Import List ZArith Bool String Ascii Lia FMapPositive.
From SR Require Import Base.CaseLib Model.GcsAst Model.GcsUnicode Model.GcsLex Proofs.GcsLexProofs.
Import ListNotations.
Open Scope Z_scope.

(* ------------------------------------------------------------------------------------------ *)
(* bytes and strings                                                                           *)
(* ------------------------------------------------------------------------------------------ *)
Definition byte_ok (b : Z) : Prop := 0 <= b < 256.
Definition bytes_ok (l : list Z) : Prop := Forall byte_ok l.

Lemma ascii_code_range : forall a, 0 <= ascii_code a < 256.
Proof.
  intros a. unfold ascii_code. pose proof (N_ascii_bounded a) as H.
  split; [apply N2Z.is_nonneg|]. change 256 with (Z.of_N 256). apply N2Z.inj_lt. exact H.
Qed.
Lemma string_bytes_ok : forall s, bytes_ok (string_bytes s).
Proof. induction s as [|a s IH]; constructor; [apply ascii_code_range|exact IH]. Qed.
Lemma ascii_of_code_code : forall a, ascii_of_code (ascii_code a) = a.
Proof. intros a. unfold ascii_of_code, ascii_code. rewrite N2Z.id. apply ascii_N_embedding. Qed.
Lemma bytes_string_bytes : forall s, bytes_string (string_bytes s) = s.
Proof. induction s as [|a s IH]; cbn [string_bytes bytes_string]; [reflexivity|]. rewrite ascii_of_code_code, IH. reflexivity. Qed.
Lemma bytes_ok_app : forall a b, bytes_ok (a ++ b) <-> bytes_ok a /\ bytes_ok b.
Proof. intros a b. unfold bytes_ok. apply Forall_app. Qed.

(* ------------------------------------------------------------------------------------------ *)
(* reading the input built from a byte list                                                    *)
(* ------------------------------------------------------------------------------------------ *)
Lemma fill_below : forall bs i m j, (j < i)%positive ->
  PositiveMap.find j (fill bs i m) = PositiveMap.find j m.
Proof.
  induction bs as [|b r IH]; intros i m j H; cbn [fill]; [reflexivity|].
  rewrite IH by lia. apply PositiveMap.gso. lia.
Qed.
Lemma fill_find : forall bs i m j, (i <= j)%positive ->
  PositiveMap.find j (fill bs i m) =
  match nth_error bs (Pos.to_nat j - Pos.to_nat i) with
  | Some b => Some b
  | None => PositiveMap.find j m
  end.
Proof.
  induction bs as [|b r IH]; intros i m j H; cbn [fill].
  - destruct (Pos.to_nat j - Pos.to_nat i)%nat; reflexivity.
  - destruct (Pos.eq_dec i j) as [->|Hne].
    + rewrite fill_below by lia. rewrite PositiveMap.gss. rewrite Nat.sub_diag. reflexivity.
    + rewrite IH by lia.
      replace (Pos.to_nat j - Pos.to_nat i)%nat with (S (Pos.to_nat j - Pos.to_nat (Pos.succ i)))%nat by lia.
      cbn [nth_error]. destruct (nth_error r _); [reflexivity|]. apply PositiveMap.gso. lia.
Qed.

Lemma get_nth : forall bs i, 0 <= i -> bytes_ok bs ->
  in_get (mk_input bs) i = nth (Z.to_nat i) bs 0.
Proof.
  intros bs i Hi Hb. unfold mk_input. cbn [in_get].
  rewrite fill_find by lia. rewrite PositiveMap.gempty.
  replace (Pos.to_nat (Z.to_pos (i + 1)) - Pos.to_nat 1)%nat with (Z.to_nat i) by lia.
  destruct (nth_error bs (Z.to_nat i)) as [b|] eqn:E.
  - rewrite (nth_error_nth _ _ 0 E). apply Z.mod_small.
    unfold bytes_ok in Hb. rewrite Forall_forall in Hb. apply Hb. eapply nth_error_In. exact E.
  - rewrite nth_overflow; [reflexivity|]. apply nth_error_None. exact E.
Qed.

(* ------------------------------------------------------------------------------------------ *)
(* UTF-8 decoding as a function of the bytes at hand                                           *)
(* ------------------------------------------------------------------------------------------ *)
Definition dec5 (n b0 b1 b2 b3 : Z) : Z * Z :=
  if b0 <? 128 then (b0, 1)
  else if (b0 <? 194) || (244 <? b0) then (rune_error, 1)
  else if b0 <? 224 then
    if n <? 2 then (rune_error, 1)
    else if is_cont b1 then ((b0 - 192) * 64 + (b1 - 128), 2) else (rune_error, 1)
  else if b0 <? 240 then
    if n <? 3 then (rune_error, 1)
    else let lo := if b0 =? 224 then 160 else 128 in
         let hi := if b0 =? 237 then 159 else 191 in
         if (lo <=? b1) && (b1 <=? hi) && is_cont b2
         then ((b0 - 224) * 4096 + (b1 - 128) * 64 + (b2 - 128), 3) else (rune_error, 1)
  else
    if n <? 4 then (rune_error, 1)
    else let lo := if b0 =? 240 then 144 else 128 in
         let hi := if b0 =? 244 then 143 else 191 in
         if (lo <=? b1) && (b1 <=? hi) && is_cont b2 && is_cont b3
         then ((b0 - 240) * 262144 + (b1 - 128) * 4096 + (b2 - 128) * 64 + (b3 - 128), 4)
         else (rune_error, 1).

Lemma decode_dec5 : forall inp p,
  decode inp p = dec5 (in_len inp - p) (in_get inp p) (in_get inp (p + 1)) (in_get inp (p + 2)) (in_get inp (p + 3)).
Proof. reflexivity. Qed.

(* the rune at the head of a byte list *)
Definition ldec (l : list Z) : Z * Z :=
  dec5 (Z.of_nat (List.length l)) (nth 0 l 0) (nth 1 l 0) (nth 2 l 0) (nth 3 l 0).

Ltac zb :=
  repeat match goal with
  | H : (_ <? _) = true |- _ => apply Z.ltb_lt in H
  | H : (_ <? _) = false |- _ => apply Z.ltb_ge in H
  | H : (_ =? _) = true |- _ => apply Z.eqb_eq in H
  | H : (_ =? _) = false |- _ => apply Z.eqb_neq in H
  | H : (_ <=? _) = true |- _ => apply Z.leb_le in H
  | H : (_ <=? _) = false |- _ => apply Z.leb_gt in H
  | H : (_ && _) = true |- _ => apply andb_true_iff in H; destruct H
  | H : (_ || _) = true |- _ => apply orb_true_iff in H
  | H : (_ || _) = false |- _ => apply orb_false_iff in H; destruct H
  | H : negb _ = true |- _ => apply negb_true_iff in H
  | H : negb _ = false |- _ => apply negb_false_iff in H
  end.

(* a successful multi-byte decoding: a rune >= 128, the bytes after the first are continuation
   bytes (>= 128) and all lie inside the text *)
Lemma dec5_hi : forall n b0 b1 b2 b3 r w, 128 <= b0 -> 1 <= n -> dec5 n b0 b1 b2 b3 = (r, w) ->
  128 <= r /\ 1 <= w <= 4 /\ w <= n /\
  (2 <= w -> 128 <= b1) /\ (3 <= w -> 128 <= b2) /\ (4 <= w -> 128 <= b3).
Proof.
  intros n b0 b1 b2 b3 r w H0 Hn H. unfold dec5, rune_error, is_cont in H.
  repeat match type of H with
  | context [if ?c then _ else _] => destruct c eqn:?
  end; inversion H; subst; clear H; zb;
  repeat match goal with
  | H : context [if ?c then _ else _] |- _ => destruct c eqn:?
  end; zb; repeat split; intros; try lia.
Qed.

(* a decoding that did not fail does not depend on what follows its bytes *)
Lemma dec5_stable : forall n b0 b1 b2 b3 r w, dec5 n b0 b1 b2 b3 = (r, w) -> r <> rune_error ->
  forall n' c1 c2 c3, n <= n' -> (2 <= w -> c1 = b1) -> (3 <= w -> c2 = b2) -> (4 <= w -> c3 = b3) ->
  dec5 n' b0 c1 c2 c3 = (r, w).
Proof.
  intros n b0 b1 b2 b3 r w H Hr n' c1 c2 c3 Hn H1 H2 H3. unfold dec5 in *.
  destruct (b0 <? 128); [exact H|].
  destruct ((b0 <? 194) || (244 <? b0)); [exact H|].
  destruct (b0 <? 224).
  - destruct (n <? 2) eqn:E; [inversion H; subst; contradiction|]. zb.
    replace (n' <? 2) with false by (symmetry; apply Z.ltb_ge; lia).
    destruct (is_cont b1) eqn:C; [|inversion H; subst; contradiction].
    inversion H; subst. rewrite (H1 ltac:(lia)), C. reflexivity.
  - destruct (b0 <? 240).
    + destruct (n <? 3) eqn:E; [inversion H; subst; contradiction|]. zb.
      replace (n' <? 3) with false by (symmetry; apply Z.ltb_ge; lia).
      cbv zeta in *.
      match type of H with (if ?c then _ else _) = _ => destruct c eqn:C end; [|inversion H; subst; contradiction].
      inversion H; subst. rewrite (H1 ltac:(lia)), (H2 ltac:(lia)), C. reflexivity.
    + destruct (n <? 4) eqn:E; [inversion H; subst; contradiction|]. zb.
      replace (n' <? 4) with false by (symmetry; apply Z.ltb_ge; lia).
      cbv zeta in *.
      match type of H with (if ?c then _ else _) = _ => destruct c eqn:C end; [|inversion H; subst; contradiction].
      inversion H; subst. rewrite (H1 ltac:(lia)), (H2 ltac:(lia)), (H3 ltac:(lia)), C. reflexivity.
Qed.

Lemma dec5_width : forall n b0 b1 b2 b3, 1 <= snd (dec5 n b0 b1 b2 b3) <= 4.
Proof.
  intros. unfold dec5.
  repeat match goal with |- context [if ?c then _ else _] => destruct c end; cbn [snd]; lia.
Qed.

Lemma nth_skipn_add : forall (n : nat) (l : list Z) i d, nth i (skipn n l) d = nth (n + i) l d.
Proof.
  induction n as [|n IH]; intros l i d; [reflexivity|].
  destruct l as [|x l]; [destruct i; reflexivity|]. cbn [skipn plus nth]. apply IH.
Qed.

Lemma nth_firstn_lt : forall (n : nat) (l : list Z) i d, (i < n)%nat -> nth i (firstn n l) d = nth i l d.
Proof.
  induction n as [|n IH]; intros l i d H; [lia|].
  destruct l as [|x l]; [destruct i; reflexivity|]. destruct i as [|i]; [reflexivity|]. cbn [firstn nth]. apply IH. lia.
Qed.
Lemma skipn_add : forall (m n : nat) (l : list Z), skipn (m + n) l = skipn n (skipn m l).
Proof.
  induction m as [|m IH]; intros n l; [reflexivity|].
  destruct l as [|x l]; cbn [plus skipn]; [destruct n; reflexivity|apply IH].
Qed.

(* ------------------------------------------------------------------------------------------ *)
(* lexemes, separators, rendering                                                              *)
(* ------------------------------------------------------------------------------------------ *)
Record lexeme := LX { lx_typ : toktype; lx_txt : string }.

(* longest prefix of ASCII digits *)
Fixpoint span_dig (l : list Z) : list Z * list Z :=
  match l with
  | c :: r => if is_ascii_digit c then let (a, b) := span_dig r in (c :: a, b) else ([], l)
  | [] => ([], [])
  end.
Definition nonnil (l : list Z) : bool := match l with [] => false | _ => true end.

(* the texts lexNumber produces when entered from lexText:  [-] digits [ . digits ]  with a digit
   after a leading '-', and a digit first or after a leading '.'; Some b: b = "has a dot" *)
Definition number_shape (t : list Z) : option bool :=
  let sg := match t with c :: _ => c =? 45 | [] => false end in
  let t1 := if sg then tl t else t in
  let (d1, t2) := span_dig t1 in
  match t2 with
  | [] => if nonnil d1 then Some false else None
  | c :: t3 =>
      if c =? 46 then
        let (d2, t4) := span_dig t3 in
        match t4 with
        | [] => if (if sg then nonnil d1 else nonnil d1 || nonnil d2) then Some true else None
        | _ => None
        end
      else None
  end.

(* every rune of the text satisfies P (decoded as the lexer does); n = fuel >= number of bytes + 1 *)
Fixpoint runes_all (P : Z -> bool) (n : nat) (l : list Z) : bool :=
  match n with
  | O => false
  | S n =>
      match l with
      | [] => true
      | _ => let '(r, w) := ldec l in P r && runes_all P n (skipn (Z.to_nat w) l)
      end
  end.
(* a word: alphanumeric runes ( _ - % letters digits ), not starting with an ASCII digit or '-' *)
Definition word_ok (t : list Z) : bool :=
  match t with
  | [] => false
  | c :: _ => negb (is_ascii_digit c) && negb (c =? 45) && runes_all is_alnum (S (List.length t)) t
  end.

(* the inside of a string literal after the opening quote, up to and including the closing one:
   a backslash takes the next character with it (not a newline), no bare newline *)
Fixpoint str_scan (l : list Z) : bool :=
  match l with
  | [] => false
  | c :: t =>
      if c =? 92 then
        match t with
        | [] => false
        | c2 :: t2 => if c2 =? 10 then false else str_scan t2
        end
      else if c =? 10 then false
      else if c =? 34 then (match t with [] => true | _ => false end)
      else str_scan t
  end.
Definition string_ok (t : list Z) : bool :=
  match t with c :: body => (c =? 34) && str_scan body | [] => false end.

Definition is_word_type (k : toktype) : bool :=
  match k with
  | ItemIdentifier | ItemBool | ItemNull | KeywordLet | KeywordWhile | KeywordIf | KeywordElse | KeywordFn
  | KeywordSwitch | KeywordCase | KeywordDefault | KeywordBreak | KeywordContinue | KeywordFallthrough
  | KeywordReturn | KeywordFor => true
  | _ => false
  end.

Definition op_text_ok (k : toktype) (v : string) : bool :=
  match k with
  | ItemTerminateLine => string_eqb v ";" | ItemAssign => string_eqb v "=" | ItemComma => string_eqb v ","
  | ItemLeftParen => string_eqb v "(" | ItemRightParen => string_eqb v ")"
  | ItemLeftSquareParen => string_eqb v "[" | ItemRightSquareParen => string_eqb v "]"
  | ItemLeftBrace => string_eqb v "{" | ItemRightBrace => string_eqb v "}"
  | ItemColon => string_eqb v ":" | ItemPlus => string_eqb v "+" | ItemMinus => string_eqb v "-"
  | ItemAsterisk => string_eqb v "*" | ItemForwardSlash => string_eqb v "/"
  | LogicNot => string_eqb v "!" | LogicAnd => string_eqb v "&&" | LogicOr => string_eqb v "||"
  | OpEqual => string_eqb v "==" | OpNotEqual => string_eqb v "!=" || string_eqb v "<>"
  | OpGreaterThan => string_eqb v ">" | OpGreaterThanOrEqual => string_eqb v ">="
  | OpLessThan => string_eqb v "<" | OpLessThanOrEqual => string_eqb v "<="
  | _ => false
  end.

(* the text is one the lexer produces for this token type *)
Definition lexeme_ok (x : lexeme) : bool :=
  let k := lx_typ x in let v := lx_txt x in
  if is_word_type k then toktype_eqb k (word_type v) && word_ok (string_bytes v)
  else match k with
       | ItemNumber => match number_shape (string_bytes v) with Some _ => true | None => false end
       | ItemString => string_ok (string_bytes v)
       | _ => op_text_ok k v
       end.

(* the byte after the lexeme (eof = -1 at the end of the file) neither extends nor spoils it *)
Definition follow_ok (x : lexeme) (c : Z) : bool :=
  let k := lx_typ x in
  if is_word_type k then is_terminator c
  else match k with
       | ItemNumber =>
           match number_shape (string_bytes (lx_txt x)) with
           | Some true => negb (is_ascii_digit c)
           | Some false => negb (is_ascii_digit c) && negb (c =? 46)
           | None => false
           end
       | ItemAssign | OpGreaterThan | LogicNot => negb (c =? 61)
       | OpLessThan => negb (c =? 61) && negb (c =? 62)
       | ItemForwardSlash => negb (c =? 47)
       | ItemMinus => negb (is_ascii_digit c)
       | _ => true
       end.

(* bracket depths: ( ) [ ] { } are counted separately, a count may not become negative *)
Definition dstep (d : Z * Z * Z) (k : toktype) : option (Z * Z * Z) :=
  let '(a, b, c) := d in
  match k with
  | ItemLeftParen => Some (a + 1, b, c)
  | ItemRightParen => if a - 1 <? 0 then None else Some (a - 1, b, c)
  | ItemLeftSquareParen => Some (a, b + 1, c)
  | ItemRightSquareParen => if b - 1 <? 0 then None else Some (a, b - 1, c)
  | ItemLeftBrace => Some (a, b, c + 1)
  | ItemRightBrace => if c - 1 <? 0 then None else Some (a, b, c - 1)
  | _ => Some d
  end.
Fixpoint depth_ok (d : Z * Z * Z) (l : list lexeme) : bool :=
  match l with
  | [] => true
  | x :: r => match dstep d (lx_typ x) with Some d' => depth_ok d' r | None => false end
  end.

(* one piece of layout: a white-space character, or a comment with its closing newline *)
Inductive litem := LWs (c : Z) | LHash (body : string) | LSlash (body : string).
Definition no_nl (l : list Z) : bool := forallb (fun b => negb (b =? 10)) l.
Definition litem_ok (i : litem) : bool :=
  match i with LWs c => is_space c | LHash b | LSlash b => no_nl (string_bytes b) end.
Definition render_item (i : litem) : list Z :=
  match i with
  | LWs c => [c]
  | LHash b => 35 :: string_bytes b ++ [10]
  | LSlash b => 47 :: 47 :: string_bytes b ++ [10]
  end.
Definition render_sep (s : list litem) : list Z := flat_map render_item s.

(* the end of the file: layout, then possibly a comment closed by the end of the file
   (true: '#', false: '//') *)
Definition tail := (list litem * option (bool * string))%type.
Definition tail_ok (f : tail) : bool :=
  forallb litem_ok (fst f) && match snd f with Some (_, b) => no_nl (string_bytes b) | None => true end.
Definition render_tail (f : tail) : list Z :=
  render_sep (fst f) ++
  match snd f with
  | Some (true, b) => 35 :: string_bytes b
  | Some (false, b) => 47 :: 47 :: string_bytes b
  | None => []
  end.

(* separator, lexeme, separator, lexeme, ..., tail *)
Fixpoint render (items : list (list litem * lexeme)) (f : tail) : list Z :=
  match items with
  | [] => render_tail f
  | (sep, x) :: r => render_sep sep ++ string_bytes (lx_txt x) ++ render r f
  end.

Definition first_byte (s : list Z) : Z := match s with [] => -1 | c :: _ => c end.

Fixpoint layout_ok (items : list (list litem * lexeme)) (f : tail) : bool :=
  match items with
  | [] => tail_ok f
  | (sep, x) :: r =>
      forallb litem_ok sep && lexeme_ok x && follow_ok x (first_byte (render r f)) && layout_ok r f
  end.

(* ------------------------------------------------------------------------------------------ *)
(* the lexer on a fixed byte list                                                              *)
(* ------------------------------------------------------------------------------------------ *)
Section Lay.
Variable bs : list Z.
Hypothesis Hbs : bytes_ok bs.
Notation inp := (mk_input bs).
Notation len := (in_len (mk_input bs)).

Lemma len_eq : len = Z.of_nat (List.length bs).
Proof. reflexivity. Qed.
Lemma len_nonneg : 0 <= len.
Proof. apply mk_input_len. Qed.
Lemma get_range : forall i, 0 <= in_get inp i < 256.
Proof. apply mk_input_range. Qed.

(* [Suf k s]: the text from byte offset k on is s *)
Definition Suf (k : Z) (s : list Z) : Prop := 0 <= k <= len /\ skipn (Z.to_nat k) bs = s.

Lemma Suf_len : forall k s, Suf k s -> Z.of_nat (List.length s) = len - k.
Proof. intros k s [Hk <-]. rewrite skipn_length. pose proof len_eq as L. lia. Qed.
Lemma Suf_get : forall k s i, Suf k s -> 0 <= i -> in_get inp (k + i) = nth (Z.to_nat i) s 0.
Proof.
  intros k s i [Hk <-] Hi. rewrite get_nth by (try lia; exact Hbs). rewrite nth_skipn_add.
  f_equal. lia.
Qed.
Lemma Suf_app : forall k a s, Suf k (a ++ s) -> Suf (k + Z.of_nat (List.length a)) s.
Proof.
  intros k a s H. pose proof (Suf_len _ _ H) as L. destruct H as [Hk E]. rewrite app_length in L. split; [lia|].
  replace (Z.to_nat (k + Z.of_nat (List.length a))) with (Z.to_nat k + List.length a)%nat by lia.
  rewrite skipn_add, E. rewrite skipn_app, skipn_all, Nat.sub_diag. reflexivity.
Qed.
Lemma Suf_cons : forall k c s, Suf k (c :: s) -> Suf (k + 1) s.
Proof. intros k c s H. apply (Suf_app k [c] s). exact H. Qed.
Lemma Suf_lt : forall k c s, Suf k (c :: s) -> k < len.
Proof. intros k c s H. pose proof (Suf_len _ _ H) as L. cbn [List.length] in L. lia. Qed.
Lemma Suf_head : forall k c s, Suf k (c :: s) -> in_get inp k = c.
Proof. intros k c s H. pose proof (Suf_get k _ 0 H ltac:(lia)) as G. rewrite Z.add_0_r in G. exact G. Qed.
Lemma Suf_nil : forall k, Suf k [] -> k = len.
Proof. intros k H. pose proof (Suf_len _ _ H) as L. cbn [List.length] in L. destruct H. lia. Qed.
Lemma Suf_bytes : forall k s, Suf k s -> bytes_ok s.
Proof.
  intros k s [_ <-]. unfold bytes_ok in *. rewrite Forall_forall in *. intros x Hx. apply Hbs.
  rewrite <- (firstn_skipn (Z.to_nat k) bs). apply in_or_app. right. exact Hx.
Qed.
Lemma Suf_decode : forall k s, Suf k s -> decode inp k = ldec s.
Proof.
  intros k s H. rewrite decode_dec5. unfold ldec. rewrite (Suf_len _ _ H).
  pose proof (Suf_get k s 0 H ltac:(lia)) as G0. rewrite Z.add_0_r in G0.
  rewrite G0, (Suf_get k s 1 H), (Suf_get k s 2 H), (Suf_get k s 3 H) by lia. reflexivity.
Qed.
Lemma Suf0 : Suf 0 bs.
Proof. split; [pose proof len_nonneg; lia|reflexivity]. Qed.

(* ---- the result of a run of state functions, without fuel ---- *)
Inductive Run : option lstate -> lexer -> list ltoken -> Prop :=
| Run_stop : forall l, Run None l []
| Run_step : forall s l em l' nx ts,
    lex_step inp s l = LNext em l' nx -> Run nx l' ts -> Run (Some s) l (em ++ ts).

Lemma drain_run : forall n st l ts pend acc r, Run st l ts ->
  drain n inp (PRun pend l st) acc = Ok r -> r = rev acc ++ pend ++ ts.
Proof.
  induction n as [|n IH]; intros st l ts pend acc r HR H.
  - cbn [drain] in H. destruct pend as [|t pend]; [|discriminate].
    destruct st as [s|]; [discriminate|]. inversion H; subst. inversion HR; subst. rewrite app_nil_r. reflexivity.
  - cbn [drain] in H. destruct pend as [|t pend].
    + destruct st as [s|].
      * inversion HR as [|s0 l0 em l' nx ts' E HR']; subst.
        rewrite E in H. rewrite (IH _ _ _ _ _ _ HR' H). reflexivity.
      * inversion H; subst. inversion HR; subst. rewrite app_nil_r. reflexivity.
    + rewrite (IH _ _ _ _ _ _ HR H). cbn [rev]. rewrite <- app_assoc. reflexivity.
Qed.

Lemma run_lex_all : forall ts, Run (Some SText) init_lexer ts -> lex_all inp = Ok ts.
Proof.
  intros ts HR. destruct (lex_all_ok inp len_nonneg get_range) as [r E]. rewrite E. f_equal.
  unfold lex_all, producer0 in E. apply (drain_run _ _ _ _ _ _ _ HR E).
Qed.

(* ---- registers ---- *)
Definition deps (l : lexer) : Z * Z * Z := (parenDepth l, sqParenDepth l, braceDepth l).
(* inside a token that started at s, k bytes read so far *)
Definition Mid (l : lexer) (s k : Z) (d : Z * Z * Z) : Prop := start l = s /\ pos l = k /\ deps l = d.
Definition At (l : lexer) (k : Z) (d : Z * Z * Z) : Prop := Mid l k k d.

Notation fb := first_byte.

Lemma next_byte : forall l s k d c rest, Mid l s k d -> Suf k (c :: rest) -> c < 128 ->
  exists l1, next inp l = Ok (c, l1) /\ Mid l1 s (k + 1) d /\ width l1 = 1.
Proof.
  intros l s k d c rest (Hs & Hp & Hd) HS Hc. unfold next. rewrite Hp.
  pose proof (Suf_lt _ _ _ HS) as Hlt. destruct HS as [Hk E0]. 
  replace (len <=? k) with false by (symmetry; apply Z.leb_gt; lia).
  replace (k <? 0) with false by (symmetry; apply Z.ltb_ge; lia).
  assert (HS : Suf k (c :: rest)) by (split; assumption).
  rewrite (decode_ascii inp k) by (rewrite (Suf_head _ _ _ HS); exact Hc).
  rewrite (Suf_head _ _ _ HS). eexists. split; [reflexivity|]. unfold Mid, deps, set_cursor. cbn. repeat split; assumption.
Qed.

Lemma next_eof : forall l s k d, Mid l s k d -> Suf k [] ->
  exists l1, next inp l = Ok (eof, l1) /\ Mid l1 s k d /\ width l1 = 0.
Proof.
  intros l s k d (Hs & Hp & Hd) HS. unfold next. rewrite Hp.
  replace (len <=? k) with true by (symmetry; apply Z.leb_le; pose proof (Suf_nil _ HS); lia).
  eexists. split; [reflexivity|]. unfold Mid, deps, set_cursor. cbn. repeat split; assumption.
Qed.

(* a rune that starts with a byte >= 128: it is >= 128 itself and all its bytes are *)
Lemma next_hi : forall l s k d c rest, Mid l s k d -> Suf k (c :: rest) -> 128 <= c ->
  exists r l1 hi rest', next inp l = Ok (r, l1) /\ 128 <= r /\ c :: rest = hi ++ rest' /\ hi <> [] /\
    Forall (fun b => 128 <= b) hi /\ Mid l1 s (k + Z.of_nat (List.length hi)) d /\
    width l1 = Z.of_nat (List.length hi) /\ (r, Z.of_nat (List.length hi)) = ldec (c :: rest).
Proof.
  intros l s k d c rest (Hs & Hp & Hd) HS Hc. unfold next. rewrite Hp.
  pose proof (Suf_lt _ _ _ HS) as Hlt. pose proof HS as [Hk _].
  replace (len <=? k) with false by (symmetry; apply Z.leb_gt; lia).
  replace (k <? 0) with false by (symmetry; apply Z.ltb_ge; lia).
  rewrite (Suf_decode _ _ HS). destruct (ldec (c :: rest)) as [r w] eqn:E.
  unfold ldec in E. cbn [nth] in E.
  assert (Hn1 : 1 <= Z.of_nat (List.length (c :: rest))) by (cbn [List.length]; lia).
  destruct (dec5_hi _ _ _ _ _ _ _ Hc Hn1 E) as (Hr & Hw & Hwn & H1 & H2 & H3).
  exists r, (set_cursor l (k + w) w (if r =? 10 then line l + 1 else line l)).
  exists (firstn (Z.to_nat w) (c :: rest)), (skipn (Z.to_nat w) (c :: rest)).
  assert (Hlen : Z.of_nat (List.length (firstn (Z.to_nat w) (c :: rest))) = w).
  { rewrite firstn_length. lia. }
  split; [reflexivity|]. split; [exact Hr|]. split; [symmetry; apply firstn_skipn|].
  split; [intro X; rewrite X in Hlen; cbn in Hlen; lia|].
  split.
  - (* the bytes of the rune *)
    apply Forall_forall. intros b Hb. apply In_nth with (d := 0) in Hb. destruct Hb as (i & Hi & <-).
    rewrite firstn_length in Hi. rewrite nth_firstn_lt by lia.
    destruct i as [|[|[|[|i]]]]; cbn [nth]; [exact Hc|apply H1; lia|apply H2; lia|apply H3; lia|lia].
  - rewrite Hlen. unfold Mid, deps, set_cursor. cbn. repeat split; try assumption.
Qed.

Lemma backup1 : forall l s k d, Mid l s k d -> width l = 1 -> 1 <= k <= len ->
  exists l1, backup inp l = Ok l1 /\ Mid l1 s (k - 1) d /\ width l1 = 1.
Proof.
  intros l s k d (Hs & Hp & Hd) Hw Hk. unfold backup. rewrite Hw, Hp. cbn [Z.eqb Pos.eqb].
  replace ((k - 1 <? 0) || (len <=? k - 1)) with false.
  - eexists. split; [reflexivity|]. unfold Mid, deps, set_cursor. cbn. repeat split; assumption.
  - symmetry. apply orb_false_iff. split; [apply Z.ltb_ge|apply Z.leb_gt]; lia.
Qed.
(* after any successful next: back where we were *)
Lemma backup_w : forall l s k d w, Mid l s (k + w) d -> width l = w -> 0 <= w -> 0 <= k -> k + w <= len ->
  (w = 0 \/ k < len) ->
  exists l1, backup inp l = Ok l1 /\ Mid l1 s k d /\ width l1 = w.
Proof.
  intros l s k d w (Hs & Hp & Hd) Hw H0 Hk Hl Hlt. unfold backup. rewrite Hw, Hp.
  replace (k + w - w) with k by lia.
  destruct (w =? 1) eqn:E.
  - replace ((k <? 0) || (len <=? k)) with false.
    + eexists. split; [reflexivity|]. unfold Mid, deps, set_cursor. cbn. repeat split; assumption.
    + symmetry. apply orb_false_iff. zb. split; [apply Z.ltb_ge|apply Z.leb_gt]; lia.
  - eexists. split; [reflexivity|]. unfold Mid, deps, set_cursor. cbn. repeat split; assumption.
Qed.

(* look at the next rune and come back: what the rune is, as far as ASCII tests can tell *)
Lemma next_back : forall l s k d rest, Mid l s k d -> Suf k rest ->
  exists r l1 l2, next inp l = Ok (r, l1) /\ backup inp l1 = Ok l2 /\ Mid l2 s k d /\
    ((fb rest < 128 /\ r = fb rest) \/ (128 <= fb rest /\ 128 <= r /\ (r, width l1) = ldec rest)) /\
    width l2 = width l1 /\ (rest <> [] -> Mid l1 s (k + width l1) d /\ 1 <= width l1 /\ k + width l1 <= len).
Proof.
  intros l s k d rest HM HS. destruct rest as [|c rest].
  - destruct (next_eof _ _ _ _ HM HS) as (l1 & E & M1 & W1).
    pose proof HS as [Hk _].
    destruct (backup_w l1 s k d 0) as (l2 & E2 & M2 & W2); try lia.
    + rewrite Z.add_0_r. exact M1.
    + exists eof, l1, l2.
      split; [exact E|]. split; [exact E2|]. split; [exact M2|]. split.
      * left. cbn [first_byte]. unfold eof. split; [lia|reflexivity].
      * split; [congruence|]. intro X. congruence.
  - pose proof (Suf_lt _ _ _ HS) as Hlt. pose proof HS as [Hk _].
    destruct (Z.lt_ge_cases c 128) as [Hc|Hc].
    + destruct (next_byte _ _ _ _ _ _ HM HS Hc) as (l1 & E & M1 & W1).
      destruct (backup_w l1 s k d 1) as (l2 & E2 & M2 & W2); try lia; try assumption.
      exists c, l1, l2.
      split; [exact E|]. split; [exact E2|]. split; [exact M2|]. split.
      * left. cbn [first_byte]. split; [lia|reflexivity].
      * split; [congruence|]. intros _. rewrite W1. split; [exact M1|lia].
    + destruct (next_hi _ _ _ _ _ _ HM HS Hc) as (r & l1 & hi & rest' & E & Hr & Eh & Hne & Hall & M1 & W1 & Ed).
      assert (Hl : k + Z.of_nat (List.length hi) <= len).
      { pose proof (Suf_len _ _ HS) as L. rewrite Eh, app_length in L. lia. }
      assert (Hh1 : 1 <= Z.of_nat (List.length hi)) by (destruct hi; [contradiction|cbn [List.length]; lia]).
      destruct (backup_w l1 s k d (Z.of_nat (List.length hi))) as (l2 & E2 & M2 & W2); try lia; try assumption.
      exists r, l1, l2.
      split; [exact E|]. split; [exact E2|]. split; [exact M2|]. split.
      * right. cbn [first_byte]. split; [lia|]. split; [exact Hr|]. rewrite W1. exact Ed.
      * split; [congruence|]. intros _. rewrite W1. split; [exact M1|lia].
Qed.


(* ---- emitting the text read since [start] ---- *)
Lemma bytes_string_app : forall a b, bytes_string (a ++ b) = String.append (bytes_string a) (bytes_string b).
Proof. induction a as [|x a IH]; intros b; cbn [app bytes_string String.append]; [reflexivity|]. rewrite IH. reflexivity. Qed.

Lemma str_app_assoc : forall a b c, String.append (String.append a b) c = String.append a (String.append b c).
Proof. induction a as [|x a IH]; intros b c; cbn [String.append]; [reflexivity|]. rewrite IH. reflexivity. Qed.

Lemma sub_go_spec : forall txt k rest acc, Suf k (txt ++ rest) ->
  sub_go inp (List.length txt) (k + Z.of_nat (List.length txt)) acc = String.append (bytes_string txt) acc.
Proof.
  induction txt as [|c t IH] using rev_ind; intros k rest acc HS; [reflexivity|].
  rewrite app_length. cbn [List.length]. rewrite Nat.add_1_r. cbn [sub_go].
  replace (k + Z.of_nat (S (List.length t)) - 1) with (k + Z.of_nat (List.length t)) by lia.
  rewrite <- app_assoc in HS. cbn [app] in HS.
  rewrite (Suf_get k _ (Z.of_nat (List.length t)) HS) by lia. rewrite Nat2Z.id.
  rewrite app_nth2 by lia. rewrite Nat.sub_diag. cbn [nth].
  rewrite (IH k (c :: rest) _ HS). rewrite bytes_string_app. cbn [bytes_string].
  rewrite str_app_assoc. reflexivity.
Qed.

Lemma emit_tok : forall l s d txt rest t, Mid l s (s + Z.of_nat (List.length txt)) d -> Suf s (txt ++ rest) ->
  exists l1, emit inp l t = Ok (LT t s (bytes_string txt) (startLine l), l1) /\
             At l1 (s + Z.of_nat (List.length txt)) d.
Proof.
  intros l s d txt rest t (Hs & Hp & Hd) HS. unfold emit, substr. rewrite Hs, Hp.
  pose proof (Suf_app _ _ _ HS) as [Hk2 _]. pose proof HS as [Hk _].
  replace (0 <=? s) with true by (symmetry; apply Z.leb_le; lia).
  replace (s <=? s + Z.of_nat (List.length txt)) with true by (symmetry; apply Z.leb_le; lia).
  replace (s + Z.of_nat (List.length txt) <=? len) with true by (symmetry; apply Z.leb_le; lia).
  cbn [andb bindR].
  replace (Z.to_nat (s + Z.of_nat (List.length txt) - s)) with (List.length txt) by lia.
  rewrite (sub_go_spec txt s rest EmptyString HS).
  assert (Ea : forall x, String.append x EmptyString = x) by (induction x as [|a x IHx]; cbn [String.append]; [reflexivity|rewrite IHx; reflexivity]).
  rewrite Ea. eexists. split; [reflexivity|]. unfold At, Mid, deps, set_start. cbn. repeat split; assumption.
Qed.

(* the continuation form of a result: whatever the rest of the run yields comes after *)
Definition Then (l : lexer) (em : list ltoken) (l' : lexer) : Prop :=
  forall ts, Run (Some SText) l' ts -> Run (Some SText) l (em ++ ts).
Lemma Then_refl : forall l, Then l [] l.
Proof. intros l ts H. exact H. Qed.
Lemma Then_trans : forall l1 e1 l2 e2 l3, Then l1 e1 l2 -> Then l2 e2 l3 -> Then l1 (e1 ++ e2) l3.
Proof. intros l1 e1 l2 e2 l3 A B ts H. rewrite <- app_assoc. apply A. apply B. exact H. Qed.
Lemma Then_step : forall l em l', lex_step inp SText l = LNext em l' (Some SText) -> Then l em l'.
Proof. intros l em l' E ts H. eapply Run_step; eassumption. Qed.

Lemma emit1_tok : forall l s d txt rest t, Mid l s (s + Z.of_nat (List.length txt)) d -> Suf s (txt ++ rest) ->
  exists tk l1, emit1 inp l t = LNext [tk] l1 (Some SText) /\ At l1 (s + Z.of_nat (List.length txt)) d /\
                lt_typ tk = t /\ lt_val tk = bytes_string txt.
Proof.
  intros l s d txt rest t HM HS. destruct (emit_tok l s d txt rest t HM HS) as (l1 & E & A).
  unfold emit1. rewrite E. cbn [lift]. eexists _, _. split; [reflexivity|]. split; [exact A|]. split; reflexivity.
Qed.

(* ---- white space ---- *)
Lemma ws_step : forall l s k d c rest, Mid l s k d -> is_space c = true -> Suf k (c :: rest) ->
  exists l', lex_step inp SText l = LNext [] l' (Some SText) /\ At l' (k + 1) d.
Proof.
  intros l s k d c rest HM Hc HS.
  assert (Hc4 : c = 32 \/ c = 9 \/ c = 10 \/ c = 13).
  { unfold is_space in Hc. repeat (apply orb_true_iff in Hc; destruct Hc as [Hc|Hc]); apply Z.eqb_eq in Hc; auto. }
  destruct (next_byte l s k d c rest HM HS ltac:(lia)) as (l1 & E & M1 & W1).
  exists (ignore l1). split.
  - cbn [lex_step]. unfold lex_text. rewrite E.
    destruct Hc4 as [->|[->|[->| ->]]]; reflexivity.
  - destruct M1 as (A & B & C). unfold At, Mid, ignore, set_start, deps in *. cbn. repeat split; assumption.
Qed.

(* ---- comments ---- *)
(* a run of bytes >= 128 cannot reach past a text that is followed by an ASCII byte or the end *)
Lemma split_hi : forall hi x body rest, hi ++ x = body ++ rest -> Forall (fun b => 128 <= b) hi ->
  fb rest < 128 -> exists body', body = hi ++ body' /\ x = body' ++ rest.
Proof.
  induction hi as [|h hi IH]; intros x body rest E Hall Hr; [exists body; split; [reflexivity|exact E]|].
  inversion Hall as [|h' hi' Hh Hall']; subst.
  destruct body as [|b body].
  - cbn [app] in E. subst rest. cbn [first_byte] in Hr. lia.
  - cbn [app] in E. inversion E; subst. destruct (IH _ _ _ H1 Hall' Hr) as (body' & -> & ->).
    exists body'. split; reflexivity.
Qed.

Lemma no_nl_forall : forall l, no_nl l = true -> Forall (fun b => b <> 10) l.
Proof.
  intros l H. unfold no_nl in H. rewrite forallb_forall in H. apply Forall_forall. intros b Hb.
  specialize (H b Hb). zb. exact H.
Qed.

Lemma comment_loop_ok : forall n body l s k d rest, Forall (fun b => b <> 10) body ->
  (fb rest = 10 \/ rest = []) -> Mid l s k d -> Suf k (body ++ rest) -> (List.length body < n)%nat ->
  exists l', comment_loop n inp l = Ok l' /\ Mid l' s (k + Z.of_nat (List.length body)) d.
Proof.
  induction n as [|n IH]; intros body l s k d rest Hb Hr HM HS Hn; [lia|].
  cbn [comment_loop]. destruct body as [|c t].
  - cbn [app] in HS. destruct (next_back l s k d rest HM HS) as (r & l1 & l2 & E & E2 & M2 & Hcl & _).
    rewrite E. cbn [bindR].
    assert (Hr2 : (r =? eof) || (r =? 10) = true).
    { destruct Hr as [Hr|Hr].
      - destruct Hcl as [[_ ->]|[Hx _]]; [rewrite Hr; reflexivity|lia].
      - subst rest. destruct Hcl as [[_ ->]|[Hx _]]; [reflexivity|cbn [first_byte] in Hx; lia]. }
    rewrite Hr2. exists l2. split; [exact E2|]. cbn [List.length]. rewrite Z.add_0_r. exact M2.
  - inversion Hb as [|c' t' Hc Ht]; subst. cbn [app] in HS.
    pose proof (Suf_bytes _ _ HS) as Hby. inversion Hby as [|c' t' Hcr _]; subst. unfold byte_ok in Hcr.
    destruct (Z.lt_ge_cases c 128) as [Hlt|Hge].
    + destruct (next_byte l s k d c _ HM HS Hlt) as (l1 & E & M1 & _). rewrite E. cbn [bindR].
      replace ((c =? eof) || (c =? 10)) with false.
      2:{ symmetry. apply orb_false_iff. split; apply Z.eqb_neq; unfold eof; lia. }
      destruct (IH t l1 s (k + 1) d rest Ht Hr M1 (Suf_cons _ _ _ HS)) as (l' & E' & M'); [cbn [List.length] in Hn; lia|].
      exists l'. split; [exact E'|]. cbn [List.length]. replace (k + Z.of_nat (S (List.length t))) with (k + 1 + Z.of_nat (List.length t)) by lia. exact M'.
    + destruct (next_hi l s k d c _ HM HS Hge) as (r & l1 & hi & rest' & E & Hr128 & Eh & Hne & Hall & M1 & _).
      rewrite E. cbn [bindR].
      replace ((r =? eof) || (r =? 10)) with false.
      2:{ symmetry. apply orb_false_iff. split; apply Z.eqb_neq; unfold eof; lia. }
      assert (Hfr : fb rest < 128) by (destruct Hr as [Hr|Hr]; [lia|subst rest; cbn; lia]).
      change (c :: t ++ rest) with ((c :: t) ++ rest) in Eh. symmetry in Eh.
      destruct (split_hi hi rest' (c :: t) rest Eh Hall Hfr) as (body' & Eb & ->).
      assert (Hb' : Forall (fun b => b <> 10) body').
      { rewrite Eb in Hb. apply Forall_app in Hb. apply Hb. }
      assert (HS' : Suf (k + Z.of_nat (List.length hi)) (body' ++ rest)).
      { apply Suf_app. rewrite app_assoc, <- Eb. exact HS. }
      assert (Hlen : List.length (c :: t) = (List.length hi + List.length body')%nat) by (rewrite Eb, app_length; reflexivity).
      assert (Hh1 : (1 <= List.length hi)%nat) by (destruct hi; [contradiction|cbn [List.length]; lia]).
      destruct (IH body' l1 s _ d rest Hb' Hr M1 HS') as (l' & E' & M'); [lia|].
      exists l'. split; [exact E'|]. rewrite Hlen. rewrite Nat2Z.inj_add, Z.add_assoc. exact M'.
Qed.

Lemma loop_fuel_gt : forall l k s, pos l = k -> Suf k s -> (List.length s < loop_fuel inp l)%nat.
Proof. intros l k s Hp HS. unfold loop_fuel. rewrite Hp. pose proof (Suf_len _ _ HS). lia. Qed.

(* the body of a comment, entered with the registers at its first byte *)
Lemma comment_step : forall l k d body rest, At l k d -> Forall (fun b => b <> 10) body ->
  (fb rest = 10 \/ rest = []) -> Suf k (body ++ rest) ->
  exists l', lex_step inp SComment l = LNext [] l' (Some SText) /\ Mid l' k (k + Z.of_nat (List.length body)) d.
Proof.
  intros l k d body rest HA Hb Hr HS. cbn [lex_step]. unfold lex_comment.
  destruct (comment_loop_ok (loop_fuel inp l) body l k k d rest Hb Hr HA HS) as (l' & E & M').
  - pose proof (loop_fuel_gt l k _ (proj1 (proj2 HA)) HS) as F. rewrite app_length in F. lia.
  - rewrite E. cbn [lift]. exists l'. split; [reflexivity|exact M'].
Qed.

Lemma hash_open : forall l k d rest, At l k d -> Suf k (35 :: rest) ->
  exists l', lex_step inp SText l = LNext [] l' (Some SComment) /\ At l' (k + 1) d.
Proof.
  intros l k d rest HA HS.
  destruct (next_byte l k k d 35 rest HA HS ltac:(lia)) as (l1 & E & M1 & W1).
  exists (ignore l1). split.
  - cbn [lex_step]. unfold lex_text. rewrite E. reflexivity.
  - destruct M1 as (A & B & C). unfold At, Mid, ignore, set_start, deps in *. cbn. repeat split; assumption.
Qed.
Lemma slash_open : forall l k d rest, At l k d -> Suf k (47 :: 47 :: rest) ->
  exists l', lex_step inp SText l = LNext [] l' (Some SComment) /\ At l' (k + 2) d.
Proof.
  intros l k d rest HA HS.
  destruct (next_byte l k k d 47 _ HA HS ltac:(lia)) as (l1 & E & M1 & W1).
  destruct (next_byte l1 k (k + 1) d 47 _ M1 (Suf_cons _ _ _ HS) ltac:(lia)) as (l2 & E2 & M2 & W2).
  exists (ignore l2). split.
  - cbn [lex_step]. unfold lex_text. rewrite E. cbn [lift]. cbn [Z.eqb Pos.eqb eof is_space orb].
    rewrite E2. reflexivity.
  - destruct M2 as (A & B & C). unfold At, Mid, ignore, set_start, deps in *. cbn.
    replace (k + 2) with (k + 1 + 1) by lia. repeat split; assumption.
Qed.

(* a whole layout item *)
Lemma item_then : forall i l k d rest, litem_ok i = true -> At l k d -> Suf k (render_item i ++ rest) ->
  exists l', Then l [] l' /\ At l' (k + Z.of_nat (List.length (render_item i))) d.
Proof.
  intros i l k d rest Hok HA HS. destruct i as [c|b|b]; cbn [litem_ok render_item] in *.
  - cbn [app] in HS. destruct (ws_step l k k d c rest HA Hok HS) as (l' & E & A').
    exists l'. split; [apply Then_step; exact E|exact A'].
  - apply no_nl_forall in Hok. cbn [app] in HS. rewrite <- app_assoc in HS. cbn [app] in HS.
    destruct (hash_open l k d _ HA HS) as (l1 & E1 & A1).
    destruct (comment_step l1 (k + 1) d (string_bytes b) (10 :: rest) A1 Hok (or_introl eq_refl) (Suf_cons _ _ _ HS))
      as (l2 & E2 & M2).
    pose proof (Suf_app _ _ _ (Suf_cons _ _ _ HS)) as HS2.
    destruct (ws_step l2 _ _ d 10 rest M2 eq_refl HS2) as (l3 & E3 & A3).
    exists l3. split.
    + intros ts HR. change ([] ++ ts) with ([] ++ [] ++ [] ++ ts).
      eapply Run_step; [exact E1|]. eapply Run_step; [exact E2|]. eapply Run_step; [exact E3|exact HR].
    + cbn [List.length]. rewrite app_length. cbn [List.length].
      replace (k + Z.of_nat (S (List.length (string_bytes b) + 1))) with (k + 1 + Z.of_nat (List.length (string_bytes b)) + 1) by lia.
      exact A3.
  - apply no_nl_forall in Hok. cbn [app] in HS. rewrite <- app_assoc in HS. cbn [app] in HS.
    destruct (slash_open l k d _ HA HS) as (l1 & E1 & A1).
    pose proof (Suf_cons _ _ _ (Suf_cons _ _ _ HS)) as HS1. replace (k + 1 + 1) with (k + 2) in HS1 by lia.
    destruct (comment_step l1 (k + 2) d (string_bytes b) (10 :: rest) A1 Hok (or_introl eq_refl) HS1)
      as (l2 & E2 & M2).
    pose proof (Suf_app _ _ _ HS1) as HS2.
    destruct (ws_step l2 _ _ d 10 rest M2 eq_refl HS2) as (l3 & E3 & A3).
    exists l3. split.
    + intros ts HR. change ([] ++ ts) with ([] ++ [] ++ [] ++ ts).
      eapply Run_step; [exact E1|]. eapply Run_step; [exact E2|]. eapply Run_step; [exact E3|exact HR].
    + cbn [List.length]. rewrite app_length. cbn [List.length].
      replace (k + Z.of_nat (S (S (List.length (string_bytes b) + 1)))) with (k + 2 + Z.of_nat (List.length (string_bytes b)) + 1) by lia.
      exact A3.
Qed.

Lemma sep_then : forall sep l k d rest, forallb litem_ok sep = true -> At l k d -> Suf k (render_sep sep ++ rest) ->
  exists l', Then l [] l' /\ At l' (k + Z.of_nat (List.length (render_sep sep))) d.
Proof.
  induction sep as [|i sep IH]; intros l k d rest Hok HA HS.
  - exists l. split; [apply Then_refl|]. cbn. rewrite Z.add_0_r. exact HA.
  - cbn [forallb] in Hok. apply andb_true_iff in Hok. destruct Hok as [Hi Hs].
    unfold render_sep in *. cbn [flat_map] in *. rewrite <- app_assoc in HS.
    destruct (item_then i l k d _ Hi HA HS) as (l1 & T1 & A1).
    destruct (IH l1 _ d rest Hs A1 (Suf_app _ _ _ HS)) as (l2 & T2 & A2).
    exists l2. split.
    + change (@nil ltoken) with (@nil ltoken ++ []). eapply Then_trans; eassumption.
    + rewrite app_length, Nat2Z.inj_add, Z.add_assoc. exact A2.
Qed.

(* ---- the end of the file ---- *)
Lemma eof_run : forall l s d txt, Mid l s (s + Z.of_nat (List.length txt)) d -> Suf s txt ->
  exists tk, Run (Some SText) l [tk] /\ lt_typ tk = ItemEOF.
Proof.
  intros l s d txt HM HS.
  assert (HS0 : Suf (s + Z.of_nat (List.length txt)) []).
  { apply (Suf_app s txt []). rewrite app_nil_r. exact HS. }
  destruct (next_eof l s _ d HM HS0) as (l1 & E & M1 & W1).
  destruct (emit_tok l1 s d txt [] ItemEOF M1) as (l2 & E2 & _); [rewrite app_nil_r; exact HS|].
  eexists. split.
  - change [?t] with ([t] ++ []). eapply Run_step; [|apply Run_stop].
    cbn [lex_step]. unfold lex_text. rewrite E. cbn [lift]. rewrite Z.eqb_refl. rewrite E2. reflexivity.
  - reflexivity.
Qed.

Lemma tail_run : forall f l k d, tail_ok f = true -> At l k d -> Suf k (render_tail f) ->
  exists tk, Run (Some SText) l [tk] /\ lt_typ tk = ItemEOF.
Proof.
  intros [sep fin] l k d Hok HA HS. unfold tail_ok in Hok. cbn [fst snd] in Hok.
  apply andb_true_iff in Hok. destruct Hok as [Hs Hf]. unfold render_tail in HS. cbn [fst snd] in HS.
  destruct (sep_then sep l k d _ Hs HA HS) as (l1 & T1 & A1).
  pose proof (Suf_app _ _ _ HS) as HS1. set (k1 := k + Z.of_nat (List.length (render_sep sep))) in *.
  assert (G : exists tk, Run (Some SText) l1 [tk] /\ lt_typ tk = ItemEOF).
  { destruct fin as [[[|] b]|].
    - apply no_nl_forall in Hf.
      destruct (hash_open l1 k1 d _ A1 HS1) as (l2 & E2 & A2).
      pose proof (Suf_cons _ _ _ HS1) as HS2.
      destruct (comment_step l2 (k1 + 1) d (string_bytes b) [] A2 Hf (or_intror eq_refl)) as (l3 & E3 & M3);
        [rewrite app_nil_r; exact HS2|].
      destruct (eof_run l3 (k1 + 1) d (string_bytes b) M3 HS2) as (tk & R & Ht).
      exists tk. split; [|exact Ht]. change [tk] with ([] ++ [] ++ [tk]).
      eapply Run_step; [exact E2|]. eapply Run_step; [exact E3|exact R].
    - apply no_nl_forall in Hf.
      destruct (slash_open l1 k1 d _ A1 HS1) as (l2 & E2 & A2).
      pose proof (Suf_cons _ _ _ (Suf_cons _ _ _ HS1)) as HS2. replace (k1 + 1 + 1) with (k1 + 2) in HS2 by lia.
      destruct (comment_step l2 (k1 + 2) d (string_bytes b) [] A2 Hf (or_intror eq_refl)) as (l3 & E3 & M3);
        [rewrite app_nil_r; exact HS2|].
      destruct (eof_run l3 (k1 + 2) d (string_bytes b) M3 HS2) as (tk & R & Ht).
      exists tk. split; [|exact Ht]. change [tk] with ([] ++ [] ++ [tk]).
      eapply Run_step; [exact E2|]. eapply Run_step; [exact E3|exact R].
    - apply (eof_run l1 k1 d []); [cbn [List.length]; rewrite Z.add_0_r; exact A1|exact HS1]. }
  destruct G as (tk & R & Ht). exists tk. split; [|exact Ht]. apply (T1 [tk] R).
Qed.

(* ---- operators and punctuation ---- *)
Lemma emit_open_tok : forall l s d txt rest t w d', Mid l s (s + Z.of_nat (List.length txt)) d -> Suf s (txt ++ rest) ->
  (let '(a, b, c) := d in match w with O => (a + 1, b, c) | S O => (a, b + 1, c) | _ => (a, b, c + 1) end) = d' ->
  exists tk l1, emit_open inp l t w = LNext [tk] l1 (Some SText) /\ At l1 (s + Z.of_nat (List.length txt)) d' /\
                lt_typ tk = t /\ lt_val tk = bytes_string txt.
Proof.
  intros l s d txt rest t w d' HM HS Hd. destruct (emit_tok l s d txt rest t HM HS) as (l1 & E & A).
  unfold emit_open. rewrite E. cbn [lift]. eexists _, _. split; [reflexivity|]. split; [|split; reflexivity].
  destruct A as (A1 & A2 & A3). destruct d as [[a b] c]. unfold deps in A3. inversion A3; subst.
  destruct w as [|[|w]]; unfold At, Mid, deps, set_depths; cbn; repeat split; assumption.
Qed.
Lemma emit_close_tok : forall l s d txt rest t w d', Mid l s (s + Z.of_nat (List.length txt)) d -> Suf s (txt ++ rest) ->
  (let '(a, b, c) := d in
   match w with
   | O => if a - 1 <? 0 then None else Some (a - 1, b, c)
   | S O => if b - 1 <? 0 then None else Some (a, b - 1, c)
   | _ => if c - 1 <? 0 then None else Some (a, b, c - 1)
   end) = Some d' ->
  exists tk l1, emit_close inp l t w = LNext [tk] l1 (Some SText) /\ At l1 (s + Z.of_nat (List.length txt)) d' /\
                lt_typ tk = t /\ lt_val tk = bytes_string txt.
Proof.
  intros l s d txt rest t w d' HM HS Hd. destruct (emit_tok l s d txt rest t HM HS) as (l1 & E & A).
  unfold emit_close. rewrite E. cbn [lift].
  destruct A as (A1 & A2 & A3). destruct d as [[a b] c]. unfold deps in A3. inversion A3 as [[Ha Hb Hc]].
  destruct w as [|[|w]].
  - destruct (a - 1 <? 0) eqn:X; [discriminate|]. inversion Hd; subst d'. rewrite Ha, X.
    eexists _, _. split; [reflexivity|]. split; [|split; reflexivity].
    unfold At, Mid, deps, set_depths; cbn; repeat split; try assumption. congruence.
  - destruct (b - 1 <? 0) eqn:X; [discriminate|]. inversion Hd; subst d'. rewrite Hb, X.
    eexists _, _. split; [reflexivity|]. split; [|split; reflexivity].
    unfold At, Mid, deps, set_depths; cbn; repeat split; try assumption. congruence.
  - destruct (c - 1 <? 0) eqn:X; [discriminate|]. inversion Hd; subst d'. rewrite Hc, X.
    eexists _, _. split; [reflexivity|]. split; [|split; reflexivity].
    unfold At, Mid, deps, set_depths; cbn; repeat split; try assumption. congruence.
Qed.

(* the rune after a one-character operator is not the one that would extend it *)
Lemma look_ne : forall rest r (c : Z) w, 0 <= c < 128 ->
  ((fb rest < 128 /\ r = fb rest) \/ (128 <= fb rest /\ 128 <= r /\ w)) -> negb (fb rest =? c) = true ->
  (r =? c) = false.
Proof.
  intros rest r c w Hc Hcl Hn. zb. apply Z.eqb_neq. destruct Hcl as [[_ ->]|[_ [H _]]]; [exact Hn|lia].
Qed.
Lemma look_nd : forall rest r w,
  ((fb rest < 128 /\ r = fb rest) \/ (128 <= fb rest /\ 128 <= r /\ w)) -> negb (is_ascii_digit (fb rest)) = true ->
  is_ascii_digit r = false.
Proof.
  intros rest r w Hcl Hn. zb. destruct Hcl as [[_ ->]|[_ [H _]]]; [exact Hn|].
  unfold is_ascii_digit. apply andb_false_iff. right. apply Z.leb_gt. lia.
Qed.

Definition TokStep (l : lexer) (k : Z) (d d' : Z * Z * Z) (x : lexeme) : Prop :=
  exists tk l', Then l [tk] l' /\ At l' (k + Z.of_nat (List.length (string_bytes (lx_txt x)))) d' /\
                lt_typ tk = lx_typ x /\ lt_val tk = lx_txt x.

Ltac one_text E :=
  cbn [lex_step]; unfold lex_text; rewrite E; reflexivity.

Lemma op_tok : forall x l k d d' rest,
  is_word_type (lx_typ x) = false -> lx_typ x <> ItemNumber -> lx_typ x <> ItemString ->
  op_text_ok (lx_typ x) (lx_txt x) = true -> follow_ok x (fb rest) = true -> dstep d (lx_typ x) = Some d' ->
  At l k d -> Suf k (string_bytes (lx_txt x) ++ rest) -> TokStep l k d d' x.
Proof.
  intros [kk v] l k d d' rest Hw Hn Hs Hop Hf Hd HA HS. cbn [lx_typ lx_txt] in *.
  unfold TokStep. cbn [lx_typ lx_txt].
  (* one character, no look-ahead *)
  assert (One : forall c t, v = String (ascii_of_code c) EmptyString -> 0 <= c < 128 ->
            ascii_code (ascii_of_code c) = c -> kk = t -> dstep d t = Some d ->
            (forall l1, next inp l = Ok (c, l1) -> lex_text inp l = emit1 inp l1 t) ->
            exists tk l', Then l [tk] l' /\ At l' (k + Z.of_nat (List.length (string_bytes v))) d' /\
                          lt_typ tk = kk /\ lt_val tk = v).
  { intros c t -> Hc Hcc -> Hdd Hlex. cbn [string_bytes List.length] in *. rewrite Hcc in HS. cbn [app] in HS.
    rewrite Hdd in Hd. inversion Hd; subst d'.
    destruct (next_byte l k k d c rest HA HS ltac:(lia)) as (l1 & E & M1 & W1).
    destruct (emit1_tok l1 k d [c] rest t M1 HS) as (tk & l2 & E2 & A2 & T2 & V2).
    exists tk, l2. split; [|split; [exact A2|split; [exact T2|]]].
    - apply Then_step. cbn [lex_step]. rewrite (Hlex l1 E). exact E2.
    - rewrite V2. cbn [bytes_string]. reflexivity. }
  (* two characters *)
  assert (Two : forall c1 c2 t, v = String (ascii_of_code c1) (String (ascii_of_code c2) EmptyString) ->
            0 <= c1 < 128 -> 0 <= c2 < 128 -> ascii_code (ascii_of_code c1) = c1 -> ascii_code (ascii_of_code c2) = c2 ->
            kk = t -> dstep d t = Some d ->
            (forall l1 l2, next inp l = Ok (c1, l1) -> next inp l1 = Ok (c2, l2) -> lex_text inp l = emit1 inp l2 t) ->
            exists tk l', Then l [tk] l' /\ At l' (k + Z.of_nat (List.length (string_bytes v))) d' /\
                          lt_typ tk = kk /\ lt_val tk = v).
  { intros c1 c2 t -> Hc1 Hc2 Hcc1 Hcc2 -> Hdd Hlex. cbn [string_bytes List.length] in *.
    rewrite Hcc1, Hcc2 in HS. cbn [app] in HS. rewrite Hdd in Hd. inversion Hd; subst d'.
    destruct (next_byte l k k d c1 _ HA HS ltac:(lia)) as (l1 & E & M1 & W1).
    destruct (next_byte l1 k (k + 1) d c2 _ M1 (Suf_cons _ _ _ HS) ltac:(lia)) as (l2 & E2 & M2 & W2).
    replace (k + 1 + 1) with (k + Z.of_nat (List.length [c1; c2])) in M2 by (cbn [List.length]; lia).
    destruct (emit1_tok l2 k d [c1; c2] rest t M2 HS) as (tk & l3 & E3 & A3 & T3 & V3).
    exists tk, l3. split; [|split; [exact A3|split; [exact T3|]]].
    - apply Then_step. cbn [lex_step]. rewrite (Hlex l1 l2 E E2). exact E3.
    - rewrite V3. cbn [bytes_string]. reflexivity. }
  (* one character with one rune of look-ahead *)
  assert (Look : forall c t, v = String (ascii_of_code c) EmptyString -> 0 <= c < 128 ->
            ascii_code (ascii_of_code c) = c -> kk = t -> dstep d t = Some d ->
            (forall l1 r l2 l3, next inp l = Ok (c, l1) -> next inp l1 = Ok (r, l2) -> backup inp l2 = Ok l3 ->
               ((fb rest < 128 /\ r = fb rest) \/ (128 <= fb rest /\ 128 <= r /\ (r, width l2) = ldec rest)) ->
               lex_text inp l = emit1 inp l3 t) ->
            exists tk l', Then l [tk] l' /\ At l' (k + Z.of_nat (List.length (string_bytes v))) d' /\
                          lt_typ tk = kk /\ lt_val tk = v).
  { intros c t -> Hc Hcc -> Hdd Hlex. cbn [string_bytes List.length] in *. rewrite Hcc in HS. cbn [app] in HS.
    rewrite Hdd in Hd. inversion Hd; subst d'.
    destruct (next_byte l k k d c rest HA HS ltac:(lia)) as (l1 & E & M1 & W1).
    destruct (next_back l1 k (k + 1) d rest M1 (Suf_cons _ _ _ HS)) as (r & l2 & l3 & E2 & E3 & M3 & Hcl & _).
    destruct (emit1_tok l3 k d [c] rest t M3 HS) as (tk & l4 & E4 & A4 & T4 & V4).
    exists tk, l4. split; [|split; [exact A4|split; [exact T4|]]].
    - apply Then_step. cbn [lex_step]. rewrite (Hlex l1 r l2 l3 E E2 E3 Hcl). exact E4.
    - rewrite V4. cbn [bytes_string]. reflexivity. }
  (* brackets *)
  assert (Brk : forall c t (opening : bool) w, v = String (ascii_of_code c) EmptyString -> 0 <= c < 128 ->
            ascii_code (ascii_of_code c) = c -> kk = t ->
            (if opening then
               Some (let '(a, b, c) := d in match w with O => (a + 1, b, c) | S O => (a, b + 1, c) | _ => (a, b, c + 1) end)
             else (let '(a, b, c) := d in
                   match w with
                   | O => if a - 1 <? 0 then None else Some (a - 1, b, c)
                   | S O => if b - 1 <? 0 then None else Some (a, b - 1, c)
                   | _ => if c - 1 <? 0 then None else Some (a, b, c - 1)
                   end)) = Some d' ->
            (forall l1, next inp l = Ok (c, l1) ->
               lex_text inp l = if opening then emit_open inp l1 t w else emit_close inp l1 t w) ->
            exists tk l', Then l [tk] l' /\ At l' (k + Z.of_nat (List.length (string_bytes v))) d' /\
                          lt_typ tk = kk /\ lt_val tk = v).
  { intros c t opening w -> Hc Hcc -> Hdd Hlex. cbn [string_bytes List.length] in *. rewrite Hcc in HS. cbn [app] in HS.
    destruct (next_byte l k k d c rest HA HS ltac:(lia)) as (l1 & E & M1 & W1).
    destruct opening.
    - injection Hdd as Hdd'.
      destruct (emit_open_tok l1 k d [c] rest t w d' M1 HS Hdd') as (tk & l2 & E2 & A2 & T2 & V2).
      exists tk, l2. split; [|split; [exact A2|split; [exact T2|]]].
      + apply Then_step. cbn [lex_step]. rewrite (Hlex l1 E). exact E2.
      + rewrite V2. cbn [bytes_string]. reflexivity.
    - destruct (emit_close_tok l1 k d [c] rest t w d' M1 HS Hdd) as (tk & l2 & E2 & A2 & T2 & V2).
      exists tk, l2. split; [|split; [exact A2|split; [exact T2|]]].
      + apply Then_step. cbn [lex_step]. rewrite (Hlex l1 E). exact E2.
      + rewrite V2. cbn [bytes_string]. reflexivity. }
  unfold follow_ok in Hf. cbn [lx_typ lx_txt] in Hf. rewrite Hw in Hf.
  destruct d as [[da db] dc].
  destruct kk; try discriminate Hop; try (exfalso; apply Hn; reflexivity); try (exfalso; apply Hs; reflexivity);
    cbn [op_text_ok] in Hop; unfold string_eqb in Hop;
    try (apply orb_true_iff in Hop; destruct Hop as [Hop|Hop]); apply String.eqb_eq in Hop.
  - (* ; *) apply (One 59 ItemTerminateLine); try reflexivity; try lia; [exact Hop|]. intros l1 E. unfold lex_text. rewrite E. reflexivity.
  - (* = *) apply (Look 61 ItemAssign); try reflexivity; try lia; [exact Hop|].
    intros l1 r l2 l3 E E2 E3 Hcl. unfold lex_text. rewrite E. cbn [lift]. cbn [Z.eqb Pos.eqb eof is_space orb].
    rewrite E2. cbn [lift]. rewrite (look_ne rest r 61 _ ltac:(lia) Hcl Hf). rewrite E3. reflexivity.
  - (* , *) apply (One 44 ItemComma); try reflexivity; try lia; [exact Hop|]. intros l1 E. unfold lex_text. rewrite E. reflexivity.
  - (* ( *) apply (Brk 40 ItemLeftParen true 0%nat); try reflexivity; try lia; [exact Hop|exact Hd|]. intros l1 E. unfold lex_text. rewrite E. reflexivity.
  - (* ) *) apply (Brk 41 ItemRightParen false 0%nat); try reflexivity; try lia; [exact Hop|exact Hd|]. intros l1 E. unfold lex_text. rewrite E. reflexivity.
  - apply (Brk 91 ItemLeftSquareParen true 1%nat); try reflexivity; try lia; [exact Hop|exact Hd|]. intros l1 E. unfold lex_text. rewrite E. reflexivity.
  - apply (Brk 93 ItemRightSquareParen false 1%nat); try reflexivity; try lia; [exact Hop|exact Hd|]. intros l1 E. unfold lex_text. rewrite E. reflexivity.
  - apply (Brk 123 ItemLeftBrace true 2%nat); try reflexivity; try lia; [exact Hop|exact Hd|]. intros l1 E. unfold lex_text. rewrite E. reflexivity.
  - apply (Brk 125 ItemRightBrace false 2%nat); try reflexivity; try lia; [exact Hop|exact Hd|]. intros l1 E. unfold lex_text. rewrite E. reflexivity.
  - (* : *) apply (One 58 ItemColon); try reflexivity; try lia; [exact Hop|]. intros l1 E. unfold lex_text. rewrite E. reflexivity.
  - (* + *) apply (One 43 ItemPlus); try reflexivity; try lia; [exact Hop|]. intros l1 E. unfold lex_text. rewrite E. reflexivity.
  - (* - *) apply (Look 45 ItemMinus); try reflexivity; try lia; [exact Hop|].
    intros l1 r l2 l3 E E2 E3 Hcl. unfold lex_text. rewrite E. cbn [lift]. cbn [Z.eqb Pos.eqb eof is_space orb is_ascii_digit Z.leb Z.compare Pos.compare Pos.compare_cont andb].
    rewrite E2. cbn [lift]. unfold is_numeric. rewrite (look_nd rest r _ Hcl Hf). rewrite E3. reflexivity.
  - (* * *) apply (One 42 ItemAsterisk); try reflexivity; try lia; [exact Hop|]. intros l1 E. unfold lex_text. rewrite E. reflexivity.
  - (* / *) apply (Look 47 ItemForwardSlash); try reflexivity; try lia; [exact Hop|].
    intros l1 r l2 l3 E E2 E3 Hcl. unfold lex_text. rewrite E. cbn [lift]. cbn [Z.eqb Pos.eqb eof is_space orb].
    rewrite E2. cbn [lift]. rewrite (look_ne rest r 47 _ ltac:(lia) Hcl Hf). rewrite E3. reflexivity.
  - (* ! *) apply (Look 33 LogicNot); try reflexivity; try lia; [exact Hop|].
    intros l1 r l2 l3 E E2 E3 Hcl. unfold lex_text. rewrite E. cbn [lift]. cbn [Z.eqb Pos.eqb eof is_space orb is_ascii_digit Z.leb Z.compare Pos.compare Pos.compare_cont andb].
    rewrite E2. cbn [lift]. rewrite (look_ne rest r 61 _ ltac:(lia) Hcl Hf). rewrite E3. reflexivity.
  - (* && *) apply (Two 38 38 LogicAnd); try reflexivity; try lia; [exact Hop|].
    intros l1 l2 E E2. unfold lex_text. rewrite E. cbn [lift]. cbn [Z.eqb Pos.eqb eof is_space orb is_ascii_digit Z.leb Z.compare Pos.compare Pos.compare_cont andb].
    rewrite E2. reflexivity.
  - (* || *) apply (Two 124 124 LogicOr); try reflexivity; try lia; [exact Hop|].
    intros l1 l2 E E2. unfold lex_text. rewrite E. cbn [lift]. cbn [Z.eqb Pos.eqb eof is_space orb is_ascii_digit Z.leb Z.compare Pos.compare Pos.compare_cont andb].
    rewrite E2. reflexivity.
  - (* == *) apply (Two 61 61 OpEqual); try reflexivity; try lia; [exact Hop|].
    intros l1 l2 E E2. unfold lex_text. rewrite E. cbn [lift]. cbn [Z.eqb Pos.eqb eof is_space orb].
    rewrite E2. reflexivity.
  - (* != *) apply (Two 33 61 OpNotEqual); try reflexivity; try lia; [exact Hop|].
    intros l1 l2 E E2. unfold lex_text. rewrite E. cbn [lift]. cbn [Z.eqb Pos.eqb eof is_space orb is_ascii_digit Z.leb Z.compare Pos.compare Pos.compare_cont andb].
    rewrite E2. reflexivity.
  - (* <> *) apply (Two 60 62 OpNotEqual); try reflexivity; try lia; [exact Hop|].
    intros l1 l2 E E2. unfold lex_text. rewrite E. cbn [lift]. cbn [Z.eqb Pos.eqb eof is_space orb is_ascii_digit Z.leb Z.compare Pos.compare Pos.compare_cont andb].
    rewrite E2. reflexivity.
  - (* > *) apply (Look 62 OpGreaterThan); try reflexivity; try lia; [exact Hop|].
    intros l1 r l2 l3 E E2 E3 Hcl. unfold lex_text. rewrite E. cbn [lift]. cbn [Z.eqb Pos.eqb eof is_space orb is_ascii_digit Z.leb Z.compare Pos.compare Pos.compare_cont andb].
    rewrite E2. cbn [lift]. rewrite (look_ne rest r 61 _ ltac:(lia) Hcl Hf). rewrite E3. reflexivity.
  - (* >= *) apply (Two 62 61 OpGreaterThanOrEqual); try reflexivity; try lia; [exact Hop|].
    intros l1 l2 E E2. unfold lex_text. rewrite E. cbn [lift]. cbn [Z.eqb Pos.eqb eof is_space orb is_ascii_digit Z.leb Z.compare Pos.compare Pos.compare_cont andb].
    rewrite E2. reflexivity.
  - (* < *) apply (Look 60 OpLessThan); try reflexivity; try lia; [exact Hop|].
    apply andb_true_iff in Hf. destruct Hf as [Hf1 Hf2].
    intros l1 r l2 l3 E E2 E3 Hcl. unfold lex_text. rewrite E. cbn [lift]. cbn [Z.eqb Pos.eqb eof is_space orb is_ascii_digit Z.leb Z.compare Pos.compare Pos.compare_cont andb].
    rewrite E2. cbn [lift]. rewrite (look_ne rest r 61 _ ltac:(lia) Hcl Hf1). rewrite (look_ne rest r 62 _ ltac:(lia) Hcl Hf2). rewrite E3. reflexivity.
  - (* <= *) apply (Two 60 61 OpLessThanOrEqual); try reflexivity; try lia; [exact Hop|].
    intros l1 l2 E E2. unfold lex_text. rewrite E. cbn [lift]. cbn [Z.eqb Pos.eqb eof is_space orb is_ascii_digit Z.leb Z.compare Pos.compare Pos.compare_cont andb].
    rewrite E2. reflexivity.
Qed.

(* ---- numbers ---- *)
Lemma span_dig_spec : forall l a b, span_dig l = (a, b) ->
  l = a ++ b /\ Forall (fun c => is_ascii_digit c = true) a /\ is_ascii_digit (fb b) = false.
Proof.
  induction l as [|c r IH]; intros a b H; cbn [span_dig] in H.
  - inversion H; subst. repeat split; constructor.
  - destruct (is_ascii_digit c) eqn:D.
    + destruct (span_dig r) as [a' b'] eqn:E. inversion H; subst.
      destruct (IH a' b eq_refl) as (-> & Hall & Hb). repeat split; [constructor; assumption|exact Hb].
    + inversion H; subst. repeat split; [constructor|exact D].
Qed.

Lemma digit_lt128 : forall c, is_ascii_digit c = true -> 0 <= c < 128.
Proof. intros c H. unfold is_ascii_digit in H. zb. lia. Qed.

Lemma accept_run_digits : forall n ds rest l s k d, Forall (fun c => is_ascii_digit c = true) ds ->
  is_ascii_digit (fb rest) = false -> Mid l s k d -> Suf k (ds ++ rest) -> (List.length ds < n)%nat ->
  exists l', accept_run n inp l is_ascii_digit = Ok l' /\ Mid l' s (k + Z.of_nat (List.length ds)) d.
Proof.
  induction n as [|n IH]; intros ds rest l s k d Hds Hr HM HS Hn; [lia|].
  cbn [accept_run]. destruct ds as [|c t].
  - cbn [app] in HS. destruct (next_back l s k d rest HM HS) as (r & l1 & l2 & E & E2 & M2 & Hcl & _).
    rewrite E. cbn [bindR]. rewrite (look_nd rest r _ Hcl) by (rewrite Hr; reflexivity).
    exists l2. split; [exact E2|]. cbn [List.length]. rewrite Z.add_0_r. exact M2.
  - inversion Hds as [|c' t' Hc Ht]; subst. cbn [app] in HS.
    destruct (next_byte l s k d c _ HM HS ltac:(pose proof (digit_lt128 c Hc); lia)) as (l1 & E & M1 & _).
    rewrite E. cbn [bindR]. rewrite Hc.
    destruct (IH t rest l1 s (k + 1) d Ht Hr M1 (Suf_cons _ _ _ HS)) as (l' & E' & M'); [cbn [List.length] in Hn; lia|].
    exists l'. split; [exact E'|]. cbn [List.length].
    replace (k + Z.of_nat (S (List.length t))) with (k + 1 + Z.of_nat (List.length t)) by lia. exact M'.
Qed.

(* the tests of lexText that come before the digit test all fail on a digit, '.' or '-' *)
Ltac text_chain tac :=
  repeat match goal with
  | |- (if ?c then _ else _) = _ =>
      let X := fresh "X" in destruct c eqn:X; [exfalso; tac X|]
  end.

Lemma lex_text_digit : forall l c l1 l2, is_ascii_digit c = true -> next inp l = Ok (c, l1) -> backup inp l1 = Ok l2 ->
  lex_text inp l = LNext [] l2 (Some SNumber).
Proof.
  intros l c l1 l2 Hc E E2. unfold lex_text. rewrite E. cbn [lift].
  unfold is_ascii_digit in Hc. zb.
  text_chain ltac:(fun X => unfold is_space, eof in X; zb;
                    repeat match goal with H : _ \/ _ |- _ => destruct H end; zb; lia).
  replace (is_ascii_digit c) with true by (symmetry; unfold is_ascii_digit; apply andb_true_iff; split; apply Z.leb_le; lia).
  rewrite E2. reflexivity.
Qed.

Definition number_toks (sg : bool) (d1 : list Z) (dot : bool) (d2 : list Z) : list Z :=
  (if sg then [45] else []) ++ d1 ++ (if dot then 46 :: d2 else []).

Lemma number_shape_spec : forall t hd, number_shape t = Some hd ->
  exists sg d1 d2, t = number_toks sg d1 hd d2 /\
    Forall (fun c => is_ascii_digit c = true) d1 /\ Forall (fun c => is_ascii_digit c = true) d2 /\
    (hd = false -> d2 = [] /\ d1 <> []) /\ (sg = true -> d1 <> []) /\ (d1 = [] -> d2 <> []).
Proof.
  intros t hd H. unfold number_shape in H.
  remember (match t with c :: _ => c =? 45 | [] => false end) as sg eqn:Esg.
  remember (if sg then tl t else t) as t1 eqn:Et1.
  assert (Et : t = (if sg then [45] else []) ++ t1).
  { subst t1 sg. destruct t as [|c r]; [reflexivity|]. destruct (c =? 45) eqn:X; [zb; subst; reflexivity|reflexivity]. }
  clear Esg Et1.
  destruct (span_dig t1) as [d1 t2] eqn:E1. destruct (span_dig_spec _ _ _ E1) as (E1' & H1 & H1b). subst t1.
  destruct t2 as [|c t3].
  - destruct d1 as [|x d1]; [discriminate|]. inversion H; subst hd.
    exists sg, (x :: d1), []. rewrite Et. unfold number_toks.
    split; [reflexivity|]. split; [exact H1|]. split; [constructor|]. split; [intros _; split; [reflexivity|discriminate]|].
    split; [intros _; discriminate|intros X; discriminate X].
  - destruct (c =? 46) eqn:X; [|discriminate]. zb. subst c.
    destruct (span_dig t3) as [d2 t4] eqn:E2. destruct (span_dig_spec _ _ _ E2) as (E2' & H2 & _). subst t3.
    destruct t4; [|discriminate]. rewrite app_nil_r in *.
    destruct (if sg then nonnil d1 else nonnil d1 || nonnil d2) eqn:C; [|discriminate]. inversion H; subst hd.
    exists sg, d1, d2. rewrite Et. unfold number_toks.
    split; [reflexivity|]. split; [exact H1|]. split; [exact H2|]. split; [intros X; discriminate X|]. split.
    + intros ->. destruct d1; [discriminate C|discriminate].
    + intros ->. cbn in C. destruct sg; [discriminate C|]. destruct d2; [discriminate C|discriminate].
Qed.

Lemma lex_text_sign_digit : forall l l1 c n l2 l3 l4, (c = 45 \/ c = 46) -> is_ascii_digit n = true ->
  next inp l = Ok (c, l1) -> next inp l1 = Ok (n, l2) -> backup inp l2 = Ok l3 -> backup inp l3 = Ok l4 ->
  lex_text inp l = LNext [] l4 (Some SNumber).
Proof.
  intros l l1 c n l2 l3 l4 Hc Hn E1 E2 E3 E4. unfold lex_text. rewrite E1. cbn [lift].
  destruct Hc as [-> | ->]; cbn [Z.eqb Pos.eqb eof is_space orb is_ascii_digit Z.leb Z.compare Pos.compare Pos.compare_cont andb];
    rewrite E2; cbn [lift]; unfold is_numeric; rewrite Hn, E3; cbn [lift]; rewrite E4; reflexivity.
Qed.

Lemma number_tok : forall x l k d rest hd,
  lx_typ x = ItemNumber -> number_shape (string_bytes (lx_txt x)) = Some hd ->
  is_ascii_digit (fb rest) = false -> (hd = false -> (fb rest =? 46) = false) ->
  At l k d -> Suf k (string_bytes (lx_txt x) ++ rest) -> TokStep l k d d x.
Proof.
  intros [kk v] l k d rest hd Hk Hsh Hfd Hf46 HA HS. cbn [lx_typ lx_txt] in *. subst kk.
  destruct (number_shape_spec _ _ Hsh) as (sg & d1 & d2 & Et & H1 & H2 & Hnd & Hsg & Hd1).
  set (t := string_bytes v) in *.
  set (dotpart := if hd then 46 :: d2 else []) in *.
  assert (Et' : t = (if sg then [45] else []) ++ d1 ++ dotpart) by exact Et.
  (* A: lexText recognises the start of a number and hands over with the registers unchanged *)
  assert (HAent : exists l0, lex_step inp SText l = LNext [] l0 (Some SNumber) /\ At l0 k d).
  { rewrite Et' in HS. destruct sg.
    - (* '-' digit *)
      destruct d1 as [|c1 d1']; [exfalso; apply Hsg; reflexivity|]. cbn [app] in HS.
      inversion H1 as [|? ? Hc1 _]; subst.
      destruct (next_byte l k k d 45 _ HA HS ltac:(lia)) as (l1 & E1 & M1 & W1).
      destruct (next_byte l1 k (k + 1) d c1 _ M1 (Suf_cons _ _ _ HS) ltac:(pose proof (digit_lt128 c1 Hc1); lia)) as (l2 & E2 & M2 & W2).
      pose proof (Suf_cons _ _ _ (Suf_cons _ _ _ HS)) as [Hk2 _].
      destruct (backup1 l2 k (k + 1 + 1) d M2 W2 ltac:(pose proof HS as [? _]; lia)) as (l3 & E3 & M3 & W3).
      replace (k + 1 + 1 - 1) with (k + 1) in M3 by lia.
      destruct (backup1 l3 k (k + 1) d M3 W3 ltac:(pose proof HS as [? _]; lia)) as (l4 & E4 & M4 & W4).
      replace (k + 1 - 1) with k in M4 by lia.
      exists l4. split; [|exact M4]. cbn [lex_step].
      apply (lex_text_sign_digit l l1 45 c1 l2 l3 l4); auto.
    - destruct d1 as [|c1 d1'].
      + (* '.' digit *)
        destruct hd; [|destruct (Hnd eq_refl) as [_ X]; exfalso; apply X; reflexivity].
        destruct d2 as [|c2 d2']; [exfalso; apply Hd1; reflexivity|]. unfold dotpart in HS. cbn [app] in HS.
        inversion H2 as [|? ? Hc2 _]; subst.
        destruct (next_byte l k k d 46 _ HA HS ltac:(lia)) as (l1 & E1 & M1 & W1).
        destruct (next_byte l1 k (k + 1) d c2 _ M1 (Suf_cons _ _ _ HS) ltac:(pose proof (digit_lt128 c2 Hc2); lia)) as (l2 & E2 & M2 & W2).
        pose proof (Suf_cons _ _ _ (Suf_cons _ _ _ HS)) as [Hk2 _].
        destruct (backup1 l2 k (k + 1 + 1) d M2 W2 ltac:(pose proof HS as [? _]; lia)) as (l3 & E3 & M3 & W3).
        replace (k + 1 + 1 - 1) with (k + 1) in M3 by lia.
        destruct (backup1 l3 k (k + 1) d M3 W3 ltac:(pose proof HS as [? _]; lia)) as (l4 & E4 & M4 & W4).
        replace (k + 1 - 1) with k in M4 by lia.
        exists l4. split; [|exact M4]. cbn [lex_step].
        apply (lex_text_sign_digit l l1 46 c2 l2 l3 l4); auto.
      + (* digit *)
        cbn [app] in HS. inversion H1 as [|? ? Hc1 _]; subst.
        destruct (next_byte l k k d c1 _ HA HS ltac:(pose proof (digit_lt128 c1 Hc1); lia)) as (l1 & E1 & M1 & W1).
        pose proof (Suf_cons _ _ _ HS) as [Hk2 _].
        destruct (backup1 l1 k (k + 1) d M1 W1 ltac:(pose proof HS as [? _]; lia)) as (l2 & E2 & M2 & W2).
        replace (k + 1 - 1) with k in M2 by lia.
        exists l2. split; [|exact M2]. cbn [lex_step]. apply (lex_text_digit l c1 l1 l2); assumption. }
  destruct HAent as (l0 & Eent & A0).
  (* B: lexNumber *)
  assert (HB : exists tk l', lex_step inp SNumber l0 = LNext [tk] l' (Some SText) /\
                 At l' (k + Z.of_nat (List.length t)) d /\ lt_typ tk = ItemNumber /\ lt_val tk = v).
  { cbn [lex_step]. unfold lex_number.
    pose proof HS as HS0. rewrite Et' in HS. rewrite <- !app_assoc in HS.
    (* the sign *)
    assert (S1 : exists b l1, accept inp l0 (fun r => (r =? 43) || (r =? 45)) = Ok (b, l1) /\
                   Mid l1 k (k + Z.of_nat (List.length (if sg then [45] else []))) d).
    { unfold accept. destruct sg.
      - cbn [app] in HS. destruct (next_byte l0 k k d 45 _ A0 HS ltac:(lia)) as (l1 & E1 & M1 & W1).
        rewrite E1. cbn [bindR]. eexists _, _. split; [reflexivity|]. exact M1.
      - cbn [app] in HS.
        assert (Hc : exists c r0, d1 ++ dotpart ++ rest = c :: r0 /\ 0 <= c < 128 /\ (c =? 43) || (c =? 45) = false).
        { destruct d1 as [|c1 d1'].
          - destruct hd; [|destruct (Hnd eq_refl) as [_ X]; exfalso; apply X; reflexivity].
            unfold dotpart. cbn [app]. eexists _, _. split; [reflexivity|]. split; [lia|reflexivity].
          - inversion H1 as [|? ? Hc1 _]; subst. cbn [app]. eexists _, _. split; [reflexivity|].
            pose proof (digit_lt128 c1 Hc1). split; [lia|]. unfold is_ascii_digit in Hc1. zb.
            apply orb_false_iff. split; apply Z.eqb_neq; lia. }
        destruct Hc as (c & r0 & Ec & Hc & Hv). rewrite Ec in HS.
        destruct (next_byte l0 k k d c _ A0 HS ltac:(lia)) as (l1 & E1 & M1 & W1).
        rewrite E1. cbn [bindR]. rewrite Hv.
        destruct (backup1 l1 k (k + 1) d M1 W1 ltac:(pose proof (Suf_cons _ _ _ HS) as [? _]; pose proof HS as [? _]; lia)) as (l2 & E2 & M2 & W2).
        rewrite E2. cbn [bindR]. eexists _, _. split; [reflexivity|]. cbn [List.length]. replace (k + 1 - 1) with (k + 0) in M2 by lia. exact M2. }
    destruct S1 as (b1 & l1 & E1 & M1). rewrite E1. cbn [lift].
    pose proof (Suf_app _ _ _ HS) as HS1. set (k1 := k + Z.of_nat (List.length (if sg then [45] else []))) in *.
    (* the digits before the dot *)
    assert (Hfd1 : is_ascii_digit (fb (dotpart ++ rest)) = false).
    { unfold dotpart. destruct hd; [reflexivity|exact Hfd]. }
    destruct (accept_run_digits (loop_fuel inp l1) d1 (dotpart ++ rest) l1 k k1 d H1 Hfd1 M1 HS1) as (l2 & E2 & M2).
    { pose proof (loop_fuel_gt l1 k1 _ (proj1 (proj2 M1)) HS1) as F. rewrite app_length in F. lia. }
    rewrite E2. cbn [lift].
    pose proof (Suf_app _ _ _ HS1) as HS2. set (k2 := k1 + Z.of_nat (List.length d1)) in *.
    (* the dot and the digits after it *)
    assert (S3 : exists l4, (lt (dot, l3) <- accept inp l2 (fun r => r =? 46);
                             lt l4 <- (if dot then accept_run (loop_fuel inp l3) inp l3 is_ascii_digit else Ok l3);
                             emit1 inp l4 ItemNumber) = emit1 inp l4 ItemNumber /\
                            Mid l4 k (k2 + Z.of_nat (List.length dotpart)) d).
    { unfold accept. unfold dotpart in *. destruct hd.
      - cbn [app] in HS2. destruct (next_byte l2 k k2 d 46 _ M2 HS2 ltac:(lia)) as (l3 & E3 & M3 & W3).
        rewrite E3. cbn [bindR lift Z.eqb Pos.eqb].
        pose proof (Suf_cons _ _ _ HS2) as HS3.
        destruct (accept_run_digits (loop_fuel inp l3) d2 rest l3 k (k2 + 1) d H2 Hfd M3 HS3) as (l4 & E4 & M4).
        { pose proof (loop_fuel_gt l3 (k2 + 1) _ (proj1 (proj2 M3)) HS3) as F. rewrite app_length in F. lia. }
        rewrite E4. cbn [lift]. exists l4. split; [reflexivity|]. cbn [List.length].
        replace (k2 + Z.of_nat (S (List.length d2))) with (k2 + 1 + Z.of_nat (List.length d2)) by lia. exact M4.
      - cbn [app] in HS2. destruct (next_back l2 k k2 d rest M2 HS2) as (r & l3 & l4 & E3 & E4 & M4 & Hcl & _).
        rewrite E3. cbn [bindR].
        assert (Hr : (r =? 46) = false).
        { apply (look_ne rest r 46 _ ltac:(lia) Hcl). rewrite (Hf46 eq_refl). reflexivity. }
        rewrite Hr, E4. cbn [bindR lift]. exists l4. split; [reflexivity|]. cbn [List.length]. rewrite Z.add_0_r. exact M4. }
    destruct S3 as (l4 & E34 & M4). rewrite E34.
    assert (Ek : k2 + Z.of_nat (List.length dotpart) = k + Z.of_nat (List.length t)).
    { unfold k2, k1. rewrite Et'. rewrite !app_length. lia. }
    rewrite Ek in M4.
    destruct (emit1_tok l4 k d t rest ItemNumber M4 HS0) as (tk & l5 & E5 & A5 & T5 & V5).
    exists tk, l5. split; [exact E5|]. split; [exact A5|]. split; [exact T5|]. rewrite V5. apply bytes_string_bytes. }
  destruct HB as (tk & l' & EB & A' & Tt & Tv).
  exists tk, l'. split; [|split; [exact A'|split; assumption]].
  intros ts HR. change ([tk] ++ ts) with ([] ++ [tk] ++ ts).
  eapply Run_step; [exact Eent|]. eapply Run_step; [exact EB|exact HR].
Qed.

(* ---- strings ---- *)
Lemma str_scan_hi1 : forall h t, 128 <= h -> str_scan (h :: t) = str_scan t.
Proof.
  intros h t H. cbn [str_scan].
  replace (h =? 92) with false by (symmetry; apply Z.eqb_neq; lia).
  replace (h =? 10) with false by (symmetry; apply Z.eqb_neq; lia).
  replace (h =? 34) with false by (symmetry; apply Z.eqb_neq; lia). reflexivity.
Qed.
Lemma drop_hi : forall hi x t rest, hi ++ x = t ++ rest -> Forall (fun b => 128 <= b) hi -> str_scan t = true ->
  exists t', t = hi ++ t' /\ x = t' ++ rest /\ str_scan t' = true.
Proof.
  induction hi as [|h hi IH]; intros x t rest E Hall Hs; [exists t; repeat split; assumption|].
  inversion Hall as [|h' hi' Hh Hall']; subst.
  destruct t as [|b t]; [discriminate Hs|]. cbn [app] in E. inversion E; subst.
  rewrite str_scan_hi1 in Hs by exact Hh.
  destruct (IH _ _ _ H1 Hall' Hs) as (t' & -> & -> & Hs'). exists t'. repeat split. exact Hs'.
Qed.

Lemma quote_loop_ok : forall n body l s k d rest, str_scan body = true -> Mid l s k d -> Suf k (body ++ rest) ->
  (List.length body < n)%nat ->
  exists l', quote_loop n inp l = Ok (Some l', l') /\ Mid l' s (k + Z.of_nat (List.length body)) d.
Proof.
  induction n as [|n IH]; intros body l s k d rest Hsc HM HS Hn; [lia|].
  cbn [quote_loop]. destruct body as [|c t]; [discriminate Hsc|]. cbn [app] in HS.
  pose proof (Suf_bytes _ _ HS) as Hby. inversion Hby as [|c' t' Hcr Hby']; subst. unfold byte_ok in Hcr.
  cbn [List.length] in Hn.
  destruct (Z.lt_ge_cases c 128) as [Hlt|Hge].
  - destruct (next_byte l s k d c _ HM HS Hlt) as (l1 & E & M1 & _). rewrite E. cbn [bindR].
    cbn [str_scan] in Hsc. destruct (c =? 92) eqn:C92.
    + (* backslash *)
      destruct t as [|c2 t2]; [discriminate Hsc|]. destruct (c2 =? 10) eqn:C10; [discriminate Hsc|]. zb.
      cbn [app] in HS. pose proof (Suf_cons _ _ _ HS) as HS1.
      inversion Hby' as [|c2' t2' Hc2r _]; subst. unfold byte_ok in Hc2r.
      destruct (Z.lt_ge_cases c2 128) as [Hlt2|Hge2].
      * destruct (next_byte l1 s (k + 1) d c2 _ M1 HS1 Hlt2) as (l2 & E2 & M2 & _). rewrite E2. cbn [bindR].
        replace (negb (c2 =? eof) && negb (c2 =? 10)) with true.
        2:{ symmetry. apply andb_true_iff. split; apply negb_true_iff; apply Z.eqb_neq; unfold eof; lia. }
        destruct (IH t2 l2 s (k + 1 + 1) d rest Hsc M2 (Suf_cons _ _ _ HS1)) as (l' & E' & M'); [cbn [List.length] in Hn; lia|].
        exists l'. split; [exact E'|]. cbn [List.length].
        replace (k + Z.of_nat (S (S (List.length t2)))) with (k + 1 + 1 + Z.of_nat (List.length t2)) by lia. exact M'.
      * destruct (next_hi l1 s (k + 1) d c2 _ M1 HS1 Hge2) as (r & l2 & hi & rest' & E2 & Hr128 & Eh & Hne & Hall & M2 & _).
        rewrite E2. cbn [bindR].
        replace (negb (r =? eof) && negb (r =? 10)) with true.
        2:{ symmetry. apply andb_true_iff. split; apply negb_true_iff; apply Z.eqb_neq; unfold eof; lia. }
        destruct hi as [|h hi']; [contradiction|]. cbn [app] in Eh. inversion Eh as [[Eh1 Eh2]]. subst h.
        inversion Hall as [|? ? _ Hall']; subst. symmetry in Eh2.
        destruct (drop_hi hi' rest' t2 rest Eh2 Hall' Hsc) as (t' & -> & -> & Hsc').
        assert (HS' : Suf (k + 1 + Z.of_nat (List.length (c2 :: hi'))) (t' ++ rest)).
        { apply Suf_app. cbn [app]. rewrite <- app_assoc in HS1. exact HS1. }
        destruct (IH t' l2 s _ d rest Hsc' M2 HS') as (l' & E' & M').
        { cbn [List.length] in Hn. rewrite app_length in Hn. lia. }
        exists l'. split; [exact E'|]. cbn [List.length] in *. rewrite app_length.
        replace (k + Z.of_nat (S (S (List.length hi' + List.length t'))))
          with (k + 1 + Z.of_nat (S (List.length hi')) + Z.of_nat (List.length t')) by lia. exact M'.
    + destruct (c =? 10) eqn:C10; [discriminate Hsc|].
      replace (c =? eof) with false by (symmetry; apply Z.eqb_neq; unfold eof; lia). cbn [orb].
      destruct (c =? 34) eqn:C34.
      * destruct t; [|discriminate Hsc]. exists l1. split; [reflexivity|]. cbn [List.length]. exact M1.
      * destruct (IH t l1 s (k + 1) d rest Hsc M1 (Suf_cons _ _ _ HS)) as (l' & E' & M'); [lia|].
        exists l'. split; [exact E'|]. cbn [List.length].
        replace (k + Z.of_nat (S (List.length t))) with (k + 1 + Z.of_nat (List.length t)) by lia. exact M'.
  - destruct (next_hi l s k d c _ HM HS Hge) as (r & l1 & hi & rest' & E & Hr128 & Eh & Hne & Hall & M1 & _).
    rewrite E. cbn [bindR].
    replace (r =? 92) with false by (symmetry; apply Z.eqb_neq; lia).
    replace ((r =? eof) || (r =? 10)) with false.
    2:{ symmetry. apply orb_false_iff. split; apply Z.eqb_neq; unfold eof; lia. }
    replace (r =? 34) with false by (symmetry; apply Z.eqb_neq; lia).
    change (c :: t ++ rest) with ((c :: t) ++ rest) in Eh. symmetry in Eh.
    destruct (drop_hi hi rest' (c :: t) rest Eh Hall Hsc) as (t' & Et & -> & Hsc').
    assert (HS' : Suf (k + Z.of_nat (List.length hi)) (t' ++ rest)).
    { apply Suf_app. rewrite app_assoc, <- Et. exact HS. }
    assert (Hlen : List.length (c :: t) = (List.length hi + List.length t')%nat) by (rewrite Et, app_length; reflexivity).
    assert (Hh1 : (1 <= List.length hi)%nat) by (destruct hi; [contradiction|cbn [List.length]; lia]).
    destruct (IH t' l1 s _ d rest Hsc' M1 HS') as (l' & E' & M'); [cbn [List.length] in Hlen; lia|].
    exists l'. split; [exact E'|]. rewrite Hlen. rewrite Nat2Z.inj_add, Z.add_assoc. exact M'.
Qed.

Lemma string_tok : forall x l k d rest,
  lx_typ x = ItemString -> string_ok (string_bytes (lx_txt x)) = true ->
  At l k d -> Suf k (string_bytes (lx_txt x) ++ rest) -> TokStep l k d d x.
Proof.
  intros [kk v] l k d rest Hk Hok HA HS. unfold TokStep. cbn [lx_typ lx_txt] in *. subst kk.
  remember (string_bytes v) as t eqn:Et. unfold string_ok in Hok.
  destruct t as [|c body]; [discriminate Hok|]. apply andb_true_iff in Hok. destruct Hok as [Hc Hsc]. zb. subst c.
  cbn [app] in HS.
  destruct (next_byte l k k d 34 _ HA HS ltac:(lia)) as (l1 & E1 & M1 & W1).
  assert (Eent : lex_step inp SText l = LNext [] l1 (Some SQuote)).
  { cbn [lex_step]. unfold lex_text. rewrite E1. reflexivity. }
  pose proof (Suf_cons _ _ _ HS) as HS1.
  destruct (quote_loop_ok (loop_fuel inp l1) body l1 k (k + 1) d rest Hsc M1 HS1) as (l2 & E2 & M2).
  { pose proof (loop_fuel_gt l1 (k + 1) _ (proj1 (proj2 M1)) HS1) as F. rewrite app_length in F. lia. }
  replace (k + 1 + Z.of_nat (List.length body)) with (k + Z.of_nat (List.length (34 :: body))) in M2 by (cbn [List.length]; lia).
  destruct (emit1_tok l2 k d (34 :: body) rest ItemString M2 HS) as (tk & l3 & E3 & A3 & T3 & V3).
  exists tk, l3. split; [|split; [exact A3|split; [exact T3|]]].
  - intros ts HR. change ([tk] ++ ts) with ([] ++ [tk] ++ ts).
    eapply Run_step; [exact Eent|]. eapply Run_step; [|exact HR].
    cbn [lex_step]. unfold lex_quote. rewrite E2. cbn [lift]. exact E3.
  - rewrite V3, Et. apply bytes_string_bytes.
Qed.

(* ---- words: identifiers, keywords, true / false / null ---- *)
Lemma next_dec : forall l s k d r w, Mid l s k d -> 0 <= k < len -> decode inp k = (r, w) ->
  exists l1, next inp l = Ok (r, l1) /\ Mid l1 s (k + w) d /\ width l1 = w.
Proof.
  intros l s k d r w (Hs & Hp & Hd) Hk E. unfold next. rewrite Hp.
  replace (len <=? k) with false by (symmetry; apply Z.leb_gt; lia).
  replace (k <? 0) with false by (symmetry; apply Z.ltb_ge; lia).
  rewrite E. eexists. split; [reflexivity|]. unfold Mid, deps, set_cursor. cbn. repeat split; assumption.
Qed.

Lemma ldec_app : forall w rest r wd, w <> [] -> ldec w = (r, wd) -> r <> rune_error ->
  ldec (w ++ rest) = (r, wd) /\ 1 <= wd <= Z.of_nat (List.length w).
Proof.
  intros w rest r wd Hne E Hr. unfold ldec in *.
  assert (Hn1 : 1 <= Z.of_nat (List.length w)) by (destruct w; [contradiction|cbn [List.length]; lia]).
  assert (Hwd : 1 <= wd <= Z.of_nat (List.length w)).
  { pose proof (dec5_width (Z.of_nat (List.length w)) (nth 0 w 0) (nth 1 w 0) (nth 2 w 0) (nth 3 w 0)) as W.
    rewrite E in W. cbn [snd] in W.
    destruct (Z.lt_ge_cases (nth 0 w 0) 128) as [Hlt|Hge].
    - unfold dec5 in E. replace (nth 0 w 0 <? 128) with true in E by (symmetry; apply Z.ltb_lt; lia).
      inversion E; subst. lia.
    - destruct (dec5_hi _ _ _ _ _ _ _ Hge Hn1 E) as (_ & _ & Hle & _). lia. }
  split; [|exact Hwd].
  assert (H0 : nth 0 (w ++ rest) 0 = nth 0 w 0) by (apply app_nth1; lia).
  rewrite H0. apply (dec5_stable _ _ _ _ _ _ _ E Hr).
  - rewrite app_length. lia.
  - intros H2. apply app_nth1. lia.
  - intros H2. apply app_nth1. lia.
  - intros H2. apply app_nth1. lia.
Qed.

Lemma alnum_not_error : forall r, is_alnum r = true -> r <> rune_error.
Proof. intros r H ->. vm_compute in H. discriminate H. Qed.

Lemma term_not_alnum : forall c, is_terminator c = true -> is_alnum c = false /\ c < 128.
Proof.
  intros c H. unfold is_terminator, is_space in H.
  repeat (apply orb_true_iff in H; destruct H as [H|H]); apply Z.eqb_eq in H; subst c; split; try (vm_compute; reflexivity); unfold eof; lia.
Qed.

Lemma ident_loop_ok : forall n m w l s k d rest, runes_all is_alnum m w = true ->
  is_terminator (fb rest) = true -> Mid l s k d -> Suf k (w ++ rest) -> (List.length w < n)%nat ->
  exists l', ident_loop n inp l = Ok l' /\ Mid l' s (k + Z.of_nat (List.length w)) d.
Proof.
  induction n as [|n IH]; intros m w l s k d rest Hall Hterm HM HS Hn; [lia|].
  cbn [ident_loop]. destruct w as [|c t].
  - cbn [app] in HS. destruct (next_back l s k d rest HM HS) as (r & l1 & l2 & E & E2 & M2 & Hcl & _).
    rewrite E. cbn [bindR]. destruct (term_not_alnum _ Hterm) as [Hna Hlt].
    destruct Hcl as [[_ ->]|[Hx _]]; [|lia]. rewrite Hna.
    exists l2. split; [exact E2|]. cbn [List.length]. rewrite Z.add_0_r. exact M2.
  - destruct m as [|m]; [discriminate Hall|]. cbn [runes_all] in Hall.
    destruct (ldec (c :: t)) as [r wd] eqn:Ed. apply andb_true_iff in Hall. destruct Hall as [Hr Hall].
    destruct (ldec_app (c :: t) rest r wd ltac:(discriminate) Ed (alnum_not_error r Hr)) as [Ed' Hwd].
    pose proof (Suf_lt _ _ _ HS) as Hlt. pose proof HS as [Hk _].
    destruct (next_dec l s k d r wd HM ltac:(lia)) as (l1 & E & M1 & W1).
    { rewrite (Suf_decode _ _ HS). exact Ed'. }
    rewrite E. cbn [bindR]. rewrite Hr.
    set (w := c :: t) in *.
    assert (Ew : w = firstn (Z.to_nat wd) w ++ skipn (Z.to_nat wd) w) by (symmetry; apply firstn_skipn).
    assert (Lf : List.length (firstn (Z.to_nat wd) w) = Z.to_nat wd) by (rewrite firstn_length; lia).
    assert (Lw : List.length w = (Z.to_nat wd + List.length (skipn (Z.to_nat wd) w))%nat).
    { rewrite Ew at 1. rewrite app_length, Lf. reflexivity. }
    assert (HS' : Suf (k + wd) (skipn (Z.to_nat wd) w ++ rest)).
    { replace (k + wd) with (k + Z.of_nat (List.length (firstn (Z.to_nat wd) w))) by (rewrite Lf; lia).
      apply Suf_app. rewrite app_assoc, <- Ew. exact HS. }
    destruct (IH m (skipn (Z.to_nat wd) w) l1 s (k + wd) d rest Hall Hterm M1 HS') as (l' & E' & M'); [lia|].
    exists l'. split; [exact E'|]. rewrite Lw. rewrite Nat2Z.inj_add, Z.add_assoc. rewrite Z2Nat.id by lia. exact M'.
Qed.

Lemma substr_suf : forall s txt rest, Suf s (txt ++ rest) ->
  substr inp s (s + Z.of_nat (List.length txt)) = Ok (bytes_string txt).
Proof.
  intros s txt rest HS. unfold substr.
  pose proof (Suf_app _ _ _ HS) as [Hk2 _]. pose proof HS as [Hk _].
  replace (0 <=? s) with true by (symmetry; apply Z.leb_le; lia).
  replace (s <=? s + Z.of_nat (List.length txt)) with true by (symmetry; apply Z.leb_le; lia).
  replace (s + Z.of_nat (List.length txt) <=? len) with true by (symmetry; apply Z.leb_le; lia).
  cbn [andb]. replace (Z.to_nat (s + Z.of_nat (List.length txt) - s)) with (List.length txt) by lia.
  rewrite (sub_go_spec txt s rest EmptyString HS).
  assert (Ea : forall x, String.append x EmptyString = x) by (induction x as [|a x IHx]; cbn [String.append]; [reflexivity|rewrite IHx; reflexivity]).
  rewrite Ea. reflexivity.
Qed.

(* lexText hands an alphanumeric rune that is no ASCII digit and no '-' to lexIdentifier *)
Lemma lex_text_alnum : forall l r l1 l2, is_alnum r = true -> is_ascii_digit r = false -> r <> 45 ->
  next inp l = Ok (r, l1) -> backup inp l1 = Ok l2 -> lex_text inp l = LNext [] l2 (Some SIdent).
Proof.
  intros l r l1 l2 Ha Hd H45 E E2. unfold lex_text. rewrite E. cbn [lift].
  rewrite Hd.
  text_chain ltac:(fun X =>
    first [ apply Z.eqb_eq in X; subst r; first [ vm_compute in Ha; discriminate Ha | apply H45; reflexivity ]
          | unfold is_space in X; repeat (apply orb_true_iff in X; destruct X as [X|X]); apply Z.eqb_eq in X; subst r;
            vm_compute in Ha; discriminate Ha ]).
  rewrite Ha, E2. reflexivity.
Qed.

Lemma word_tok : forall x l k d rest,
  is_word_type (lx_typ x) = true -> toktype_eqb (lx_typ x) (word_type (lx_txt x)) = true ->
  word_ok (string_bytes (lx_txt x)) = true -> is_terminator (fb rest) = true ->
  At l k d -> Suf k (string_bytes (lx_txt x) ++ rest) -> TokStep l k d d x.
Proof.
  intros [kk v] l k d rest Hwt Hty Hok Hterm HA HS. unfold TokStep. cbn [lx_typ lx_txt] in *.
  remember (string_bytes v) as w eqn:Ew. unfold word_ok in Hok.
  destruct w as [|c t]; [discriminate Hok|]. apply andb_true_iff in Hok. destruct Hok as [Hok Hall].
  apply andb_true_iff in Hok. destruct Hok as [Hnd H45]. zb.
  (* the first rune *)
  pose proof Hall as Hall0. cbn [runes_all] in Hall.
  destruct (ldec (c :: t)) as [r wd] eqn:Ed. apply andb_true_iff in Hall. destruct Hall as [Hr _].
  destruct (ldec_app (c :: t) rest r wd ltac:(discriminate) Ed (alnum_not_error r Hr)) as [Ed' Hwd].
  pose proof (Suf_lt _ _ _ HS) as Hlt. pose proof HS as [Hk _].
  destruct (next_dec l k k d r wd HA ltac:(lia)) as (l1 & E & M1 & W1).
  { rewrite (Suf_decode _ _ HS). exact Ed'. }
  assert (Hlen : k + wd <= len).
  { pose proof (Suf_len _ _ HS) as L. rewrite app_length in L. lia. }
  destruct (backup_w l1 k k d wd M1 W1 ltac:(lia) ltac:(lia) Hlen ltac:(right; lia)) as (l2 & E2 & M2 & W2).
  assert (Hrc : (c < 128 /\ r = c) \/ (128 <= c /\ 128 <= r)).
  { unfold ldec in Ed. cbn [nth] in Ed. destruct (Z.lt_ge_cases c 128) as [H|H].
    - left. split; [exact H|]. unfold dec5 in Ed. replace (c <? 128) with true in Ed by (symmetry; apply Z.ltb_lt; lia).
      inversion Ed; reflexivity.
    - right. split; [exact H|].
      assert (Hn1 : 1 <= Z.of_nat (List.length (c :: t))) by (cbn [List.length]; lia).
      destruct (dec5_hi _ _ _ _ _ _ _ H Hn1 Ed) as (Hr' & _). exact Hr'. }
  assert (Hrd : is_ascii_digit r = false).
  { destruct Hrc as [[_ ->]|[_ H]]; [exact Hnd|]. unfold is_ascii_digit. apply andb_false_iff. right. apply Z.leb_gt. lia. }
  assert (Hr45 : r <> 45) by (destruct Hrc as [[_ ->]|[_ H]]; [exact H45|lia]).
  assert (Eent : lex_step inp SText l = LNext [] l2 (Some SIdent)).
  { cbn [lex_step]. apply (lex_text_alnum l r l1 l2); assumption. }
  (* lexIdentifier *)
  destruct (ident_loop_ok (loop_fuel inp l2) _ (c :: t) l2 k k d rest Hall0 Hterm M2 HS) as (l3 & E3 & M3).
  { pose proof (loop_fuel_gt l2 k _ (proj1 (proj2 M2)) HS) as F. rewrite app_length in F. lia. }
  pose proof (Suf_app _ _ _ HS) as HS3.
  destruct (next_back l3 k _ d rest M3 HS3) as (r' & l4 & l5 & E4 & E5 & M5 & Hcl & _).
  destruct (term_not_alnum _ Hterm) as [_ Hlt'].
  assert (Hr' : r' = fb rest) by (destruct Hcl as [[_ ->]|[Hx _]]; [reflexivity|lia]).
  destruct (emit1_tok l5 k d (c :: t) rest (word_type v) M5 HS) as (tk & l6 & E6 & A6 & T6 & V6).
  exists tk, l6. split; [|split; [exact A6|split]].
  - intros ts HR. change ([tk] ++ ts) with ([] ++ [tk] ++ ts).
    eapply Run_step; [exact Eent|]. eapply Run_step; [|exact HR].
    cbn [lex_step]. unfold lex_ident. rewrite E3. cbn [lift].
    destruct M3 as (S3 & P3 & _). rewrite S3, P3. rewrite (substr_suf k (c :: t) rest HS). cbn [lift].
    unfold peek. rewrite E4. cbn [bindR]. rewrite E5. cbn [bindR lift]. rewrite Hr', Hterm.
    rewrite Ew, bytes_string_bytes. exact E6.
  - rewrite T6. unfold toktype_eqb in Hty. apply Z.eqb_eq in Hty.
    destruct kk, (word_type v); cbn in Hty; try discriminate; reflexivity.
  - rewrite V6, Ew. apply bytes_string_bytes.
Qed.

(* ---- any lexeme ---- *)
Lemma dstep_plain : forall d k d', dstep d k = Some d' ->
  match k with
  | ItemLeftParen | ItemRightParen | ItemLeftSquareParen | ItemRightSquareParen | ItemLeftBrace | ItemRightBrace => True
  | _ => d' = d
  end.
Proof. intros [[a b] c] k d' H. destruct k; cbn [dstep] in H; try exact I; inversion H; reflexivity. Qed.

Lemma lexeme_tok : forall x l k d d' rest,
  lexeme_ok x = true -> follow_ok x (fb rest) = true -> dstep d (lx_typ x) = Some d' ->
  At l k d -> Suf k (string_bytes (lx_txt x) ++ rest) -> TokStep l k d d' x.
Proof.
  intros x l k d d' rest Hok Hf Hd HA HS. unfold lexeme_ok in Hok. unfold follow_ok in Hf.
  destruct (is_word_type (lx_typ x)) eqn:Hw.
  - apply andb_true_iff in Hok. destruct Hok as [Hty Hwo].
    assert (d' = d) by (pose proof (dstep_plain _ _ _ Hd) as P; destruct (lx_typ x); try discriminate Hw; exact P).
    subst d'. apply (word_tok x l k d rest); assumption.
  - destruct (lx_typ x) eqn:Ek; try discriminate Hw; try (cbn in Hok; discriminate Hok);
    match type of Ek with
    | _ = ItemNumber =>
        assert (d' = d) by (apply (dstep_plain _ _ _ Hd)); subst d';
        destruct (number_shape (string_bytes (lx_txt x))) as [hd|] eqn:Esh; [|discriminate Hok];
        apply (number_tok x l k d rest hd); try assumption;
        [ destruct hd; [zb; exact Hf|]; apply andb_true_iff in Hf; destruct Hf as [Hf _]; zb; exact Hf
        | intros ->; apply andb_true_iff in Hf; destruct Hf as [_ Hf]; zb; apply Z.eqb_neq; exact Hf ]
    | _ = ItemString =>
        assert (d' = d) by (apply (dstep_plain _ _ _ Hd)); subst d';
        apply (string_tok x l k d rest); assumption
    | _ =>
        apply (op_tok x l k d d' rest); try assumption;
        [ rewrite Ek; reflexivity | rewrite Ek; discriminate | rewrite Ek; discriminate | rewrite Ek; exact Hok
        | unfold follow_ok; rewrite Ek; exact Hf | rewrite Ek; exact Hd ]
    end.
Qed.

Definition lx_of (t : ltoken) : lexeme := LX (lt_typ t) (lt_val t).

Lemma render_run : forall items f l k d,
  layout_ok items f = true -> depth_ok d (map snd items) = true -> At l k d -> Suf k (render items f) ->
  exists ts teof, Run (Some SText) l (ts ++ [teof]) /\ map lx_of ts = map snd items /\ lt_typ teof = ItemEOF.
Proof.
  induction items as [|[sep x] r IH]; intros f l k d Hlay Hdep HA HS.
  - cbn [layout_ok render] in *. destruct (tail_run f l k d Hlay HA HS) as (tk & R & Ht).
    exists [], tk. split; [exact R|]. split; [reflexivity|exact Ht].
  - cbn [layout_ok render map snd depth_ok] in *.
    apply andb_true_iff in Hlay. destruct Hlay as [Hlay Hrest]. apply andb_true_iff in Hlay. destruct Hlay as [Hlay Hfol].
    apply andb_true_iff in Hlay. destruct Hlay as [Hsep Hlx].
    destruct (dstep d (lx_typ x)) as [d'|] eqn:Ed; [|discriminate Hdep].
    destruct (sep_then sep l k d _ Hsep HA HS) as (l1 & T1 & A1).
    pose proof (Suf_app _ _ _ HS) as HS1.
    destruct (lexeme_tok x l1 _ d d' (render r f) Hlx Hfol Ed A1 HS1) as (tk & l2 & T2 & A2 & Tt & Tv).
    destruct (IH f l2 _ d' Hrest Hdep A2 (Suf_app _ _ _ HS1)) as (ts & teof & R & Em & Ht).
    exists (tk :: ts), teof. split; [|split; [|exact Ht]].
    + apply (T1 ((tk :: ts) ++ [teof])). apply (T2 (ts ++ [teof])). exact R.
    + cbn [map]. rewrite Em. f_equal. unfold lx_of. rewrite Tt, Tv. destruct x; reflexivity.
Qed.

End Lay.

(* ------------------------------------------------------------------------------------------ *)
(* the theorem                                                                                 *)
(* ------------------------------------------------------------------------------------------ *)
Lemma is_space_range : forall c, is_space c = true -> byte_ok c.
Proof.
  intros c H. unfold is_space in H. repeat (apply orb_true_iff in H; destruct H as [H|H]); apply Z.eqb_eq in H;
    subst c; unfold byte_ok; lia.
Qed.
Lemma render_item_bytes : forall i, litem_ok i = true -> bytes_ok (render_item i).
Proof.
  intros [c|b|b] H; cbn [litem_ok render_item] in *.
  - constructor; [apply is_space_range; exact H|constructor].
  - constructor; [unfold byte_ok; lia|]. apply bytes_ok_app. split; [apply string_bytes_ok|constructor; [unfold byte_ok; lia|constructor]].
  - constructor; [unfold byte_ok; lia|]. constructor; [unfold byte_ok; lia|].
    apply bytes_ok_app. split; [apply string_bytes_ok|constructor; [unfold byte_ok; lia|constructor]].
Qed.
Lemma render_sep_bytes : forall s, forallb litem_ok s = true -> bytes_ok (render_sep s).
Proof.
  induction s as [|i s IH]; intros H; [constructor|]. cbn [forallb] in H. apply andb_true_iff in H. destruct H as [Hi Hs].
  unfold render_sep. cbn [flat_map]. apply bytes_ok_app. split; [apply render_item_bytes; exact Hi|apply IH; exact Hs].
Qed.
Lemma render_bytes : forall items f, layout_ok items f = true -> bytes_ok (render items f).
Proof.
  induction items as [|[sep x] r IH]; intros f H; cbn [layout_ok render] in *.
  - unfold tail_ok in H. apply andb_true_iff in H. destruct H as [Hs Hc]. unfold render_tail.
    apply bytes_ok_app. split; [apply render_sep_bytes; exact Hs|].
    destruct (snd f) as [[[|] b]|]; repeat (constructor; [unfold byte_ok; lia|]); try apply string_bytes_ok; constructor.
  - apply andb_true_iff in H. destruct H as [H Hr]. apply andb_true_iff in H. destruct H as [H _].
    apply andb_true_iff in H. destruct H as [Hs _].
    apply bytes_ok_app. split; [apply render_sep_bytes; exact Hs|].
    apply bytes_ok_app. split; [apply string_bytes_ok|apply IH; exact Hr].
Qed.

(* lexing the bytes gives exactly these lexemes (type and text), then ItemEOF *)
Definition lexes_exactly (bs : list Z) (lxs : list lexeme) : Prop :=
  exists ts teof, lex_all (mk_input bs) = Ok (ts ++ [teof]) /\ map lx_of ts = lxs /\ lt_typ teof = ItemEOF.

(* LAYOUT INDEPENDENCE: whatever separators (white space, '#' and '//' comments) are put before,
   between and after the lexemes - as long as each lexeme is followed by a byte that keeps it
   apart from what comes next - the lexer returns the same token stream: the lexemes, then EOF. *)
Definition C14_layout_statement : Prop :=
  forall (items : list (list litem * lexeme)) (f : tail),
    layout_ok items f = true -> depth_ok (0, 0, 0) (map snd items) = true ->
    lexes_exactly (render items f) (map snd items).

Theorem C14_layout_holds : C14_layout_statement.
Proof.
  intros items f Hlay Hdep.
  pose proof (render_bytes items f Hlay) as Hb.
  assert (A0 : At init_lexer 0 (0, 0, 0)) by (unfold At, Mid, deps, init_lexer; cbn; repeat split).
  destruct (render_run (render items f) Hb items f init_lexer 0 (0, 0, 0) Hlay Hdep A0 (Suf0 _)) as (ts & teof & R & Em & Ht).
  exists ts, teof. split; [|split; assumption]. apply (run_lex_all _ _ R).
Qed.

(* ---- a simple sufficient layout: at least one white-space character between lexemes ---- *)
Definition starts_ws (s : list litem) : bool := match s with LWs c :: _ => is_space c | _ => false end.
Fixpoint ws_between (items : list (list litem * lexeme)) (f : tail) : bool :=
  match items with
  | [] => true
  | [(_, _)] => starts_ws (fst f) || (match fst f, snd f with [], None => true | _, _ => false end)
  | (_, _) :: (((sep, _) :: _) as r) => starts_ws sep && ws_between r f
  end.
Definition plain_ok (items : list (list litem * lexeme)) (f : tail) : bool :=
  forallb (fun it => forallb litem_ok (fst it) && lexeme_ok (snd it)) items && tail_ok f && ws_between items f.

Lemma follow_space : forall x c, lexeme_ok x = true -> is_space c = true \/ c = -1 -> follow_ok x c = true.
Proof.
  intros x c Hok Hc. unfold follow_ok. unfold lexeme_ok in Hok.
  assert (Hc5 : c = 32 \/ c = 9 \/ c = 10 \/ c = 13 \/ c = -1).
  { destruct Hc as [Hc|Hc]; [|auto 6]. unfold is_space in Hc.
    repeat (apply orb_true_iff in Hc; destruct Hc as [Hc|Hc]); apply Z.eqb_eq in Hc; auto 6. }
  destruct (is_word_type (lx_typ x)).
  - destruct Hc5 as [->|[->|[->|[->| ->]]]]; reflexivity.
  - destruct (lx_typ x); try reflexivity;
      try (destruct Hc5 as [->|[->|[->|[->| ->]]]]; reflexivity).
    destruct (number_shape (string_bytes (lx_txt x))) as [[|]|]; [| |discriminate Hok];
      destruct Hc5 as [->|[->|[->|[->| ->]]]]; reflexivity.
Qed.

Lemma first_byte_ws : forall sep rest, starts_ws sep = true ->
  is_space (first_byte (render_sep sep ++ rest)) = true.
Proof. intros [|[c| |] sep] rest H; try discriminate H. exact H. Qed.

Theorem ws_layout_ok : forall items f, plain_ok items f = true -> layout_ok items f = true.
Proof.
  intros items f H. unfold plain_ok in H. apply andb_true_iff in H. destruct H as [H Hws].
  apply andb_true_iff in H. destruct H as [Hall Htail].
  induction items as [|[sep x] r IH]; [exact Htail|].
  cbn [forallb fst snd] in Hall. apply andb_true_iff in Hall. destruct Hall as [Hx Hall].
  apply andb_true_iff in Hx. destruct Hx as [Hsep Hlx].
  cbn [layout_ok]. rewrite Hsep, Hlx. cbn [andb].
  destruct r as [|[sep2 x2] r2].
  - cbn [ws_between] in Hws. cbn [render layout_ok]. rewrite Htail, andb_true_r.
    apply follow_space; [exact Hlx|]. apply orb_true_iff in Hws. destruct Hws as [Hws|Hws].
    + left. unfold render_tail. apply first_byte_ws. exact Hws.
    + right. unfold render_tail. destruct (fst f); [|discriminate Hws]. destruct (snd f); [discriminate Hws|]. reflexivity.
  - cbn [ws_between] in Hws. apply andb_true_iff in Hws. destruct Hws as [Hs2 Hws].
    rewrite (IH Hall Hws), andb_true_r. apply follow_space; [exact Hlx|]. left.
    cbn [render]. apply first_byte_ws. exact Hs2.
Qed.

