CONFIG = {
    "id": "C12",
    # Coq files that must build, and the property file whose theorems / Print Assumptions are the obligations
    "coq_targets": ["Props/C12.v", "Model/GcsEvalCheck.v"],
    "prop_files": ["Props/C12.v"],
    "gen": [],
    "components": [{
        "name": "gcseval",
        "modules": ["Model.GcsAst", "Model.GcsStore", "Model.GcsEval", "Model.GcsSem", "Model.GcsEvalCheck"],
        "check": "check_case", "monitor": "monitor_case", "model_out": "model_out",
        "case_type": "case",
        "ops_path": [0, "a", 0],      # the top-level statement list of the program (Block [...]) is what gets shrunk
        "n_quick": 600, "n_thorough": 20000, "shard": 150,
    }],
    "rule": "gcs programs generated as source text from the grammar and parsed by the real parser (bounded depth; every "
            "loop is driven by a counter with a fresh name, <= 4 iterations, nesting <= 3; recursion only through guarded "
            "templates called with literals 0-4): integer and float literals incl. 2^31, 2^32+1, 2^53, 2^53+1, 2^62, "
            "MaxInt64, MinInt64, 2^63 (a float), -0.0, trailing/leading dot forms; all 12 binary and both unary operators; "
            "strings, maps with elements and fields, function statements/literals/immediately invoked literals, calls "
            "whose arguments name the callee's parameters, dynamic scoping, let/assign in nested blocks with shadowing "
            "and deliberate redeclaration, if/else-if chains, while, the four forms of for, break/continue, switch "
            "with/without subject, fallthrough, default in any position, return from inside loops/blocks/switches, sort "
            "(callbacks that print, assign their parameters, read the map being sorted), first, any, len, print, type, "
            "rand (scripted 63-bit draws incl. values that round to 1.0), all 22 condition builtins over a stub engine "
            "(5 targets, boundary floats, invalid/unknown targets, int32-wrapping enum arguments), enum and character "
            "names, register_skill_cb/register_ult_cb/set_default_action with 0-3 callback parameters and effectful "
            "arguments, then 1-7 NextAction/UltCheck/DefaultAction invocations; one third of the programs carry 1-2 "
            "injected faults (unknown name, wrong arity, string operand, integer and float division by zero, calling a "
            "non-function, bad callback shape, wrong action type, faulty for-init/post). All choices come from one "
            "splitmix64 state; a case is non-trivial when distinct as an input term",
    "trusted": [
        "the tie between the Go evaluator and Model/GcsEval.v is the correspondence (every generated and corpus case: "
        "implementation model == real trace exactly, all three fields of every printed number; reference semantics == "
        "real trace on values, engine calls, outcomes, error categories and decisions), not a translation",
        "printed values are read through the add-only `verif` hook pkg/logic/gcs/eval/export_verif.go (a tap on the "
        "print builtin installed from the stub engine's Characters() call inside Init); the decimal text the real print "
        "writes is compared in the harness with its own rendering of those values (strconv), not in Coq",
        "errors are compared by category (10 categories assigned from the message text), not by message",
        "Go library contracts: sort.SliceStable on <= 20 elements is one insertion sort (larger maps are an explicit "
        "Unsupported outcome and are not generated); math/rand Float64 = float64(Int63())/2^63 redrawn when it rounds "
        "to 1; strings.Trim; int64->float64 conversion rounds to nearest even (PrimFloat.of_uint63)",
        "map literal fields are evaluated in sorted key order in both models; Go ranges over the map, so the generator "
        "keeps field expressions free of effects and errors (the order dependence is property C01's)",
        "randnorm() is not modelled (explicit Unsupported outcome, not generated); a dangling model address "
        "(FDangling: the models write Go pointers as indices) is an explicit outcome that no theorem excludes and "
        "that can never equal a real outcome in the correspondence",
    ],
    "assumptions": [
        "well-formed program = a tree as the parser builds it (wf_block: float literals carry IntVal 0, blocks of "
        "functions/ifs/loops/cases present); checked on every case by the monitor",
        "an engine is always passed to Init (rand() with a nil engine dereferences nil; the simulator always passes one)",
        "each theorem is for every fuel; running out of fuel is a distinct outcome of both models (the generator keeps "
        "real runs far below the budget); unbounded recursion / loops are outside the property's quantifier",
        "where the property is silent the reference semantics follows the implementation: dynamic scoping of free "
        "variables, no short-circuit for && and ||, a break inside a switch case ends the switch only, sort "
        "is in place and its callback parameters alias the array slots, a float used as a target id reads as 0, "
        "-x is 0 - x (so -(0.0) is +0.0)",
    ],
    "manifest": {
        "level_text": "Kernel-checked refinement between an executable Gallina model of the evaluator (dual number "
                      "representation, Go panics explicit) and a reference big-step semantics (integer-or-float numbers, "
                      "return/break/continue as signals), for all programs, engine states, random streams, callback "
                      "scripts and fuel; operator layer proved on every pair of representations; no-panic and "
                      "error-reporting theorems; tied to the Go code by exact trace correspondence of both models "
                      "with the real evaluator on grammar-generated programs.",
        "level_note": "Coq kernel; hand-written models Model/GcsEval.v, Model/GcsSem.v over Model/GcsAst.v; "
                      "correspondence harness with an add-only verif hook; ten fix: commits in pkg/logic/gcs/eval.",
        "technique": "Coq proof (simulation by induction on fuel over 15 mutually recursive evaluation functions) + "
                     "model/implementation correspondence",
        "design_ref": "DESIGN.md section 7, C12",
    },
}
