CONFIG = {
    "id": "C09",
    "coq_targets": ["Model/SweepCheck.v", "Model/SimSkeleton.v", "Gen/RunSkeleton.v", "Model/SimSkeletonInterp.v", "Proofs/RunSkeletonProofs.v",
                    "Proofs/SimActiveFrame.v", "Proofs/RunSkeletonInterpProofs.v", "Props/C09.v", "Model/SimCheck.v"],
    "prop_files": ["Props/C09.v"],
    "gen": ["Globals", "RunSkeleton"],
    "components": [{
        "name": "sim", "modules": ["Base.NumOps", "Model.Turn", "Model.Sim", "Model.SimCheck"],
        "check": "check_case", "monitor": "monitor_c09", "model_out": "monitor_detail",
        "case_type": "case", "ops_path": None, "mismatch_is_violation": False,
        "n_quick": 900, "n_thorough": 12000, "shard": 150,
    }, {
        # real content: every registered character / light cone / relic set with generated builds, scripts, seeds and
        # enemies (the C20 sweep); the harness recomputes the result from the logged hits, the Termination and the
        # series (Go side, content.go resultClause) - shields, crits, DoTs, follow-ups, revives all occur here
        "name": "sweep", "modules": ["Base.GlobalTypes", "Model.RunSpec", "Model.Catalog", "Model.SweepCheck"],
        "check": "check_c09", "monitor": "monitor_c09", "model_out": "model_out",
        "case_type": "case", "ops_path": None,
        "n_quick": 200, "n_thorough": 8000, "shard": 200,
    }],
    "rule": "scripted battles on the REAL simulation.Simulation: 1-4 registered harness characters (6 kinds: speeds, SP "
            "costs, target types, a Skill.CanUse / Ult.CanUse check of their own), 1-5 harness enemies (HP 50-400, speeds incl. ties), 5-14 content scripts of engine calls "
            "(attacks qualified/unqualified with lethal and scratch damage on any unit incl. dead and unknown ids, SetHP, "
            "insert abilities with real priorities and abort flags, extra actions, energy, SP, flag modifiers, gauge "
            "changes, revive switches, samples of Characters()/Enemies()/turn order), per-unit action queues, listener "
            "slots (BattleStart, ActionEnd, HitEnd, TargetDeath, HPChange, AttackStart, the OnPhase1 / OnPhase2 modifier "
            "ticks, LimboWaitHeal verdict), decision sequences of the "
            "script callbacks incl. invalid targets and ult requests, cycle limit 0-4, insert budget 0-12; distinct = "
            "distinct input term",
    "trusted": ["run loop, TRANSLATED from the Go source on every run (go2coq RunSkeleton -> Gen/RunSkeleton.v; types and pinned table Model/SimSkeleton.v; interpreter Model/SimSkeletonInterp.v; Proofs/RunSkeletonProofs.v, Proofs/RunSkeletonInterpProofs.v; theorem C09_run_skeleton_is_the_source): EVERY statement of EVERY function of pkg/simulation/run.go, action.go and death.go as an ordered step (emit with payload, call, bind, assignment, if / for / range / switch with the guard as normalised source text, return / tail call with the next state), plus the values of the integer constants they name; no statement is skipped, a statement or a nested effectful call outside the recognised shapes makes the translator fail closed (only listed effect-free queries may be nested in an expression). PINNED (table = hand-written expected table, reflexivity): all 22 functions - Run, initialize, startBattle, engage, beginTurn, phase1, action, phase2, endTurn, exitCheck, InsertAction, InsertAbility, InsertUlt, ultCheck, executeQueue, executeAction, executeUlt, executeInsert, clearActionTargets, deathCheck, kill, deathEvent. INTERPRETED (interpretation of the generated steps over the model's own state, outcome type and functions proved equal to the model for all cfg / fuel / states): engage, beginTurn, phase1, action, phase2, endTurn, and their chaining = Sim.one_turn (equal outcomes; equal traces on an error outcome), phase2+endTurn = Sim.phase2, engage = the battle-start drain of Sim.start",
                'run loop, still HAND-WRITTEN / trusted under the translator tie: the denotation tables of Model/SimSkeletonInterp.v (which model function a call / event / guard text stands for: sim.deathCheck -> death_check, sim.Modifier.Tick(.., ModifierPhase1/2) -> run_slot LPhase1/LPhase2, sim.executeQueue -> execute_queue with phase < info.ActionEnd decided on the generated constants, sim.exitCheck -> exit_check, sim.executeAction -> execute_action, Turn.StartTurn / ResetTurn -> Model/Turn.v) and its no-counterpart list (the TurnStart and ActionEnd modifier ticks, createSnapshot, the enemy stance reset of phase1: identity in the model); the BODIES of exitCheck, executeQueue, ultCheck, executeAction / executeUlt / executeInsert, deathCheck / kill / deathEvent, initialize, startBattle, Run are pinned only (their model counterparts exit_check, drain, ult_check, execute_action, death_check / announce, start are shaped differently: fuel recursion, filters instead of index loops, units built in one step) and stay tied by correspondence; everything the called services do (turn manager, attribute service, modifier manager, queue, event system, character / enemy managers, IsValid / IsCharacter / onField / CanUseUlt / createSnapshot) is outside the three files; event payload texts are pinned but not interpreted',
                "hits of harness content are 'plain' (no DEF/RES/stance/shield/crit), so a hit's total is its flat damage; the "
                "damage formula itself is C04",
                "listener scripts never open or close an attack bracket (legal use of the API, enforced by the model as a "
                "distinct outcome and respected by the generator); they may add hits to an attack that is open",
                "the turn manager part is Model/Turn.v at binary64 (property C02)"],
    "assumptions": ["content uses the engine API legally: an attack bracket is opened (first qualified attack) and closed (EndAttack) only from action / ult / insert bodies"],
    "manifest": {
        "level_text": "Kernel-checked theorems about the model, for every configuration, content script set, decision sequence and run length (run level = about every terminated run `start cfg fuel = Stop s`): (a) the two totals are the left-to-right binary64 sums, from 0, of the total damage of the hits whose defender is an enemy / a character of the battle, over a list that is a permutation of the logged hits (the order in which the statistics subscriber saw them: it runs before the content's HitEnd listener, the log line is written after it, so nested hits are summed in a different order than logged; hits on ids that are not units count on neither side); without a content HitEnd listener the sums are over the log order itself; (b) the two per-cycle series always have equal length >= 1; when the clock's cycle index never decreases from one turn start to the next (decidable on the trace) both end at the totals, and when moreover no hit total is negative or NaN both are non-decreasing in the binary64 order (float-level proof: x <= x + d for x, d >= 0); (c) the total action value is the clock of the last turn start and is carried by the final Termination; the run continues past an exit check iff both sides have living units and floor(clock/100) < limit, and the result is, unchanged, the outcome of the first exit check that fails (state + the one Termination, reason loss, else win, else timeout); for configurations that describe characters first the Termination's reason agrees with the deaths announced in the trace (`reason_ok`), and under the four assumptions (characters first, no HitEnd listener, monotone cycle index, non-negative hits) the whole trace monitor `monitor_c09` accepts every terminated model run. Not proved: that the cycle index is monotone for every configuration (it is for positive speeds at the level of the reals, C02); per-function facts (exit decision, hit bookkeeping) as before.",
        "level_note": "go2coq RunSkeleton translator (run.go, action.go, death.go -> step table) + pinned table + interpreter Model/SimSkeletonInterp.v + kernel-checked equality with Sim.one_turn; " "Coq kernel; hand-written model Model/Sim.v tied by whole-trace correspondence; content is scripted harness "
                      "content registered through the exported Register functions; internal/* content is not modelled.",
        "technique": "source-to-Coq translation of the run loop into a step table, pinned and interpreted (state functions of a turn = Sim.one_turn) + " 'Coq proofs over whole runs (frame principle over all content scripts with hit completion as one step, relation composed over queue, turns and start; binary64 order facts via Flocq) + whole-trace correspondence + result monitor',
        "design_ref": "DESIGN.md section 7, C09",
    },
}
