(* Helpers shared by the harness-written case files. *)
From Coq Require Import List ZArith Bool String Floats Uint63.
Import ListNotations.
Open Scope Z_scope.

Fixpoint list_eqb {A} (eqb : A -> A -> bool) (a b : list A) : bool :=
  match a, b with
  | [], [] => true
  | x :: a', y :: b' => eqb x y && list_eqb eqb a' b'
  | _, _ => false
  end.

Definition option_eqb {A} (eqb : A -> A -> bool) (a b : option A) : bool :=
  match a, b with
  | None, None => true
  | Some x, Some y => eqb x y
  | _, _ => false
  end.

(* indices (from 0) of the cases a checker rejects *)
Fixpoint failing_from {A} (chk : A -> bool) (i : Z) (cs : list A) : list Z :=
  match cs with
  | [] => []
  | c :: r => if chk c then failing_from chk (i + 1) r else i :: failing_from chk (i + 1) r
  end.
Definition failing {A} (chk : A -> bool) (cs : list A) : list Z := failing_from chk 0 cs.

(* binary64 from its bit pattern; floats never cross the Go/Coq boundary as text *)
Definition f64 (bits : Z) : float :=
  let sign := Z.testbit bits 63 in
  let e := Z.land (Z.shiftr bits 52) 2047 in
  let m := Z.land bits (2 ^ 52 - 1) in
  let mag :=
    if e =? 2047 then (if m =? 0 then infinity else nan)
    else if e =? 0 then ldshiftexp (of_uint63 (Uint63.of_Z m)) (Uint63.of_Z (shift - 1074))
    else ldshiftexp (of_uint63 (Uint63.of_Z (m + 2 ^ 52))) (Uint63.of_Z (shift + e - 1075)) in
  if sign then (- mag)%float else mag.

(* exact truncation toward zero of a finite float (0 for NaN/infinity: callers guard) *)
Definition ftoZ (x : float) : Z :=
  let a := abs x in
  if PrimFloat.is_nan a || PrimFloat.is_infinity a || PrimFloat.is_zero a then 0
  else
    let (m, e) := frshiftexp a in              (* a = m * 2^(e-shift), 0.5 <= m < 1 *)
    let ex := Uint63.to_Z e - shift in
    let mant := Uint63.to_Z (normfr_mantissa m) in   (* m = mant * 2^-53 *)
    let mag := if 53 <=? ex then mant * 2 ^ (ex - 53) else Z.shiftr mant (53 - ex) in
    if get_sign x then - mag else mag.

(* and back: the bit pattern of a float (NaNs are canonicalised to one pattern) *)
Definition bits64 (x : float) : Z :=
  if PrimFloat.is_nan x then 9221120237041090560 (* 0x7FF8000000000000 *)
  else
    let s := if get_sign x then 2 ^ 63 else 0 in
    let a := abs x in
    if PrimFloat.is_infinity a then s + 2047 * 2 ^ 52
    else if PrimFloat.is_zero a then s
    else
      let (m, e) := frshiftexp a in
      let ex := Uint63.to_Z e - shift in     (* a in [2^(ex-1), 2^ex) *)
      if ex <? -1021 then
        (* subnormal: a = k * 2^-1074 with k < 2^52 *)
        s + ftoZ (ldshiftexp a (Uint63.of_Z (shift + 1074)))
      else
        let mant := Uint63.to_Z (normfr_mantissa m) in   (* in [2^52, 2^53) *)
        s + (ex + 1022) * 2 ^ 52 + (mant - 2 ^ 52).

Definition feqb_bits (a b : float) : bool := bits64 a =? bits64 b.

(* Go's float64 -> int64 conversion is defined only when the truncated value fits *)
Definition int64_min : Z := - 2 ^ 63.
Definition int64_max : Z := 2 ^ 63 - 1.
Definition f2i_defined (x : float) : bool :=
  negb (PrimFloat.is_nan x) && negb (PrimFloat.is_infinity x) &&
  (int64_min <=? ftoZ x) && (ftoZ x <=? int64_max).
Definition wrap64 (z : Z) : Z := (z + 2 ^ 63) mod 2 ^ 64 - 2 ^ 63.
