CONFIG = {
    "id": "C07",
    "coq_targets": ["Gen/FormulasInfo.v", "Gen/FormulasAttr.v", "Proofs/FormulasAttrProofs.v",
                    "Props/C07.v", "Model/AttrCheck.v"],
    "prop_files": ["Props/C07.v"],
    "gen": ["FormulasInfo", "FormulasAttr"],
    "components": [{
        "name": "attr", "modules": ["Model.Attr", "Model.AttrCheck"],
        "check": "check_case", "monitor": "monitor_case", "model_out": "model_out",
        "case_type": "case",
        "ops_path": [],             # the input term is the op list itself
        "n_quick": 1200, "n_thorough": 20000, "shard": 100,
    }],
    "rule": "op lists of 3-33 calls on the real attribute.New service (real event.System, scripted modifier.Eval): "
            "AddTarget (1-3 units from the id pool {1,2,3}, late and duplicate registrations, id 4 never registered), "
            "SetHP / ModifyHPByAmount / ModifyHPByRatio (both ratio types and invalid ones, floors 0, 1, fractions and "
            "multiples of max HP, negative and huge floors), SetEnergy / ModifyEnergy / ModifyEnergyFixed, SetStance / "
            "ModifyStance, ModifySP (incl. int64 extremes); amounts half from boundary values (0, -0, exactly max, one ulp "
            "above/below, -max, 2*max, MaxFloat64, 5e-324) and half small round numbers whose sums hit the bounds exactly; "
            "per-call max HP / energy regen for the target and different ones for every other unit, one stance bonus for all "
            "units (whose bonus scales ModifyStance is C04); a "
            "LimboWaitHeal listener that cancels in a third of the calls; most cases focus on one quantity so that "
            "consecutive calls chain; everything derives from one splitmix64 state; a case is non-trivial when distinct "
            "as an input term",
    "trusted": [
        "TRANSLATED from the Go source on every run and proved equal to the model at binary64 (Gen/FormulasAttr.v, "
        "Gen/FormulasInfo.v; Proofs/FormulasAttrProofs.v; theorem C07_model_formulas_are_the_source): AddTarget "
        "(energy cap, HP ratio default), SetHP, ModifyHPByAmount, ModifyHPByRatio (both ratio types, the floor, "
        "the error outcome for another type), the [0,1] clamp, SetStance and SetEnergy clamps, ModifyStance / "
        "ModifyEnergy / ModifyEnergyFixed amounts (and WHOSE stats they read: the whitelisted assignment stats := "
        "s.Stats(data.Source) resp. data.Target), ModifySP (64-bit wrap, clamp to [0,5]), the initial 3 skill "
        "points",
        "still HAND-WRITTEN (correspondence only): the unknown-target error paths, emitHPChangeEvents (state "
        "machine, one event per change), StanceBreak / StanceReset announcements, the getters",
        "translator (harness/cmd/go2coq formulas.go, formulas_specs.go): trusted are the Go front end "
        "(go/packages, go/types, go/constant), the fixed whitelist and accessor tables (which Go field / method is "
        "which model accessor), the statement translation listed at the top of formulas.go, and that lit N n d "
        "(the correctly rounded quotient of two integers below 2^53) is the binary64 the Go compiler stores for "
        "the literal n/d; the translator fails closed (unknown construct, added or missing assignment, changed "
        "signature: go2coq exits 1 and the check reports a broken translator obligation)",
        "for functions that mix effects and arithmetic only the whitelisted statements are translated (the "
        "statements of one block that assign the named variables, their number fixed; every other assignment to "
        "those variables or to the inputs must be whitelisted verbatim): the ORDER of effects around the "
        "arithmetic (event emissions, service calls, which unit receives the energy) stays hand-written and is "
        "tied by correspondence only","what the service reads from the rest of the engine (Stats(target).MaxHP(), EnergyRegen(), "
                "AllStanceDMGPercent) is an input of every call: the harness serves it through a scripted modifier.Eval "
                "(HPBase = max HP, no percent/flat part), the modifier side itself is property C06",
                "key.Reason is represented by small integers printed as decimal strings"],
    "assumptions": ["units are registered (AddTarget) with attributes in range: HP ratio <= 1 (non-positive becomes 1), "
                    "0 <= energy, 0 <= finite max energy, 0 <= stance <= finite max stance; AddTarget itself does not validate",
                    "amounts, ratios, floors, energy regen and stance damage bonus are finite; max HP is finite and positive",
                    "listeners do not call the attribute service from inside its events (calls are sequential)",
                    "the chain property compares values with float64 == (a stored +0 may be reported as -0 and vice versa)"],
    "manifest": {
        "level_text": "Translator tie (way 1): every clamp and update expression of attribute/add.go and attribute/modify.go is regenerated from the Go source on every run (go2coq FormulasAttr) and proved EQUAL to the model's expressions at binary64; "
                      "Kernel-checked theorems at the binary64 level (Flocq facts about primitive floats) over an "
                      "executable Gallina model of the attribute service: ranges as an invariant of all call sequences, "
                      "exactly-one-event-iff-changed with old/new = before/after for every call, event chains, break/reset "
                      "announcements; tied to the Go code by exact (bit-level) correspondence of events, errors and getters "
                      "on generated histories plus an independent monitor of the property on the implementation's output.",
        "level_note": "go2coq FormulasAttr translator + kernel-checked equalities generated = model; "
                      "Coq kernel; hand-written model Model/Attr.v of the repaired code (two fix: commits in "
                      "ModifyHPByRatio); stats of the target are per-call inputs.",
        "technique": "source-to-Coq translation of the formulas with equality proofs + "
                     "Coq proof (invariant + per-call specification, induction over op lists) + model/implementation "
                     "correspondence + runtime monitor",
        "design_ref": "DESIGN.md section 7, C07",
    },
}
