(* Model of pkg/engine/modifier/{add,remove,tick,update,modifier,listener}.go (the attached
   lists and their announcements; stat evaluation is Model/Stats.v).  Executable; no proofs.

   Go pointers to *Instance are tags: the heap maps a tag to the instance record, the
   per-unit lists hold tags, so that an instance that has left a list can still be mutated
   through a handle or a snapshot iteration, exactly as in Go.  Every AddModifier call
   consumes one tag (the harness puts it into info.Modifier.State, which is how the
   implementation's instances are identified).  A list entry is (slot, tag); the slot is a
   ghost value: the time of attachment (a Replace puts the incoming instance into the slot
   of the one it swaps out).

   Listener behaviour is data: a catalog entry carries, per listener kind, an optional script
   of engine calls; a listener invocation records itself and, while the nesting depth allows,
   performs its script (the harness listeners count depth the same way).  *)
From Coq Require Import List ZArith Bool Floats Uint63.
Import ListNotations.
Open Scope Z_scope.

Inductive stacking := Unique | ReplaceBySource | Replace | Multiple | Refresh | Prolong | Merge.
Inductive moment := Phase2End | Phase1End.
Inductive lkind := LAdd | LRemove | LDispel | LExtDur | LExtCnt | LProp | LPhase1 | LPhase2.
Inductive tsel := TOwner | TSource | TUnit (u : Z).

(* info.Modifier as passed to AddModifier *)
Record desc := mkD {
  d_name : Z; d_src : Z; d_chance : float; d_dur : Z; d_tick : bool;
  d_cnt : Z; d_max : Z; d_cadd : Z; d_stats : bool }.

Inductive op :=
| OAdd (t : Z) (d : desc)
| ORemove (t n : Z)
| ORemoveSrc (t src n : Z)
| ORemoveSelf (tag : Z)
| ODispel (t status order count : Z)
| OExtDur (t n amt : Z)
| OExtCnt (t n amt : Z)
| OTick (t phase : Z).

Inductive act :=
| AAdd (t src : tsel) (d : desc)
| ARemove (t : tsel) (n : Z)
| ARemoveSrc (t src : tsel) (n : Z)
| ARemoveSelf
| ADispel (t : tsel) (status order count : Z)
| AExtDur (t : tsel) (n amt : Z)
| AExtCnt (t : tsel) (n amt : Z).

(* modifier.Config *)
Record cfg := mkCfg {
  c_stack : stacking; c_tick : moment; c_dur : Z; c_cnt : Z; c_max : Z; c_cadd : Z;
  c_status : Z; c_dispel : bool; c_flag : bool; c_ls : list (lkind * list act) }.

Definition cfg0 : cfg := mkCfg Unique Phase2End 0 0 0 0 0 false false [].

Record inst := mkI {
  i_tag : Z; i_name : Z; i_owner : Z; i_src : Z; i_tickimm : bool;
  i_max : Z; i_cadd : Z; i_renew : Z; i_stats : bool;
  i_dur : Z; i_cnt : Z; i_ct2 : bool }.

Definition inst0 : inst := mkI (-1) (-1) 0 0 false 0 0 0 false 0 0 false.

Inductive event :=
| ECall (k : lkind) (tag : Z)
| EAdded (t : Z) (m : inst) (chance : float)
| EResisted (t src n : Z) (chance base ehr eres dres : float)
| ERemoved (t slot : Z) (m : inst)
| EDispelled (t slot : Z) (m : inst)
| EExtDur (t : Z) (m : inst) (old new : Z)
| EExtCnt (t : Z) (m : inst) (old new : Z).

Record st := mkS {
  heap : Z -> inst;
  tg : Z -> list (Z * Z);             (* per unit: (slot, tag) in attachment order *)
  turn : Z;
  ntag : Z;
  nslot : Z;
  rng : Z;
  evs : list event }.                 (* newest first *)

(* static world of a case: catalog, valid units with (effect hit rate, effect res, debuff res) *)
Record world := mkWd { w_cat : list cfg; w_units : list (Z * (float * float * float)) }.

Definition lkind_eqb (a b : lkind) : bool :=
  match a, b with
  | LAdd, LAdd | LRemove, LRemove | LDispel, LDispel | LExtDur, LExtDur | LExtCnt, LExtCnt
  | LProp, LProp | LPhase1, LPhase1 | LPhase2, LPhase2 => true
  | _, _ => false
  end.

Definition getcfg (w : world) (n : Z) : cfg :=
  if n <? 0 then cfg0 else nth (Z.to_nat n) (w_cat w) cfg0.

Fixpoint lookup_ls (k : lkind) (ls : list (lkind * list act)) : option (list act) :=
  match ls with
  | [] => None
  | (k', sc) :: r => if lkind_eqb k k' then Some sc else lookup_ls k r
  end.

Definition script (w : world) (n : Z) (k : lkind) : option (list act) := lookup_ls k (c_ls (getcfg w n)).

Fixpoint ustats (us : list (Z * (float * float * float))) (u : Z) : option (float * float * float) :=
  match us with
  | [] => None
  | (u', x) :: r => if u' =? u then Some x else ustats r u
  end.
Definition valid (w : world) (u : Z) : bool := match ustats (w_units w) u with Some _ => true | None => false end.
Definition unit_ids (w : world) : list Z := map fst (w_units w).

(* ---- state primitives ---- *)
Definition set_heap (s : st) (h : Z -> inst) := mkS h (tg s) (turn s) (ntag s) (nslot s) (rng s) (evs s).
Definition upd (s : st) (tag : Z) (f : inst -> inst) : st :=
  set_heap s (fun x => if x =? tag then f (heap s x) else heap s x).
Definition setl (s : st) (t : Z) (l : list (Z * Z)) : st :=
  mkS (heap s) (fun u => if u =? t then l else tg s u) (turn s) (ntag s) (nslot s) (rng s) (evs s).
Definition emit (s : st) (e : event) : st :=
  mkS (heap s) (tg s) (turn s) (ntag s) (nslot s) (rng s) (e :: evs s).
Definition set_turn (s : st) (n : Z) := mkS (heap s) (tg s) n (ntag s) (nslot s) (rng s) (evs s).
Definition set_ntag (s : st) (n : Z) := mkS (heap s) (tg s) (turn s) n (nslot s) (rng s) (evs s).
Definition set_nslot (s : st) (n : Z) := mkS (heap s) (tg s) (turn s) (ntag s) n (rng s) (evs s).
Definition set_rng (s : st) (r : Z) := mkS (heap s) (tg s) (turn s) (ntag s) (nslot s) r (evs s).

Definition w_dur (d : Z) (i : inst) : inst :=
  mkI (i_tag i) (i_name i) (i_owner i) (i_src i) (i_tickimm i) (i_max i) (i_cadd i) (i_renew i) (i_stats i)
      d (i_cnt i) (i_ct2 i).
Definition w_cnt (c : Z) (i : inst) : inst :=
  mkI (i_tag i) (i_name i) (i_owner i) (i_src i) (i_tickimm i) (i_max i) (i_cadd i) (i_renew i) (i_stats i)
      (i_dur i) c (i_ct2 i).
Definition w_ct2 (b : bool) (i : inst) : inst :=
  mkI (i_tag i) (i_name i) (i_owner i) (i_src i) (i_tickimm i) (i_max i) (i_cadd i) (i_renew i) (i_stats i)
      (i_dur i) (i_cnt i) b.

Definition init : st := mkS (fun _ => inst0) (fun _ => []) 0 0 0 0 [].
Definition init_seed (seed : Z) : st := set_rng init seed.

(* ---- the harness random source (splitmix64, 63-bit outputs with ten low zero bits) and
        the three math/rand entry points the manager reaches through engine.Rand() ---- *)
Definition M64 : Z := 2 ^ 64.
Definition sm_next (s : Z) : Z * Z :=
  let s1 := (s + 11400714819323198485) mod M64 in
  let z := s1 in
  let z := (Z.lxor z (Z.shiftr z 30) * 13787848793156543929) mod M64 in
  let z := (Z.lxor z (Z.shiftr z 27) * 10723151780598845931) mod M64 in
  let z := Z.lxor z (Z.shiftr z 31) in
  (s1, Z.shiftl (Z.shiftr z 11) 10).

Definition two63 : float := Eval compute in ldshiftexp 1%float (Uint63.of_Z (63 + FloatOps.shift))%uint63.

(* Rand.Float64: float64(Int63()) / (1<<63); the outputs have at most 53 significant bits *)
Definition rand_float (s : st) : float * st :=
  let (r, x) := sm_next (rng s) in
  ((PrimFloat.of_uint63 (Uint63.of_Z x) / two63)%float, set_rng s r).

(* Rand.int31n (Lemire), rejection loop with fuel; out of fuel is reported as -1 *)
Fixpoint int31n_loop (fuel : nat) (r n thresh : Z) : Z * Z :=
  let (r1, x) := sm_next r in
  let prod := Z.shiftr x 31 * n in
  let low := prod mod 2 ^ 32 in
  if low <? thresh then
    match fuel with O => (r1, -1) | S f => int31n_loop f r1 n thresh end
  else (r1, Z.shiftr prod 32).

Definition int31n (r n : Z) : Z * Z :=
  let (r1, x) := sm_next r in
  let prod := Z.shiftr x 31 * n in
  let low := prod mod 2 ^ 32 in
  if low <? n then
    let thresh := (2 ^ 32 - n) mod n in
    if low <? thresh then int31n_loop 64 r1 n thresh else (r1, Z.shiftr prod 32)
  else (r1, Z.shiftr prod 32).

Fixpoint set_nth {A} (n : nat) (x : A) (l : list A) : list A :=
  match l, n with
  | [], _ => []
  | _ :: r, O => x :: r
  | y :: r, S n' => y :: set_nth n' x r
  end.

Definition swap_nth {A} (d : A) (i j : nat) (l : list A) : list A :=
  let a := nth i l d in let b := nth j l d in set_nth i b (set_nth j a l).

(* Rand.Shuffle: for i := n-1; i > 0; i-- { j := int31n(i+1); swap(i, j) } *)
Fixpoint shuffle_from (i : nat) (r : Z) (l : list nat) : Z * list nat :=
  match i with
  | O => (r, l)
  | S i' =>
      let (r1, j) := int31n r (Z.of_nat i + 1) in
      shuffle_from i' r1 (swap_nth O i (Z.to_nat j) l)
  end.
Definition shuffle (r : Z) (l : list nat) : Z * list nat := shuffle_from (length l - 1) r l.

(* ---- listener plumbing ---- *)
Definition runner := st -> Z -> list act -> st.

Section Ops.
  Variable w : world.
  Variable X : runner.

  Definition call (s : st) (k : lkind) (tag : Z) : st :=
    match script w (i_name (heap s tag)) k with
    | None => s
    | Some sc => X (emit s (ECall k tag)) tag sc
    end.

  (* emitPropertyChange: OnPropertyChange of a copy of the target's list *)
  Definition prop_change (s : st) (t : Z) : st :=
    fold_left (fun s m => call s LProp m) (map snd (tg s t)) s.

  Definition remove_one (s : st) (t : Z) (e : Z * Z) : st :=
    let m := snd e in
    let s1 := if i_stats (heap s m) then prop_change s t else s in
    let s2 := call s1 LRemove m in
    emit s2 (ERemoved t (fst e) (heap s2 m)).

  Definition emit_remove (s : st) (t : Z) (mods : list (Z * Z)) : st :=
    fold_left (fun s e => remove_one s t e) mods s.

  Definition dispel_one (s : st) (t : Z) (e : Z * Z) : st :=
    let m := snd e in
    let s1 := call s LDispel m in
    let s2 := emit s1 (EDispelled t (fst e) (heap s1 m)) in
    remove_one s2 t e.

  Definition emit_dispel (s : st) (t : Z) (mods : list (Z * Z)) : st :=
    fold_left (fun s e => dispel_one s t e) mods s.

  Definition emit_extdur (s : st) (t m old : Z) : st :=
    let s1 := call s LExtDur m in
    emit s1 (EExtDur t (heap s1 m) old (i_dur (heap s1 m))).

  Definition emit_extcnt (s : st) (t m old : Z) : st :=
    let s1 := call s LExtCnt m in
    emit s1 (EExtCnt t (heap s1 m) old (i_cnt (heap s1 m))).

  Definition emit_add (s : st) (t m : Z) (chance : float) : st :=
    let s1 := call s LAdd m in
    emit s1 (EAdded t (heap s1 m) chance).

  (* ---- AddModifier ---- *)
  (* DebuffRESMap.GetDebuffRES over the flags of the config *)
  Definition debuff_res (has_flag : bool) (res : float) : float :=
    if has_flag then (if (0 <? (0 + res))%float then (0 + res)%float else 0%float) else 0%float.

  Definition attempt_resist (s : st) (t : Z) (d : desc) (c : cfg) : st * float * bool :=
    if (d_chance d <=? 0)%float then (s, (-1)%float, false)
    else
      match ustats (w_units w) (d_src d), ustats (w_units w) t with
      | Some (ehr0, _, _), Some (_, eres0, dres0) =>
          let ehr := (0 + ehr0 + 0)%float in
          let eres := (0 + eres0 + 0)%float in
          let dres := debuff_res (c_flag c) dres0 in
          let chance := (d_chance d * (1 + ehr) * (1 - eres) * (1 - dres))%float in
          let (x, s1) := rand_float s in
          if (x <? chance)%float then (s1, chance, false)
          else (emit s1 (EResisted t (d_src d) (d_name d) chance (d_chance d) ehr eres dres), chance, true)
      | _, _ => (s, (-1)%float, false)     (* unreachable: both were checked valid *)
      end.

  Definition is_stackable (k : stacking) : bool :=
    match k with Replace | ReplaceBySource | Merge => true | _ => false end.

  (* newInstance: defaults from the config, then the "infinite" cases *)
  Definition new_instance (c : cfg) (tag t : Z) (d : desc) (renew : Z) : inst :=
    let cadd := if d_cadd d =? 0 then c_cadd c else d_cadd d in
    let mx := if d_max d =? 0 then c_max c else d_max d in
    let cnt := if d_cnt d =? 0 then c_cnt c else d_cnt d in
    let dur := if d_dur d =? 0 then c_dur c else d_dur d in
    let dur := if dur <=? 0 then -1 else dur in
    let cnt := if cnt <=? 0 then -1 else cnt in
    let mx := if mx <=? 0 then -1 else mx in
    let cnt := if is_stackable (c_stack c) && (cnt <=? 0) && (0 <? cadd) then cadd else cnt in
    mkI tag (d_name d) t (d_src d) (d_tick d) mx cadd renew (d_stats d) dur cnt false.

  Definition stack_count (new : inst) (prev : Z) : Z :=
    if (prev <? 0) || (i_cnt new <? 0) then i_cnt new
    else
      let c := prev + i_cnt new in
      if (0 <? i_max new) && (i_max new <? c) then i_max new else c.

  (* first attached instance satisfying p, with its position *)
  Fixpoint find_first (h : Z -> inst) (p : inst -> bool) (l : list (Z * Z)) : option Z :=
    match l with
    | [] => None
    | e :: r => if p (h (snd e)) then Some (snd e) else find_first h p r
    end.

  (* the incoming instance takes the place (and the slot) of the first match *)
  Fixpoint replace_first (h : Z -> inst) (p : inst -> bool) (new : Z) (l : list (Z * Z)) : list (Z * Z) :=
    match l with
    | [] => []
    | e :: r => if p (h (snd e)) then (fst e, new) :: r else e :: replace_first h p new r
    end.

  Definition append (s : st) (t tag : Z) : st :=
    let s2 := set_nslot s (nslot s + 1) in
    setl s2 t (tg s2 t ++ [(nslot s, tag)]).

  Definition by_name (n : Z) (i : inst) : bool := i_name i =? n.
  Definition by_name_src (n src : Z) (i : inst) : bool := (i_name i =? n) && (i_src i =? src).

  (* the seven stacking functions; result: state, resulting instance, "new instance" flag *)
  Definition stack (s : st) (t : Z) (k : stacking) (tag : Z) : st * Z * bool :=
    let new := heap s tag in
    let l := tg s t in
    let replace_with p :=
      match find_first (heap s) p l with
      | Some m =>
          let old := heap s m in
          let s1 := upd s tag (w_cnt (stack_count new (i_cnt old))) in
          (setl s1 t (replace_first (heap s) p tag l), tag, true)
      | None => (append s t tag, tag, true)
      end in
    match k with
    | Unique =>
        match find_first (heap s) (by_name (i_name new)) l with
        | Some m => (s, m, false)
        | None => (append s t tag, tag, true)
        end
    | ReplaceBySource => replace_with (by_name_src (i_name new) (i_src new))
    | Replace => replace_with (by_name (i_name new))
    | Multiple => (append s t tag, tag, true)
    | Refresh =>
        match find_first (heap s) (by_name (i_name new)) l with
        | Some m =>
            let old := i_dur (heap s m) in
            (emit_extdur (upd s m (w_dur (i_dur new))) t m old, m, false)
        | None => (append s t tag, tag, true)
        end
    | Prolong =>
        match find_first (heap s) (by_name (i_name new)) l with
        | Some m =>
            let old := i_dur (heap s m) in
            (emit_extdur (upd s m (w_dur (old + i_dur new))) t m old, m, false)
        | None => (append s t tag, tag, true)
        end
    | Merge =>
        match find_first (heap s) (by_name (i_name new)) l with
        | Some m =>
            let o := heap s m in
            let s1 := upd s m (w_cnt (stack_count new (i_cnt o))) in
            let s2 := if i_dur o <? i_dur new then upd s1 m (w_dur (i_dur new)) else s1 in
            (s2, m, true)
        | None => (append s t tag, tag, true)
        end
    end.

  (* result codes: 0 = (true, nil), 1 = resisted (false, nil), 2 = invalid target, 3 = invalid source *)
  Definition add (s0 : st) (t : Z) (d : desc) : st * Z :=
    let tag := ntag s0 in
    let s := set_ntag s0 (tag + 1) in
    let c := getcfg w (d_name d) in
    if negb (valid w t) then (s, 2)
    else if negb (valid w (d_src d)) then (s, 3)
    else
      let '(s1, chance, resisted) := attempt_resist s t d c in
      if resisted then (s1, 1)
      else
        let s2 := upd s1 tag (fun _ => new_instance c tag t d (turn s1)) in
        let '(s3, res, isnew) := stack s2 t (c_stack c) tag in
        let s4 :=
          if isnew then
            let s' := if i_stats (heap s3 res) then prop_change s3 t else s3 in
            emit_add s' t res chance
          else s3 in
        (s4, 0).

  (* ---- removal ---- *)
  Definition remove_by (s : st) (t : Z) (p : inst -> bool) : st :=
    let l := tg s t in
    let rem := filter (fun e => p (heap s (snd e))) l in
    let keep := filter (fun e => negb (p (heap s (snd e)))) l in
    emit_remove (setl s t keep) t rem.

  Fixpoint remove_first (x : Z) (l : list (Z * Z)) : list (Z * Z) :=
    match l with
    | [] => []
    | e :: r => if snd e =? x then r else e :: remove_first x r
    end.

  Fixpoint find_tag (x : Z) (l : list (Z * Z)) : option (Z * Z) :=
    match l with
    | [] => None
    | e :: r => if snd e =? x then Some e else find_tag x r
    end.

  (* Manager.RemoveSelf after the order-preserving repair *)
  Definition remove_self (s : st) (tag : Z) : st :=
    let t := i_owner (heap s tag) in
    match find_tag tag (tg s t) with
    | Some e => emit_remove (setl s t (remove_first tag (tg s t))) t [e]
    | None => s
    end.

  (* ---- dispel ---- *)
  Definition dispellable (status : Z) (i : inst) : bool :=
    (c_status (getcfg w (i_name i)) =? status) && c_dispel (getcfg w (i_name i)).

  (* the FIRST_ADDED loop: mark matching instances from the front until n are marked *)
  Fixpoint mask_first (h : Z -> inst) (p : inst -> bool) (n : nat) (l : list (Z * Z)) : list bool :=
    match l with
    | [] => []
    | e :: r =>
        match n with
        | O => false :: mask_first h p O r
        | S n' => if p (h (snd e)) then true :: mask_first h p n' r else false :: mask_first h p n r
        end
    end.

  Fixpoint select {A} (mask : list bool) (l : list A) : list A :=
    match mask, l with
    | b :: mr, x :: r => if b then x :: select mr r else select mr r
    | _, _ => []
    end.

  Fixpoint positions (h : Z -> inst) (p : inst -> bool) (i : nat) (l : list (Z * Z)) : list nat :=
    match l with
    | [] => []
    | e :: r => if p (h (snd e)) then i :: positions h p (S i) r else positions h p (S i) r
    end.

  Definition mask_of (len : nat) (chosen : list nat) : list bool :=
    map (fun i => existsb (Nat.eqb i) chosen) (seq 0 len).

  Definition dispel (s : st) (t status order count : Z) : st :=
    let l := tg s t in
    let n := if count <=? 0 then length l else Z.to_nat count in
    let p := dispellable status in
    let '(s1, mask) :=
      if order =? 2 then (s, mask_first (heap s) p n l)
      else if order =? 1 then (s, rev (mask_first (heap s) p n (rev l)))
      else if order =? 3 then
        let (r, sh) := shuffle (rng s) (positions (heap s) p O l) in
        (set_rng s r, mask_of (length l) (firstn n sh))
      else (s, map (fun _ => false) l) in
    emit_dispel (setl s1 t (select (map negb mask) l)) t (select mask l).

  (* ---- extend ---- *)
  Definition ext_dur (s : st) (t n amt : Z) : st :=
    fold_left (fun s m =>
      if i_name (heap s m) =? n then
        let old := i_dur (heap s m) in
        emit_extdur (upd s m (w_dur (old + amt))) t m old
      else s) (map snd (tg s t)) s.

  (* ExtendCount after the repair that iterates a copy of the list, like ExtendDuration *)
  Definition ext_cnt (s : st) (t n amt : Z) : st :=
    let s1 := fold_left (fun s m =>
      if i_name (heap s m) =? n then
        let i := heap s m in
        let old := i_cnt i in
        let c := old + amt in
        let c := if (0 <? i_max i) && (i_max i <? c) then i_max i else c in
        emit_extcnt (upd s m (w_cnt c)) t m old
      else s) (map snd (tg s t)) s in
    remove_by s1 t (fun i => (i_name i =? n) && (i_cnt i <=? 0)).

  (* ---- tick ---- *)
  Definition moment_eqb (a b : moment) : bool :=
    match a, b with Phase2End, Phase2End | Phase1End, Phase1End => true | _, _ => false end.

  (* what modifierPhaseEnd does to one instance: new instance value and "stays attached" *)
  Definition tick_inst (turn_now : Z) (mom : moment) (i : inst) : inst * bool :=
    if negb (moment_eqb (c_tick (getcfg w (i_name i))) mom) then (i, true)
    else
      let imm := match mom with Phase2End => i_tickimm i && i_ct2 i | Phase1End => i_tickimm i end in
      if (turn_now =? i_renew i) && negb imm then (i, true)
      else
        let rem1 := i_cnt i =? 0 in
        if 0 <=? i_dur i then
          let d := i_dur i - 1 in
          if d <=? 0 then (w_dur 0 i, false) else (w_dur d i, negb rem1)
        else (i, negb rem1).

  Definition phase_end (s : st) (t : Z) (mom : moment) : st :=
    let l := tg s t in
    let s1 := fold_left (fun s m => upd s m (fun i => fst (tick_inst (turn s) mom i))) (map snd l) s in
    let keep := filter (fun e => snd (tick_inst (turn s) mom (heap s (snd e)))) l in
    let rem := filter (fun e => negb (snd (tick_inst (turn s) mom (heap s (snd e))))) l in
    emit_remove (setl s1 t keep) t rem.

  Definition tick (s : st) (t phase : Z) : st :=
    if phase =? 2 then set_turn s (turn s + 1)
    else if phase =? 3 then
      phase_end (fold_left (fun s m => call s LPhase1 m) (map snd (tg s t)) s) t Phase1End
    else if phase =? 6 then
      fold_left (fun s m => upd s m (w_ct2 true)) (map snd (tg s t)) s
    else if phase =? 8 then
      phase_end (fold_left (fun s m => call s LPhase2 m) (map snd (tg s t)) s) t Phase2End
    else s.

  Definition exec_op (s : st) (o : op) : st * Z :=
    match o with
    | OAdd t d => add s t d
    | ORemove t n => (remove_by s t (by_name n), 0)
    | ORemoveSrc t src n => (remove_by s t (by_name_src n src), 0)
    | ORemoveSelf tag => (remove_self s tag, 0)
    | ODispel t status order count => (dispel s t status order count, 0)
    | OExtDur t n amt => (ext_dur s t n amt, 0)
    | OExtCnt t n amt => (ext_cnt s t n amt, 0)
    | OTick t phase => (tick s t phase, 0)
    end.

  Definition sel (i : inst) (x : tsel) : Z :=
    match x with TOwner => i_owner i | TSource => i_src i | TUnit u => u end.

  Definition with_src (d : desc) (src : Z) : desc :=
    mkD (d_name d) src (d_chance d) (d_dur d) (d_tick d) (d_cnt d) (d_max d) (d_cadd d) (d_stats d).

  Definition resolve (i : inst) (a : act) : op :=
    match a with
    | AAdd t src d => OAdd (sel i t) (with_src d (sel i src))
    | ARemove t n => ORemove (sel i t) n
    | ARemoveSrc t src n => ORemoveSrc (sel i t) (sel i src) n
    | ARemoveSelf => ORemoveSelf (i_tag i)
    | ADispel t a b c => ODispel (sel i t) a b c
    | AExtDur t n amt => OExtDur (sel i t) n amt
    | AExtCnt t n amt => OExtCnt (sel i t) n amt
    end.

  Definition run_acts (s : st) (self : Z) (acts : list act) : st :=
    fold_left (fun s a => fst (exec_op s (resolve (heap s self) a))) acts s.
End Ops.

(* listener scripts run while the nesting depth allows; at depth 0 a listener only records
   its invocation *)
Fixpoint runscript (w : world) (d : nat) : runner :=
  match d with
  | O => fun s _ _ => s
  | S d' => fun s self acts => run_acts w (runscript w d') s self acts
  end.

(* an instance handle is available to the harness once the instance was passed to a listener *)
Definition has_handle (s : st) (tag : Z) : bool :=
  existsb (fun e => match e with ECall _ t => t =? tag | _ => false end) (evs s).

Definition step (w : world) (d : nat) (s : st) (o : op) : st * Z :=
  match o with
  | ORemoveSelf tag => if has_handle s tag then exec_op w (runscript w d) s o else (s, 0)
  | _ => exec_op w (runscript w d) s o
  end.

Fixpoint run (w : world) (d : nat) (s : st) (ops : list op) : st :=
  match ops with
  | [] => s
  | o :: r => run w d (fst (step w d s o)) r
  end.
