(* Proofs about Model/GcsLex.v: the lexer never panics, every state function and every loop
   inside one terminates within its fuel, and the whole token stream is produced within a
   number of state-function calls linear in the length of the input. *)
From Coq Require Import List ZArith Bool String Ascii Lia FMapPositive.
From SR Require Import Base.CaseLib Model.GcsAst Model.GcsUnicode Model.GcsLex.
Import ListNotations.
Open Scope Z_scope.

Section Lex.
Variable inp : input.
Hypothesis len_nonneg : 0 <= in_len inp.
Hypothesis get_range : forall i, 0 <= in_get inp i < 256.
Notation len := (in_len inp).

(* ---- decode ---- *)
Lemma decode_width : forall p, p < len ->
  let '(r, w) := decode inp p in 1 <= w <= 4 /\ p + w <= len /\ (r < 128 -> w = 1 /\ r = in_get inp p) /\ 0 <= r.
Proof.
  intros p Hp. pose proof (get_range p). unfold decode, rune_error, is_cont.
  repeat match goal with
  | |- context [if ?c then _ else _] => destruct c eqn:?
  end; repeat split; try lia;
  repeat match goal with
  | H : (_ <? _) = true |- _ => apply Z.ltb_lt in H
  | H : (_ <? _) = false |- _ => apply Z.ltb_ge in H
  | H : (_ =? _) = true |- _ => apply Z.eqb_eq in H
  | H : (_ =? _) = false |- _ => apply Z.eqb_neq in H
  | H : (_ && _) = true |- _ => apply andb_true_iff in H; destruct H
  | H : (_ || _) = true |- _ => apply orb_true_iff in H
  | H : (_ || _) = false |- _ => apply orb_false_iff in H; destruct H
  | H : (_ <=? _) = true |- _ => apply Z.leb_le in H
  | H : (_ <=? _) = false |- _ => apply Z.leb_gt in H
  end; try lia;
  repeat match goal with
  | H : context [if ?c then _ else _] |- _ => destruct c eqn:?
  end;
  repeat match goal with
  | H : (_ =? _) = true |- _ => apply Z.eqb_eq in H
  | H : (_ =? _) = false |- _ => apply Z.eqb_neq in H
  end; lia.
Qed.

(* ---- well-formed registers ---- *)
Definition WF (l : lexer) : Prop := 0 <= start l /\ start l <= pos l /\ pos l <= len.

(* what a successful next() tells us *)
Record next_ok (l : lexer) (r : Z) (l1 : lexer) : Prop := {
  nx_start : start l1 = start l;
  nx_pos : pos l1 = pos l + width l1;
  nx_w : 0 <= width l1 <= 4;
  nx_le : pos l1 <= len;
  nx_eof : r = eof <-> width l1 = 0;
  nx_eof_len : r = eof <-> len <= pos l;
  nx_ascii : 0 <= r < 128 -> width l1 = 1 /\ r = in_get inp (pos l);
  nx_dec : pos l < len -> (r, width l1) = decode inp (pos l);
  nx_depths : parenDepth l1 = parenDepth l /\ sqParenDepth l1 = sqParenDepth l /\ braceDepth l1 = braceDepth l }.

Lemma next_spec : forall l, 0 <= pos l <= len ->
  exists r l1, next inp l = Ok (r, l1) /\ next_ok l r l1.
Proof.
  intros l [H0 H1]. unfold next.
  destruct (len <=? pos l) eqn:E.
  - apply Z.leb_le in E. eexists _, _. split; [reflexivity|].
    constructor; cbn; unfold eof; try lia; try tauto; try (split; intros; lia).
  - apply Z.leb_gt in E. destruct (pos l <? 0) eqn:E2; [apply Z.ltb_lt in E2; lia|].
    pose proof (decode_width (pos l) E) as D.
    destruct (decode inp (pos l)) as [r w] eqn:Ed.
    destruct D as (Hw & Hle & Hasc & Hbig).
    eexists _, _. split; [reflexivity|].
    constructor; cbn; unfold eof; try lia; try tauto;
      try (split; intros; lia); try (intros; apply Hasc; lia); try (intros; congruence).
Qed.

(* a backup directly after the next that produced l1 *)
Lemma backup_spec : forall l r l1, 0 <= pos l -> next_ok l r l1 ->
  exists l2, backup inp l1 = Ok l2 /\ pos l2 = pos l /\ start l2 = start l /\ width l2 = width l1 /\
             parenDepth l2 = parenDepth l /\ sqParenDepth l2 = sqParenDepth l /\ braceDepth l2 = braceDepth l.
Proof.
  intros l r l1 H0 N. destruct N. unfold backup.
  destruct (width l1 =? 1) eqn:E.
  - apply Z.eqb_eq in E.
    destruct ((pos l1 - width l1 <? 0) || (len <=? pos l1 - width l1)) eqn:E2.
    + apply orb_true_iff in E2. destruct E2 as [E2|E2]; [apply Z.ltb_lt in E2|apply Z.leb_le in E2]; lia.
    + eexists. split; [reflexivity|]. cbn. repeat split; try lia; tauto.
  - eexists. split; [reflexivity|]. cbn. repeat split; try lia; tauto.
Qed.

(* a second backup when the last width is 1 and there is room *)
Lemma backup_again : forall l2, width l2 = 1 -> 1 <= pos l2 <= len ->
  exists l3, backup inp l2 = Ok l3 /\ pos l3 = pos l2 - 1 /\ start l3 = start l2 /\
             parenDepth l3 = parenDepth l2 /\ sqParenDepth l3 = sqParenDepth l2 /\ braceDepth l3 = braceDepth l2.
Proof.
  intros l2 Hw Hp. unfold backup. rewrite Hw. cbn [Z.eqb Pos.eqb].
  destruct ((pos l2 - 1 <? 0) || (len <=? pos l2 - 1)) eqn:E2.
  - apply orb_true_iff in E2. destruct E2 as [E2|E2]; [apply Z.ltb_lt in E2|apply Z.leb_le in E2]; lia.
  - eexists. split; [reflexivity|]. cbn. repeat split; lia.
Qed.

Lemma substr_ok : forall a b, 0 <= a -> a <= b -> b <= len -> exists s, substr inp a b = Ok s.
Proof.
  intros a b H1 H2 H3. unfold substr.
  replace (0 <=? a) with true by (symmetry; apply Z.leb_le; lia).
  replace (a <=? b) with true by (symmetry; apply Z.leb_le; lia).
  replace (b <=? len) with true by (symmetry; apply Z.leb_le; lia).
  cbn. eauto.
Qed.

Lemma emit_spec : forall l t, WF l ->
  exists tk l1, emit inp l t = Ok (tk, l1) /\ pos l1 = pos l /\ start l1 = pos l /\
    parenDepth l1 = parenDepth l /\ sqParenDepth l1 = sqParenDepth l /\ braceDepth l1 = braceDepth l.
Proof.
  intros l t (H1 & H2 & H3). unfold emit.
  destruct (substr_ok (start l) (pos l) H1 H2 H3) as [s Hs]. rewrite Hs. cbn.
  eexists _, _. split; [reflexivity|]. cbn. repeat split; reflexivity.
Qed.

(* ---- the invariant carried between state functions and the termination measure ---- *)
Definition J (s : lstate) (l : lexer) : Prop :=
  match s with
  | SIdent => pos l < len /\ is_alnum (fst (decode inp (pos l))) = true
  | SNumber => pos l < len /\
               (in_get inp (pos l) = 45 \/ in_get inp (pos l) = 46 \/ 48 <= in_get inp (pos l) <= 57)
  | _ => True
  end.
Definition rank (s : lstate) : Z :=
  match s with SIdent | SNumber => 0 | SText => 1 | SComment | SQuote => 2 end.
Definition mu (s : lstate) (l : lexer) : Z := 3 * (len - pos l) + rank s.

(* an upper bound on the tokens still to be handed over: pending ones, one per byte left,
   and the closing EOF / error tokens *)
Definition tpot (em : list ltoken) (l' : lexer) (nx : option lstate) : Z :=
  Z.of_nat (List.length em) + match nx with Some _ => len - pos l' + 2 | None => 0 end.

Definition good (res : lres) (s : lstate) (l : lexer) : Prop :=
  match res with
  | LNext em l' nx =>
      ((List.length em <= 2)%nat /\ tpot em l' nx <= len - pos l + 2) /\
      match nx with
      | None => True
      | Some s' => WF l' /\ J s' l' /\ mu s' l' < mu s l
      end
  | _ => False
  end.

Ltac norm :=
  repeat match goal with
  | H : (_ <? _) = true |- _ => apply Z.ltb_lt in H
  | H : (_ <? _) = false |- _ => apply Z.ltb_ge in H
  | H : (_ =? _) = true |- _ => apply Z.eqb_eq in H
  | H : (_ && _) = true |- _ => apply andb_true_iff in H; destruct H
  | H : (_ || _) = false |- _ => apply orb_false_iff in H; destruct H
  | H : (_ <=? _) = true |- _ => apply Z.leb_le in H
  | H : (_ <=? _) = false |- _ => apply Z.leb_gt in H
  | H : negb _ = true |- _ => apply negb_true_iff in H
  | H : negb _ = false |- _ => apply negb_false_iff in H
  end.

Ltac open_ok :=
  repeat match goal with
  | N : next_ok _ _ _ |- _ =>
      let a := fresh "Hs" in let b := fresh "Hp" in let c := fresh "Hw" in let d := fresh "Hl" in
      let e := fresh "He" in let f := fresh "Hel" in let g := fresh "Ha" in let h := fresh "Hd" in
      let i := fresh "Hdep" in
      destruct N as [a b c d e f g h i]; destruct i as (? & ? & ?)
  end.

Ltac do_next :=
  match goal with
  | |- context [next inp ?l] =>
      let r := fresh "r" in let l1 := fresh "l" in let E := fresh "E" in let N := fresh "N" in
      destruct (next_spec l) as (r & l1 & E & N);
      [ unfold WF in *; lia | rewrite E; cbn [lift bindR]; pose proof N as ?N; open_ok ]
  end.

Ltac do_backup :=
  match goal with
  | N : next_ok ?l0 ?r ?l1 |- context [backup inp ?l1] =>
      let l2 := fresh "l" in let E := fresh "E" in
      destruct (backup_spec l0 r l1) as (l2 & E & ? & ? & ? & ? & ? & ?);
      [ unfold WF in *; lia | exact N | rewrite E; cbn [lift bindR] ]
  | |- context [backup inp ?l2] =>
      let l3 := fresh "l" in let E := fresh "E" in
      destruct (backup_again l2) as (l3 & E & ? & ? & ? & ? & ?);
      [ unfold WF in *; lia | unfold WF in *; lia | rewrite E; cbn [lift bindR] ]
  end.

Ltac do_emit :=
  match goal with
  | |- context [emit inp ?l ?t] =>
      let tk := fresh "tk" in let l1 := fresh "l" in let E := fresh "E" in
      destruct (emit_spec l t) as (tk & l1 & E & ? & ? & ? & ? & ?);
      [ unfold WF in *; lia | rewrite E; cbn [lift bindR] ]
  end.

(* after consuming at least one byte: emit and go on in lexText *)
Lemma emit1_good : forall l0 l t, WF l0 -> start l = start l0 -> pos l0 < pos l -> pos l <= len ->
  good (emit1 inp l t) SText l0.
Proof.
  intros l0 l t W Hs Hp Hl. unfold emit1.
  destruct (emit_spec l t) as (tk & l1 & E & P1 & S1 & _); [unfold WF in *; lia|].
  rewrite E. cbn [lift]. unfold good, tpot, WF, J, mu, rank. cbn [List.length]. unfold WF in W. repeat split; try lia.
Qed.

Lemma emit_open_good : forall l0 l t k, WF l0 -> start l = start l0 -> pos l0 < pos l -> pos l <= len ->
  good (emit_open inp l t k) SText l0.
Proof.
  intros l0 l t k W Hs Hp Hl. unfold emit_open.
  destruct (emit_spec l t) as (tk & l1 & E & P1 & S1 & _); [unfold WF in *; lia|].
  rewrite E. cbn [lift]. unfold good, tpot, WF, J, mu, rank. unfold WF in W.
  destruct k as [|[|k]]; cbn [List.length pos start set_depths]; repeat split; try lia.
Qed.

Lemma emit_close_good : forall l0 l t k, WF l0 -> start l = start l0 -> pos l0 < pos l -> pos l <= len ->
  good (emit_close inp l t k) SText l0.
Proof.
  intros l0 l t k W Hs Hp Hl. unfold emit_close.
  destruct (emit_spec l t) as (tk & l1 & E & P1 & S1 & _); [unfold WF in *; lia|].
  rewrite E. cbn [lift]. unfold WF in W.
  destruct k as [|[|k]];
  match goal with |- context [if ?c then _ else _] => destruct c end;
  unfold good, tpot, WF, J, mu, rank; cbn [List.length pos start set_depths]; repeat split; try lia.
Qed.

Lemma fail1_good : forall l0 l s, WF l0 -> good (fail1 l) s l0.
Proof.
  intros l0 l s W. unfold fail1, good, tpot. cbn [List.length]. unfold WF in W. repeat split; try lia.
Qed.

Lemma skip_good : forall l0 l s, WF l0 -> start l = start l0 -> pos l0 < pos l -> pos l <= len ->
  (s = SText \/ s = SComment \/ s = SQuote) ->
  good (LNext [] (ignore l) (Some s)) SText l0.
Proof.
  intros l0 l s W Hs Hp Hl Hk. unfold good, tpot, WF, J, mu, rank, ignore. cbn [List.length pos start set_start]. unfold WF in W.
  destruct Hk as [->|[->| ->]]; repeat split; try lia; exact I.
Qed.

Lemma quote_good : forall l0 l, WF l0 -> start l = start l0 -> pos l0 < pos l -> pos l <= len ->
  good (LNext [] l (Some SQuote)) SText l0.
Proof.
  intros l0 l W Hs Hp Hl. unfold good, tpot, WF, J, mu, rank. cbn [List.length]. unfold WF in W. repeat split; try lia.
Qed.

(* "xy" or "x": the two-character operators *)
Lemma two_char_good : forall l0 l k t1 t2, WF l0 -> start l = start l0 -> pos l0 < pos l -> pos l <= len ->
  good (lift (next inp l) (fun '(n, l') =>
          if n =? k then emit1 inp l' t1
          else lift (backup inp l') (fun l'' => emit1 inp l'' t2))) SText l0.
Proof.
  intros l0 l k t1 t2 W Hs Hp Hl.
  destruct (next_spec l) as (n & l1 & E & N); [unfold WF in *; lia|]. rewrite E. cbn [lift].
  destruct (n =? k).
  - destruct N. apply emit1_good; try assumption; try lia.
  - destruct (backup_spec l n l1) as (l2 & E2 & P2 & S2 & _); [unfold WF in *; lia|exact N|].
    rewrite E2. cbn [lift]. apply emit1_good; try assumption; lia.
Qed.

Lemma number_entry_good : forall l0 l, WF l0 -> pos l = pos l0 -> start l = start l0 ->
  pos l0 < len ->
  (in_get inp (pos l0) = 45 \/ in_get inp (pos l0) = 46 \/ 48 <= in_get inp (pos l0) <= 57) ->
  good (LNext [] l (Some SNumber)) SText l0.
Proof.
  intros l0 l W Hp Hs Hl Hb. unfold good, tpot, WF, J, mu, rank. cbn [List.length]. unfold WF in W.
  rewrite Hp, Hs. repeat split; try lia; try exact Hb.
Qed.

(* '.' or '-' followed by a digit: back up twice and lex a number; otherwise [other] *)
Lemma sign_dot_good : forall l0 r l (other : lexer -> lres),
  WF l0 -> next_ok l0 r l -> (r = 45 \/ r = 46) ->
  (forall l2, start l2 = start l0 -> pos l2 = pos l -> good (other l2) SText l0) ->
  good (lift (next inp l) (fun '(n, l') =>
          if is_numeric n then
            lift (backup inp l') (fun l'' => lift (backup inp l'') (fun l3 => LNext [] l3 (Some SNumber)))
          else lift (backup inp l') other)) SText l0.
Proof.
  intros l0 r l other W N Hr Hother.
  pose proof N as N0. destruct N0 as [a b c d e f g h i].
  assert (Hra : 0 <= r < 128) by lia. destruct (g Hra) as [Hw1 Hget].
  destruct (next_spec l) as (n & l1 & E & N1); [unfold WF in *; lia|]. rewrite E. cbn [lift].
  destruct (backup_spec l n l1) as (l2 & E2 & P2 & S2 & W2 & _); [unfold WF in *; lia|exact N1|].
  destruct (is_numeric n) eqn:En.
  - rewrite E2. cbn [lift].
    unfold is_numeric, is_ascii_digit in En. apply andb_true_iff in En. destruct En as [En1 En2].
    apply Z.leb_le in En1. apply Z.leb_le in En2.
    destruct N1 as [a1 b1 c1 d1 e1 f1 g1 h1 i1].
    assert (Hna : 0 <= n < 128) by lia. destruct (g1 Hna) as [Hw2 _].
    destruct (backup_again l2) as (l3 & E3 & P3 & S3 & _); [lia|unfold WF in *; lia|].
    rewrite E3. cbn [lift].
    apply number_entry_good; try assumption; unfold eof in *; lia.
  - rewrite E2. cbn [lift]. apply Hother; lia.
Qed.

Lemma lex_text_good : forall l, WF l -> good (lex_text inp l) SText l.
Proof.
  intros l0 W. unfold lex_text.
  destruct (next_spec l0) as (r & l & E & N); [unfold WF in *; lia|]. rewrite E. cbn [lift].
  pose proof N as N0. destruct N0 as [Hs Hp Hw Hl He Hel Ha Hd Hdep].
  destruct (r =? eof) eqn:Eeof.
  { (* EOF: emit and stop *)
    destruct (emit_spec l ItemEOF) as (tk & l1 & E1 & _); [unfold WF in *; lia|].
    rewrite E1. cbn [lift]. unfold good, tpot. cbn [List.length]. unfold WF in *. repeat split; lia. }
  apply Z.eqb_neq in Eeof.
  assert (Hadv : pos l0 < pos l).
  { destruct (Z.eq_dec (width l) 0) as [Z0|Z0]; [apply He in Z0; contradiction|lia]. }
  assert (Hlt : pos l0 < len) by lia.
  repeat match goal with
  | |- good (if ?c then _ else _) _ _ => destruct c eqn:?
  end;
  try (apply emit1_good; assumption);
  try (apply emit_open_good; assumption);
  try (apply emit_close_good; assumption);
  try (apply fail1_good; assumption);
  try (apply skip_good; auto; fail);
  try (apply quote_good; assumption);
  try (apply two_char_good; assumption).
  all: repeat match goal with H : (_ =? _) = true |- _ => apply Z.eqb_eq in H end.
  - (* '/' *)
    destruct (next_spec l) as (n & l1 & E1 & N1); [unfold WF in *; lia|]. rewrite E1. cbn [lift].
    destruct (n =? 47).
    + destruct N1. apply skip_good; auto; lia.
    + destruct (backup_spec l n l1) as (l2 & E2 & P2 & S2 & _); [unfold WF in *; lia|exact N1|].
      rewrite E2. cbn [lift]. apply emit1_good; try assumption; lia.
  - (* '.' *)
    apply sign_dot_good with (r := r); auto.
    intros l2 S2 P2. apply fail1_good; assumption.
  - (* ASCII digit *)
    destruct (backup_spec l0 r l) as (l2 & E2 & P2 & S2 & _); [unfold WF in *; lia|exact N|].
    rewrite E2. cbn [lift].
    match goal with H : is_ascii_digit r = true |- _ =>
      unfold is_ascii_digit in H; apply andb_true_iff in H; destruct H as [D1 D2];
      apply Z.leb_le in D1; apply Z.leb_le in D2 end.
    assert (Hra : 0 <= r < 128) by lia. destruct (Ha Hra) as [_ Hget].
    apply number_entry_good; try assumption; lia.
  - (* '-' *)
    apply sign_dot_good with (r := r); auto.
    intros l2 S2 P2. apply emit1_good; try assumption; lia.
  - (* '<' *)
    destruct (next_spec l) as (n & l1 & E1 & N1); [unfold WF in *; lia|]. rewrite E1. cbn [lift].
    destruct (n =? 61); [destruct N1; apply emit1_good; try assumption; lia|].
    destruct (n =? 62); [destruct N1; apply emit1_good; try assumption; lia|].
    destruct (backup_spec l n l1) as (l2 & E2 & P2 & S2 & _); [unfold WF in *; lia|exact N1|].
    rewrite E2. cbn [lift]. apply emit1_good; try assumption; lia.
  - (* '|' *)
    destruct (next_spec l) as (n & l1 & E1 & N1); [unfold WF in *; lia|]. rewrite E1. cbn [lift].
    destruct (n =? 124); [destruct N1; apply emit1_good; try assumption; lia|apply fail1_good; assumption].
  - (* '&' *)
    destruct (next_spec l) as (n & l1 & E1 & N1); [unfold WF in *; lia|]. rewrite E1. cbn [lift].
    destruct (n =? 38); [destruct N1; apply emit1_good; try assumption; lia|apply fail1_good; assumption].
  - (* identifier *)
    destruct (backup_spec l0 r l) as (l2 & E2 & P2 & S2 & _); [unfold WF in *; lia|exact N|].
    rewrite E2. cbn [lift].
    unfold good, tpot, WF, J, mu, rank. cbn [List.length]. unfold WF in W.
    rewrite P2, S2. repeat split; try lia.
    rewrite <- (Hd Hlt). cbn [fst]. assumption.
Qed.

(* ---- loops inside state functions ---- *)
Lemma decode_ascii : forall p, in_get inp p < 128 -> decode inp p = (in_get inp p, 1).
Proof.
  intros p H. unfold decode. destruct (in_get inp p <? 128) eqn:E; [reflexivity|].
  apply Z.ltb_ge in E. lia.
Qed.

Lemma next_advances : forall l r l1, next_ok l r l1 -> r <> eof -> pos l < pos l1 /\ pos l < len.
Proof.
  intros l r l1 [a b c d e f g h i] Hr.
  assert (width l1 <> 0) by (intro Z0; apply e in Z0; contradiction).
  split; [lia|]. destruct (Z.lt_ge_cases (pos l) len); [assumption|]. exfalso. apply Hr. apply f. assumption.
Qed.

Lemma comment_loop_spec : forall n l, 0 <= pos l <= len -> len - pos l < Z.of_nat n ->
  exists l', comment_loop n inp l = Ok l' /\ start l' = start l /\ pos l <= pos l' <= len.
Proof.
  induction n as [|n IH]; intros l Hp Hn; [lia|].
  cbn [comment_loop].
  destruct (next_spec l Hp) as (r & l1 & E & N). rewrite E. cbn [bindR].
  destruct ((r =? eof) || (r =? 10)) eqn:C.
  - destruct (backup_spec l r l1) as (l2 & E2 & P2 & S2 & _); [lia|exact N|].
    exists l2. rewrite E2. repeat split; lia.
  - apply orb_false_iff in C. destruct C as [C _]. apply Z.eqb_neq in C.
    destruct (next_advances _ _ _ N C) as [A1 A2]. destruct N as [a b c d e f g h i].
    destruct (IH l1) as (l' & E' & S' & P'); [lia|lia|].
    exists l'. rewrite E'. repeat split; lia.
Qed.

Lemma lex_comment_good : forall l, WF l -> good (lex_comment inp l) SComment l.
Proof.
  intros l W. unfold lex_comment, loop_fuel.
  destruct (comment_loop_spec (S (Z.to_nat (len - pos l))) l) as (l' & E & S' & P');
    [unfold WF in W; lia|unfold WF in W; lia|].
  rewrite E. cbn [lift]. unfold good, tpot, WF, J, mu, rank. cbn [List.length]. unfold WF in W.
  repeat split; lia.
Qed.

Lemma quote_loop_spec : forall n l, 0 <= pos l <= len -> len - pos l < Z.of_nat n ->
  exists c l1, quote_loop n inp l = Ok (c, l1) /\
    forall l2, c = Some l2 -> start l2 = start l /\ pos l < pos l2 <= len.
Proof.
  induction n as [|n IH]; intros l Hp Hn; [lia|].
  cbn [quote_loop].
  destruct (next_spec l Hp) as (r & l1 & E & N). rewrite E. cbn [bindR].
  pose proof N as N0. destruct N0 as [a b c d e f g h i].
  destruct (r =? 92) eqn:C1.
  - apply Z.eqb_eq in C1.
    assert (Hr : r <> eof) by (unfold eof; lia).
    destruct (next_advances _ _ _ N Hr) as [A1 A2].
    destruct (next_spec l1) as (r2 & l2 & E2 & N2); [lia|]. rewrite E2. cbn [bindR].
    destruct (negb (r2 =? eof) && negb (r2 =? 10)) eqn:C2.
    + destruct N2 as [a2 b2 c2 d2 e2 f2 g2 h2 i2].
      destruct (IH l2) as (cc & l3 & E3 & H3); [lia|lia|].
      exists cc, l3. rewrite E3. split; [reflexivity|].
      intros l4 Hc. destruct (H3 l4 Hc). split; [congruence|lia].
    + eexists _, _. split; [reflexivity|]. intros l4 Hc. discriminate.
  - destruct ((r =? eof) || (r =? 10)) eqn:C2.
    + eexists _, _. split; [reflexivity|]. intros l4 Hc. discriminate.
    + apply orb_false_iff in C2. destruct C2 as [C2 _]. apply Z.eqb_neq in C2.
      destruct (next_advances _ _ _ N C2) as [A1 A2].
      destruct (r =? 34).
      * eexists _, _. split; [reflexivity|]. intros l4 Hc. inversion Hc; subst l4. split; [assumption|lia].
      * destruct (IH l1) as (cc & l3 & E3 & H3); [lia|lia|].
        exists cc, l3. rewrite E3. split; [reflexivity|].
        intros l4 Hc. destruct (H3 l4 Hc). split; [congruence|lia].
Qed.

Lemma lex_quote_good : forall l, WF l -> good (lex_quote inp l) SQuote l.
Proof.
  intros l W. unfold lex_quote, loop_fuel.
  destruct (quote_loop_spec (S (Z.to_nat (len - pos l))) l) as (c & l1 & E & H);
    [unfold WF in W; lia|unfold WF in W; lia|].
  rewrite E. cbn [lift]. destruct c as [l2|].
  - destruct (H l2 eq_refl) as [S2 P2].
    assert (G : good (emit1 inp l2 ItemString) SText l) by (apply emit1_good; try assumption; lia).
    unfold emit1 in *. destruct (emit inp l2 ItemString) as [[tk l3]| |]; cbn [lift] in *; try contradiction.
    unfold good, tpot, mu, rank in *. destruct G as ((G1 & G0) & G2 & G3 & G4). unfold WF in *. repeat split; try assumption; lia.
  - apply fail1_good; assumption.
Qed.

Lemma accept_run_spec : forall valid, valid eof = false ->
  forall n l, 0 <= pos l <= len -> len - pos l < Z.of_nat n ->
  exists l', accept_run n inp l valid = Ok l' /\ start l' = start l /\ pos l <= pos l' <= len /\
    (pos l < len -> valid (fst (decode inp (pos l))) = true -> pos l < pos l').
Proof.
  intros valid Hv. induction n as [|n IH]; intros l Hp Hn; [lia|].
  cbn [accept_run].
  destruct (next_spec l Hp) as (r & l1 & E & N). rewrite E. cbn [bindR].
  pose proof N as N0. destruct N0 as [a b c d e f g h i].
  destruct (valid r) eqn:C.
  - assert (Hr : r <> eof) by (intro Z0; rewrite Z0 in C; congruence).
    destruct (next_advances _ _ _ N Hr) as [A1 A2].
    destruct (IH l1) as (l' & E' & S' & P' & _); [lia|lia|].
    exists l'. rewrite E'. repeat split; try lia.
  - destruct (backup_spec l r l1) as (l2 & E2 & P2 & S2 & _); [lia|exact N|].
    exists l2. rewrite E2. repeat split; try lia.
    intros Hlt Hval. rewrite <- (h Hlt) in Hval. cbn [fst] in Hval. congruence.
Qed.

Lemma ident_loop_is_accept_run : forall n l, ident_loop n inp l = accept_run n inp l is_alnum.
Proof.
  induction n as [|n IH]; intros l; [reflexivity|]. cbn [ident_loop accept_run].
  destruct (next inp l) as [[r l1]| |]; cbn [bindR]; try reflexivity.
  destruct (is_alnum r); [apply IH|reflexivity].
Qed.

Lemma is_alnum_eof : is_alnum eof = false.
Proof. vm_compute. reflexivity. Qed.
Lemma is_digit_eof : is_ascii_digit eof = false.
Proof. reflexivity. Qed.

Lemma lex_ident_good : forall l, WF l -> J SIdent l -> good (lex_ident inp l) SIdent l.
Proof.
  intros l W [Jl Ja]. unfold lex_ident, loop_fuel. rewrite ident_loop_is_accept_run.
  destruct (accept_run_spec is_alnum is_alnum_eof (S (Z.to_nat (len - pos l))) l) as (l1 & E & S1 & P1 & A1);
    [unfold WF in W; lia|unfold WF in W; lia|].
  rewrite E. cbn [lift]. specialize (A1 Jl Ja).
  destruct (substr_ok (start l1) (pos l1)) as [w Ew]; [unfold WF in W; lia|unfold WF in W; lia|lia|].
  rewrite Ew. cbn [lift]. unfold peek.
  destruct (next_spec l1) as (r & l2 & E2 & N2); [unfold WF in W; lia|]. rewrite E2. cbn [bindR].
  destruct (backup_spec l1 r l2) as (l3 & E3 & P3 & S3 & _); [unfold WF in W; lia|exact N2|].
  rewrite E3. cbn [bindR lift].
  destruct (is_terminator r).
  - assert (G : good (emit1 inp l3 (word_type w)) SText l) by (apply emit1_good; try assumption; lia).
    unfold emit1 in *. destruct (emit inp l3 (word_type w)) as [[tk l4]| |]; cbn [lift] in *; try contradiction.
    unfold good, tpot, mu, rank in *. destruct G as ((G1 & G0) & G2 & G3 & G4). unfold WF in *. repeat split; try assumption; lia.
  - apply fail1_good; assumption.
Qed.

Lemma accept_spec : forall valid, valid eof = false -> forall l, 0 <= pos l <= len ->
  exists b l', accept inp l valid = Ok (b, l') /\ start l' = start l /\ pos l <= pos l' <= len /\
    (pos l < len -> valid (fst (decode inp (pos l))) = true -> pos l < pos l') /\
    (pos l < len -> valid (fst (decode inp (pos l))) = false -> pos l' = pos l).
Proof.
  intros valid Hv l Hp. unfold accept.
  destruct (next_spec l Hp) as (r & l1 & E & N). rewrite E. cbn [bindR].
  pose proof N as N0. destruct N0 as [a b c d e f g h i].
  destruct (valid r) eqn:C.
  - assert (Hr : r <> eof) by (intro Z0; rewrite Z0 in C; congruence).
    destruct (next_advances _ _ _ N Hr) as [A1 A2].
    eexists _, _. split; [reflexivity|]. repeat split; try lia.
    intros Hlt Hval. rewrite <- (h Hlt) in Hval. cbn [fst] in Hval. congruence.
  - destruct (backup_spec l r l1) as (l2 & E2 & P2 & S2 & _); [lia|exact N|].
    rewrite E2. cbn [bindR]. eexists _, _. split; [reflexivity|]. repeat split; try lia.
    intros Hlt Hval. rewrite <- (h Hlt) in Hval. cbn [fst] in Hval. congruence.
Qed.

Lemma lex_number_good : forall l, WF l -> J SNumber l -> good (lex_number inp l) SNumber l.
Proof.
  intros l W [Jl Jb]. unfold lex_number, loop_fuel. unfold WF in W.
  assert (Hdec : decode inp (pos l) = (in_get inp (pos l), 1)) by (apply decode_ascii; lia).
  set (sign := fun r : Z => (r =? 43) || (r =? 45)).
  set (dot := fun r : Z => r =? 46).
  destruct (accept_spec sign eq_refl l) as (b1 & l1 & E1 & S1 & P1 & A1 & B1); [lia|].
  rewrite E1. cbn [lift]. rewrite Hdec in A1, B1. cbn [fst] in A1, B1.
  destruct (accept_run_spec is_ascii_digit is_digit_eof (S (Z.to_nat (len - pos l1))) l1)
    as (l2 & E2 & S2 & P2 & A2); [lia|lia|].
  rewrite E2. cbn [lift].
  destruct (accept_spec dot eq_refl l2) as (b3 & l3 & E3 & S3 & P3 & A3 & B3); [lia|].
  rewrite E3. cbn [lift].
  assert (Hfin : forall l4, start l4 = start l3 -> pos l3 <= pos l4 <= len ->
            good (emit1 inp l4 ItemNumber) SNumber l).
  { intros l4 S4 P4.
    assert (Hadv : pos l < pos l3).
    { destruct Jb as [Jb|[Jb|Jb]].
      - assert (sign (in_get inp (pos l)) = true) by (unfold sign; rewrite Jb; reflexivity).
        specialize (A1 Jl H). lia.
      - assert (Hs : sign (in_get inp (pos l)) = false) by (unfold sign; rewrite Jb; reflexivity).
        specialize (B1 Jl Hs).
        assert (Hd1 : decode inp (pos l1) = (46, 1)) by (rewrite B1, Hdec, Jb; reflexivity).
        assert (pos l2 = pos l1 \/ pos l1 < pos l2) by lia.
        destruct H as [H|H]; [|lia].
        rewrite <- H in Hd1. rewrite Hd1 in A3. cbn [fst] in A3.
        assert (pos l2 < pos l3) by (apply A3; [lia|reflexivity]). lia.
      - assert (Hs : sign (in_get inp (pos l)) = false).
        { unfold sign. destruct (in_get inp (pos l) =? 43) eqn:X; [apply Z.eqb_eq in X; lia|].
          destruct (in_get inp (pos l) =? 45) eqn:Y; [apply Z.eqb_eq in Y; lia|reflexivity]. }
        specialize (B1 Jl Hs). rewrite B1 in A2. rewrite Hdec in A2. cbn [fst] in A2.
        assert (pos l < pos l2).
        { apply A2; [lia|]. unfold is_ascii_digit.
          apply andb_true_iff. split; apply Z.leb_le; lia. }
        lia. }
    assert (G : good (emit1 inp l4 ItemNumber) SText l) by (apply emit1_good; unfold WF; try lia).
    unfold emit1 in *. destruct (emit inp l4 ItemNumber) as [[tk l5]| |]; cbn [lift] in *; try contradiction.
    unfold good, tpot, mu, rank in *. destruct G as ((G1 & G0) & G2 & G3 & G4). unfold WF in *. repeat split; try assumption; lia. }
  destruct b3.
  - destruct (accept_run_spec is_ascii_digit is_digit_eof (S (Z.to_nat (len - pos l3))) l3)
      as (l4 & E4 & S4 & P4 & _); [lia|lia|].
    rewrite E4. cbn [lift]. apply Hfin; lia.
  - cbn [lift]. apply Hfin; lia.
Qed.

Lemma lex_step_good : forall s l, WF l -> J s l -> good (lex_step inp s l) s l.
Proof.
  intros s l W Jl. destruct s; cbn [lex_step].
  - apply lex_text_good; assumption.
  - apply lex_comment_good; assumption.
  - apply lex_quote_good; assumption.
  - apply lex_ident_good; assumption.
  - apply lex_number_good; assumption.
Qed.

(* ---- the producer ---- *)
Definition PInv (p : producer) : Prop :=
  match p with
  | PRun pend l (Some s) => WF l /\ J s l /\ (List.length pend <= 2)%nat
  | PRun pend l None => (List.length pend <= 2)%nat
  | PClosed => True
  | PDead => False
  end.
(* state-function calls still to come, plus one *)
Definition pmu (p : producer) : Z :=
  match p with PRun _ l (Some s) => mu s l + 1 | _ => 0 end.

Lemma mu_nonneg : forall s l, WF l -> 0 <= mu s l.
Proof. intros s l (A & B & C). unfold mu, rank. destruct s; lia. Qed.

Lemma PInv0 : PInv producer0.
Proof. unfold producer0, PInv, WF, J, init_lexer. cbn. repeat split; lia. Qed.
Lemma pmu0 : pmu producer0 = 3 * len + 2.
Proof. unfold producer0, pmu, mu, rank, init_lexer. cbn [pos]. lia. Qed.

(* an upper bound on the number of tokens the producer will still hand over *)
Definition tokpot (p : producer) : Z :=
  match p with
  | PRun pend l (Some _) => Z.of_nat (List.length pend) + (len - pos l) + 2
  | PRun pend _ None => Z.of_nat (List.length pend)
  | _ => 0
  end.

Lemma tokpot_nonneg : forall p, PInv p -> 0 <= tokpot p.
Proof.
  intros [pend l [s|]| |] Iv; cbn [tokpot]; try lia.
  cbn [PInv] in Iv. destruct Iv as ((A & B & C) & _). lia.
Qed.

Lemma recv_spec : forall n p, PInv p -> pmu p <= Z.of_nat n ->
  exists t p', recv n inp p = Ok (t, p') /\ PInv p' /\ pmu p' <= pmu p /\
               (tokpot p' < tokpot p \/ (t = zero_tok /\ tokpot p' = 0 /\ tokpot p = 0)).
Proof.
  induction n as [|n IH]; intros p Iv M.
  - destruct p as [pend l nx| |]; cbn [recv].
    + destruct pend as [|t r].
      * destruct nx as [s|].
        -- cbn [PInv] in Iv. destruct Iv as (W & _). cbn [pmu] in M. pose proof (mu_nonneg s l W). lia.
        -- eexists _, _. split; [reflexivity|]. cbn [PInv pmu tokpot List.length].
           split; [exact Logic.I|]. split; [lia|]. right. repeat split; reflexivity.
      * eexists _, _. split; [reflexivity|]. split; [|split].
        -- destruct nx; cbn [PInv List.length] in *; intuition lia.
        -- destruct nx; cbn [pmu]; lia.
        -- left. destruct nx; cbn [tokpot List.length]; lia.
    + eexists _, _. split; [reflexivity|]. cbn [PInv pmu tokpot].
      split; [exact Logic.I|]. split; [lia|]. right. repeat split; reflexivity.
    + destruct Iv.
  - destruct p as [pend l nx| |]; cbn [recv].
    + destruct pend as [|t r].
      * destruct nx as [s|].
        -- cbn [PInv] in Iv. destruct Iv as (W & Js & _).
           pose proof (lex_step_good s l W Js) as G.
           destruct (lex_step inp s l) as [| |em l' nx']; cbn [good] in G; try contradiction.
           destruct G as ((Lem & Tp) & G).
           destruct (IH (PRun em l' nx')) as (t & p' & E & I' & M' & K').
           ++ destruct nx'; cbn [PInv]; intuition.
           ++ cbn [pmu] in M |- *. destruct nx' as [s'|]; [destruct G as (_ & _ & G); lia|].
              pose proof (mu_nonneg s l W). lia.
           ++ exists t, p'. split; [exact E|]. split; [exact I'|]. split.
              ** cbn [pmu] in M' |- *. destruct nx' as [s'|]; [destruct G as (_ & _ & G); lia|].
                 pose proof (mu_nonneg s l W). cbn [pmu] in M'. lia.
              ** assert (Tle : tokpot (PRun em l' nx') <= tokpot (PRun [] l (Some s))).
                 { unfold tpot in Tp. cbn [tokpot List.length]. destruct nx'; lia. }
                 destruct K' as [K'|(K1 & K2 & K3)]; [left; lia|].
                 assert (0 <= tokpot (PRun [] l (Some s))).
                 { cbn [tokpot List.length]. unfold WF in W. lia. }
                 cbn [tokpot List.length] in *. unfold WF in W. left. lia.
        -- eexists _, _. split; [reflexivity|]. cbn [PInv pmu tokpot List.length].
           split; [exact Logic.I|]. split; [lia|]. right. repeat split; reflexivity.
      * eexists _, _. split; [reflexivity|]. split; [|split].
        -- destruct nx; cbn [PInv List.length] in *; intuition lia.
        -- destruct nx; cbn [pmu]; lia.
        -- left. destruct nx; cbn [tokpot List.length]; lia.
    + eexists _, _. split; [reflexivity|]. cbn [PInv pmu tokpot].
      split; [exact Logic.I|]. split; [lia|]. right. repeat split; reflexivity.
    + destruct Iv.
Qed.

Definition pend_len (p : producer) : Z :=
  match p with PRun pend _ _ => Z.of_nat (List.length pend) | _ => 0 end.

Lemma drain_spec : forall n p acc, PInv p -> 3 * pmu p + pend_len p <= Z.of_nat n ->
  exists ts, drain n inp p acc = Ok ts.
Proof.
  induction n as [|n IH]; intros p acc I M.
  - destruct p as [pend l nx| |]; cbn [drain]; try (eexists; reflexivity); [|destruct I].
    destruct pend as [|t r].
    + destruct nx as [s|]; [|eexists; reflexivity].
      cbn [PInv] in I. destruct I as (W & _). cbn [pmu pend_len] in M. pose proof (mu_nonneg s l W).
      cbn [List.length] in M. lia.
    + cbn [pend_len List.length] in M. assert (0 <= pmu (PRun (t :: r) l nx)).
      { cbn [pmu]. destruct nx as [s|]; [|lia]. cbn [PInv] in I. destruct I as (W & _).
        pose proof (mu_nonneg s l W). lia. }
      lia.
  - destruct p as [pend l nx| |]; cbn [drain]; try (eexists; reflexivity); [|destruct I].
    destruct pend as [|t r].
    + destruct nx as [s|]; [|eexists; reflexivity].
      cbn [PInv] in I. destruct I as (W & Js & _).
      pose proof (lex_step_good s l W Js) as G.
      destruct (lex_step inp s l) as [| |em l' nx']; cbn [good] in G; try contradiction.
      destruct G as (Lem & G).
      apply IH.
      * destruct nx'; cbn [PInv]; intuition.
      * cbn [pmu pend_len] in M |- *. cbn [List.length] in M.
        destruct nx' as [s'|]; [destruct G as (_ & _ & G); lia|].
        pose proof (mu_nonneg s l W). lia.
    + apply IH.
      * destruct nx; cbn [PInv List.length] in *; intuition lia.
      * cbn [pmu pend_len List.length] in M |- *. destruct nx; lia.
Qed.

Theorem lex_all_ok : exists ts, lex_all inp = Ok ts.
Proof.
  unfold lex_all. apply drain_spec; [apply PInv0|].
  rewrite pmu0. unfold pend_len, producer0, drain_fuel, lex_fuel. cbn [List.length].
  rewrite Nat2Z.inj_mul. rewrite Z2Nat.id by lia. lia.
Qed.

(* every state the goroutine can be in while the consumer holds the channel *)
Definition Reach (p : producer) : Prop := PInv p /\ pmu p <= 3 * len + 2.

Lemma Reach0 : Reach producer0.
Proof. split; [apply PInv0|rewrite pmu0; lia]. Qed.

Lemma tokpot0 : tokpot producer0 = len + 2.
Proof. unfold producer0, tokpot, init_lexer. cbn [List.length pos]. lia. Qed.

Lemma recv_total : forall p, Reach p ->
  exists t p', recv (lex_fuel inp) inp p = Ok (t, p') /\ Reach p' /\
               (tokpot p' < tokpot p \/ (t = zero_tok /\ tokpot p' = 0 /\ tokpot p = 0)).
Proof.
  intros p [Iv M].
  destruct (recv_spec (lex_fuel inp) p Iv) as (t & p' & E & I' & M' & K').
  - unfold lex_fuel. rewrite Z2Nat.id by lia. lia.
  - exists t, p'. split; [exact E|]. split; [|exact K']. split; [exact I'|lia].
Qed.

Lemma drain_total : forall p acc, Reach p -> exists ts, drain (drain_fuel inp) inp p acc = Ok ts.
Proof.
  intros p acc [I M]. apply drain_spec; [exact I|].
  unfold drain_fuel, lex_fuel. rewrite Nat2Z.inj_mul. rewrite Z2Nat.id by lia.
  assert (pend_len p <= 2).
  { destruct p as [pend l nx| |]; cbn [pend_len]; try lia. destruct nx; cbn [PInv] in I; intuition lia. }
  change (Z.of_nat 3) with 3. lia.
Qed.

(* ---- receives are deterministic in the fuel; the token list of a drain is a chain of receives ---- *)
Lemma recv_mono : forall n p r, recv n inp p = Ok r -> recv (S n) inp p = Ok r.
Proof.
  induction n as [|n IH]; intros p r H.
  - destruct p as [pend l nx| |]; cbn [recv] in *; try assumption.
    destruct pend as [|t pend]; [|assumption]. destruct nx; [discriminate|assumption].
  - destruct p as [pend l nx| |]; try (cbn [recv] in *; assumption).
    destruct pend as [|t pend]; [|cbn [recv] in *; assumption].
    destruct nx as [s|]; [|cbn [recv] in *; assumption].
    cbn [recv] in H. change (recv (S (S n)) inp (PRun [] l (Some s))) with
      (match lex_step inp s l with
       | LPanic => Panic | LFuel => Fuel | LNext em l' st' => recv (S n) inp (PRun em l' st') end).
    destruct (lex_step inp s l) as [| |em l' st']; try discriminate. apply IH. exact H.
Qed.
Lemma recv_mono_le : forall n m p r, (n <= m)%nat -> recv n inp p = Ok r -> recv m inp p = Ok r.
Proof.
  intros n m p r Hle H. induction Hle as [|m Hle IH]; [exact H|]. apply recv_mono. exact IH.
Qed.

Fixpoint Chain (p : producer) (ext : list ltoken) (p' : producer) : Prop :=
  match ext with
  | [] => p' = p
  | t :: r => exists p1, recv (lex_fuel inp) inp p = Ok (t, p1) /\ Chain p1 r p'
  end.

Lemma pop_reach : forall t r l st, Reach (PRun (t :: r) l st) -> Reach (PRun r l st).
Proof.
  intros t r l st [Iv M]. split.
  - destruct st; cbn [PInv List.length] in *; intuition lia.
  - destruct st; cbn [pmu] in *; lia.
Qed.
Lemma step_reach : forall l s em l' st', Reach (PRun [] l (Some s)) ->
  lex_step inp s l = LNext em l' st' ->
  Reach (PRun em l' st') /\ tokpot (PRun em l' st') <= tokpot (PRun [] l (Some s)) /\
  pmu (PRun em l' st') < pmu (PRun [] l (Some s)).
Proof.
  intros l s em l' st' [Iv M] E. cbn [PInv] in Iv. destruct Iv as (W & Js & _).
  pose proof (lex_step_good s l W Js) as G. rewrite E in G. cbn [good] in G.
  destruct G as ((Lem & Tp) & G).
  assert (Hmu : pmu (PRun em l' st') < pmu (PRun [] l (Some s))).
  { cbn [pmu] in *. destruct st' as [s'|]; [destruct G as (_ & _ & G); lia|].
    pose proof (mu_nonneg s l W). lia. }
  split; [split|split].
  - destruct st'; cbn [PInv]; intuition.
  - lia.
  - unfold tpot in Tp. cbn [tokpot List.length]. destruct st'; lia.
  - exact Hmu.
Qed.

Lemma recv_after_step : forall l s em l' st' t p1, Reach (PRun [] l (Some s)) ->
  lex_step inp s l = LNext em l' st' ->
  recv (lex_fuel inp) inp (PRun em l' st') = Ok (t, p1) ->
  recv (lex_fuel inp) inp (PRun [] l (Some s)) = Ok (t, p1).
Proof.
  intros l s em l' st' t p1 R E Er.
  destruct (step_reach l s em l' st' R E) as ([Iv' M'] & _ & Hmu).
  destruct R as [Iv M].
  assert (Hf : lex_fuel inp = S (Nat.pred (lex_fuel inp))).
  { unfold lex_fuel. destruct (Z.to_nat (3 * len + 3)) eqn:Z0; [lia|reflexivity]. }
  destruct (recv_spec (Nat.pred (lex_fuel inp)) (PRun em l' st') Iv') as (t' & p' & E' & _).
  - unfold lex_fuel. rewrite Nat2Z.inj_pred by lia. rewrite Z2Nat.id by lia. lia.
  - pose proof (recv_mono _ _ _ E') as E2. rewrite <- Hf in E2. rewrite E2 in Er. inversion Er; subst.
    rewrite Hf. cbn [recv]. rewrite E. exact E'.
Qed.

Lemma drain_chain : forall n p acc ts, Reach p -> drain n inp p acc = Ok ts ->
  exists ext p', ts = rev acc ++ ext /\ Chain p ext p' /\ Z.of_nat (List.length ext) <= tokpot p.
Proof.
  induction n as [|n IH]; intros p acc ts R H.
  - destruct p as [pend l nx| |]; cbn [drain] in H; try discriminate.
    + destruct pend as [|t pend]; [|discriminate]. destruct nx; [discriminate|].
      inversion H; subst. exists [], (PRun [] l None). rewrite app_nil_r. repeat split.
      cbn [List.length tokpot]. lia.
    + inversion H; subst. exists [], PClosed. rewrite app_nil_r. repeat split. cbn. lia.
  - destruct p as [pend l nx| |]; cbn [drain] in H; try discriminate.
    + destruct pend as [|t pend].
      * destruct nx as [s|].
        -- destruct (lex_step inp s l) as [| |em l' st'] eqn:E; try discriminate.
           destruct (step_reach l s em l' st' R E) as (R' & Tle & _).
           destruct (IH _ _ _ R' H) as (ext & p' & Ets & Ch & Len).
           destruct ext as [|t ext].
           ++ exists [], (PRun [] l (Some s)). split; [exact Ets|]. split; [reflexivity|].
              cbn [List.length]. destruct R as [Iv _]. pose proof (tokpot_nonneg _ Iv). lia.
           ++ exists (t :: ext), p'. split; [exact Ets|]. split; [|lia].
              cbn [Chain] in Ch |- *. destruct Ch as (p1 & Er & Ch). exists p1. split; [|exact Ch].
              apply (recv_after_step l s em l' st'); assumption.
        -- inversion H; subst. exists [], (PRun [] l None). rewrite app_nil_r. repeat split.
           cbn [List.length tokpot]. lia.
      * destruct (IH _ _ _ (pop_reach _ _ _ _ R) H) as (ext & p' & Ets & Ch & Len).
        exists (t :: ext), p'. split; [|split].
        -- rewrite Ets. cbn [rev]. rewrite <- app_assoc. reflexivity.
        -- cbn [Chain]. exists (PRun pend l nx). split; [|exact Ch].
           unfold lex_fuel. destruct (Z.to_nat (3 * len + 3)); reflexivity.
        -- cbn [List.length]. destruct nx; cbn [tokpot List.length] in *; lia.
    + inversion H; subst. exists [], PClosed. rewrite app_nil_r. repeat split. cbn. lia.
Qed.

End Lex.

(* ---- the input built from a byte list satisfies the section hypotheses ---- *)
Lemma mk_input_len : forall bs, 0 <= in_len (mk_input bs).
Proof. intros. unfold mk_input. cbn. lia. Qed.
Lemma mk_input_range : forall bs i, 0 <= in_get (mk_input bs) i < 256.
Proof.
  intros bs i. unfold mk_input. cbn [in_get].
  destruct (PositiveMap.find _ _); [apply Z.mod_pos_bound|]; lia.
Qed.

(* C13, lexer part: for every byte string the lexer runs to completion without a panic within
   [drain_fuel] = 9 * len + 9 loop turns of the consumer, i.e. at most [lex_fuel] = 3 * len + 3
   calls of state functions *)
Theorem lex_never_panics : forall bs, exists ts, lex_all (mk_input bs) = Ok ts.
Proof. intros bs. apply lex_all_ok; [apply mk_input_len|apply mk_input_range]. Qed.
