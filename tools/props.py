"""Per-property configuration of tools/check.py."""

# Axioms a property theorem may depend on: only ones declared by the Coq standard library
# (primitive floats / Uint63, classical reals used by Flocq, functional extensionality).
ALLOWED_AXIOMS = [
    r"(Coq\.Floats\.)?FloatAxioms\.\w+", r"FloatAxioms\.\w+",
    r"(Coq\.Numbers\.Cyclic\.Int63\.)?Uint63\.\w+", r"Uint63Axioms\.\w+", r"\w*Uint63\w*\.\w+",
    r"ClassicalDedekindReals\.sig_forall_dec", r"ClassicalDedekindReals\.sig_not_dec",
    r"FunctionalExtensionality\.functional_extensionality_dep",
    r"Classical_Prop\.classic", r"Eqdep\.Eq_rect_eq\.eq_rect_eq", r"JMeq\.JMeq_eq",
    r"ProofIrrelevance\.proof_irrelevance", r"PrimFloat\.\w+", r"Floats\.\w+",
    r"ClassicalEpsilon\.constructive_indefinite_description",
    # primitive types / operations are listed by Print Assumptions too; they are not axioms
    r"float", r"int", r"PrimInt63\.\w+", r"PrimFloat\.\w+", r"Uint63\.\w+",
]

PROPS = {}

PROPS["C18"] = {
    "coq_targets": ["Props/C18.v", "Model/EventsCheck.v"],
    "prop_files": ["Props/C18.v"],
    "components": [{
        "name": "events", "modules": ["Model.Events", "Model.EventsCheck"],
        "check": "check_case", "monitor": "monitor_case", "model_out": "model_trace",
        "ops_path": [1], "n_quick": 600, "n_thorough": 20000, "shard": 500,
    }],
    "rule": "op lists (subscribe with priority from a small pool incl. equal and negative ones and a reaction "
            "queue; emit; re-register loggers) over 2-6 handlers of the four kinds, <=12 listeners per handler, "
            "reactions perform nested emissions / mutate / cancel; generated from one splitmix64 state; "
            "a case is non-trivial when distinct as an input term",
    "trusted": ["sort.Sort is modelled as a stable insertion (exact for <= 12 elements, the bound the generator keeps); "
                "the property itself constrains only ascending priority, which the theorem states"],
    "assumptions": ["listeners do not subscribe from inside an emission (the property quantifies over emissions from "
                    "inside listeners, not subscriptions)"],
}
