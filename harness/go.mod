module verif/harness

go 1.23.1

require github.com/simimpact/srsim v0.0.0

require (
	github.com/go-chi/chi v1.5.5
	golang.org/x/tools v0.29.0
	google.golang.org/protobuf v1.34.2
)

require (
	github.com/aclements/go-moremath v0.0.0-20210112150236-f10218a38794 // indirect
	github.com/go-chi/cors v1.2.1 // indirect
	golang.org/x/mod v0.22.0 // indirect
	golang.org/x/sync v0.10.0 // indirect
	gopkg.in/yaml.v2 v2.4.0 // indirect
	sigs.k8s.io/yaml v1.3.0 // indirect
)

replace github.com/simimpact/srsim => /repo
