(* Proofs about Model/Dispatch.v (the listener dispatch of the modifier manager, as the code is)
   against Model/DispatchSpec.v (the role table, as the doc comments of modifier.Listeners state it).
   All statements are for ALL worlds (any number of units, any number of attached instances, any
   catalog) and ALL events (any number of targets); no bounds. *)
From Coq Require Import List ZArith Bool Lia Sorted.
From SR Require Import Model.Dispatch Model.DispatchSpec.
Import ListNotations.
Open Scope Z_scope.

(* ------------------------------------------------------------------------------------------ *)
(* equality tests *)

Lemma cb_code_inj : forall a b, cb_code a = cb_code b -> a = b.
Proof. intros a b Hc; destruct a; destruct b; try reflexivity; discriminate Hc. Qed.

Lemma cb_eqb_eq : forall a b, cb_eqb a b = true <-> a = b.
Proof.
  intros a b; unfold cb_eqb; rewrite Z.eqb_eq; split.
  - apply cb_code_inj.
  - intros Hab; subst; reflexivity.
Qed.
Lemma cb_eqb_refl : forall a, cb_eqb a a = true.
Proof. intros a; apply cb_eqb_eq; reflexivity. Qed.
Lemma cb_eqb_neq : forall a b, a <> b -> cb_eqb a b = false.
Proof.
  intros a b Hne; destruct (cb_eqb a b) eqn:He; [|reflexivity].
  apply cb_eqb_eq in He; contradiction.
Qed.
Lemma cb_eqb_sym : forall a b, cb_eqb a b = cb_eqb b a.
Proof. intros a b; unfold cb_eqb; apply Z.eqb_sym. Qed.

Lemma ekind_code_inj : forall a b, ekind_code a = ekind_code b -> a = b.
Proof. intros a b Hc; destruct a; destruct b; try reflexivity; discriminate Hc. Qed.
Lemma ekind_eqb_eq : forall a b, ekind_eqb a b = true <-> a = b.
Proof.
  intros a b; unfold ekind_eqb; rewrite Z.eqb_eq; split.
  - apply ekind_code_inj.
  - intros Hab; subst; reflexivity.
Qed.

(* ------------------------------------------------------------------------------------------ *)
(* list facts *)

Lemma flat_map_nil_fun : forall {A B} (f : A -> list B) l, (forall x, f x = []) -> flat_map f l = [].
Proof.
  intros A B f l Hf; induction l as [|x r IH]; [reflexivity|].
  cbn [flat_map]; rewrite Hf, IH; reflexivity.
Qed.

Lemma flat_map_map_in : forall {A B C} (g : A -> B) (f : B -> list C) l,
  flat_map f (map g l) = flat_map (fun x => f (g x)) l.
Proof.
  intros A B C g f l; induction l as [|x r IH]; [reflexivity|].
  cbn [map flat_map]; rewrite IH; reflexivity.
Qed.

Lemma map_filter_flat_map : forall {A B} (f : A -> B) (p : A -> bool) l,
  map f (filter p l) = flat_map (fun x => if p x then [f x] else []) l.
Proof.
  intros A B f p l; induction l as [|x r IH]; [reflexivity|].
  cbn [filter flat_map]; destruct (p x); cbn [map app]; rewrite IH; reflexivity.
Qed.

Lemma filter_flat_map : forall {A B} (p : B -> bool) (f : A -> list B) l,
  filter p (flat_map f l) = flat_map (fun x => filter p (f x)) l.
Proof.
  intros A B p f l; induction l as [|x r IH]; [reflexivity|].
  cbn [flat_map]; rewrite filter_app, IH; reflexivity.
Qed.

(* ------------------------------------------------------------------------------------------ *)
(* the pure dispatch: what a world whose callbacks only record does *)

(* the calls one instance receives in a walk *)
Definition inst_calls (sn : bool) (ks : list (cb * Z)) (i : inst) : list call :=
  if sn && negb (c_snap (i_cfg i)) then []
  else flat_map (fun p => if has i (fst p) then [mk_call (fst p) (snd p) i] else []) ks.
Definition slot_calls (w : world) (s : slot) : list call :=
  flat_map (inst_calls (s_snapshot s) (s_cbs s)) (attached w (s_unit s)).
Definition pure_dispatch (w : world) (e : event) : list call :=
  match e with
  | ELimbo t yes => expected_limbo w t yes
  | _ => flat_map (slot_calls w) (slots_of e)
  end.

Lemma quiet_script : forall i k, quiet_cfg (i_cfg i) = true -> script_of i k = [].
Proof.
  intros i k Hq; unfold script_of.
  destruct (internal k); [reflexivity|].
  destruct (find (fun p => cb_eqb (fst p) k) (c_script (i_cfg i))) as [p|] eqn:Hf; [|reflexivity].
  apply find_some in Hf; destruct Hf as [Hin _].
  unfold quiet_cfg in Hq; rewrite forallb_forall in Hq; specialize (Hq p Hin).
  destruct (snd p); [reflexivity|discriminate Hq].
Qed.

Lemma invoke_quiet : forall k a i w, quiet_cfg (i_cfg i) = true ->
  invoke k a i w = ((if has i k then [mk_call k a i] else []), w).
Proof.
  intros k a i w Hq; unfold invoke; rewrite (quiet_script i k Hq).
  destruct (has i k); reflexivity.
Qed.

Lemma invoke_all_quiet : forall ks i w, quiet_cfg (i_cfg i) = true ->
  invoke_all ks i w =
  (flat_map (fun p => if has i (fst p) then [mk_call (fst p) (snd p) i] else []) ks, w).
Proof.
  intros ks i w Hq; induction ks as [|[k a] r IH]; [reflexivity|].
  cbn [invoke_all flat_map fst snd]; rewrite (invoke_quiet k a i w Hq), IH; reflexivity.
Qed.

Lemma walk_quiet : forall sn ks copy w, quiet_list copy = true ->
  walk sn ks copy w = (flat_map (inst_calls sn ks) copy, w).
Proof.
  intros sn ks copy w; induction copy as [|i r IH]; intros Hq; [reflexivity|].
  cbn [quiet_list forallb] in Hq; apply andb_true_iff in Hq; destruct Hq as [Hi Hr].
  cbn [walk flat_map]; unfold visit, inst_calls at 1.
  destruct (sn && negb (c_snap (i_cfg i))).
  - rewrite (IH Hr); reflexivity.
  - rewrite (invoke_all_quiet ks i w Hi), (IH Hr); reflexivity.
Qed.

Lemma quiet_lookup : forall m u, forallb (fun p => quiet_list (snd p)) m = true -> quiet_list (lookup m u) = true.
Proof.
  intros m u; induction m as [|[v l] r IH]; intros Hq; [reflexivity|].
  cbn [forallb snd] in Hq; apply andb_true_iff in Hq; destruct Hq as [Hl Hr].
  cbn [lookup]; destruct (v =? u); [exact Hl|exact (IH Hr)].
Qed.
Lemma quiet_attached : forall w u, quiet w = true -> quiet_list (attached w u) = true.
Proof. intros w u Hq; apply quiet_lookup; exact Hq. Qed.

Lemma run_slots_quiet : forall w ss, quiet w = true ->
  run_slots w ss = (flat_map (slot_calls w) ss, w).
Proof.
  intros w ss Hq; induction ss as [|s r IH]; [reflexivity|].
  cbn [run_slots flat_map]; unfold run_slot.
  rewrite (walk_quiet _ _ _ w (quiet_attached w (s_unit s) Hq)), IH; reflexivity.
Qed.

(* limboWaitHeal in a quiet world *)
Lemma walk_limbo_quiet : forall yes copy w, quiet_list copy = true ->
  walk_limbo yes copy w =
  (map (mk_call OnLimboWaitHeal 0) (upto_first yes (filter (fun i => has i OnLimboWaitHeal) copy)), w,
   existsb (fun i => existsb (Z.eqb (i_id i)) yes) (filter (fun i => has i OnLimboWaitHeal) copy)).
Proof.
  intros yes copy w; induction copy as [|i r IH]; intros Hq; [reflexivity|].
  cbn [quiet_list forallb] in Hq; apply andb_true_iff in Hq; destruct Hq as [Hi Hr].
  cbn [walk_limbo filter]; destruct (has i OnLimboWaitHeal) eqn:Hh.
  - rewrite (invoke_quiet _ _ _ _ Hi), Hh.
    cbn [upto_first existsb]; destruct (existsb (Z.eqb (i_id i)) yes); [reflexivity|].
    rewrite (IH Hr); reflexivity.
  - exact (IH Hr).
Qed.

Theorem dispatch_quiet : forall w e, quiet w = true ->
  run_event w e =
  (pure_dispatch w e,
   match e with ELimbo t yes => expected_verdict w t yes | _ => false end,
   match e with ELimbo _ _ => 0 | _ => final_value (value0 e) (pure_dispatch w e) end,
   w).
Proof.
  intros w e Hq; destruct e;
    try (unfold run_event, pure_dispatch; rewrite (run_slots_quiet w _ Hq); reflexivity).
  unfold run_event, pure_dispatch, expected_limbo, expected_verdict, limbo_candidates.
  rewrite (walk_limbo_quiet _ _ w (quiet_attached w target Hq)); reflexivity.
Qed.

Corollary dispatch_is_pure : forall w e, quiet w = true -> dispatch w e = pure_dispatch w e.
Proof. intros w e Hq; unfold dispatch; rewrite (dispatch_quiet w e Hq); reflexivity. Qed.
Corollary world_after_quiet : forall w e, quiet w = true -> world_after w e = w.
Proof. intros w e Hq; unfold world_after; rewrite (dispatch_quiet w e Hq); reflexivity. Qed.

(* ------------------------------------------------------------------------------------------ *)
(* THE ROLE TABLE: per callback kind, the calls of an event are exactly the table's *)

Lemma proj_app : forall k a b, proj k (a ++ b) = proj k a ++ proj k b.
Proof. intros; unfold proj; apply filter_app. Qed.

Fixpoint assoc_cb (k : cb) (ks : list (cb * Z)) : option Z :=
  match ks with
  | [] => None
  | (k', a) :: r => if cb_eqb k' k then Some a else assoc_cb k r
  end.
Fixpoint nodup_keys (ks : list (cb * Z)) : bool :=
  match ks with
  | [] => true
  | (k, _) :: r => match assoc_cb k r with None => nodup_keys r | Some _ => false end
  end.
Definition gate (k : cb) (sn : bool) (i : inst) : bool := has i k && (negb sn || c_snap (i_cfg i)).

Definition one_call (i : inst) (p : cb * Z) : list call :=
  if has i (fst p) then [mk_call (fst p) (snd p) i] else [].

Lemma proj_calls_absent : forall k i ks, assoc_cb k ks = None -> proj k (flat_map (one_call i) ks) = [].
Proof.
  intros k i ks; induction ks as [|[k' a] r IH]; intros Ha; [reflexivity|].
  cbn [assoc_cb] in Ha; destruct (cb_eqb k' k) eqn:He; [discriminate Ha|].
  cbn [flat_map]; rewrite proj_app, (IH Ha), app_nil_r.
  unfold one_call; cbn [fst snd]; destruct (has i k'); [|reflexivity].
  unfold proj; cbn [filter mk_call c_cb]; rewrite He; reflexivity.
Qed.

Lemma proj_calls : forall k i ks, nodup_keys ks = true ->
  proj k (flat_map (one_call i) ks) =
  match assoc_cb k ks with Some a => if has i k then [mk_call k a i] else [] | None => [] end.
Proof.
  intros k i ks; induction ks as [|[k' a] r IH]; intros Hn; [reflexivity|].
  cbn [nodup_keys] in Hn. destruct (assoc_cb k' r) eqn:Hk'; [discriminate Hn|].
  cbn [flat_map assoc_cb]; rewrite proj_app.
  destruct (cb_eqb k' k) eqn:He.
  - apply cb_eqb_eq in He; subst k'.
    rewrite (proj_calls_absent k i r Hk'), app_nil_r.
    unfold one_call; cbn [fst snd]; destruct (has i k); [|reflexivity].
    unfold proj; cbn [filter mk_call c_cb]; rewrite cb_eqb_refl; reflexivity.
  - rewrite (IH Hn).
    unfold one_call; cbn [fst snd]; destruct (has i k'); [|reflexivity].
    unfold proj at 1; cbn [filter mk_call c_cb]; rewrite He; reflexivity.
Qed.

Lemma proj_slot_calls : forall k w s, nodup_keys (s_cbs s) = true ->
  proj k (slot_calls w s) =
  match assoc_cb k (s_cbs s) with
  | Some a => map (mk_call k a) (filter (gate k (s_snapshot s)) (attached w (s_unit s)))
  | None => []
  end.
Proof.
  intros k w s Hn; unfold slot_calls.
  induction (attached w (s_unit s)) as [|i r IH].
  - destruct (assoc_cb k (s_cbs s)); reflexivity.
  - cbn [flat_map]; rewrite proj_app, IH; clear IH.
    unfold inst_calls, gate; cbn [filter].
    destruct (s_snapshot s && negb (c_snap (i_cfg i))) eqn:Hs.
    + replace (has i k && (negb (s_snapshot s) || c_snap (i_cfg i))) with false.
      * reflexivity.
      * destruct (s_snapshot s); destruct (c_snap (i_cfg i)); try discriminate Hs; destruct (has i k); reflexivity.
    + change (fun p : cb * Z => if has i (fst p) then [mk_call (fst p) (snd p) i] else []) with (one_call i).
      rewrite (proj_calls k i _ Hn).
      destruct (assoc_cb k (s_cbs s)) as [a|]; [|reflexivity].
      replace (negb (s_snapshot s) || c_snap (i_cfg i)) with true.
      * rewrite andb_true_r; destruct (has i k); reflexivity.
      * destruct (s_snapshot s); destruct (c_snap (i_cfg i)); try discriminate Hs; reflexivity.
Qed.

Lemma expected_unfold : forall w e k,
  expected w e k =
  if ekind_eqb (kind_of e) (cb_event k)
  then flat_map (fun u => map (mk_call k (arg_of e k)) (filter (eligible e k) (attached w u)))
                (role_units e (cb_role k))
  else [].
Proof. reflexivity. Qed.

Lemma proj_flat_slots : forall k w ss, Forall (fun s => nodup_keys (s_cbs s) = true) ss ->
  proj k (flat_map (slot_calls w) ss) =
  flat_map (fun s => match assoc_cb k (s_cbs s) with
                     | Some a => map (mk_call k a) (filter (gate k (s_snapshot s)) (attached w (s_unit s)))
                     | None => []
                     end) ss.
Proof.
  intros k w ss Hall; induction Hall as [|s r Hs Hr IH]; [reflexivity|].
  cbn [flat_map]; rewrite proj_app, IH, (proj_slot_calls k w s Hs); reflexivity.
Qed.

Lemma slots_nodup : forall e, Forall (fun s => nodup_keys (s_cbs s) = true) (slots_of e).
Proof.
  destruct e; cbn [slots_of];
    unfold actionStart, actionEnd, hpChange, targetDeath, energyChange, stanceChange, stanceBreak,
           stanceBreakEnd, breakExtend, shieldAdded, shieldRemoved, attackStart, attackEnd, hitStart, hitEnd,
           healStart, healEnd, tick, plain;
    repeat (apply Forall_cons; [reflexivity|]); try apply Forall_nil.
  - apply Forall_map, Forall_forall; intros; reflexivity.
  - apply Forall_map, Forall_forall; intros; reflexivity.
  - destruct (is_qualified atype); repeat (apply Forall_cons; [reflexivity|]); apply Forall_nil.
  - destruct (is_qualified atype); repeat (apply Forall_cons; [reflexivity|]); apply Forall_nil.
  - destruct (phase =? 3); [|destruct (phase =? 8)]; repeat (apply Forall_cons; [reflexivity|]); apply Forall_nil.
Qed.


Ltac gate_eq :=
  let i := fresh "i" in
  intro i; unfold gate, eligible;
  cbn [snapshot_of qualified_only qualified_of negb orb andb];
  repeat match goal with
         | |- context [has ?x ?k] => destruct (has x k)
         | |- context [c_snap ?c] => destruct (c_snap c)
         | H : is_qualified ?t = _ |- context [is_qualified ?t] => rewrite H
         | |- context [is_qualified ?t] => destruct (is_qualified t)
         | b : bool |- _ => destruct b
         end; reflexivity.
Lemma filter_none : forall {A} (p : A -> bool) l, (forall x, p x = false) -> filter p l = [].
Proof.
  intros A p l Hp; induction l as [|x r IH]; [reflexivity|].
  cbn [filter]; rewrite Hp; exact IH.
Qed.
Ltac fin_case :=
  cbn; rewrite ?app_nil_r;
  first [ reflexivity
        | f_equal; apply filter_ext; gate_eq
        | rewrite filter_none by gate_eq; reflexivity ].

Ltac attack_case :=
  cbn; rewrite ?app_nil_r;
  try (rewrite flat_map_nil_fun by (intro; reflexivity)); rewrite ?app_nil_r;
  first [ reflexivity
        | f_equal; apply filter_ext; gate_eq
        | apply flat_map_ext; intro; f_equal; apply filter_ext; gate_eq ].

Theorem role_table_pure : forall w e k, (forall t y, e <> ELimbo t y) -> proj k (pure_dispatch w e) = expected w e k.
Proof.
  intros w e k Hnl.
  assert (Hp : pure_dispatch w e = flat_map (slot_calls w) (slots_of e)).
  { destruct e; try reflexivity. exfalso; exact (Hnl _ _ eq_refl). }
  rewrite Hp, (proj_flat_slots k w _ (slots_nodup e)), expected_unfold; clear Hp.
  destruct e.
  - destruct k; fin_case.
  - destruct k; fin_case.
  - destruct k; fin_case.
  - exfalso; exact (Hnl _ _ eq_refl).
  - destruct k; fin_case.
  - destruct k; fin_case.
  - destruct k; fin_case.
  - destruct k; fin_case.
  - destruct k; fin_case.
  - destruct k; fin_case.
  - destruct k; fin_case.
  - destruct k; fin_case.
  - cbn [slots_of attackStart flat_map]; rewrite flat_map_map_in; destruct k; attack_case.
  - cbn [slots_of attackEnd flat_map]; rewrite flat_map_map_in; destruct k; attack_case.
  - unfold slots_of, hitStart; cbv zeta; destruct (is_qualified atype) eqn:Hq; destruct k; fin_case.
  - unfold slots_of, hitEnd; cbv zeta; destruct (is_qualified atype) eqn:Hq; destruct k; fin_case.
  - destruct k; fin_case.
  - destruct k; fin_case.
  - unfold slots_of, tick, kind_of; destruct (phase =? 3); [|destruct (phase =? 8)]; destruct k; fin_case.
Qed.


(* ------------------------------------------------------------------------------------------ *)
(* consequences: on no other instance, in no other event *)

Lemma upto_first_incl : forall yes l i, In i (upto_first yes l) -> In i l.
Proof.
  intros yes l; induction l as [|x r IH]; intros i Hi; [exact Hi|].
  cbn [upto_first] in Hi; destruct (existsb (Z.eqb (i_id x)) yes).
  - destruct Hi as [Hi|[]]; left; exact Hi.
  - destruct Hi as [Hi|Hi]; [left; exact Hi|right; exact (IH i Hi)].
Qed.

Theorem calls_only_for_roles : forall w e c, In c (pure_dispatch w e) ->
  kind_of e = cb_event (c_cb c) /\
  exists u i, In u (role_units e (cb_role (c_cb c))) /\ In i (attached w u) /\
              eligible e (c_cb c) i = true /\ c = mk_call (c_cb c) (arg_of e (c_cb c)) i.
Proof.
  intros w e c Hin.
  destruct (match e with ELimbo _ _ => true | _ => false end) eqn:Hl.
  - destruct e; try discriminate Hl; clear Hl.
    unfold pure_dispatch, expected_limbo in Hin; apply in_map_iff in Hin.
    destruct Hin as [i [Hc Hi]]; apply upto_first_incl in Hi.
    unfold limbo_candidates in Hi; apply filter_In in Hi; destruct Hi as [Hi Hh].
    subst c; cbn [mk_call c_cb]; split; [reflexivity|].
    exists target, i; repeat split.
    + left; reflexivity.
    + exact Hi.
    + unfold eligible; rewrite Hh; reflexivity.
  - assert (Hnl : forall t y, e <> ELimbo t y) by (intros t y He; subst e; discriminate Hl).
    assert (Hp : In c (proj (c_cb c) (pure_dispatch w e))).
    { unfold proj; apply filter_In; split; [exact Hin|apply cb_eqb_refl]. }
    rewrite (role_table_pure w e (c_cb c) Hnl) in Hp; unfold expected in Hp.
    destruct (ekind_eqb (kind_of e) (cb_event (c_cb c))) eqn:Hk; [|destruct Hp].
    apply ekind_eqb_eq in Hk; split; [exact Hk|].
    apply in_flat_map in Hp; destruct Hp as [u [Hu Hc]].
    apply in_map_iff in Hc; destruct Hc as [i [Hc Hi]].
    apply filter_In in Hi; destruct Hi as [Hi He].
    exists u, i; repeat split; try assumption; symmetry; exact Hc.
Qed.

(* ------------------------------------------------------------------------------------------ *)
(* role order across the callback kinds of one event *)

Definition rank_le (a b : call) : Prop := (rank (c_cb a) <= rank (c_cb b))%nat.

Lemma sorted_app : forall {A} (R : A -> A -> Prop) l1 l2,
  StronglySorted R l1 -> StronglySorted R l2 -> (forall x y, In x l1 -> In y l2 -> R x y) ->
  StronglySorted R (l1 ++ l2).
Proof.
  intros A R l1 l2 H1 H2 H12; induction H1 as [|a l Hl IH Ha]; [exact H2|].
  cbn [app]; constructor.
  - apply IH; intros x y Hx Hy; apply H12; [right; exact Hx|exact Hy].
  - apply Forall_app; split; [exact Ha|].
    apply Forall_forall; intros y Hy; apply H12; [left; reflexivity|exact Hy].
Qed.

Lemma sorted_all_related : forall {A} (R : A -> A -> Prop) l,
  (forall x y, In x l -> In y l -> R x y) -> StronglySorted R l.
Proof.
  intros A R l; induction l as [|a r IH]; intros Hall; constructor.
  - apply IH; intros x y Hx Hy; apply Hall; right; assumption.
  - apply Forall_forall; intros y Hy; apply Hall; [left; reflexivity|right; exact Hy].
Qed.

Lemma slot_calls_keys : forall w s c, In c (slot_calls w s) -> In (c_cb c) (map fst (s_cbs s)).
Proof.
  intros w s c Hc; unfold slot_calls in Hc; apply in_flat_map in Hc; destruct Hc as [i [_ Hc]].
  unfold inst_calls in Hc; destruct (s_snapshot s && negb (c_snap (i_cfg i))); [destruct Hc|].
  apply in_flat_map in Hc; destruct Hc as [p [Hp Hc]].
  destruct (has i (fst p)); [|destruct Hc].
  destruct Hc as [Hc|[]]; subst c; cbn [mk_call c_cb]; apply in_map; exact Hp.
Qed.

(* every callback of slot s has rank r *)
Definition slot_rank (r : nat) (s : slot) : Prop := forall k, In k (map fst (s_cbs s)) -> rank k = r.

Lemma slots_sorted : forall w ss rs,
  Forall2 slot_rank rs ss -> StronglySorted le rs ->
  StronglySorted rank_le (flat_map (slot_calls w) ss).
Proof.
  intros w ss rs Hf; induction Hf as [|r s rs' ss' Hr Hrest IH]; intros Hs; [constructor|].
  inversion Hs as [|? ? Hs' Hle]; subst.
  cbn [flat_map]; apply sorted_app.
  - apply sorted_all_related; intros x y Hx Hy; unfold rank_le.
    rewrite (Hr _ (slot_calls_keys w s x Hx)), (Hr _ (slot_calls_keys w s y Hy)); apply le_n.
  - exact (IH Hs').
  - intros x y Hx Hy; unfold rank_le; rewrite (Hr _ (slot_calls_keys w s x Hx)).
    apply in_flat_map in Hy; destruct Hy as [s' [Hs'in Hy]].
    clear IH Hs Hs'. revert Hle. induction Hrest as [|r' s'' rs'' ss'' Hr' Hrest' IH']; [destruct Hs'in|].
    intros Hle; inversion Hle as [|? ? Hle1 Hle2]; subst.
    destruct Hs'in as [Heq|Hin'].
    + subst s''; rewrite (Hr' _ (slot_calls_keys w s' y Hy)); exact Hle1.
    + exact (IH' Hin' Hle2).
Qed.

Ltac rank_slot := let k := fresh "k" in let Hk := fresh "Hk" in
  intros k Hk; cbn in Hk; repeat (destruct Hk as [Hk|Hk]; [subst k; reflexivity|]); destruct Hk.
Ltac sorted_nats := repeat (constructor; [|repeat (constructor; [lia|]); try constructor]); try constructor.

Lemma const_ranks_sorted : forall {A} (l : list A) n, StronglySorted le (map (fun _ => n) l).
Proof.
  intros A l n; induction l as [|x r IH]; [constructor|].
  cbn [map]; constructor; [exact IH|].
  apply Forall_forall; intros y Hy; apply in_map_iff in Hy; destruct Hy as [_ [Hy _]]; subst y; apply le_n.
Qed.

Theorem rank_order_pure : forall w e, StronglySorted rank_le (pure_dispatch w e).
Proof.
  intros w e; destruct e; unfold pure_dispatch.
  - apply (slots_sorted w _ [0%nat]); [repeat constructor; rank_slot|sorted_nats].
  - apply (slots_sorted w _ [0%nat]); [repeat constructor; rank_slot|sorted_nats].
  - apply (slots_sorted w _ [0%nat]); [repeat constructor; rank_slot|sorted_nats].
  - apply sorted_all_related; intros x y Hx Hy; unfold expected_limbo in Hx, Hy.
    apply in_map_iff in Hx; destruct Hx as [? [Hx _]]; apply in_map_iff in Hy; destruct Hy as [? [Hy _]].
    subst x y; apply le_n.
  - apply (slots_sorted w _ [0%nat; 1%nat]); [repeat constructor; rank_slot|sorted_nats].
  - apply (slots_sorted w _ [0%nat]); [repeat constructor; rank_slot|sorted_nats].
  - apply (slots_sorted w _ [0%nat]); [repeat constructor; rank_slot|sorted_nats].
  - apply (slots_sorted w _ [0%nat; 1%nat; 2%nat]); [repeat constructor; rank_slot|sorted_nats].
  - apply (slots_sorted w _ [0%nat]); [repeat constructor; rank_slot|sorted_nats].
  - apply (slots_sorted w _ [0%nat]); [repeat constructor; rank_slot|sorted_nats].
  - apply (slots_sorted w _ [0%nat]); [repeat constructor; rank_slot|sorted_nats].
  - apply (slots_sorted w _ [0%nat]); [repeat constructor; rank_slot|sorted_nats].
  - apply (slots_sorted w _ (0%nat :: map (fun _ => 1%nat) targets)).
    + cbn [slots_of attackStart]; constructor; [rank_slot|].
      induction targets as [|t r IH]; [constructor|cbn [map]; constructor; [rank_slot|exact IH]].
    + constructor; [apply const_ranks_sorted|].
      apply Forall_forall; intros y Hy; apply in_map_iff in Hy; destruct Hy as [_ [Hy _]]; subst y; lia.
  - apply (slots_sorted w _ (0%nat :: map (fun _ => 1%nat) targets)).
    + cbn [slots_of attackEnd]; constructor; [rank_slot|].
      induction targets as [|t r IH]; [constructor|cbn [map]; constructor; [rank_slot|exact IH]].
    + constructor; [apply const_ranks_sorted|].
      apply Forall_forall; intros y Hy; apply in_map_iff in Hy; destruct Hy as [_ [Hy _]]; subst y; lia.
  - apply (slots_sorted w _ [0%nat; 1%nat]); [|sorted_nats].
    unfold slots_of, hitStart; cbv zeta; destruct (is_qualified atype); repeat constructor; rank_slot.
  - apply (slots_sorted w _ [0%nat; 1%nat]); [|sorted_nats].
    unfold slots_of, hitEnd; cbv zeta; destruct (is_qualified atype); repeat constructor; rank_slot.
  - apply (slots_sorted w _ [0%nat; 1%nat]); [repeat constructor; rank_slot|sorted_nats].
  - apply (slots_sorted w _ [0%nat; 1%nat]); [repeat constructor; rank_slot|sorted_nats].
  - unfold slots_of, tick; destruct (phase =? 3); [|destruct (phase =? 8)].
    + apply (slots_sorted w _ [0%nat]); [repeat constructor; rank_slot|sorted_nats].
    + apply (slots_sorted w _ [0%nat]); [repeat constructor; rank_slot|sorted_nats].
    + constructor.
Qed.

(* ------------------------------------------------------------------------------------------ *)
(* the qualified variant follows the All variant on the same instance *)

Lemma proj2_app : forall k k' a b, projp k k' (a ++ b) = projp k k' a ++ projp k k' b.
Proof. intros; unfold projp; apply filter_app. Qed.

Lemma filter_none_in : forall {A} (p : A -> bool) l, (forall x, In x l -> p x = false) -> filter p l = [].
Proof.
  intros A p l; induction l as [|x r IH]; intros Hp; [reflexivity|].
  cbn [filter]; rewrite (Hp x (or_introl eq_refl)); apply IH; intros y Hy; apply Hp; right; exact Hy.
Qed.

Definition lacks (k k' : cb) (s : slot) : Prop :=
  forall x, In x (map fst (s_cbs s)) -> cb_eqb x k || cb_eqb x k' = false.

Lemma proj2_absent : forall k k' w ss, Forall (lacks k k') ss -> projp k k' (flat_map (slot_calls w) ss) = [].
Proof.
  intros k k' w ss Hall; unfold projp; apply filter_none_in; intros c Hc.
  apply in_flat_map in Hc; destruct Hc as [s [Hs Hc]].
  rewrite Forall_forall in Hall; exact (Hall s Hs _ (slot_calls_keys w s c Hc)).
Qed.

Ltac lacks_slot := let x := fresh "x" in let Hx := fresh "Hx" in
  intros x Hx; cbn in Hx; repeat (destruct Hx as [Hx|Hx]; [subst x; reflexivity|]); destruct Hx.
Ltac lacks_all :=
  unfold slots_of, actionStart, actionEnd, hpChange, targetDeath, energyChange, stanceChange, stanceBreak,
         stanceBreakEnd, breakExtend, shieldAdded, shieldRemoved, attackStart, attackEnd, hitStart, hitEnd,
         healStart, healEnd, tick, plain; cbv zeta;
  repeat match goal with
         | |- context [is_qualified ?t] => destruct (is_qualified t)
         | |- context [?p =? 3] => destruct (p =? 3)
         | |- context [?p =? 8] => destruct (p =? 8)
         end;
  repeat (apply Forall_cons; [lacks_slot|]);
  first [ apply Forall_nil | apply Forall_map, Forall_forall; intros; lacks_slot ].

Lemma proj2_slot : forall k k' w s,
  projp k k' (slot_calls w s) =
  flat_map (fun i => projp k k' (inst_calls (s_snapshot s) (s_cbs s) i)) (attached w (s_unit s)).
Proof. intros; unfold projp, slot_calls; apply filter_flat_map. Qed.

Ltac pair_inst :=
  let i := fresh "i" in
  intro i; unfold inst_calls, opt_call, eligible, projp;
  cbn [snapshot_of qualified_only qualified_of s_snapshot s_cbs flat_map fst snd negb orb andb when];
  repeat match goal with
         | H : is_qualified ?t = _ |- context [is_qualified ?t] => rewrite H
         | |- context [has ?x ?k] => destruct (has x k)
         | |- context [c_snap ?c] => destruct (c_snap c)
         | b : bool |- _ => destruct b
         end; reflexivity.

Theorem pairing_pure : forall w e k k', twin k = Some k' -> (forall t y, e <> ELimbo t y) ->
  projp k k' (pure_dispatch w e) = expected_pair w e k k'.
Proof.
  intros w e k k' Ht Hnl.
  assert (Hp : pure_dispatch w e = flat_map (slot_calls w) (slots_of e)).
  { destruct e; try reflexivity. exfalso; exact (Hnl _ _ eq_refl). }
  rewrite Hp; clear Hp.
  destruct k; try discriminate Ht; injection Ht as Ht; subst k';
    destruct e; try (exfalso; exact (Hnl _ _ eq_refl));
    try (rewrite proj2_absent by lacks_all; reflexivity);
    try (rewrite proj2_absent by lacks_all; unfold expected_pair, kind_of;
         destruct (phase =? 3); [|destruct (phase =? 8)]; reflexivity).
  - (* OnBeforeHitAll / OnBeforeHit on HitStart: the attacker's walk *)
    unfold slots_of, hitStart; cbv zeta; destruct (is_qualified atype) eqn:Hq;
      cbn [flat_map]; rewrite !proj2_app, !proj2_slot, app_nil_r;
      unfold expected_pair; cbn [kind_of cb_event cb_when fst ekind_eqb ekind_code Z.eqb Pos.eqb role_units cb_role snd flat_map s_unit s_snapshot s_cbs];
      rewrite app_nil_r;
      rewrite (flat_map_nil_fun (fun i => projp _ _ (inst_calls _ ((OnBeforeBeingHitAll, 0) :: _) i))) by pair_inst;
      rewrite app_nil_r; apply flat_map_ext; pair_inst.
  - unfold slots_of, hitStart; cbv zeta; destruct (is_qualified atype) eqn:Hq;
      cbn [flat_map]; rewrite !proj2_app, !proj2_slot, app_nil_r;
      unfold expected_pair; cbn [kind_of cb_event cb_when fst ekind_eqb ekind_code Z.eqb Pos.eqb role_units cb_role snd flat_map s_unit s_snapshot s_cbs];
      rewrite app_nil_r;
      rewrite (flat_map_nil_fun (fun i => projp _ _ (inst_calls _ ((OnBeforeHitAll, 0) :: _) i))) by pair_inst;
      cbn [app]; apply flat_map_ext; pair_inst.
  - unfold slots_of, hitEnd; cbv zeta; destruct (is_qualified atype) eqn:Hq;
      cbn [flat_map]; rewrite !proj2_app, !proj2_slot, app_nil_r;
      unfold expected_pair; cbn [kind_of cb_event cb_when fst ekind_eqb ekind_code Z.eqb Pos.eqb role_units cb_role snd flat_map s_unit s_snapshot s_cbs];
      rewrite app_nil_r;
      rewrite (flat_map_nil_fun (fun i => projp _ _ (inst_calls _ ((OnAfterBeingHitAll, 0) :: _) i))) by pair_inst;
      rewrite app_nil_r; apply flat_map_ext; pair_inst.
  - unfold slots_of, hitEnd; cbv zeta; destruct (is_qualified atype) eqn:Hq;
      cbn [flat_map]; rewrite !proj2_app, !proj2_slot, app_nil_r;
      unfold expected_pair; cbn [kind_of cb_event cb_when fst ekind_eqb ekind_code Z.eqb Pos.eqb role_units cb_role snd flat_map s_unit s_snapshot s_cbs];
      rewrite app_nil_r;
      rewrite (flat_map_nil_fun (fun i => projp _ _ (inst_calls _ ((OnAfterHitAll, 0) :: _) i))) by pair_inst;
      cbn [app]; apply flat_map_ext; pair_inst.
Qed.

(* ------------------------------------------------------------------------------------------ *)
(* SCRIPTED worlds: callbacks that detach and attach instances while the manager walks.  A walk
   visits the copy taken when it started (mgr.itr), so its calls are those of that copy whatever the
   scripts do; only the NEXT walk of the same event sees the changed list. *)

Lemma external_app : forall a b, external (a ++ b) = external a ++ external b.
Proof. intros; unfold external; apply filter_app. Qed.

Lemma note_internal : forall k i, internal k = true -> external (note k i) = [].
Proof.
  intros k i Hk; unfold note; destruct (has i k); [|reflexivity].
  unfold external; cbn [filter mk_call c_cb]; rewrite Hk; reflexivity.
Qed.

Lemma do_action_internal : forall self w a, external (fst (do_action self w a)) = [].
Proof.
  intros self w a; destruct a; cbn [do_action].
  - unfold do_detach; destruct (find_att (i_id self) (w_att w)); [apply note_internal|]; reflexivity.
  - unfold do_detach; destruct (find_att tag (w_att w)); [apply note_internal|]; reflexivity.
  - unfold do_attach; destruct (existsb (Z.eqb u) (w_valid w)); [|reflexivity].
    destruct (nth_error (w_cat w) c); [apply note_internal|]; reflexivity.
  - unfold do_attach; destruct (existsb (Z.eqb (i_owner self)) (w_valid w)); [|reflexivity].
    destruct (nth_error (w_cat w) c); [apply note_internal|]; reflexivity.
Qed.

Lemma do_actions_internal : forall self l w, external (fst (do_actions self w l)) = [].
Proof.
  intros self l; induction l as [|a r IH]; intros w; [reflexivity|].
  cbn [do_actions]. pose proof (do_action_internal self w a) as Ha.
  destruct (do_action self w a) as [c1 w1]. specialize (IH w1).
  destruct (do_actions self w1 r) as [c2 w2]. cbn [fst] in *.
  rewrite external_app, Ha, IH; reflexivity.
Qed.

Lemma invoke_external : forall k a i w, internal k = false ->
  external (fst (invoke k a i w)) = if has i k then [mk_call k a i] else [].
Proof.
  intros k a i w Hk; unfold invoke; destruct (has i k); [|reflexivity].
  pose proof (do_actions_internal i (script_of i k) w) as Hd.
  destruct (do_actions i w (script_of i k)) as [cs w']; cbn [fst] in *.
  unfold external in *; cbn [filter mk_call c_cb]; rewrite Hk; cbn [negb]; rewrite Hd; reflexivity.
Qed.

Definition external_keys (ks : list (cb * Z)) : Prop := Forall (fun p => internal (fst p) = false) ks.

Lemma invoke_all_external : forall ks i w, external_keys ks ->
  external (fst (invoke_all ks i w)) =
  flat_map (fun p => if has i (fst p) then [mk_call (fst p) (snd p) i] else []) ks.
Proof.
  intros ks i w Hk; revert w; induction Hk as [|[k a] r Hka Hr IH]; intros w; [reflexivity|].
  cbn [invoke_all flat_map fst snd]. pose proof (invoke_external k a i w Hka) as Hi.
  destruct (invoke k a i w) as [c1 w1]. specialize (IH w1).
  destruct (invoke_all r i w1) as [c2 w2]. cbn [fst] in *.
  rewrite external_app, Hi, IH; reflexivity.
Qed.

Theorem walk_visits_its_copy : forall sn ks copy w, external_keys ks ->
  external (fst (walk sn ks copy w)) = flat_map (inst_calls sn ks) copy.
Proof.
  intros sn ks copy w Hk; revert w; induction copy as [|i r IH]; intros w; [reflexivity|].
  cbn [walk flat_map].
  assert (Hv : external (fst (visit sn ks i w)) = inst_calls sn ks i).
  { unfold visit, inst_calls; destruct (sn && negb (c_snap (i_cfg i))); [reflexivity|].
    apply invoke_all_external; exact Hk. }
  destruct (visit sn ks i w) as [c1 w1]. specialize (IH w1).
  destruct (walk sn ks r w1) as [c2 w2]. cbn [fst] in *.
  rewrite external_app, Hv, IH; reflexivity.
Qed.

(* the walks of an event, each started in the world its predecessors left behind *)
Fixpoint walks (w : world) (ss : list slot) : list call :=
  match ss with
  | [] => []
  | s :: r => slot_calls w s ++ walks (snd (run_slot w s)) r
  end.

Lemma run_slots_walks : forall ss w, Forall (fun s => external_keys (s_cbs s)) ss ->
  external (fst (run_slots w ss)) = walks w ss.
Proof.
  intros ss; induction ss as [|s r IH]; intros w Hall; [reflexivity|].
  inversion Hall as [|? ? Hs Hr]; subst.
  cbn [run_slots walks].
  pose proof (walk_visits_its_copy (s_snapshot s) (s_cbs s) (attached w (s_unit s)) w Hs) as Hw.
  unfold run_slot in *. destruct (walk (s_snapshot s) (s_cbs s) (attached w (s_unit s)) w) as [c1 w1].
  specialize (IH w1 Hr). destruct (run_slots w1 r) as [c2 w2]. cbn [fst snd] in *.
  rewrite external_app, Hw, IH; reflexivity.
Qed.

Lemma slots_external : forall e, Forall (fun s => external_keys (s_cbs s)) (slots_of e).
Proof.
  destruct e; cbn [slots_of];
    unfold actionStart, actionEnd, hpChange, targetDeath, energyChange, stanceChange, stanceBreak,
           stanceBreakEnd, breakExtend, shieldAdded, shieldRemoved, attackStart, attackEnd, hitStart, hitEnd,
           healStart, healEnd, tick, plain, external_keys; cbv zeta;
    repeat match goal with
           | |- context [is_qualified ?t] => destruct (is_qualified t)
           | |- context [?p =? 3] => destruct (p =? 3)
           | |- context [?p =? 8] => destruct (p =? 8)
           end;
    repeat (apply Forall_cons; [repeat constructor|]);
    first [ apply Forall_nil | apply Forall_map, Forall_forall; intros; repeat constructor ].
Qed.

Lemma walks_quiet : forall w ss, quiet w = true -> walks w ss = flat_map (slot_calls w) ss.
Proof.
  intros w ss Hq; induction ss as [|s r IH]; [reflexivity|].
  cbn [walks flat_map]; unfold run_slot.
  rewrite (walk_quiet _ _ _ w (quiet_attached w (s_unit s) Hq)); cbn [snd]; rewrite IH; reflexivity.
Qed.

Theorem dispatch_any_world : forall w e, (forall t y, e <> ELimbo t y) ->
  external (dispatch w e) = walks w (slots_of e).
Proof.
  intros w e Hnl; unfold dispatch.
  assert (Hr : fst (fst (fst (run_event w e))) = fst (run_slots w (slots_of e))).
  { destruct e; try (exfalso; exact (Hnl _ _ eq_refl));
      unfold run_event; destruct (run_slots w _) as [cs w']; reflexivity. }
  rewrite Hr; apply run_slots_walks, slots_external.
Qed.

(* an event that is ONE walk obeys the table in every world, scripted or not *)
Corollary single_walk_any_world : forall w e s, slots_of e = [s] ->
  external (dispatch w e) = pure_dispatch w e.
Proof.
  intros w e s Hs.
  assert (Hnl : forall t y, e <> ELimbo t y) by (intros t y He; subst e; discriminate Hs).
  rewrite (dispatch_any_world w e Hnl), Hs; cbn [walks]; rewrite app_nil_r.
  destruct e; try (exfalso; exact (Hnl _ _ eq_refl)); unfold pure_dispatch; rewrite Hs; cbn [flat_map];
    rewrite app_nil_r; reflexivity.
Qed.

(* and so does the first walk of every event (healer side of a heal, attacker side of an attack / hit,
   OnBeforeDying, OnBeforeBeingBreak) *)
Corollary first_walk_any_world : forall w e s r, slots_of e = s :: r ->
  exists rest, external (dispatch w e) = slot_calls w s ++ rest.
Proof.
  intros w e s r Hs.
  assert (Hnl : forall t y, e <> ELimbo t y) by (intros t y He; subst e; discriminate Hs).
  rewrite (dispatch_any_world w e Hnl), Hs; cbn [walks]; eexists; reflexivity.
Qed.

(* limboWaitHeal in any world: the walk, its early end and its verdict do not depend on the scripts *)
Lemma walk_limbo_any : forall yes copy w,
  external (fst (fst (walk_limbo yes copy w))) =
    map (mk_call OnLimboWaitHeal 0) (upto_first yes (filter (fun i => has i OnLimboWaitHeal) copy)) /\
  snd (walk_limbo yes copy w) =
    existsb (fun i => existsb (Z.eqb (i_id i)) yes) (filter (fun i => has i OnLimboWaitHeal) copy).
Proof.
  intros yes copy; induction copy as [|i r IH]; intros w; [split; reflexivity|].
  cbn [walk_limbo filter]; destruct (has i OnLimboWaitHeal) eqn:Hh; [|exact (IH w)].
  pose proof (invoke_external OnLimboWaitHeal 0 i w eq_refl) as Hi; rewrite Hh in Hi.
  destruct (invoke OnLimboWaitHeal 0 i w) as [c1 w1]; cbn [fst] in Hi.
  cbn [upto_first existsb]; destruct (existsb (Z.eqb (i_id i)) yes).
  - cbn [fst snd]; split; [exact Hi|reflexivity].
  - destruct (IH w1) as [IHc IHv]. destruct (walk_limbo yes r w1) as [[c2 w2] v]. cbn [fst snd] in *.
    rewrite external_app, Hi, IHc; split; [reflexivity|exact IHv].
Qed.

Theorem limbo_any_world : forall w t yes,
  external (dispatch w (ELimbo t yes)) = expected_limbo w t yes /\
  verdict w (ELimbo t yes) = expected_verdict w t yes.
Proof.
  intros w t yes; unfold dispatch, verdict, run_event, expected_limbo, expected_verdict, limbo_candidates.
  destruct (walk_limbo_any yes (attached w t) w) as [Hc Hv].
  destruct (walk_limbo yes (attached w t) w) as [[cs w'] v]; cbn [fst snd] in *; split; assumption.
Qed.

(* the verdict is the disjunction of the answers of the callbacks that were called *)
Lemma upto_first_verdict : forall yes l,
  existsb (fun i => existsb (Z.eqb (i_id i)) yes) l =
  existsb (fun i => existsb (Z.eqb (i_id i)) yes) (upto_first yes l).
Proof.
  intros yes l; induction l as [|i r IH]; [reflexivity|].
  cbn [upto_first existsb]; destruct (existsb (Z.eqb (i_id i)) yes) eqn:Hy.
  - cbn [existsb]; rewrite Hy; reflexivity.
  - cbn [existsb]; rewrite Hy; exact IH.
Qed.

Theorem limbo_verdict_is_disjunction : forall w t yes,
  verdict w (ELimbo t yes) =
  existsb (fun c => existsb (Z.eqb (c_id c)) yes) (external (dispatch w (ELimbo t yes))).
Proof.
  intros w t yes; destruct (limbo_any_world w t yes) as [Hc Hv]; rewrite Hc, Hv.
  unfold expected_verdict, expected_limbo; rewrite upto_first_verdict.
  induction (upto_first yes (limbo_candidates w t)) as [|i r IH]; [reflexivity|].
  cbn [map existsb mk_call c_id]; rewrite IH; reflexivity.
Qed.

(* ------------------------------------------------------------------------------------------ *)
(* gates *)

Theorem unqualified_hits_skip_plain_callbacks : forall w e k, quiet w = true ->
  qualified_only k = true -> qualified_of e = false -> proj k (dispatch w e) = [].
Proof.
  intros w e k Hq Hk He.
  assert (Hnl : forall t y, e <> ELimbo t y) by (intros t y Hx; subst e; discriminate He).
  rewrite (dispatch_is_pure w e Hq), (role_table_pure w e k Hnl); unfold expected.
  destruct (ekind_eqb (kind_of e) (cb_event k)); [|reflexivity].
  apply flat_map_nil_fun; intros u; rewrite filter_none; [reflexivity|].
  intros i; unfold eligible; rewrite Hk, He; cbn [negb orb]; apply andb_false_r.
Qed.

Theorem snapshot_reaches_only_modify_snapshot : forall w e c, quiet w = true ->
  snapshot_of e = true -> In c (dispatch w e) ->
  exists u i, In u (role_units e (cb_role (c_cb c))) /\ In i (attached w u) /\
              c = mk_call (c_cb c) (arg_of e (c_cb c)) i /\ c_snap (i_cfg i) = true.
Proof.
  intros w e c Hq Hs Hin; rewrite (dispatch_is_pure w e Hq) in Hin.
  destruct (calls_only_for_roles w e c Hin) as [_ [u [i [Hu [Hi [He Hc]]]]]].
  exists u, i; repeat split; try assumption.
  unfold eligible in He; rewrite Hs in He; cbn [negb orb] in He.
  destruct (c_snap (i_cfg i)); [reflexivity|].
  rewrite andb_false_r in He; discriminate He.
Qed.

(* how often: once per (occurrence of a unit in the role, eligible attached instance) *)
Theorem calls_per_kind_count : forall w e k, quiet w = true -> (forall t y, e <> ELimbo t y) ->
  length (proj k (dispatch w e)) =
  if ekind_eqb (kind_of e) (cb_event k)
  then list_sum (map (fun u => length (filter (eligible e k) (attached w u))) (role_units e (cb_role k)))
  else 0%nat.
Proof.
  intros w e k Hq Hnl; rewrite (dispatch_is_pure w e Hq), (role_table_pure w e k Hnl); unfold expected.
  destruct (ekind_eqb (kind_of e) (cb_event k)); [|reflexivity].
  induction (role_units e (cb_role k)) as [|u r IH]; [reflexivity|].
  cbn [flat_map map list_sum]; rewrite app_length, map_length, IH; reflexivity.
Qed.

(* the number the emitter reads back is the fold of the adjustments in call order; bookkeeping calls
   do not touch it *)
Lemma final_value_external : forall cs v, final_value v cs = final_value v (external cs).
Proof.
  intros cs; induction cs as [|c r IH]; intros v; [reflexivity|].
  unfold final_value, external in *; cbn [fold_left filter].
  destruct (internal (c_cb c)) eqn:Hi; cbn [negb].
  - rewrite <- IH; f_equal; unfold adj.
    destruct (c_cb c); try discriminate Hi; reflexivity.
  - cbn [fold_left]; apply IH.
Qed.

Theorem value_is_fold_of_adjustments : forall w e, (forall t y, e <> ELimbo t y) ->
  value_after w e = final_value (value0 e) (external (dispatch w e)).
Proof.
  intros w e Hnl; rewrite <- final_value_external; unfold value_after, dispatch.
  destruct e; try (exfalso; exact (Hnl _ _ eq_refl));
    unfold run_event; destruct (run_slots w _) as [cs w']; reflexivity.
Qed.

(* ------------------------------------------------------------------------------------------ *)
(* the two dispatches the properties lean on, written out *)

Lemma slot_calls_single : forall w u sn k a,
  slot_calls w (mkSlot u sn [(k, a)]) = map (mk_call k a) (filter (gate k sn) (attached w u)).
Proof.
  intros w u sn k a; unfold slot_calls; cbn [s_snapshot s_cbs s_unit].
  rewrite map_filter_flat_map; apply flat_map_ext; intros i.
  unfold inst_calls, gate; cbn [flat_map fst snd].
  destruct sn; destruct (c_snap (i_cfg i)); destruct (has i k); reflexivity.
Qed.

(* C17: heal dispatch, healer side then receiver side *)
Theorem heal_start_dispatch : forall w h t sn v, quiet w = true ->
  dispatch w (EHealStart h t sn v) =
    map (mk_call OnBeforeDealHeal 0) (filter (gate OnBeforeDealHeal sn) (attached w h)) ++
    map (mk_call OnBeforeBeingHeal 0) (filter (gate OnBeforeBeingHeal sn) (attached w t)).
Proof.
  intros w h t sn v Hq; rewrite (dispatch_is_pure _ _ Hq); unfold pure_dispatch, slots_of, healStart.
  cbn [flat_map]; rewrite !slot_calls_single, app_nil_r; reflexivity.
Qed.
Theorem heal_end_dispatch : forall w h t sn, quiet w = true ->
  dispatch w (EHealEnd h t sn) =
    map (mk_call OnAfterDealHeal 0) (filter (gate OnAfterDealHeal sn) (attached w h)) ++
    map (mk_call OnAfterBeingHeal 0) (filter (gate OnAfterBeingHeal sn) (attached w t)).
Proof.
  intros w h t sn Hq; rewrite (dispatch_is_pure _ _ Hq); unfold pure_dispatch, slots_of, healEnd.
  cbn [flat_map]; rewrite !slot_calls_single, app_nil_r; reflexivity.
Qed.

(* C04: attack dispatch: the attacker, then every target in target order *)
Theorem attack_start_dispatch : forall w a ts ty, quiet w = true ->
  dispatch w (EAttackStart a ts ty) =
    map (mk_call OnBeforeAttack 0) (filter (gate OnBeforeAttack false) (attached w a)) ++
    flat_map (fun t => map (mk_call OnBeforeBeingAttacked 0)
                           (filter (gate OnBeforeBeingAttacked false) (attached w t))) ts.
Proof.
  intros w a ts ty Hq; rewrite (dispatch_is_pure _ _ Hq); unfold pure_dispatch, slots_of, attackStart, plain.
  cbn [flat_map]; rewrite slot_calls_single, flat_map_map_in; f_equal.
  apply flat_map_ext; intros t; apply slot_calls_single.
Qed.
Theorem attack_end_dispatch : forall w a ts ty, quiet w = true ->
  dispatch w (EAttackEnd a ts ty) =
    map (mk_call OnAfterAttack 0) (filter (gate OnAfterAttack false) (attached w a)) ++
    flat_map (fun t => map (mk_call OnAfterBeingAttacked 0)
                           (filter (gate OnAfterBeingAttacked false) (attached w t))) ts.
Proof.
  intros w a ts ty Hq; rewrite (dispatch_is_pure _ _ Hq); unfold pure_dispatch, slots_of, attackEnd, plain.
  cbn [flat_map]; rewrite slot_calls_single, flat_map_map_in; f_equal.
  apply flat_map_ext; intros t; apply slot_calls_single.
Qed.

(* hit dispatch: instance by instance, the All variant and then (qualified attack types only) the
   plain variant; attacker's instances first, then the defender's; in snapshot state only instances
   that may modify snapshots *)
Definition hit_calls (kAll kPlain : cb) (q sn : bool) (i : inst) : list call :=
  if sn && negb (c_snap (i_cfg i)) then []
  else (if has i kAll then [mk_call kAll 0 i] else []) ++
       (if has i kPlain && q then [mk_call kPlain 0 i] else []).

Lemma slot_calls_hit : forall w u sn kAll kPlain q,
  slot_calls w (mkSlot u sn ((kAll, 0) :: when q kPlain)) =
  flat_map (hit_calls kAll kPlain q sn) (attached w u).
Proof.
  intros w u sn kAll kPlain q; unfold slot_calls; cbn [s_snapshot s_cbs s_unit].
  apply flat_map_ext; intros i; unfold inst_calls, hit_calls.
  destruct (sn && negb (c_snap (i_cfg i))); [reflexivity|].
  destruct q; cbn [when flat_map fst snd]; rewrite ?app_nil_r.
  - rewrite andb_true_r; reflexivity.
  - rewrite andb_false_r, app_nil_r; reflexivity.
Qed.

Theorem hit_start_dispatch : forall w a d ty sn v, quiet w = true ->
  dispatch w (EHitStart a d ty sn v) =
    flat_map (hit_calls OnBeforeHitAll OnBeforeHit (is_qualified ty) sn) (attached w a) ++
    flat_map (hit_calls OnBeforeBeingHitAll OnBeforeBeingHit (is_qualified ty) sn) (attached w d).
Proof.
  intros w a d ty sn v Hq; rewrite (dispatch_is_pure _ _ Hq); unfold pure_dispatch, slots_of, hitStart.
  cbv zeta; cbn [flat_map]; rewrite !slot_calls_hit, app_nil_r; reflexivity.
Qed.
Theorem hit_end_dispatch : forall w a d ty sn, quiet w = true ->
  dispatch w (EHitEnd a d ty sn) =
    flat_map (hit_calls OnAfterHitAll OnAfterHit (is_qualified ty) sn) (attached w a) ++
    flat_map (hit_calls OnAfterBeingHitAll OnAfterBeingHit (is_qualified ty) sn) (attached w d).
Proof.
  intros w a d ty sn Hq; rewrite (dispatch_is_pure _ _ Hq); unfold pure_dispatch, slots_of, hitEnd.
  cbv zeta; cbn [flat_map]; rewrite !slot_calls_hit, app_nil_r; reflexivity.
Qed.

(* death and break: victim first, then the unit that caused it, told who the victim is *)
Theorem target_death_dispatch : forall w t k, quiet w = true ->
  dispatch w (ETargetDeath t k) =
    map (mk_call OnBeforeDying 0) (filter (gate OnBeforeDying false) (attached w t)) ++
    map (mk_call OnTriggerDeath t) (filter (gate OnTriggerDeath false) (attached w k)).
Proof.
  intros w t k Hq; rewrite (dispatch_is_pure _ _ Hq); unfold pure_dispatch, slots_of, targetDeath, plain.
  cbn [flat_map]; rewrite !slot_calls_single, app_nil_r; reflexivity.
Qed.
Theorem stance_break_dispatch : forall w t s, quiet w = true ->
  dispatch w (EStanceBreak t s) =
    map (mk_call OnBeforeBeingBreak 0) (filter (gate OnBeforeBeingBreak false) (attached w t)) ++
    map (mk_call OnTriggerBreak t) (filter (gate OnTriggerBreak false) (attached w s)) ++
    map (mk_call OnBeingBreak 0) (filter (gate OnBeingBreak false) (attached w t)).
Proof.
  intros w t s Hq; rewrite (dispatch_is_pure _ _ Hq); unfold pure_dispatch, slots_of, stanceBreak, plain.
  cbn [flat_map]; rewrite !slot_calls_single, app_nil_r; reflexivity.
Qed.

(* ------------------------------------------------------------------------------------------ *)
(* well-formed worlds: what AddModifier / RemoveSelf maintain.  Tags identify instances, an instance
   sits in the list of its owner and nowhere else. *)

Record wf (w : world) : Prop := mkWf {
  wf_keys : NoDup (map fst (w_att w));
  wf_nodup : forall u, NoDup (map i_id (attached w u));
  wf_apart : forall u u' i i', In i (attached w u) -> In i' (attached w u') -> i_id i = i_id i' -> u = u';
  wf_fresh : forall u i, In i (attached w u) -> i_id i < w_next w;
  wf_owner : forall u i, In i (attached w u) -> i_owner i = u }.

Lemma lookup_update : forall m u l u', lookup (update m u l) u' = if u' =? u then l else lookup m u'.
Proof.
  intros m u l u'; induction m as [|[v l0] r IH].
  - cbn [update lookup]; rewrite (Z.eqb_sym u u'); reflexivity.
  - cbn [update]; destruct (v =? u) eqn:Hvu.
    + apply Z.eqb_eq in Hvu; subst v; cbn [lookup]; rewrite (Z.eqb_sym u u').
      destruct (u' =? u); reflexivity.
    + cbn [lookup]; destruct (v =? u') eqn:Hvu'.
      * apply Z.eqb_eq in Hvu'; subst v; rewrite Hvu; reflexivity.
      * exact IH.
Qed.

Lemma update_keys : forall m u l, In u (map fst m) -> map fst (update m u l) = map fst m.
Proof.
  intros m u l; induction m as [|[v l0] r IH]; intros Hin; [destruct Hin|].
  cbn [update]; destruct (v =? u) eqn:Hvu; [reflexivity|].
  cbn [map fst]; f_equal; apply IH.
  destruct Hin as [Hin|Hin]; [|exact Hin].
  cbn [fst] in Hin; subst v; rewrite Z.eqb_refl in Hvu; discriminate Hvu.
Qed.
Lemma update_keys_new : forall m u l, ~ In u (map fst m) -> map fst (update m u l) = map fst m ++ [u].
Proof.
  intros m u l; induction m as [|[v l0] r IH]; intros Hn; [reflexivity|].
  cbn [update]; destruct (v =? u) eqn:Hvu.
  - apply Z.eqb_eq in Hvu; subst v; exfalso; apply Hn; left; reflexivity.
  - cbn [map fst app]; f_equal; apply IH; intros Hin; apply Hn; right; exact Hin.
Qed.
Lemma nodup_snoc : forall (l : list Z) u, NoDup l -> ~ In u l -> NoDup (l ++ [u]).
Proof.
  intros l u Hn; induction Hn as [|v r Hv Hr IH]; intros Hnin.
  - cbn [app]; constructor; [intros []|constructor].
  - cbn [app]; constructor.
    + intros Hin; apply in_app_or in Hin; destruct Hin as [Hin|[Hin|[]]].
      * exact (Hv Hin).
      * subst v; apply Hnin; left; reflexivity.
    + apply IH; intros Hin; apply Hnin; right; exact Hin.
Qed.
Lemma update_nodup : forall m u l, NoDup (map fst m) -> NoDup (map fst (update m u l)).
Proof.
  intros m u l Hn; destruct (in_dec Z.eq_dec u (map fst m)) as [Hin|Hnin].
  - rewrite (update_keys m u l Hin); exact Hn.
  - rewrite (update_keys_new m u l Hnin); apply nodup_snoc; assumption.
Qed.

Lemma attached_set : forall w u l u', attached (set_attached w u l) u' = if u' =? u then l else attached w u'.
Proof. intros; unfold attached, set_attached; cbn [w_att]; apply lookup_update. Qed.

(* an entry of the table is what lookup finds *)
Lemma lookup_entry : forall m u l, NoDup (map fst m) -> In (u, l) m -> lookup m u = l.
Proof.
  intros m u l; induction m as [|[v l0] r IH]; intros Hn Hin; [destruct Hin|].
  cbn [map fst] in Hn; inversion Hn as [|? ? Hv Hr]; subst.
  cbn [lookup]; destruct Hin as [Heq|Hin].
  - injection Heq as Hvu Hl; subst; rewrite Z.eqb_refl; reflexivity.
  - destruct (v =? u) eqn:Hvu; [|exact (IH Hr Hin)].
    apply Z.eqb_eq in Hvu; subst v; exfalso; apply Hv.
    change u with (fst (u, l)); apply in_map; exact Hin.
Qed.

Lemma find_att_spec : forall t m i, find_att t m = Some i ->
  exists u l, In (u, l) m /\ In i l /\ i_id i = t.
Proof.
  intros t m i; induction m as [|[v l0] r IH]; intros Hf; [discriminate Hf|].
  cbn [find_att] in Hf; destruct (find (fun j => i_id j =? t) l0) as [j|] eqn:Hj.
  - injection Hf as Hji; subst j; apply find_some in Hj; destruct Hj as [Hin Heq].
    apply Z.eqb_eq in Heq; exists v, l0; repeat split; [left; reflexivity|exact Hin|exact Heq].
  - destruct (IH Hf) as [u [l [Hin [Hil Hid]]]]; exists u, l; repeat split; [right; exact Hin|exact Hil|exact Hid].
Qed.

Lemma remove_tag_incl : forall t l x, In x (remove_tag t l) -> In x l.
Proof.
  intros t l; induction l as [|i r IH]; intros x Hx; [exact Hx|].
  cbn [remove_tag] in Hx; destruct (i_id i =? t); [right; exact Hx|].
  destruct Hx as [Hx|Hx]; [left; exact Hx|right; exact (IH x Hx)].
Qed.
Lemma remove_tag_nodup : forall t l, NoDup (map i_id l) -> NoDup (map i_id (remove_tag t l)).
Proof.
  intros t l; induction l as [|i r IH]; intros Hn; [exact Hn|].
  cbn [map] in Hn; inversion Hn as [|? ? Hi Hr]; subst.
  cbn [remove_tag]; destruct (i_id i =? t); [exact Hr|].
  cbn [map]; constructor; [|exact (IH Hr)].
  intros Hin; apply Hi; apply in_map_iff in Hin; destruct Hin as [x [Hx Hin]].
  apply in_map_iff; exists x; split; [exact Hx|exact (remove_tag_incl t r x Hin)].
Qed.

Lemma wf_attach : forall w u c, wf w -> wf (snd (do_attach w u c)).
Proof.
  intros w u c Hw; unfold do_attach.
  destruct (existsb (Z.eqb u) (w_valid w)); [|exact Hw].
  destruct (nth_error (w_cat w) c) as [cf|]; [|exact Hw].
  cbn [snd]; set (i := mkInst (w_next w) u c cf).
  assert (Hatt : forall u', attached (mkW (w_cat w) (w_valid w) (update (w_att w) u (attached w u ++ [i])) (w_next w + 1)) u'
                      = if u' =? u then attached w u ++ [i] else attached w u').
  { intros u'; unfold attached at 1; cbn [w_att]; apply lookup_update. }
  destruct Hw as [Hk Hn Ha Hf Ho]; constructor; cbn [w_att w_next].
  - apply update_nodup; exact Hk.
  - intros u'; rewrite Hatt; destruct (u' =? u); [|apply Hn].
    rewrite map_app; cbn [map]; apply nodup_snoc; [apply Hn|].
    intros Hin; apply in_map_iff in Hin; destruct Hin as [x [Hx Hin]].
    specialize (Hf u x Hin); cbn [i i_id] in Hx; lia.
  - intros u1 u2 i1 i2; rewrite !Hatt; intros H1 H2 Heq.
    destruct (u1 =? u) eqn:E1; destruct (u2 =? u) eqn:E2.
    + apply Z.eqb_eq in E1, E2; congruence.
    + apply Z.eqb_eq in E1; subst u1; apply in_app_or in H1; destruct H1 as [H1|[H1|[]]].
      * exact (Ha _ _ _ _ H1 H2 Heq).
      * subst i1; specialize (Hf u2 i2 H2); cbn [i i_id] in Heq; lia.
    + apply Z.eqb_eq in E2; subst u2; apply in_app_or in H2; destruct H2 as [H2|[H2|[]]].
      * exact (Ha _ _ _ _ H1 H2 Heq).
      * subst i2; specialize (Hf u1 i1 H1); cbn [i i_id] in Heq; lia.
    + exact (Ha _ _ _ _ H1 H2 Heq).
  - intros u' x; rewrite Hatt; destruct (u' =? u); intros Hin.
    + apply in_app_or in Hin; destruct Hin as [Hin|[Hin|[]]].
      * specialize (Hf u x Hin); lia.
      * subst x; cbn [i i_id]; lia.
    + specialize (Hf u' x Hin); lia.
  - intros u' x; rewrite Hatt; destruct (u' =? u) eqn:E; intros Hin.
    + apply Z.eqb_eq in E; subst u'; apply in_app_or in Hin; destruct Hin as [Hin|[Hin|[]]].
      * exact (Ho u x Hin).
      * subst x; reflexivity.
    + exact (Ho u' x Hin).
Qed.

Lemma wf_detach : forall w t, wf w -> wf (snd (do_detach w t)).
Proof.
  intros w t Hw; unfold do_detach.
  destruct (find_att t (w_att w)) as [i|] eqn:Hf; [|exact Hw].
  cbn [snd]; set (o := i_owner i).
  destruct Hw as [Hk Hn Ha Hfr Ho]; constructor.
  - unfold set_attached; cbn [w_att]; apply update_nodup; exact Hk.
  - intros u'; rewrite attached_set; destruct (u' =? o); [apply remove_tag_nodup|]; apply Hn.
  - intros u1 u2 i1 i2; rewrite !attached_set; intros H1 H2 Heq.
    assert (H1' : In i1 (attached w u1)).
    { destruct (u1 =? o) eqn:E; [apply Z.eqb_eq in E; subst u1; exact (remove_tag_incl _ _ _ H1)|exact H1]. }
    assert (H2' : In i2 (attached w u2)).
    { destruct (u2 =? o) eqn:E; [apply Z.eqb_eq in E; subst u2; exact (remove_tag_incl _ _ _ H2)|exact H2]. }
    exact (Ha _ _ _ _ H1' H2' Heq).
  - intros u' x; rewrite attached_set; unfold set_attached; cbn [w_next]; intros Hin.
    destruct (u' =? o) eqn:E; [apply Z.eqb_eq in E; subst u'; apply (Hfr o); exact (remove_tag_incl _ _ _ Hin)|exact (Hfr u' x Hin)].
  - intros u' x; rewrite attached_set; intros Hin.
    destruct (u' =? o) eqn:E; [apply Z.eqb_eq in E; subst u'; apply (Ho o); exact (remove_tag_incl _ _ _ Hin)|exact (Ho u' x Hin)].
Qed.

Lemma wf_actions : forall self l w, wf w -> wf (snd (do_actions self w l)).
Proof.
  intros self l; induction l as [|a r IH]; intros w Hw; [exact Hw|].
  cbn [do_actions].
  assert (Ha : wf (snd (do_action self w a))).
  { destruct a; cbn [do_action]; [apply wf_detach|apply wf_detach|apply wf_attach|apply wf_attach]; exact Hw. }
  destruct (do_action self w a) as [c1 w1]; cbn [snd] in Ha.
  specialize (IH w1 Ha); destruct (do_actions self w1 r) as [c2 w2]; exact IH.
Qed.

Lemma wf_invoke : forall k a i w, wf w -> wf (snd (invoke k a i w)).
Proof.
  intros k a i w Hw; unfold invoke; destruct (has i k); [|exact Hw].
  pose proof (wf_actions i (script_of i k) w Hw) as Hd.
  destruct (do_actions i w (script_of i k)) as [cs w']; exact Hd.
Qed.
Lemma wf_invoke_all : forall ks i w, wf w -> wf (snd (invoke_all ks i w)).
Proof.
  intros ks i; induction ks as [|[k a] r IH]; intros w Hw; [exact Hw|].
  cbn [invoke_all]. pose proof (wf_invoke k a i w Hw) as Hi.
  destruct (invoke k a i w) as [c1 w1]; cbn [snd] in Hi.
  specialize (IH w1 Hi); destruct (invoke_all r i w1) as [c2 w2]; exact IH.
Qed.
Lemma wf_walk : forall sn ks copy w, wf w -> wf (snd (walk sn ks copy w)).
Proof.
  intros sn ks copy; induction copy as [|i r IH]; intros w Hw; [exact Hw|].
  cbn [walk].
  assert (Hv : wf (snd (visit sn ks i w))).
  { unfold visit; destruct (sn && negb (c_snap (i_cfg i))); [exact Hw|apply wf_invoke_all; exact Hw]. }
  destruct (visit sn ks i w) as [c1 w1]; cbn [snd] in Hv.
  specialize (IH w1 Hv); destruct (walk sn ks r w1) as [c2 w2]; exact IH.
Qed.
Lemma wf_run_slots : forall ss w, wf w -> wf (snd (run_slots w ss)).
Proof.
  intros ss; induction ss as [|s r IH]; intros w Hw; [exact Hw|].
  cbn [run_slots]; unfold run_slot.
  pose proof (wf_walk (s_snapshot s) (s_cbs s) (attached w (s_unit s)) w Hw) as Hs.
  destruct (walk (s_snapshot s) (s_cbs s) (attached w (s_unit s)) w) as [c1 w1]; cbn [snd] in Hs.
  specialize (IH w1 Hs); destruct (run_slots w1 r) as [c2 w2]; exact IH.
Qed.
Lemma wf_walk_limbo : forall yes copy w, wf w -> wf (snd (fst (walk_limbo yes copy w))).
Proof.
  intros yes copy; induction copy as [|i r IH]; intros w Hw; [exact Hw|].
  cbn [walk_limbo]; destruct (has i OnLimboWaitHeal); [|exact (IH w Hw)].
  pose proof (wf_invoke OnLimboWaitHeal 0 i w Hw) as Hi.
  destruct (invoke OnLimboWaitHeal 0 i w) as [c1 w1]; cbn [snd] in Hi.
  destruct (existsb (Z.eqb (i_id i)) yes); [exact Hi|].
  specialize (IH w1 Hi); destruct (walk_limbo yes r w1) as [[c2 w2] v]; exact IH.
Qed.

Theorem wf_run_event : forall w e, wf w -> wf (world_after w e).
Proof.
  intros w e Hw; unfold world_after.
  destruct e;
    try (unfold run_event;
         match goal with |- context [run_slots w ?ss] =>
           pose proof (wf_run_slots ss w Hw) as Hs; destruct (run_slots w ss) as [cs w']; exact Hs end).
  unfold run_event. pose proof (wf_walk_limbo yes (attached w target) w Hw) as Hl.
  destruct (walk_limbo yes (attached w target) w) as [[cs w'] v]; exact Hl.
Qed.

Theorem wf_mk_world : forall cat valid adds, wf (mk_world cat valid adds).
Proof.
  intros cat valid adds; unfold mk_world.
  assert (H0 : wf (mkW cat (dedup valid []) [] 0)).
  { constructor; cbn; try constructor; intros; contradiction. }
  revert H0; generalize (mkW cat (dedup valid []) [] 0) as w.
  induction adds as [|[u c] r IH]; intros w Hw; [exact Hw|].
  cbn [attach_all]; apply IH, wf_attach; exact Hw.
Qed.

(* ------------------------------------------------------------------------------------------ *)
(* EXACTLY ONCE: in a well-formed quiet world, callback k reaches the instance i attached to unit u
   as many times as u plays k's role in the event (once for a healer, a defender, a killer ...; once
   per occurrence in the target list), provided i is eligible; otherwise never. *)

Definition hits (k : cb) (t : Z) (cs : list call) : nat :=
  length (filter (fun c => cb_eqb (c_cb c) k && (c_id c =? t)) cs).

Lemma filter_id_unique : forall l i, NoDup (map i_id l) -> In i l ->
  filter (fun j => i_id j =? i_id i) l = [i].
Proof.
  intros l i; induction l as [|x r IH]; intros Hn Hin; [destruct Hin|].
  cbn [map] in Hn; inversion Hn as [|? ? Hx Hr]; subst.
  cbn [filter]; destruct Hin as [Heq|Hin].
  - subst x; rewrite Z.eqb_refl; f_equal.
    apply filter_none_in; intros y Hy; apply Z.eqb_neq; intros Heq; apply Hx.
    rewrite <- Heq; apply in_map; exact Hy.
  - destruct (i_id x =? i_id i) eqn:E; [|exact (IH Hr Hin)].
    apply Z.eqb_eq in E; exfalso; apply Hx; rewrite E; apply in_map; exact Hin.
Qed.

Theorem exactly_once : forall w e k u i, wf w -> quiet w = true -> (forall t y, e <> ELimbo t y) ->
  In i (attached w u) ->
  hits k (i_id i) (dispatch w e) =
  if ekind_eqb (kind_of e) (cb_event k) && eligible e k i
  then count_occ Z.eq_dec (role_units e (cb_role k)) u
  else 0%nat.
Proof.
  intros w e k u i Hw Hq Hnl Hin; unfold hits.
  assert (Hf : forall cs, filter (fun c => cb_eqb (c_cb c) k && (c_id c =? i_id i)) cs =
                          filter (fun c => c_id c =? i_id i) (proj k cs)).
  { intros cs; unfold proj; induction cs as [|c r IH]; [reflexivity|].
    cbn [filter]; destruct (cb_eqb (c_cb c) k); cbn [andb filter]; rewrite IH; reflexivity. }
  rewrite Hf, (dispatch_is_pure w e Hq), (role_table_pure w e k Hnl); unfold expected.
  destruct (ekind_eqb (kind_of e) (cb_event k)); [|reflexivity]; cbn [andb].
  induction (role_units e (cb_role k)) as [|u' r IH].
  - destruct (eligible e k i); reflexivity.
  - cbn [flat_map count_occ]; rewrite filter_app, app_length, IH; clear IH.
    assert (Hm : forall l, filter (fun c => c_id c =? i_id i) (map (mk_call k (arg_of e k)) (filter (eligible e k) l)) =
                           map (mk_call k (arg_of e k)) (filter (eligible e k) (filter (fun j => i_id j =? i_id i) l))).
    { intros l; induction l as [|x l' IHl]; [reflexivity|].
      cbn [filter]; destruct (eligible e k x) eqn:Ex; destruct (i_id x =? i_id i) eqn:Ei;
        cbn [map filter mk_call c_id]; rewrite ?Ex, ?Ei; cbn [map]; rewrite IHl; reflexivity. }
    rewrite Hm; destruct (Z.eq_dec u' u) as [Heq|Hne].
    + subst u'; rewrite (filter_id_unique _ i (wf_nodup w Hw u) Hin); cbn [filter].
      destruct (eligible e k i); reflexivity.
    + rewrite (filter_none_in (fun j => i_id j =? i_id i)); [destruct (eligible e k i); reflexivity|].
      intros j Hj; apply Z.eqb_neq; intros Heq; apply Hne.
      exact (wf_apart w Hw u' u j i Hj Hin Heq).
Qed.

(* ------------------------------------------------------------------------------------------ *)
(* the FIRST walk of an event starts in the world the event found, so the callbacks of the first role
   (rank 0: healer side of a heal, attacker side of an attack / hit, the victim's OnBeforeDying, the
   OnBeforeBeingBreak round, every single-role event) obey the table in EVERY world, scripted or not *)

Lemma walks_keys : forall ss w c, In c (walks w ss) -> exists s, In s ss /\ In (c_cb c) (map fst (s_cbs s)).
Proof.
  intros ss; induction ss as [|s r IH]; intros w c Hc; [destruct Hc|].
  cbn [walks] in Hc; apply in_app_or in Hc; destruct Hc as [Hc|Hc].
  - exists s; split; [left; reflexivity|exact (slot_calls_keys w s c Hc)].
  - destruct (IH _ c Hc) as [s' [Hs' Hk]]; exists s'; split; [right; exact Hs'|exact Hk].
Qed.

Definition later_roles (ss : list slot) : Prop :=
  Forall (fun s => Forall (fun p => (1 <= rank (fst p))%nat) (s_cbs s)) ss.

Lemma proj_later_walks : forall k w ss, rank k = 0%nat -> later_roles ss -> proj k (walks w ss) = [].
Proof.
  intros k w ss Hk Hl; unfold proj; apply filter_none_in; intros c Hc.
  destruct (walks_keys ss w c Hc) as [s [Hs Hin]].
  unfold later_roles in Hl; rewrite Forall_forall in Hl; specialize (Hl s Hs).
  rewrite Forall_forall in Hl; apply in_map_iff in Hin; destruct Hin as [p [Hp Hin]].
  specialize (Hl p Hin); apply cb_eqb_neq; intros Heq; rewrite Hp, Heq in Hl; lia.
Qed.
Lemma proj_later_slots : forall k w ss, rank k = 0%nat -> later_roles ss -> proj k (flat_map (slot_calls w) ss) = [].
Proof.
  intros k w ss Hk Hl; unfold proj; apply filter_none_in; intros c Hc.
  apply in_flat_map in Hc; destruct Hc as [s [Hs Hc]].
  pose proof (slot_calls_keys w s c Hc) as Hin.
  unfold later_roles in Hl; rewrite Forall_forall in Hl; specialize (Hl s Hs).
  rewrite Forall_forall in Hl; apply in_map_iff in Hin; destruct Hin as [p [Hp Hin]].
  specialize (Hl p Hin); apply cb_eqb_neq; intros Heq; rewrite Hp, Heq in Hl; lia.
Qed.

Lemma slots_later_roles : forall e, later_roles (tl (slots_of e)).
Proof.
  destruct e; cbn [slots_of];
    unfold actionStart, actionEnd, hpChange, targetDeath, energyChange, stanceChange, stanceBreak,
           stanceBreakEnd, breakExtend, shieldAdded, shieldRemoved, attackStart, attackEnd, hitStart, hitEnd,
           healStart, healEnd, tick, plain, later_roles; cbv zeta;
    repeat match goal with
           | |- context [is_qualified ?t] => destruct (is_qualified t)
           | |- context [?p =? 3] => destruct (p =? 3)
           | |- context [?p =? 8] => destruct (p =? 8)
           end; cbn [tl];
    repeat (apply Forall_cons; [repeat constructor|]);
    first [ apply Forall_nil | apply Forall_map, Forall_forall; intros; repeat constructor ].
Qed.

Theorem first_role_any_world : forall w e k, (forall t y, e <> ELimbo t y) -> rank k = 0%nat ->
  proj k (external (dispatch w e)) = expected w e k.
Proof.
  intros w e k Hnl Hk.
  rewrite (dispatch_any_world w e Hnl), <- (role_table_pure w e k Hnl).
  assert (Hp : pure_dispatch w e = flat_map (slot_calls w) (slots_of e)).
  { destruct e; try reflexivity. exfalso; exact (Hnl _ _ eq_refl). }
  rewrite Hp; pose proof (slots_later_roles e) as Hl.
  destruct (slots_of e) as [|s r]; [reflexivity|].
  cbn [tl] in Hl; cbn [walks flat_map]; rewrite !proj_app.
  rewrite (proj_later_walks k _ r Hk Hl), (proj_later_slots k w r Hk Hl); reflexivity.
Qed.

(* ------------------------------------------------------------------------------------------ *)
(* THE STATEMENTS (restated in Props/C17.v and Props/C04.v) *)

(* the role table, for worlds whose callbacks only record *)
Definition role_table_statement : Prop :=
  (* (a) such a world does what [pure_dispatch] says and is not changed by an event *)
  (forall w e, quiet w = true -> dispatch w e = pure_dispatch w e /\ world_after w e = w) /\
  (* (b) THE TABLE: the calls of callback kind k are exactly one call per (unit playing k's role in the
     event, in the event's order; eligible instance attached to that unit, in attachment order) *)
  (forall w e k, (forall t y, e <> ELimbo t y) -> proj k (pure_dispatch w e) = expected w e k) /\
  (* (c) and nothing else: every call belongs to the event its doc comment names, goes to an eligible
     instance attached to a unit playing its role, and carries the documented argument *)
  (forall w e c, In c (pure_dispatch w e) ->
     kind_of e = cb_event (c_cb c) /\
     exists u i, In u (role_units e (cb_role (c_cb c))) /\ In i (attached w u) /\
                 eligible e (c_cb c) i = true /\ c = mk_call (c_cb c) (arg_of e (c_cb c)) i) /\
  (* (d) role order across the kinds of one event (attacker before targets, healer before receiver,
     victim before killer, OnBeforeBeingBreak / OnTriggerBreak / OnBeingBreak) *)
  (forall w e, StronglySorted rank_le (pure_dispatch w e)) /\
  (* (e) the plain hit callback follows the All variant on the same instance *)
  (forall w e k k', twin k = Some k' -> (forall t y, e <> ELimbo t y) ->
     projp k k' (pure_dispatch w e) = expected_pair w e k k') /\
  (* (f) exactly once per (event, role occurrence, attached eligible instance), never otherwise *)
  (forall w e k u i, wf w -> quiet w = true -> (forall t y, e <> ELimbo t y) -> In i (attached w u) ->
     hits k (i_id i) (dispatch w e) =
     if ekind_eqb (kind_of e) (cb_event k) && eligible e k i
     then count_occ Z.eq_dec (role_units e (cb_role k)) u else 0%nat) /\
  (* (g) the plain hit callbacks only for qualified attack types; snapshot events only reach instances
     that may modify snapshots *)
  (forall w e k, quiet w = true -> qualified_only k = true -> qualified_of e = false ->
     proj k (dispatch w e) = []) /\
  (forall w e c, quiet w = true -> snapshot_of e = true -> In c (dispatch w e) ->
     exists u i, In u (role_units e (cb_role (c_cb c))) /\ In i (attached w u) /\
                 c = mk_call (c_cb c) (arg_of e (c_cb c)) i /\ c_snap (i_cfg i) = true).

Theorem role_table_holds : role_table_statement.
Proof.
  unfold role_table_statement.
  split; [intros w e Hq; split; [apply dispatch_is_pure|apply world_after_quiet]; exact Hq|].
  split; [exact role_table_pure|].
  split; [exact calls_only_for_roles|].
  split; [exact rank_order_pure|].
  split; [exact pairing_pure|].
  split; [exact exactly_once|].
  split; [exact unqualified_hits_skip_plain_callbacks|exact snapshot_reaches_only_modify_snapshot].
Qed.

(* every world, also with callbacks that detach / attach instances while the manager walks *)
Definition any_world_statement : Prop :=
  (* (h) LimboWaitHeal: the callbacks of the unit in limbo, in attachment order, up to the first that
     answers true; the verdict is the disjunction of the answers (of the candidates = of those called) *)
  (forall w t yes,
     external (dispatch w (ELimbo t yes)) = expected_limbo w t yes /\
     verdict w (ELimbo t yes) = expected_verdict w t yes /\
     verdict w (ELimbo t yes) =
       existsb (fun c => existsb (Z.eqb (c_id c)) yes) (external (dispatch w (ELimbo t yes)))) /\
  (* (i) an event is a sequence of walks; each visits exactly the eligible instances attached when IT
     started, whatever the callbacks do meanwhile *)
  (forall w e, (forall t y, e <> ELimbo t y) -> external (dispatch w e) = walks w (slots_of e)) /\
  (forall sn ks copy w, external_keys ks ->
     external (fst (walk sn ks copy w)) = flat_map (inst_calls sn ks) copy) /\
  (* so an event that is one walk obeys the table in every world, and so do the callbacks of the first
     role of every event (healer side of a heal, attacker side of an attack / hit, OnBeforeDying, ...) *)
  (forall w e s, slots_of e = [s] -> external (dispatch w e) = pure_dispatch w e) /\
  (forall w e k, (forall t y, e <> ELimbo t y) -> rank k = 0%nat ->
     proj k (external (dispatch w e)) = expected w e k) /\
  (* (j) the number the emitter of a mutable event reads back is the fold of the callbacks'
     adjustments in call order *)
  (forall w e, (forall t y, e <> ELimbo t y) ->
     value_after w e = final_value (value0 e) (external (dispatch w e))) /\
  (* (k) tags stay unique, an instance stays in its owner's list only *)
  (forall cat valid adds, wf (mk_world cat valid adds)) /\
  (forall w e, wf w -> wf (world_after w e)).

Theorem any_world_holds : any_world_statement.
Proof.
  unfold any_world_statement.
  split; [intros w t yes; split; [exact (proj1 (limbo_any_world w t yes))|];
          split; [exact (proj2 (limbo_any_world w t yes))|apply limbo_verdict_is_disjunction]|].
  split; [exact dispatch_any_world|].
  split; [exact walk_visits_its_copy|].
  split; [exact single_walk_any_world|].
  split; [exact first_role_any_world|].
  split; [exact value_is_fold_of_adjustments|].
  split; [exact wf_mk_world|exact wf_run_event].
Qed.

(* C17: heal dispatch *)
Definition heal_dispatch_statement : Prop :=
  forall w h t sn v, quiet w = true ->
    dispatch w (EHealStart h t sn v) =
      map (mk_call OnBeforeDealHeal 0) (filter (gate OnBeforeDealHeal sn) (attached w h)) ++
      map (mk_call OnBeforeBeingHeal 0) (filter (gate OnBeforeBeingHeal sn) (attached w t)) /\
    dispatch w (EHealEnd h t sn) =
      map (mk_call OnAfterDealHeal 0) (filter (gate OnAfterDealHeal sn) (attached w h)) ++
      map (mk_call OnAfterBeingHeal 0) (filter (gate OnAfterBeingHeal sn) (attached w t)) /\
    value_after w (EHealStart h t sn v) = final_value v (dispatch w (EHealStart h t sn v)).

Theorem heal_dispatch_holds : heal_dispatch_statement.
Proof.
  intros w h t sn v Hq.
  split; [apply heal_start_dispatch; exact Hq|].
  split; [apply heal_end_dispatch; exact Hq|].
  rewrite final_value_external; apply (value_is_fold_of_adjustments w (EHealStart h t sn v)).
  intros t' y; discriminate.
Qed.

(* C04: attack and hit dispatch *)
Definition hit_dispatch_statement : Prop :=
  forall w a, quiet w = true ->
    (forall ts ty,
       dispatch w (EAttackStart a ts ty) =
         map (mk_call OnBeforeAttack 0) (filter (gate OnBeforeAttack false) (attached w a)) ++
         flat_map (fun t => map (mk_call OnBeforeBeingAttacked 0)
                                (filter (gate OnBeforeBeingAttacked false) (attached w t))) ts /\
       dispatch w (EAttackEnd a ts ty) =
         map (mk_call OnAfterAttack 0) (filter (gate OnAfterAttack false) (attached w a)) ++
         flat_map (fun t => map (mk_call OnAfterBeingAttacked 0)
                                (filter (gate OnAfterBeingAttacked false) (attached w t))) ts) /\
    (forall d ty sn v,
       dispatch w (EHitStart a d ty sn v) =
         flat_map (hit_calls OnBeforeHitAll OnBeforeHit (is_qualified ty) sn) (attached w a) ++
         flat_map (hit_calls OnBeforeBeingHitAll OnBeforeBeingHit (is_qualified ty) sn) (attached w d) /\
       dispatch w (EHitEnd a d ty sn) =
         flat_map (hit_calls OnAfterHitAll OnAfterHit (is_qualified ty) sn) (attached w a) ++
         flat_map (hit_calls OnAfterBeingHitAll OnAfterBeingHit (is_qualified ty) sn) (attached w d) /\
       value_after w (EHitStart a d ty sn v) = final_value v (dispatch w (EHitStart a d ty sn v))) /\
    (forall t,
       dispatch w (ETargetDeath t a) =
         map (mk_call OnBeforeDying 0) (filter (gate OnBeforeDying false) (attached w t)) ++
         map (mk_call OnTriggerDeath t) (filter (gate OnTriggerDeath false) (attached w a)) /\
       dispatch w (EStanceBreak t a) =
         map (mk_call OnBeforeBeingBreak 0) (filter (gate OnBeforeBeingBreak false) (attached w t)) ++
         map (mk_call OnTriggerBreak t) (filter (gate OnTriggerBreak false) (attached w a)) ++
         map (mk_call OnBeingBreak 0) (filter (gate OnBeingBreak false) (attached w t))).

Theorem hit_dispatch_holds : hit_dispatch_statement.
Proof.
  intros w a Hq.
  split; [intros ts ty; split; [apply attack_start_dispatch|apply attack_end_dispatch]; exact Hq|].
  split.
  - intros d ty sn v.
    split; [apply hit_start_dispatch; exact Hq|].
    split; [apply hit_end_dispatch; exact Hq|].
    rewrite final_value_external; apply (value_is_fold_of_adjustments w (EHitStart a d ty sn v)).
    intros t' y; discriminate.
  - intros t; split; [apply target_death_dispatch|apply stance_break_dispatch]; exact Hq.
Qed.

(* ------------------------------------------------------------------------------------------ *)
(* non-vacuity: a world with 3 units and 2-3 modifiers each (config 0: every callback; config 1:
   every callback, may modify snapshots; config 2: a few receiver-side callbacks); unit 1 heals
   units 2 and 3, unit 1 attacks units 2 and 3 *)
Definition demo_cat : list cfg :=
  [mkCfg all_cbs false [];
   mkCfg all_cbs true [];
   mkCfg [OnBeforeBeingHeal; OnAfterBeingHeal; OnBeforeBeingAttacked; OnBeforeBeingHit; OnLimboWaitHeal] false []].
Definition demo_world : world :=
  mk_world demo_cat [1; 2; 3]
           [(1, 0%nat); (2, 0%nat); (1, 1%nat); (3, 2%nat); (2, 2%nat); (3, 0%nat); (2, 1%nat); (3, 1%nat)].
Definition short (cs : list call) : list (cb * Z * Z) := map (fun c => (c_cb c, c_id c, c_owner c)) cs.

Definition demo_heal_statement : Prop :=
  quiet demo_world = true /\ wf demo_world /\
  lists demo_world = [[(0, 0%nat); (2, 1%nat)]; [(1, 0%nat); (4, 2%nat); (6, 1%nat)]; [(3, 2%nat); (5, 0%nat); (7, 1%nat)]] /\
  (* unit 1 heals unit 2, then unit 3 *)
  short (dispatch demo_world (EHealStart 1 2 false 5)) =
    [(OnBeforeDealHeal, 0, 1); (OnBeforeDealHeal, 2, 1);
     (OnBeforeBeingHeal, 1, 2); (OnBeforeBeingHeal, 4, 2); (OnBeforeBeingHeal, 6, 2)] /\
  value_after demo_world (EHealStart 1 2 false 5) = 225 /\
  short (dispatch demo_world (EHealStart 1 3 false 5)) =
    [(OnBeforeDealHeal, 0, 1); (OnBeforeDealHeal, 2, 1);
     (OnBeforeBeingHeal, 3, 3); (OnBeforeBeingHeal, 5, 3); (OnBeforeBeingHeal, 7, 3)] /\
  short (dispatch demo_world (EHealEnd 1 3 false)) =
    [(OnAfterDealHeal, 0, 1); (OnAfterDealHeal, 2, 1);
     (OnAfterBeingHeal, 3, 3); (OnAfterBeingHeal, 5, 3); (OnAfterBeingHeal, 7, 3)] /\
  (* a snapshot heal reaches only the instances of config 1 *)
  short (dispatch demo_world (EHealStart 1 2 true 5)) = [(OnBeforeDealHeal, 2, 1); (OnBeforeBeingHeal, 6, 2)] /\
  (* a self-heal: both sides on the same instances *)
  short (dispatch demo_world (EHealStart 2 2 false 5)) =
    [(OnBeforeDealHeal, 1, 2); (OnBeforeDealHeal, 6, 2);
     (OnBeforeBeingHeal, 1, 2); (OnBeforeBeingHeal, 4, 2); (OnBeforeBeingHeal, 6, 2)] /\
  (* limbo: the second candidate answers true, the third is not asked *)
  short (dispatch demo_world (ELimbo 3 [5; 7])) = [(OnLimboWaitHeal, 3, 3); (OnLimboWaitHeal, 5, 3)] /\
  verdict demo_world (ELimbo 3 [5; 7]) = true /\
  verdict demo_world (ELimbo 3 []) = false.

Theorem demo_heal : demo_heal_statement.
Proof.
  unfold demo_heal_statement.
  split; [vm_compute; reflexivity|].
  split; [apply wf_mk_world|].
  repeat (split; [vm_compute; reflexivity|]); vm_compute; reflexivity.
Qed.

Definition demo_hit_statement : Prop :=
  quiet demo_world = true /\ wf demo_world /\
  (* unit 1 attacks units 2 and 3 with a NORMAL attack *)
  short (dispatch demo_world (EAttackStart 1 [2; 3] 1)) =
    [(OnBeforeAttack, 0, 1); (OnBeforeAttack, 2, 1);
     (OnBeforeBeingAttacked, 1, 2); (OnBeforeBeingAttacked, 4, 2); (OnBeforeBeingAttacked, 6, 2);
     (OnBeforeBeingAttacked, 3, 3); (OnBeforeBeingAttacked, 5, 3); (OnBeforeBeingAttacked, 7, 3)] /\
  short (dispatch demo_world (EHitStart 1 2 1 false 7)) =
    [(OnBeforeHitAll, 0, 1); (OnBeforeHit, 0, 1); (OnBeforeHitAll, 2, 1); (OnBeforeHit, 2, 1);
     (OnBeforeBeingHitAll, 1, 2); (OnBeforeBeingHit, 1, 2); (OnBeforeBeingHit, 4, 2);
     (OnBeforeBeingHitAll, 6, 2); (OnBeforeBeingHit, 6, 2)] /\
  (* a DOT hit (unqualified): only the All variants; in snapshot state only config 1 *)
  short (dispatch demo_world (EHitStart 1 3 4 false 7)) =
    [(OnBeforeHitAll, 0, 1); (OnBeforeHitAll, 2, 1); (OnBeforeBeingHitAll, 5, 3); (OnBeforeBeingHitAll, 7, 3)] /\
  short (dispatch demo_world (EHitStart 1 3 4 true 7)) = [(OnBeforeHitAll, 2, 1); (OnBeforeBeingHitAll, 7, 3)] /\
  short (dispatch demo_world (EAttackEnd 1 [2; 3] 1)) =
    [(OnAfterAttack, 0, 1); (OnAfterAttack, 2, 1);
     (OnAfterBeingAttacked, 1, 2); (OnAfterBeingAttacked, 6, 2);
     (OnAfterBeingAttacked, 5, 3); (OnAfterBeingAttacked, 7, 3)] /\
  (* unit 1 kills unit 2: the victim's callbacks, then the killer's, told who died *)
  map (fun c => (c_cb c, c_id c, c_owner c, c_arg c)) (dispatch demo_world (ETargetDeath 2 1)) =
    [(OnBeforeDying, 1, 2, 0); (OnBeforeDying, 6, 2, 0); (OnTriggerDeath, 0, 1, 2); (OnTriggerDeath, 2, 1, 2)].

Theorem demo_hit : demo_hit_statement.
Proof.
  unfold demo_hit_statement.
  split; [vm_compute; reflexivity|].
  split; [apply wf_mk_world|].
  repeat (split; [vm_compute; reflexivity|]); vm_compute; reflexivity.
Qed.

(* a world whose callbacks detach instances while the manager walks: instance 0's OnHPChange detaches
   instance 1 of the same unit, which is still called (the walk runs over the copy); instance 2's
   OnBeforeBeingAttacked detaches itself, so the second walk over unit 2 (listed twice) no longer sees it *)
Definition demo_cat2 : list cfg :=
  [mkCfg all_cbs false [(OnHPChange, [ADetach 1]); (OnBeforeBeingAttacked, [ADetachSelf])];
   mkCfg all_cbs false []].
Definition demo_world2 : world :=
  mk_world demo_cat2 [1; 2] [(1, 0%nat); (1, 1%nat); (2, 0%nat); (2, 1%nat)].
Definition demo_scripted_statement : Prop :=
  quiet demo_world2 = false /\
  short (dispatch demo_world2 (EHPChange 1)) = [(OnHPChange, 0, 1); (OnRemove, 1, 1); (OnHPChange, 1, 1)] /\
  lists (world_after demo_world2 (EHPChange 1)) = [[(0, 0%nat)]; [(2, 0%nat); (3, 1%nat)]] /\
  short (dispatch demo_world2 (EAttackStart 1 [2; 2] 1)) =
    [(OnBeforeAttack, 0, 1); (OnBeforeAttack, 1, 1);
     (OnBeforeBeingAttacked, 2, 2); (OnRemove, 2, 2); (OnBeforeBeingAttacked, 3, 2);
     (OnBeforeBeingAttacked, 3, 2)].
Theorem demo_scripted : demo_scripted_statement.
Proof. unfold demo_scripted_statement; repeat (split; [vm_compute; reflexivity|]); vm_compute; reflexivity. Qed.
