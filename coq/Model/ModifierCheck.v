(* Correspondence checker for Model/Modifier.v: runs the model on the harness's op list and
   compares, after every operation, the result, the full attached list of every unit and the
   ordered event stream with what the real manager produced. *)
From Coq Require Import List ZArith Bool String Floats.
From SR Require Import Base.CaseLib Model.Modifier.
Import ListNotations.
Open Scope Z_scope.

(* observable projection of an instance: info.Modifier as returned by ToModel *)
Inductive oinst := MI (tag name src dur : Z) (tickimm : bool) (cnt max cadd : Z) (candispel : bool).

Inductive oevent :=
| VCall (k : lkind) (tag : Z)
| VAdded (t : Z) (m : oinst) (chance : float)
| VResisted (t src n : Z) (chance base ehr eres dres : float)
| VRemoved (t : Z) (m : oinst)
| VDispelled (t : Z) (m : oinst)
| VExtDur (t : Z) (m : oinst) (old new : Z)
| VExtCnt (t : Z) (m : oinst) (old new : Z).

(* result, attached list per unit, per unit (STAT_CTRL in the evaluated flag list, HasFlag STAT_CTRL), events *)
Definition opout := (Z * list (list (Z * Z * Z * Z * Z)) * list (bool * bool) * list oevent)%type.
Inductive obs := Obs (l : list opout) | HarnessPanic (msg : string).

Definition case := (world * Z * nat * list op * obs)%type.

Definition proj_inst (w : world) (i : inst) : oinst :=
  MI (i_tag i) (i_name i) (i_src i) (i_dur i) (i_tickimm i) (i_cnt i) (i_max i) (i_cadd i)
     (c_dispel (getcfg w (i_name i))).

Definition proj_event (w : world) (e : event) : oevent :=
  match e with
  | ECall k t => VCall k t
  | EAdded t m c => VAdded t (proj_inst w m) c
  | EResisted t s n a b c d e => VResisted t s n a b c d e
  | ERemoved t _ m => VRemoved t (proj_inst w m)
  | EDispelled t _ m => VDispelled t (proj_inst w m)
  | EExtDur t m o n => VExtDur t (proj_inst w m) o n
  | EExtCnt t m o n => VExtCnt t (proj_inst w m) o n
  end.

Definition list_of (s : st) (u : Z) : list (Z * Z * Z * Z * Z) :=
  map (fun m => let i := heap s m in (i_tag i, i_name i, i_src i, i_cnt i, i_dur i)) (map snd (tg s u)).

(* the unit's flags are the union over exactly the attached instances: here the one flag the
   harness registers (c_flag = BehaviorFlag STAT_CTRL) *)
Definition flag_of (w : world) (s : st) (u : Z) : bool * bool :=
  let b := existsb (fun m => c_flag (getcfg w (i_name (heap s m)))) (map snd (tg s u)) in (b, b).

Fixpoint run_obs (w : world) (d : nat) (s : st) (ops : list op) : list opout :=
  match ops with
  | [] => []
  | o :: r =>
      let (s1, res) := step w d s o in
      let new := rev (firstn (List.length (evs s1) - List.length (evs s)) (evs s1)) in
      (res, map (list_of s1) (unit_ids w), map (flag_of w s1) (unit_ids w), map (proj_event w) new) :: run_obs w d s1 r
  end.

Definition model_out (c : case) : list opout :=
  let '(w, seed, d, ops, _) := c in run_obs w d (init_seed seed) ops.

Definition oinst_eqb (a b : oinst) : bool :=
  match a, b with
  | MI t n s d ti c m ca cd, MI t' n' s' d' ti' c' m' ca' cd' =>
      (t =? t') && (n =? n') && (s =? s') && (d =? d') && Bool.eqb ti ti' && (c =? c') && (m =? m') &&
      (ca =? ca') && Bool.eqb cd cd'
  end.

Definition oevent_eqb (a b : oevent) : bool :=
  match a, b with
  | VCall k t, VCall k' t' => lkind_eqb k k' && (t =? t')
  | VAdded t m c, VAdded t' m' c' => (t =? t') && oinst_eqb m m' && feqb_bits c c'
  | VResisted t s n a b c d e, VResisted t' s' n' a' b' c' d' e' =>
      (t =? t') && (s =? s') && (n =? n') && feqb_bits a a' && feqb_bits b b' && feqb_bits c c' &&
      feqb_bits d d' && feqb_bits e e'
  | VRemoved t m, VRemoved t' m' => (t =? t') && oinst_eqb m m'
  | VDispelled t m, VDispelled t' m' => (t =? t') && oinst_eqb m m'
  | VExtDur t m o n, VExtDur t' m' o' n' => (t =? t') && oinst_eqb m m' && (o =? o') && (n =? n')
  | VExtCnt t m o n, VExtCnt t' m' o' n' => (t =? t') && oinst_eqb m m' && (o =? o') && (n =? n')
  | _, _ => false
  end.

Definition row_eqb (a b : Z * Z * Z * Z * Z) : bool :=
  let '(a1, a2, a3, a4, a5) := a in let '(b1, b2, b3, b4, b5) := b in
  (a1 =? b1) && (a2 =? b2) && (a3 =? b3) && (a4 =? b4) && (a5 =? b5).

Definition opout_eqb (a b : opout) : bool :=
  let '(r, ls, fs, es) := a in let '(r', ls', fs', es') := b in
  (r =? r') && list_eqb (list_eqb row_eqb) ls ls' &&
  list_eqb (fun x y => Bool.eqb (fst x) (fst y) && Bool.eqb (snd x) (snd y)) fs fs' && list_eqb oevent_eqb es es'.

Definition check_case (c : case) : bool :=
  let '(_, _, _, _, o) := c in
  match o with
  | Obs l => list_eqb opout_eqb (model_out c) l
  | HarnessPanic _ => false
  end.

(* ---------------------------------------------------------------------------------------
   Monitor: the property's own predicates evaluated on what the implementation did.
   (1) order: the instances of a unit that survive an operation keep their relative order;
       instances that were not attached before sit either behind every survivor, in order of
       creation, or in the place of an instance of the same name that is gone (replace);
   (2) every removal is announced exactly once per instance: no instance is announced removed
       twice or dispelled twice, a dispelled one is also announced removed, an instance that
       was announced removed is not attached afterwards, and an instance that disappears
       without being replaced was announced removed during that operation;
   (3) no attached instance has stack count 0 once an operation is over.                    *)
Definition tag_of (r : Z * Z * Z * Z * Z) : Z := let '(a, _, _, _, _) := r in a.
Definition name_of (r : Z * Z * Z * Z * Z) : Z := let '(_, b, _, _, _) := r in b.
Definition cnt_of (r : Z * Z * Z * Z * Z) : Z := let '(_, _, _, d, _) := r in d.
Definition zmem (x : Z) (l : list Z) : bool := existsb (Z.eqb x) l.

Fixpoint zsorted (l : list Z) : bool :=
  match l with
  | a :: ((b :: _) as r) => (a <? b) && zsorted r
  | _ => true
  end.

Fixpoint znodup (l : list Z) : bool :=
  match l with [] => true | x :: r => negb (zmem x r) && znodup r end.

Definition removed_tags (es : list oevent) : list Z :=
  flat_map (fun e => match e with VRemoved _ (MI t _ _ _ _ _ _ _ _) => [t] | _ => [] end) es.
Definition dispelled_tags (es : list oevent) : list Z :=
  flat_map (fun e => match e with VDispelled _ (MI t _ _ _ _ _ _ _ _) => [t] | _ => [] end) es.

Definition is_replace (w : world) (n : Z) : bool :=
  match c_stack (getcfg w n) with Replace | ReplaceBySource => true | _ => false end.

(* no survivor of [ptags] occurs in [l] *)
Definition no_survivor (ptags : list Z) (l : list (Z * Z * Z * Z * Z)) : bool :=
  forallb (fun x => negb (zmem (tag_of x) ptags)) l.

(* every newcomer that did not take the place of a vanished instance of its name (replace)
   sits behind every survivor *)
Fixpoint newcomers_behind (w : world) (prev : list (Z * Z * Z * Z * Z)) (ntags : list Z)
         (l : list (Z * Z * Z * Z * Z)) : bool :=
  match l with
  | [] => true
  | x :: r =>
      (zmem (tag_of x) (map tag_of prev) ||
       (is_replace w (name_of x) &&
        existsb (fun p => (name_of p =? name_of x) && negb (zmem (tag_of p) ntags)) prev) ||
       no_survivor (map tag_of prev) r) && newcomers_behind w prev ntags r
  end.

Definition order_ok (w : world) (prev new : list (Z * Z * Z * Z * Z)) : bool :=
  let ptags := map tag_of prev in
  let ntags := map tag_of new in
  (* survivors in the same relative order *)
  list_eqb Z.eqb (filter (fun t => zmem t ntags) ptags) (filter (fun t => zmem t ptags) ntags) &&
  (* appended newcomers (stacking without replacement) are in order of creation *)
  zsorted (map tag_of (filter (fun x => negb (zmem (tag_of x) ptags) && negb (is_replace w (name_of x))) new)) &&
  newcomers_behind w prev ntags new.

(* an instance that vanished without an announcement must have been swapped out by a replace:
   its name replaces, and an instance of that name was announced added during the operation *)
Definition replaced_ok (w : world) (es : list oevent) (p : Z * Z * Z * Z * Z) : bool :=
  is_replace w (name_of p) &&
  existsb (fun e => match e with VAdded _ (MI _ n _ _ _ _ _ _ _) _ => n =? name_of p | _ => false end) es.

Fixpoint monitor_ops (w : world) (prev : list (list (Z * Z * Z * Z * Z))) (gone : list Z) (l : list opout) : bool :=
  match l with
  | [] => true
  | (_, ls, fs, es) :: r =>
      let rem := removed_tags es in
      let gone' := rem ++ gone in
      let attached := flat_map (map tag_of) ls in
      list_eqb (fun _ _ => true) prev ls &&
      forallb (fun pn => order_ok w (fst pn) (snd pn)) (combine prev ls) &&
      znodup attached &&
      forallb (fun t => negb (zmem t gone')) attached &&
      forallb (fun pn => forallb (fun p => zmem (tag_of p) (map tag_of (snd pn)) || zmem (tag_of p) rem ||
                                           replaced_ok w es p) (fst pn)) (combine prev ls) &&
      forallb (fun x => negb (cnt_of x =? 0)) (List.concat ls) &&
      (* C06: the unit's flag is the union over exactly the attached instances, read either way *)
      (Z.of_nat (List.length ls) =? Z.of_nat (List.length fs)) &&
      forallb (fun lf => Bool.eqb (existsb (fun x => c_flag (getcfg w (name_of x))) (fst lf)) (fst (snd lf)) &&
                         Bool.eqb (fst (snd lf)) (snd (snd lf))) (combine ls fs) &&
      monitor_ops w ls gone' r
  end.

Definition monitor_case (c : case) : bool :=
  let '(w, _, _, _, o) := c in
  match o with
  | Obs l =>
      let es := flat_map (fun x => snd x) l in
      znodup (removed_tags es) && znodup (dispelled_tags es) &&
      forallb (fun t => zmem t (removed_tags es)) (dispelled_tags es) &&
      monitor_ops w (map (fun _ => []) (unit_ids w)) [] l
  | HarnessPanic _ => false
  end.
