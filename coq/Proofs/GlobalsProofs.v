(* C15 -- obligations about the generated table Gen/Globals.v, proved by computation.
   They are re-proved whenever the Go source changes the table: a new package-level variable
   written from run code, or a catalog registration moved out of init(), breaks them for all
   inputs. *)
From Coq Require Import List String Bool.
From SR Require Import Base.GlobalTypes Gen.Globals Model.GlobalsAllow.
Import ListNotations.

(* Every write to / hand-out of a package-level variable that is reachable from the run entry
   points and is not init-time code is a reviewed row of the allow table, or the recorded
   finding (the logger list). *)
Theorem no_reachable_global_writes_partial : offending global_writes = [].
Proof. vm_compute. reflexivity. Qed.

Corollary no_reachable_global_writes_partial_forall :
  forall w, In w global_writes -> gw_reach w = true -> gw_init w = false ->
            allowed w = true \/ is_known_shared w = true.
Proof.
  intros w Hin Hr Hi.
  destruct (allowed w) eqn:Ea; [now left |]. destruct (is_known_shared w) eqn:Ek; [now right |].
  exfalso.
  assert (In w (offending global_writes)) as H.
  { unfold offending. apply filter_In. split; [exact Hin |].
    unfold run_time. rewrite Hr, Hi, Ea, Ek. reflexivity. }
  rewrite no_reachable_global_writes_partial in H. exact H.
Qed.

(* The full obligation "no run-time write to shared state at all" is FALSE for today's code:
   simulation.Run -> logging.InitLoggers assigns the package-level logger list. *)
Theorem no_reachable_global_writes_refuted :
  exists w, In w global_writes /\ gw_reach w = true /\ gw_init w = false /\
            allowed w = false /\ gw_var w = "loggers"%string /\ gw_kind w = "assign"%string.
Proof.
  exists (mkGWrite "pkg/engine/logging" "loggers" "assign" "pkg/engine/logging.InitLoggers"
                   "pkg/engine/logging/logger.go" false true).
  repeat split; try reflexivity. vm_compute. tauto.
Qed.

(* Every catalog Register* call site is init-time code. *)
Theorem no_register_outside_init : register_outside_init register_calls = [].
Proof. vm_compute. reflexivity. Qed.

(* The process-wide registries are written only by code that no run can reach (their
   Register functions, called from init() only); run code merely reads them. *)
Theorem catalogs_written_at_init_only : forallb catalog_row_ok global_writes = true.
Proof. vm_compute. reflexivity. Qed.

(* the table is not empty / the analysis saw the program (guards against a silently empty Gen) *)
Theorem table_nonvacuous :
  Nat.leb 100 gen_packages = true /\ Nat.leb 1000 gen_reachable_functions = true /\
  Nat.leb 100 (List.length global_vars) = true /\ Nat.leb 100 (List.length register_calls) = true /\
  existsb (fun r => str_eqb r "pkg/simulation.Run") run_roots = true /\
  existsb (fun r => str_eqb r "cmd/srsim.(*pool).worker") run_roots = true /\
  existsb (fun r => str_eqb r "pkg/servermode.(*workerpool).iter") run_roots = true /\
  existsb is_catalog global_writes = true.
Proof. vm_compute. repeat split; reflexivity. Qed.
