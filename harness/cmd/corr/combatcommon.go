package main

// Shared plumbing of the "heal" (C17) and "hit" (C04) components: the REAL combat manager
// wired to a REAL event.System, the REAL attribute service and the REAL shield manager.
// Only the modifier evaluation (what a unit's property vector is) and engine.Target
// (IsCharacter) are small fakes that serve the values the generator chose.

import (
	"fmt"
	"math"
	"math/rand"
	"sort"
	"strconv"
	"strings"

	"github.com/simimpact/srsim/pkg/engine/attribute"
	"github.com/simimpact/srsim/pkg/engine/combat"
	"github.com/simimpact/srsim/pkg/engine/event"
	"github.com/simimpact/srsim/pkg/engine/info"
	"github.com/simimpact/srsim/pkg/engine/prop"
	"github.com/simimpact/srsim/pkg/engine/shield"
	"github.com/simimpact/srsim/pkg/key"
	"github.com/simimpact/srsim/pkg/model"

	"verif/harness/term"
)

const shielderID key.TargetID = 9000 // harness-only unit with ATK = 1 used to attach shields of a given strength

// ---- fake modifier evaluation: serves the property vector of each unit ----

type cbEval struct {
	props map[key.TargetID]map[prop.Property]float64
	// weaknesses granted by modifiers (implants): a unit is weak to the union of these and its own
	weak map[key.TargetID][]model.DamageType
}

func (e *cbEval) EvalModifiers(target key.TargetID) *info.ModifierState {
	// a fresh map per call, as the real modifier manager returns (snapshots own their map)
	m := info.NewPropMap()
	for k, v := range e.props[target] {
		m[k] = v
	}
	wk := info.NewWeaknessMap()
	for _, d := range e.weak[target] {
		wk[d] = true
	}
	return &info.ModifierState{
		Props:     m,
		DebuffRES: info.NewDebuffRESMap(),
		Weakness:  wk,
		Counts:    make(map[model.StatusType]int),
		Flags:     nil,
		Modifiers: nil,
	}
}

// ---- fake engine.Target: only IsCharacter is consulted by the combat manager ----

type cbTarget struct{ chars map[key.TargetID]bool }

func (t *cbTarget) IsValid(id key.TargetID) bool               { _, ok := t.chars[id]; return ok }
func (t *cbTarget) IsAlive(id key.TargetID) bool               { panic("cbTarget.IsAlive not expected") }
func (t *cbTarget) IsCharacter(id key.TargetID) bool           { return t.chars[id] }
func (t *cbTarget) IsEnemy(id key.TargetID) bool               { c, ok := t.chars[id]; return ok && !c }
func (t *cbTarget) AdjacentTo(id key.TargetID) []key.TargetID  { return nil }
func (t *cbTarget) Characters() []key.TargetID                 { return nil }
func (t *cbTarget) Enemies() []key.TargetID                    { return nil }
func (t *cbTarget) Neutrals() []key.TargetID                   { return nil }
func (t *cbTarget) AddNeutralTarget() key.TargetID             { return 0 }
func (t *cbTarget) RemoveNeutralTarget(id key.TargetID)        {}
func (t *cbTarget) Retarget(data info.Retarget) []key.TargetID { return nil }

// ---- scripted random source: the draw is an input of the case ----

type cbSource struct {
	w     *cbWorld
	draws []float64
}

func (s *cbSource) Seed(int64) {}
func (s *cbSource) Int63() int64 {
	d := 0.0
	if len(s.draws) > 0 {
		d = s.draws[0]
		s.draws = s.draws[1:]
	}
	s.w.trace = append(s.w.trace, term.C("IDraw", fx(d)))
	// rand.Float64 = float64(Int63()) / 2^63; draws are multiples of 2^-53 in [0,1), so exact
	return int64(d * (1 << 63))
}

// ---- the world ----

type cbWorld struct {
	ev         *event.System
	attr       attribute.Manager
	shld       *shield.Manager
	mgr        *combat.Manager
	eval       *cbEval
	tgt        *cbTarget
	src        *cbSource
	limbo      map[key.TargetID]bool
	ids        []key.TargetID
	adjs       []term.T // listener script of the operation being executed
	shieldKeys []int64
	trace      []term.T
}

func keyStr(n int64) string { return "k" + strconv.FormatInt(n, 10) }
func keyNum(s string) int64 {
	if s == "" {
		return -1
	}
	n, err := strconv.ParseInt(s[1:], 10, 64)
	if err != nil {
		panic("bad key " + s)
	}
	return n
}

func ids(ts []key.TargetID) term.T {
	out := []term.T{}
	for _, t := range ts {
		out = append(out, term.I(int64(t)))
	}
	return term.L(out...)
}

func fl(xs ...float64) term.T {
	out := []term.T{}
	for _, x := range xs {
		out = append(out, fx(x))
	}
	return term.L(out...)
}

func pmapTerm[K ~int32](m map[K]float64) term.T {
	ks := []int{}
	for k := range m {
		ks = append(ks, int(k))
	}
	sort.Ints(ks)
	out := []term.T{}
	for _, k := range ks {
		out = append(out, term.Tup(term.I(int64(k)), fx(m[K(k)])))
	}
	return term.L(out...)
}

func pairsToMap(t term.T) map[int64]float64 {
	m := map[int64]float64{}
	for _, kv := range term.List(t) {
		it := term.TupleItems(kv)
		k := term.Int(it[0])
		if _, dup := m[k]; !dup { // first occurrence wins, as the model's lookup does
			m[k] = fxGet(it[1])
		}
	}
	return m
}

func (w *cbWorld) add(t term.T) { w.trace = append(w.trace, t) }

// newCbWorld builds the services and registers the units: USpec id char lvl ratio energy maxE stance maxS weak props
func newCbWorld(units []term.T, limbo []term.T, draws []term.T) *cbWorld {
	w := &cbWorld{
		ev:    &event.System{},
		eval:  &cbEval{props: map[key.TargetID]map[prop.Property]float64{}},
		tgt:   &cbTarget{chars: map[key.TargetID]bool{}},
		limbo: map[key.TargetID]bool{},
	}
	w.src = &cbSource{w: w}
	for _, d := range draws {
		w.src.draws = append(w.src.draws, fxGet(d))
	}
	w.attr = attribute.New(w.ev, w.eval)
	w.shld = shield.New(w.ev, w.attr)
	w.mgr = combat.New(w.ev, w.attr, w.shld, w.tgt, rand.New(w.src))
	w.eval.props[shielderID] = map[prop.Property]float64{prop.ATKBase: 1}
	for _, l := range limbo {
		w.limbo[key.TargetID(term.Int(l))] = true
	}
	for _, u := range units {
		_, a := term.Ctor(u)
		id := key.TargetID(term.Int(a[0]))
		if _, dup := w.tgt.chars[id]; dup {
			continue
		}
		weak := info.NewWeaknessMap()
		for _, d := range term.List(a[8]) {
			// odd damage types are the unit's own weaknesses, even ones are granted by a modifier (the
			// unit is weak to the union; only the snapshot's merged view may decide)
			if dt := model.DamageType(term.Int(d)); dt%2 == 1 {
				weak[dt] = true
			} else {
				if w.eval.weak == nil {
					w.eval.weak = map[key.TargetID][]model.DamageType{}
				}
				w.eval.weak[id] = append(w.eval.weak[id], dt)
			}
		}
		err := w.attr.AddTarget(id, info.Attributes{
			Level:     int(term.Int(a[2])),
			HPRatio:   fxGet(a[3]),
			Energy:    fxGet(a[4]),
			MaxEnergy: fxGet(a[5]),
			Stance:    fxGet(a[6]),
			MaxStance: fxGet(a[7]),
			Weakness:  weak,
		})
		if err != nil {
			panic(err)
		}
		w.tgt.chars[id] = term.Bool(a[1])
		pm := map[prop.Property]float64{}
		for k, v := range pairsToMap(a[9]) {
			pm[prop.Property(k)] = v
		}
		w.eval.props[id] = pm
		w.ids = append(w.ids, id)
	}
	w.subscribe()
	return w
}

// applyAdj performs one listener adjustment on (first snapshot, second snapshot, formula map, flat value)
func applyAdj[K ~int32](a term.T, first, second *info.Stats, terms *map[K]float64, flat *float64) {
	name, args := term.Ctor(a)
	switch name {
	case "AProp":
		s := second
		if term.Bool(args[0]) {
			s = first
		}
		s.AddProperty("adj", prop.Property(term.Int(args[1])), fxGet(args[2]))
	case "ATermSet":
		(*terms)[K(term.Int(args[0]))] = fxGet(args[1])
	case "ATermDel":
		delete(*terms, K(term.Int(args[0])))
	case "AFlatSet":
		*flat = fxGet(args[0])
	case "AFlatAdd":
		*flat += fxGet(args[0])
	case "ARemap":
		m := make(map[K]float64, len(*terms))
		for k, v := range *terms {
			m[k] = v
		}
		*terms = m
	default:
		panic("bad adjustment " + name)
	}
}

func (w *cbWorld) subscribe() {
	ev := w.ev
	// adjusting listeners run first, the recorder last
	ev.HealStart.Subscribe(func(e *event.HealStart) {
		for _, a := range w.adjs {
			applyAdj(a, e.Healer, e.Target, (*map[model.HealFormula]float64)(&e.BaseHeal), &e.HealValue)
		}
	}, 0)
	ev.HealStart.Subscribe(func(e *event.HealStart) {
		w.add(term.C("IHealStart", term.I(keyNum(string(e.Key))), term.I(int64(e.Target.ID())), term.I(int64(e.Healer.ID())),
			fl(e.Target.MaxHP(), e.Target.CurrentHP(), e.Target.GetProperty(prop.HealTaken)),
			fl(e.Healer.ATK(), e.Healer.DEF(), e.Healer.MaxHP(), e.Healer.HealBoost()),
			pmapTerm(e.BaseHeal), fx(e.HealValue), term.B(e.UseSnapshot)))
	}, 100)
	ev.HealEnd.Subscribe(func(e event.HealEnd) {
		w.add(term.C("IHealEnd", term.I(keyNum(string(e.Key))), term.I(int64(e.Target)), term.I(int64(e.Healer)),
			fx(e.HealAmount), fx(e.OverflowHealAmount), term.B(e.UseSnapshot)))
	})
	ev.HPChange.Subscribe(func(e event.HPChange) {
		w.add(term.C("IHPChange", term.I(keyNum(string(e.Key))), term.I(int64(e.Target)),
			fx(e.OldHPRatio), fx(e.NewHPRatio), fx(e.OldHP), fx(e.NewHP), term.B(e.IsHPChangeByDamage)))
	})
	ev.LimboWaitHeal.Subscribe(func(e event.LimboWaitHeal) bool {
		c := w.limbo[e.Target]
		w.add(term.C("ILimbo", term.I(int64(e.Target)), term.B(c)))
		return c
	}, 0)
	ev.StanceChange.Subscribe(func(e event.StanceChange) {
		w.add(term.C("IStanceChange", term.I(keyNum(string(e.Key))), term.I(int64(e.Target)), term.I(int64(e.Source)),
			fx(e.OldStance), fx(e.NewStance)))
	})
	ev.StanceBreak.Subscribe(func(e event.StanceBreak) {
		w.add(term.C("IStanceBreak", term.I(keyNum(string(e.Key))), term.I(int64(e.Target)), term.I(int64(e.Source))))
	})
	ev.StanceReset.Subscribe(func(e event.StanceReset) {
		w.add(term.C("IStanceReset", term.I(keyNum(string(e.Key))), term.I(int64(e.Target))))
	})
	ev.EnergyChange.Subscribe(func(e event.EnergyChange) {
		w.add(term.C("IEnergyChange", term.I(keyNum(string(e.Key))), term.I(int64(e.Target)), term.I(int64(e.Source)),
			fx(e.OldEnergy), fx(e.NewEnergy)))
	})
	ev.ShieldRemoved.Subscribe(func(e event.ShieldRemoved) {
		w.add(term.C("IShieldRemoved", term.I(keyNum(string(e.ID))), term.I(int64(e.Target))))
	})
	ev.ShieldChange.Subscribe(func(e event.ShieldChange) {
		w.add(term.C("IShieldChange", term.I(int64(e.Target)), term.I(keyNum(string(e.ID))),
			fx(e.NewHP), fx(e.OldHP), fx(e.DamageIn), fx(e.DamageOut)))
	})
	ev.AttackStart.Subscribe(func(e event.AttackStart) {
		w.add(term.C("IAttackStart", term.I(keyNum(string(e.Key))), term.I(int64(e.Attacker)), ids(e.Targets),
			term.I(int64(e.AttackType)), term.I(int64(e.DamageType))))
	})
	ev.AttackEnd.Subscribe(func(e event.AttackEnd) {
		w.add(term.C("IAttackEnd", term.I(keyNum(string(e.Key))), term.I(int64(e.Attacker)), ids(e.Targets),
			term.I(int64(e.AttackType)), term.I(int64(e.DamageType))))
	})
	ev.HitStart.Subscribe(func(e event.HitStart) {
		h := e.Hit
		for _, a := range w.adjs {
			applyAdj(a, h.Attacker, h.Defender, (*map[model.DamageFormula]float64)(&h.BaseDamage), &h.DamageValue)
		}
	})
	ev.HitStart.Subscribe(func(e event.HitStart) {
		h := e.Hit
		w.add(term.C("IHitStart", term.I(keyNum(string(h.Key))), term.I(int64(h.HitIndex)),
			term.I(int64(e.Attacker)), term.I(int64(e.Defender)), term.I(int64(h.AttackType)), term.I(int64(h.DamageType)),
			pmapTerm(h.BaseDamage), fl(h.EnergyGain, h.StanceDamage, h.HitRatio, h.DamageValue),
			term.B(h.AsPureDamage), term.B(h.UseSnapshot)))
	})
	ev.HitEnd.Subscribe(func(e event.HitEnd) {
		w.add(term.C("IHitEnd", term.I(keyNum(string(e.Key))), term.I(int64(e.HitIndex)),
			term.I(int64(e.Attacker)), term.I(int64(e.Defender)), term.I(int64(e.AttackType)), term.I(int64(e.DamageType)),
			fl(e.BaseDamage, e.DefenceMultiplier, e.Resistance, e.Vulnerability, e.ToughnessMultiplier, e.Fatigue,
				e.AllDamageReduce, e.CritDamage, e.TotalDamage, e.HPDamage, e.ShieldDamage, e.HPRatioRemaining),
			term.B(e.IsCrit), term.B(e.UseSnapshot)))
	})
}

// shields of a unit are private to the shield manager; the harness mirrors what it attached
// and what the ShieldRemoved / ShieldChange events report is compared through the events.
// The getters that exist are read: HPRatio, Energy, Stance, State, LastAttacker.
func (w *cbWorld) unitItems() {
	for _, id := range w.ids {
		present := []term.T{}
		for _, k := range w.shieldKeys {
			if w.shld.HasShield(id, key.Shield(keyStr(k))) {
				present = append(present, term.I(k))
			}
		}
		w.add(term.C("IUnit", term.I(int64(id)), fx(w.attr.HPRatio(id)), fx(w.attr.Energy(id)),
			fx(w.attr.Stance(id)), term.I(int64(w.attr.State(id))), term.I(int64(w.attr.LastAttacker(id))),
			term.L(present...), fx(w.shld.MaxShield(id))))
	}
}

// addShield attaches a shield of exactly the given strength through the real AddShield:
// strength = (0 + hp * ATK(shielder)) * (1 + 0) * (1 + 0) with ATK(shielder) = 1
func (w *cbWorld) addShield(target key.TargetID, k int64, hp float64) {
	seen := false
	for _, x := range w.shieldKeys {
		seen = seen || x == k
	}
	if !seen {
		w.shieldKeys = append(w.shieldKeys, k)
		sort.Slice(w.shieldKeys, func(i, j int) bool { return w.shieldKeys[i] < w.shieldKeys[j] })
	}
	w.shld.AddShield(key.Shield(keyStr(k)), info.Shield{
		Source:     shielderID,
		Target:     target,
		BaseShield: info.ShieldMap{model.ShieldFormula_SHIELD_BY_SHIELDER_ATK: hp},
	})
}

// caseRng derives the generator of one case from the forked generator AND the case index.
// main.go forks case generators from successive outputs of one splitmix64 stream and check.py
// seeds consecutive shards with consecutive seeds, so case i of shard k+1 would otherwise be
// case i+1 of shard k; mixing the index in makes the shards disjoint.
func caseRng(r *term.Rng, idx int) *term.Rng {
	return term.NewRng(r.U64() ^ (uint64(idx+1) * 0xD6E8FEB86659FD93))
}

// ---- value pools ----

// every numeric literal of damage.go / hit.go / heal.go / modify.go / stats.go, the derived
// clamp bounds, each with its two binary64 neighbours, plus zero and negatives
func boundaryPool(base []float64) []float64 {
	out := []float64{}
	for _, x := range base {
		out = append(out, x, math.Nextafter(x, math.Inf(1)), math.Nextafter(x, math.Inf(-1)))
	}
	return out
}

var combatLiterals = []float64{0, 1, -1, 0.9, 0.1, 2, 3.5, 2.5, 0.01, 0.99, 200, 10, 20, 0.5, -0.5, 1.9, -0.9}

var litPool = boundaryPool(combatLiterals)

func pickVal(r *term.Rng, ordinary []float64) float64 {
	if r.Bool() {
		return term.Pick(r, litPool)
	}
	return term.Pick(r, ordinary)
}

func mustNoNaN(x float64) float64 {
	if math.IsNaN(x) {
		panic(fmt.Sprint("generator produced NaN"))
	}
	return x
}

// ---- floats in case files ----
//
// A binary64 is written as Coq's own exact hexadecimal float literal (a nullary term whose
// name is the literal, rendered verbatim by check.py), e.g. 0x1.ccccccccccccdp-01%float.
// Coq parses these natively (~20x faster than the 19-digit Z of term.F, which dominates the
// cost of a case file with hundreds of floats); the value is exact in both directions.
func fx(x float64) term.T {
	switch {
	case math.IsNaN(x):
		return term.C("nan")
	case math.IsInf(x, 1):
		return term.C("infinity")
	case math.IsInf(x, -1):
		return term.C("neg_infinity")
	}
	s := strconv.FormatFloat(x, 'x', -1, 64)
	if s[0] == '-' {
		return term.C("(" + s + ")%float")
	}
	return term.C(s + "%float")
}

func fxGet(t term.T) float64 {
	m, ok := t.(map[string]any)
	if ok {
		if _, isF := m["f"]; isF {
			return term.Float(t)
		}
	}
	name, _ := term.Ctor(t)
	switch name {
	case "nan":
		return math.NaN()
	case "infinity":
		return math.Inf(1)
	case "neg_infinity":
		return math.Inf(-1)
	}
	s := strings.TrimSuffix(name, "%float")
	s = strings.TrimSuffix(strings.TrimPrefix(s, "("), ")")
	x, err := strconv.ParseFloat(s, 64)
	if err != nil {
		panic("bad float literal " + name)
	}
	return x
}
