(* The interpretation (Model/HandlersInterp.v) of the table go2coq generates from
   pkg/engine/event/handler/*.go and pkg/engine/logging/logger.go (Gen/HandlersTable.v) IS the
   hand-written model Model/Events.v: Subscribe, Emit (with the re-entrant listener scripts and the
   fuel recursion), logging.Log and InitLoggers, for all worlds, handler indices, priorities, reaction
   queues, event values and fuel.  And the generated table is field by field the expected one. *)
From Coq Require Import String List ZArith Bool Lia.
From SR Require Import Model.Events Model.HandlersInterp Gen.HandlersTable.
Import ListNotations.
Open Scope Z_scope.

(* ---- Subscribe ---- *)

Lemma insert_by_lt : forall l ls, insert_by (less_fn LessPrioLt) l ls = insert_prio l ls.
Proof.
  intros l ls. induction ls as [|x rest IH]; [reflexivity|].
  cbn [insert_by insert_prio less_fn]. rewrite IH. reflexivity.
Qed.

Lemma desc_simple : desc_of table KSimple = Some h_EventHandler.
Proof. reflexivity. Qed.
Lemma desc_priority : desc_of table KPriority = Some h_PriorityEventHandler.
Proof. reflexivity. Qed.
Lemma desc_mutable : desc_of table KMutable = Some h_MutableEventHandler.
Proof. reflexivity. Qed.
Lemma desc_cancel : desc_of table KCancel = Some h_CancelableEventHandler.
Proof. reflexivity. Qed.

Definition sub_of (k : hkind) : sub_desc :=
  match desc_of table k with Some d => hd_sub d | None => mkSubD ElemBare AppendInPlace (Some LessPrioLe) end.

Lemma interp_subscribe_h_is_model : forall hd l,
  interp_subscribe_h (sub_of (h_kind hd)) hd l = Some (subscribe_h hd l).
Proof.
  intros [k ls cap gen old] l.
  destruct k; cbn [h_kind]; unfold sub_of;
    [rewrite desc_simple | rewrite desc_priority | rewrite desc_mutable | rewrite desc_cancel];
    cbn [h_kind hd_sub h_EventHandler h_PriorityEventHandler h_MutableEventHandler h_CancelableEventHandler];
    unfold interp_subscribe_h, subscribe_h;
    cbn [sd_append sd_sort h_kind h_ls h_cap h_gen h_old place].
  - destruct (Nat.ltb (length ls) cap); [reflexivity|].
    destruct (grow cap); reflexivity.
  - rewrite insert_by_lt. reflexivity.
  - rewrite insert_by_lt. reflexivity.
  - rewrite insert_by_lt. reflexivity.
Qed.

Theorem interp_subscribe_is_model : forall w h prio rs,
  interp_subscribe table w h prio rs = Some (subscribe w h prio rs).
Proof.
  intros w h prio rs. unfold interp_subscribe, subscribe.
  destruct (nth_error (hs w) h) as [hd|]; [|reflexivity].
  pose proof (interp_subscribe_h_is_model hd (mkL (next_id w) prio)) as Hh.
  unfold sub_of in Hh.
  destruct (h_kind hd) eqn:Hk;
    [rewrite desc_simple in * | rewrite desc_priority in * | rewrite desc_mutable in * | rewrite desc_cancel in *];
    rewrite Hh; destruct (subscribe_h hd (mkL (next_id w) prio)); reflexivity.
Qed.

(* ---- logging ---- *)

Theorem interp_log_is_model : forall lgs h v c, interp_log table lgs h v c = Some (log_items lgs h v c).
Proof. reflexivity. Qed.

Theorem interp_init_is_model : forall w lgs, interp_init table w lgs = Some (init_loggers w lgs).
Proof. reflexivity. Qed.

(* ---- Emit ---- *)

Definition ext (E E' : emitter) : Prop := forall w h v, E w h v = E' w h v.

Lemma run_acts_ext : forall E E', ext E E' -> forall acts w, run_acts E w acts = run_acts E' w acts.
Proof.
  intros E E' HE acts. induction acts as [|a rest IH]; intro w; [reflexivity|].
  cbn [run_acts]. destruct a as [h prio rs|h v|lgs].
  - destruct (subscribe w h prio rs) as [[w1 ch]|e]; [|reflexivity]. rewrite IH. reflexivity.
  - rewrite (HE w h v). destruct (E' w h v) as [[[[w1 c] v1] fr]|e]; [|reflexivity]. rewrite IH. reflexivity.
  - rewrite IH. reflexivity.
Qed.

Definition is_pointer (p : pass_shape) : bool := match p with ByPointer => true | ByValue => false end.
Definition has_cancel (d : emit_desc) : bool := match ed_cancel d with Some _ => true | None => false end.

(* a description agrees with a kind of the model *)
Definition agrees (k : hkind) (d : emit_desc) : Prop :=
  is_pointer (ed_pass d) = kind_eqb k KMutable /\ has_cancel d = kind_eqb k KCancel.

Lemma interp_deliver_is_deliver : forall k d E E', agrees k d -> ext E E' ->
  forall todo h g w i v, interp_deliver d E h g w todo i v = deliver E' k h g w todo i v.
Proof.
  intros k d E E' [Hp Hc] HE todo. induction todo as [|todo IH]; intros h g w i v; [reflexivity|].
  cbn [interp_deliver deliver].
  destruct (nth_error (hs w) h) as [hd|]; [|reflexivity].
  destruct (arr hd g) as [a|]; [|reflexivity].
  destruct (nth_error a i) as [l|]; [|reflexivity].
  destruct (pop (reacts (add_trace w [ICall (l_id l) h v])) (l_id l)) as [r rs'].
  rewrite (run_acts_ext E E' HE).
  destruct (run_acts E' (set_reacts (add_trace w [ICall (l_id l) h v]) rs') (r_acts r)) as [[w3 kids]|e]; [|reflexivity].
  rewrite <- Hp, <- Hc. unfold has_cancel, is_pointer.
  destruct (ed_pass d); destruct (ed_cancel d); cbn [andb];
    try (destruct (r_cancel r); [reflexivity|]); rewrite IH; reflexivity.
Qed.

Lemma deliver_never_cancels : forall E k, kind_eqb k KCancel = false ->
  forall todo h g w i v w' c v' cls,
    deliver E k h g w todo i v = Ok (w', c, v', cls) -> c = false.
Proof.
  intros E k Hk todo. induction todo as [|todo IH]; intros h g w i v w' c v' cls Hd.
  - cbn [deliver] in Hd. inversion Hd. reflexivity.
  - cbn [deliver] in Hd.
    destruct (nth_error (hs w) h) as [hd|]; [|discriminate].
    destruct (arr hd g) as [a|]; [|discriminate].
    destruct (nth_error a i) as [l|]; [|discriminate].
    destruct (pop (reacts (add_trace w [ICall (l_id l) h v])) (l_id l)) as [r rs'].
    destruct (run_acts E (set_reacts (add_trace w [ICall (l_id l) h v]) rs') (r_acts r)) as [[w3 kids]|e]; [|discriminate].
    rewrite Hk in Hd. cbn [andb] in Hd.
    destruct (deliver E k h g w3 todo (S i) (if kind_eqb k KMutable then apply_x (r_x r) v else v))
      as [[[[w4 c4] v4] cls4]|e] eqn:Hrec; [|discriminate].
    inversion Hd; subst. eapply IH. exact Hrec.
Qed.

Definition emit_of (k : hkind) : emit_desc :=
  match desc_of table k with Some d => hd_emit d | None => no_desc end.

Lemma table_agrees : forall k, agrees k (emit_of k).
Proof. intros []; split; reflexivity. Qed.

Lemma interp_emit_f_is_emit : forall fuel, ext (interp_emit_f table fuel) (emit fuel).
Proof.
  induction fuel as [|f IH]; intros w h v; [reflexivity|].
  cbn [interp_emit_f emit].
  destruct (nth_error (hs w) h) as [hd|]; [|reflexivity].
  fold (emit_of (h_kind hd)).
  rewrite (interp_deliver_is_deliver (h_kind hd) (emit_of (h_kind hd)) _ (emit f) (table_agrees _) IH).
  destruct (deliver (emit f) (h_kind hd) h (h_gen hd) (add_trace w [IEmit h v]) (length (h_ls hd)) 0 v)
    as [[[[w1 c] v'] cls]|e] eqn:Hd; [|reflexivity].
  destruct (h_kind hd) eqn:Hk.
  - rewrite (deliver_never_cancels _ KSimple eq_refl _ _ _ _ _ _ _ _ _ _ Hd). reflexivity.
  - rewrite (deliver_never_cancels _ KPriority eq_refl _ _ _ _ _ _ _ _ _ _ Hd). reflexivity.
  - rewrite (deliver_never_cancels _ KMutable eq_refl _ _ _ _ _ _ _ _ _ _ Hd). reflexivity.
  - destruct c; reflexivity.
Qed.

Lemma table_is_supported : table_supported table = true.
Proof. reflexivity. Qed.

Theorem interp_emit_is_model : forall fuel w h v,
  interp_emit table fuel w h v = Some (emit fuel w h v).
Proof.
  intros fuel w h v. unfold interp_emit. rewrite table_is_supported.
  rewrite (interp_emit_f_is_emit fuel w h v). reflexivity.
Qed.

(* ---- the pin ---- *)
Theorem handlers_table_is_pinned : table = expected_table.
Proof. reflexivity. Qed.

(* ---- the statement the property files quote ---- *)
Definition handlers_statement : Prop :=
  (forall w h prio rs, interp_subscribe table w h prio rs = Some (subscribe w h prio rs)) /\
  (forall fuel w h v, interp_emit table fuel w h v = Some (emit fuel w h v)) /\
  (forall lgs h v c, interp_log table lgs h v c = Some (log_items lgs h v c)) /\
  (forall w lgs, interp_init table w lgs = Some (init_loggers w lgs)) /\
  table = expected_table.

Theorem handlers_hold : handlers_statement.
Proof.
  exact (conj interp_subscribe_is_model (conj interp_emit_is_model (conj interp_log_is_model
          (conj interp_init_is_model handlers_table_is_pinned)))).
Qed.
