package main

// Serialisation of a real gcs syntax tree (pkg/logic/gcs/ast) into the Coq type of
// coq/Model/GcsAst.v.  Shared by the parser checks (C13, C14) and the evaluator check (C12):
// nothing in this file depends on the parser or the evaluator.
//
// Conventions (the same as in GcsAst.v): one constructor per Go node type, fields in the Go
// declaration order, positions and line numbers dropped, nil interfaces are ENil / SNil /
// BNil, a nil ast.Node in a block list is `NExpr ENil`, MapExpr.Fields is written as an
// association list sorted bytewise by key, strings that are not plain printable ASCII are
// written as `hx "<hex>"`.

import (
	"encoding/hex"
	"fmt"
	"reflect"
	"sort"

	"github.com/simimpact/srsim/pkg/logic/gcs/ast"

	"verif/harness/term"
)

// tokTypeNames[i] is the Coq constructor (= Go constant) name of ast.TokenType(i).
var tokTypeNames = []string{
	"ItemError", "ItemEOF", "ItemTerminateLine", "ItemAssign", "ItemComma",
	"ItemLeftParen", "ItemRightParen", "ItemLeftSquareParen", "ItemRightSquareParen",
	"ItemLeftBrace", "ItemRightBrace", "ItemColon", "ItemPlus", "ItemMinus", "ItemAsterisk",
	"ItemForwardSlash",
	"ItemLogicOP", "LogicNot", "LogicAnd", "LogicOr",
	"ItemCompareOp", "OpEqual", "OpNotEqual", "OpGreaterThan", "OpGreaterThanOrEqual",
	"OpLessThan", "OpLessThanOrEqual", "ItemDot",
	"ItemTypes", "ItemIdentifier", "ItemNumber", "ItemBool", "ItemString", "ItemNull",
	"ItemKeyword", "KeywordLet", "KeywordWhile", "KeywordIf", "KeywordElse", "KeywordFn",
	"KeywordSwitch", "KeywordCase", "KeywordDefault", "KeywordBreak", "KeywordContinue",
	"KeywordFallthrough", "KeywordReturn", "KeywordFor",
}

func init() {
	// the table above must follow ast/item.go; two anchors at both ends and one in the middle
	if ast.ItemError != 0 || int(ast.KeywordFor) != len(tokTypeNames)-1 || ast.ItemIdentifier != 29 ||
		ast.OpLessThanOrEqual != 26 || ast.LogicOr != 19 || ast.KeywordLet != 35 {
		panic("gcsast.go: tokTypeNames no longer matches pkg/logic/gcs/ast/item.go")
	}
}

// tokTypeTerm is the Coq constructor of a token type (an out-of-range value, which Go allows,
// becomes `ItemError`-incompatible garbage on purpose so that Coq rejects the case file).
func tokTypeTerm(t ast.TokenType) term.T {
	if int(t) < 0 || int(t) >= len(tokTypeNames) {
		return term.C(fmt.Sprintf("BadTokenType_%d", int(t)))
	}
	return term.C(tokTypeNames[t])
}

// gcsStr writes a Go string (a byte string) as a Coq string.
func gcsStr(s string) term.T {
	plain := true
	for i := 0; i < len(s); i++ {
		if s[i] < 0x20 || s[i] > 0x7e || s[i] == '"' || s[i] == '\\' {
			plain = false
			break
		}
	}
	if plain {
		return term.S(s)
	}
	return term.C("hx", term.S(hex.EncodeToString([]byte(s))))
}

// tokTerm is an ast.Token stored inside a node: `Tok typ val`.
func tokTerm(t ast.Token) term.T { return term.C("Tok", tokTypeTerm(t.Typ), gcsStr(t.Val)) }

func isNilNode(n any) bool {
	if n == nil {
		return true
	}
	v := reflect.ValueOf(n)
	return v.Kind() == reflect.Ptr && v.IsNil()
}

func identList(args []*ast.Ident) term.T {
	out := make([]term.T, 0, len(args))
	for _, a := range args {
		if a == nil {
			panic("gcsast.go: nil *ast.Ident in a parameter list")
		}
		out = append(out, gcsStr(a.Value))
	}
	return term.L(out...)
}

func exprList(es []ast.Expr) term.T {
	out := make([]term.T, 0, len(es))
	for _, e := range es {
		out = append(out, exprToTerm(e))
	}
	return term.L(out...)
}

// exprToTerm serialises an ast.Expr into the Coq type `expr`.
func exprToTerm(e ast.Expr) term.T {
	if isNilNode(e) {
		return term.C("ENil")
	}
	switch n := e.(type) {
	case *ast.NumberLit:
		return term.C("ENum", term.I(n.IntVal), term.F(n.FloatVal), term.B(n.IsFloat))
	case *ast.StringLit:
		return term.C("EStr", gcsStr(n.Value))
	case *ast.BoolLit:
		return term.C("EBool", term.B(n.Value))
	case *ast.NullLit:
		return term.C("ENull")
	case *ast.FuncLit:
		return term.C("EFuncLit", identList(n.Args), blockToTerm(n.Body))
	case *ast.Ident:
		return term.C("EIdent", gcsStr(n.Value))
	case *ast.CallExpr:
		return term.C("ECall", exprToTerm(n.Fun), exprList(n.Args))
	case *ast.UnaryExpr:
		return term.C("EUnary", tokTerm(n.Op), exprToTerm(n.Right))
	case *ast.BinaryExpr:
		return term.C("EBinary", exprToTerm(n.Left), exprToTerm(n.Right), tokTerm(n.Op))
	case *ast.MapExpr:
		keys := make([]string, 0, len(n.Fields))
		for k := range n.Fields {
			keys = append(keys, k)
		}
		sort.Strings(keys) // bytewise, as string_ltb
		fs := make([]term.T, 0, len(keys))
		for _, k := range keys {
			fs = append(fs, term.Tup(gcsStr(k), exprToTerm(n.Fields[k])))
		}
		return term.C("EMap", exprList(n.Array), term.L(fs...))
	}
	panic(fmt.Sprintf("gcsast.go: unknown ast.Expr %T", e))
}

// blockToTerm serialises a *ast.BlockStmt into the Coq type `block`.
func blockToTerm(b *ast.BlockStmt) term.T {
	if b == nil {
		return term.C("BNil")
	}
	out := make([]term.T, 0, len(b.List))
	for _, n := range b.List {
		out = append(out, astToTerm(n))
	}
	return term.C("Block", term.L(out...))
}

func caseToTerm(c *ast.CaseStmt) term.T {
	if c == nil {
		panic("gcsast.go: nil *ast.CaseStmt")
	}
	return term.C("Case", exprToTerm(c.Condition), blockToTerm(c.Body))
}

// stmtToTerm serialises an ast.Stmt into the Coq type `stmt`.
func stmtToTerm(s ast.Stmt) term.T {
	if isNilNode(s) {
		return term.C("SNil")
	}
	switch n := s.(type) {
	case *ast.BlockStmt:
		return term.C("SBlock", blockToTerm(n))
	case *ast.AssignStmt:
		return term.C("SAssign", tokTerm(n.Ident), exprToTerm(n.Val))
	case *ast.LetStmt:
		return term.C("SLet", tokTerm(n.Ident), exprToTerm(n.Val))
	case *ast.ReturnStmt:
		return term.C("SReturn", exprToTerm(n.Val))
	case *ast.CtrlStmt:
		names := []string{"InvalidCtrl", "CtrlBreak", "CtrlContinue", "CtrlFallthrough"}
		if int(n.Typ) < 0 || int(n.Typ) >= len(names) {
			panic("gcsast.go: CtrlTyp out of range")
		}
		return term.C("SCtrl", term.C(names[n.Typ]))
	case *ast.IfStmt:
		return term.C("SIf", exprToTerm(n.Condition), blockToTerm(n.IfBlock), stmtToTerm(n.ElseBlock))
	case *ast.SwitchStmt:
		cs := make([]term.T, 0, len(n.Cases))
		for _, c := range n.Cases {
			cs = append(cs, caseToTerm(c))
		}
		return term.C("SSwitch", exprToTerm(n.Condition), term.L(cs...), blockToTerm(n.Default))
	case *ast.CaseStmt:
		return term.C("SCase", caseToTerm(n))
	case *ast.FnStmt:
		return term.C("SFn", tokTerm(n.FunVal), identList(n.Args), blockToTerm(n.Body))
	case *ast.WhileStmt:
		return term.C("SWhile", exprToTerm(n.Condition), blockToTerm(n.WhileBlock))
	case *ast.ForStmt:
		return term.C("SFor", stmtToTerm(n.Init), exprToTerm(n.Cond), stmtToTerm(n.Post), blockToTerm(n.Body))
	}
	panic(fmt.Sprintf("gcsast.go: unknown ast.Stmt %T", s))
}

// astToTerm serialises any ast.Node into the Coq type `node` (GcsAst.v): `NExpr e` for an
// expression (and for a nil node), `NStmt s` for a statement.  Use blockToTerm for
// ActionList.Program.
func astToTerm(n ast.Node) term.T {
	if isNilNode(n) {
		return term.C("NExpr", term.C("ENil"))
	}
	switch x := n.(type) {
	case ast.Expr:
		return term.C("NExpr", exprToTerm(x))
	case ast.Stmt:
		return term.C("NStmt", stmtToTerm(x))
	}
	panic(fmt.Sprintf("gcsast.go: unknown ast.Node %T", n))
}
